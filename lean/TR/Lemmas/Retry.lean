import TR.Model.Retry
/-!
# Retry: per-request invariant, log/ghost agreement, budget conservation (helper lemmas for C05)
-/
namespace TR.Retry

/-! ## association list: `lookup` / `modify` -/

theorem lookup_modify_self {l : List (Nat × Caller)} {c : Nat} {old v : Caller}
    (h : lookup l c = some old) : lookup (modify l c v) c = some v := by
  induction l with
  | nil => simp [lookup] at h
  | cons p tl ih =>
    obtain ⟨k, x⟩ := p
    by_cases hk : k = c
    · simp [modify, lookup, hk]
    · simp [lookup, hk] at h
      simp [modify, lookup, hk, ih h]

theorem lookup_modify_ne {l : List (Nat × Caller)} {c c' : Nat} {v : Caller} (hne : c' ≠ c) :
    lookup (modify l c v) c' = lookup l c' := by
  induction l with
  | nil => simp [modify]
  | cons p tl ih =>
    obtain ⟨k, x⟩ := p
    by_cases hk : k = c
    · subst hk
      have : ¬ k = c' := fun h => hne h.symm
      simp [modify, lookup, this]
    · by_cases hk' : k = c'
      · subst hk'
        simp [modify, lookup, hk]
      · simp [modify, lookup, hk, hk', ih]

/-- sum of a per-request quantity over all requests -/
def gsum (f : Caller → Nat) : List (Nat × Caller) → Nat
  | [] => 0
  | (_, x) :: tl => f x + gsum f tl

theorem gsum_modify {f : Caller → Nat} {l : List (Nat × Caller)} {c : Nat} {old v : Caller}
    (h : lookup l c = some old) : gsum f (modify l c v) + f old = gsum f l + f v := by
  induction l with
  | nil => simp [lookup] at h
  | cons p tl ih =>
    obtain ⟨k, x⟩ := p
    by_cases hk : k = c
    · simp [lookup, hk] at h
      subst h
      simp [modify, gsum, hk]; omega
    · simp [lookup, hk] at h
      have := ih h
      simp [modify, gsum, hk]; omega

theorem gsum_le {f g : Caller → Nat} {l : List (Nat × Caller)}
    (h : ∀ p ∈ l, f p.2 ≤ g p.2) : gsum f l ≤ gsum g l := by
  induction l with
  | nil => simp [gsum]
  | cons p tl ih =>
    obtain ⟨k, x⟩ := p
    have h1 := h (k, x) (by simp)
    have h2 := ih (fun p hp => h p (by simp [hp]))
    simp [gsum] at *; omega

theorem mem_of_lookup {l : List (Nat × Caller)} {c : Nat} {cl : Caller}
    (h : lookup l c = some cl) : (c, cl) ∈ l := by
  induction l with
  | nil => simp [lookup] at h
  | cons p tl ih =>
    obtain ⟨k, x⟩ := p
    by_cases hk : k = c
    · simp [lookup, hk] at h; subst h; subst hk; simp
    · simp [lookup, hk] at h; simp [ih h]

theorem mem_modify {l : List (Nat × Caller)} {c : Nat} {v : Caller} {p : Nat × Caller}
    (h : p ∈ modify l c v) : p ∈ l ∨ p.2 = v := by
  induction l with
  | nil => simp [modify] at h
  | cons q tl ih =>
    obtain ⟨k, x⟩ := q
    by_cases hk : k = c
    · simp [modify, hk] at h
      rcases h with h | h
      · right; simp [h]
      · left; simp [h]
    · simp [modify, hk] at h
      rcases h with h | h
      · left; simp [h]
      · rcases ih h with h' | h'
        · left; simp [h']
        · right; exact h'

/-! ## the loop's verdict -/

theorem classify_retry {cfg : Cfg} {b : BState} {maxA att : Nat} {o : Out}
    (h : (classify cfg b maxA att o).v = .retry) :
    (∃ kd, o = .err kd ∧ cfg.pred kd = true) ∧ att + 2 ≤ maxA ∧ (classify cfg b maxA att o).deps = 0 ∧
    ((cfg.budget = none ∧ (classify cfg b maxA att o).grants = []) ∨
     (cfg.budget ≠ none ∧ (classify cfg b maxA att o).grants = [true])) := by
  unfold classify at h ⊢
  cases o with
  | ok => cases hb : cfg.budget <;> simp [hb] at h
  | panic => simp at h
  | never => simp at h
  | err kd =>
    by_cases hp : cfg.pred kd = false
    · simp [hp] at h
    · by_cases hm : maxA ≤ att + 1
      · simp [hp, hm] at h
      · cases hb : cfg.budget with
        | none => simp [hp, hm]; omega
        | some bu =>
          by_cases hw : (bu.withdraw b).1 = true
          · simp [hp, hm, hw]; omega
          · simp [hp, hm, hb, hw] at h

theorem classify_stop {cfg : Cfg} {b : BState} {maxA att : Nat} {o : Out}
    (h : (classify cfg b maxA att o).v = .stop) :
    ((classify cfg b maxA att o).grants = [] ∨
      (cfg.budget ≠ none ∧ (classify cfg b maxA att o).grants = [false])) ∧
    (o = .ok ∨ o = .panic ∨ o = .never ∨
      ∃ kd, o = .err kd ∧ (cfg.pred kd = false ∨ maxA ≤ att + 1 ∨
        (cfg.budget ≠ none ∧ (classify cfg b maxA att o).grants = [false]))) := by
  unfold classify at h ⊢
  cases o with
  | ok => cases hb : cfg.budget <;> simp
  | panic => simp
  | never => simp
  | err kd =>
    by_cases hp : cfg.pred kd = false
    · simp [hp]
    · by_cases hm : maxA ≤ att + 1
      · simp [hp, hm]
      · cases hb : cfg.budget with
        | none => simp [hp, hm, hb] at h
        | some bu =>
          by_cases hw : (bu.withdraw b).1 = true
          · simp [hp, hm, hb, hw] at h
          · simp [hp, hm, hw]

/-! ## the per-request invariant -/

def ctTrue (l : List Bool) : Nat := l.count true

/-- the attempt failed with an error the predicate accepts -/
def Retryable (cfg : Cfg) (a : Att) : Prop := ∃ kd, a.out = .err kd ∧ cfg.pred kd = true

/-- `[f (n-1), …, f 1, f 0]` -/
def boList (f : Nat → Nat) : Nat → List Nat
  | 0 => []
  | n + 1 => f n :: boList f n

/-- the timer never rounds down: the rounded delay (ms) covers the configured one (µs) -/
theorem le_ceilMs (us : Nat) : us ≤ ceilMs us * 1000 := by
  unfold ceilMs; omega

/-- … and it rounds up to the *first* millisecond boundary: less than one millisecond is added -/
theorem ceilMs_lt (us : Nat) : ceilMs us * 1000 < us + 1000 := by
  unfold ceilMs; omega

theorem ceilMs_zero : ceilMs 0 = 0 := by decide

/-- a timer armed at `t` (ms) for `b` µs fires at the first millisecond boundary at or after `t·1000 + b` µs -/
theorem ceil_window (t u b : Nat) (hu : u = t + ceilMs b) :
    t * 1000 + b ≤ u * 1000 ∧ u * 1000 < t * 1000 + b + 1000 ∧ (0 < b → t < u) := by
  subst hu; unfold ceilMs; omega

/-- whole milliseconds are kept -/
theorem ceilMs_whole (ms : Nat) : ceilMs (ms * 1000) = ms := by
  unfold ceilMs; omega

/-- Well-formed attempt history (newest first): attempts are numbered 0,1,2,…; an inner call is
observed no earlier than it is ready; every attempt that has a successor failed with an error the
predicate accepts, was observed at some instant `t` (ms), and its successor started no earlier than
`t + ⌈backoff(idx)/1000⌉` ms (the back-off is in µs, the timer rounds it up); attempt number `i` has the outcome and the latency of step `i` of the request's
script (`ok` at once when the script is exhausted, as the harness's inner service does). -/
def Hist (cfg : Cfg) (script : List Step) : List Att → Prop
  | [] => True
  | a :: tl =>
      a.idx = tl.length ∧ a.out = (script.getD a.idx { lat := 0, out := .ok }).out ∧
      a.due = a.start + (script.getD a.idx { lat := 0, out := .ok }).lat ∧
      (∀ t, a.seen = some t → a.due ≤ t) ∧
      (∀ p, tl.head? = some p → Retryable cfg p ∧ ∃ t, p.seen = some t ∧ t + ceilMs (cfg.backoff p.idx) ≤ a.start) ∧
      Hist cfg script tl

/-- why a finished request stopped at attempt `a` -/
def StopReason (cfg : Cfg) (cl : Caller) (a : Att) : Prop :=
  a.out = .ok ∨ a.out = .panic ∨
  ∃ kd, a.out = .err kd ∧
    (cfg.pred kd = false ∨ cl.maxA ≤ a.idx + 1 ∨ (cfg.budget ≠ none ∧ cl.grants.head? = some false))

def PhaseInv (cfg : Cfg) (cl : Caller) : Prop :=
  match cl.phase with
  | .fresh => cl.atts = [] ∧ cl.sleeps = []
  | .calling k due o =>
      ∃ a tl, cl.atts = a :: tl ∧ a.k = k ∧ a.out = o ∧ a.due = due ∧ a.seen = none ∧
        cl.sleeps.length = tl.length
  | .sleeping u =>
      ∃ a tl t, cl.atts = a :: tl ∧ a.seen = some t ∧ u = t + ceilMs (cfg.backoff a.idx) ∧ Retryable cfg a ∧
        cl.sleeps.length = tl.length + 1 ∧ tl.length + 2 ≤ cl.maxA
  | .done =>
      ∃ a tl t, cl.atts = a :: tl ∧ a.seen = some t ∧ cl.result = some (resOf a.k a.out) ∧
        a.out ≠ .never ∧ StopReason cfg cl a ∧ cl.sleeps.length = tl.length
  | .dropped => True

structure CInv (cfg : Cfg) (cl : Caller) : Prop where
  attempt     : cl.attempt = cl.atts.length - 1
  hist        : Hist cfg cl.plan0 cl.atts
  planInv     : cl.plan = cl.plan0.drop cl.atts.length
  bound       : cl.atts.length ≤ max 1 cl.maxA
  sleeps      : cl.sleeps = boList cfg.backoff cl.sleeps.length
  sleepsLen   : cl.atts.length ≤ cl.sleeps.length + 1 ∧ cl.sleeps.length ≤ cl.atts.length
  grantsTail  : ∀ g ∈ cl.grants.tail, g = true
  grantsLive  : cl.phase ≠ .done → ∀ g ∈ cl.grants, g = true
  grantsNone  : cfg.budget = none → cl.grants = []
  grantsCount : cfg.budget ≠ none → ctTrue cl.grants = cl.sleeps.length
  resultDone  : cl.result ≠ none → cl.phase = .done
  phase       : PhaseInv cfg cl

theorem cinv_new (cfg : Cfg) (m : Nat) (plan : List Step) : CInv cfg { maxA := m, plan := plan } := by
  constructor <;> simp [Hist, boList, PhaseInv, ctTrue]

theorem headD_drop (l : List Step) (n : Nat) (d : Step) : (l.drop n).headD d = l.getD n d := by
  simp [List.headD_eq_head?_getD, List.head?_drop, List.getD_eq_getElem?_getD]

theorem hist_seenNow {cfg : Cfg} {sc : List Step} {now : Nat} {a : Att} {tl : List Att}
    (h : Hist cfg sc (a :: tl)) (hd : a.due ≤ now) : Hist cfg sc (seenNow now (a :: tl)) := by
  simp only [Hist, seenNow] at h ⊢
  obtain ⟨h1, h2, h3, _, h5, h6⟩ := h
  refine ⟨h1, h2, h3, ?_, h5, h6⟩
  intro t ht; simp at ht; omega

/-- the first attempt: `fresh → calling 0` -/
theorem startCall_fresh_inv {cfg : Cfg} {now serial : Nat} {b : BState} {c : Nat} {cl : Caller}
    (h : CInv cfg cl) (hp : cl.phase = .fresh) : CInv cfg (startCall now serial b c cl 0).cl := by
  have hph := h.phase
  simp only [PhaseInv, hp] at hph
  obtain ⟨ha, hs⟩ := hph
  have hg := h.grantsLive (by simp [hp])
  have hr : cl.result = none := by
    cases hres : cl.result with
    | none => rfl
    | some r => have := h.resultDone (by simp [hres]); simp [hp] at this
  have hpl := h.planInv
  rw [ha] at hpl
  constructor
  · simp [startCall, ha]
  · simp only [startCall, ha, Hist, hpl, headD_drop]
    simp
  · simp [startCall, ha, hpl]
  · simp [startCall, ha]; omega
  · simpa [startCall] using h.sleeps
  · simp [startCall, ha, hs]
  · simpa [startCall] using h.grantsTail
  · intro _; simpa [startCall] using hg
  · simpa [startCall] using h.grantsNone
  · simpa [startCall] using h.grantsCount
  · simp [startCall, hr]
  · simp only [startCall, PhaseInv, ha]
    exact ⟨_, _, rfl, rfl, rfl, rfl, rfl, by simp [hs]⟩

/-- a retry: `sleeping → calling (attempt+1)` once the back-off has elapsed -/
theorem startCall_sleeping_inv {cfg : Cfg} {now serial : Nat} {b : BState} {c u : Nat} {cl : Caller}
    (h : CInv cfg cl) (hp : cl.phase = .sleeping u) (hu : u ≤ now) :
    CInv cfg (startCall now serial b c cl (cl.attempt + 1)).cl := by
  have hph := h.phase
  simp only [PhaseInv, hp] at hph
  obtain ⟨a, tl, t, ha, hseen, hu', hret, hsl, hroom⟩ := hph
  have hg := h.grantsLive (by simp [hp])
  have hatt := h.attempt
  have hh := h.hist
  have hr : cl.result = none := by
    cases hres : cl.result with
    | none => rfl
    | some r => have := h.resultDone (by simp [hres]); simp [hp] at this
  rw [ha] at hatt hh
  simp at hatt
  have hpl := h.planInv
  rw [ha] at hpl
  constructor
  · simp [startCall, ha, hatt]
  · simp only [startCall, ha, Hist, hpl, headD_drop]
    refine ⟨by simp [hatt], by simp [hatt], by simp [hatt], by simp, ?_, hh⟩
    intro p hp'
    simp at hp'; subst hp'
    exact ⟨hret, t, hseen, by omega⟩
  · simp [startCall, ha, hpl]
  · simp [startCall, ha]; omega
  · simpa [startCall] using h.sleeps
  · simp [startCall, ha, hsl]
  · simpa [startCall] using h.grantsTail
  · intro _; simpa [startCall] using hg
  · simpa [startCall] using h.grantsNone
  · simpa [startCall] using h.grantsCount
  · simp [startCall, hr]
  · simp only [startCall, PhaseInv, ha]
    exact ⟨_, _, rfl, rfl, rfl, rfl, rfl, by simp [hsl]⟩

theorem length_seenNow (now : Nat) (l : List Att) : (seenNow now l).length = l.length := by
  cases l <;> simp [seenNow]

theorem map_k_seenNow (now : Nat) (l : List Att) : (seenNow now l).map (·.k) = l.map (·.k) := by
  cases l <;> simp [seenNow]

theorem ctTrue_cons_true (l : List Bool) : ctTrue (true :: l) = ctTrue l + 1 := by simp [ctTrue]
theorem ctTrue_cons_false (l : List Bool) : ctTrue (false :: l) = ctTrue l := by simp [ctTrue]

/-- the outcome of the running attempt is observed: `calling → done | sleeping` -/
theorem observe_inv {cfg : Cfg} {now serial : Nat} {b : BState} {c k due : Nat} {o : Out} {cl : Caller}
    (h : CInv cfg cl) (hp : cl.phase = .calling k due o) (hd : due ≤ now) (hn : o ≠ .never) :
    CInv cfg (observe cfg now serial b c cl k o).cl := by
  have hph := h.phase
  simp only [PhaseInv, hp] at hph
  obtain ⟨a, tl, ha, hk, ho, hdue, hseen, hsl⟩ := hph
  have hg := h.grantsLive (by simp [hp])
  have hatt := h.attempt
  have hh := h.hist
  have hb := h.bound
  have hr : cl.result = none := by
    cases hres : cl.result with
    | none => rfl
    | some r => have := h.resultDone (by simp [hres]); simp [hp] at this
  rw [ha] at hatt hh hb
  simp at hatt
  have hidx : a.idx = tl.length := hh.1
  have hh' : Hist cfg cl.plan0 (seenNow now (a :: tl)) := hist_seenNow hh (by omega)
  have hpl := h.planInv
  simp only [observe]
  split
  · -- stop
    rename_i hv
    obtain ⟨hgr, hwhy⟩ := classify_stop hv
    constructor
    · simp [ha, seenNow, hatt]
    · simpa [ha] using hh'
    · simpa [length_seenNow] using hpl
    · simpa [ha, seenNow] using hb
    · simpa using h.sleeps
    · simp [ha, seenNow, hsl]
    · rcases hgr with hgr | ⟨_, hgr⟩
      · simpa [hgr] using h.grantsTail
      · simpa [hgr] using hg
    · simp
    · intro hnone
      rcases hgr with hgr | ⟨hne, _⟩
      · simpa [hgr] using h.grantsNone hnone
      · exact absurd hnone hne
    · intro hne
      rcases hgr with hgr | ⟨_, hgr⟩
      · simpa [hgr] using h.grantsCount hne
      · simpa [hgr, ctTrue_cons_false] using h.grantsCount hne
    · simp
    · simp only [PhaseInv, ha, seenNow]
      refine ⟨_, _, now, rfl, rfl, by simp [hk, ho], by simpa [ho] using hn, ?_, by simpa using hsl⟩
      unfold StopReason
      rcases hwhy with hw | hw | hw | ⟨kd, hkd, hw⟩
      · left; simp [ho, hw]
      · right; left; simp [ho, hw]
      · exact absurd hw hn
      · right; right
        refine ⟨kd, by simp [ho, hkd], ?_⟩
        rcases hw with hw | hw | ⟨hne, hw⟩
        · left; exact hw
        · right; left; simp [hidx]; omega
        · right; right; exact ⟨hne, by simp [hw]⟩
  · -- retry
    rename_i hv
    obtain ⟨⟨kd, hkd, hpred⟩, hroom, _, hgr⟩ := classify_retry hv
    constructor
    · simp [ha, seenNow, hatt]
    · simpa [ha] using hh'
    · simpa [length_seenNow] using hpl
    · simpa [ha, seenNow] using hb
    · have := h.sleeps
      simp only [List.length_cons, boList]
      rw [hatt, ← hsl, ← this]
    · simp [ha, seenNow, hsl]
    · rcases hgr with ⟨_, hgr⟩ | ⟨_, hgr⟩
      · simpa [hgr] using h.grantsTail
      · simpa [hgr] using hg
    · intro _
      rcases hgr with ⟨_, hgr⟩ | ⟨_, hgr⟩
      · simpa [hgr] using hg
      · simpa [hgr] using hg
    · intro hnone
      rcases hgr with ⟨_, hgr⟩ | ⟨hne, _⟩
      · simpa [hgr] using h.grantsNone hnone
      · exact absurd hnone hne
    · intro hne
      rcases hgr with ⟨hnone, _⟩ | ⟨_, hgr⟩
      · exact absurd hnone hne
      · simp [hgr, ctTrue_cons_true, h.grantsCount hne]
    · simp [hr]
    · simp only [PhaseInv, ha, seenNow]
      refine ⟨_, _, now, rfl, rfl, by simp [hatt, hidx], ⟨kd, by simp [ho, hkd], hpred⟩, by simp [hsl], by omega⟩

/-! ## the event log and the ghost history agree -/

def isCallOf (c : Nat) : Ev → Option Nat
  | .innerCall c' k => if c' = c then some k else none
  | _ => none

/-- the serials of the `inner_call` events of request `c` in a trace, in order -/
def callsOf (c : Nat) (l : List Ev) : List Nat := l.filterMap (isCallOf c)

/-- the serials of the attempts of a request according to its ghost history, oldest first -/
def serials (cl : Caller) : List Nat := (cl.atts.map (·.k)).reverse

def resultOf (c : Nat) : Ev → Option Res
  | .result c' r => if c' = c then some r else none
  | _ => none

/-- the results delivered to request `c` in a trace -/
def resultsOf (c : Nat) (l : List Ev) : List Res := l.filterMap (resultOf c)

@[simp] theorem callsOf_append (c : Nat) (a b : List Ev) : callsOf c (a ++ b) = callsOf c a ++ callsOf c b := by
  simp [callsOf, List.filterMap_append]
@[simp] theorem resultsOf_append (c : Nat) (a b : List Ev) : resultsOf c (a ++ b) = resultsOf c a ++ resultsOf c b := by
  simp [resultsOf, List.filterMap_append]
@[simp] theorem callsOf_nil (c : Nat) : callsOf c [] = [] := rfl
@[simp] theorem resultsOf_nil (c : Nat) : resultsOf c [] = [] := rfl

/-- what a sequence of loop iterations of request `c`, from `cl` to `o`, guarantees -/
structure Trans (cfg : Cfg) (c : Nat) (cl : Caller) (o : Outp) : Prop where
  inv     : CInv cfg o.cl
  calls   : serials cl ++ callsOf c o.evs = serials o.cl
  results : cl.result.toList ++ resultsOf c o.evs = o.cl.result.toList
  others  : ∀ c', c' ≠ c → callsOf c' o.evs = [] ∧ resultsOf c' o.evs = []
  maxA    : o.cl.maxA = cl.maxA ∧ o.cl.plan0 = cl.plan0

theorem result_none_of_not_done {cfg : Cfg} {cl : Caller} (h : CInv cfg cl) (hp : cl.phase ≠ .done) :
    cl.result = none := by
  cases hres : cl.result with
  | none => rfl
  | some r => exact absurd (h.resultDone (by simp [hres])) hp

theorem tickC_trans {cfg : Cfg} {now serial : Nat} {b : BState} {c : Nat} {cl : Caller} {o : Outp}
    (h : CInv cfg cl) (ht : tickC cfg now serial b c cl = some o) : Trans cfg c cl o := by
  unfold tickC at ht
  split at ht
  · -- fresh
    rename_i hp
    simp at ht; subst ht
    refine ⟨startCall_fresh_inv h hp, ?_, ?_, ?_, ?_⟩
    · simp [startCall, callsOf, isCallOf, serials]
    · simp [startCall, resultsOf, resultOf]
    · intro c' hne
      have : ¬ c = c' := fun e => hne e.symm
      simp [startCall, callsOf, isCallOf, resultsOf, resultOf, this]
    · simp [startCall]
  · -- calling
    rename_i k due out hp
    split at ht
    · rename_i hc
      simp at ht; subst ht
      have hr := result_none_of_not_done h (by simp [hp])
      refine ⟨observe_inv h hp hc.1 hc.2, ?_, ?_, ?_, ?_⟩
      · simp only [observe]; split <;> simp [callsOf, isCallOf, serials, map_k_seenNow]
      · simp only [observe]; split <;> simp [resultsOf, resultOf, hr, List.filterMap_cons]
      · intro c' hne
        have : ¬ c = c' := fun e => hne e.symm
        simp only [observe]; split <;> simp [callsOf, isCallOf, resultsOf, resultOf, this]
      · simp only [observe]; split <;> simp
    · simp at ht
  · -- sleeping
    rename_i u hp
    split at ht
    · rename_i hu
      simp at ht; subst ht
      refine ⟨startCall_sleeping_inv h hp hu, ?_, ?_, ?_, ?_⟩
      · simp [startCall, callsOf, isCallOf, serials]
      · simp [startCall, resultsOf, resultOf]
      · intro c' hne
        have : ¬ c = c' := fun e => hne e.symm
        simp [startCall, callsOf, isCallOf, resultsOf, resultOf, this]
      · simp [startCall]
    · simp at ht
  · simp at ht
  · simp at ht

theorem loopC_trans {cfg : Cfg} {now c : Nat} (f : Nat) :
    ∀ {serial : Nat} {b : BState} {cl : Caller}, CInv cfg cl →
      Trans cfg c cl (loopC cfg now c f serial b cl) := by
  induction f with
  | zero =>
    intro serial b cl h
    exact ⟨h, by simp [loopC], by simp [loopC], by simp [loopC], rfl, rfl⟩
  | succ f ih =>
    intro serial b cl h
    unfold loopC
    cases ht : tickC cfg now serial b c cl with
    | none => exact ⟨h, by simp, by simp, by simp, rfl, rfl⟩
    | some o =>
      have t1 := tickC_trans h ht
      have t2 := ih (serial := o.serial) (b := o.b) t1.inv
      refine ⟨t2.inv, ?_, ?_, ?_, ?_⟩
      · have h1 := t1.calls; have h2 := t2.calls
        simp only [callsOf_append, ← List.append_assoc, h1, h2]
      · have h1 := t1.results; have h2 := t2.results
        simp only [resultsOf_append, ← List.append_assoc, h1, h2]
      · intro c' hne
        have h1 := t1.others c' hne; have h2 := t2.others c' hne
        simp [h1, h2]
      · simp [t2.maxA.1, t1.maxA.1, t2.maxA.2, t1.maxA.2]

/-! ## the invariant of every reachable state -/

/-- serials of the inner calls made so far by request `c` according to the ghost history -/
def nCalls (s : State) (c : Nat) : List Nat :=
  match lookup s.callers c with
  | some cl => serials cl
  | none => []

/-- the result delivered to request `c` according to the ghost history -/
def resOfC (s : State) (c : Nat) : Option Res :=
  match lookup s.callers c with
  | some cl => cl.result
  | none => none

structure SInv (cfg : Cfg) (s : State) : Prop where
  all     : ∀ p ∈ s.callers, CInv cfg p.2
  calls   : ∀ c, callsOf c s.log = nCalls s c
  results : ∀ c, resultsOf c s.log = (resOfC s c).toList

theorem drop_inv {cfg : Cfg} {cl : Caller} (h : CInv cfg cl) (hp : cl.phase ≠ .done) :
    CInv cfg { cl with phase := .dropped } := by
  have hr := result_none_of_not_done h hp
  constructor
  · exact h.attempt
  · exact h.hist
  · exact h.planInv
  · exact h.bound
  · exact h.sleeps
  · exact h.sleepsLen
  · exact h.grantsTail
  · intro _; exact h.grantsLive hp
  · exact h.grantsNone
  · exact h.grantsCount
  · simp [hr]
  · simp [PhaseInv]

/-- events that are neither an inner call nor a result leave the per-request counts alone -/
theorem sinv_emit_neutral {cfg : Cfg} {s : State} {evs : List Ev} (h : SInv cfg s)
    (b : BState) (d o : Nat)
    (h1 : ∀ c, callsOf c evs = []) (h2 : ∀ c, resultsOf c evs = []) :
    SInv cfg (emit { s with b := b, deposits := d, others := o } evs) := by
  refine ⟨h.all, ?_, ?_⟩
  · intro c; have := h.calls c; simp [emit, nCalls, h1] at *; exact this
  · intro c; have := h.results c; simp [emit, resOfC, h2] at *; exact this

theorem sinv_init (cfg : Cfg) : SInv cfg (init cfg) := by
  refine ⟨by simp [init], ?_, ?_⟩ <;> intro c <;> simp [init, nCalls, resOfC, lookup]

theorem sinv_arrive {cfg : Cfg} {s : State} (h : SInv cfg s) (c : Nat) (ma : Option Nat) (plan : List Step) :
    SInv cfg (arriveS cfg s c ma plan) := by
  unfold arriveS
  cases hl : lookup s.callers c with
  | some _ => exact h
  | none =>
    refine ⟨?_, ?_, ?_⟩
    · intro p hp
      simp at hp
      rcases hp with hp | hp
      · subst hp; exact cinv_new cfg _ _
      · exact h.all p hp
    · intro c'
      have := h.calls c'
      by_cases hc : c = c'
      · subst hc; simp [nCalls, lookup, hl] at *; exact this
      · simp [nCalls, lookup, hc] at *; exact this
    · intro c'
      have := h.results c'
      by_cases hc : c = c'
      · subst hc; simp [resOfC, lookup, hl] at *; exact this
      · simp [resOfC, lookup, hc] at *; exact this

theorem sinv_poll {cfg : Cfg} {s : State} (h : SInv cfg s) (c : Nat) : SInv cfg (pollS cfg s c) := by
  unfold pollS
  cases hl : lookup s.callers c with
  | none => exact h
  | some cl =>
    have hc := h.all _ (mem_of_lookup hl)
    have t := loopC_trans (cfg := cfg) (now := s.now) (c := c) (fuel cl) (serial := s.serial) (b := s.b) hc
    refine ⟨?_, ?_, ?_⟩
    · intro p hp
      rcases mem_modify hp with hp | hp
      · exact h.all p hp
      · rw [hp]; exact t.inv
    · intro c'
      have := h.calls c'
      by_cases hcc : c' = c
      · subst hcc
        have h2 := t.calls
        simp [nCalls, lookup_modify_self hl, hl] at *
        rw [this, h2]
      · have h2 := (t.others c' hcc).1
        simp [nCalls, lookup_modify_ne hcc, h2] at *
        exact this
    · intro c'
      have := h.results c'
      by_cases hcc : c' = c
      · subst hcc
        have h2 := t.results
        simp [resOfC, lookup_modify_self hl, hl] at *
        rw [this, h2]
      · have h2 := (t.others c' hcc).2
        simp [resOfC, lookup_modify_ne hcc, h2] at *
        exact this

theorem sinv_modify_dropped {cfg : Cfg} {s : State} (h : SInv cfg s) {c : Nat} {cl : Caller}
    (hl : lookup s.callers c = some cl) (hp : cl.phase ≠ .done) (evs : List Ev)
    (h1 : ∀ c, callsOf c evs = []) (h2 : ∀ c, resultsOf c evs = []) :
    SInv cfg (emit { s with callers := modify s.callers c { cl with phase := .dropped } } evs) := by
  have hc := h.all _ (mem_of_lookup hl)
  refine ⟨?_, ?_, ?_⟩
  · intro p hp'
    rcases mem_modify hp' with hp' | hp'
    · exact h.all p hp'
    · rw [hp']; exact drop_inv hc hp
  · intro c'
    have := h.calls c'
    by_cases hcc : c' = c
    · subst hcc; simp [emit, nCalls, lookup_modify_self hl, hl, h1] at *; exact this
    · simp [emit, nCalls, lookup_modify_ne hcc, h1] at *; exact this
  · intro c'
    have := h.results c'
    by_cases hcc : c' = c
    · subst hcc; simp [emit, resOfC, lookup_modify_self hl, hl, h2] at *; exact this
    · simp [emit, resOfC, lookup_modify_ne hcc, h2] at *; exact this

theorem emit_nil (s : State) : emit s [] = s := by simp [emit]

theorem sinv_drop {cfg : Cfg} {s : State} (h : SInv cfg s) (c : Nat) : SInv cfg (dropS s c) := by
  unfold dropS
  split
  · exact h
  · rename_i cl hl
    split
    · exact h
    · exact h
    · rename_i k due o hp
      exact sinv_modify_dropped h hl (by simp [hp]) _ (by intro c; simp [callsOf, isCallOf])
        (by intro c; simp [resultsOf, resultOf])
    · rename_i hnd _ _
      have := sinv_modify_dropped h hl (fun e => hnd e) [] (by simp) (by simp)
      rwa [emit_nil] at this

theorem sinv_step {cfg : Cfg} {s : State} (h : SInv cfg s) (op : Op) : SInv cfg (stepS cfg s op) := by
  have neutral : ∀ (b : BState) (d o : Nat) (e : Ev), isCallOf 0 e = none → resultOf 0 e = none →
      (∀ c, isCallOf c e = isCallOf 0 e) → (∀ c, resultOf c e = resultOf 0 e) →
      SInv cfg (emit { s with b := b, deposits := d, others := o } [e]) := by
    intro b d o e h1 h2 h3 h4
    exact sinv_emit_neutral h b d o (by intro c; simp [callsOf, h3, h1])
      (by intro c; simp [resultsOf, h4, h2])
  cases op with
  | adv ms => exact ⟨h.all, h.calls, h.results⟩
  | arrive c ma plan => exact sinv_arrive h c ma plan
  | poll c => exact sinv_poll h c
  | drop c => exact sinv_drop h c
  | probeBalance =>
    simp only [stepS]
    split
    · exact neutral s.b s.deposits s.others _ rfl rfl (fun _ => rfl) (fun _ => rfl)
    · exact neutral s.b s.deposits s.others _ rfl rfl (fun _ => rfl) (fun _ => rfl)
  | probeLimit => exact neutral s.b s.deposits s.others _ rfl rfl (fun _ => rfl) (fun _ => rfl)
  | deposit =>
    simp only [stepS]
    split
    · exact neutral _ _ s.others _ rfl rfl (fun _ => rfl) (fun _ => rfl)
    · exact neutral s.b s.deposits s.others _ rfl rfl (fun _ => rfl) (fun _ => rfl)
  | withdraw =>
    simp only [stepS]
    split
    · exact neutral _ s.deposits _ _ rfl rfl (fun _ => rfl) (fun _ => rfl)
    · exact neutral s.b s.deposits s.others _ rfl rfl (fun _ => rfl) (fun _ => rfl)
  | invalid => exact neutral s.b s.deposits s.others _ rfl rfl (fun _ => rfl) (fun _ => rfl)

theorem foldl_inv {cfg : Cfg} (P : State → Prop) (hstep : ∀ s op, P s → P (stepS cfg s op))
    (ops : List Op) : ∀ s, P s → P (ops.foldl (stepS cfg) s) := by
  induction ops with
  | nil => intro s h; exact h
  | cons op tl ih => intro s h; exact ih _ (hstep s op h)

/-- every reachable state satisfies the invariant -/
theorem sinv_reachable (cfg : Cfg) (ops : List Op) : SInv cfg (run cfg ops) :=
  foldl_inv (SInv cfg) (fun _ op h => sinv_step h op) ops _ (sinv_init cfg)

/-! ## conservation of the shared budget (sequential semantics) -/

/-- every grant takes at least `cost` tokens, a refusal creates none, a deposit adds at most `amount` -/
structure Conserving (cost amount : Nat) (bu : Budget) : Prop where
  grant   : ∀ b, (bu.withdraw b).1 = true → (bu.withdraw b).2.tokens + cost ≤ b.tokens
  refuse  : ∀ b, (bu.withdraw b).1 = false → (bu.withdraw b).2.tokens ≤ b.tokens
  deposit : ∀ b, (bu.deposit b).tokens ≤ b.tokens + amount

theorem bucket_conserving (maxT : Nat) : Conserving 1 1 (bucket maxT) := by
  constructor
  · intro b h
    by_cases hc : 1 ≤ b.tokens
    · simp [bucket, hc]
    · simp [bucket, hc] at h
  · intro b h
    by_cases hc : 1 ≤ b.tokens
    · simp [bucket, hc] at h
    · simp [bucket, hc]
  · intro b; simp only [bucket]; omega

theorem aimd_conserving (minB maxB dep wd q : Nat) : Conserving wd dep (aimd minB maxB dep wd q) := by
  constructor
  · intro b h
    by_cases hc : b.tokens < wd
    · simp [aimd, hc] at h
    · simp [aimd, hc]; omega
  · intro b h
    by_cases hc : b.tokens < wd
    · simp [aimd, hc]
    · simp [aimd, hc] at h
  · intro b; simp only [aimd]; omega

/-- the configured budget (if any) is conserving -/
def BudgetOK (cost amount : Nat) (cfg : Cfg) : Prop := ∀ bu, cfg.budget = some bu → Conserving cost amount bu

/-- tokens taken by request `cl` so far -/
def spent (cost : Nat) (cl : Caller) : Nat := ctTrue cl.grants * cost

theorem ctTrue_append (a b : List Bool) : ctTrue (a ++ b) = ctTrue a + ctTrue b := by
  simp [ctTrue, List.count_append]

theorem classify_conserve {cfg : Cfg} {cost amount : Nat} (hb : BudgetOK cost amount cfg)
    (b : BState) (maxA att : Nat) (o : Out) :
    ctTrue (classify cfg b maxA att o).grants * cost + (classify cfg b maxA att o).b.tokens
      ≤ b.tokens + (classify cfg b maxA att o).deps * amount := by
  unfold classify
  cases o with
  | ok =>
    cases hbu : cfg.budget with
    | none => simp [ctTrue]
    | some bu => have := (hb bu hbu).deposit b; simp [ctTrue]; omega
  | panic => simp [ctTrue]
  | never => simp [ctTrue]
  | err kd =>
    by_cases hp : cfg.pred kd = false
    · simp [hp, ctTrue]
    · by_cases hm : maxA ≤ att + 1
      · simp [hp, hm, ctTrue]
      · cases hbu : cfg.budget with
        | none => simp [hp, hm, ctTrue]
        | some bu =>
          by_cases hw : (bu.withdraw b).1 = true
          · have := (hb bu hbu).grant b hw; simp [hp, hm, hw, ctTrue]; omega
          · have := (hb bu hbu).refuse b (by simpa using hw); simp [hp, hm, hw, ctTrue]; omega

theorem tickC_conserve {cfg : Cfg} {cost amount : Nat} (hb : BudgetOK cost amount cfg)
    {now serial : Nat} {b : BState} {c : Nat} {cl : Caller} {o : Outp}
    (ht : tickC cfg now serial b c cl = some o) :
    spent cost o.cl + o.b.tokens ≤ spent cost cl + b.tokens + o.deps * amount := by
  unfold tickC at ht
  split at ht
  · simp at ht; subst ht; simp [startCall, spent]
  · split at ht
    · simp at ht; subst ht
      have := classify_conserve hb b cl.maxA cl.attempt (by assumption)
      simp only [observe]
      split <;> simp [spent, ctTrue_append, Nat.add_mul] <;> omega
    · simp at ht
  · split at ht
    · simp at ht; subst ht; simp [startCall, spent]
    · simp at ht
  · simp at ht
  · simp at ht

theorem loopC_conserve {cfg : Cfg} {cost amount : Nat} (hb : BudgetOK cost amount cfg) {now c : Nat} (f : Nat) :
    ∀ {serial : Nat} {b : BState} {cl : Caller},
      spent cost (loopC cfg now c f serial b cl).cl + (loopC cfg now c f serial b cl).b.tokens
        ≤ spent cost cl + b.tokens + (loopC cfg now c f serial b cl).deps * amount := by
  induction f with
  | zero => intro serial b cl; simp [loopC]
  | succ f ih =>
    intro serial b cl
    unfold loopC
    cases ht : tickC cfg now serial b c cl with
    | none => simp
    | some o =>
      have h1 := tickC_conserve hb ht
      have h2 := ih (serial := o.serial) (b := o.b) (cl := o.cl)
      simp [Nat.add_mul]; omega

/-- conservation over all requests sharing the budget and its other users -/
def GInv (cost amount : Nat) (cfg : Cfg) (s : State) : Prop :=
  gsum (spent cost) s.callers + s.others * cost + s.b.tokens ≤ cfg.b0.tokens + s.deposits * amount

theorem ginv_step {cfg : Cfg} {cost amount : Nat} (hb : BudgetOK cost amount cfg) {s : State}
    (h : GInv cost amount cfg s) (op : Op) : GInv cost amount cfg (stepS cfg s op) := by
  unfold GInv at h ⊢
  cases op with
  | adv ms => exact h
  | arrive c ma plan =>
    simp only [stepS, arriveS]
    split
    · exact h
    · simp [gsum, spent, ctTrue]; exact h
  | poll c =>
    simp only [stepS, pollS]
    split
    · exact h
    · rename_i cl hl
      have h1 := loopC_conserve hb (now := s.now) (c := c) (fuel cl) (serial := s.serial) (b := s.b) (cl := cl)
      have h2 := gsum_modify (f := spent cost) (v := (loopC cfg s.now c (fuel cl) s.serial s.b cl).cl) hl
      simp [Nat.add_mul]; omega
  | drop c =>
    simp only [stepS, dropS]
    split
    · exact h
    · rename_i cl hl
      split
      · exact h
      · exact h
      · have h2 := gsum_modify (f := spent cost) (v := { cl with phase := .dropped }) hl
        simp [emit, spent] at *; omega
      · have h2 := gsum_modify (f := spent cost) (v := { cl with phase := .dropped }) hl
        simp [spent] at *; omega
  | probeBalance => simp only [stepS]; split <;> simpa [emit] using h
  | probeLimit => simpa [stepS, emit] using h
  | deposit =>
    simp only [stepS]
    split
    · rename_i bu hbu
      have := (hb bu hbu).deposit s.b
      simp [emit, Nat.add_mul]; omega
    · simpa [emit] using h
  | withdraw =>
    simp only [stepS]
    split
    · rename_i bu hbu
      by_cases hw : (bu.withdraw s.b).1 = true
      · have := (hb bu hbu).grant s.b hw
        simp [emit, hw, Nat.add_mul]; omega
      · have := (hb bu hbu).refuse s.b (by simpa using hw)
        simp [emit, hw]; omega
    · simpa [emit] using h
  | invalid => simpa [stepS, emit] using h

theorem ginv_reachable {cfg : Cfg} {cost amount : Nat} (hb : BudgetOK cost amount cfg) (ops : List Op) :
    GInv cost amount cfg (run cfg ops) :=
  foldl_inv (GInv cost amount cfg) (fun _ op h => ginv_step hb h op) ops _
    (by simp [GInv, init, gsum])

theorem gsum_mul (f : Caller → Nat) (k : Nat) (l : List (Nat × Caller)) :
    gsum (fun cl => f cl * k) l = gsum f l * k := by
  induction l with
  | nil => simp [gsum]
  | cons p tl ih => obtain ⟨c, x⟩ := p; simp [gsum, ih, Nat.add_mul]

/-- retries made so far by a request: its inner calls after the first -/
def retries (cl : Caller) : Nat := cl.atts.length - 1

/-- retries made so far by all requests -/
def totalRetries (s : State) : Nat := gsum retries s.callers

theorem retries_eq (cl : Caller) : retries cl = cl.atts.length - 1 := rfl
theorem totalRetries_eq (s : State) : totalRetries s = gsum retries s.callers := rfl

/-! ## consequences of the history invariant -/

theorem hist_tail {cfg : Cfg} {sc : List Step} : ∀ {tl : List Att} {a : Att}, Hist cfg sc (a :: tl) →
    ∀ q ∈ tl, Retryable cfg q ∧ ∃ t, q.seen = some t := by
  intro tl
  induction tl with
  | nil => intro a _ q hq; simp at hq
  | cons b tl' ih =>
    intro a h q hq
    simp only [Hist] at h
    obtain ⟨_, _, _, _, h5, h6⟩ := h
    simp at hq
    rcases hq with hq | hq
    · subst hq
      obtain ⟨hr, t, ht, _⟩ := h5 q (by simp)
      exact ⟨hr, t, ht⟩
    · exact ih (by simpa [Hist] using h6) q hq

theorem hist_member {cfg : Cfg} {sc : List Step} : ∀ (pre : List Att) {l : List Att} {a : Att} {rest : List Att},
    Hist cfg sc l → l = pre ++ a :: rest →
    a.idx = rest.length ∧ a.out = (sc.getD a.idx { lat := 0, out := .ok }).out ∧
    a.due = a.start + (sc.getD a.idx { lat := 0, out := .ok }).lat ∧ (∀ t, a.seen = some t → a.due ≤ t) := by
  intro pre
  induction pre with
  | nil =>
    intro l a rest h hl
    subst hl
    simp only [List.nil_append, Hist] at h
    exact ⟨h.1, h.2.1, h.2.2.1, h.2.2.2.1⟩
  | cons x pre' ih =>
    intro l a rest h hl
    subst hl
    simp only [List.cons_append, Hist] at h
    exact ih h.2.2.2.2.2 rfl

theorem hist_adjacent {cfg : Cfg} {sc : List Step} : ∀ (pre : List Att) {l : List Att} {p q : Att} {rest : List Att},
    Hist cfg sc l → l = pre ++ p :: q :: rest →
    Retryable cfg q ∧ p.idx = q.idx + 1 ∧ ∃ t, q.seen = some t ∧ q.due ≤ t ∧ t + ceilMs (cfg.backoff q.idx) ≤ p.start := by
  intro pre
  induction pre with
  | nil =>
    intro l p q rest h hl
    subst hl
    simp only [List.nil_append, Hist] at h
    obtain ⟨h1, _, _, _, h5, hq1, _, _, hq4, _⟩ := h
    obtain ⟨hr, t, ht, hle⟩ := h5 q (by simp)
    exact ⟨hr, by simp at h1; omega, t, ht, hq4 t ht, hle⟩
  | cons x pre' ih =>
    intro l p q rest h hl
    subst hl
    simp only [List.cons_append, Hist] at h
    exact ih h.2.2.2.2.2 rfl

/-! ## what one poll does, phase by phase -/

theorem fuel_succ (cl : Caller) : fuel cl = (2 * cl.maxA + 3) + 1 := by simp [fuel]

/-- the first poll of a request calls the inner service in that very step -/
theorem poll_fresh_calls {cfg : Cfg} {s : State} {c : Nat} {cl : Caller}
    (hl : lookup s.callers c = some cl) (hp : cl.phase = .fresh) :
    ∃ rest, (pollS cfg s c).log = s.log ++ Ev.innerCall c s.serial :: rest := by
  simp only [pollS, hl, fuel_succ]
  unfold loopC
  simp only [tickC, hp]
  exact ⟨_, by simp [startCall]; rfl⟩

/-- a request whose back-off has elapsed calls the inner service as soon as it is polled -/
theorem poll_sleeping_calls {cfg : Cfg} {s : State} {c u : Nat} {cl : Caller}
    (hl : lookup s.callers c = some cl) (hp : cl.phase = .sleeping u) (hu : u ≤ s.now) :
    ∃ rest, (pollS cfg s c).log = s.log ++ Ev.innerCall c s.serial :: rest := by
  simp only [pollS, hl, fuel_succ]
  unfold loopC
  simp only [tickC, hp, hu, if_true]
  exact ⟨_, by simp [startCall]; rfl⟩

/-- before the end of the back-off a poll does nothing at all -/
theorem poll_sleeping_waits {cfg : Cfg} {s : State} {c u : Nat} {cl : Caller}
    (hl : lookup s.callers c = some cl) (hp : cl.phase = .sleeping u) (hu : s.now < u) :
    (pollS cfg s c).log = s.log ∧ (pollS cfg s c).b = s.b ∧ (pollS cfg s c).serial = s.serial := by
  have : ¬ u ≤ s.now := by omega
  simp only [pollS, hl, fuel_succ]
  unfold loopC
  simp [tickC, hp, this]

/-- a finished request never acts again -/
theorem poll_done_inert {cfg : Cfg} {s : State} {c : Nat} {cl : Caller}
    (hl : lookup s.callers c = some cl) (hp : cl.phase = .done) :
    (pollS cfg s c).log = s.log ∧ (pollS cfg s c).b = s.b ∧ (pollS cfg s c).serial = s.serial := by
  simp only [pollS, hl, fuel_succ]
  unfold loopC
  simp [tickC, hp]

theorem observe_evs (cfg : Cfg) (now serial : Nat) (b : BState) (c : Nat) (cl : Caller) (k : Nat) (o : Out) :
    ∃ rest, (observe cfg now serial b c cl k o).evs = Ev.innerDone c k o :: rest := by
  simp only [observe]
  split <;> exact ⟨_, rfl⟩

/-- the outcome of a ready inner call is observed by the poll in that very step -/
theorem poll_calling_observes {cfg : Cfg} {s : State} {c k due : Nat} {o : Out} {cl : Caller}
    (hl : lookup s.callers c = some cl) (hp : cl.phase = .calling k due o) (hd : due ≤ s.now)
    (hn : o ≠ .never) :
    ∃ rest, (pollS cfg s c).log = s.log ++ Ev.innerDone c k o :: rest := by
  have ht : tickC cfg s.now s.serial s.b c cl = some (observe cfg s.now s.serial s.b c cl k o) := by
    have : due ≤ s.now ∧ o ≠ .never := ⟨hd, hn⟩
    simp [tickC, hp, this]
  obtain ⟨rest, hr⟩ := observe_evs cfg s.now s.serial s.b c cl k o
  simp only [pollS, hl, fuel_succ]
  unfold loopC
  simp only [ht, hr]
  exact ⟨_, by rw [List.cons_append]⟩

/-! ## the loop fuel never cuts a poll short -/

/-- a bound on the loop iterations a request can still make -/
def rank (cl : Caller) : Nat :=
  match cl.phase with
  | .fresh => 2 * max 1 cl.maxA + 1
  | .calling _ _ _ => 2 * (max 1 cl.maxA - cl.atts.length) + 2
  | .sleeping _ => 2 * (max 1 cl.maxA - cl.atts.length) + 1
  | .done => 0
  | .dropped => 0

theorem rank_le_fuel (cl : Caller) : rank cl ≤ fuel cl := by
  unfold rank fuel
  split <;> omega

theorem tickC_rank {cfg : Cfg} {now serial : Nat} {b : BState} {c : Nat} {cl : Caller} {o : Outp}
    (h : CInv cfg cl) (ht : tickC cfg now serial b c cl = some o) : rank o.cl < rank cl := by
  have hph := h.phase
  unfold tickC at ht
  split at ht
  · rename_i hp
    simp at ht; subst ht
    simp only [PhaseInv, hp] at hph
    simp [rank, hp, startCall, hph.1]; omega
  · rename_i k due out hp
    split at ht
    · simp at ht; subst ht
      simp only [observe]
      split
      · simp [rank, hp]
      · simp [rank, hp, length_seenNow]
    · simp at ht
  · rename_i u hp
    split at ht
    · simp at ht; subst ht
      simp only [PhaseInv, hp] at hph
      obtain ⟨a, tl, t, ha, _, _, _, _, hroom⟩ := hph
      simp [rank, hp, startCall, ha]; omega
    · simp at ht
  · simp at ht
  · simp at ht

theorem tickC_none_of_rank_zero {cfg : Cfg} {now serial : Nat} {b : BState} {c : Nat} {cl : Caller}
    (h : rank cl = 0) : tickC cfg now serial b c cl = none := by
  unfold rank at h
  unfold tickC
  split at h <;> simp_all

theorem loopC_blocked {cfg : Cfg} {now c : Nat} (f : Nat) :
    ∀ {serial : Nat} {b : BState} {cl : Caller}, CInv cfg cl → rank cl ≤ f →
      tickC cfg now (loopC cfg now c f serial b cl).serial (loopC cfg now c f serial b cl).b c
        (loopC cfg now c f serial b cl).cl = none := by
  induction f with
  | zero =>
    intro serial b cl _ hr
    simp only [loopC]
    exact tickC_none_of_rank_zero (by omega)
  | succ f ih =>
    intro serial b cl h hr
    unfold loopC
    cases ht : tickC cfg now serial b c cl with
    | none => simpa using ht
    | some o =>
      have t1 := tickC_trans h ht
      have hlt := tickC_rank h ht
      have := ih (serial := o.serial) (b := o.b) t1.inv (by omega)
      simpa using this

/-- After a poll the request is genuinely blocked (waiting for the inner call or for the end of
the back-off) or finished: one more loop iteration is impossible, so the fuel of `pollS` is never
what stops the loop. -/
theorem poll_runs_until_blocked {cfg : Cfg} {s : State} {c : Nat} {cl : Caller} (hs : SInv cfg s)
    (hl : lookup s.callers c = some cl) :
    ∃ cl', lookup (pollS cfg s c).callers c = some cl' ∧
      tickC cfg (pollS cfg s c).now (pollS cfg s c).serial (pollS cfg s c).b c cl' = none := by
  have hc : CInv cfg cl := hs.all _ (mem_of_lookup hl)
  have hb := loopC_blocked (cfg := cfg) (now := s.now) (c := c) (fuel cl) (serial := s.serial) (b := s.b)
    hc (rank_le_fuel cl)
  refine ⟨(loopC cfg s.now c (fuel cl) s.serial s.b cl).cl, ?_, ?_⟩
  · simp only [pollS, hl]; exact lookup_modify_self hl
  · simp only [pollS, hl]; exact hb

/-! ## `max_attempts` and the script of a request are fixed when it arrives -/

theorem arrive_sets {cfg : Cfg} {s : State} {c : Nat} {ma : Option Nat} {plan : List Step}
    (h : lookup s.callers c = none) :
    ∃ cl, lookup (arriveS cfg s c ma plan).callers c = some cl ∧
      cl.maxA = (if cfg.dyn then ma.getD cfg.max else cfg.max) ∧ cl.plan0 = plan ∧ cl.phase = .fresh := by
  simp [arriveS, h, lookup]

theorem step_keeps {cfg : Cfg} {s : State} {c : Nat} {cl : Caller} (hs : SInv cfg s)
    (h : lookup s.callers c = some cl) (op : Op) :
    ∃ cl', lookup (stepS cfg s op).callers c = some cl' ∧ cl'.maxA = cl.maxA ∧ cl'.plan0 = cl.plan0 := by
  cases op with
  | adv ms => exact ⟨cl, h, rfl, rfl⟩
  | arrive c' ma plan =>
    simp only [stepS, arriveS]
    split
    · exact ⟨cl, h, rfl, rfl⟩
    · rename_i hn
      have : ¬ c' = c := by intro e; subst e; simp [h] at hn
      exact ⟨cl, by simp [lookup, this, h], rfl, rfl⟩
  | poll c' =>
    simp only [stepS, pollS]
    split
    · exact ⟨cl, h, rfl, rfl⟩
    · rename_i cl0 hl
      by_cases hc : c = c'
      · subst hc
        rw [h] at hl; cases hl
        have hci : CInv cfg cl := hs.all _ (mem_of_lookup h)
        have t := loopC_trans (cfg := cfg) (now := s.now) (c := c) (fuel cl) (serial := s.serial) (b := s.b) hci
        exact ⟨_, lookup_modify_self h, t.maxA.1, t.maxA.2⟩
      · exact ⟨cl, by simp [lookup_modify_ne hc, h], rfl, rfl⟩
  | drop c' =>
    simp only [stepS, dropS]
    split
    · exact ⟨cl, h, rfl, rfl⟩
    · rename_i cl0 hl
      by_cases hc : c = c'
      · subst hc
        rw [h] at hl; cases hl
        split
        · exact ⟨cl, h, rfl, rfl⟩
        · exact ⟨cl, h, rfl, rfl⟩
        · exact ⟨{ cl with phase := .dropped }, by simp only [emit]; exact lookup_modify_self h, rfl, rfl⟩
        · exact ⟨{ cl with phase := .dropped }, lookup_modify_self h, rfl, rfl⟩
      · split
        · exact ⟨cl, h, rfl, rfl⟩
        · exact ⟨cl, h, rfl, rfl⟩
        · exact ⟨cl, by simp only [emit]; simp [lookup_modify_ne hc, h], rfl, rfl⟩
        · exact ⟨cl, by simp [lookup_modify_ne hc, h], rfl, rfl⟩
  | probeBalance => simp only [stepS]; split <;> exact ⟨cl, by simpa [emit] using h, rfl, rfl⟩
  | probeLimit => exact ⟨cl, by simpa [stepS, emit] using h, rfl, rfl⟩
  | deposit => simp only [stepS]; split <;> exact ⟨cl, by simpa [emit] using h, rfl, rfl⟩
  | withdraw => simp only [stepS]; split <;> exact ⟨cl, by simpa [emit] using h, rfl, rfl⟩
  | invalid => exact ⟨cl, by simpa [stepS, emit] using h, rfl, rfl⟩

theorem run_append (cfg : Cfg) (a b : List Op) : run cfg (a ++ b) = b.foldl (stepS cfg) (run cfg a) := by
  simp [run, List.foldl_append]

theorem sinv_foldl {cfg : Cfg} (ops : List Op) {s : State} (h : SInv cfg s) : SInv cfg (ops.foldl (stepS cfg) s) :=
  foldl_inv (SInv cfg) (fun _ op h => sinv_step h op) ops _ h

theorem foldl_keeps {cfg : Cfg} (ops : List Op) : ∀ {s : State} {c : Nat} {cl : Caller}, SInv cfg s →
    lookup s.callers c = some cl →
    ∃ cl', lookup (ops.foldl (stepS cfg) s).callers c = some cl' ∧ cl'.maxA = cl.maxA ∧ cl'.plan0 = cl.plan0 := by
  induction ops with
  | nil => intro s c cl _ h; exact ⟨cl, h, rfl, rfl⟩
  | cons op tl ih =>
    intro s c cl hs h
    obtain ⟨cl1, h1, hm, hp⟩ := step_keeps hs h op
    obtain ⟨cl2, h2, hm2, hp2⟩ := ih (sinv_step hs op) h1
    exact ⟨cl2, h2, by rw [hm2, hm], by rw [hp2, hp]⟩

/-! ## the builder: a fold in which the last setter of each setting wins -/

/-- which setting a setter writes: 0 the max-attempts source (`max_attempts` and `max_attempts_fn`), 1 the interval
function (`fixed_backoff` / `exponential_backoff` / `backoff`), 2 the predicate, 3 the budget -/
def Setter.slot : Setter → Nat
  | .maxA _ => 0
  | .maxFn _ => 0
  | .backoff _ => 1
  | .pred _ => 2
  | .budget _ _ _ => 3

theorem foldl_max_keep (l : List Setter) (cfg : Cfg) (h : ∀ s ∈ l, s.slot ≠ 0) :
    (l.foldl applySetter cfg).max = cfg.max ∧ (l.foldl applySetter cfg).dyn = cfg.dyn := by
  induction l generalizing cfg with
  | nil => exact ⟨rfl, rfl⟩
  | cons s tl ih =>
    simp only [List.foldl_cons]
    rw [(ih _ (fun s' hs' => h s' (List.mem_cons_of_mem _ hs'))).1,
        (ih _ (fun s' hs' => h s' (List.mem_cons_of_mem _ hs'))).2]
    have hs := h s List.mem_cons_self
    cases s <;> simp_all [applySetter, Setter.slot]

theorem foldl_backoff_keep (l : List Setter) (cfg : Cfg) (h : ∀ s ∈ l, s.slot ≠ 1) :
    (l.foldl applySetter cfg).backoff = cfg.backoff := by
  induction l generalizing cfg with
  | nil => rfl
  | cons s tl ih =>
    simp only [List.foldl_cons]
    rw [ih _ (fun s' hs' => h s' (List.mem_cons_of_mem _ hs'))]
    have hs := h s List.mem_cons_self
    cases s <;> simp_all [applySetter, Setter.slot]

theorem foldl_pred_keep (l : List Setter) (cfg : Cfg) (h : ∀ s ∈ l, s.slot ≠ 2) :
    (l.foldl applySetter cfg).pred = cfg.pred := by
  induction l generalizing cfg with
  | nil => rfl
  | cons s tl ih =>
    simp only [List.foldl_cons]
    rw [ih _ (fun s' hs' => h s' (List.mem_cons_of_mem _ hs'))]
    have hs := h s List.mem_cons_self
    cases s <;> simp_all [applySetter, Setter.slot]

theorem foldl_budget_keep (l : List Setter) (cfg : Cfg) (h : ∀ s ∈ l, s.slot ≠ 3) :
    (l.foldl applySetter cfg).budget = cfg.budget ∧ (l.foldl applySetter cfg).b0 = cfg.b0 ∧
    (l.foldl applySetter cfg).aimd = cfg.aimd := by
  induction l generalizing cfg with
  | nil => exact ⟨rfl, rfl, rfl⟩
  | cons s tl ih =>
    simp only [List.foldl_cons]
    rw [(ih _ (fun s' hs' => h s' (List.mem_cons_of_mem _ hs'))).1,
        (ih _ (fun s' hs' => h s' (List.mem_cons_of_mem _ hs'))).2.1,
        (ih _ (fun s' hs' => h s' (List.mem_cons_of_mem _ hs'))).2.2]
    have hs := h s List.mem_cons_self
    cases s <;> simp_all [applySetter, Setter.slot]

theorem build_append_cons (pre post : List Setter) (s : Setter) :
    build (pre ++ s :: post) = post.foldl applySetter (applySetter (build pre) s) := by
  simp [build, List.foldl_append]

/-! ## where a request's `max_attempts` comes from -/

/-- an operation other than the arrival of `c` does not create the record of `c` -/
theorem step_none {cfg : Cfg} {s : State} {c : Nat} (h : lookup s.callers c = none) (op : Op)
    (hop : ∀ ma plan, op ≠ .arrive c ma plan) : lookup (stepS cfg s op).callers c = none := by
  cases op with
  | adv ms => exact h
  | arrive c' ma plan =>
    have hne : ¬ c' = c := by intro e; subst e; exact hop ma plan rfl
    simp only [stepS, arriveS]
    split
    · exact h
    · simp [lookup, hne, h]
  | poll c' =>
    simp only [stepS, pollS]
    split
    · exact h
    · rename_i cl0 hl
      have hne : c ≠ c' := by intro e; subst e; simp [h] at hl
      simp [lookup_modify_ne hne, h]
  | drop c' =>
    simp only [stepS, dropS]
    split
    · exact h
    · rename_i cl0 hl
      have hne : c ≠ c' := by intro e; subst e; simp [h] at hl
      split
      · exact h
      · exact h
      · simp only [emit]; simp [lookup_modify_ne hne, h]
      · simp [lookup_modify_ne hne, h]
  | probeBalance => simp only [stepS]; split <;> simpa [emit] using h
  | probeLimit => simpa [stepS, emit] using h
  | deposit => simp only [stepS]; split <;> simpa [emit] using h
  | withdraw => simp only [stepS]; split <;> simpa [emit] using h
  | invalid => simpa [stepS, emit] using h

/-- the `max_attempts` of every request of every reachable state is what the layer's source answered at its arrival:
the fixed value, or with `max_attempts_fn` the request's own value (the extractor's default without one) -/
theorem maxA_origin (cfg : Cfg) (ops : List Op) (c : Nat) (cl : Caller)
    (h : lookup (run cfg ops).callers c = some cl) :
    ∃ ma : Option Nat, cl.maxA = (if cfg.dyn then ma.getD cfg.max else cfg.max) := by
  have key : ∀ s, (SInv cfg s ∧ ∀ c cl, lookup s.callers c = some cl →
        ∃ ma : Option Nat, cl.maxA = (if cfg.dyn then ma.getD cfg.max else cfg.max)) →
      ∀ op, (SInv cfg (stepS cfg s op) ∧ ∀ c cl, lookup (stepS cfg s op).callers c = some cl →
        ∃ ma : Option Nat, cl.maxA = (if cfg.dyn then ma.getD cfg.max else cfg.max)) := by
    intro s ⟨hs, hq⟩ op
    refine ⟨sinv_step hs op, ?_⟩
    intro c cl hl
    cases h0 : lookup s.callers c with
    | some cl0 =>
      obtain ⟨cl1, h1, hm, _⟩ := step_keeps hs h0 op
      rw [h1] at hl; cases hl
      obtain ⟨ma, hma⟩ := hq c cl0 h0
      exact ⟨ma, by rw [hm, hma]⟩
    | none =>
      by_cases hop : ∃ ma plan, op = .arrive c ma plan
      · obtain ⟨ma, plan, rfl⟩ := hop
        obtain ⟨cl1, h1, hm, _⟩ := arrive_sets (cfg := cfg) (ma := ma) (plan := plan) h0
        have h1' : lookup (stepS cfg s (.arrive c ma plan)).callers c = some cl1 := by simpa [stepS] using h1
        rw [h1'] at hl; cases hl
        exact ⟨ma, hm⟩
      · have := step_none (cfg := cfg) h0 op (by intro ma plan e; exact hop ⟨ma, plan, e⟩)
        rw [this] at hl; cases hl
  have := foldl_inv (cfg := cfg) (fun s => SInv cfg s ∧ ∀ c cl, lookup s.callers c = some cl →
        ∃ ma : Option Nat, cl.maxA = (if cfg.dyn then ma.getD cfg.max else cfg.max))
      (fun s op hp => key s hp op) ops (init cfg) ⟨sinv_init cfg, by intro c cl hl; simp [init, lookup] at hl⟩
  exact this.2 c cl h

end TR.Retry
