import TR.Lemmas.Circuit
/-!
# Circuit breaker: the state-level invariant (callers + trace) for every reachable state
-/
namespace TR.Circuit

/-! ## trace summaries -/

def csStep (n : Nat) (p : Nat × CEv) : Nat :=
  match p.2 with
  | .transition _ _ _ => 0
  | .innerCall _ _ => n + 1
  | _ => n
/-- inner calls started since the last transition event -/
def callsSince (l : List (Nat × CEv)) : Nat := l.foldl csStep 0

def tgStep (s : St) (p : Nat × CEv) : St :=
  match p.2 with
  | .transition _ b _ => b
  | _ => s
/-- target of the last transition event (`closed` if none) -/
def lastTarget (l : List (Nat × CEv)) : St := l.foldl tgStep .closed

def ttStep (t : Nat) (p : Nat × CEv) : Nat :=
  match p.2 with
  | .transition _ _ _ => p.1
  | _ => t
/-- instant of the last transition event (0 if none) -/
def lastTrTime (l : List (Nat × CEv)) : Nat := l.foldl ttStep 0

def quiet : CEv → Bool
  | .transition _ _ _ => false
  | .innerCall _ _ => false
  | _ => true

theorem foldl_quiet_cs (t : Nat) (evs : List CEv) (h : ∀ e ∈ evs, quiet e = true) (n : Nat) :
    (evs.map (fun e => (t, e))).foldl csStep n = n := by
  induction evs generalizing n with
  | nil => rfl
  | cons e tl ih =>
    simp only [List.map_cons, List.foldl_cons]
    have he := h e (by simp)
    have : csStep n (t, e) = n := by cases e <;> simp_all [csStep, quiet]
    rw [this]; exact ih (fun e' he' => h e' (by simp [he'])) n

theorem foldl_quiet_tg (t : Nat) (evs : List CEv) (h : ∀ e ∈ evs, quiet e = true) (s : St) :
    (evs.map (fun e => (t, e))).foldl tgStep s = s := by
  induction evs generalizing s with
  | nil => rfl
  | cons e tl ih =>
    simp only [List.map_cons, List.foldl_cons]
    have he := h e (by simp)
    have : tgStep s (t, e) = s := by cases e <;> simp_all [tgStep, quiet]
    rw [this]; exact ih (fun e' he' => h e' (by simp [he'])) s

theorem foldl_quiet_tt (t : Nat) (evs : List CEv) (h : ∀ e ∈ evs, quiet e = true) (n : Nat) :
    (evs.map (fun e => (t, e))).foldl ttStep n = n := by
  induction evs generalizing n with
  | nil => rfl
  | cons e tl ih =>
    simp only [List.map_cons, List.foldl_cons]
    have he := h e (by simp)
    have : ttStep n (t, e) = n := by cases e <;> simp_all [ttStep, quiet]
    rw [this]; exact ih (fun e' he' => h e' (by simp [he'])) n

/-- the three summaries of a trace -/
structure Summ where
  calls  : Nat
  target : St
  time   : Nat
deriving DecidableEq

def summ (l : List (Nat × CEv)) : Summ := ⟨callsSince l, lastTarget l, lastTrTime l⟩

theorem summ_quiet (l : List (Nat × CEv)) (t : Nat) (evs : List CEv) (h : ∀ e ∈ evs, quiet e = true) :
    summ (l ++ evs.map (fun e => (t, e))) = summ l := by
  simp only [summ, callsSince, lastTarget, lastTrTime, List.foldl_append,
    foldl_quiet_cs t evs h, foldl_quiet_tg t evs h, foldl_quiet_tt t evs h]

theorem summ_call (l : List (Nat × CEv)) (t c k : Nat) :
    summ (l ++ [(t, CEv.innerCall c k)]) = { summ l with calls := (summ l).calls + 1 } := by
  simp [summ, callsSince, lastTarget, lastTrTime, List.foldl_append, csStep, tgStep, ttStep]

theorem summ_transition (l : List (Nat × CEv)) (t : Nat) (a b m : St) :
    summ (l ++ [(t, CEv.transition a b m)]) = ⟨0, b, t⟩ := by
  simp [summ, callsSince, lastTarget, lastTrTime, List.foldl_append, csStep, tgStep, ttStep]

/-! ## callers -/

/-- running callers that hold a trial slot of episode `e` -/
def trialsOf (e : Nat) (l : List Caller) : Nat := l.countP (fun r => r.ep == some e)

theorem trialsOf_eraseP (e c : Nat) (l : List Caller) (r : Caller) (h : findRunning l c = some r) :
    trialsOf e (l.eraseP (·.c == c)) + (if r.ep = some e then 1 else 0) = trialsOf e l := by
  induction l with
  | nil => simp [findRunning] at h
  | cons x tl ih =>
    unfold findRunning at h ih
    by_cases hx : (x.c == c) = true
    · have hxr : x = r := by simpa [List.find?_cons, hx] using h
      subst hxr
      simp only [List.eraseP_cons, hx, trialsOf, List.countP_cons]
      by_cases hep : x.ep = some e <;> simp [hep]
    · have hx' : (x.c == c) = false := by simpa using hx
      have h' : List.find? (fun x => x.c == c) tl = some r := by simpa [List.find?_cons, hx'] using h
      have := ih h'
      simp only [List.eraseP_cons, hx', trialsOf, List.countP_cons] at this ⊢
      simp only [Bool.false_eq_true, if_false, List.countP_cons, cond_false]
      omega

theorem mem_of_findRunning (l : List Caller) (c : Nat) (r : Caller) (h : findRunning l c = some r) : r ∈ l :=
  List.mem_of_find?_eq_some h

theorem trialsOf_append (e : Nat) (l : List Caller) (r : Caller) :
    trialsOf e (l ++ [r]) = trialsOf e l + (if r.ep = some e then 1 else 0) := by
  by_cases h : r.ep = some e <;> simp [trialsOf, List.countP_append, List.countP_cons, h]

theorem trialsOf_zero_of_lt (e : Nat) (l : List Caller) (h : ∀ r ∈ l, ∀ e', r.ep = some e' → e' < e) :
    trialsOf e l = 0 := by
  simp only [trialsOf, List.countP_eq_zero]
  intro r hr hep
  have : r.ep = some e := by simpa using hep
  exact absurd (h r hr e this) (by omega)

/-! ## the invariant -/

structure SInv (cfg : Cfg) (s : State) : Prop where
  circ   : CInv cfg s.circ
  trials : s.circ.st = .halfOpen → s.circ.hoAdmitted = trialsOf s.circ.episode s.running + s.circ.ownSucc
  eps    : ∀ r ∈ s.running, ∀ e, r.ep = some e → e ≤ s.circ.episode
  calls  : s.circ.st = .halfOpen → (summ s.log).calls = s.circ.hoAdmitted + s.circ.released
  shield : s.circ.st = .opened → (summ s.log).calls = 0
  target : (summ s.log).target = s.circ.st
  trTime : (summ s.log).time = s.circ.lastChange
  clock  : s.circ.lastChange ≤ s.now

theorem init_sinv (cfg : Cfg) : SInv cfg init := by
  refine ⟨init_cinv cfg, ?_, ?_, ?_, ?_, ?_, ?_, ?_⟩ <;> simp [init, summ, callsSince, lastTarget, lastTrTime]

/-! ## generic preservation helpers -/

theorem emit_log (s : State) (evs : List CEv) : (emit s evs).log = s.log ++ evs.map (fun e => (s.now, e)) := rfl

/-- appending events that are neither transitions nor inner calls -/
theorem sinv_quiet (cfg : Cfg) (s : State) (evs : List CEv) (hq : ∀ e ∈ evs, quiet e = true)
    (h : SInv cfg s) : SInv cfg (emit s evs) := by
  have hs : summ (emit s evs).log = summ s.log := by rw [emit_log]; exact summ_quiet _ _ _ hq
  exact ⟨h.circ, h.trials, h.eps, fun hst => by rw [hs]; exact h.calls hst,
    fun hst => by rw [hs]; exact h.shield hst, by rw [hs]; exact h.target, by rw [hs]; exact h.trTime, h.clock⟩

/-- a real transition to `closed` or `opened` happened in this step -/
theorem sinv_moved (cfg : Cfg) (s s' : State) (h : SInv cfg s)
    (hc : CInv cfg s'.circ) (hst : s'.circ.st ≠ .halfOpen) (hep : s.circ.episode ≤ s'.circ.episode)
    (hlc : s'.circ.lastChange = s.now) (hnow : s'.now = s.now)
    (hrun : ∀ r ∈ s'.running, r ∈ s.running)
    (hlog : summ s'.log = ⟨0, s'.circ.st, s.now⟩) : SInv cfg s' := by
  refine ⟨hc, fun hh => absurd hh hst, ?_, fun hh => absurd hh hst, fun _ => by rw [hlog], by rw [hlog],
    by rw [hlog, hlc], by rw [hlc, hnow]; exact Nat.le_refl _⟩
  intro r hr e he
  exact Nat.le_trans (h.eps r (hrun r hr) e he) hep

/-- only the sliding window (and nothing the state invariant mentions) changed -/
theorem sinv_window (cfg : Cfg) (s : State) (c' : Circuit) (h : SInv cfg s) (hc : CInv cfg c')
    (h1 : c'.st = s.circ.st) (h2 : c'.episode = s.circ.episode) (h3 : c'.lastChange = s.circ.lastChange)
    (h4 : c'.released = s.circ.released) (h5 : c'.hoAdmitted = s.circ.hoAdmitted)
    (h6 : c'.ownSucc = s.circ.ownSucc) : SInv cfg { s with circ := c' } := by
  refine ⟨hc, ?_, ?_, ?_, ?_, ?_, ?_, ?_⟩
  · intro hh; simp only at hh ⊢; rw [h5, h2, h6]; exact h.trials (by rw [← h1]; exact hh)
  · intro r hr e he; simp only at hr ⊢; rw [h2]; exact h.eps r hr e he
  · intro hh; simp only at hh ⊢; rw [h5, h4]; exact h.calls (by rw [← h1]; exact hh)
  · intro hh; simp only at hh ⊢; exact h.shield (by rw [← h1]; exact hh)
  · simp only; rw [h1]; exact h.target
  · simp only; rw [h3]; exact h.trTime
  · simp only; rw [h3]; exact h.clock

/-- the invariant speaks only of the circuit, the running callers, the trace and the clock: fresh callers and
callers waiting for their fallback are outside it -/
theorem sinv_congr (cfg : Cfg) (s s' : State) (h : SInv cfg s) (h1 : s'.circ = s.circ) (h2 : s'.running = s.running)
    (h3 : s'.log = s.log) (h4 : s'.now = s.now) : SInv cfg s' := by
  cases s; cases s'
  simp only at h1 h2 h3 h4
  subst h1 h2 h3 h4
  exact ⟨h.circ, h.trials, h.eps, h.calls, h.shield, h.target, h.trTime, h.clock⟩

theorem eraseP_subset (l : List Caller) (c : Nat) : ∀ r ∈ l.eraseP (·.c == c), r ∈ l :=
  fun _ hr => List.mem_of_mem_eraseP hr

/-! ## the steps -/

/-- a forced transition (an operator's override, or the task of a health trigger), preceded by quiet events -/
theorem transitionTo_forced_inv (cfg : Cfg) (s : State) (tgt : St) (htgt : tgt ≠ .halfOpen) (pre : List CEv)
    (hpre : ∀ e ∈ pre, quiet e = true) (h : SInv cfg s) :
    SInv cfg (emit { s with circ := (transitionTo s.circ tgt s.now).1 }
      (pre ++ (transitionTo s.circ tgt s.now).2)) := by
  have heff := transitionTo_eff s.circ tgt s.now
  cases heff.1 with
  | stay h1 h2 h3 h4 h5 =>
    have hsame : (transitionTo s.circ tgt s.now).1 = s.circ := by
      unfold transitionTo at h1 ⊢; split <;> simp_all
    rw [hsame, h1, List.append_nil]
    exact sinv_quiet cfg _ _ hpre h
  | moved s' h0 h1 h2 h3 h4 h5 h6 h7 h8 =>
    have hs' : s' = tgt := by rw [← h2, transitionTo_st]
    apply sinv_moved cfg s _ h
    · exact transitionTo_inv cfg _ _ _ h.circ
    · show (transitionTo s.circ tgt s.now).1.st ≠ .halfOpen
      rw [transitionTo_st]; exact htgt
    · show s.circ.episode ≤ (transitionTo s.circ tgt s.now).1.episode
      rw [h7]; omega
    · exact h8
    · rfl
    · intro r hr; exact hr
    · rw [emit_log, h1]
      show summ (s.log ++ (pre ++ [CEv.transition s.circ.st s' s.circ.mirror]).map (fun e => (s.now, e))) = _
      have : s.log ++ (pre ++ [CEv.transition s.circ.st s' s.circ.mirror]).map (fun e => (s.now, e))
          = (s.log ++ pre.map (fun e => (s.now, e))) ++ [(s.now, CEv.transition s.circ.st s' s.circ.mirror)] := by simp
      rw [this, summ_transition]
      show _ = Summ.mk 0 (transitionTo s.circ tgt s.now).1.st s.now
      rw [h2]

theorem transitionTo_manual_inv (cfg : Cfg) (s : State) (tgt : St) (htgt : tgt ≠ .halfOpen) (what : String)
    (h : SInv cfg s) :
    SInv cfg (emit { s with circ := (transitionTo s.circ tgt s.now).1 }
      ([CEv.manual what] ++ (transitionTo s.circ tgt s.now).2)) :=
  transitionTo_forced_inv cfg s tgt htgt [CEv.manual what] (by intro e he; simp at he; rw [he]; rfl) h

/-- the task of a health trigger runs: a forced transition to open / closed, nothing else -/
theorem applyTask_inv (cfg : Cfg) (s : State) (u : Bool) (h : SInv cfg s) : SInv cfg (applyTask s u) := by
  have := transitionTo_forced_inv cfg s (if u then .opened else .closed) (by cases u <;> simp) [] (by simp) h
  simpa [applyTask] using this

theorem foldl_applyTask_inv (cfg : Cfg) (l : List Bool) (s : State) (h : SInv cfg s) : SInv cfg (l.foldl applyTask s) := by
  induction l generalizing s with
  | nil => exact h
  | cons u tl ih => exact ih _ (applyTask_inv cfg s u h)

theorem runTasks_inv (cfg : Cfg) (s : State) (h : SInv cfg s) : SInv cfg (runTasks s) := by
  unfold runTasks
  exact foldl_applyTask_inv cfg _ _ (sinv_congr cfg s _ h rfl rfl rfl rfl)

/-- a running caller leaves without an outcome being recorded (dropped, or its inner call panicked):
its `TrialGuard` gives the slot back -/
theorem sinv_release (cfg : Cfg) (s : State) (c : Nat) (r : Caller) (evs : List CEv)
    (hq : ∀ e ∈ evs, quiet e = true) (hfind : findRunning s.running c = some r) (h : SInv cfg s) :
    SInv cfg { (emit { s with running := s.running.eraseP (·.c == c) } evs) with
               circ := releaseTrial s.circ r.ep } := by
  have hs : summ (emit { s with running := s.running.eraseP (·.c == c) } evs).log = summ s.log := by
    rw [emit_log]; exact summ_quiet _ _ _ hq
  have hci := releaseTrial_inv cfg s.circ r.ep h.circ
  have herase := fun e => trialsOf_eraseP e c s.running r hfind
  unfold releaseTrial at hci ⊢
  cases hep : r.ep with
  | none =>
    simp only [hep] at hci ⊢
    refine ⟨hci, ?_, ?_, ?_, ?_, ?_, ?_, ?_⟩
    · intro hh
      have := herase s.circ.episode; simp [hep] at this
      show s.circ.hoAdmitted = trialsOf s.circ.episode (s.running.eraseP (·.c == c)) + s.circ.ownSucc
      rw [this]; exact h.trials hh
    · intro r' hr' e he; exact h.eps r' (eraseP_subset _ _ r' hr') e he
    · intro hh; show (summ (emit _ evs).log).calls = _; rw [hs]; exact h.calls hh
    · intro hh; show (summ (emit _ evs).log).calls = _; rw [hs]; exact h.shield hh
    · show (summ (emit _ evs).log).target = _; rw [hs]; exact h.target
    · show (summ (emit _ evs).log).time = _; rw [hs]; exact h.trTime
    · exact h.clock
  | some e =>
    simp only [hep] at hci ⊢
    split
    · rename_i hcond
      simp only [hcond, and_self, if_true] at hci
      obtain ⟨hst, hepi, hpos⟩ := hcond
      subst hepi
      refine ⟨by simpa [hst, hpos] using hci, ?_, ?_, ?_, ?_, ?_, ?_, ?_⟩
      · intro _
        have := herase s.circ.episode; simp [hep] at this
        have ht := h.trials hst
        show s.circ.hoAdmitted - 1 = trialsOf s.circ.episode (s.running.eraseP (·.c == c)) + s.circ.ownSucc
        omega
      · intro r' hr' e' he'; exact h.eps r' (eraseP_subset _ _ r' hr') e' he'
      · intro _
        show (summ (emit _ evs).log).calls = s.circ.hoAdmitted - 1 + (s.circ.released + 1)
        rw [hs, h.calls hst]; omega
      · intro hh; simp only at hh; rw [hst] at hh; cases hh
      · show (summ (emit _ evs).log).target = _; rw [hs]; exact h.target
      · show (summ (emit _ evs).log).time = _; rw [hs]; exact h.trTime
      · exact h.clock
    · rename_i hcond
      refine ⟨h.circ, ?_, ?_, ?_, ?_, ?_, ?_, ?_⟩
      · intro hh
        have hst : s.circ.st = .halfOpen := hh
        have ht := h.trials hst
        have := herase s.circ.episode
        show s.circ.hoAdmitted = trialsOf s.circ.episode (s.running.eraseP (·.c == c)) + s.circ.ownSucc
        by_cases hee : s.circ.episode = e
        · simp [hep, hee] at this
          have : ¬ s.circ.hoAdmitted > 0 := fun hp => hcond ⟨hst, hee, hp⟩
          rw [hee] at ht; omega
        · have hne : ¬ (some e = some s.circ.episode) := by
            intro hx; cases hx; exact hee rfl
          simp [hep, hne] at this
          rw [this]; exact ht
      · intro r' hr' e' he'; exact h.eps r' (eraseP_subset _ _ r' hr') e' he'
      · intro hh; show (summ (emit _ evs).log).calls = _; rw [hs]; exact h.calls hh
      · intro hh; show (summ (emit _ evs).log).calls = _; rw [hs]; exact h.shield hh
      · show (summ (emit _ evs).log).target = _; rw [hs]; exact h.target
      · show (summ (emit _ evs).log).time = _; rw [hs]; exact h.trTime
      · exact h.clock

theorem summ_pre_tr_post (l : List (Nat × CEv)) (t : Nat) (pre post : CEv) (a b m : St)
    (hpre : quiet pre = true) (hpost : quiet post = true) :
    summ (l ++ ([pre] ++ [CEv.transition a b m] ++ [post]).map (fun e => (t, e))) = ⟨0, b, t⟩ := by
  have : l ++ ([pre] ++ [CEv.transition a b m] ++ [post]).map (fun e => (t, e))
      = ((l ++ [pre].map (fun e => (t, e))) ++ [(t, CEv.transition a b m)]) ++ [post].map (fun e => (t, e)) := by simp
  rw [this, summ_quiet _ _ _ (by simpa using hpost), summ_transition]

/-- the inner call of running caller `r` completed and its outcome is recorded -/
theorem sinv_record (cfg : Cfg) (s : State) (c : Nat) (r : Caller) (fail : Bool) (pre post : CEv)
    (hpre : quiet pre = true) (hpost : quiet post = true)
    (hfind : findRunning s.running c = some r) (h : SInv cfg s) :
    SInv cfg (emit { s with running := s.running.eraseP (·.c == c),
                            circ := (record cfg s.circ fail (s.now - r.start) s.now
                              (decide (r.ep = some s.circ.episode ∧ s.circ.st = .halfOpen))).1 }
      ([pre] ++ (record cfg s.circ fail (s.now - r.start) s.now
                  (decide (r.ep = some s.circ.episode ∧ s.circ.st = .halfOpen))).2 ++ [post])) := by
  generalize hown : decide (r.ep = some s.circ.episode ∧ s.circ.st = .halfOpen) = own
  have hci := record_inv cfg s.circ fail (s.now - r.start) s.now own h.circ
  have heff := record_eff cfg s.circ fail (s.now - r.start) s.now own
  simp only at heff
  obtain ⟨he1, he2, he3⟩ := heff
  have herase := trialsOf_eraseP s.circ.episode c s.running r hfind
  cases he1 with
  | stay h1 h2 h3 h4 h5 =>
    obtain ⟨g1, g2, g3⟩ := he2 h1
    rw [h1]
    apply sinv_quiet cfg _ _ (by intro e he; simp at he; rcases he with rfl | rfl <;> assumption)
    refine ⟨hci, ?_, ?_, ?_, ?_, ?_, ?_, ?_⟩
    · intro hh
      have hst : s.circ.st = .halfOpen := by rw [← h2]; exact hh
      have ht := h.trials hst
      show (record cfg s.circ fail _ s.now own).1.hoAdmitted
        = trialsOf (record cfg s.circ fail _ s.now own).1.episode (s.running.eraseP (·.c == c))
          + (record cfg s.circ fail _ s.now own).1.ownSucc
      rw [g1, g2, h3]
      cases hob : own with
      | true =>
        have : r.ep = some s.circ.episode := by
          rw [hob] at hown; simp at hown; exact hown.1
        simp [this] at herase
        simp [hst]; omega
      | false =>
        have : ¬ r.ep = some s.circ.episode := by
          rw [hob] at hown; simp at hown; intro hx; exact absurd hst (hown hx)
        simp [this] at herase
        simp; omega
    · intro r' hr' e he
      show e ≤ (record cfg s.circ fail _ s.now own).1.episode
      rw [h3]; exact h.eps r' (eraseP_subset _ _ r' hr') e he
    · intro hh
      have hst : s.circ.st = .halfOpen := by rw [← h2]; exact hh
      show (summ s.log).calls = (record cfg s.circ fail _ s.now own).1.hoAdmitted + (record cfg s.circ fail _ s.now own).1.released
      rw [g1, h5]; exact h.calls hst
    · intro hh
      exact h.shield (by rw [← h2]; exact hh)
    · show (summ s.log).target = _; rw [h2]; exact h.target
    · show (summ s.log).time = _; rw [h4]; exact h.trTime
    · show (record cfg s.circ fail _ s.now own).1.lastChange ≤ s.now; rw [h4]; exact h.clock
  | moved s' h0 h1 h2 h3 h4 h5 h6 h7 h8 =>
    have hne : (record cfg s.circ fail (s.now - r.start) s.now own).2 ≠ [] := by rw [h1]; simp
    apply sinv_moved cfg s _ h
    · exact hci
    · exact he3 hne
    · show s.circ.episode ≤ (record cfg s.circ fail _ s.now own).1.episode
      rw [h7]; omega
    · exact h8
    · rfl
    · intro r' hr'; exact eraseP_subset _ _ r' hr'
    · rw [emit_log, h1]
      show summ (s.log ++ _) = Summ.mk 0 (record cfg s.circ fail _ s.now own).1.st s.now
      rw [h2]
      exact summ_pre_tr_post s.log s.now pre post s.circ.st s' s.circ.mirror hpre hpost

theorem pollRunning_inv (cfg : Cfg) (s : State) (c : Nat) (h : SInv cfg s) : SInv cfg (pollRunning cfg s c) := by
  unfold pollRunning
  split
  · rename_i r hfind
    split
    · unfold complete
      split
      · exact sinv_release cfg s c r _ (by intro e he; simp at he; rcases he with rfl | rfl <;> rfl) hfind h
      · exact sinv_record cfg s c r _ _ _ rfl rfl hfind h
    · exact h
  · exact h

theorem dropRunning_inv (cfg : Cfg) (s : State) (c : Nat) (r : Caller)
    (hfind : findRunning s.running c = some r) (h : SInv cfg s) : SInv cfg (dropRunning s c r) := by
  unfold dropRunning
  exact sinv_release cfg s c r _ (by intro e he; simp at he; rw [he]; rfl) hfind h

/-- explicit form of an admission -/
def admitted (cfg : Cfg) (s : State) (f : Fresh) : State :=
  let acq := tryAcquire cfg s.circ s.now
  { now := s.now, circ := acq.1, fresh := s.fresh.eraseP (·.c == f.c),
    running := s.running ++ [{ c := f.c, k := s.serial, start := s.now, doneAt := due cfg s.now f.sc.lat, out := f.sc.out,
                               tag := f.tag, ep := if acq.1.st = .halfOpen then some acq.1.episode else none }],
    falling := s.falling, seen := s.seen, serial := s.serial + 1,
    log := (s.log ++ acq.2.2.map (fun e => (s.now, e))) ++ [(s.now, CEv.innerCall f.c s.serial)],
    gate := s.gate, pending := s.pending }

theorem admitStep_ok (cfg : Cfg) (s : State) (f : Fresh) (hok : (tryAcquire cfg s.circ s.now).2.1 = true) :
    admitStep cfg s f = (admitted cfg s f, true) := by
  unfold admitStep admitted emit
  simp [hok]

/-- explicit form of a rejection: the open-circuit error, or the caller is handed to the fallback — in this
very step, whatever else is going on (`s.falling`: other callers' fallbacks still pending) -/
def rejected (cfg : Cfg) (s : State) (f : Fresh) : State :=
  if cfg.fallback then startFallback cfg { s with fresh := s.fresh.eraseP (·.c == f.c) } f
  else { s with fresh := s.fresh.eraseP (·.c == f.c), log := s.log ++ [(s.now, CEv.result f.c Res.openCircuit)] }

theorem admitStep_rej (cfg : Cfg) (s : State) (f : Fresh) (hok : (tryAcquire cfg s.circ s.now).2.1 = false)
    (hc : (tryAcquire cfg s.circ s.now).1 = s.circ) (he : (tryAcquire cfg s.circ s.now).2.2 = []) :
    admitStep cfg s f = (rejected cfg s f, false) := by
  unfold admitStep rejected emit
  simp only [hok, hc, he]
  cases cfg.fallback <;> simp

/-- handing a caller to its fallback: only quiet events, nothing the invariant mentions changes -/
theorem startFallback_inv (cfg : Cfg) (s : State) (f : Fresh) (h : SInv cfg s) : SInv cfg (startFallback cfg s f) := by
  unfold startFallback
  split
  · exact sinv_quiet cfg s _ (by intro e he; simp at he; rcases he with rfl | rfl <;> rfl) h
  · exact sinv_quiet cfg _ _ (by intro e he; simp at he; rw [he]; rfl) (sinv_congr cfg s _ h rfl rfl rfl rfl)

theorem pollFalling_inv (cfg : Cfg) (s : State) (r : Falling) (h : SInv cfg s) : SInv cfg (pollFalling s r) := by
  unfold pollFalling
  split
  · exact sinv_quiet cfg _ _ (by intro e he; simp at he; rw [he]; rfl) (sinv_congr cfg s _ h rfl rfl rfl rfl)
  · exact h

theorem dropFalling_inv (cfg : Cfg) (s : State) (r : Falling) (h : SInv cfg s) : SInv cfg (dropFalling s r) := by
  unfold dropFalling
  exact sinv_quiet cfg _ _ (by intro e he; simp at he; rw [he]; rfl) (sinv_congr cfg s _ h rfl rfl rfl rfl)

theorem rejected_inv (cfg : Cfg) (s : State) (f : Fresh) (h : SInv cfg s) : SInv cfg (rejected cfg s f) := by
  unfold rejected
  split
  · exact startFallback_inv cfg _ f (sinv_congr cfg s _ h rfl rfl rfl rfl)
  · have := sinv_quiet cfg { s with fresh := s.fresh.eraseP (·.c == f.c) } [CEv.result f.c Res.openCircuit]
      (by intro e he; simp at he; rw [he]; rfl) (sinv_congr cfg s _ h rfl rfl rfl rfl)
    exact this

theorem admitted_inv (cfg : Cfg) (s : State) (f : Fresh) (hok : (tryAcquire cfg s.circ s.now).2.1 = true)
    (h : SInv cfg s) : SInv cfg (admitted cfg s f) := by
  have hacq := tryAcquire_acq cfg s.circ s.now
  have hci := tryAcquire_inv cfg s.circ s.now h.circ
  unfold admitted
  simp only
  cases hacq with
  | closed hst hc hok' he =>
    rw [he, hc]
    have hne : ¬ s.circ.st = .halfOpen := by rw [hst]; simp
    simp only [hne, if_false, List.map_nil, List.append_nil]
    refine ⟨h.circ, fun hh => absurd hh hne, ?_, fun hh => absurd hh hne, ?_, ?_, ?_, h.clock⟩
    · intro r hr e hre
      simp only [List.mem_append, List.mem_singleton] at hr
      rcases hr with hr | rfl
      · exact h.eps r hr e hre
      · simp at hre
    · intro hh; simp only at hh; rw [hst] at hh; cases hh
    · simp only; rw [summ_call]; exact h.target
    · simp only; rw [summ_call]; exact h.trTime
  | toHalf hst hw hok' he h2 h3 h4 h5 h6 h7 h8 =>
    rw [he]
    simp only [h2, if_true, List.map_cons, List.map_nil]
    have hsum : summ ((s.log ++ [(s.now, CEv.transition .opened .halfOpen s.circ.mirror)]) ++ [(s.now, CEv.innerCall f.c s.serial)])
        = ⟨1, .halfOpen, s.now⟩ := by rw [summ_call, summ_transition]
    refine ⟨hci, ?_, ?_, ?_, ?_, ?_, ?_, ?_⟩
    · intro _
      simp only
      rw [trialsOf_append, h3, h6, h7]
      rw [trialsOf_zero_of_lt _ _ (fun r hr e' he' => Nat.lt_succ_of_le (h.eps r hr e' he'))]
      simp
    · intro r hr e hre
      simp only [List.mem_append, List.mem_singleton] at hr
      simp only; rw [h7]
      rcases hr with hr | rfl
      · exact Nat.le_succ_of_le (h.eps r hr e hre)
      · simp at hre; omega
    · intro _; simp only; rw [hsum, h3, h5]
    · intro hh; simp only at hh; rw [h2] at hh; cases hh
    · simp only; rw [hsum, h2]
    · simp only; rw [hsum, h8]
    · simp only; rw [h8]; exact Nat.le_refl _
  | rejectOpen hst hw hc hok' he => rw [hok'] at hok; cases hok
  | rejectHalf hst hge hc hok' he => rw [hok'] at hok; cases hok
  | trial hst hlt hok' he hc =>
    rw [he]
    have hst' : (tryAcquire cfg s.circ s.now).1.st = .halfOpen := by rw [hc]; exact hst
    have hepi : (tryAcquire cfg s.circ s.now).1.episode = s.circ.episode := by rw [hc]
    have hadm : (tryAcquire cfg s.circ s.now).1.hoAdmitted = s.circ.hoAdmitted + 1 := by rw [hc]
    have hown : (tryAcquire cfg s.circ s.now).1.ownSucc = s.circ.ownSucc := by rw [hc]
    have hrel : (tryAcquire cfg s.circ s.now).1.released = s.circ.released := by rw [hc]
    have hlc : (tryAcquire cfg s.circ s.now).1.lastChange = s.circ.lastChange := by rw [hc]
    simp only [hst', if_true, List.map_nil, List.append_nil]
    refine ⟨hci, ?_, ?_, ?_, ?_, ?_, ?_, ?_⟩
    · intro _
      simp only
      rw [trialsOf_append, hadm, hown, hepi]
      have := h.trials hst
      simp; omega
    · intro r hr e hre
      simp only [List.mem_append, List.mem_singleton] at hr
      simp only; rw [hepi]
      rcases hr with hr | rfl
      · exact h.eps r hr e hre
      · simp at hre; omega
    · intro _
      simp only; rw [summ_call, hadm, hrel]
      show (summ s.log).calls + 1 = _
      rw [h.calls hst]; omega
    · intro hh; simp only at hh; rw [hst'] at hh; cases hh
    · simp only; rw [summ_call, hst']; show (summ s.log).target = _; rw [h.target]; exact hst
    · simp only; rw [summ_call, hlc]; exact h.trTime
    · simp only; rw [hlc]; exact h.clock

/-- first poll: admission or rejection -/
theorem admitStep_inv (cfg : Cfg) (s : State) (f : Fresh) (h : SInv cfg s) : SInv cfg (admitStep cfg s f).1 := by
  have hacq := tryAcquire_acq cfg s.circ s.now
  cases hok : (tryAcquire cfg s.circ s.now).2.1 with
  | true => rw [admitStep_ok cfg s f hok]; exact admitted_inv cfg s f hok h
  | false =>
    cases hacq with
    | closed hst hc hok' he => rw [hok'] at hok; cases hok
    | toHalf hst hw hok' => rw [hok'] at hok; cases hok
    | rejectOpen hst hw hc hok' he => rw [admitStep_rej cfg s f hok hc he]; exact rejected_inv cfg s f h
    | rejectHalf hst hge hc hok' he => rw [admitStep_rej cfg s f hok hc he]; exact rejected_inv cfg s f h
    | trial hst hlt hok' => rw [hok'] at hok; cases hok

theorem pollFresh_inv (cfg : Cfg) (s : State) (f : Fresh) (h : SInv cfg s) : SInv cfg (pollFresh cfg s f) := by
  unfold pollFresh
  simp only
  split
  · exact pollRunning_inv cfg _ _ (admitStep_inv cfg s f h)
  · exact admitStep_inv cfg s f h

theorem reset_step_inv (cfg : Cfg) (s : State) (h : SInv cfg s) :
    SInv cfg (emit { s with circ := (reset s.circ s.now).1 } ([CEv.manual "reset"] ++ (reset s.circ s.now).2)) := by
  have h1 := transitionTo_manual_inv cfg s .closed (by simp) "reset" h
  -- `reset` = the transition, then the window is cleared
  have hw := sinv_window cfg _ (clearWindow (transitionTo s.circ .closed s.now).1) h1
    (clearWindow_inv cfg _ (transitionTo_inv cfg _ _ _ h.circ)) rfl rfl rfl rfl rfl rfl
  exact hw

theorem stepS_inv (cfg : Cfg) (s : State) (op : Op) (h : SInv cfg s) : SInv cfg (stepS cfg s op) := by
  cases op with
  | adv ms =>
    exact ⟨h.circ, h.trials, h.eps, h.calls, h.shield, h.target, h.trTime, Nat.le_trans h.clock (Nat.le_add_right _ _)⟩
  | arrive c sc tag fb =>
    simp only [stepS]
    split
    · exact h
    · split
      · exact ⟨h.circ, h.trials, h.eps, h.calls, h.shield, h.target, h.trTime, h.clock⟩
      · exact sinv_quiet cfg _ _ (by intro e he; simp at he; rw [he]; rfl) (sinv_congr cfg s _ h rfl rfl rfl rfl)
  | poll c =>
    simp only [stepS]
    split
    · exact pollFresh_inv cfg s _ h
    · split
      · exact pollFalling_inv cfg s _ h
      · exact pollRunning_inv cfg s c h
  | drop c =>
    simp only [stepS]
    split
    · exact ⟨h.circ, h.trials, h.eps, h.calls, h.shield, h.target, h.trTime, h.clock⟩
    · split
      · exact dropFalling_inv cfg s _ h
      · split
        · rename_i r hfind; exact dropRunning_inv cfg s c r hfind h
        · exact h
  | forceOpen => exact transitionTo_manual_inv cfg s .opened (by simp) "force_open" h
  | forceClosed => exact transitionTo_manual_inv cfg s .closed (by simp) "force_closed" h
  | reset => exact reset_step_inv cfg s h
  | views => exact sinv_quiet cfg s _ (by intro e he; simp at he; rw [he]; rfl) h
  | gate g =>
    exact sinv_quiet cfg _ _ (by intro e he; simp at he; rw [he]; rfl) (sinv_congr cfg s _ h rfl rfl rfl rfl)
  | trigger u =>
    exact sinv_quiet cfg _ _ (by intro e he; simp at he; rw [he]; rfl) (sinv_congr cfg s _ h rfl rfl rfl rfl)
  | yield => exact runTasks_inv cfg _ (sinv_quiet cfg s _ (by intro e he; simp at he; rw [he]; rfl) h)
  | elsewhere n => exact sinv_congr cfg s _ h rfl rfl rfl rfl

theorem foldl_sinv (cfg : Cfg) (ops : List Op) (s : State) (h : SInv cfg s) : SInv cfg (ops.foldl (stepS cfg) s) := by
  induction ops generalizing s with
  | nil => simpa
  | cons o os ih => exact ih _ (stepS_inv cfg s o h)

/-- every reachable state, for every configuration and every operation sequence -/
theorem sinv_reachable (cfg : Cfg) (ops : List Op) : SInv cfg (run cfg ops) :=
  foldl_sinv cfg ops _ (init_sinv cfg)

end TR.Circuit

namespace TR.Circuit

/-! ## one-step facts used by the property files -/

/-- outside half-open a recorded outcome can only open the breaker -/
theorem record_st_not_half (cfg : Cfg) (c : Circuit) (fail : Bool) (dur now : Nat) (own : Bool)
    (hst : c.st ≠ .halfOpen) :
    (record cfg c fail dur now own) = evaluate cfg (pushOutcome cfg c { t := now, fail := fail, slow := isSlow cfg dur } now) now := by
  have hf := (pushOutcome_frame cfg c { t := now, fail := fail, slow := isSlow cfg dur } now).1
  unfold record
  simp only
  split
  · rename_i h; rw [hf] at h; exact absurd h hst
  · rfl

theorem record_opened_stays (cfg : Cfg) (c : Circuit) (fail : Bool) (dur now : Nat) (own : Bool)
    (hst : c.st = .opened) : (record cfg c fail dur now own).1.st = .opened := by
  rw [record_st_not_half cfg c fail dur now own (by rw [hst]; simp)]
  have hf := (pushOutcome_frame cfg c { t := now, fail := fail, slow := isSlow cfg dur } now).1
  by_cases he : (evaluate cfg (pushOutcome cfg c { t := now, fail := fail, slow := isSlow cfg dur } now) now).2 = []
  · have := (evaluate_eff cfg (pushOutcome cfg c { t := now, fail := fail, slow := isSlow cfg dur } now) now).1
    cases this with
    | stay h1 h2 => rw [h2, hf, hst]
    | moved s' h0 h1 => rw [h1] at he; cases he
  · exact evaluate_st cfg _ now he

theorem releaseTrial_st (c : Circuit) (ep : Option Nat) : (releaseTrial c ep).st = c.st := by
  unfold releaseTrial; split
  · split <;> rfl
  · rfl

theorem emit_circ (s : State) (evs : List CEv) : (emit s evs).circ = s.circ := rfl

theorem rejected_circ (cfg : Cfg) (s : State) (f : Fresh) : (rejected cfg s f).circ = s.circ := by
  unfold rejected startFallback
  split
  · split <;> rfl
  · rfl

/-- polling a caller that waits for its fallback: at most its own result is appended, nothing else changes -/
theorem pollFalling_frame (s : State) (r : Falling) :
    (pollFalling s r).circ = s.circ ∧ (pollFalling s r).running = s.running ∧ (pollFalling s r).fresh = s.fresh ∧
    (pollFalling s r).serial = s.serial ∧
    ((pollFalling s r).log = s.log ∨ (pollFalling s r).log = s.log ++ [(s.now, CEv.result r.c (fbRes r.c r.out))]) := by
  unfold pollFalling
  split
  · exact ⟨rfl, rfl, rfl, rfl, Or.inr rfl⟩
  · exact ⟨rfl, rfl, rfl, rfl, Or.inl rfl⟩

theorem pollRunning_opened (cfg : Cfg) (s : State) (c : Nat) (hst : s.circ.st = .opened) :
    (pollRunning cfg s c).circ.st = .opened := by
  unfold pollRunning
  split
  · split
    · unfold complete
      split
      · simp only [emit_circ]; rw [releaseTrial_st]; exact hst
      · simp only [emit_circ]; exact record_opened_stays cfg _ _ _ _ _ hst
    · exact hst
  · exact hst

end TR.Circuit

namespace TR.Circuit

/-! ## pending fallbacks are outside the breaker -/

/-- the state with the callers that wait for their fallback forgotten -/
def core (s : State) : State := { s with falling := [] }

theorem emit_core (s : State) (evs : List CEv) : core (emit s evs) = emit (core s) evs := rfl

theorem complete_core (cfg : Cfg) (s : State) (r : Caller) : complete cfg (core s) r = core (complete cfg s r) := by
  unfold complete
  split <;> rfl

theorem pollRunning_core (cfg : Cfg) (s : State) (c : Nat) : pollRunning cfg (core s) c = core (pollRunning cfg s c) := by
  unfold pollRunning
  simp only [show (core s).running = s.running from rfl, show (core s).now = s.now from rfl]
  cases findRunning s.running c with
  | none => rfl
  | some r =>
    simp only
    by_cases hc : s.now ≥ r.doneAt ∧ r.out ≠ Out.never
    · rw [if_pos hc, if_pos hc]
      exact complete_core cfg { s with running := s.running.eraseP (·.c == c) } r
    · rw [if_neg hc, if_neg hc]

theorem startFallback_core (cfg : Cfg) (s : State) (f : Fresh) : core (startFallback cfg (core s) f) = core (startFallback cfg s f) := by
  unfold startFallback
  by_cases hc : f.fb.lat = 0 ∧ f.fb.out ≠ .never
  · rw [if_pos hc, if_pos hc]; rfl
  · rw [if_neg hc, if_neg hc]; rfl

theorem admitStep_core (cfg : Cfg) (s : State) (f : Fresh) :
    core (admitStep cfg (core s) f).1 = core (admitStep cfg s f).1 ∧ (admitStep cfg (core s) f).2 = (admitStep cfg s f).2 := by
  unfold admitStep
  simp only [show (core s).circ = s.circ from rfl, show (core s).now = s.now from rfl]
  by_cases hok : (tryAcquire cfg s.circ s.now).2.1 = true
  · rw [if_pos hok, if_pos hok]; exact ⟨rfl, rfl⟩
  · rw [if_neg hok, if_neg hok]
    by_cases hfb : cfg.fallback = true
    · rw [if_pos hfb, if_pos hfb]
      exact ⟨startFallback_core cfg (emit { s with circ := (tryAcquire cfg s.circ s.now).1, fresh := s.fresh.eraseP (·.c == f.c) } (tryAcquire cfg s.circ s.now).2.2) f, rfl⟩
    · rw [if_neg hfb, if_neg hfb]; exact ⟨rfl, rfl⟩

theorem pollFresh_core (cfg : Cfg) (s : State) (f : Fresh) : core (pollFresh cfg (core s) f) = core (pollFresh cfg s f) := by
  have h := admitStep_core cfg s f
  unfold pollFresh
  simp only
  rw [h.2]
  split
  · rw [← pollRunning_core, ← pollRunning_core, h.1]
  · exact h.1

end TR.Circuit

namespace TR.Circuit

/-! ## several services made from one layer value -/

theorem lookup_setInst (l : List (Nat × State)) (k : Nat) (s : State) (j : Nat) :
    lookup (setInst l k s) j = if j = k then some s else lookup l j := by
  induction l with
  | nil =>
    by_cases h : j = k
    · subst h; simp [setInst, lookup]
    · have : ¬ k = j := fun e => h e.symm
      simp [setInst, lookup, h, this]
  | cons p tl ih =>
    obtain ⟨j', t⟩ := p
    by_cases hk : j' = k
    · subst hk
      by_cases h : j = j'
      · subst h; simp [setInst, lookup]
      · have : ¬ j' = j := fun e => h e.symm
        simp [setInst, lookup, h, this]
    · by_cases h : j = k
      · subst h
        simp [setInst, lookup, hk, ih]
      · simp [setInst, lookup, hk, ih, h]

theorem stepM_get (cfg : Cfg) (m : Multi) (k : Nat) (op : Op) (j : Nat) :
    (stepM cfg m k op).get j =
      if j = k then stepS cfg (sync cfg m.now m.serial (m.get k)) op else m.get j := by
  unfold stepM Multi.get
  simp only [lookup_setInst]
  split <;> rfl

/-- **Independence**: an operation on service `k` — a request, a completion, an override, a health trigger — leaves every
other service made from the same layer exactly as it was. -/
theorem services_independent (cfg : Cfg) (m : Multi) (k j : Nat) (op : Op) (h : j ≠ k) :
    (stepM cfg m k op).get j = m.get j := by
  rw [stepM_get, if_neg h]

theorem run_snoc3 (cfg : Cfg) (ops : List Op) (a b c : Op) :
    stepS cfg (stepS cfg (stepS cfg (run cfg ops) a) b) c = run cfg (ops ++ [a, b, c]) := by
  simp [run, List.foldl_append]

/-- **Every service is a breaker of its own**: in any history over any number of services, the state of each service is a
state the single-breaker model reaches on some operation sequence (its own operations, interleaved with time passing and
with inner calls made elsewhere). So everything proved for `run` holds for each of them. -/
theorem every_service_is_a_run (cfg : Cfg) (mops : List (Nat × Op)) (k : Nat) :
    ∃ ops, (runM cfg mops).get k = run cfg ops := by
  unfold runM
  suffices ∀ (m : Multi), (∀ k, ∃ ops, m.get k = run cfg ops) →
      ∀ k, ∃ ops, ((mops.foldl (fun m p => stepM cfg m p.1 p.2) m).get k) = run cfg ops from
    this {} (fun k => ⟨[], by simp [Multi.get, lookup, run]⟩) k
  induction mops with
  | nil => intro m h k; exact h k
  | cons p tl ih =>
    intro m h k
    apply ih
    intro j
    rw [stepM_get]
    split
    · obtain ⟨ops, ho⟩ := h p.1
      refine ⟨ops ++ [.adv (m.now - (m.get p.1).now), .elsewhere (m.serial - (stepS cfg (m.get p.1) (.adv (m.now - (m.get p.1).now))).serial), p.2], ?_⟩
      rw [← run_snoc3, ← ho]
      rfl
    · exact h j

end TR.Circuit
