import TR.Lemmas.Health
/-!
# C18 — health status flips only at its thresholds; selection returns eligible resources

Quantification: every sequence `os` of completed checks of a resource (healthy, degraded,
unhealthy, unknown, timed out — oldest first), every `success_threshold` / `failure_threshold`
(no lower bound is needed, 0 included), every vector `sts` of published statuses (= any number
of resources), every selection strategy (`custom f` for an arbitrary function `f`), every value
of the shared round-robin counter. `runRes sth fth os` is the resource after those checks;
`reachable_is_fold` ties the timed model the correspondence check runs to it.
-/
namespace TR.Props.C18
open TR TR.Health

/-- A resource's published status **becomes** unhealthy only on a failed or timed-out check,
and then the last `failure_threshold` checks with a known result (this one included) all
failed or timed out. -/
theorem unhealthy_only_after_threshold (sth fth : Nat) (os : List Outcome) (o : Outcome)
    (hbefore : (runRes sth fth os).status ≠ .unhealthy)
    (hafter : (runRes sth fth (os ++ [o])).status = .unhealthy) :
    o.failing = true ∧
    ∃ pre run, knownOf (os ++ [o]) = pre ++ run ∧ run.length = fth ∧ ∀ x ∈ run, x.failing = true := by
  rw [runRes_snoc] at hafter
  obtain ⟨hf, hge⟩ := step_to_unhealthy sth fth _ o hbefore hafter
  have hc := (counts_run sth fth (os ++ [o])).fails
  rw [runRes_snoc] at hc
  exact ⟨hf, hc.shorten hge⟩

/-- A resource's published status **becomes** healthy only on a healthy check, and then the
last `success_threshold` checks with a known result (this one included) were all non-failing
(healthy or degraded). -/
theorem healthy_only_after_run (sth fth : Nat) (os : List Outcome) (o : Outcome)
    (hbefore : (runRes sth fth os).status ≠ .healthy)
    (hafter : (runRes sth fth (os ++ [o])).status = .healthy) :
    o = .healthy ∧
    ∃ pre run, knownOf (os ++ [o]) = pre ++ run ∧ run.length = sth ∧ ∀ x ∈ run, x.passing = true := by
  rw [runRes_snoc] at hafter
  obtain ⟨hf, hge⟩ := step_to_healthy sth fth _ o hbefore hafter
  have hc := (counts_run sth fth (os ++ [o])).succs
  rw [runRes_snoc] at hc
  exact ⟨hf, hc.shorten hge⟩

/-- The counters the thresholds are compared with are exactly the lengths of the current runs:
no longer run of failing (resp. non-failing) known results ends the history. Together with
`Counts` this says `consecutive_failures` / `consecutive_successes` mean what their names say,
unknown results being transparent. -/
theorem counters_are_run_lengths (sth fth : Nat) (os : List Outcome) :
    HasRun Outcome.failing os (runRes sth fth os).fails ∧ MaxRun Outcome.failing os (runRes sth fth os).fails ∧
    HasRun Outcome.passing os (runRes sth fth os).succs ∧ MaxRun Outcome.passing os (runRes sth fth os).succs :=
  ⟨(counts_run sth fth os).fails, (exact_run sth fth os).fails,
   (counts_run sth fth os).succs, (exact_run sth fth os).succs⟩

/-- Converse of the first clause (the threshold is not only necessary but sufficient): once the
last `failure_threshold ≥ 1` known results all failed or timed out, the status is unhealthy. -/
theorem unhealthy_at_threshold (sth fth : Nat) (hpos : 1 ≤ fth) (os : List Outcome)
    (h : HasRun Outcome.failing os fth) : (runRes sth fth os).status = .unhealthy := by
  obtain ⟨pre, run, he, hl, hp⟩ := h
  have hmax := (exact_run sth fth os).fails pre run he hp
  exact (published_run sth fth os).fail (by omega) (by omega)

/-- Converse of the second clause: a healthy check that completes a run of `success_threshold`
non-failing known results publishes healthy. -/
theorem healthy_at_threshold (sth fth : Nat) (os : List Outcome)
    (h : HasRun Outcome.passing (os ++ [.healthy]) sth) :
    (runRes sth fth (os ++ [.healthy])).status = .healthy := by
  obtain ⟨pre, run, he, hl, hp⟩ := h
  have hmax := (exact_run sth fth (os ++ [.healthy])).succs pre run he hp
  rw [runRes_snoc] at hmax ⊢
  simp only [stepRes, onHealthy_succs] at hmax
  simp only [stepRes, onHealthy_status]
  rw [if_pos (by omega)]

/-- A degraded result is published at once, whatever the history and the thresholds. -/
theorem degraded_at_once (sth fth : Nat) (os : List Outcome) :
    (runRes sth fth (os ++ [.degraded])).status = .degraded := by
  rw [runRes_snoc]; rfl

/-- An unknown result changes nothing: neither the status nor either counter. -/
theorem unknown_changes_nothing (sth fth : Nat) (os : List Outcome) :
    runRes sth fth (os ++ [.unknown]) = runRes sth fth os := by
  rw [runRes_snoc]; rfl

/-- `get_healthy` returns only a resource that exists and is currently published healthy —
for every strategy, including an arbitrary custom selector, and every counter value. -/
theorem get_healthy_sound (strat : Strat) (sts : List St) (ctr i : Nat)
    (h : (getHealthy strat sts ctr).1 = some i) : sts[i]? = some .healthy := by
  obtain ⟨st, h1, h2⟩ := getWith_sound St.isHealthy strat sts ctr i h
  rw [(isHealthy_iff st).1 h2] at h1; exact h1

/-- `get_usable` returns only a resource currently published healthy or degraded. -/
theorem get_usable_sound (strat : Strat) (sts : List St) (ctr i : Nat)
    (h : (getUsable strat sts ctr).1 = some i) :
    sts[i]? = some .healthy ∨ sts[i]? = some .degraded := by
  obtain ⟨st, h1, h2⟩ := getWith_sound St.usable strat sts ctr i h
  rcases (usable_iff st).1 h2 with e | e
  · exact Or.inl (by rw [e] at h1; exact h1)
  · exact Or.inr (by rw [e] at h1; exact h1)

/-- When no resource qualifies both return nothing (and leave the round-robin counter alone),
whatever the strategy. -/
theorem none_when_none_any_strategy (strat : Strat) (sts : List St) (ctr : Nat) :
    ((∀ st ∈ sts, st ≠ .healthy) → getHealthy strat sts ctr = (none, ctr)) ∧
    ((∀ st ∈ sts, st.usable = false) → getUsable strat sts ctr = (none, ctr)) := by
  constructor
  · intro h
    apply getWith_none_of_empty
    rw [availFrom_eq_nil_iff]
    intro st hst; exact (isHealthy_false_iff st).2 (h st hst)
  · intro h
    apply getWith_none_of_empty
    rw [availFrom_eq_nil_iff]; exact h

/-- With a built-in strategy (first-available, round-robin, prefer-healthy) the converse holds
too: nothing is returned **iff** no resource qualifies. (A custom selector may decline or answer
out of range; then `None` is returned although resources qualify — that is the selector's choice.) -/
theorem none_iff_none (strat : Strat) (hb : strat.builtin = true) (sts : List St) (ctr : Nat) :
    ((getHealthy strat sts ctr).1 = none ↔ ∀ st ∈ sts, st.isHealthy = false) ∧
    ((getUsable strat sts ctr).1 = none ↔ ∀ st ∈ sts, st.usable = false) :=
  ⟨getWith_none_iff St.isHealthy usable_of_isHealthy strat hb sts ctr,
   getWith_none_iff St.usable (fun _ h => h) strat hb sts ctr⟩

/-- The eligible list a selection works on is exactly the qualifying resources, in order. -/
theorem eligible_iff (p : St → Bool) (sts : List St) (i : Nat) (st : St) :
    (i, st) ∈ availFrom p 0 sts ↔ sts[i]? = some st ∧ p st = true := by
  constructor
  · intro h; obtain ⟨h1, _, h3⟩ := availFrom_mem h; exact ⟨by simpa using h3, h1⟩
  · intro ⟨h1, h2⟩; simpa using availFrom_complete (k := 0) h1 h2

/-- Round-robin is even: with a fixed eligible set of size `n` (statuses unchanged, one of the
two filters), any `n` consecutive selections — from any value of the shared counter — are a
permutation of the eligible resources: each is visited exactly once. -/
theorem round_robin_even (p : St → Bool) (hp : p = St.isHealthy ∨ p = St.usable) (sts : List St) (ctr : Nat) :
    (picks p .rr sts (availFrom p 0 sts).length ctr).Perm ((availFrom p 0 sts).map (fun a => some a.1)) := by
  have hp' := filter_usable p hp
  by_cases hne : availFrom p 0 sts = []
  · simp [hne, picks]
  · rw [picks_rr p hp' sts hne]
    have := rot_perm ((availFrom p 0 sts).map (·.1)) ctr
    simpa [List.map_map, Function.comp_def] using this

/-- … and every successful round-robin selection moves the shared cursor by exactly one. -/
theorem round_robin_counter (p : St → Bool) (hp : p = St.isHealthy ∨ p = St.usable) (sts : List St) (ctr : Nat)
    (hne : availFrom p 0 sts ≠ []) : (getWith p .rr sts ctr).2 = ctr + 1 := by
  have hp' := filter_usable p hp
  rw [getWith_rr p hp' sts ctr hne]

/-- The timed model (periodic task, interval, per-check timeout, scripts) never does anything
to a resource but apply `stepRes` to completed checks: in every reachable state, for every
operation sequence and configuration, each resource is the fold of its own history, and no
resource appears or disappears. -/
theorem reachable_is_fold (cfg : Cfg) (ops : List Op) :
    (run cfg ops).slots.length = cfg.n ∧
    ∀ sl ∈ (run cfg ops).slots, sl.core = runRes cfg.sth cfg.fth sl.hist :=
  ⟨(inv_reachable cfg ops).len, fun sl h => ((inv_reachable cfg ops).fold sl h).fold⟩

/-! ## the check timeout (wrapper.rs 124: `timeout(config.timeout, check)`) -/

/-- "failed **or timed-out** checks … slower than the check timeout": at an instant at which the timeout of a check
has run out (`now ≥ start + timeout`) and its answer is not there yet (it never answers, or its latency has not
elapsed), the check is over and its outcome is `timedOut` — a failing outcome, which `stepRes` counts exactly like an
unhealthy answer. For every timeout, 0 included. -/
theorem slow_check_counts_as_failed (cfg : Cfg) (now start : Nat) (it : Item)
    (hdue : now ≥ start + cfg.timeout) (hslow : it.sym = .s ∨ now < start + it.lat) :
    verdict cfg now start it = some .timedOut ∧ Outcome.failing .timedOut = true ∧
    ∀ sth fth c, stepRes sth fth c .timedOut = stepRes sth fth c .unhealthy := by
  refine ⟨?_, rfl, fun _ _ _ => rfl⟩
  unfold verdict
  rw [if_neg (by rintro ⟨h1, h2⟩; rcases hslow with h | h; exact h1 h; omega), if_pos hdue]

/-- A per-check timeout of zero is a deadline that has run out at once, not "no deadline": the verdict at the very
instant the check is started is never "still pending"; it is the check's own answer exactly when the check is ready
at its first poll (latency 0), and `timedOut` otherwise. -/
theorem timeout_zero_first_poll (cfg : Cfg) (h0 : cfg.timeout = 0) (now : Nat) (it : Item) :
    verdict cfg now now it = some (if it.sym ≠ .s ∧ it.lat = 0 then it.sym.outcome else .timedOut) := by
  unfold verdict
  by_cases h : it.sym ≠ .s ∧ it.lat = 0
  · rw [if_pos ⟨h.1, by omega⟩, if_pos h]
  · rw [if_neg (by rintro ⟨h1, h2⟩; exact h ⟨h1, by omega⟩), if_pos (by omega), if_neg h]

/-- … and conversely a check is cut off only when its timeout has run out, and never when its answer is there. -/
theorem timed_out_only_when_due (cfg : Cfg) (now start : Nat) (it : Item)
    (h : verdict cfg now start it = some .timedOut) (hs : it.sym ≠ .s) :
    now ≥ start + cfg.timeout ∧ now < start + it.lat := by
  unfold verdict at h
  split at h
  · rename_i hc
    have : it.sym.outcome = .timedOut := by simpa using h
    cases hsym : it.sym <;> rw [hsym] at this hs <;> first | exact absurd rfl hs | cases this
  · rename_i hc
    split at h
    · rename_i hd; exact ⟨hd, Nat.lt_of_not_le (fun h2 => hc ⟨hs, h2⟩)⟩
    · cases h

/-! ## construction paths, `start()` again, `stop()`, observer callbacks -/

/-- The configuration of the crate (`HealthCheckConfig::default()`, what a stand-alone config builder or a wrapper
builder falls back to for every setter that is not called) has thresholds ≥ 1 and a non-zero interval and timeout:
it meets the one side condition of the threshold theorems (`unhealthy_at_threshold`: `1 ≤ fth`). -/
theorem crate_default_ok :
    1 ≤ crateDefault.fth ∧ 1 ≤ crateDefault.sth ∧ 0 < crateDefault.interval ∧ 0 < crateDefault.timeout := by decide

/-- `start()` called again, and `stop()`, touch nothing a resource's status is computed from: statuses, counters,
histories, the round-robin cursor stay as they are; the checks in flight stay in flight (they only lose their round).
With `reachable_is_fold` (which covers every operation sequence, restarts and stops included): counters are never
reset and no check is counted twice, however often the task is restarted. -/
theorem restart_and_stop_keep_state (cfg : Cfg) (s : State) (op : Op) (h : op = .start ∨ op = .stop) :
    (doOp cfg s op).slots = s.slots ∧ (doOp cfg s op).ctr = s.ctr ∧ (doOp cfg s op).now = s.now ∧
    (doOp cfg s op).pending.map (fun p => (p.r, p.start, p.item, p.id)) = s.pending.map (fun p => (p.r, p.start, p.item, p.id)) := by
  rcases h with rfl | rfl <;> simp [doOp, emit, orphan, List.map_map, Function.comp_def]

/-- After `stop()` — once the checks that were in flight have completed (they are tasks of their own and are not
aborted with the periodic task) — the published statuses and counters are frozen: no operation other than `start()`
changes any resource, over any further sequence of operations and any amount of virtual time. -/
theorem stopped_freezes (cfg : Cfg) (ops : List Op) (s : State) (hp : s.phase = .stopped) (hq : s.pending = [])
    (hops : ∀ op ∈ ops, op ≠ .start) :
    (ops.foldl (stepS cfg) s).slots.map (·.core) = s.slots.map (·.core) ∧
    (ops.foldl (stepS cfg) s).slots.map (·.hist) = s.slots.map (·.hist) ∧
    (ops.foldl (stepS cfg) s).phase = .stopped :=
  stopped_frozen cfg ops s hp hq hops

/-- `on_health_change` is called exactly on the transitions of the published status: in every reachable state the
invocations recorded for a resource form a chain `unknown → … → current status`, every link a real change
(`old ≠ new`) — none missing (the chain ends at the current status), none spurious. -/
theorem health_change_calls_are_the_transitions (cfg : Cfg) (ops : List Op) :
    ∀ sl ∈ (run cfg ops).slots, linked .unknown sl.changes sl.core.status = true :=
  fun sl h => ((inv_reachable cfg ops).fold sl h).chain

/-- … per completed check: `on_health_change(old, new)` iff `old ≠ new`, `on_check_failed` iff the check timed out,
nothing else. -/
theorem callbacks_per_check (r : Nat) (o : Outcome) (old new : St) :
    (HEv.cbChange r old new ∈ callbacks r o old new ↔ old ≠ new) ∧
    (HEv.cbFailed r ∈ callbacks r o old new ↔ o = .timedOut) ∧
    ∀ e ∈ callbacks r o old new, e = .cbFailed r ∨ e = .cbChange r old new := by
  unfold callbacks
  by_cases h1 : o = .timedOut <;> by_cases h2 : old = new <;> simp [h1, h2]

/-- The callbacks only observe. Whether they are registered is not an input of the model's transition function
(`stepS` takes a `Cfg`, which has no such field), so statuses, counters, selection and timing cannot depend on it;
and what is visible with callbacks registered, minus the callback lines, is what is visible without them. -/
theorem callbacks_only_observe (evs : List HEv) :
    (visible true evs).filter (fun e => !e.isCallback) = visible false evs := rfl

/-- `HealthStatus` ↔ `u8` (lib.rs 93-113): the round trip is the identity, the codes are 0..3, every other byte
reads as `unknown`. -/
theorem u8_roundtrip (s : St) : St.ofU8 s.toU8 = s ∧ s.toU8 < 4 := by cases s <;> decide

theorem u8_other_is_unknown (v : Nat) (h : 3 ≤ v) : St.ofU8 v = .unknown := by
  match v, h with
  | 3, _ => rfl
  | n + 4, _ => rfl

/-! ## finding: one cursor for two filters

`get_healthy` and `get_usable` share `round_robin_counter`. When their eligible sets differ,
interleaved calls are **not** even per method: below, three resources (healthy, healthy,
degraded), calls alternate `get_healthy`, `get_usable`; `get_healthy` is handed resource 0
every time and never resource 1. `round_robin_even` above is the evenness that does hold. -/
theorem shared_cursor_starves :
    let sts := [St.healthy, St.healthy, St.degraded]
    let gh (c : Nat) := (getHealthy .rr sts c).1
    let gu (c : Nat) := (getUsable .rr sts c).1
    [gh 0, gu 1, gh 2, gu 3, gh 4, gu 5, gh 6] =
      [some 0, some 1, some 0, some 0, some 0, some 2, some 0] := by decide

/-! ## non-vacuity -/

/-- thresholds 2/3, alternating failures do not flip; the third consecutive failure does; the
first healthy check after that does not recover, the second does; a slow check counts as a failure -/
example :
    (runRes 2 3 [.healthy, .healthy, .unhealthy, .unhealthy, .healthy]).status = .healthy ∧
    (runRes 2 3 [.healthy, .healthy, .unhealthy, .timedOut]).status = .healthy ∧
    (runRes 2 3 [.healthy, .healthy, .unhealthy, .unknown, .timedOut, .unhealthy]).status = .unhealthy ∧
    (runRes 2 3 [.healthy, .healthy, .unhealthy, .timedOut, .unhealthy, .healthy]).status = .unhealthy ∧
    (runRes 2 3 [.healthy, .healthy, .unhealthy, .timedOut, .unhealthy, .degraded, .healthy]).status = .healthy := by
  decide

/-- the hypotheses of `unhealthy_only_after_threshold` / `healthy_only_after_run` are met -/
example :
    (runRes 2 3 [.healthy, .healthy, .unhealthy, .timedOut]).status ≠ .unhealthy ∧
    (runRes 2 3 ([.healthy, .healthy, .unhealthy, .timedOut] ++ [.unhealthy])).status = .unhealthy ∧
    (runRes 2 3 [.unhealthy, .unhealthy, .unhealthy, .degraded]).status ≠ .healthy ∧
    (runRes 2 3 ([.unhealthy, .unhealthy, .unhealthy, .degraded] ++ [.healthy])).status = .healthy := by
  decide

/-- selection: soundness hypotheses are met, `none` is reached, round-robin goes round -/
example :
    (getHealthy .first [.unhealthy, .degraded, .healthy] 0).1 = some 2 ∧
    (getUsable .first [.unhealthy, .degraded, .healthy] 0).1 = some 1 ∧
    (getUsable .prefer [.unhealthy, .degraded, .healthy] 0).1 = some 2 ∧
    (getHealthy .rr [.unknown, .unhealthy] 7) = (none, 7) ∧
    (getHealthy (.custom fun _ => some 5) [.healthy] 0).1 = none ∧
    picks St.usable .rr [.healthy, .unhealthy, .degraded, .healthy] 3 5 = [some 3, some 0, some 2] := by
  decide

/-- the timed model: interval 10 ms, timeout 5 ms, thresholds 1/2; resource 0 answers healthy,
then never (timed out at +5 ms) twice ⇒ unhealthy exactly after the second time-out -/
example :
    let cfg : Cfg := { n := 1, sth := 1, fth := 2, interval := 10, timeout := 5, delay := 0,
                       strat := .first, dflt := ⟨.s, 0⟩ }
    let ops := [Op.script 0 [⟨.h, 0⟩], .adv 10 [], .adv 5 []]
    (run cfg ops).slots.map (·.core) = [⟨.healthy, 1, 0⟩] ∧
    (run cfg (ops ++ [.adv 5 [], .adv 4 []])).slots.map (·.core) = [⟨.healthy, 1, 0⟩] ∧
    (run cfg (ops ++ [.adv 5 [], .adv 5 []])).slots.map (·.core) = [⟨.unhealthy, 2, 0⟩] := by
  decide

/-- timeout 0 (thresholds 1/2, interval 10 ms): a check that answers 3 ms after it was called is timed out at its
first poll, twice ⇒ unhealthy; a check that is ready at once counts with its own answer -/
example :
    let cfg : Cfg := { n := 2, sth := 1, fth := 2, interval := 10, timeout := 0, delay := 0,
                       strat := .first, dflt := ⟨.h, 0⟩ }
    let ops := [Op.script 0 [⟨.h, 3⟩, ⟨.h, 3⟩], .adv 10 []]
    (run cfg ops).slots.map (·.core) = [⟨.unhealthy, 2, 0⟩, ⟨.healthy, 0, 2⟩] ∧
    (run cfg ops).pending = [] := by
  decide

/-- `start()` again while a check is in flight (interval 10, timeout 5, thresholds 1/1): the old check is not lost —
it is cut off at its own deadline although its periodic task is gone — and the new task checks at once (two checks
of one resource in flight). When both complete at one instant the outcome depends on the order, which is the
scheduler's (taken from the implementation as an observed choice). After `stop()` the check in flight still
completes, then nothing changes any more; the recorded `on_health_change` invocations are exactly the transitions. -/
example :
    let cfg : Cfg := { n := 1, sth := 1, fth := 1, interval := 10, timeout := 5, delay := 0,
                       strat := .first, dflt := ⟨.h, 2⟩ }
    let ops := [Op.script 0 [⟨.s, 0⟩], .adv 1 [], .start]
    (run cfg ops).pending.map (fun p => (p.id, p.cur)) = [(0, false), (1, true)] ∧
    (run cfg (ops ++ [.adv 4 [0, 1]])).slots.map (·.core) = [⟨.healthy, 0, 1⟩] ∧
    (run cfg (ops ++ [.adv 4 [1, 0]])).slots.map (·.core) = [⟨.unhealthy, 1, 0⟩] ∧
    (run cfg (ops ++ [.adv 4 [0, 1], .adv 6 [], .stop])).pending.map (·.id) = [2] ∧
    (run cfg (ops ++ [.adv 4 [0, 1], .adv 6 [], .stop, .adv 50 []])).slots.map (·.core) = [⟨.healthy, 0, 2⟩] ∧
    (run cfg (ops ++ [.adv 4 [0, 1], .adv 6 [], .stop, .adv 50 []])).slots.map (·.changes) =
      [[(.unknown, .unhealthy), (.unhealthy, .healthy)]] ∧
    (run cfg (ops ++ [.adv 4 [0, 1], .adv 6 [], .stop, .adv 50 [], .adv 500 []])).slots.map (·.core) = [⟨.healthy, 0, 2⟩] ∧
    (run cfg (ops ++ [.adv 4 [0, 1], .adv 6 [], .stop, .adv 50 []])).phase = .stopped := by
  decide

end TR.Props.C18
