import TR.Lemmas.HealthLog
import TR.Lemmas.HealthFuel
/-!
# C18 — health status flips only at its thresholds; selection returns eligible resources

Quantification: every sequence `os` of completed checks of a resource (healthy, degraded,
unhealthy, unknown, timed out — oldest first), every `success_threshold` / `failure_threshold`
(no lower bound is needed, 0 included), every vector `sts` of published statuses (= any number
of resources), every selection strategy (`custom f` for an arbitrary function `f`), every value
of the shared round-robin counter. `runRes sth fth os` is the resource after those checks;
`reachable_is_fold` ties the timed model the correspondence check runs to it; `hist_is_log` and
`every_probe_reports_the_log_before_it` tie it to the event log (what is compared with the
implementation): the `…_log` theorems restate the clauses over log lines, at every prefix.
-/
namespace TR.Props.C18
open TR TR.Health

/-- A resource's published status **becomes** unhealthy only on a failed or timed-out check,
and then the last `failure_threshold` checks with a known result (this one included) all
failed or timed out. -/
theorem unhealthy_only_after_threshold (sth fth : Nat) (os : List Outcome) (o : Outcome)
    (hbefore : (runRes sth fth os).status ≠ .unhealthy)
    (hafter : (runRes sth fth (os ++ [o])).status = .unhealthy) :
    o.failing = true ∧
    ∃ pre run, knownOf (os ++ [o]) = pre ++ run ∧ run.length = fth ∧ ∀ x ∈ run, x.failing = true := by
  rw [runRes_snoc] at hafter
  obtain ⟨hf, hge⟩ := step_to_unhealthy sth fth _ o hbefore hafter
  have hc := (counts_run sth fth (os ++ [o])).fails
  rw [runRes_snoc] at hc
  exact ⟨hf, hc.shorten hge⟩

/-- A resource's published status **becomes** healthy only on a healthy check, and then the
last `success_threshold` checks with a known result (this one included) were all non-failing
(healthy or degraded). -/
theorem healthy_only_after_run (sth fth : Nat) (os : List Outcome) (o : Outcome)
    (hbefore : (runRes sth fth os).status ≠ .healthy)
    (hafter : (runRes sth fth (os ++ [o])).status = .healthy) :
    o = .healthy ∧
    ∃ pre run, knownOf (os ++ [o]) = pre ++ run ∧ run.length = sth ∧ ∀ x ∈ run, x.passing = true := by
  rw [runRes_snoc] at hafter
  obtain ⟨hf, hge⟩ := step_to_healthy sth fth _ o hbefore hafter
  have hc := (counts_run sth fth (os ++ [o])).succs
  rw [runRes_snoc] at hc
  exact ⟨hf, hc.shorten hge⟩

/-- The counters the thresholds are compared with are exactly the lengths of the current runs:
no longer run of failing (resp. non-failing) known results ends the history. Together with
`Counts` this says `consecutive_failures` / `consecutive_successes` mean what their names say,
unknown results being transparent. -/
theorem counters_are_run_lengths (sth fth : Nat) (os : List Outcome) :
    HasRun Outcome.failing os (runRes sth fth os).fails ∧ MaxRun Outcome.failing os (runRes sth fth os).fails ∧
    HasRun Outcome.passing os (runRes sth fth os).succs ∧ MaxRun Outcome.passing os (runRes sth fth os).succs :=
  ⟨(counts_run sth fth os).fails, (exact_run sth fth os).fails,
   (counts_run sth fth os).succs, (exact_run sth fth os).succs⟩

/-- Converse of the first clause (the threshold is not only necessary but sufficient): once the
last `failure_threshold ≥ 1` known results all failed or timed out, the status is unhealthy. -/
theorem unhealthy_at_threshold (sth fth : Nat) (hpos : 1 ≤ fth) (os : List Outcome)
    (h : HasRun Outcome.failing os fth) : (runRes sth fth os).status = .unhealthy := by
  obtain ⟨pre, run, he, hl, hp⟩ := h
  have hmax := (exact_run sth fth os).fails pre run he hp
  exact (published_run sth fth os).fail (by omega) (by omega)

/-- Converse of the second clause: a healthy check that completes a run of `success_threshold`
non-failing known results publishes healthy. -/
theorem healthy_at_threshold (sth fth : Nat) (os : List Outcome)
    (h : HasRun Outcome.passing (os ++ [.healthy]) sth) :
    (runRes sth fth (os ++ [.healthy])).status = .healthy := by
  obtain ⟨pre, run, he, hl, hp⟩ := h
  have hmax := (exact_run sth fth (os ++ [.healthy])).succs pre run he hp
  rw [runRes_snoc] at hmax ⊢
  simp only [stepRes, onHealthy_succs] at hmax
  simp only [stepRes, onHealthy_status]
  rw [if_pos (by omega)]

/-- A degraded result is published at once, whatever the history and the thresholds. -/
theorem degraded_at_once (sth fth : Nat) (os : List Outcome) :
    (runRes sth fth (os ++ [.degraded])).status = .degraded := by
  rw [runRes_snoc]; rfl

/-- An unknown result changes nothing: neither the status nor either counter. -/
theorem unknown_changes_nothing (sth fth : Nat) (os : List Outcome) :
    runRes sth fth (os ++ [.unknown]) = runRes sth fth os := by
  rw [runRes_snoc]; rfl

/-- `get_healthy` returns only a resource that exists and is currently published healthy —
for every strategy, including an arbitrary custom selector, and every counter value. -/
theorem get_healthy_sound (strat : Strat) (sts : List St) (ctr i : Nat)
    (h : (getHealthy strat sts ctr).1 = some i) : sts[i]? = some .healthy := by
  obtain ⟨st, h1, h2⟩ := getWith_sound St.isHealthy strat sts ctr i h
  rw [(isHealthy_iff st).1 h2] at h1; exact h1

/-- `get_usable` returns only a resource currently published healthy or degraded. -/
theorem get_usable_sound (strat : Strat) (sts : List St) (ctr i : Nat)
    (h : (getUsable strat sts ctr).1 = some i) :
    sts[i]? = some .healthy ∨ sts[i]? = some .degraded := by
  obtain ⟨st, h1, h2⟩ := getWith_sound St.usable strat sts ctr i h
  rcases (usable_iff st).1 h2 with e | e
  · exact Or.inl (by rw [e] at h1; exact h1)
  · exact Or.inr (by rw [e] at h1; exact h1)

/-- When no resource qualifies both return nothing (and leave the round-robin counter alone),
whatever the strategy. -/
theorem none_when_none_any_strategy (strat : Strat) (sts : List St) (ctr : Nat) :
    ((∀ st ∈ sts, st ≠ .healthy) → getHealthy strat sts ctr = (none, ctr)) ∧
    ((∀ st ∈ sts, st.usable = false) → getUsable strat sts ctr = (none, ctr)) := by
  constructor
  · intro h
    apply getWith_none_of_empty
    rw [availFrom_eq_nil_iff]
    intro st hst; exact (isHealthy_false_iff st).2 (h st hst)
  · intro h
    apply getWith_none_of_empty
    rw [availFrom_eq_nil_iff]; exact h

/-- With a built-in strategy (first-available, round-robin, prefer-healthy) the converse holds
too: nothing is returned **iff** no resource qualifies. (A custom selector may decline or answer
out of range; then `None` is returned although resources qualify — that is the selector's choice.) -/
theorem none_iff_none (strat : Strat) (hb : strat.builtin = true) (sts : List St) (ctr : Nat) :
    ((getHealthy strat sts ctr).1 = none ↔ ∀ st ∈ sts, st.isHealthy = false) ∧
    ((getUsable strat sts ctr).1 = none ↔ ∀ st ∈ sts, st.usable = false) :=
  ⟨getWith_none_iff St.isHealthy usable_of_isHealthy strat hb sts ctr,
   getWith_none_iff St.usable (fun _ h => h) strat hb sts ctr⟩

/-- The eligible list a selection works on is exactly the qualifying resources, in order. -/
theorem eligible_iff (p : St → Bool) (sts : List St) (i : Nat) (st : St) :
    (i, st) ∈ availFrom p 0 sts ↔ sts[i]? = some st ∧ p st = true := by
  constructor
  · intro h; obtain ⟨h1, _, h3⟩ := availFrom_mem h; exact ⟨by simpa using h3, h1⟩
  · intro ⟨h1, h2⟩; simpa using availFrom_complete (k := 0) h1 h2

/-- Round-robin is even: with a fixed eligible set of size `n` (statuses unchanged, one of the
two filters), any `n` consecutive selections — from any value of the shared counter — are a
permutation of the eligible resources: each is visited exactly once. -/
theorem round_robin_even (p : St → Bool) (hp : p = St.isHealthy ∨ p = St.usable) (sts : List St) (ctr : Nat) :
    (picks p .rr sts (availFrom p 0 sts).length ctr).Perm ((availFrom p 0 sts).map (fun a => some a.1)) := by
  have hp' := filter_usable p hp
  by_cases hne : availFrom p 0 sts = []
  · simp [hne, picks]
  · rw [picks_rr p hp' sts hne]
    have := rot_perm ((availFrom p 0 sts).map (·.1)) ctr
    simpa [List.map_map, Function.comp_def] using this

/-- … and every successful round-robin selection moves the shared cursor by exactly one. -/
theorem round_robin_counter (p : St → Bool) (hp : p = St.isHealthy ∨ p = St.usable) (sts : List St) (ctr : Nat)
    (hne : availFrom p 0 sts ≠ []) : (getWith p .rr sts ctr).2 = ctr + 1 := by
  have hp' := filter_usable p hp
  rw [getWith_rr p hp' sts ctr hne]

/-- The timed model (periodic task, interval, per-check timeout, scripts) never does anything
to a resource but apply `stepRes` to completed checks: in every reachable state, for every
operation sequence and configuration, each resource is the fold of its own history, and no
resource appears or disappears. -/
theorem reachable_is_fold (cfg : Cfg) (ops : List Op) :
    (run cfg ops).slots.length = cfg.n ∧
    ∀ sl ∈ (run cfg ops).slots, sl.core = runRes cfg.sth cfg.fth sl.hist :=
  ⟨(inv_reachable cfg ops).len, fun sl h => ((inv_reachable cfg ops).fold sl h).fold⟩

/-! ## the check timeout (wrapper.rs 124: `timeout(config.timeout, check)`) -/

/-- "failed **or timed-out** checks … slower than the check timeout": at an instant at which the timeout of a check
has run out (`now ≥ start + timeout`) and its answer is not there yet (it never answers, or its latency has not
elapsed), the check is over and its outcome is `timedOut` — a failing outcome, which `stepRes` counts exactly like an
unhealthy answer. For every timeout, 0 included. -/
theorem slow_check_counts_as_failed (cfg : Cfg) (now start : Nat) (it : Item)
    (hdue : now ≥ start + cfg.timeout) (hslow : it.sym = .s ∨ now < start + it.lat) :
    verdict cfg now start it = some .timedOut ∧ Outcome.failing .timedOut = true ∧
    ∀ sth fth c, stepRes sth fth c .timedOut = stepRes sth fth c .unhealthy := by
  refine ⟨?_, rfl, fun _ _ _ => rfl⟩
  unfold verdict
  rw [if_neg (by rintro ⟨h1, h2⟩; rcases hslow with h | h; exact h1 h; omega), if_pos hdue]

/-- A per-check timeout of zero is a deadline that has run out at once, not "no deadline": the verdict at the very
instant the check is started is never "still pending"; it is the check's own answer exactly when the check is ready
at its first poll (latency 0), and `timedOut` otherwise. -/
theorem timeout_zero_first_poll (cfg : Cfg) (h0 : cfg.timeout = 0) (now : Nat) (it : Item) :
    verdict cfg now now it = some (if it.sym ≠ .s ∧ it.lat = 0 then it.sym.outcome else .timedOut) := by
  unfold verdict
  by_cases h : it.sym ≠ .s ∧ it.lat = 0
  · rw [if_pos ⟨h.1, by omega⟩, if_pos h]
  · rw [if_neg (by rintro ⟨h1, h2⟩; exact h ⟨h1, by omega⟩), if_pos (by omega), if_neg h]

/-- … and conversely a check is cut off only when its timeout has run out, and never when its answer is there. -/
theorem timed_out_only_when_due (cfg : Cfg) (now start : Nat) (it : Item)
    (h : verdict cfg now start it = some .timedOut) (hs : it.sym ≠ .s) :
    now ≥ start + cfg.timeout ∧ now < start + it.lat := by
  unfold verdict at h
  split at h
  · rename_i hc
    have : it.sym.outcome = .timedOut := by simpa using h
    cases hsym : it.sym <;> rw [hsym] at this hs <;> first | exact absurd rfl hs | cases this
  · rename_i hc
    split at h
    · rename_i hd; exact ⟨hd, Nat.lt_of_not_le (fun h2 => hc ⟨hs, h2⟩)⟩
    · cases h

/-! ## construction paths, `start()` again, `stop()`, observer callbacks -/

/-- The configuration of the crate (`HealthCheckConfig::default()`, what a stand-alone config builder or a wrapper
builder falls back to for every setter that is not called) has thresholds ≥ 1 and a non-zero interval and timeout:
it meets the one side condition of the threshold theorems (`unhealthy_at_threshold`: `1 ≤ fth`). -/
theorem crate_default_ok :
    1 ≤ crateDefault.fth ∧ 1 ≤ crateDefault.sth ∧ 0 < crateDefault.interval ∧ 0 < crateDefault.timeout := by decide

/-- `start()` called again, and `stop()`, touch nothing a resource's status is computed from: statuses, counters,
histories, the round-robin cursor stay as they are; the checks in flight stay in flight (they only lose their round).
With `reachable_is_fold` (which covers every operation sequence, restarts and stops included): counters are never
reset and no check is counted twice, however often the task is restarted. -/
theorem restart_and_stop_keep_state (cfg : Cfg) (s : State) (op : Op) (h : op = .start ∨ op = .stop) :
    (doOp cfg s op).slots = s.slots ∧ (doOp cfg s op).ctr = s.ctr ∧ (doOp cfg s op).now = s.now ∧
    (doOp cfg s op).pending.map (fun p => (p.r, p.start, p.item, p.id)) = s.pending.map (fun p => (p.r, p.start, p.item, p.id)) := by
  rcases h with rfl | rfl <;> simp [doOp, emit, orphan, List.map_map, Function.comp_def]

/-- After `stop()` — once the checks that were in flight have completed (they are tasks of their own and are not
aborted with the periodic task) — the published statuses and counters are frozen: no operation other than `start()`
changes any resource, over any further sequence of operations and any amount of virtual time. -/
theorem stopped_freezes (cfg : Cfg) (ops : List Op) (s : State) (hp : s.phase = .stopped) (hq : s.pending = [])
    (hops : ∀ op ∈ ops, op ≠ .start) :
    (ops.foldl (stepS cfg) s).slots.map (·.core) = s.slots.map (·.core) ∧
    (ops.foldl (stepS cfg) s).slots.map (·.hist) = s.slots.map (·.hist) ∧
    (ops.foldl (stepS cfg) s).phase = .stopped :=
  stopped_frozen cfg ops s hp hq hops

/-- `on_health_change` is called exactly on the transitions of the published status: in every reachable state the
invocations recorded for a resource form a chain `unknown → … → current status`, every link a real change
(`old ≠ new`) — none missing (the chain ends at the current status), none spurious. -/
theorem health_change_calls_are_the_transitions (cfg : Cfg) (ops : List Op) :
    ∀ sl ∈ (run cfg ops).slots, linked .unknown sl.changes sl.core.status = true :=
  fun sl h => ((inv_reachable cfg ops).fold sl h).chain

/-- … per completed check: `on_health_change(old, new)` iff `old ≠ new`, `on_check_failed` iff the check timed out,
nothing else. -/
theorem callbacks_per_check (r : Nat) (o : Outcome) (old new : St) :
    (HEv.cbChange r old new ∈ callbacks r o old new ↔ old ≠ new) ∧
    (HEv.cbFailed r ∈ callbacks r o old new ↔ o = .timedOut) ∧
    ∀ e ∈ callbacks r o old new, e = .cbFailed r ∨ e = .cbChange r old new := by
  unfold callbacks
  by_cases h1 : o = .timedOut <;> by_cases h2 : old = new <;> simp [h1, h2]

/-- The callbacks only observe. Whether they are registered is not an input of the model's transition function
(`stepS` takes a `Cfg`, which has no such field), so statuses, counters, selection and timing cannot depend on it;
and what is visible with callbacks registered, minus the callback lines, is what is visible without them. -/
theorem callbacks_only_observe (evs : List HEv) :
    (visible true evs).filter (fun e => !e.isCallback) = visible false evs := rfl

/-- `HealthStatus` ↔ `u8` (lib.rs 93-113): the round trip is the identity, the codes are 0..3, every other byte
reads as `unknown`. -/
theorem u8_roundtrip (s : St) : St.ofU8 s.toU8 = s ∧ s.toU8 < 4 := by cases s <;> decide

theorem u8_other_is_unknown (v : Nat) (h : 3 ≤ v) : St.ofU8 v = .unknown := by
  match v, h with
  | 3, _ => rfl
  | n + 4, _ => rfl

/-! ## finding: one cursor for two filters

`get_healthy` and `get_usable` share `round_robin_counter`. When their eligible sets differ,
interleaved calls are **not** even per method: below, three resources (healthy, healthy,
degraded), calls alternate `get_healthy`, `get_usable`; `get_healthy` is handed resource 0
every time and never resource 1. `round_robin_even` above is the evenness that does hold. -/
theorem shared_cursor_starves :
    let sts := [St.healthy, St.healthy, St.degraded]
    let gh (c : Nat) := (getHealthy .rr sts c).1
    let gu (c : Nat) := (getUsable .rr sts c).1
    [gh 0, gu 1, gh 2, gu 3, gh 4, gu 5, gh 6] =
      [some 0, some 1, some 0, some 0, some 0, some 2, some 0] := by decide

/-! ## non-vacuity -/

/-- thresholds 2/3, alternating failures do not flip; the third consecutive failure does; the
first healthy check after that does not recover, the second does; a slow check counts as a failure -/
example :
    (runRes 2 3 [.healthy, .healthy, .unhealthy, .unhealthy, .healthy]).status = .healthy ∧
    (runRes 2 3 [.healthy, .healthy, .unhealthy, .timedOut]).status = .healthy ∧
    (runRes 2 3 [.healthy, .healthy, .unhealthy, .unknown, .timedOut, .unhealthy]).status = .unhealthy ∧
    (runRes 2 3 [.healthy, .healthy, .unhealthy, .timedOut, .unhealthy, .healthy]).status = .unhealthy ∧
    (runRes 2 3 [.healthy, .healthy, .unhealthy, .timedOut, .unhealthy, .degraded, .healthy]).status = .healthy := by
  decide

/-- the hypotheses of `unhealthy_only_after_threshold` / `healthy_only_after_run` are met -/
example :
    (runRes 2 3 [.healthy, .healthy, .unhealthy, .timedOut]).status ≠ .unhealthy ∧
    (runRes 2 3 ([.healthy, .healthy, .unhealthy, .timedOut] ++ [.unhealthy])).status = .unhealthy ∧
    (runRes 2 3 [.unhealthy, .unhealthy, .unhealthy, .degraded]).status ≠ .healthy ∧
    (runRes 2 3 ([.unhealthy, .unhealthy, .unhealthy, .degraded] ++ [.healthy])).status = .healthy := by
  decide

/-- selection: soundness hypotheses are met, `none` is reached, round-robin goes round -/
example :
    (getHealthy .first [.unhealthy, .degraded, .healthy] 0).1 = some 2 ∧
    (getUsable .first [.unhealthy, .degraded, .healthy] 0).1 = some 1 ∧
    (getUsable .prefer [.unhealthy, .degraded, .healthy] 0).1 = some 2 ∧
    (getHealthy .rr [.unknown, .unhealthy] 7) = (none, 7) ∧
    (getHealthy (.custom fun _ => some 5) [.healthy] 0).1 = none ∧
    picks St.usable .rr [.healthy, .unhealthy, .degraded, .healthy] 3 5 = [some 3, some 0, some 2] := by
  decide

/-- the timed model: interval 10 ms, timeout 5 ms, thresholds 1/2; resource 0 answers healthy,
then never (timed out at +5 ms) twice ⇒ unhealthy exactly after the second time-out -/
example :
    let cfg : Cfg := { n := 1, sth := 1, fth := 2, interval := 10, timeout := 5, delay := 0,
                       strat := .first, dflt := ⟨.s, 0⟩ }
    let ops := [Op.script 0 [⟨.h, 0⟩], .adv 10 [], .adv 5 []]
    (run cfg ops).slots.map (·.core) = [⟨.healthy, 1, 0⟩] ∧
    (run cfg (ops ++ [.adv 5 [], .adv 4 []])).slots.map (·.core) = [⟨.healthy, 1, 0⟩] ∧
    (run cfg (ops ++ [.adv 5 [], .adv 5 []])).slots.map (·.core) = [⟨.unhealthy, 2, 0⟩] := by
  decide

/-- timeout 0 (thresholds 1/2, interval 10 ms): a check that answers 3 ms after it was called is timed out at its
first poll, twice ⇒ unhealthy; a check that is ready at once counts with its own answer -/
example :
    let cfg : Cfg := { n := 2, sth := 1, fth := 2, interval := 10, timeout := 0, delay := 0,
                       strat := .first, dflt := ⟨.h, 0⟩ }
    let ops := [Op.script 0 [⟨.h, 3⟩, ⟨.h, 3⟩], .adv 10 []]
    (run cfg ops).slots.map (·.core) = [⟨.unhealthy, 2, 0⟩, ⟨.healthy, 0, 2⟩] ∧
    (run cfg ops).pending = [] := by
  decide

/-- `start()` again while a check is in flight (interval 10, timeout 5, thresholds 1/1): the old check is not lost —
it is cut off at its own deadline although its periodic task is gone — and the new task checks at once (two checks
of one resource in flight). When both complete at one instant the outcome depends on the order, which is the
scheduler's (taken from the implementation as an observed choice). After `stop()` the check in flight still
completes, then nothing changes any more; the recorded `on_health_change` invocations are exactly the transitions. -/
example :
    let cfg : Cfg := { n := 1, sth := 1, fth := 1, interval := 10, timeout := 5, delay := 0,
                       strat := .first, dflt := ⟨.h, 2⟩ }
    let ops := [Op.script 0 [⟨.s, 0⟩], .adv 1 [], .start]
    (run cfg ops).pending.map (fun p => (p.id, p.cur)) = [(0, false), (1, true)] ∧
    (run cfg (ops ++ [.adv 4 [0, 1]])).slots.map (·.core) = [⟨.healthy, 0, 1⟩] ∧
    (run cfg (ops ++ [.adv 4 [1, 0]])).slots.map (·.core) = [⟨.unhealthy, 1, 0⟩] ∧
    (run cfg (ops ++ [.adv 4 [0, 1], .adv 6 [], .stop])).pending.map (·.id) = [2] ∧
    (run cfg (ops ++ [.adv 4 [0, 1], .adv 6 [], .stop, .adv 50 []])).slots.map (·.core) = [⟨.healthy, 0, 2⟩] ∧
    (run cfg (ops ++ [.adv 4 [0, 1], .adv 6 [], .stop, .adv 50 []])).slots.map (·.changes) =
      [[(.unknown, .unhealthy), (.unhealthy, .healthy)]] ∧
    (run cfg (ops ++ [.adv 4 [0, 1], .adv 6 [], .stop, .adv 50 [], .adv 500 []])).slots.map (·.core) = [⟨.healthy, 0, 2⟩] ∧
    (run cfg (ops ++ [.adv 4 [0, 1], .adv 6 [], .stop, .adv 50 []])).phase = .stopped := by
  decide

/-! ## the ghost history is the event log; the thresholds over the log

The event log is what the correspondence check compares with the implementation. `outcomesOf r log` reads the
`check_done r …` / `check_drop r …` lines of a log (a dropped check = timed out). -/

/-- In every reachable state the ghost history of resource `r` **is** what the check lines of the log report for `r`,
in order: nothing is counted that the log does not show, nothing the log shows is left out or counted twice — for
every operation sequence (restarts, stops, observed completion orders) and every configuration. -/
theorem hist_is_log (cfg : Cfg) (ops : List Op) (r : Nat) (sl : Slot) (h : (run cfg ops).slots[r]? = some sl) :
    sl.hist = outcomesOf r (run cfg ops).log :=
  (tr_reachable cfg ops).bridge r sl h

/-- … hence status and counters of every resource are the threshold fold of the log's own check lines. -/
theorem status_is_fold_of_log (cfg : Cfg) (ops : List Op) (r : Nat) (sl : Slot) (h : (run cfg ops).slots[r]? = some sl) :
    sl.core = runRes cfg.sth cfg.fth (outcomesOf r (run cfg ops).log) :=
  tr_core (tr_reachable cfg ops) h

/-- **Every prefix, not only the final state.** Each probe line of the log reports what the lines *before it*
determine (`EvOK`): `status r` / `details r` / `all` the fold of the check lines of each resource so far,
`get_healthy` / `get_usable` the selection over those statuses with the shared counter of that moment (= the number of
earlier selections that returned a resource, under round-robin). -/
theorem every_probe_reports_the_log_before_it (cfg : Cfg) (ops : List Op) (pre post : List HEv) (e : HEv)
    (h : (run cfg ops).log = pre ++ e :: post) : EvOK cfg pre e :=
  logOK_split (tr_reachable cfg ops).obs h

/-- Status after a run of failed check events: wherever the log shows `status r = st` and the last
`failure_threshold ≥ 1` check lines of `r` with a known result before it are all failed or timed out, `st` is unhealthy. -/
theorem unhealthy_after_failed_run_log (cfg : Cfg) (hpos : 1 ≤ cfg.fth) (ops : List Op) (pre post : List HEv) (r : Nat) (st : St)
    (h : (run cfg ops).log = pre ++ .status r (some st) :: post)
    (hrun : HasRun Outcome.failing (outcomesOf r pre) cfg.fth) : st = .unhealthy := by
  obtain ⟨_, hst⟩ := status_line (every_probe_reports_the_log_before_it cfg ops pre post _ h)
  rw [hst]; exact unhealthy_at_threshold cfg.sth cfg.fth hpos _ hrun

/-- Status after a run of ok check events: the last check line of `r` is healthy and completes a run of
`success_threshold` non-failing ones ⇒ the next status line says healthy. -/
theorem healthy_after_ok_run_log (cfg : Cfg) (ops : List Op) (pre post : List HEv) (r : Nat) (st : St) (os : List Outcome)
    (h : (run cfg ops).log = pre ++ .status r (some st) :: post)
    (hlast : outcomesOf r pre = os ++ [.healthy])
    (hrun : HasRun Outcome.passing (os ++ [.healthy]) cfg.sth) : st = .healthy := by
  obtain ⟨_, hst⟩ := status_line (every_probe_reports_the_log_before_it cfg ops pre post _ h)
  rw [hst, coreAt, hlast]; exact healthy_at_threshold cfg.sth cfg.fth os hrun

/-- A degraded check line is published at once: the next status line says degraded. -/
theorem degraded_at_once_log (cfg : Cfg) (ops : List Op) (pre post : List HEv) (r : Nat) (st : St) (os : List Outcome)
    (h : (run cfg ops).log = pre ++ .status r (some st) :: post)
    (hlast : outcomesOf r pre = os ++ [.degraded]) : st = .degraded := by
  obtain ⟨_, hst⟩ := status_line (every_probe_reports_the_log_before_it cfg ops pre post _ h)
  rw [hst, coreAt, hlast]; exact degraded_at_once cfg.sth cfg.fth os

/-- **Unhealthy only after the threshold, over the log.** Two status lines of `r`, the earlier one not unhealthy, the
later one unhealthy: between them the log has a check line of `r` that failed or timed out and completes a run of
`failure_threshold` failed / timed-out check lines of `r` (among those with a known result, counted from the start of
the log). -/
theorem flip_to_unhealthy_between_observations (cfg : Cfg) (ops : List Op) (pre mid post : List HEv) (r : Nat) (st1 : St)
    (h : (run cfg ops).log = pre ++ .status r (some st1) :: (mid ++ .status r (some .unhealthy) :: post))
    (hne : st1 ≠ .unhealthy) :
    ∃ m1 e m2 o, mid = m1 ++ e :: m2 ∧ outcomeAt r e = some o ∧ o.failing = true ∧
      HasRun Outcome.failing (outcomesOf r (pre ++ m1) ++ [o]) cfg.fth := by
  obtain ⟨_, h1⟩ := status_line (every_probe_reports_the_log_before_it cfg ops pre _ _ h)
  have h' : (run cfg ops).log = (pre ++ .status r (some st1) :: mid) ++ .status r (some .unhealthy) :: post := by
    rw [h]; simp
  obtain ⟨_, h2⟩ := status_line (every_probe_reports_the_log_before_it cfg ops _ _ _ h')
  rw [coreAt_skip cfg r pre mid _ rfl] at h2
  obtain ⟨m1, e, m2, o, hm, ho, hb, ha⟩ := flip_in_mid cfg r .unhealthy pre mid (by rw [← h1]; exact hne) h2.symm
  obtain ⟨hf, hr⟩ := unhealthy_only_after_threshold cfg.sth cfg.fth _ o hb ha
  exact ⟨m1, e, m2, o, hm, ho, hf, hr⟩

/-- **Healthy only after a healthy check completing the run, over the log.** -/
theorem flip_to_healthy_between_observations (cfg : Cfg) (ops : List Op) (pre mid post : List HEv) (r : Nat) (st1 : St)
    (h : (run cfg ops).log = pre ++ .status r (some st1) :: (mid ++ .status r (some .healthy) :: post))
    (hne : st1 ≠ .healthy) :
    ∃ m1 e m2, mid = m1 ++ e :: m2 ∧ outcomeAt r e = some .healthy ∧
      HasRun Outcome.passing (outcomesOf r (pre ++ m1) ++ [.healthy]) cfg.sth := by
  obtain ⟨_, h1⟩ := status_line (every_probe_reports_the_log_before_it cfg ops pre _ _ h)
  have h' : (run cfg ops).log = (pre ++ .status r (some st1) :: mid) ++ .status r (some .healthy) :: post := by
    rw [h]; simp
  obtain ⟨_, h2⟩ := status_line (every_probe_reports_the_log_before_it cfg ops _ _ _ h')
  rw [coreAt_skip cfg r pre mid _ rfl] at h2
  obtain ⟨m1, e, m2, o, hm, ho, hb, ha⟩ := flip_in_mid cfg r .healthy pre mid (by rw [← h1]; exact hne) h2.symm
  obtain ⟨hf, hr⟩ := healthy_only_after_run cfg.sth cfg.fth _ o hb ha
  subst hf
  exact ⟨m1, e, m2, hm, ho, hr⟩

/-- Unknown results change nothing, over the log: two status lines of `r` with only unknown check results of `r`
(or none) between them report the same status. -/
theorem unknown_changes_nothing_log (cfg : Cfg) (ops : List Op) (pre mid post : List HEv) (r : Nat) (st1 st2 : St)
    (h : (run cfg ops).log = pre ++ .status r (some st1) :: (mid ++ .status r (some st2) :: post))
    (hunk : ∀ o ∈ outcomesOf r mid, o = .unknown) : st1 = st2 := by
  obtain ⟨_, h1⟩ := status_line (every_probe_reports_the_log_before_it cfg ops pre _ _ h)
  have h' : (run cfg ops).log = (pre ++ .status r (some st1) :: mid) ++ .status r (some st2) :: post := by
    rw [h]; simp
  obtain ⟨_, h2⟩ := status_line (every_probe_reports_the_log_before_it cfg ops _ _ _ h')
  rw [coreAt_skip cfg r pre mid _ rfl, coreAt, outcomesOf_append, runRes_append_unknowns _ _ _ _ hunk] at h2
  rw [h1, h2]; rfl

/-- `get_healthy` / `get_usable` over the log, every strategy (custom, random draws included): a returned resource
is published healthy (resp. healthy or degraded) by the check lines before the selection. -/
theorem got_sound_log (cfg : Cfg) (ops : List Op) (pre post : List HEv) (b : Bool) (i : Nat)
    (h : (run cfg ops).log = pre ++ .got b (some i) :: post) :
    ∃ st, (stAt cfg pre)[i]? = some st ∧ (if b then st = .healthy else st = .healthy ∨ st = .degraded) := by
  obtain ⟨strat, _, hres⟩ : ∃ st, Runs cfg.strat st ∧ some i = _ := every_probe_reports_the_log_before_it cfg ops pre post _ h
  obtain ⟨st, h1, h2⟩ := getWith_sound (filt b) strat _ _ i hres.symm
  refine ⟨st, h1, ?_⟩
  cases b
  · exact (usable_iff st).1 h2
  · exact (isHealthy_iff st).1 h2

/-- … and with a built-in strategy (`Random` included) a selection line says "nothing" only when the check lines
before it leave no resource eligible. -/
theorem got_none_log (cfg : Cfg) (hb : cfg.strat.builtin = true) (ops : List Op) (pre post : List HEv) (b : Bool)
    (h : (run cfg ops).log = pre ++ .got b none :: post) : ∀ st ∈ stAt cfg pre, filt b st = false := by
  obtain ⟨strat, hr, hres⟩ : ∃ st, Runs cfg.strat st ∧ none = _ := every_probe_reports_the_log_before_it cfg ops pre post _ h
  exact (getWith_none_iff (filt b) (filt_ok b) strat (runs_builtin hr hb) _ _).1 hres.symm

/-- the hypotheses are met: interval 10, timeout 5, thresholds 1/2, a checker that never answers — two timed-out
check lines, then `status 0` says unhealthy; and healthy, failed, failed, healthy with status lines in between -/
example :
    let cfg : Cfg := { n := 1, sth := 1, fth := 2, interval := 10, timeout := 5, delay := 0, strat := .first, dflt := ⟨.s, 0⟩ }
    let ops := [Op.adv 10 [], .adv 5 [], .adv 5 [], .adv 5 []]
    (run cfg (ops ++ [.status 0])).log = (run cfg ops).log ++ [.status 0 (some .unhealthy)] ∧
    outcomesOf 0 (run cfg ops).log = [.timedOut, .timedOut] := by
  decide

example :
    let cfg : Cfg := { n := 1, sth := 1, fth := 2, interval := 10, timeout := 5, delay := 0, strat := .first, dflt := ⟨.h, 0⟩ }
    let ops := [Op.script 0 [⟨.h, 0⟩, ⟨.u, 0⟩, ⟨.u, 0⟩], .adv 0 [], .status 0, .adv 10 [], .adv 10 [], .status 0, .adv 10 [], .status 0]
    (run cfg ops).log =
      [.checkStart 0 ⟨.h, 0⟩ 0, .checkDone 0 .h 0, .cbChange 0 .unknown .healthy, .status 0 (some .healthy),
       .checkStart 0 ⟨.u, 0⟩ 1, .checkDone 0 .u 1, .checkStart 0 ⟨.u, 0⟩ 2, .checkDone 0 .u 2, .cbChange 0 .healthy .unhealthy,
       .status 0 (some .unhealthy),
       .checkStart 0 ⟨.h, 0⟩ 3, .checkDone 0 .h 3, .cbChange 0 .unhealthy .healthy, .status 0 (some .healthy)] := by
  decide

/-! ## the fuel of `quiesce` -/

/-- The fuel never runs out: after every operation of every run — every configuration (any interval, 0 included,
any timeout, delay, number of resources), any advance of the clock — the periodic task has run until nothing more can
happen at that instant (`settled`): it is gone, asleep until a later instant, or awaiting a check in flight. At most 13
transitions are needed (tokio's 5 ms lateness tolerance bounds the rounds that fall on one instant by six). -/
theorem quiesce_fuel_suffices (cfg : Cfg) (ops : List Op) (op : Op) : settled (run cfg (ops ++ [op])) = true := by
  unfold run
  rw [List.foldl_append]
  exact stepS_settled cfg _ op (phaseOK_reachable cfg ops)

/-- … so the number 40 is not part of the model's meaning: every fuel ≥ 13 gives the same run. -/
theorem fuel_is_irrelevant (f : Nat) (hf : 13 ≤ f) (cfg : Cfg) (ops : List Op) : runWith f cfg ops = run cfg ops :=
  runWith_eq f hf cfg ops

/-- six rounds at one instant (period 1 ms, the clock jumps 5 ms: deadlines 1, 2, 3, 4, 5 are all due, none is more than
5 ms late), then the task waits for deadline 6: ten transitions; with fuel 8 the run would have been cut short -/
example :
    let cfg : Cfg := { n := 1, sth := 1, fth := 2, interval := 1, timeout := 5, delay := 0, strat := .first, dflt := ⟨.h, 0⟩ }
    (run cfg [.adv 0 [], .adv 5 []]).nchk = 6 ∧ (run cfg [.adv 0 [], .adv 5 []]).phase = .waiting 6 ∧
    settled (run cfg [.adv 0 [], .adv 5 []]) = true ∧
    (runWith 8 cfg [.adv 0 [], .adv 5 []]).nchk = 5 ∧ settled (runWith 8 cfg [.adv 0 [], .adv 5 []]) = false := by
  decide

/-! ## round-robin over any number of picks, across status changes; the shared cursor -/

/-- **`k` rounds.** With the eligible set fixed (`n` members), any window of `k · n` consecutive round-robin
selections — from any value of the shared counter — returns every eligible resource exactly `k` times and nothing
else. (`round_robin_even` is `k = 1`.) -/
theorem round_robin_rounds (p : St → Bool) (hp : p = St.isHealthy ∨ p = St.usable) (sts : List St) (ctr k a : Nat) :
    (picks p .rr sts (k * (eligible p sts).length) ctr).count (some a) = if a ∈ eligible p sts then k else 0 := by
  by_cases hne : eligible p sts = []
  · simp [hne, picks]
  · rw [picks_rr_window p (filter_usable p hp) sts hne]
    exact count_window_rounds (eligible_nodup p sts) ctr k a

/-- **Any number of picks is balanced.** Over any `m` consecutive selections every eligible resource is returned
`⌊m/n⌋` or `⌊m/n⌋ + 1` times: no two eligible resources differ by more than one. -/
theorem round_robin_balanced (p : St → Bool) (hp : p = St.isHealthy ∨ p = St.usable) (sts : List St) (ctr m a : Nat)
    (ha : a ∈ eligible p sts) :
    m / (eligible p sts).length ≤ (picks p .rr sts m ctr).count (some a) ∧
    (picks p .rr sts m ctr).count (some a) ≤ m / (eligible p sts).length + 1 := by
  rw [picks_rr_window p (filter_usable p hp) sts (List.ne_nil_of_mem ha)]
  exact count_window_balanced (eligible_nodup p sts) ctr m a ha

/-- **The pick of every call, statuses changing as they may.** Consecutive selections — each with its own filter
(`get_healthy` or `get_usable`) over the statuses published at its own moment — all read the one shared counter: a
call returns entry `counter mod n` of what is eligible *for it, then*, and the counter moves exactly when something
was returned. This is everything there is to say about round-robin: the statements below are corollaries. -/
theorem round_robin_pick_formula (c : Call) (hc : c.ok) (tl : List Call) (ctr : Nat) :
    picksVar .rr (c :: tl) ctr =
      (eligible c.1 c.2)[ctr % (eligible c.1 c.2).length]? ::
        picksVar .rr tl (if eligible c.1 c.2 = [] then ctr else ctr + 1) :=
  picksVar_rr_cons c hc tl ctr

/-- **Fairness across status changes.** Whatever happened before — any calls, over any statuses, any changes of the
eligible set, any value of the counter — as soon as the eligible list is `l` (`n` members) for a stretch of `k · n`
calls (same list for each call of the stretch, whichever filter and statuses produce it), that stretch returns every
member of `l` exactly `k` times: the rotation is never restarted, and no member is skipped or repeated, by a change
before the stretch. The seeded change C18-w5m2 contradicts this (`clamped_cursor_is_not_round_robin`). -/
theorem round_robin_fair_across_changes (l : List Nat) (hne : l ≠ []) (before stretch : List Call)
    (hs : ∀ c ∈ stretch, c.ok ∧ eligible c.1 c.2 = l) (k : Nat) (hk : stretch.length = k * l.length) (ctr a : Nat) :
    ∃ W, picksVar .rr (before ++ stretch) ctr = picksVar .rr before ctr ++ W ∧
      W.count (some a) = if a ∈ l then k else 0 := by
  refine ⟨picksVar .rr stretch (ctrAfter .rr before ctr), picksVar_append .rr before stretch ctr, ?_⟩
  rw [picksVar_rr_same l hne stretch hs, hk]
  cases stretch with
  | nil =>
    have : k = 0 := by
      have hpos : 0 < l.length := List.length_pos_iff.2 hne
      cases k with
      | zero => rfl
      | succ k => simp [Nat.succ_mul] at hk; omega
    subst this; simp [window]
  | cons c tl =>
    have hnd : l.Nodup := by rw [← (hs c (by simp)).2]; exact eligible_nodup c.1 c.2
    exact count_window_rounds hnd _ k a

/-- the hypotheses are met: resources 1, 2 healthy throughout while resource 0 goes healthy → unhealthy → degraded;
`get_healthy` over the last two status vectors has the eligible list `[1, 2]` -/
example :
    let before : List Call := [(St.isHealthy, [.healthy, .healthy, .healthy]), (St.isHealthy, [.healthy, .healthy, .healthy])]
    let stretch : List Call := [(St.isHealthy, [.unhealthy, .healthy, .healthy]), (St.isHealthy, [.degraded, .healthy, .healthy])]
    (∀ c ∈ stretch, eligible c.1 c.2 = [1, 2]) ∧
    picksVar .rr (before ++ stretch) 0 = [some 0, some 1, some 1, some 2] := by
  decide

/-- **One cursor for both methods** (DESIGN: observed behaviour). `get_healthy` and `get_usable` advance the same
counter. When their eligible sets coincide (no resource is degraded), calls of the two methods interleaved in *any*
order read one rotation: jointly they are even (each method on its own is then in general not — see
`shared_cursor_starves` for the case of different eligible sets). -/
theorem shared_cursor_one_rotation (sts : List St) (hnd : ∀ s ∈ sts, s ≠ .degraded) (hne : eligible St.isHealthy sts ≠ [])
    (methods : List Bool) (ctr : Nat) :
    picksVar .rr (methods.map fun b => (filt b, sts)) ctr = window (eligible St.isHealthy sts) ctr methods.length := by
  have := picksVar_rr_same (eligible St.isHealthy sts) hne (methods.map fun b => (filt b, sts)) ?_ ctr
  · simpa using this
  · intro c hc
    obtain ⟨b, _, rfl⟩ := List.mem_map.1 hc
    refine ⟨filt_ok b, ?_⟩
    cases b
    · show eligible St.usable sts = eligible St.isHealthy sts
      unfold eligible
      rw [availFrom_congr 0 sts (p := St.usable) (q := St.isHealthy)]
      intro s hs
      have := hnd s hs
      cases s <;> simp_all [St.usable, St.isHealthy]
    · rfl

/-- **The shared cursor over the log.** In every reachable state under round-robin the counter is the number of
selection lines of the log — `get_healthy` and `get_usable` alike — that returned a resource; under every other
strategy it is never touched. -/
theorem shared_cursor_counts_both_methods (cfg : Cfg) (ops : List Op) :
    (run cfg ops).ctr = ctrAt cfg.strat (run cfg ops).log ∧
    (cfg.strat = .rr → (run cfg ops).ctr = gotCount (run cfg ops).log) := by
  refine ⟨(tr_reachable cfg ops).ctr, fun h => ?_⟩
  rw [(tr_reachable cfg ops).ctr, h]; rfl

/-- **Every round-robin selection line of the log.** It returns entry `c mod n` of the resources eligible by the
check lines before it, `c` = the number of earlier selection lines (of either method) that returned a resource —
across restarts, stops and every status change. -/
theorem rr_selection_line_is_the_rotation (cfg : Cfg) (hrr : cfg.strat = .rr) (ops : List Op) (pre post : List HEv)
    (b : Bool) (res : Option Nat) (h : (run cfg ops).log = pre ++ .got b res :: post) :
    res = (eligible (filt b) (stAt cfg pre))[gotCount pre % (eligible (filt b) (stAt cfg pre)).length]? := by
  obtain ⟨strat, hr, hres⟩ : ∃ st, Runs cfg.strat st ∧ res = _ := every_probe_reports_the_log_before_it cfg ops pre post _ h
  rw [hrr] at hr hres
  have : strat = .rr := hr
  subst this
  rw [hres, getWith_rr_eligible (filt b) (filt_ok b)]
  rfl

/-- **The seeded change C18-w5m2** (the stored cursor kept inside `0..len`, the value read back *clamped* instead of
reduced) is not round-robin. Three healthy resources, two selections, resource 0 fails, two more selections over the
now fixed eligible set `{1, 2}`: the unchanged code returns `1, 2` (as `round_robin_fair_across_changes` says it
must: each once); the changed code returns `2, 2`. -/
theorem clamped_cursor_is_not_round_robin :
    let h3 : List St := [.healthy, .healthy, .healthy]
    let u2 : List St := [.unhealthy, .healthy, .healthy]
    picksVar .rr [(St.isHealthy, h3), (St.isHealthy, h3), (St.isHealthy, u2), (St.isHealthy, u2)] 0
      = [some 0, some 1, some 1, some 2] ∧
    picksClamped [eligible St.isHealthy h3, eligible St.isHealthy h3, eligible St.isHealthy u2, eligible St.isHealthy u2] 0
      = [some 0, some 1, some 2, some 2] ∧
    ([some 2, some 2] : List (Option Nat)).count (some 1) ≠ 1 := by
  decide

/-! ## `SelectionStrategy::Random` (cargo feature `random`)

The draw is the environment's. `Strat.random d` is the selection with draw `d` (any natural number, reduced into
`0..n`); the run-level model takes the *observed result* of each selection, recovers the draw that explains it
(`stratFor`) and answers `choice-not-allowed` when there is none. All theorems above that quantify over `strat`
(`get_healthy_sound`, `get_usable_sound`, `none_when_none_any_strategy`, `none_iff_none`, `got_sound_log`,
`got_none_log`) cover every draw. -/

/-- Every draw lands in the eligible set, and leaves the round-robin counter alone. -/
theorem random_pick_is_eligible (p : St → Bool) (hp : p = St.isHealthy ∨ p = St.usable) (sts : List St) (ctr d : Nat)
    (hne : eligible p sts ≠ []) : ∃ a ∈ eligible p sts, getWith p (.random d) sts ctr = (some a, ctr) := by
  rw [getWith_random p (filter_usable p hp)]
  have hlt := Nat.mod_lt d (List.length_pos_iff.2 hne)
  exact ⟨_, List.getElem_mem hlt, by rw [List.getElem?_eq_getElem hlt]⟩

/-- The model does not over-constrain: every eligible resource is the result of some draw. -/
theorem random_every_eligible_possible (p : St → Bool) (hp : p = St.isHealthy ∨ p = St.usable) (sts : List St) (ctr a : Nat)
    (ha : a ∈ eligible p sts) : ∃ d, getWith p (.random d) sts ctr = (some a, ctr) := by
  obtain ⟨d, hd⟩ := posOf_of_mem ha
  have hget := posOf_some hd
  have hlt : d < (eligible p sts).length := by
    cases hq : decide (d < (eligible p sts).length) with
    | true => simpa using hq
    | false => rw [List.getElem?_eq_none (by simpa using hq)] at hget; cases hget
  exact ⟨d, by rw [getWith_random p (filter_usable p hp), Nat.mod_eq_of_lt hlt, hget]⟩

/-- **The observed choice is constrained to the eligible set, and to nothing else.** Under `Random`, with resources
eligible: an observed result that is an eligible resource is accepted and is what the model then returns; an observed
result that is not eligible — or "nothing" — is explained by no draw (`choice-not-allowed`). -/
theorem random_observed_choice (d0 : Nat) (b : Bool) (sts : List St) (ctr : Nat) (hne : eligible (filt b) sts ≠ []) :
    (∀ i ∈ eligible (filt b) sts, ∃ st, stratFor (.random d0) (filt b) sts (some i) = some st ∧
        getWith (filt b) st sts ctr = (some i, ctr)) ∧
    (∀ i, i ∉ eligible (filt b) sts → stratFor (.random d0) (filt b) sts (some i) = none) ∧
    stratFor (.random d0) (filt b) sts none = none := by
  have he : ((availFrom (filt b) 0 sts).map (·.1)).isEmpty = false := by
    cases hq : (availFrom (filt b) 0 sts).map (·.1) with
    | nil => exact absurd hq hne
    | cons _ _ => rfl
  refine ⟨?_, ?_, ?_⟩
  · intro i hi
    obtain ⟨d, hd⟩ := posOf_of_mem hi
    have hget := posOf_some hd
    have hlt : d < (eligible (filt b) sts).length := by
      cases hq : decide (d < (eligible (filt b) sts).length) with
      | true => simpa using hq
      | false => rw [List.getElem?_eq_none (by simpa using hq)] at hget; cases hget
    refine ⟨.random d, ?_, by rw [getWith_random _ (filt_ok b), Nat.mod_eq_of_lt hlt, hget]⟩
    simp only [stratFor, he]
    have hd' : posOf i ((availFrom (filt b) 0 sts).map (·.1)) = some d := hd
    simp [hd']
  · intro i hi
    simp only [stratFor, he]
    have : posOf i ((availFrom (filt b) 0 sts).map (·.1)) = none := (posOf_none_iff i _).2 hi
    simp [this]
  · simp only [stratFor, he]; rfl

/-- `Random` in a run: a choice from the eligible set is accepted and logged, any other is refused -/
example :
    let cfg : Cfg := { n := 3, sth := 1, fth := 1, interval := 10, timeout := 5, delay := 0, strat := .random 0, dflt := ⟨.h, 0⟩ }
    let ops := [Op.script 1 [⟨.u, 0⟩], .adv 0 []]
    (run cfg ops).slots.map (·.core.status) = [.healthy, .unhealthy, .healthy] ∧
    (run cfg (ops ++ [.getHealthy (some 2)])).log.getLast? = some (.got true (some 2)) ∧
    (run cfg (ops ++ [.getHealthy (some 0)])).log.getLast? = some (.got true (some 0)) ∧
    (run cfg (ops ++ [.getHealthy (some 1)])).log.getLast? = some .notAllowed ∧
    (run cfg (ops ++ [.getHealthy none])).log.getLast? = some .notAllowed := by
  decide

/-! ## several wrappers: a wrapper is a wrapper

The seeded change C18-w6m1 moves the round-robin cursor into `HealthCheckConfig`, whose derived `Clone` shares it:
wrappers built with `with_config(cfg.clone())` from one config value then advance ONE cursor. The model of a case with
`wrappers=<k>` is the family of `k` single-wrapper models (`stepFam`, `runFam`): each has a cursor of its own. -/

theorem foldl_keeps {α β γ : Type} (g : β → γ) (f : β → α → β) (h : ∀ b a, g (f b a) = g b) (l : List α) (b : β) :
    g (l.foldl f b) = g b := by
  induction l generalizing b with
  | nil => rfl
  | cons a tl ih => rw [List.foldl_cons, ih, h]

theorem finish_ctr (cfg : Cfg) (s : State) (p : Pending) (o : Outcome) : (finish cfg s p o).ctr = s.ctr := rfl

theorem finishOne_ctr (cfg : Cfg) (now : Nat) (s : State) (p : Pending) : (finishOne cfg now s p).ctr = s.ctr := by
  unfold finishOne; split <;> rfl

theorem finishDue_ctr (cfg : Cfg) (order : List Nat) (s : State) : (finishDue cfg order s).ctr = s.ctr := by
  unfold finishDue
  rw [foldl_keeps State.ctr _ (fun b a => finishOne_ctr cfg s.now b a)]

theorem startOne_ctr (cfg : Cfg) (s : State) (r : Nat) : (startOne cfg s r).ctr = s.ctr := by
  unfold startOne
  split
  · rfl
  · dsimp only; split <;> rfl

theorem startRound_ctr (cfg : Cfg) (s : State) : (startRound cfg s).ctr = s.ctr := by
  unfold startRound
  rw [foldl_keeps State.ctr _ (fun b a => startOne_ctr cfg b a)]

theorem quiesce_ctr (cfg : Cfg) (fuel : Nat) (s : State) : (quiesce cfg fuel s).ctr = s.ctr := by
  induction fuel generalizing s with
  | zero => rfl
  | succ n ih =>
    unfold quiesce
    split
    · rfl
    · rfl
    · rw [ih]
    · split
      · split
        · rfl
        · rw [ih]
      · rfl
    · split
      · rw [ih, startRound_ctr]
      · rfl
    · split
      · rfl
      · rw [ih]

/-- The round-robin cursor of a wrapper is moved by its own selections only: time passing, checks completing, rounds
starting, `start()` / `stop()` and every other operation leave it where it is. -/
theorem cursor_moves_only_by_own_selection (cfg : Cfg) (s : State) (op : Op)
    (h : ∀ pick, op ≠ .getHealthy pick ∧ op ≠ .getUsable pick) : (stepS cfg s op).ctr = s.ctr := by
  unfold stepS
  rw [quiesce_ctr, finishDue_ctr]
  cases op with
  | getHealthy pick => exact absurd rfl (h pick).1
  | getUsable pick => exact absurd rfl (h pick).2
  | script r items => simp only [doOp]; split <;> rfl
  | _ => rfl

theorem stepFam_get (cfg : Cfg) (f : Nat → Op) (i : Nat) (ss : List State) (j : Nat) :
    (stepFam cfg f i ss)[j]? = (ss[j]?).map (fun s => stepS cfg s (f (i + j))) := by
  induction ss generalizing i j with
  | nil => simp [stepFam]
  | cons s tl ih =>
    cases j with
    | zero => simp [stepFam]
    | succ j => simp [stepFam, ih, Nat.add_assoc, Nat.add_comm 1 j]

/-- **Independence.** One step of a family of wrappers: the new state of wrapper `j` is the single-wrapper step of its
own old state under its own operation — nothing of any other wrapper (state, operation, observed result) enters. -/
theorem wrappers_independent (cfg : Cfg) (f : Nat → Op) (ss : List State) (j : Nat) :
    (stepFam cfg f 0 ss)[j]? = (ss[j]?).map (fun s => stepS cfg s (f j)) := by
  simpa using stepFam_get cfg f 0 ss j

/-- … so two steps that are the same for wrapper `j` leave it in the same state, whatever they are for the others. -/
theorem other_wrappers_do_not_matter (cfg : Cfg) (f g : Nat → Op) (ss : List State) (j : Nat) (h : f j = g j) :
    (stepFam cfg f 0 ss)[j]? = (stepFam cfg g 0 ss)[j]? := by
  rw [wrappers_independent, wrappers_independent, h]

/-- **A selection on one wrapper does not move another wrapper's cursor.** Whatever the step is for the other wrappers
— `get_healthy` / `get_usable` with any result — a wrapper for which it is not a selection keeps its cursor. (Under the
seeded change C18-w6m1 the wrappers built from clones of one config value have ONE cursor.) -/
theorem selection_elsewhere_keeps_cursor (cfg : Cfg) (f : Nat → Op) (ss : List State) (j : Nat) (s s' : State)
    (hs : ss[j]? = some s) (hs' : (stepFam cfg f 0 ss)[j]? = some s')
    (h : ∀ pick, f j ≠ .getHealthy pick ∧ f j ≠ .getUsable pick) : s'.ctr = s.ctr := by
  rw [wrappers_independent, hs] at hs'
  cases hs'
  exact cursor_moves_only_by_own_selection cfg s (f j) h

/-- An operation line that is for wrapper `i` is `idle` for every other wrapper `j`: time for its own tasks, nothing else —
neither the line's words (which selection, which resource) nor its observed result reach wrapper `j`. -/
theorem line_for_another_wrapper_is_idle (k i j : Nat) (what : String) (rest : List String) (hw : what = "manual" ∨ what = "probe")
    (hi : targetOf (what :: rest) = i) (hk : i < k) (hij : j ≠ i) : opFor k j (what :: rest) = .idle := by
  have hadv : what ≠ "adv" := by rcases hw with rfl | rfl <;> decide
  have : opFor k j (what :: rest) =
      if targetOf (what :: rest) < k then (if j = targetOf (what :: rest) then parseOp (what :: rest) else .idle)
      else if j = 0 then .bad else .idle := by
    unfold opFor
    split
    · rename_i heq; injection heq with h1 _; exact absurd h1 hadv
    · rfl
  rw [this, hi]
  simp [hk, hij]

theorem foldFam_get (cfg : Cfg) (fs : List (Nat → Op)) (ss : List State) (j : Nat) (s : State) (hs : ss[j]? = some s) :
    (fs.foldl (fun ss f => stepFam cfg f 0 ss) ss)[j]? = some ((fs.map (· j)).foldl (stepS cfg) s) := by
  induction fs generalizing ss s with
  | nil => simpa using hs
  | cons f tl ih =>
    simp only [List.foldl_cons, List.map_cons]
    exact ih _ _ (by rw [wrappers_independent, hs]; rfl)

/-- **Every wrapper of a family is a single wrapper.** After any sequence of steps, the state of wrapper `j` is the
single-wrapper run over its own operations (`fs.map (· j)`: the foreign ones are `idle` for it). Every theorem of this
file about `run cfg ops` therefore holds for each wrapper of a case over the wrapper's own lines. -/
theorem wrapper_is_single_run (cfg : Cfg) (k : Nat) (fs : List (Nat → Op)) (j : Nat) (hj : j < k) :
    (runFam cfg k fs)[j]? = some (run cfg (fs.map (· j))) := by
  unfold runFam run
  exact foldFam_get cfg fs _ j _ (by simp [hj])

/-- `reachable_is_fold`, per wrapper: statuses and counters of a wrapper are the fold of its own completed checks. -/
theorem per_wrapper_reachable_is_fold (cfg : Cfg) (k : Nat) (fs : List (Nat → Op)) (j : Nat) (s : State)
    (hs : (runFam cfg k fs)[j]? = some s) :
    s.slots.length = cfg.n ∧ ∀ sl ∈ s.slots, sl.core = runRes cfg.sth cfg.fth sl.hist := by
  have hj : j < k := by
    have := (List.getElem?_eq_some_iff.1 hs).1
    have hl : (runFam cfg k fs).length = k := by
      unfold runFam
      have : ∀ (fs : List (Nat → Op)) (ss : List State), (fs.foldl (fun ss f => stepFam cfg f 0 ss) ss).length = ss.length := by
        intro fs
        induction fs with
        | nil => intro ss; rfl
        | cons f tl ih =>
          intro ss
          rw [List.foldl_cons, ih]
          have : ∀ (i : Nat) (ss : List State), (stepFam cfg f i ss).length = ss.length := by
            intro i ss
            induction ss generalizing i with
            | nil => rfl
            | cons a tl ih2 => simp [stepFam, ih2]
          exact this 0 ss
      rw [this]; simp
    omega
  rw [wrapper_is_single_run cfg k fs j hj] at hs
  cases hs
  exact reachable_is_fold cfg _

/-- **Round-robin per wrapper** (`rr_selection_line_is_the_rotation` transferred): every round-robin selection line of
wrapper `j`'s log returns entry `c mod n` of the resources eligible by wrapper `j`'s check lines before it, `c` = the
number of earlier selection lines **of wrapper `j`** that returned a resource — however many selections the other
wrappers of the case made in between, and whether or not they were built from the same `HealthCheckConfig` value. With
a fixed eligible set of size `n`, any `n` consecutive selections of one wrapper visit each eligible resource once
(`round_robin_even`, `round_robin_fair_across_changes`). -/
theorem round_robin_per_wrapper (cfg : Cfg) (hrr : cfg.strat = .rr) (k : Nat) (fs : List (Nat → Op)) (j : Nat) (hj : j < k)
    (s : State) (hs : (runFam cfg k fs)[j]? = some s) (pre post : List HEv) (b : Bool) (res : Option Nat)
    (h : s.log = pre ++ .got b res :: post) :
    res = (eligible (filt b) (stAt cfg pre))[gotCount pre % (eligible (filt b) (stAt cfg pre)).length]? := by
  rw [wrapper_is_single_run cfg k fs j hj] at hs
  cases hs
  exact rr_selection_line_is_the_rotation cfg hrr _ pre post b res h

/-- two wrappers of one configuration (round-robin, two resources each, all healthy), selections alternating between
them: each wrapper hands out `0, 1, 0` — not `0, 0, 0` (wrapper 0) and `1, 1, 1` (wrapper 1) as with one cursor for both -/
example :
    let cfg : Cfg := { n := 2, sth := 1, fth := 2, interval := 10, timeout := 5, delay := 0, strat := .rr, dflt := ⟨.h, 0⟩ }
    let on (i : Nat) (op : Op) : Nat → Op := fun j => if j = i then op else .idle
    let fs : List (Nat → Op) := [fun _ => .adv 0 [], on 0 (.getHealthy none), on 1 (.getHealthy none), on 0 (.getHealthy none),
                                 on 1 (.getUsable none), on 0 (.getHealthy none), on 1 (.getHealthy none)]
    (runFam cfg 2 fs).map (fun s => s.log.filter (fun e => match e with | .got _ _ => true | _ => false)) =
      [[.got true (some 0), .got true (some 1), .got true (some 0)],
       [.got true (some 0), .got false (some 1), .got true (some 0)]] ∧
    (runFam cfg 2 fs).map (·.ctr) = [3, 3] := by
  decide

end TR.Props.C18
