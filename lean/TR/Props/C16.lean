import TR.Lemmas.Reconnect
import TR.Lemmas.ReconnectHistory
import TR.Lemmas.ReconnectChain
/-!
# C16 — reconnect retries only connection failures, a bounded number of times

Quantification of every theorem: every configuration `cfg` (`maxAttempts` none / any number
including 0; any policy: none, fixed, exponential, randomised (`jitter`: any delay inside the
envelope), custom (any function); `retry_on_reconnect` on/off; any predicate `reconn`, the
constant `true` standing for "no predicate"), every operation list `ops` (any number of requests
sharing the layer, any poll / advance / cancel / probe order), every script of inner outcomes
(ok, reconnectable error, other error, panic, never; any latency).

`st` is the record of request `c` in the reached state; `st.calls` is the ghost list of its inner
calls, latest first (each was emitted as an `inner_call c k` event when it was made).
-/
namespace TR.Props.C16
open TR TR.Reconnect

/-- **At most `max_attempts + 1` inner calls per request.** -/
theorem calls_bounded (cfg : Cfg) (ops : List Op) (c : Nat) (st : Caller) (m : Nat)
    (h : lookup (run cfg ops).callers c = some st) (hm : cfg.maxAttempts = some m) :
    st.calls.length ≤ m + 1 :=
  (good_reachable cfg ops c st h).bound m hm

/-- The same in the property's own observables: the event log contains at most `max_attempts + 1`
`inner_call c _` events for any request `c` (the ghost list `calls` and the log agree). -/
theorem calls_bounded_trace (cfg : Cfg) (ops : List Op) (c : Nat) (m : Nat) (hm : cfg.maxAttempts = some m) :
    callsIn c (run cfg ops).sh.log ≤ m + 1 := by
  rw [logOK_reachable cfg ops c]
  cases h : lookup (run cfg ops).callers c with
  | none => simp
  | some st => exact calls_bounded cfg ops c st m h hm

/-- **Retries only after connection failures**: every inner call of a request other than its latest
one ended with an error that the predicate classifies as reconnectable. -/
theorem retries_only_reconnectable (cfg : Cfg) (ops : List Op) (c : Nat) (st : Caller)
    (h : lookup (run cfg ops).callers c = some st) :
    ∀ p ∈ st.calls.tail, ∃ kd, p.step.out = .err kd ∧ cfg.reconn kd = true := by
  have hg := good_reachable cfg ops c st h
  cases hc : st.calls with
  | nil => simp
  | cons x xs => exact chain_tail_errors (hc ▸ hg.chain)

/-- A second inner call is made only with `retry_on_reconnect = true` and a policy other than `none`:
**policy `none` and `retry_on_reconnect = false` return after one call.** -/
theorem single_call_without_retry (cfg : Cfg) (ops : List Op) (c : Nat) (st : Caller)
    (h : lookup (run cfg ops).callers c = some st)
    (hcfg : cfg.retry = false ∨ cfg.policy.has = false) : st.calls.length ≤ 1 := by
  have hg := good_reachable cfg ops c st h
  cases hc : st.calls with
  | nil => simp
  | cons x xs =>
    cases xs with
    | nil => simp
    | cons y ys =>
      have := chain_two_retry (hc ▸ hg.chain)
      rcases hcfg with h1 | h1 <;> simp [h1] at this

/-- **The policy's delay is waited before each retry.** For any two consecutive calls `p`, `r` of a
request (`p` being its `n`-th call, `n = |tl| + 1`): `r` was preceded by a sleep `sl` that was
created not before `p` finished (`p.t + p.lat ≤ sl.since`), whose length is a value the policy
allows for `delay_for_attempt n` (for fixed / exponential / custom policies: exactly that value),
and `r` was not made before the first millisecond tick at or after `sl.since + sl.delay`. -/
theorem delay_is_policy (cfg : Cfg) (ops : List Op) (c : Nat) (st : Caller)
    (h : lookup (run cfg ops).callers c = some st)
    (later : List CallRec) (r p : CallRec) (tl : List CallRec) (hc : st.calls = later ++ r :: p :: tl) :
    ∃ sl, r.pre = some sl ∧ sl.attempt = tl.length + 1 ∧
      cfg.policy.allowed (tl.length + 1) sl.delay = true ∧
      p.t + p.step.lat ≤ sl.since ∧ sl.since + ceilMs sl.delay ≤ r.t := by
  have hg := good_reachable cfg ops c st h
  have := chain_suffix later (hc ▸ hg.chain)
  exact this.1.slept

/-- what "allowed" means for the deterministic policies: the delay is exactly the policy's value -/
theorem allowed_fixed (n a d : Nat) : (Policy.fixed n).allowed a d = true ↔ d = n := by
  simp [Policy.allowed]
theorem allowed_exp (i cp a d : Nat) : (Policy.exp i cp).allowed a d = true ↔ d = min (i * 2 ^ a) cp :=
  allowed_exp' i cp a d
theorem allowed_custom (f : Nat → Nat) (a d : Nat) : (Policy.custom f).allowed a d = true ↔ d = f a := by
  simp [Policy.allowed]

/-- **The request returns the first success or an error wrapping the last inner error.** Once a
request has a result `r`, `r` is the function `expected` of its latest call `h` and the number of
calls: `ok h.k` if `h` succeeded; otherwise, for `h`'s error `(kd, h.k)`: `ServiceError` if the
predicate rejects `kd`, else `MaxAttemptsExceeded{attempts = #calls}` if `#calls > max_attempts`,
else `ConnectionFailed` if the policy is `none`, else `ConnectionFailedNoRetry` — and no earlier
call of the request succeeded. -/
theorem returns_first_success_or_wraps_last (cfg : Cfg) (ops : List Op) (c : Nat) (st : Caller) (r : RRes)
    (h : lookup (run cfg ops).callers c = some st) (hr : st.result = some r) :
    ∃ hd tl, st.calls = hd :: tl ∧ expected cfg hd st.calls.length = some r ∧
      ∀ p ∈ tl, ∃ kd, p.step.out = .err kd ∧ cfg.reconn kd = true := by
  have hg := good_reachable cfg ops c st h
  obtain ⟨_, hd, tl, hc, he⟩ := hg.final r hr
  exact ⟨hd, tl, hc, he, chain_tail_errors (hc ▸ hg.chain)⟩

/-- reading of `expected`: a success result carries the serial of the latest call, which succeeded;
an error result wraps exactly the error (kind, serial) of the latest call -/
theorem expected_reading (cfg : Cfg) (hd : CallRec) (n : Nat) (r : RRes) (h : expected cfg hd n = some r) :
    (∀ k, r = .ok k → hd.step.out = .ok ∧ hd.k = k) ∧
    (∀ kd k, wrapped r = some (kd, k) → hd.step.out = .err kd ∧ hd.k = k) :=
  expected_reading' cfg hd n r h

/-- **Connected after a success**: in the step in which a request returns `ok`, the published
state becomes `Connected` (for any state, reachable or not, and any observed choices). -/
theorem state_connected_after_success (cfg : Cfg) (s : State) (c : Nat) (obs : List Nat) (k : Nat)
    (h : REv.result c (.ok k) ∈ (stepS cfg s (.poll c obs)).sh.log.drop s.sh.log.length) :
    (stepS cfg s (.poll c obs)).sh.conn = .connected := by
  simp only [stepS] at h ⊢
  split at h
  · rename_i st hst
    have := @loop_ok cfg c s.sh.log.length (fuel st) st { s.sh with obs := obs } (Nat.le_refl _)
      (by rintro ⟨k', hk'⟩; simp at hk')
    exact (this ⟨k, h⟩).2
  · simp at h

/-! ### several requests sharing the connection state, in any interleaving

Requests made through clones of the service, through the same handle again, or through services of the same
layer share one `ReconnectState`; `ops` interleaves their `arrive` (= `call()`, which issues the first inner
call), `poll`, `drop` and time steps arbitrarily, and the event log `(run cfg ops).sh.log` records inner
completions and results in the order in which they happened. -/

/-- **The published state is a function of the history of completions**: in every reachable state it reads
`Connected` exactly when `linkUp` of the event log says so — the last event among {reconnectable inner error
handled, success returned (or the `retry_on_reconnect = false` back-off ended)} is of the second kind. What the
state read when a request was *issued*, and which request did what, does not enter. -/
theorem state_is_function_of_history (cfg : Cfg) (ops : List Op) :
    (run cfg ops).sh.conn = .connected ↔ linkUp cfg (run cfg ops).sh.log = true :=
  hist_reachable cfg ops

/-- **Connected after a success, whatever other requests did in between.** If request `c` returned `ok` and no
reconnectable inner error has been handled *since* (events `post`), the published state is `Connected` — no
matter how many other requests were issued before or after `c`, failed, gave up, were cancelled or are still
backing off, and no matter what the state read when `c` was issued. With `post = []` (or only probes): the
state is Connected immediately after any request completes successfully. -/
theorem connected_after_any_success (cfg : Cfg) (ops : List Op) (c k : Nat) (pre post : List REv)
    (hlog : (run cfg ops).sh.log = pre ++ REv.result c (.ok k) :: post)
    (hpost : ∀ c' k' kd, REv.done c' k' (.err kd) ∈ post → cfg.reconn kd = false) :
    (run cfg ops).sh.conn = .connected := by
  rw [state_is_function_of_history, hlog]
  apply linkUp_after_success cfg pre post _ rfl
  intro x hx
  cases x with
  | done c' k' o =>
    cases o with
    | err kd => exact hpost c' k' kd hx
    | _ => rfl
  | _ => rfl

/-- **Not connected after a reconnectable failure until the next success**: once a reconnectable inner error of
any request has been handled, the published state is not `Connected` until some request returns `ok` (or a
`retry_on_reconnect = false` back-off ends) — in particular not because some request was *issued* while the
state still read Connected. -/
theorem not_connected_after_failure_until_success (cfg : Cfg) (ops : List Op) (c k kd : Nat) (pre post : List REv)
    (hlog : (run cfg ops).sh.log = pre ++ REv.done c k (.err kd) :: post) (hkd : cfg.reconn kd = true)
    (hpost : ∀ x ∈ post, isSuccess x = false) :
    (run cfg ops).sh.conn ≠ .connected := by
  intro hc
  rw [state_is_function_of_history, hlog, linkUp_after_failure cfg pre post _ (by simpa [isFailure] using hkd) hpost] at hc
  simp at hc

/-- **Not connected while a reconnectable failure is being handled**: if request `c` is unfinished,
has had a reconnectable failure (`attempt > 0`), and was the last to write the published state,
that state is `Reconnecting`. (Another request of the same layer that succeeds in the meantime
overwrites the shared state; then `writer ≠ c`.) -/
theorem state_not_connected_while_handling (cfg : Cfg) (ops : List Op) (c : Nat) (st : Caller)
    (h : lookup (run cfg ops).callers c = some st)
    (hlive : st.phase ≠ .done) (hatt : 0 < st.attempt)
    (hw : (run cfg ops).sh.writer = some c) :
    (run cfg ops).sh.conn = .reconnecting :=
  pub_reachable cfg ops c st h ⟨hlive, hatt⟩ hw

/-- The same for **one request on its own** (the property's wording): while the only request of
the layer is unfinished after a reconnectable failure, the published state is `Reconnecting`. -/
theorem solo_not_connected_while_handling (cfg : Cfg) (ops : List Op) (c : Nat) (st : Caller)
    (hsolo : ∀ op ∈ ops, Solo c op)
    (h : lookup (run cfg ops).callers c = some st)
    (hlive : st.phase ≠ .done) (hatt : 0 < st.attempt) :
    (run cfg ops).sh.conn = .reconnecting :=
  state_not_connected_while_handling cfg ops c st h hlive hatt (solo_writer cfg ops c hsolo st h hatt)

/-- The loop inside one `poll` always runs until the future is pending or complete (the fuel of
the model's loop is never what stops it). -/
theorem poll_runs_to_pending_or_done (cfg : Cfg) (c : Nat) (st : Caller) (w : Shared) :
    trans cfg c (pollCaller cfg c st w).1 (pollCaller cfg c st w).2 = none :=
  pollCaller_complete cfg c st w

/-! ### errors with a `source()` chain: the error itself is classified, never its causes

The wrapped service's error may have a cause chain (`errK>J>…` in the op language: kind `K`, `source()` of kind `J`, …).
"Retries only after errors its predicate classifies as connection failures": the predicate is asked about the error
the service returned. The chain-level input language `COp` reaches the transitions only through `COp.head`. -/

/-- **Causes are irrelevant**: two histories whose errors have the same heads (the same kinds of the errors
themselves) — whatever their `source()` chains are, at any depth — give the same run: the same inner calls, retries,
sleeps, results, event log and published states. -/
theorem causes_are_irrelevant (cfg : Cfg) (ops ops' : List COp) (h : ops.map COp.head = ops'.map COp.head) :
    runC cfg ops = runC cfg ops' := by
  unfold runC; rw [h]

/-- in particular every error behaves exactly like the same error without any cause -/
theorem causes_can_be_stripped (cfg : Cfg) (ops : List COp) : runC cfg (ops.map stripOp) = runC cfg ops :=
  causes_are_irrelevant cfg _ _ (map_head_stripOp ops)

/-- **An error the predicate rejects ends the request at once, whatever its causes**: for any state, when the inner
call in flight ends with an error of kind `kd` that the predicate does not classify as a connection failure, the
request finishes with `ServiceError` wrapping it in that very transition — no state change, no back-off, no further
call — for every cause chain `causes`, including chains in which every cause is one the predicate accepts. -/
theorem rejected_error_finishes_whatever_its_causes (cfg : Cfg) (c : Nat) (st : Caller) (w : Shared) (k doneAt kd : Nat)
    (causes : List Nat) (hk : cfg.reconn kd = false) (ht : ¬ w.now < doneAt) :
    classify cfg kd causes = false ∧
    transCalling cfg c st w k doneAt (COut.err kd causes).head
      = some (finish c (.service kd k) st (emit [.done c k (.err kd)] w)) :=
  rejected_finishes cfg c st w k doneAt kd causes hk ht

/-- **Retries only after errors the predicate itself accepts, over error chains**: in any chain-level history, every
inner call of a request other than its latest one ended with an error whose OWN kind the predicate accepts (an
accepted cause under a rejected head never leads to a retry), and a request whose latest call ended with an error
whose own kind the predicate rejects has, if it has a result, the result `ServiceError` wrapping that error. -/
theorem retries_only_accepted_heads (cfg : Cfg) (ops : List COp) (c : Nat) (st : Caller)
    (h : lookup (runC cfg ops).callers c = some st) :
    (∀ p ∈ st.calls.tail, ∃ kd, p.step.out = .err kd ∧ cfg.reconn kd = true) ∧
    (∀ hd tl kd r, st.calls = hd :: tl → hd.step.out = .err kd → cfg.reconn kd = false → st.result = some r →
        r = .service kd hd.k) := by
  refine ⟨retries_only_reconnectable cfg _ c st h, ?_⟩
  intro hd tl kd r hc ho hk hr
  obtain ⟨hd', tl', hc', he, _⟩ := returns_first_success_or_wraps_last cfg _ c st r h hr
  rw [hc] at hc'
  cases hc'
  exact expected_rejected cfg _ _ kd r ho hk he

/-! ## non-vacuity -/

private def cfgA : Cfg :=
  { maxAttempts := some 2, policy := .fixed 10000000, retry := true, reconn := fun k => k == 1 }

/-- Two reconnectable failures, then a success: three calls (= max_attempts + 1, the bound is
attained), retries exactly 10 ms after each failure, result `ok` with the serial of the third
call, state Connected. -/
example :
    let s := run cfgA [.arrive 1 [⟨0, .err 1⟩, ⟨2, .err 1⟩, ⟨5, .ok⟩], .poll 1 [], .adv 10, .poll 1 [],
                       .adv 2, .poll 1 [], .adv 9, .poll 1 [], .adv 1, .poll 1 [], .adv 5, .poll 1 []]
    (lookup s.callers 1).map (fun st => (st.result, st.calls.map (fun r => (r.k, r.t)))) =
        some (some (.ok 2), [(2, 22), (1, 10), (0, 0)])
      ∧ s.sh.conn = .connected := by decide

/-- While handling (sleeping after the first failure) the state is Reconnecting and the request is live. -/
example :
    let s := run cfgA [.arrive 1 [⟨0, .err 1⟩, ⟨0, .ok⟩], .poll 1 [], .adv 9, .poll 1 []]
    (lookup s.callers 1).map (fun st => (st.phase, st.attempt)) = some (.sleeping 10, 1)
      ∧ s.sh.conn = .reconnecting ∧ s.sh.writer = some 1 := by decide

/-- Three failures with `max_attempts = 2`: `MaxAttemptsExceeded{attempts: 3}` wrapping the last error;
a non-reconnectable error: `ServiceError` after one call. -/
example :
    let s := run { cfgA with policy := .fixed 0 }
      [.arrive 1 [⟨0, .err 1⟩, ⟨0, .err 1⟩, ⟨0, .err 1⟩, ⟨0, .ok⟩], .poll 1 [],
       .arrive 2 [⟨0, .err 2⟩, ⟨0, .ok⟩], .poll 2 []]
    (lookup s.callers 1).map (·.result) = some (some (.maxAttempts 3 1 2))
      ∧ (lookup s.callers 2).map (fun st => (st.result, st.calls.length)) = some (some (.service 2 3), 1) := by
  decide

/-- Interleaved requests sharing the state (the history `issue A, issue B, B fails and gives up, A succeeds`):
request 1 warms the link up; request 2 (A) is issued while the state reads Connected and is in flight for 5 ms;
request 3 (B) hits a reconnectable failure and gives up (`max_attempts = 0`), the state reads Disconnected;
then A succeeds on its first attempt: the state reads Connected again. -/
example :
    let ops := [Op.arrive 1 [⟨0, .ok⟩], .poll 1 [], .arrive 2 [⟨5, .ok⟩], .poll 2 [],
                .arrive 3 [⟨0, .err 1⟩], .poll 3 []]
    let cfg := { cfgA with maxAttempts := some 0 }
    (run cfg ops).sh.conn = .disconnected
      ∧ (lookup (run cfg ops).callers 3).map (·.result) = some (some (.maxAttempts 1 1 2))
      ∧ (run cfg (ops ++ [.adv 5, .poll 2 []])).sh.conn = .connected
      ∧ (lookup (run cfg (ops ++ [.adv 5, .poll 2 []])).callers 2).map (fun st => (st.result, st.attempt))
          = some (some (.ok 1), 0) := by decide

/-- A randomised policy: an observed delay inside the envelope is accepted, one outside is refused. -/
example : (Policy.jitter 3000000 10000000 50).allowed 1 8833565 = true
    ∧ (Policy.jitter 3000000 10000000 50).allowed 1 9100000 = false := by decide

/-- Error chains, predicate = {kind 1}: `err2>1` (rejected head, accepted cause) is NOT retried: `ServiceError` after
one call, the state untouched; `err2>3>1` (accepted cause two levels down) likewise; `err1>2` (accepted head,
rejected cause) IS retried. -/
example :
    let s := runC { cfgA with policy := .fixed 0 }
      [.arrive 1 [⟨0, .err 2 [1]⟩, ⟨0, .ok⟩], .poll 1 [], .probe,
       .arrive 2 [⟨0, .err 2 [3, 1]⟩, ⟨0, .ok⟩], .poll 2 [],
       .arrive 3 [⟨0, .err 1 [2]⟩, ⟨0, .ok⟩], .poll 3 []]
    (lookup s.callers 1).map (fun st => (st.result, st.calls.length)) = some (some (.service 2 0), 1)
      ∧ REv.probe .disconnected ∈ s.sh.log
      ∧ (lookup s.callers 2).map (fun st => (st.result, st.calls.length)) = some (some (.service 2 1), 1)
      ∧ (lookup s.callers 3).map (fun st => (st.result, st.calls.length)) = some (some (.ok 3), 2) := by
  decide

end TR.Props.C16
