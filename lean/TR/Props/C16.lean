import TR.Lemmas.Reconnect
import TR.Lemmas.ReconnectHistory
import TR.Lemmas.ReconnectChain
import TR.Lemmas.ReconnectEntry
import TR.Lemmas.ReconnectLog
import TR.Lemmas.ReconnectTrace
/-!
# C16 — reconnect retries only connection failures, a bounded number of times

Quantification of every theorem: every configuration `cfg` (`maxAttempts` none / any number
including 0; any policy: none, fixed, exponential, randomised (`jitter`: any delay inside the
envelope), custom (any function); `retry_on_reconnect` on/off; any predicate `reconn`, the
constant `true` standing for "no predicate"), every operation list `ops` (any number of requests
sharing the layer, any poll / advance / cancel / probe order), every script of inner outcomes
(ok, reconnectable error, other error, panic, never; any latency), every readiness behaviour of the
wrapped service (`Op.inner`, at any time: a recovery time after each call during which `poll_ready` is
pending, and scripted `poll_ready` answers ready / error — for the callers' readiness polls and for the
call futures' own after a back-off, `Phase::Readying`).

`st` is the record of request `c` in the reached state; `st.calls` is the ghost list of its inner
calls, latest first (each was emitted as an `inner_call c k` event when it was made).
-/
namespace TR.Props.C16
open TR TR.Reconnect

/-- **At most `max_attempts + 1` inner calls per request.** -/
theorem calls_bounded (cfg : Cfg) (ops : List Op) (c : Nat) (st : Caller) (m : Nat)
    (h : lookup (run cfg ops).callers c = some st) (hm : cfg.maxAttempts = some m) :
    st.calls.length ≤ m + 1 :=
  (good_reachable cfg ops c st h).bound m hm

/-- The same in the property's own observables: the event log contains at most `max_attempts + 1`
`inner_call c _` events for any request `c` (the ghost list `calls` and the log agree). -/
theorem calls_bounded_trace (cfg : Cfg) (ops : List Op) (c : Nat) (m : Nat) (hm : cfg.maxAttempts = some m) :
    callsIn c (run cfg ops).sh.log ≤ m + 1 := by
  rw [logOK_reachable cfg ops c]
  cases h : lookup (run cfg ops).callers c with
  | none => simp
  | some st => exact calls_bounded cfg ops c st m h hm

/-- **Retries only after connection failures**: every inner call of a request other than its latest
one ended with an error that the predicate classifies as reconnectable. -/
theorem retries_only_reconnectable (cfg : Cfg) (ops : List Op) (c : Nat) (st : Caller)
    (h : lookup (run cfg ops).callers c = some st) :
    ∀ p ∈ st.calls.tail, ∃ kd, p.step.out = .err kd ∧ cfg.reconn kd = true := by
  have hg := good_reachable cfg ops c st h
  cases hc : st.calls with
  | nil => simp
  | cons x xs => exact chain_tail_errors (hc ▸ hg.chain)

/-- A second inner call is made only with `retry_on_reconnect = true` and a policy other than `none`:
**policy `none` and `retry_on_reconnect = false` return after one call.** -/
theorem single_call_without_retry (cfg : Cfg) (ops : List Op) (c : Nat) (st : Caller)
    (h : lookup (run cfg ops).callers c = some st)
    (hcfg : cfg.retry = false ∨ cfg.policy.has = false) : st.calls.length ≤ 1 := by
  have hg := good_reachable cfg ops c st h
  cases hc : st.calls with
  | nil => simp
  | cons x xs =>
    cases xs with
    | nil => simp
    | cons y ys =>
      have := chain_two_retry (hc ▸ hg.chain)
      rcases hcfg with h1 | h1 <;> simp [h1] at this

/-- **The policy's delay is waited before each retry.** For any two consecutive calls `p`, `r` of a
request (`p` being its `n`-th call, `n = |tl| + 1`): `r` was preceded by a sleep `sl` that was
created not before `p` finished (`p.t + p.lat ≤ sl.since`), whose length is a value the policy
allows for `delay_for_attempt n` (for fixed / exponential / custom policies: exactly that value),
and `r` was not made before the first millisecond tick at or after `sl.since + sl.delay`. -/
theorem delay_is_policy (cfg : Cfg) (ops : List Op) (c : Nat) (st : Caller)
    (h : lookup (run cfg ops).callers c = some st)
    (later : List CallRec) (r p : CallRec) (tl : List CallRec) (hc : st.calls = later ++ r :: p :: tl) :
    ∃ sl, r.pre = some sl ∧ sl.attempt = tl.length + 1 ∧
      cfg.policy.allowed (tl.length + 1) sl.delay = true ∧
      p.t + p.step.lat ≤ sl.since ∧ sl.since + ceilMs sl.delay ≤ r.t := by
  have hg := good_reachable cfg ops c st h
  have := chain_suffix later (hc ▸ hg.chain)
  exact this.1.slept

/-- what "allowed" means for the deterministic policies: the delay is exactly the policy's value -/
theorem allowed_fixed (n a d : Nat) : (Policy.fixed n).allowed a d = true ↔ d = n := by
  simp [Policy.allowed]
theorem allowed_exp (i cp a d : Nat) : (Policy.exp i cp).allowed a d = true ↔ d = min (i * 2 ^ a) cp :=
  allowed_exp' i cp a d
theorem allowed_custom (f : Nat → Nat) (a d : Nat) : (Policy.custom f).allowed a d = true ↔ d = f a := by
  simp [Policy.allowed]

/-- **The request returns the first success or an error wrapping the last inner error.** Once a
request has a result `r`, `r` is the function `expected` of its latest call `h` and the number of
calls: `ok h.k` if `h` succeeded; otherwise, for `h`'s error `(kd, h.k)`: `ServiceError` if the
predicate rejects `kd`, else `MaxAttemptsExceeded{attempts = #calls}` if `#calls > max_attempts`,
else `ConnectionFailed` if the policy is `none`, else `ConnectionFailedNoRetry` — and no earlier
call of the request succeeded.

Two more ways a request ends, both through the inner service's READINESS (`poll_ready`), as the code has them:
* `notReady`: the caller found the service not ready and made no call at all (no call future exists);
* `readyErr` (`Phase::Readying`, service.rs:210-220): the latest call ended with a reconnectable error, the request had
  attempts left, a policy and `retry_on_reconnect` (`expected … = none`: it went on), it backed off — and then the inner
  service answered the readiness poll with an error: the request returns `ServiceError` wrapping THAT readiness error;
  the error of the latest call is dropped. (The readiness error is the last error the inner service produced, so the
  property's "wrapping the last inner error" is met in that reading; it is not the error of the last CALL.) -/
theorem returns_first_success_or_wraps_last (cfg : Cfg) (ops : List Op) (c : Nat) (st : Caller) (r : RRes)
    (h : lookup (run cfg ops).callers c = some st) (hr : st.result = some r) :
    (r = .notReady ∧ st.calls = []) ∨
    ∃ hd tl, st.calls = hd :: tl ∧
      (expected cfg hd st.calls.length = some r ∨
        (r = .readyErr ∧ expected cfg hd st.calls.length = none ∧
          ∃ kd, hd.step.out = .err kd ∧ cfg.reconn kd = true)) ∧
      ∀ p ∈ tl, ∃ kd, p.step.out = .err kd ∧ cfg.reconn kd = true := by
  have hg := good_reachable cfg ops c st h
  rcases (hg.final r hr).2 with h0 | ⟨hd, tl, hc, he⟩
  · exact Or.inl h0
  · exact Or.inr ⟨hd, tl, hc, he, chain_tail_errors (hc ▸ hg.chain)⟩

/-- the same for a request that did not end through the inner service's readiness: the result is `expected` of the
latest call -/
theorem returns_first_success_or_wraps_last_call (cfg : Cfg) (ops : List Op) (c : Nat) (st : Caller) (r : RRes)
    (h : lookup (run cfg ops).callers c = some st) (hr : st.result = some r)
    (h1 : r ≠ .notReady) (h2 : r ≠ .readyErr) :
    ∃ hd tl, st.calls = hd :: tl ∧ expected cfg hd st.calls.length = some r ∧
      ∀ p ∈ tl, ∃ kd, p.step.out = .err kd ∧ cfg.reconn kd = true := by
  rcases returns_first_success_or_wraps_last cfg ops c st r h hr with h0 | ⟨hd, tl, hc, he, ht⟩
  · exact absurd h0.1 h1
  · rcases he with he | he
    · exact ⟨hd, tl, hc, he, ht⟩
    · exact absurd he.1 h2

/-- **A readiness error is returned only after a back-off, and leaves the published state alone**: in the step in which
request `c` returns `readyErr`, the published state does not change (it stays `Reconnecting` if `c` wrote it last:
`state_not_connected_while_handling` up to that step). -/
theorem readiness_error_leaves_state (cfg : Cfg) (c : Nat) (st : Caller) (w : Shared) (wake : Nat) (p : Caller × Shared)
    (ht : transReadying c st w wake = some p) (hr : p.1.result = some .readyErr) (hlive : st.result = none) :
    p.2.conn = w.conn ∧ p.2.writer = w.writer ∧ p.1.calls = st.calls ∧ p.1.phase = .done := by
  unfold transReadying at ht
  split at ht
  · simp at ht
  · split at ht
    · simp at ht
    · simp at ht; subst ht; simp [startCall, hlive] at hr
    · simp at ht; subst ht; exact ⟨rfl, rfl, rfl, rfl⟩

/-- reading of `expected`: a success result carries the serial of the latest call, which succeeded;
an error result wraps exactly the error (kind, serial) of the latest call -/
theorem expected_reading (cfg : Cfg) (hd : CallRec) (n : Nat) (r : RRes) (h : expected cfg hd n = some r) :
    (∀ k, r = .ok k → hd.step.out = .ok ∧ hd.k = k) ∧
    (∀ kd k, wrapped r = some (kd, k) → hd.step.out = .err kd ∧ hd.k = k) :=
  expected_reading' cfg hd n r h

/-- **Connected after a success**: in the step in which a request returns `ok`, the published
state becomes `Connected` (for any state, reachable or not, and any observed choices). -/
theorem state_connected_after_success (cfg : Cfg) (s : State) (c : Nat) (obs : List Nat) (k : Nat)
    (h : REv.result c (.ok k) ∈ (stepS cfg s (.poll c obs)).sh.log.drop s.sh.log.length) :
    (stepS cfg s (.poll c obs)).sh.conn = .connected := by
  simp only [stepS] at h ⊢
  split at h
  · rename_i st hst
    have := @loop_ok cfg c s.sh.log.length (fuel st) st { s.sh with obs := obs } (Nat.le_refl _)
      (by rintro ⟨k', hk'⟩; simp at hk')
    exact (this ⟨k, h⟩).2
  · simp at h

/-! ### several requests sharing the connection state, in any interleaving

Requests made through clones of the service, through the same handle again, or through services of the same
layer share one `ReconnectState`; `ops` interleaves their `arrive` (= `call()`, which issues the first inner
call), `poll`, `drop` and time steps arbitrarily, and the event log `(run cfg ops).sh.log` records inner
completions and results in the order in which they happened. -/

/-- **The published state is a function of the history of completions**: in every reachable state it reads
`Connected` exactly when `linkUp` of the event log says so — the last event among {reconnectable inner error
handled, success returned (or the `retry_on_reconnect = false` back-off ended)} is of the second kind. What the
state read when a request was *issued*, and which request did what, does not enter. -/
theorem state_is_function_of_history (cfg : Cfg) (ops : List Op) :
    (run cfg ops).sh.conn = .connected ↔ linkUp cfg (run cfg ops).sh.log = true :=
  hist_reachable cfg ops

/-- **Connected after a success, whatever other requests did in between.** If request `c` returned `ok` and no
reconnectable inner error has been handled *since* (events `post`), the published state is `Connected` — no
matter how many other requests were issued before or after `c`, failed, gave up, were cancelled or are still
backing off, and no matter what the state read when `c` was issued. With `post = []` (or only probes): the
state is Connected immediately after any request completes successfully. -/
theorem connected_after_any_success (cfg : Cfg) (ops : List Op) (c k : Nat) (pre post : List REv)
    (hlog : (run cfg ops).sh.log = pre ++ REv.result c (.ok k) :: post)
    (hpost : ∀ c' k' kd, REv.done c' k' (.err kd) ∈ post → cfg.reconn kd = false) :
    (run cfg ops).sh.conn = .connected := by
  rw [state_is_function_of_history, hlog]
  apply linkUp_after_success cfg pre post _ rfl
  intro x hx
  cases x with
  | done c' k' o =>
    cases o with
    | err kd => exact hpost c' k' kd hx
    | _ => rfl
  | _ => rfl

/-- **Not connected after a reconnectable failure until the next success**: once a reconnectable inner error of
any request has been handled, the published state is not `Connected` until some request returns `ok` (or a
`retry_on_reconnect = false` back-off ends) — in particular not because some request was *issued* while the
state still read Connected. -/
theorem not_connected_after_failure_until_success (cfg : Cfg) (ops : List Op) (c k kd : Nat) (pre post : List REv)
    (hlog : (run cfg ops).sh.log = pre ++ REv.done c k (.err kd) :: post) (hkd : cfg.reconn kd = true)
    (hpost : ∀ x ∈ post, isSuccess x = false) :
    (run cfg ops).sh.conn ≠ .connected := by
  intro hc
  rw [state_is_function_of_history, hlog, linkUp_after_failure cfg pre post _ (by simpa [isFailure] using hkd) hpost] at hc
  simp at hc

/-- **Not connected while a reconnectable failure is being handled**: if request `c` is unfinished,
has had a reconnectable failure (`attempt > 0`), and was the last to write the published state,
that state is `Reconnecting`. (Another request of the same layer that succeeds in the meantime
overwrites the shared state; then `writer ≠ c`.) -/
theorem state_not_connected_while_handling (cfg : Cfg) (ops : List Op) (c : Nat) (st : Caller)
    (h : lookup (run cfg ops).callers c = some st)
    (hlive : st.phase ≠ .done) (hatt : 0 < st.attempt)
    (hw : (run cfg ops).sh.writer = some c) :
    (run cfg ops).sh.conn = .reconnecting :=
  pub_reachable cfg ops c st h ⟨hlive, hatt⟩ hw

/-- The same for **one request on its own** (the property's wording): while the only request of
the layer is unfinished after a reconnectable failure, the published state is `Reconnecting`. -/
theorem solo_not_connected_while_handling (cfg : Cfg) (ops : List Op) (c : Nat) (st : Caller)
    (hsolo : ∀ op ∈ ops, Solo c op)
    (h : lookup (run cfg ops).callers c = some st)
    (hlive : st.phase ≠ .done) (hatt : 0 < st.attempt) :
    (run cfg ops).sh.conn = .reconnecting :=
  state_not_connected_while_handling cfg ops c st h hlive hatt (solo_writer cfg ops c hsolo st h hatt)

/-- The loop inside one `poll` always runs until the future is pending or complete (the fuel of
the model's loop is never what stops it). -/
theorem poll_runs_to_pending_or_done (cfg : Cfg) (c : Nat) (st : Caller) (w : Shared) :
    trans cfg c (pollCaller cfg c st w).1 (pollCaller cfg c st w).2 = none :=
  pollCaller_complete cfg c st w

/-! ### errors with a `source()` chain: the error itself is classified, never its causes

The wrapped service's error may have a cause chain (`errK>J>…` in the op language: kind `K`, `source()` of kind `J`, …).
"Retries only after errors its predicate classifies as connection failures": the predicate is asked about the error
the service returned. The chain-level input language `COp` reaches the transitions only through `COp.head`. -/

/-- **Causes are irrelevant**: two histories whose errors have the same heads (the same kinds of the errors
themselves) — whatever their `source()` chains are, at any depth — give the same run: the same inner calls, retries,
sleeps, results, event log and published states. -/
theorem causes_are_irrelevant (cfg : Cfg) (ops ops' : List COp) (h : ops.map COp.head = ops'.map COp.head) :
    runC cfg ops = runC cfg ops' := by
  unfold runC; rw [h]

/-- in particular every error behaves exactly like the same error without any cause -/
theorem causes_can_be_stripped (cfg : Cfg) (ops : List COp) : runC cfg (ops.map stripOp) = runC cfg ops :=
  causes_are_irrelevant cfg _ _ (map_head_stripOp ops)

/-- **An error the predicate rejects ends the request at once, whatever its causes**: for any state, when the inner
call in flight ends with an error of kind `kd` that the predicate does not classify as a connection failure, the
request finishes with `ServiceError` wrapping it in that very transition — no state change, no back-off, no further
call — for every cause chain `causes`, including chains in which every cause is one the predicate accepts. -/
theorem rejected_error_finishes_whatever_its_causes (cfg : Cfg) (c : Nat) (st : Caller) (w : Shared) (k doneAt kd : Nat)
    (causes : List Nat) (hk : cfg.reconn kd = false) (ht : ¬ w.now < doneAt) :
    classify cfg kd causes = false ∧
    transCalling cfg c st w k doneAt (COut.err kd causes).head
      = some (finish c (.service kd k) st (emit [.done c k (.err kd)] w)) :=
  rejected_finishes cfg c st w k doneAt kd causes hk ht

/-- **Retries only after errors the predicate itself accepts, over error chains**: in any chain-level history, every
inner call of a request other than its latest one ended with an error whose OWN kind the predicate accepts (an
accepted cause under a rejected head never leads to a retry), and a request whose latest call ended with an error
whose own kind the predicate rejects has, if it has a result, the result `ServiceError` wrapping that error. -/
theorem retries_only_accepted_heads (cfg : Cfg) (ops : List COp) (c : Nat) (st : Caller)
    (h : lookup (runC cfg ops).callers c = some st) :
    (∀ p ∈ st.calls.tail, ∃ kd, p.step.out = .err kd ∧ cfg.reconn kd = true) ∧
    (∀ hd tl kd r, st.calls = hd :: tl → hd.step.out = .err kd → cfg.reconn kd = false → st.result = some r →
        r = .service kd hd.k) := by
  refine ⟨retries_only_reconnectable cfg _ c st h, ?_⟩
  intro hd tl kd r hc ho hk hr
  rcases returns_first_success_or_wraps_last cfg _ c st r h hr with h0 | ⟨hd', tl', hc', he, _⟩
  · rw [hc] at h0; simp at h0
  · rw [hc] at hc'
    cases hc'
    rcases he with he | ⟨_, he, _⟩
    · exact expected_rejected cfg _ _ kd r ho hk (hc ▸ he)
    · simp [expected, ho, hk] at he

/-! ### construction paths, accessors, several layer values

How the layer was built does not enter the model beyond the configuration it ends up with: `ReconnectConfig::builder()`,
`ReconnectConfigBuilder::new()`, a clone of the configuration value, `ReconnectConfig::default()` /
`ReconnectLayer::with_defaults()` / `ReconnectLayer::default()` (all three: `defaultCfg`) give a `Cfg`, and every theorem
above holds for every `Cfg`. What follows is what the shortcuts and accessors add. -/

/-- **`connection_errors_only()`**: the predicate it installs accepts exactly the errors whose `Display` text,
lower-cased, contains "broken pipe", "connection reset", "connection aborted", "not connected" or "connection refused".
Of the scripted kinds these are 4 "Broken pipe (os error 32)", 5 "Connection reset by peer (os error 104)", 6 "connection
aborted", 7 "Transport endpoint is not connected (os error 107)", 8 "Connection refused (os error 111)", 11 "BROKEN PIPE",
14 "upstream said: Connection Refused" — and not 9 "connection timed out", 10 "disconnected", 12 "connection  reset", 13
"host unreachable", 15 "brokenpipe", nor a kind without text. -/
theorem connection_errors_only_accepts (kd : Nat) : connAccepts kd = true ↔ kd ∈ [4, 5, 6, 7, 8, 11, 14] :=
  connAccepts_iff kd

/-- **With `connection_errors_only()` a request is retried only after an error whose text names a connection failure**:
every inner call of a request other than its latest one ended with an error whose text (lower-cased) contains one of the
five phrases. -/
theorem retries_only_connection_errors (cfg : Cfg) (hp : cfg.reconn = connAccepts) (ops : List Op) (c : Nat) (st : Caller)
    (h : lookup (run cfg ops).callers c = some st) :
    ∀ p ∈ st.calls.tail, ∃ kd, p.step.out = .err kd ∧
      ∃ ph ∈ connPhrases, hasSub ph.toList ((kindText kd).toList.map lowerAscii) = true := by
  intro p hpm
  obtain ⟨kd, ho, hk⟩ := retries_only_reconnectable cfg ops c st h p hpm
  refine ⟨kd, ho, ?_⟩
  rw [hp] at hk
  simpa [connAccepts, connectionErrorsOnly, List.any_eq_true] using hk

/-- **The default configuration never gives up**: with `ReconnectConfig::default()` (exponential 100 ms .. 5 s, unlimited
attempts, retry, no predicate) a request that has a result has a success (or the inner service panicked, or failed a
readiness poll); the delay before retry `n` is `min (100 ms · 2^n) 5 s` (`delay_is_policy`, `allowed_exp`). -/
theorem default_config_never_gives_up (ops : List Op) (c : Nat) (st : Caller) (r : RRes)
    (h : lookup (run defaultCfg ops).callers c = some st) (hr : st.result = some r) :
    (∃ k, r = .ok k) ∨ r = .panic ∨ r = .readyErr ∨ r = .notReady := by
  rcases returns_first_success_or_wraps_last defaultCfg ops c st r h hr with h0 | ⟨hd, _, _, he, _⟩
  · exact Or.inr (Or.inr (Or.inr h0.1))
  · rcases he with he | he
    · rcases expected_default hd _ r he with h1 | h1
      · exact Or.inl ⟨hd.k, h1⟩
      · exact Or.inr (Or.inl h1)
    · exact Or.inr (Or.inr (Or.inl he.1))

/-- **The delay the configuration reports is the delay that is waited.** For a fixed, exponential or custom policy:
the sleep before the retry that follows the `n`-th call of a request lasted exactly what
`config().policy().delay_for_attempt(n)` answers when asked directly — nothing is added to it and there is no floor
(a zero or sub-millisecond delay stays what it is). -/
theorem reported_delay_is_the_delay_waited (cfg : Cfg) (ops : List Op) (c : Nat) (st : Caller)
    (h : lookup (run cfg ops).callers c = some st) (hdet : cfg.policy.deterministic = true)
    (later : List CallRec) (r p : CallRec) (tl : List CallRec) (hc : st.calls = later ++ r :: p :: tl) (obs : List Nat) :
    ∃ sl, r.pre = some sl ∧ delayProbe cfg (tl.length + 1) obs = toString sl.delay ∧ sl.since + ceilMs sl.delay ≤ r.t := by
  obtain ⟨sl, h1, _, h3, _, h5⟩ := delay_is_policy cfg ops c st h later r p tl hc
  refine ⟨sl, h1, ?_, h5⟩
  simp [delayProbe, deterministic_delay obs hdet h3]

/-- **Nothing is waited beyond the delay.** Right after a poll of request `c` in any reachable state: if `c` is backing
off, the end of its back-off (`failure instant + delay`, rounded up to the timer's millisecond) is still in the future. A
request whose back-off is over has gone on to its retry within that poll; with a zero delay the retry is made by the very
poll that handled the failure. -/
theorem no_wait_beyond_the_delay (cfg : Cfg) (ops : List Op) (c : Nat) (obs : List Nat) (st' : Caller) (wake : Nat)
    (h : lookup (run cfg (ops ++ [.poll c obs])).callers c = some st') (hph : st'.phase = .sleeping wake) :
    (run cfg (ops ++ [.poll c obs])).sh.now < wake := by
  have e : run cfg (ops ++ [.poll c obs]) = stepS cfg (run cfg ops) (.poll c obs) := by simp [run, List.foldl_append]
  rw [e] at h ⊢
  exact polled_sleeper_not_due cfg _ (good_reachable cfg ops) c obs st' wake h hph

/-- … and a request that waits for the inner service's readiness after its back-off (`Phase::Readying`) waits only
because the inner service is still recovering from a call (its `poll_ready` is pending): otherwise that poll would have
made the retry — or ended the request with the readiness error. -/
theorem retry_waits_only_for_inner_readiness (cfg : Cfg) (ops : List Op) (c : Nat) (obs : List Nat) (st' : Caller)
    (wake : Nat) (h : lookup (run cfg (ops ++ [.poll c obs])).callers c = some st') (hph : st'.phase = .readying wake) :
    wake ≤ (run cfg (ops ++ [.poll c obs])).sh.now ∧
    (run cfg (ops ++ [.poll c obs])).sh.now < (run cfg (ops ++ [.poll c obs])).sh.busyUntil := by
  have hw := timely_reachable cfg (ops ++ [.poll c obs]) c st' h wake hph
  refine ⟨hw, ?_⟩
  have e : run cfg (ops ++ [.poll c obs]) = stepS cfg (run cfg ops) (.poll c obs) := by simp [run, List.foldl_append]
  rw [e] at h hw ⊢
  rcases polled_readying_inner_pending cfg _ c obs st' wake h hph with h1 | h1
  · omega
  · exact h1

/-- **The readiness poll comes after the back-off**: in every reachable state a request in `Readying` has its back-off
behind it (`wake`, the end of the back-off, is not in the future) — the first test of the model's `transReadying` never
fires. Together with `delay_is_policy`: the inner service's readiness is not even looked at before the policy's delay
has passed. -/
theorem readying_is_after_the_backoff (cfg : Cfg) (ops : List Op) (c : Nat) (st : Caller) (wake : Nat)
    (h : lookup (run cfg ops).callers c = some st) (hph : st.phase = .readying wake) :
    wake ≤ (run cfg ops).sh.now :=
  timely_reachable cfg ops c st h wake hph

/-- **The `result` events of the log are the requests' results** (clause 4 in the property's own observables): `result
c r` is in the event log exactly when request `c` has the result `r` — so everything `returns_first_success_or_wraps_last`
says about `st.result` is said about the event the caller sees. -/
theorem result_event_iff (cfg : Cfg) (ops : List Op) (c : Nat) (r : RRes) :
    REv.result c r ∈ (run cfg ops).sh.log ↔ ∃ st, lookup (run cfg ops).callers c = some st ∧ st.result = some r :=
  resOK_reachable cfg ops c r

/-- a request has at most one `result` event -/
theorem result_event_unique (cfg : Cfg) (ops : List Op) (c : Nat) (r r' : RRes)
    (h : REv.result c r ∈ (run cfg ops).sh.log) (h' : REv.result c r' ∈ (run cfg ops).sh.log) : r = r' := by
  obtain ⟨st, hl, hr⟩ := (result_event_iff cfg ops c r).1 h
  obtain ⟨st', hl', hr'⟩ := (result_event_iff cfg ops c r').1 h'
  rw [hl] at hl'
  cases hl'
  rw [hr] at hr'
  cases hr'
  rfl

/-- **`time_since_connected()` is always `None`.** `mark_connected` stores `Instant::now().elapsed()` — the time between two
readings of the clock in the same step, 0 — and `time_since_connected` treats 0 as "never connected": whatever happened,
however long ago the last success was. (The accessor therefore carries no information; modelled as it is.) -/
theorem time_since_connected_is_none (cfg : Cfg) (ops : List Op) : timeSinceConnected (run cfg ops).sh = none := by
  have := (foldl_count cfg ops init).1 rfl
  unfold run
  simp [timeSinceConnected, this]

/-- **`attempts()` counts only the application's own `increment_attempts()`.** The service never increments the shared
counter (its attempt count is per request, inside the call future) and resets it on every success: in every reachable
state it is at most the number of `increment_attempts()` calls so far — 0 for an application that never calls it. -/
theorem attempts_counts_only_the_applications_increments (cfg : Cfg) (ops : List Op) :
    attemptsOf (run cfg ops) ≤ ops.countP isIncr := by
  have := (foldl_count cfg ops init).2
  simpa [attemptsOf, run, init] using this

/-- `increment_attempts()` changes nothing but the counter: not the published connection state, not any request. -/
theorem increment_attempts_only_counts (cfg : Cfg) (s : State) :
    (stepS cfg s .incr).sh.attempts = s.sh.attempts + 1 ∧ (stepS cfg s .incr).sh.conn = s.sh.conn ∧
    (stepS cfg s .incr).sh.log = s.sh.log ∧ (stepS cfg s .incr).callers = s.callers :=
  incr_only_counts cfg s

/-! #### several layer values

Services of ONE layer value — and of clones of that layer value — share one connection state (that is what
`ReconnectLayer::state()` monitors): everything above. A second layer value made from the same configuration
(`ReconnectLayer::new(config.clone())`) is another instance: `Multi` keeps one `State` per layer value `j`; the instances
share only the clock and the numbering of inner calls. `runM cfg ops` runs operations tagged with the layer value they go
to; `instOf m j` is the instance of layer value `j`. -/

/-- an operation on layer value `i` is the single-layer step on instance `i` … -/
theorem each_layer_value_is_a_layer (cfg : Cfg) (m : Multi) (i : Nat) (op : Op) :
    instOf (stepM cfg m (i, op)) i = stepS cfg (instOf m i) op :=
  instOf_self cfg m i op

/-- … and **leaves every other layer value alone**: its requests, its published connection state (and who wrote it), its
event history, its attempts counter and `last_connected` are unchanged. A failure seen through one layer value does not
take another one down; a success through one does not bring another one up. -/
theorem layer_values_are_independent (cfg : Cfg) (m : Multi) (i j : Nat) (op : Op) (h : j ≠ i) :
    (instOf (stepM cfg m (i, op)) j).callers = (instOf m j).callers ∧
    (instOf (stepM cfg m (i, op)) j).sh.conn = (instOf m j).sh.conn ∧
    (instOf (stepM cfg m (i, op)) j).sh.writer = (instOf m j).sh.writer ∧
    (instOf (stepM cfg m (i, op)) j).sh.log = (instOf m j).sh.log ∧
    (instOf (stepM cfg m (i, op)) j).sh.attempts = (instOf m j).sh.attempts ∧
    (instOf (stepM cfg m (i, op)) j).sh.lastConn = (instOf m j).sh.lastConn := by
  rw [instOf_other cfg m i j op h]
  exact ⟨rfl, rfl, rfl, rfl, rfl, rfl⟩

/-- every request of every layer value of a multi-layer run satisfies the per-request invariant from which the
single-layer theorems are read off … -/
theorem good_per_layer_value (cfg : Cfg) (ops : List (Nat × Op)) (j : Nat) : AllGood cfg (instOf (runM cfg ops) j) :=
  multi_inv (P := AllGood cfg) cfg (fun _ _ _ h => h) (by intro c st h; simp [init, lookup] at h)
    (fun _ op h => stepS_allGood op h) ops j

/-- … in particular **at most `max_attempts + 1` inner calls per request, through whichever layer value** (built from
whichever clone of the configuration) it was made, -/
theorem calls_bounded_per_layer_value (cfg : Cfg) (ops : List (Nat × Op)) (j c : Nat) (st : Caller) (m : Nat)
    (h : lookup (instOf (runM cfg ops) j).callers c = some st) (hm : cfg.maxAttempts = some m) :
    st.calls.length ≤ m + 1 :=
  (good_per_layer_value cfg ops j c st h).bound m hm

/-- **retries only after connection failures**, -/
theorem retries_only_reconnectable_per_layer_value (cfg : Cfg) (ops : List (Nat × Op)) (j c : Nat) (st : Caller)
    (h : lookup (instOf (runM cfg ops) j).callers c = some st) :
    ∀ p ∈ st.calls.tail, ∃ kd, p.step.out = .err kd ∧ cfg.reconn kd = true := by
  have hg := good_per_layer_value cfg ops j c st h
  cases hc : st.calls with
  | nil => simp
  | cons x xs => exact chain_tail_errors (hc ▸ hg.chain)

/-- and **each layer value's published state is a function of ITS OWN history of completions**: it reads `Connected`
exactly when the last event among {reconnectable inner error handled, success returned} of the requests made through that
layer value is a success. -/
theorem state_is_function_of_history_per_layer_value (cfg : Cfg) (ops : List (Nat × Op)) (j : Nat) :
    (instOf (runM cfg ops) j).sh.conn = .connected ↔ linkUp cfg (instOf (runM cfg ops) j).sh.log = true :=
  multi_inv (P := fun s => HistOK cfg s.sh) cfg (fun _ _ _ h => h) (by simp [HistOK, init, linkUp])
    (fun _ op h => stepS_hist op h) ops j

/-! ### the property over the timestamped event log

`(run cfg ops).sh.tlog : List (Nat × REv)` is the event log with the instant of every line: what the driver prints
(`t=<instant> <event>`) and the correspondence check compares, line by line, with the log of the real layer. The
theorems below restate the clauses over that log alone — no ghost variable (`st.calls`, `CallRec.t`, `st.result`,
`writer`) occurs in them. `isMine c l`: line `l` belongs to request `c` (`inner_call c _`, `inner_done c _ _`,
`inner_drop c _`, `result c _`); `callsInT c T`: the number of `inner_call c _` lines in `T`. Every theorem speaks about
an arbitrary split `tlog = pre ++ line :: post`, i.e. about every line and every prefix of every reachable log. -/

/-- the timestamped log is the event log (same events, same order) … -/
theorem tlog_is_the_log (cfg : Cfg) (ops : List Op) : (run cfg ops).sh.tlog.map Prod.snd = (run cfg ops).sh.log :=
  (logInv_reachable cfg ops).same

/-- … and its instants are the `t=` of the printed lines: an operation appends its new events stamped with the clock of
the state it leads to (for any state). -/
theorem tlog_is_what_the_driver_prints (cfg : Cfg) (s : State) (op : Op) :
    (stepS cfg s op).sh.tlog =
      s.sh.tlog ++ ((stepS cfg s op).sh.log.drop s.sh.log.length).map (fun e => ((stepS cfg s op).sh.now, e)) :=
  stepS_tlog cfg s op

/-- instants never decrease along the log, and no line is stamped later than the clock reads -/
theorem log_instants_never_decrease (cfg : Cfg) (ops : List Op) (pre post : List (Nat × REv)) (t : Nat) (e : REv)
    (hlog : (run cfg ops).sh.tlog = pre ++ (t, e) :: post) :
    (∀ l ∈ pre, l.1 ≤ t) ∧ t ≤ (run cfg ops).sh.now := by
  have h := logInv_reachable cfg ops
  exact ⟨(h.g.wft pre t e post hlog).1, h.g.stamped (t, e) (by rw [hlog]; simp)⟩

/-- **The ghost list `calls` IS the list of the request's `inner_call` lines** — same instants, same serials, same order
(oldest first). Everything the ghost-level theorems above say about `st.calls[i].t` and `st.calls[i].k` is said about
the `inner_call` lines of the log. -/
theorem calls_are_the_call_lines (cfg : Cfg) (ops : List Op) (c : Nat) (st : Caller)
    (h : lookup (run cfg ops).callers c = some st) :
    (run cfg ops).sh.tlog.filter (isCallLine c) = st.calls.reverse.map fun r => (r.t, REv.call c r.k) :=
  ((logInv_reachable cfg ops).tied c st h).lines

/-- … and a request nobody made has no line at all. -/
theorem unknown_request_has_no_line (cfg : Cfg) (ops : List Op) (c : Nat) (h : lookup (run cfg ops).callers c = none) :
    ∀ l ∈ (run cfg ops).sh.tlog, isMine c l = false :=
  (logInv_reachable cfg ops).known c h

/-- **Clause "bounded attempts" over the log, every prefix**: no prefix of a reachable log has more than
`max_attempts + 1` lines `inner_call c _`, for any request `c`. -/
theorem calls_bounded_log (cfg : Cfg) (ops : List Op) (c m : Nat) (hm : cfg.maxAttempts = some m)
    (pre post : List (Nat × REv)) (hlog : (run cfg ops).sh.tlog = pre ++ post) : callsInT c pre ≤ m + 1 := by
  have h1 := calls_bounded_trace cfg ops c m hm
  rw [← tlog_is_the_log, callsInT_map, hlog] at h1
  simp only [callsInT, List.countP_append] at h1 ⊢
  omega

/-- policy `none` / `retry_on_reconnect = false`: at most ONE `inner_call c _` line per request -/
theorem single_call_without_retry_log (cfg : Cfg) (ops : List Op) (c : Nat)
    (hcfg : cfg.retry = false ∨ cfg.policy.has = false) : callsInT c (run cfg ops).sh.tlog ≤ 1 := by
  rw [← callsInT_map, tlog_is_the_log, logOK_reachable cfg ops c]
  cases h : lookup (run cfg ops).callers c with
  | none => simp
  | some st => exact single_call_without_retry cfg ops c st h hcfg

/-- **Clauses "only connection failures are retried" and "the policy's delay is waited", over the log.** Every
`inner_call c k` line at instant `t` is either the first `inner_call` line of request `c`, or the lines before it end —
as far as request `c` is concerned — with

  `inner_call c k0` at `t0`, … (nothing of `c`) …, `inner_done c k0 err<kd>` at `t1 ≥ t0`, … (nothing of `c`) …

where the predicate accepts `kd` (`cfg.reconn kd`: the retry is preceded by a `done` line of the SAME request, for its
PREVIOUS call `k0`, whose error the predicate classifies as a connection failure), `retry_on_reconnect` is on, attempts
are left (`n ≤ max_attempts` for `n` = the number of `inner_call c _` lines so far), and **`t1 + ⌈d⌉ ≤ t` for a delay `d`
that the policy allows for `delay_for_attempt n`** (`⌈·⌉`: a tokio sleep ends at the first millisecond tick; for fixed /
exponential / custom policies `d` IS the policy's value: `retry_waits_the_policy_delay`). Consecutive `inner_call` lines
of one request are therefore at least `delay_for_attempt n` apart (`t0 + ⌈d⌉ ≤ t`). -/
theorem retry_follows_accepted_failure (cfg : Cfg) (ops : List Op) (c k t : Nat) (pre post : List (Nat × REv))
    (hlog : (run cfg ops).sh.tlog = pre ++ (t, .call c k) :: post) :
    callsInT c pre = 0 ∨
    ∃ p1 t0 k0 mid t1 kd mid2 d,
      pre = p1 ++ (t0, .call c k0) :: (mid ++ (t1, .done c k0 (.err kd)) :: mid2) ∧
      (∀ y ∈ mid, isMine c y = false) ∧ (∀ y ∈ mid2, isMine c y = false) ∧
      cfg.reconn kd = true ∧ cfg.retry = true ∧ exceeded cfg (callsInT c pre) = false ∧
      cfg.policy.allowed (callsInT c pre) d = true ∧ t0 ≤ t1 ∧ t1 + ceilMs d ≤ t :=
  retry_structure (logInv_reachable cfg ops).g.wft hlog

/-- the same in one line for a fixed, exponential or custom policy: retry number `n` (the `n+1`-th `inner_call` line of
the request) comes no earlier than `delay_for_attempt(n)` after the `inner_done` line of the failure it follows, hence
no earlier than that after the previous `inner_call` line -/
theorem retry_waits_the_policy_delay (cfg : Cfg) (hdet : cfg.policy.deterministic = true) (ops : List Op) (c k t : Nat)
    (pre post : List (Nat × REv)) (hlog : (run cfg ops).sh.tlog = pre ++ (t, .call c k) :: post)
    (hretry : 0 < callsInT c pre) :
    ∃ t0 k0 t1 kd, (t0, REv.call c k0) ∈ pre ∧ (t1, REv.done c k0 (.err kd)) ∈ pre ∧ cfg.reconn kd = true ∧
      t0 ≤ t1 ∧ t1 + ceilMs (cfg.policy.delayOf (callsInT c pre)) ≤ t := by
  rcases retry_follows_accepted_failure cfg ops c k t pre post hlog with h0 | ⟨p1, t0, k0, mid, t1, kd, mid2, d, hp, _, _, hk, _, _, hal, h01, h1t⟩
  · omega
  · refine ⟨t0, k0, t1, kd, by rw [hp]; simp, by rw [hp]; simp, hk, h01, ?_⟩
    rw [← (allowed_deterministic hdet).1 hal]; exact h1t

/-- **… and exactly the policy's delay, when the request is polled whenever its back-off timer fires.** Hypotheses,
both on the operation list alone: `PolledWhenWoken cfg c ops` — the clock is never advanced past the end of a back-off of
request `c` (for every split `ops = pre ++ adv ms :: post`: if `c` sleeps until `wake` after `pre`, then `now + ms ≤ wake`,
`polledWhenWoken_iff`; i.e. the timer fires at its deadline and the woken request is polled before time goes on) — and the
wrapped service has no recovery time (`Op.inner _ 0` only; with a recovery time the retry is due when the service is
ready again, `retry_waits_only_for_inner_readiness`). Then every retry of `c` is made at EXACTLY `t1 + ⌈d⌉`, `t1` the
instant of the `inner_done` line it follows and `d` a delay the policy allows for that attempt. -/
theorem retry_exactly_after_the_delay (cfg : Cfg) (ops : List Op) (c : Nat) (hd : PolledWhenWoken cfg c ops)
    (hn : ∀ op ∈ ops, noRecovery op = true) (k t : Nat) (pre post : List (Nat × REv))
    (hlog : (run cfg ops).sh.tlog = pre ++ (t, .call c k) :: post) (t1 k1 : Nat) (o : Out)
    (hlast : lastMine c pre = some (t1, .done c k1 o)) :
    ∃ d, cfg.policy.allowed (callsInT c pre) d = true ∧ t = t1 + ceilMs d :=
  (prompt_reachable cfg c ops hd hn).exact pre t _ post hlog rfl t1 k1 o hlast

/-- the discipline, spelled out -/
theorem polled_when_woken_means (cfg : Cfg) (c : Nat) (ops : List Op) :
    PolledWhenWoken cfg c ops ↔
      ∀ pre ms post, ops = pre ++ .adv ms :: post → ∀ st wake, lookup (run cfg pre).callers c = some st →
        st.phase = .sleeping wake → (run cfg pre).sh.now + ms ≤ wake :=
  polledWhenWoken_iff cfg c ops

/-- an `inner_done c k _` line (and an `inner_drop c k` line) directly follows, among the lines of request `c`, the line
`inner_call c k` — its own call, not an earlier one -/
theorem completion_follows_its_call (cfg : Cfg) (ops : List Op) (c k t : Nat) (e : REv) (pre post : List (Nat × REv))
    (hlog : (run cfg ops).sh.tlog = pre ++ (t, e) :: post) (he : (∃ o, e = .done c k o) ∨ e = .dropped c k) :
    ∃ p1 t0 mid, pre = p1 ++ (t0, .call c k) :: mid ∧ (∀ y ∈ mid, isMine c y = false) ∧ t0 ≤ t :=
  end_follows_its_call (logInv_reachable cfg ops).g.wft hlog he

/-- **Clause "returns the first success or an error wrapping the last inner error", over the log.** A `result c r` line
at instant `t` is justified by the lines `pre` before it (`ResultOK`), `last` being the latest line of request `c` in `pre`
and `n` the number of its `inner_call` lines:
* `ok:k` — `last` is `inner_done c k ok`, at the same instant `t`;
* `panic` — `last` is `inner_done c _ panic`, at `t`;
* `err:service:inner<kd>:k` — `last` is `inner_done c k err<kd>` at `t`, and the predicate REJECTS `kd`;
* `err:max_attempts:<n>:inner<kd>:k` — `last` is `inner_done c k err<kd>` at `t`, the predicate accepts `kd`, `n` is the
  number of `inner_call c _` lines and `n > max_attempts`;
* `err:conn_failed:inner<kd>:k` — the same with attempts left and policy `None`;
* `err:no_retry:inner<kd>:k` — `last` is `inner_done c k err<kd>` at `t1`, accepted, attempts left, `retry_on_reconnect` off,
  and `t1 + ⌈d⌉ ≤ t` for a delay `d` the policy allows (the back-off was waited);
* the readiness error — the line right before it is `ready_err` at `t`, and a retry would have been justified at `t`
  (`last` an accepted failure, attempts left, back-off over);
* `notready` — request `c` has no line before it.
In every case the wrapped `(kind, serial)` is that of the LAST `inner_done` line of the request. -/
theorem result_line_wraps_last_completion (cfg : Cfg) (ops : List Op) (c t : Nat) (r : RRes)
    (pre post : List (Nat × REv)) (hlog : (run cfg ops).sh.tlog = pre ++ (t, .result c r) :: post) :
    ResultOK cfg c pre t r :=
  ((logInv_reachable cfg ops).g.wft pre t _ post hlog).2

/-- **Nothing of request `c` follows its `result` line** (nor its `inner_drop` line): no further call, no completion,
no second result — one result per request, and it is final. -/
theorem nothing_follows_the_result (cfg : Cfg) (ops : List Op) (c t : Nat) (e : REv) (pre post : List (Nat × REv))
    (hlog : (run cfg ops).sh.tlog = pre ++ (t, e) :: post) (he : (∃ r, e = .result c r) ∨ ∃ k, e = .dropped c k) :
    ∀ y ∈ post, isMine c y = false :=
  final_line (logInv_reachable cfg ops).g.wft hlog (by rcases he with ⟨r, rfl⟩ | ⟨k, rfl⟩ <;> simp [isFinal])

/-- **The first success ends the request**: after an `inner_done c k ok` line the only further line of `c` is
`result c ok:k`, at the same instant — in particular no `inner_call c _` follows a success. -/
theorem first_success_ends_the_request (cfg : Cfg) (ops : List Op) (c k t : Nat) (pre post : List (Nat × REv))
    (hlog : (run cfg ops).sh.tlog = pre ++ (t, .done c k .ok) :: post) :
    ∀ y ∈ post, isMine c y = true → y = (t, .result c (.ok k)) :=
  after_success (logInv_reachable cfg ops).g.wft hlog

/-! #### the published state at every probe point -/

/-- **The published connection state is `pubOf` of the log** — all three values, in every reachable state: `Disconnected`
initially; `Reconnecting` from the moment a reconnectable inner error is handled (`inner_done _ _ err<kd>`, `kd` accepted) —
unless the request gives up in the same turn (`MaxAttemptsExceeded`, or `ConnectionFailed` under policy `None`): then
`Disconnected`; `Connected` from a `result _ ok:_` (or the `ConnectionFailedNoRetry` that ends a back-off with
`retry_on_reconnect = false`); nothing else changes it. -/
theorem published_state_is_function_of_the_log (cfg : Cfg) (ops : List Op) :
    (run cfg ops).sh.conn = pubOf cfg (run cfg ops).sh.log :=
  (logInv_reachable cfg ops).pub

/-- **Every `probe state` line reports `pubOf` of the lines before it.** So after `result 1 ok:0, inner_done 2 1 err1`
(accepted, request 2 backing off) a probe must read `Reconnecting` — `Connected` there contradicts this theorem. -/
theorem probe_reports_the_state_of_the_log (cfg : Cfg) (ops : List Op) (t : Nat) (x : Conn) (pre post : List (Nat × REv))
    (hlog : (run cfg ops).sh.tlog = pre ++ (t, .probe x) :: post) : x = pubOf cfg (pre.map Prod.snd) :=
  ((logInv_reachable cfg ops).g.wft pre t _ post hlog).2

/-- **Not connected while a reconnectable failure is being handled, without the ghost `writer`**: if the latest line of
the log that changes the published state at all (`changesPub`: an accepted `inner_done … err`, a success / no-retry result,
a give-up result) is an accepted failure `inner_done c k err<kd>` — i.e. request `c` handled it and neither `c` nor any
other request has succeeded or given up since — the published state is `Reconnecting`. Any number of requests, any
interleaving; the lines after it may be retries being issued, completions of other calls with rejected errors, panics,
cancellations, probes, readiness errors. -/
theorem reconnecting_while_failure_is_latest (cfg : Cfg) (ops : List Op) (c k kd : Nat) (pre post : List REv)
    (hlog : (run cfg ops).sh.log = pre ++ REv.done c k (.err kd) :: post) (hkd : cfg.reconn kd = true)
    (hpost : ∀ x ∈ post, changesPub cfg x = false) : (run cfg ops).sh.conn = .reconnecting := by
  rw [published_state_is_function_of_the_log, hlog, pubOf_after cfg pre post _ hpost]
  simp [pubStep, hkd]

/-- … and `Disconnected` after a give-up (`MaxAttemptsExceeded`, `ConnectionFailed`) until the next line that changes the
state: the state stays down for good if nobody tries again (as the code has it; see the notes). -/
theorem disconnected_after_giving_up (cfg : Cfg) (ops : List Op) (c : Nat) (r : RRes) (pre post : List REv)
    (hlog : (run cfg ops).sh.log = pre ++ REv.result c r :: post)
    (hr : (∃ n kd k, r = .maxAttempts n kd k) ∨ ∃ kd k, r = .connFailed kd k)
    (hpost : ∀ x ∈ post, changesPub cfg x = false) : (run cfg ops).sh.conn = .disconnected := by
  rw [published_state_is_function_of_the_log, hlog, pubOf_after cfg pre post _ hpost]
  rcases hr with ⟨n, kd, k, rfl⟩ | ⟨kd, k, rfl⟩ <;> rfl

/-- the two-valued reading used above (`linkUp`) is the three-valued one -/
theorem pubOf_connected_iff_linkUp (cfg : Cfg) (ops : List Op) :
    pubOf cfg (run cfg ops).sh.log = .connected ↔ linkUp cfg (run cfg ops).sh.log = true := by
  rw [← published_state_is_function_of_the_log]; exact state_is_function_of_history cfg ops

/-- everything above in one statement: **every reachable timestamped log is well formed** — every line is justified by the
lines before it (`EvOK`: the retry / completion / result / probe clauses above) and instants never decrease -/
theorem log_wellformed (cfg : Cfg) (ops : List Op) : WFT cfg (run cfg ops).sh.tlog :=
  (logInv_reachable cfg ops).g.wft

/-- **… for every layer value**: the log of the instance of layer value `j` in any multi-layer history is well formed, and
that layer value's published state is `pubOf` of ITS OWN log. The log-level theorems above are read off `WFT` alone
(`retry_structure`, `end_follows_its_call`, `final_line`, `after_success` in `TR.Lemmas.ReconnectTrace`), so each of them
holds for each layer value; two of them are spelled out below. -/
theorem log_wellformed_per_layer_value (cfg : Cfg) (ops : List (Nat × Op)) (j : Nat) :
    WFT cfg (instOf (runM cfg ops) j).sh.tlog ∧
    (instOf (runM cfg ops) j).sh.conn = pubOf cfg (instOf (runM cfg ops) j).sh.log ∧
    (instOf (runM cfg ops) j).sh.tlog.map Prod.snd = (instOf (runM cfg ops) j).sh.log :=
  ⟨(logInv_multi cfg ops j).g.wft, (logInv_multi cfg ops j).pub, (logInv_multi cfg ops j).same⟩

theorem retry_follows_accepted_failure_per_layer_value (cfg : Cfg) (ops : List (Nat × Op)) (j c k t : Nat)
    (pre post : List (Nat × REv)) (hlog : (instOf (runM cfg ops) j).sh.tlog = pre ++ (t, .call c k) :: post) :
    callsInT c pre = 0 ∨
    ∃ p1 t0 k0 mid t1 kd mid2 d,
      pre = p1 ++ (t0, .call c k0) :: (mid ++ (t1, .done c k0 (.err kd)) :: mid2) ∧
      (∀ y ∈ mid, isMine c y = false) ∧ (∀ y ∈ mid2, isMine c y = false) ∧
      cfg.reconn kd = true ∧ cfg.retry = true ∧ exceeded cfg (callsInT c pre) = false ∧
      cfg.policy.allowed (callsInT c pre) d = true ∧ t0 ≤ t1 ∧ t1 + ceilMs d ≤ t :=
  retry_structure (logInv_multi cfg ops j).g.wft hlog

theorem probe_reports_the_state_of_the_log_per_layer_value (cfg : Cfg) (ops : List (Nat × Op)) (j t : Nat) (x : Conn)
    (pre post : List (Nat × REv)) (hlog : (instOf (runM cfg ops) j).sh.tlog = pre ++ (t, .probe x) :: post) :
    x = pubOf cfg (pre.map Prod.snd) :=
  ((logInv_multi cfg ops j).g.wft pre t _ post hlog).2

/-- **Progress** (not a clause of the property; the audit asked for it): with unlimited attempts, `retry_on_reconnect`, a
zero delay and an inner service that is always ready, a request whose inner calls fail `n` times with an error the
predicate accepts and then succeed RETURNS that success — `ok` with the serial of call `n + 1`, after exactly `n + 1` inner
calls, within its first poll — and the published state reads `Connected`. For every `n`: the model's loop fuel is never
what stops a request (`poll_runs_to_pending_or_done`), and nothing else gives up. -/
theorem unlimited_makes_progress (cfg : Cfg) (hmax : cfg.maxAttempts = none) (hretry : cfg.retry = true)
    (hpol : cfg.policy = .fixed 0) (kd c n : Nat) (hk : cfg.reconn kd = true) :
    ∃ st, lookup (run cfg [.arrive c (List.replicate n ⟨0, .err kd⟩ ++ [⟨0, .ok⟩]), .poll c []]).callers c = some st ∧
      st.result = some (.ok n) ∧ st.calls.length = n + 1 ∧
      (run cfg [.arrive c (List.replicate n ⟨0, .err kd⟩ ++ [⟨0, .ok⟩]), .poll c []]).sh.conn = .connected :=
  progress_run cfg hmax hretry hpol kd c n hk

/-! ## non-vacuity -/

private def cfgA : Cfg :=
  { maxAttempts := some 2, policy := .fixed 10000000, retry := true, reconn := fun k => k == 1 }

/-- Two reconnectable failures, then a success: three calls (= max_attempts + 1, the bound is
attained), retries exactly 10 ms after each failure, result `ok` with the serial of the third
call, state Connected. -/
example :
    let s := run cfgA [.arrive 1 [⟨0, .err 1⟩, ⟨2, .err 1⟩, ⟨5, .ok⟩], .poll 1 [], .adv 10, .poll 1 [],
                       .adv 2, .poll 1 [], .adv 9, .poll 1 [], .adv 1, .poll 1 [], .adv 5, .poll 1 []]
    (lookup s.callers 1).map (fun st => (st.result, st.calls.map (fun r => (r.k, r.t)))) =
        some (some (.ok 2), [(2, 22), (1, 10), (0, 0)])
      ∧ s.sh.conn = .connected := by decide

/-- While handling (sleeping after the first failure) the state is Reconnecting and the request is live. -/
example :
    let s := run cfgA [.arrive 1 [⟨0, .err 1⟩, ⟨0, .ok⟩], .poll 1 [], .adv 9, .poll 1 []]
    (lookup s.callers 1).map (fun st => (st.phase, st.attempt)) = some (.sleeping 10, 1)
      ∧ s.sh.conn = .reconnecting ∧ s.sh.writer = some 1 := by decide

/-- Three failures with `max_attempts = 2`: `MaxAttemptsExceeded{attempts: 3}` wrapping the last error;
a non-reconnectable error: `ServiceError` after one call. -/
example :
    let s := run { cfgA with policy := .fixed 0 }
      [.arrive 1 [⟨0, .err 1⟩, ⟨0, .err 1⟩, ⟨0, .err 1⟩, ⟨0, .ok⟩], .poll 1 [],
       .arrive 2 [⟨0, .err 2⟩, ⟨0, .ok⟩], .poll 2 []]
    (lookup s.callers 1).map (·.result) = some (some (.maxAttempts 3 1 2))
      ∧ (lookup s.callers 2).map (fun st => (st.result, st.calls.length)) = some (some (.service 2 3), 1) := by
  decide

/-- Interleaved requests sharing the state (the history `issue A, issue B, B fails and gives up, A succeeds`):
request 1 warms the link up; request 2 (A) is issued while the state reads Connected and is in flight for 5 ms;
request 3 (B) hits a reconnectable failure and gives up (`max_attempts = 0`), the state reads Disconnected;
then A succeeds on its first attempt: the state reads Connected again. -/
example :
    let ops := [Op.arrive 1 [⟨0, .ok⟩], .poll 1 [], .arrive 2 [⟨5, .ok⟩], .poll 2 [],
                .arrive 3 [⟨0, .err 1⟩], .poll 3 []]
    let cfg := { cfgA with maxAttempts := some 0 }
    (run cfg ops).sh.conn = .disconnected
      ∧ (lookup (run cfg ops).callers 3).map (·.result) = some (some (.maxAttempts 1 1 2))
      ∧ (run cfg (ops ++ [.adv 5, .poll 2 []])).sh.conn = .connected
      ∧ (lookup (run cfg (ops ++ [.adv 5, .poll 2 []])).callers 2).map (fun st => (st.result, st.attempt))
          = some (some (.ok 1), 0) := by decide

/-- A randomised policy: an observed delay inside the envelope is accepted, one outside is refused. -/
example : (Policy.jitter 3000000 10000000 50).allowed 1 8833565 = true
    ∧ (Policy.jitter 3000000 10000000 50).allowed 1 9100000 = false := by decide

/-- Error chains, predicate = {kind 1}: `err2>1` (rejected head, accepted cause) is NOT retried: `ServiceError` after
one call, the state untouched; `err2>3>1` (accepted cause two levels down) likewise; `err1>2` (accepted head,
rejected cause) IS retried. -/
example :
    let s := runC { cfgA with policy := .fixed 0 }
      [.arrive 1 [⟨0, .err 2 [1]⟩, ⟨0, .ok⟩], .poll 1 [], .probe,
       .arrive 2 [⟨0, .err 2 [3, 1]⟩, ⟨0, .ok⟩], .poll 2 [],
       .arrive 3 [⟨0, .err 1 [2]⟩, ⟨0, .ok⟩], .poll 3 []]
    (lookup s.callers 1).map (fun st => (st.result, st.calls.length)) = some (some (.service 2 0), 1)
      ∧ REv.probe .disconnected ∈ s.sh.log
      ∧ (lookup s.callers 2).map (fun st => (st.result, st.calls.length)) = some (some (.service 2 1), 1)
      ∧ (lookup s.callers 3).map (fun st => (st.result, st.calls.length)) = some (some (.ok 3), 2) := by
  decide

/-- `retry_on_reconnect = false`: after the back-off the request returns `ConnectionFailedNoRetry` wrapping the error of
its only call and the state reads Connected; policy `none`: `ConnectionFailed` at once, the state reads Disconnected. -/
example :
    let s := run { cfgA with retry := false } [.arrive 1 [⟨0, .err 1⟩, ⟨0, .ok⟩], .poll 1 [], .adv 10, .poll 1 []]
    let s' := run { cfgA with policy := .none } [.arrive 1 [⟨0, .err 1⟩, ⟨0, .ok⟩], .poll 1 []]
    (lookup s.callers 1).map (fun st => (st.result, st.calls.length)) = some (some (.noRetry 1 0), 1)
      ∧ s.sh.conn = .connected
      ∧ (lookup s'.callers 1).map (fun st => (st.result, st.calls.length)) = some (some (.connFailed 1 0), 1)
      ∧ s'.sh.conn = .disconnected := by decide

/-- The inner service's readiness (`Phase::Readying`): it recovers for 5 ms after every call and fails its third
readiness poll. Request 1: first call at 0 fails reconnectably, back-off 10 ms (fixed), retry at 10 (the service has
recovered), fails again, back-off until 20; the readiness poll at 20 is the third → `ServiceError(readiness error)`
(`readyErr`), two calls made, state still Reconnecting. Request 2 arrives at 12 while the service recovers from the call
at 10: refused (`notReady`), no call. -/
example :
    let s := run cfgA [.inner [.ready, .ready, .error] 5, .arrive 1 [⟨0, .err 1⟩, ⟨0, .err 1⟩, ⟨0, .ok⟩], .poll 1 [],
                       .adv 10, .poll 1 [], .adv 2, .arrive 2 [⟨0, .ok⟩], .adv 8, .poll 1 []]
    (lookup s.callers 1).map (fun st => (st.result, st.calls.map (fun r => (r.k, r.t)))) = some (some .readyErr, [(1, 10), (0, 0)])
      ∧ (lookup s.callers 2).map (fun st => (st.result, st.calls.length)) = some (some .notReady, 0)
      ∧ s.sh.conn = .reconnecting ∧ REv.readyErr ∈ s.sh.log ∧ REv.result 1 .readyErr ∈ s.sh.log := by decide

/-- … and a retry that is due while the inner service still recovers waits for it: back-off 10 ms from 0, recovery 15 ms
from the call at 0: polled at 10 the request is in `Readying`; the retry is made at 15. -/
example :
    let ops := [Op.inner [] 15, .arrive 1 [⟨0, .err 1⟩, ⟨0, .ok⟩], .poll 1 [], .adv 10, .poll 1 []]
    (lookup (run cfgA ops).callers 1).map (·.phase) = some (.readying 10)
      ∧ (lookup (run cfgA (ops ++ [.adv 5, .poll 1 []])).callers 1).map (fun st => (st.result, st.calls.map (·.t)))
          = some (some (.ok 1), [15, 0]) := by decide

/-- `connection_errors_only()`: "Broken pipe (os error 32)" (kind 4) is retried, "disconnected" (kind 10) and a plain
error without text (kind 1) are not: `ServiceError` after one call. -/
example :
    let s := run { cfgA with policy := .fixed 0, reconn := connAccepts }
      [.arrive 1 [⟨0, .err 4⟩, ⟨0, .ok⟩], .poll 1 [], .arrive 2 [⟨0, .err 10⟩, ⟨0, .ok⟩], .poll 2 [],
       .arrive 3 [⟨0, .err 1⟩, ⟨0, .ok⟩], .poll 3 []]
    (lookup s.callers 1).map (fun st => (st.result, st.calls.length)) = some (some (.ok 1), 2)
      ∧ (lookup s.callers 2).map (fun st => (st.result, st.calls.length)) = some (some (.service 10 2), 1)
      ∧ (lookup s.callers 3).map (fun st => (st.result, st.calls.length)) = some (some (.service 1 3), 1) := by
  decide

/-- Two layer values made from one configuration: a success through layer value 0, a failure being handled through
layer value 1, nothing yet through layer value 2 — three different published states at the same instant; the inner calls
are numbered across the layer values. The application's `increment_attempts()` on layer value 0 is reset by the next
success there and does not show on layer value 1. -/
example :
    let m := runM cfgA [(0, .incr), (1, .incr), (0, .arrive 1 [⟨0, .ok⟩]), (0, .poll 1 []),
                        (1, .arrive 2 [⟨0, .err 1⟩, ⟨0, .ok⟩]), (1, .poll 2 [])]
    (instOf m 0).sh.conn = .connected ∧ (instOf m 1).sh.conn = .reconnecting ∧ (instOf m 2).sh.conn = .disconnected
      ∧ attemptsOf (instOf m 0) = 0 ∧ attemptsOf (instOf m 1) = 1
      ∧ (lookup (instOf m 1).callers 2).map (fun st => st.calls.map (·.k)) = some [1]
      ∧ timeSinceConnected (instOf m 0).sh = none := by decide

/-- A sub-millisecond delay is reported as it is (125 µs · 2 = 250 µs, no floor) and waited to the next timer tick. -/
example : delayProbe { cfgA with policy := .exp 125000 400000 } 1 [] = "250000"
    ∧ delayProbe { cfgA with policy := .exp 0 5000000000 } 3 [] = "0" ∧ ceilMs 250000 = 1 ∧ ceilMs 0 = 0 := by decide

/-! ### non-vacuity of the log-level theorems, and of the older theorems that had no instance yet -/

private def opsA : List Op :=
  [.arrive 1 [⟨0, .err 1⟩, ⟨2, .err 1⟩, ⟨5, .ok⟩], .poll 1 [], .adv 10, .poll 1 [], .adv 2, .poll 1 [],
   .adv 9, .poll 1 [], .adv 1, .poll 1 [], .adv 5, .poll 1 []]

/-- The timestamped log of the first example (two reconnectable failures, then a success; fixed 10 ms): the retries are
the `inner_call` lines at 10 and 22, each preceded by the `inner_done … err1` line of the previous call (at 0 and 12) and
exactly 10 ms after it — the schedule `opsA` polls the request whenever its back-off ends (`PolledWhenWoken`), the inner
service has no recovery time. `calls_bounded_log`: 3 = max_attempts + 1 `inner_call` lines; `result_line_wraps_last_completion`,
`first_success_ends_the_request`: `inner_done 1 2 ok` is followed by `result 1 ok:2` at the same instant and nothing else. -/
example :
    (run cfgA opsA).sh.tlog =
      [(0, .call 1 0), (0, .done 1 0 (.err 1)), (10, .call 1 1), (12, .done 1 1 (.err 1)), (22, .call 1 2),
       (27, .done 1 2 .ok), (27, .result 1 (.ok 2))]
      ∧ PolledWhenWoken cfgA 1 opsA ∧ (∀ op ∈ opsA, noRecovery op = true)
      ∧ lastMine 1 [(0, .call 1 0), (0, .done 1 0 (.err 1)), (10, .call 1 1), (12, REv.done 1 1 (.err 1))]
          = some (12, .done 1 1 (.err 1))
      ∧ callsInT 1 (run cfgA opsA).sh.tlog = 3 ∧ cfgA.policy.deterministic = true ∧ cfgA.policy.delayOf 2 = 10000000 := by
  decide

/-- The discipline is needed for "exactly": a schedule that advances the clock 11 ms over a 10 ms back-off does not meet
it, and the retry line stands at 11 (the lower bound `retry_follows_accepted_failure` still holds: 0 + 10 ≤ 11). With a
recovery time of 15 ms of the inner service (`noRecovery` fails) the retry stands at 15 although the request is polled
at 10. -/
example :
    let ops := [Op.arrive 1 [⟨0, .err 1⟩, ⟨0, .ok⟩], .poll 1 [], .adv 11, .poll 1 []]
    let ops' := [Op.inner [] 15, .arrive 1 [⟨0, .err 1⟩, ⟨0, .ok⟩], .poll 1 [], .adv 10, .poll 1 [], .adv 5, .poll 1 []]
    ¬ PolledWhenWoken cfgA 1 ops
      ∧ (run cfgA ops).sh.tlog = [(0, .call 1 0), (0, .done 1 0 (.err 1)), (11, .call 1 1), (11, .done 1 1 .ok),
                                   (11, .result 1 (.ok 1))]
      ∧ PolledWhenWoken cfgA 1 ops' ∧ ¬ (∀ op ∈ ops', noRecovery op = true)
      ∧ (run cfgA ops').sh.tlog = [(0, .call 1 0), (0, .done 1 0 (.err 1)), (15, .call 1 1), (15, .done 1 1 .ok),
                                    (15, .result 1 (.ok 1))] := by
  decide

/-- The published state at four probe points, all three values: `Disconnected` before anything happened; `Connected`
after request 1 succeeded; `Reconnecting` while request 2 — issued while the state read Connected — backs off after an
accepted failure (this is the probe that a state left at `Connected` during an outage contradicts:
`probe_reports_the_state_of_the_log` with `pre` = the first seven lines); `Disconnected` after request 2 gave up
(`MaxAttemptsExceeded` after 3 calls). -/
example :
    let ops := [Op.probe, .arrive 1 [⟨0, .ok⟩], .poll 1 [], .probe, .arrive 2 [⟨0, .err 1⟩, ⟨0, .err 1⟩, ⟨0, .err 1⟩],
                .poll 2 [], .probe, .adv 10, .poll 2 [], .adv 10, .poll 2 [], .probe]
    (run cfgA ops).sh.tlog =
      [(0, .probe .disconnected), (0, .call 1 0), (0, .done 1 0 .ok), (0, .result 1 (.ok 0)), (0, .probe .connected),
       (0, .call 2 1), (0, .done 2 1 (.err 1)), (0, .probe .reconnecting), (10, .call 2 2), (10, .done 2 2 (.err 1)),
       (20, .call 2 3), (20, .done 2 3 (.err 1)), (20, .result 2 (.maxAttempts 3 1 3)), (20, .probe .disconnected)]
      ∧ pubOf cfgA [.probe .disconnected, .call 1 0, .done 1 0 .ok, .result 1 (.ok 0), .probe .connected, .call 2 1,
                    .done 2 1 (.err 1)] = .reconnecting
      ∧ pubOf cfgA [] = .disconnected := by
  decide

/-- `retry_on_reconnect = false` and policy `None` over the log: one `inner_call` line each
(`single_call_without_retry_log`); the `no_retry` result comes 10 ms after the `inner_done` line (the back-off was waited),
the `conn_failed` result at the instant of the failure; the default configuration retries after 100 ms
(`default_config_never_gives_up`: the result is a success). -/
example :
    (run { cfgA with retry := false } [.arrive 1 [⟨0, .err 1⟩, ⟨0, .ok⟩], .poll 1 [], .adv 10, .poll 1 []]).sh.tlog
        = [(0, .call 1 0), (0, .done 1 0 (.err 1)), (10, .result 1 (.noRetry 1 0))]
      ∧ (run { cfgA with policy := .none } [.arrive 1 [⟨0, .err 1⟩, ⟨0, .ok⟩], .poll 1 []]).sh.tlog
        = [(0, .call 1 0), (0, .done 1 0 (.err 1)), (0, .result 1 (.connFailed 1 0))]
      ∧ (run defaultCfg [.arrive 1 [⟨0, .err 1⟩, ⟨0, .ok⟩], .poll 1 [], .adv 200, .poll 1 []]).sh.tlog
        = [(0, .call 1 0), (0, .done 1 0 (.err 1)), (200, .call 1 1), (200, .done 1 1 .ok), (200, .result 1 (.ok 1))]
      ∧ (lookup (run defaultCfg [.arrive 1 [⟨0, .err 1⟩, ⟨0, .ok⟩], .poll 1 [], .adv 200, .poll 1 []]).callers 1).map
          (·.result) = some (some (.ok 1)) := by
  decide

/-- A cancelled request: `inner_drop 1 0` follows `inner_call 1 0` (`completion_follows_its_call`) and nothing of request 1
follows it (`nothing_follows_the_result`); a refused request has the single line `result 2 notready`. -/
example :
    (run cfgA [.arrive 1 [⟨5, .ok⟩], .poll 1 [], .drop 1, .inner [] 7, .arrive 3 [⟨0, .ok⟩], .arrive 2 [⟨0, .ok⟩],
               .adv 5, .poll 1 []]).sh.tlog
      = [(0, .call 1 0), (0, .dropped 1 0), (0, .call 3 1), (0, .result 2 .notReady)] := by
  decide

/-- hypotheses of `connected_after_any_success` and `not_connected_after_failure_until_success`: explicit splits of the
log of the interleaving example (request 3 fails and gives up while request 2 is in flight, then request 2 succeeds) -/
example :
    let ops := [Op.arrive 1 [⟨0, .ok⟩], .poll 1 [], .arrive 2 [⟨5, .ok⟩], .poll 2 [], .arrive 3 [⟨0, .err 1⟩], .poll 3 []]
    let cfg := { cfgA with maxAttempts := some 0 }
    (run cfg ops).sh.log
        = [.call 1 0, .done 1 0 .ok, .result 1 (.ok 0), .call 2 1, .call 3 2] ++ REv.done 3 2 (.err 1) ::
          [.result 3 (.maxAttempts 1 1 2)]
      ∧ cfg.reconn 1 = true ∧ (∀ x ∈ [REv.result 3 (.maxAttempts 1 1 2)], isSuccess x = false)
      ∧ (run cfg (ops ++ [.adv 5, .poll 2 []])).sh.log
        = [.call 1 0, .done 1 0 .ok, .result 1 (.ok 0), .call 2 1, .call 3 2, .done 3 2 (.err 1),
           .result 3 (.maxAttempts 1 1 2), .done 2 1 .ok] ++ REv.result 2 (.ok 1) :: []
      ∧ (∀ c' k' kd, REv.done c' k' (.err kd) ∈ ([] : List REv) → cfg.reconn kd = false) := by
  refine ⟨by decide, by decide, by decide, by decide, ?_⟩
  intro c' k' kd h
  simp at h

/-- hypotheses of `solo_not_connected_while_handling`, `state_connected_after_success`, `expected_reading`,
`rejected_error_finishes_whatever_its_causes` and `readiness_error_leaves_state` (the transition that returns the
readiness error in the readiness example above: request 1 in `Readying` at 20, the third readiness answer is an error) -/
example :
    (∀ op ∈ [Op.arrive 1 [⟨0, .err 1⟩, ⟨0, .ok⟩], .poll 1 [], .adv 9, .poll 1 [], .probe], Solo 1 op)
      ∧ (let s := run cfgA [.arrive 1 [⟨0, .ok⟩]]
         REv.result 1 (.ok 0) ∈ (stepS cfgA s (.poll 1 [])).sh.log.drop s.sh.log.length)
      ∧ expected cfgA { k := 2, t := 22, step := ⟨5, .ok⟩, pre := none } 3 = some (.ok 2)
      ∧ expected cfgA { k := 2, t := 0, step := ⟨0, .err 1⟩, pre := none } 3 = some (.maxAttempts 3 1 2)
      ∧ cfgA.reconn 2 = false
      ∧ (let s := run cfgA [.inner [.ready, .ready, .error] 5, .arrive 1 [⟨0, .err 1⟩, ⟨0, .err 1⟩, ⟨0, .ok⟩], .poll 1 [],
                            .adv 10, .poll 1 [], .adv 10]
         let st := (lookup s.callers 1).getD default
         st.result = none ∧ st.phase = .sleeping 20
           ∧ ((transSleeping cfgA 1 st s.sh 20).bind fun p => transReadying 1 p.1 p.2 20).map (fun p => p.1.result)
               = some (some .readyErr)) := by
  decide

/-- two layer values, each with its own log: layer value 1's retry at 10 follows ITS failure at 0; layer value 0's probe
reads `Connected` from its own success while layer value 1 reads `Reconnecting` at the same instant -/
example :
    let m := runM cfgA [(0, .arrive 1 [⟨0, .ok⟩]), (0, .poll 1 []), (1, .arrive 2 [⟨0, .err 1⟩, ⟨0, .ok⟩]), (1, .poll 2 []),
                        (0, .probe), (1, .probe), (0, .adv 10), (1, .poll 2 [])]
    (instOf m 0).sh.tlog = [(0, .call 1 0), (0, .done 1 0 .ok), (0, .result 1 (.ok 0)), (0, .probe .connected)]
      ∧ (instOf m 1).sh.tlog = [(0, .call 2 1), (0, .done 2 1 (.err 1)), (0, .probe .reconnecting), (10, .call 2 2),
                                 (10, .done 2 2 .ok), (10, .result 2 (.ok 2))] := by
  decide

/-- hypotheses of `reconnecting_while_failure_is_latest` / `disconnected_after_giving_up`: request 2 backs off while
request 3 (rejected error) and request 4 (still in flight) come and go — the state stays `Reconnecting`; after request 2
gave up it is `Disconnected`. -/
example :
    let ops := [Op.arrive 1 [⟨0, .ok⟩], .poll 1 [], .arrive 2 [⟨0, .err 1⟩, ⟨0, .err 1⟩, ⟨0, .err 1⟩], .poll 2 [],
                .arrive 3 [⟨0, .err 2⟩], .poll 3 [], .arrive 4 [⟨9, .ok⟩], .poll 4 [], .probe]
    (run cfgA ops).sh.log
        = [.call 1 0, .done 1 0 .ok, .result 1 (.ok 0), .call 2 1] ++ REv.done 2 1 (.err 1) ::
          [.call 3 2, .done 3 2 (.err 2), .result 3 (.service 2 2), .call 4 3, .probe .reconnecting]
      ∧ (∀ x ∈ [REv.call 3 2, .done 3 2 (.err 2), .result 3 (.service 2 2), .call 4 3, .probe .reconnecting],
            changesPub cfgA x = false)
      ∧ (run cfgA (ops ++ [.adv 10, .poll 2 [], .adv 10, .poll 2 [], .probe])).sh.log
        = [.call 1 0, .done 1 0 .ok, .result 1 (.ok 0), .call 2 1, .done 2 1 (.err 1), .call 3 2, .done 3 2 (.err 2),
           .result 3 (.service 2 2), .call 4 3, .probe .reconnecting, .call 2 4, .done 2 4 (.err 1), .call 2 5,
           .done 2 5 (.err 1)] ++ REv.result 2 (.maxAttempts 3 1 5) :: [.probe .disconnected] := by
  decide

/-- `unlimited_makes_progress`, `n = 4`: five `inner_call` lines at the same instant, then the success -/
example :
    let cfg := { cfgA with maxAttempts := none, policy := .fixed 0 }
    cfg.maxAttempts = none ∧ cfg.retry = true ∧ cfg.reconn 1 = true
      ∧ callsInT 7 (run cfg [.arrive 7 (List.replicate 4 ⟨0, .err 1⟩ ++ [⟨0, .ok⟩]), .poll 7 []]).sh.tlog = 5
      ∧ (0, REv.result 7 (.ok 4)) ∈ (run cfg [.arrive 7 (List.replicate 4 ⟨0, .err 1⟩ ++ [⟨0, .ok⟩]), .poll 7 []]).sh.tlog := by
  decide

end TR.Props.C16
