import TR.Lemmas.Fallback
import TR.Lemmas.FallbackDrop
import TR.Lemmas.FallbackStack
import TR.Lemmas.FallbackRun
import TR.Lemmas.FallbackRequest
import TR.Lemmas.FallbackCount
import TR.Lemmas.FallbackBuilder
/-!
# C17 — fallback never replaces a success and handles exactly the errors it should

Quantification. The theorems about the decision function (`afterInner`, `afterBackup`,
`resolve`) hold for every configuration `cfg : Cfg` — each of the six strategies, NO predicate or ANY
predicate function `IErr → Bool`, ANY static value, ANY value function (any sequence of responses by
invocation number), ANY `from_error`, `from_request_error` and transformation function (the user functions
are parameters of the model; the harness's fixed test functions are the instance `test`, `test_instance`) —
every request `(c, tag)`, every inner and backup result and
every state of the value-function counter. The theorems about runs hold in addition for every
list of operations of the poll-level machine: any number of requests, every order of arrivals,
polls, cancellations and clock advances, every scripted latency/outcome (ok, error of any kind,
panic, never) of the inner and of the backup service — and every point at which the caller drops
the service, its clones and the layer (`Op.dropsvc`; `svc.oneshot(req)` is the case "right after
the call was made"). The theorems about the caller's side (`FallbackError`'s accessors, `map`, `clone`)
hold for every result and every sequence of post-processing steps; those about a stack of two
fallback layers for every pair of configurations (upper strategy ≠ backup service where said so),
and, at run level, for every operation list of the lower instance.

Run-level theorems speak about the event log (the thing the correspondence check compares), about
positions in it where order matters (`completion_block_in_one_piece`, `value_fn_counter_exact`,
`callback_owner_in_log`, `result_exact_counted`), and about the operation list for what is an input and
emits no event: the request a caller hands in (`requestOf ops c`, `request_forwarded_unchanged`).

Which configuration is in force is itself a function of how the layer was built: the theorems about
the builder hold for every chain of setter calls (any number of strategy setters, each with any user
function, of `handle` calls with any predicate, of `name` calls, in any order) — the strategy setter
called last is in force with the function it was given, the predicate is that of the last `handle`
call or none, and neither slot depends on the setters of the other (`builder_strategy_last_wins`,
`builder_predicate_independent`, `builder_behaviour_is_last_strategy`, `builder_exception_overridden`).
-/
namespace TR.Props.C17
open TR TR.Fallback

/-! ## the decision function -/

/-- A successful inner response passes through unchanged and triggers nothing: no predicate
call, no strategy function, no backup call — whatever the strategy and predicate. -/
theorem success_passes_through (cfg : Cfg) (rq : Request) (n : Nat) (r : Resp) (rb : IRes) :
    afterInner cfg rq n (.ok r) = .finish [] (.ok r) ∧
    resolve cfg rq n (.ok r) rb = ([], false, .ok r) := by
  simp [afterInner, resolve]

/-- Without a predicate every error is handled. -/
theorem always_handled_without_predicate (cfg : Cfg) (e : IErr) (h : cfg.pred = none) :
    accepts cfg e = true := by
  simp [accepts, h]

/-- An inner error that the predicate accepts (every error, if there is none) gets exactly the
configured strategy; … -/
theorem handled_gets_strategy (cfg : Cfg) (rq : Request) (n : Nat) (e : IErr) (h : accepts cfg e = true) :
    afterInner cfg rq n (.err e) = applyStrategy cfg rq n e := by
  simp [afterInner, h]

/-- … one that the predicate rejects is returned unchanged (as `FallbackError::Inner` of the very
same error), the predicate having been consulted once and nothing else called. -/
theorem unhandled_unchanged (cfg : Cfg) (rq : Request) (n : Nat) (e : IErr) (rb : IRes)
    (h : accepts cfg e = false) :
    afterInner cfg rq n (.err e) = .finish [.predicate e false] (.inner e) ∧
    resolve cfg rq n (.err e) rb = ([.predicate e false], false, .inner e) := by
  have hp : predCalls cfg e = [.predicate e false] := by
    unfold predCalls accepts at *
    cases hh : cfg.pred with
    | none => simp [hh] at h
    | some m => simp [hh] at h ⊢; exact h
  simp [afterInner, resolve, h, hp]

/-- Applying a strategy is never the same as returning the error unchanged … -/
theorem strategy_differs_from_unchanged (cfg : Cfg) (rq : Request) (n : Nat) (e : IErr) :
    applyStrategy cfg rq n e ≠ .finish (predCalls cfg e) (.inner e) := by
  unfold applyStrategy
  cases cfg.strat <;> simp

/-- … hence: the strategy is triggered **exactly when** the predicate accepts the error. -/
theorem handled_iff_predicate (cfg : Cfg) (rq : Request) (n : Nat) (e : IErr) :
    afterInner cfg rq n (.err e) ≠ .finish (predCalls cfg e) (.inner e) ↔ accepts cfg e = true := by
  constructor
  · intro h
    cases hacc : accepts cfg e with
    | true => rfl
    | false => simp [afterInner, hacc] at h
  · intro h
    rw [handled_gets_strategy cfg rq n e h]
    exact strategy_differs_from_unchanged cfg rq n e

/-- The predicate, when configured, is consulted exactly once per inner error, first, with that
error; it is not consulted when none is configured. -/
theorem predicate_consulted_once (cfg : Cfg) (e : IErr) :
    predCalls cfg e = match cfg.pred with
      | none => []
      | some _ => [.predicate e (accepts cfg e)] := by
  unfold predCalls; cases cfg.pred <;> rfl

/-! ### one theorem per strategy: the exact result for that request and that error -/

/-- value: a clone of the configured value, whatever the request and the error. -/
theorem value_exact (cfg : Cfg) (rq : Request) (n : Nat) (e : IErr) (rb : IRes)
    (hs : cfg.strat = .value) (h : accepts cfg e = true) :
    resolve cfg rq n (.err e) rb = (predCalls cfg e, false, .ok cfg.value) := by
  simp [resolve, afterInner, h, applyStrategy, hs]

/-- value function: invoked exactly once, its (fresh) value is the response. -/
theorem value_fn_exact (cfg : Cfg) (rq : Request) (n : Nat) (e : IErr) (rb : IRes)
    (hs : cfg.strat = .valueFn) (h : accepts cfg e = true) :
    resolve cfg rq n (.err e) rb = (predCalls cfg e ++ [.valueFn n], false, .ok (cfg.valueFn n)) := by
  simp [resolve, afterInner, h, applyStrategy, hs]

/-- from error: the function is applied to exactly this error. -/
theorem from_error_exact (cfg : Cfg) (rq : Request) (n : Nat) (e : IErr) (rb : IRes)
    (hs : cfg.strat = .fromError) (h : accepts cfg e = true) :
    resolve cfg rq n (.err e) rb = (predCalls cfg e ++ [.fromError e], false, .ok (cfg.fromError e)) := by
  simp [resolve, afterInner, h, applyStrategy, hs]

/-- from request and error: the function is applied to exactly this request and this error. -/
theorem from_request_error_exact (cfg : Cfg) (rq : Request) (n : Nat) (e : IErr) (rb : IRes)
    (hs : cfg.strat = .fromReqErr) (h : accepts cfg e = true) :
    resolve cfg rq n (.err e) rb
      = (predCalls cfg e ++ [.fromReqErr rq e], false, .ok (cfg.fromReqErr rq e)) := by
  simp [resolve, afterInner, h, applyStrategy, hs]

/-- backup service, succeeding: the backup is called and its response is returned as it is. -/
theorem service_backup_ok (cfg : Cfg) (rq : Request) (n : Nat) (e : IErr) (r : Resp)
    (hs : cfg.strat = .service) (h : accepts cfg e = true) :
    resolve cfg rq n (.err e) (.ok r) = (predCalls cfg e, true, .ok r) := by
  simp [resolve, afterInner, h, applyStrategy, hs, afterBackup]

/-- backup service, failing: `FallbackFailed` carrying the backup's error (not the inner one,
and not dropped). -/
theorem service_backup_failing (cfg : Cfg) (rq : Request) (n : Nat) (e eb : IErr)
    (hs : cfg.strat = .service) (h : accepts cfg e = true) :
    resolve cfg rq n (.err e) (.err eb) = (predCalls cfg e, true, .failed eb) := by
  simp [resolve, afterInner, h, applyStrategy, hs, afterBackup]

/-- error transformation: still an error, `Inner` of the transformed error. -/
theorem exception_exact (cfg : Cfg) (rq : Request) (n : Nat) (e : IErr) (rb : IRes)
    (hs : cfg.strat = .exception) (h : accepts cfg e = true) :
    resolve cfg rq n (.err e) rb
      = (predCalls cfg e ++ [.exception e], false, .inner (cfg.exception e)) := by
  simp [resolve, afterInner, h, applyStrategy, hs]

/-- The backup service is called only for the backup strategy, only for an accepted error. -/
theorem backup_only_for_accepted_error (cfg : Cfg) (rq : Request) (n : Nat) (ri : IRes) (cbs : List Callback)
    (h : afterInner cfg rq n ri = .backup cbs) :
    ∃ e, ri = .err e ∧ accepts cfg e = true ∧ cfg.strat = .service :=
  let ⟨e, h1, h2, h3, _⟩ := afterInner_backup_is_error h
  ⟨e, h1, h2, h3⟩

/-! ## every run of the poll-level machine -/

/-- For every operation sequence and every request `c`, the events about `c` in the log are
exactly a stage of the canonical trace: nothing; the inner call; inner call + its completion
block + backup call; or a finished / cancelled trace (`Final`). Nothing else ever appears. -/
theorem trace_shape (cfg : Cfg) (ops : List Op) (c : Nat) : Shape cfg c (evsOf c (run cfg ops).log) :=
  shape_reachable cfg ops c

/-- The same, spelled out event by event (`Trace`): which inner result, which decision
(`afterInner … = .finish cbs o` / `.backup cbs`), which callbacks, which tail after a backup decision
(backup not ready / calling / dropped / panicked / finished with `afterBackup rb`). -/
theorem trace_explicit (cfg : Cfg) (ops : List Op) (c : Nat) : Trace cfg c (evsOf c (run cfg ops).log) :=
  trace_reachable cfg ops c

/-- In every run: a result delivered for request `c` is exactly what the decision function
specifies for **that** request (the one given to the inner call) and **that** inner result —
and, if the decision was to call the backup, for that backup result, the backup having been
called with the same request (or, the backup service having failed readiness, for that failure:
no backup call was made). The one result that is not the outcome of an inner call is a readiness
failure of the wrapped service: its error, unchanged, and nothing else about the request. -/
theorem result_exact (cfg : Cfg) (ops : List Op) (c : Nat) (o : Outcome)
    (h : FEv.result c o ∈ (run cfg ops).log) :
    (o = .inner readyErr ∧ evsOf c (run cfg ops).log = [.resp c (.inner readyErr), .result c (.inner readyErr)]) ∨
    ∃ rq n k out ri, FEv.innerCall c k rq ∈ (run cfg ops).log ∧ FEv.innerDone c k out ∈ (run cfg ops).log ∧
      svcResult rq k out = some ri ∧
      ((∃ cbs, afterInner cfg rq n ri = .finish cbs o) ∨
       (∃ cbs k2 out2 rb, afterInner cfg rq n ri = .backup cbs ∧
          FEv.backupCall c k2 rq ∈ (run cfg ops).log ∧ FEv.backupDone c k2 out2 ∈ (run cfg ops).log ∧
          svcResult rq k2 out2 = some rb ∧ o = afterBackup rb) ∨
       (∃ cbs, afterInner cfg rq n ri = .backup cbs ∧ o = afterBackup (.err readyErr) ∧
          ∀ k2 rq', FEv.backupCall c k2 rq' ∉ (run cfg ops).log)) := by
  have hm : FEv.result c o ∈ evsOf c (run cfg ops).log := mem_evsOf.mpr ⟨h, rfl⟩
  have sub : ∀ e, e ∈ evsOf c (run cfg ops).log → e ∈ (run cfg ops).log := fun e he => (mem_evsOf.mp he).1
  have nocall : ∀ k2 rq', FEv.backupCall c k2 rq' ∈ (run cfg ops).log → FEv.backupCall c k2 rq' ∈ evsOf c (run cfg ops).log :=
    fun k2 rq' hb => mem_evsOf.mpr ⟨hb, rfl⟩
  generalize hl : evsOf c (run cfg ops).log = l at hm sub nocall
  have hsh : Shape cfg c l := hl ▸ shape_reachable cfg ops c
  cases hsh with
  | none => simp at hm
  | calling rq k => simp at hm
  | backingUp rq n k out k2 hn hnx =>
      rcases completionInner_cases cfg c rq n k out with ⟨_, hc⟩ | ⟨ri, cbs, o', _, _, hc⟩ | ⟨ri, cbs, _, _, hc⟩
      · rw [hc] at hnx; simp at hnx
      · rw [hc] at hnx; simp at hnx
      · simp [traceToBackup, hc] at hm
  | final l hf =>
      cases hf with
      | unpolled => simp at hm
      | notReady => simp at hm
      | readyFailed =>
          simp at hm
          exact Or.inl ⟨hm, rfl⟩
      | backupNotReady rq n k out hn hnx =>
          rcases completionInner_cases cfg c rq n k out with ⟨_, hc⟩ | ⟨ri, cbs, o', _, _, hc⟩ | ⟨ri, cbs, hr, ha, hc⟩
          · rw [hc] at hnx; simp at hnx
          · rw [hc] at hnx; simp at hnx
          · simp [traceFin, hc, backupNotReady] at hm
            refine Or.inr ⟨rq, n, k, out, ri, sub _ (by simp [traceFin]), sub _ (by simp [traceFin, hc]), hr,
              Or.inr (Or.inr ⟨cbs, ha, hm, ?_⟩)⟩
            intro k2 rq' hb
            have := nocall k2 rq' hb
            simp [traceFin, hc, backupNotReady] at this
      | droppedInner rq k => simp at hm
      | finished rq n k out hn hfin =>
          rcases completionInner_cases cfg c rq n k out with ⟨_, hc⟩ | ⟨ri, cbs, o', hr, ha, hc⟩ | ⟨ri, cbs, _, _, hc⟩
          · simp [traceFin, hc] at hm
          · simp [traceFin, hc] at hm
            subst hm
            refine Or.inr ⟨rq, n, k, out, ri, sub _ (by simp [traceFin]), sub _ (by simp [traceFin, hc]), hr, Or.inl ⟨cbs, ha⟩⟩
          · rw [hc] at hfin; simp at hfin
      | droppedBackup rq n k out k2 hn hnx =>
          rcases completionInner_cases cfg c rq n k out with ⟨_, hc⟩ | ⟨ri, cbs, o', _, _, hc⟩ | ⟨ri, cbs, _, _, hc⟩
          · rw [hc] at hnx; simp at hnx
          · rw [hc] at hnx; simp at hnx
          · simp [traceToBackup, hc] at hm
      | finishedBackup rq n k out k2 out2 hn hn2 hnx =>
          rcases completionInner_cases cfg c rq n k out with ⟨_, hc⟩ | ⟨ri, cbs, o', _, _, hc⟩ | ⟨ri, cbs, hr, ha, hc⟩
          · rw [hc] at hnx; simp at hnx
          · rw [hc] at hnx; simp at hnx
          · rcases completionBackup_cases c rq k2 out2 with ⟨_, hb⟩ | ⟨rb, hrb, hb⟩
            · simp [traceToBackup, hc, hb] at hm
            · simp [traceToBackup, hc, hb] at hm
              refine Or.inr ⟨rq, n, k, out, ri, sub _ (by simp [traceToBackup]), sub _ (by simp [traceToBackup, hc]), hr,
                Or.inr (Or.inl ⟨cbs, k2, out2, rb, ha, sub _ (by simp [traceToBackup]), sub _ (by simp [traceToBackup, hb]), hrb, hm⟩)⟩

/-- In every run: once the inner call of request `c` has succeeded, the events about `c` are
exactly: the inner call, its completion, the response with the inner call's own payload, the
result — no predicate call, no strategy function, no backup call, and nothing afterwards. -/
theorem success_untouched (cfg : Cfg) (ops : List Op) (c k : Nat)
    (h : FEv.innerDone c k .ok ∈ (run cfg ops).log) :
    ∃ rq, evsOf c (run cfg ops).log =
      [.innerCall c k rq, .innerDone c k .ok, .resp c (.ok ⟨k, rq.c, rq.tag⟩), .result c (.ok ⟨k, rq.c, rq.tag⟩)] := by
  have hm : FEv.innerDone c k .ok ∈ evsOf c (run cfg ops).log := mem_evsOf.mpr ⟨h, rfl⟩
  generalize hl : evsOf c (run cfg ops).log = l at hm
  have hsh : Shape cfg c l := hl ▸ shape_reachable cfg ops c
  -- a completion block with `toBackup` cannot contain a successful `innerDone`
  have key : ∀ rq n k' out, (completionInner cfg c rq n k' out).2 = .toBackup →
      FEv.innerDone c k .ok ∉ (completionInner cfg c rq n k' out).1 := by
    intro rq n k' out hnx hmem
    rcases completionInner_cases cfg c rq n k' out with ⟨_, hc⟩ | ⟨ri, cbs, o', _, _, hc⟩ | ⟨ri, cbs, hr, ha, hc⟩
    · rw [hc] at hnx; simp at hnx
    · rw [hc] at hnx; simp at hnx
    · rw [hc] at hmem
      simp at hmem
      obtain ⟨e, hri, _, _, _⟩ := afterInner_backup_is_error ha
      subst hri
      have := (svcResult_err hr).1
      rw [← hmem.2] at this; cases this
  cases hsh with
  | none => simp at hm
  | calling rq k' => simp at hm
  | backingUp rq n k' out k2 hn hnx =>
      simp [traceToBackup] at hm
      exact absurd hm (key rq n k' out hnx)
  | final l hf =>
      cases hf with
      | unpolled => simp at hm
      | notReady => simp at hm
      | readyFailed => simp at hm
      | backupNotReady rq n k' out hn hnx =>
          simp [traceFin, backupNotReady] at hm
          exact absurd hm (key rq n k' out hnx)
      | droppedInner rq k' => simp at hm
      | finished rq n k' out hn hfin =>
          rcases completionInner_cases cfg c rq n k' out with ⟨hr, hc⟩ | ⟨ri, cbs, o', hr, ha, hc⟩ | ⟨ri, cbs, _, _, hc⟩
          · simp [traceFin, hc] at hm
            rw [← hm.2] at hr; simp [svcResult] at hr
          · simp [traceFin, hc] at hm
            obtain ⟨hk, hout⟩ := hm
            subst hk; subst hout
            simp [svcResult] at hr; subst hr
            simp [afterInner] at ha
            obtain ⟨h1, h2⟩ := ha
            subst h1; subst h2
            exact ⟨rq, by simp [traceFin, hc]⟩
          · rw [hc] at hfin; simp at hfin
      | droppedBackup rq n k' out k2 hn hnx =>
          simp [traceToBackup] at hm
          exact absurd hm (key rq n k' out hnx)
      | finishedBackup rq n k' out k2 out2 hn hn2 hnx =>
          simp [traceToBackup] at hm
          rcases hm with hm | hm
          · exact absurd hm (key rq n k' out hnx)
          · rcases completionBackup_cases c rq k2 out2 with ⟨_, hb⟩ | ⟨rb, _, hb⟩ <;> simp [hb] at hm

/-- In every run: the backup service is called for request `c` only under the backup strategy,
only after `c`'s inner call failed with an error the predicate accepts, and with the request
that was given to the inner call. -/
theorem backup_call_justified (cfg : Cfg) (ops : List Op) (c k2 : Nat) (rq : Request)
    (h : FEv.backupCall c k2 rq ∈ (run cfg ops).log) :
    cfg.strat = .service ∧ ∃ k kd, FEv.innerCall c k rq ∈ (run cfg ops).log ∧
      FEv.innerDone c k (.err kd) ∈ (run cfg ops).log ∧ accepts cfg ⟨kd, k⟩ = true := by
  have hm : FEv.backupCall c k2 rq ∈ evsOf c (run cfg ops).log := mem_evsOf.mpr ⟨h, rfl⟩
  have sub : ∀ e, e ∈ evsOf c (run cfg ops).log → e ∈ (run cfg ops).log := fun e he => (mem_evsOf.mp he).1
  generalize hl : evsOf c (run cfg ops).log = l at hm sub
  have hsh : Shape cfg c l := hl ▸ shape_reachable cfg ops c
  -- whenever the trace reaches the backup call, the justification is in the trace
  have key : ∀ rq' n k out k2' (tl : List FEv), (completionInner cfg c rq' n k out).2 = .toBackup →
      (∀ e, e ∈ traceToBackup cfg c rq' n k out k2' ++ tl → e ∈ (run cfg ops).log) →
      cfg.strat = .service ∧ ∃ k kd, FEv.innerCall c k rq' ∈ (run cfg ops).log ∧
        FEv.innerDone c k (.err kd) ∈ (run cfg ops).log ∧ accepts cfg ⟨kd, k⟩ = true := by
    intro rq' n k out k2' tl hnx hsub
    rcases completionInner_cases cfg c rq' n k out with ⟨_, hc⟩ | ⟨ri, cbs, o', _, _, hc⟩ | ⟨ri, cbs, hr, ha, hc⟩
    · rw [hc] at hnx; simp at hnx
    · rw [hc] at hnx; simp at hnx
    · obtain ⟨e, hri, hacc, hs, _⟩ := afterInner_backup_is_error ha
      subst hri
      obtain ⟨ho, hv⟩ := svcResult_err hr
      subst ho
      refine ⟨hs, k, e.kind, hsub _ (by simp [traceToBackup]), ?_, ?_⟩
      · apply hsub; simp [traceToBackup, hc]
      · have : (⟨e.kind, k⟩ : IErr) = e := by cases e; simp at hv; simp [hv]
        rw [this]; exact hacc
  cases hsh with
  | none => simp at hm
  | calling rq' k => simp at hm
  | backingUp rq' n k out k2' hn hnx =>
      have hrq : rq' = rq := by
        rcases completionInner_cases cfg c rq' n k out with ⟨_, hc⟩ | ⟨ri, cbs, o', _, _, hc⟩ | ⟨ri, cbs, _, _, hc⟩
        · rw [hc] at hnx; simp at hnx
        · rw [hc] at hnx; simp at hnx
        · simp [traceToBackup, hc] at hm; exact hm.2.symm
      subst hrq
      exact key rq' n k out k2' [] hnx (by simpa using sub)
  | final l hf =>
      cases hf with
      | unpolled => simp at hm
      | notReady => simp at hm
      | readyFailed => simp at hm
      | backupNotReady rq' n k out hn hnx =>
          rcases completionInner_cases cfg c rq' n k out with ⟨_, hc⟩ | ⟨ri, cbs, o', _, _, hc⟩ | ⟨ri, cbs, _, _, hc⟩
          · rw [hc] at hnx; simp at hnx
          · rw [hc] at hnx; simp at hnx
          · simp [traceFin, hc, backupNotReady] at hm
      | droppedInner rq' k => simp at hm
      | finished rq' n k out hn hfin =>
          rcases completionInner_cases cfg c rq' n k out with ⟨_, hc⟩ | ⟨ri, cbs, o', _, _, hc⟩ | ⟨ri, cbs, _, _, hc⟩
          · simp [traceFin, hc] at hm
          · simp [traceFin, hc] at hm
          · rw [hc] at hfin; simp at hfin
      | droppedBackup rq' n k out k2' hn hnx =>
          have hrq : rq' = rq := by
            rcases completionInner_cases cfg c rq' n k out with ⟨_, hc⟩ | ⟨ri, cbs, o', _, _, hc⟩ | ⟨ri, cbs, _, _, hc⟩
            · rw [hc] at hnx; simp at hnx
            · rw [hc] at hnx; simp at hnx
            · simp [traceToBackup, hc] at hm; exact hm.2.symm
          subst hrq
          exact key rq' n k out k2' _ hnx sub
      | finishedBackup rq' n k out k2' out2 hn hn2 hnx =>
          have hrq : rq' = rq := by
            rcases completionInner_cases cfg c rq' n k out with ⟨_, hc⟩ | ⟨ri, cbs, o', _, _, hc⟩ | ⟨ri, cbs, _, _, hc⟩
            · rw [hc] at hnx; simp at hnx
            · rw [hc] at hnx; simp at hnx
            · rcases completionBackup_cases c rq' k2' out2 with ⟨_, hb⟩ | ⟨rb, _, hb⟩ <;>
                (simp [traceToBackup, hc, hb] at hm; exact hm.2.symm)
          subst hrq
          exact key rq' n k out k2' _ hnx sub

/-! ## readiness: `poll_ready` forwards, and nothing else -/

/-- `Fallback::poll_ready` as a function of the wrapped service's answer: ready and pending are
forwarded, an error comes back as the pass-through variant of the very same error — for every
configuration (the function does not even take one: no predicate, no strategy, no backup). In
particular it is not what the error transformation would have made of it. -/
theorem poll_ready_forwards :
    pollReady .ready = some none ∧ pollReady .pending = none ∧
    pollReady .error = some (some (.inner readyErr)) ∧
    Outcome.inner readyErr ≠ .inner (strategyException readyErr) := by
  decide

/-- One arrival that meets a readiness error of the wrapped service, in any state, under any
configuration (each strategy, any predicate — accepting the error or not — or none): exactly the
response and the result with that error, unchanged, are logged; no predicate call, no strategy
function (the value-function counter stands), no inner call and no backup call (the serial
counter stands), the backup service's readiness is not consulted, and the request is finished. -/
theorem readiness_error_passed_through (cfg : Cfg) (s : State) (c tag : Nat) (plan : List Step)
    (hg : s.svcGone = false) (hk : known s c = false) (he : answer cfg.ready s.rdy = .error) :
    (stepS cfg s (.arrive c tag plan)).log = s.log ++ [.resp c (.inner readyErr), .result c (.inner readyErr)] ∧
    (stepS cfg s (.arrive c tag plan)).fnCalls = s.fnCalls ∧
    (stepS cfg s (.arrive c tag plan)).serial = s.serial ∧
    (stepS cfg s (.arrive c tag plan)).brdy = s.brdy ∧
    lookup (stepS cfg s (.arrive c tag plan)).phase c = some .done := by
  simp [stepS, hg, hk, arriveS, he, pollReady, arriveEvents, emit, setPhase, lookup]

/-- … and an arrival that finds the wrapped service ready or pending logs no result at all (pending:
the caller gives up, `notReady`); either way exactly one answer of the readiness script is used. -/
theorem arrival_consumes_one_answer (cfg : Cfg) (s : State) (c tag : Nat) (plan : List Step)
    (hg : s.svcGone = false) (hk : known s c = false) :
    (stepS cfg s (.arrive c tag plan)).rdy = s.rdy + 1 ∧
    (stepS cfg s (.arrive c tag plan)).brdy = s.brdy ∧
    (answer cfg.ready s.rdy = .ready → (stepS cfg s (.arrive c tag plan)).log = s.log) ∧
    (answer cfg.ready s.rdy = .pending → (stepS cfg s (.arrive c tag plan)).log = s.log ++ [.notReady c]) := by
  refine ⟨by simp [stepS, hg, hk, arriveS, emit, setPhase], by simp [stepS, hg, hk, arriveS, emit, setPhase], ?_, ?_⟩ <;>
    intro he <;> simp [stepS, hg, hk, arriveS, he, pollReady, arriveEvents, emit, setPhase]

/-- In every run: a predicate or strategy function is invoked for request `c` only after `c`'s inner
**call** has completed with an error. A readiness error is therefore never handled and never
transformed: it is not the outcome of any call. -/
theorem callbacks_only_after_call_error (cfg : Cfg) (ops : List Op) (c : Nat) (cb : Callback)
    (h : FEv.callback c cb ∈ (run cfg ops).log) :
    ∃ k kd, FEv.innerDone c k (.err kd) ∈ (run cfg ops).log := by
  have hm : FEv.callback c cb ∈ evsOf c (run cfg ops).log := mem_evsOf.mpr ⟨h, rfl⟩
  have sub : ∀ e, e ∈ evsOf c (run cfg ops).log → e ∈ (run cfg ops).log := fun e he => (mem_evsOf.mp he).1
  generalize hl : evsOf c (run cfg ops).log = l at hm sub
  have hsh : Shape cfg c l := hl ▸ shape_reachable cfg ops c
  -- a trace `innerCall :: completion block ++ tl` whose tail has no callback
  have key : ∀ rq n k out (tl : List FEv), FEv.callback c cb ∉ tl →
      FEv.callback c cb ∈ traceFin cfg c rq n k out ++ tl →
      (∀ e, e ∈ traceFin cfg c rq n k out ++ tl → e ∈ (run cfg ops).log) →
      ∃ k kd, FEv.innerDone c k (.err kd) ∈ (run cfg ops).log := by
    intro rq n k out tl htl hmem hsub
    have hin : FEv.callback c cb ∈ (completionInner cfg c rq n k out).1 := by
      simp only [traceFin, List.cons_append, List.mem_cons, List.mem_append] at hmem
      rcases hmem with hmem | hmem | hmem
      · cases hmem
      · exact hmem
      · exact absurd hmem htl
    obtain ⟨kd, hkd⟩ := callback_mem_completionInner hin
    refine ⟨k, kd, hsub _ ?_⟩
    rw [← hkd]
    simp only [traceFin, List.cons_append, List.mem_cons, List.mem_append]
    exact Or.inr (Or.inl (innerDone_mem_completionInner cfg c rq n k out))
  cases hsh with
  | none => simp at hm
  | calling rq k => simp at hm
  | backingUp rq n k out k2 hn hnx =>
      exact key rq n k out [.backupCall c k2 rq] (by simp) (by simpa [traceToBackup, traceFin] using hm)
        (by simpa [traceToBackup, traceFin] using sub)
  | final l hf =>
      cases hf with
      | unpolled => simp at hm
      | notReady => simp at hm
      | readyFailed => simp at hm
      | backupNotReady rq n k out hn hnx => exact key rq n k out _ (by simp [backupNotReady]) hm sub
      | droppedInner rq k => simp at hm
      | finished rq n k out hn hfin => exact key rq n k out [] (by simp) (by simpa using hm) (by simpa using sub)
      | droppedBackup rq n k out k2 hn hnx =>
          exact key rq n k out [.backupCall c k2 rq, .backupDrop c k2] (by simp)
            (by simpa [traceToBackup, traceFin] using hm) (by simpa [traceToBackup, traceFin] using sub)
      | finishedBackup rq n k out k2 out2 hn hn2 hnx =>
          exact key rq n k out (.backupCall c k2 rq :: completionBackup c rq k2 out2)
            (by simp [callback_not_mem_completionBackup])
            (by simpa [traceToBackup, traceFin] using hm) (by simpa [traceToBackup, traceFin] using sub)

/-- In every run: a result delivered for a request whose inner call was never made is the readiness
failure of the wrapped service, unchanged, and the two lines reporting it are all there is about
that request. -/
theorem readiness_failure_unchanged (cfg : Cfg) (ops : List Op) (c : Nat) (o : Outcome)
    (h : FEv.result c o ∈ (run cfg ops).log) (hno : ∀ k rq, FEv.innerCall c k rq ∉ (run cfg ops).log) :
    o = .inner readyErr ∧ evsOf c (run cfg ops).log = [.resp c (.inner readyErr), .result c (.inner readyErr)] := by
  rcases result_exact cfg ops c o h with hl | ⟨rq, n, k, out, ri, hcall, _⟩
  · exact hl
  · exact absurd hcall (hno k rq)

/-! ## the response future is self-contained: dropping the service handles changes no outcome -/

/-- Dropping every handle on the service (the `Fallback`, its clones, the layer) after `pre` has
exactly one effect: no further call can be made. Everything the calls made so far can observe or
produce — the log with every inner call, predicate/strategy/backup call, response and result, the
phases, the serial and value-function counters, the clock — is what it is in the run in which the
handles are never dropped and the later arrivals simply do not happen. -/
theorem dropsvc_only_stops_new_calls (cfg : Cfg) (pre post : List Op) :
    flagless (run cfg (pre ++ .dropsvc :: post)) = flagless (run cfg (pre ++ post.filter (fun op => !op.isArrive))) :=
  run_dropsvc cfg pre post

/-- The outcome of a call is independent of **when** the service handles are dropped: moving the
drop across any stretch `mid` of polls, cancellations, clock advances (anything but the making of
a new call) — from before the first poll of a request to after its completion, across the
completion of its inner call, across the backup call — leaves the whole log unchanged. -/
theorem log_independent_of_dropsvc_time (cfg : Cfg) (pre mid post : List Op) (hmid : ∀ op ∈ mid, op.isArrive = false) :
    (run cfg (pre ++ .dropsvc :: (mid ++ post))).log = (run cfg (pre ++ mid ++ .dropsvc :: post)).log := by
  have h1 := run_dropsvc cfg pre (mid ++ post)
  have h2 := run_dropsvc cfg (pre ++ mid) post
  rw [List.filter_append, filter_noArrive_id mid hmid, ← List.append_assoc] at h1
  rw [← flagless_log (run cfg (pre ++ .dropsvc :: (mid ++ post))), h1, ← h2, flagless_log]

/-- … and of **whether** they are dropped at all, as long as no new call is attempted afterwards. -/
theorem log_independent_of_dropsvc (cfg : Cfg) (pre post : List Op) (hpost : ∀ op ∈ post, op.isArrive = false) :
    (run cfg (pre ++ .dropsvc :: post)).log = (run cfg (pre ++ post)).log := by
  have h := run_dropsvc cfg pre post
  rw [filter_noArrive_id post hpost] at h
  rw [← flagless_log (run cfg (pre ++ .dropsvc :: post)), h, flagless_log]

/-- In particular the result delivered for a request, and every event about it, is the same
whether the handles were dropped before its inner call completed or are still alive. -/
theorem result_independent_of_dropsvc (cfg : Cfg) (pre post : List Op) (hpost : ∀ op ∈ post, op.isArrive = false)
    (c : Nat) (o : Outcome) :
    (FEv.result c o ∈ (run cfg (pre ++ .dropsvc :: post)).log ↔ FEv.result c o ∈ (run cfg (pre ++ post)).log) ∧
    evsOf c (run cfg (pre ++ .dropsvc :: post)).log = evsOf c (run cfg (pre ++ post)).log := by
  rw [log_independent_of_dropsvc cfg pre post hpost]
  exact ⟨Iff.rfl, rfl⟩

/-- A call attempted after the handles are gone does not exist: no event is ever about it. -/
theorem no_call_after_dropsvc (cfg : Cfg) (pre post : List Op) (c : Nat)
    (hc : known (run cfg pre) c = false) : evsOf c (run cfg (pre ++ .dropsvc :: post)).log = [] :=
  (unknown_after_dropsvc cfg pre post c (by simpa [known] using hc)).2

/-! ## the caller's side: `FallbackError`'s accessors, `map` and `clone` keep what the layer produced -/

/-- What each accessor must report for each error result: `is_inner` / `is_fallback_failed` tell the
two variants apart (exactly one holds), `inner()` and `into_inner()` give the payload whatever the
variant; a success carries no `FallbackError` to look at. -/
theorem accessors_exact (e : IErr) (r : Resp) :
    (Outcome.inner e).isInner = true ∧ (Outcome.inner e).isFailed = false ∧ (Outcome.inner e).payload = some e ∧
    (Outcome.failed e).isInner = false ∧ (Outcome.failed e).isFailed = true ∧ (Outcome.failed e).payload = some e ∧
    viewOf (.inner e) = [⟨true, false, e, e⟩] ∧ viewOf (.failed e) = [⟨false, true, e, e⟩] ∧ viewOf (.ok r) = [] := by
  simp [Outcome.isInner, Outcome.isFailed, Outcome.payload, viewOf]

/-- `FallbackError::map` (the `map_err(|e| e.map(AppErr::from))` glue): the variant the layer produced
stays — a failed backup stays `FallbackFailed`, a skipped or transformed error stays `Inner` — the
payload goes through the function, a success is untouched. -/
theorem map_keeps_variant (f : IErr → IErr) (o : Outcome) :
    (o.mapErr f).isInner = o.isInner ∧ (o.mapErr f).isFailed = o.isFailed ∧ (o.mapErr f).payload = o.payload.map f ∧
    (∀ e, o = .failed e → o.mapErr f = .failed (f e)) ∧ (∀ e, o = .inner e → o.mapErr f = .inner (f e)) ∧
    (∀ r, o = .ok r → o.mapErr f = .ok r) := by
  refine ⟨isInner_mapErr f o, isFailed_mapErr f o, payload_mapErr f o, ?_, ?_, ?_⟩ <;> intro x hx <;> subst hx <;> rfl

/-- A clone of the error is the error. -/
theorem clone_faithful (o : Outcome) : o.cloneErr = o := rfl

/-- Whatever the caller does with the result before looking at it (any sequence of clone / view / map
steps): what it finally holds is the layer's result with the payload converted once per `map` step —
same variant, a success untouched — … -/
theorem post_exact (steps : List PostStep) (o : Outcome) :
    (postRun steps o).2 = o.mapErr (iter appErr (mapCount steps)) ∧
    (postRun steps o).2.isInner = o.isInner ∧ (postRun steps o).2.isFailed = o.isFailed ∧
    (∀ r, o = .ok r → postRun steps o = ([], .ok r)) := by
  refine ⟨postRun_result steps o, ?_, ?_, ?_⟩
  · rw [postRun_result, isInner_mapErr]
  · rw [postRun_result, isFailed_mapErr]
  · intro r hr
    subst hr
    induction steps with
    | nil => rfl
    | cons st tl ih => cases st <;> simp [postRun, postStep, Outcome.cloneErr, Outcome.mapErr, viewOf, Outcome.payload, ih]

/-- … and every look it takes on the way shows the variant the layer produced, the same payload
through `inner()` and `into_inner()`, namely the layer's payload after the `map` steps made so far. -/
theorem post_views_exact (steps : List PostStep) (o : Outcome) (v : View) (h : v ∈ (postRun steps o).1) :
    v.isInner = o.isInner ∧ v.isFailed = o.isFailed ∧ v.ref = v.into ∧
      ∃ n, n ≤ mapCount steps ∧ o.payload.map (iter appErr n) = some v.ref :=
  mem_postRun_views steps o v h

/-- The "dropped backup error" case, as the caller sees it: backup strategy, the inner error accepted,
the backup fails with `eb` — after any post-processing the caller still holds `FallbackFailed`,
carrying the backup's error (converted once per `map` step), never `Inner`. -/
theorem failed_backup_survives_post (cfg : Cfg) (rq : Request) (n : Nat) (e eb : IErr) (steps : List PostStep)
    (hs : cfg.strat = .service) (h : accepts cfg e = true) :
    (postRun steps (resolve cfg rq n (.err e) (.err eb)).2.2).2 = .failed (iter appErr (mapCount steps) eb) ∧
    (postRun steps (resolve cfg rq n (.err e) (.err eb)).2.2).2.isFailed = true ∧
    ∀ v ∈ (postRun steps (resolve cfg rq n (.err e) (.err eb)).2.2).1, v.isFailed = true ∧ v.isInner = false := by
  have hr : (resolve cfg rq n (.err e) (.err eb)).2.2 = .failed eb := by
    rw [service_backup_failing cfg rq n e eb hs h]
  rw [hr]
  refine ⟨by rw [postRun_result]; rfl, by rw [postRun_result]; rfl, ?_⟩
  intro v hv
  obtain ⟨h1, h2, _⟩ := mem_postRun_views steps _ v hv
  exact ⟨h2, h1⟩

/-- A shortcut constructor (`FallbackLayer::value(v)` …) is the builder with that strategy and no
predicate: every error is handled, by that strategy. -/
theorem shortcut_always_handles (st : Strategy) (val : Nat) (rq : Request) (n : Nat) (e : IErr) :
    (shortcut st val).strat = st ∧ accepts (shortcut st val) e = true ∧
    afterInner (shortcut st val) rq n (.err e) = applyStrategy (shortcut st val) rq n e := by
  refine ⟨rfl, rfl, ?_⟩
  exact handled_gets_strategy _ rq n e rfl

/-! ## the builder: the strategy setter called last is in force, the predicate slot is independent -/

/-- Whatever was called before it (other strategy setters — `exception` included —, `handle`, `name`) and
whatever non-strategy setter is called after it: the strategy setter called last is the strategy in force,
with the function it was given; `build()` succeeds; the predicate is the one the `handle` calls of the
chain leave, as if the strategy setter were not there. -/
theorem builder_strategy_last_wins (base : Cfg) (pre post : List Setter) (f : StrategyFn)
    (hpost : ∀ st ∈ post, st.isStrategy = false) :
    buildChain base (pre ++ .strategy f :: post) = some (f.install { base with pred := lastHandle (pre ++ post) })
    ∧ (∀ cfg, buildChain base (pre ++ .strategy f :: post) = some cfg → cfg.strat = f.kind) := by
  have hs : (chainBuilder (pre ++ .strategy f :: post)).strategy = some f := by
    rw [(chainBuilder_slots _).1, lastStrategy_append]
    simp only [lastStrategy, lastStrategy_none_of_no_strategy post hpost]
  have hp : (chainBuilder (pre ++ .strategy f :: post)).pred = lastHandle (pre ++ post) := by
    rw [(chainBuilder_slots _).2, lastHandle_append, lastHandle_append]
    simp only [lastHandle]
  have hb : buildChain base (pre ++ .strategy f :: post) = some (f.install { base with pred := lastHandle (pre ++ post) }) := by
    simp only [buildChain, Builder.build, hs, hp, Option.map]
  refine ⟨hb, ?_⟩
  intro cfg hc
  rw [hb] at hc
  cases hc
  cases f <;> rfl

/-- `build()` panics exactly when no strategy setter was ever called. -/
theorem builder_needs_a_strategy (base : Cfg) (chain : List Setter) :
    buildChain base chain = none ↔ ∀ st ∈ chain, st.isStrategy = false := by
  constructor
  · intro h st hst
    cases hb : st.isStrategy with
    | false => rfl
    | true =>
      exfalso
      obtain ⟨pre, post, rfl⟩ := List.append_of_mem hst
      cases st with
      | strategy f =>
        have : lastStrategy (pre ++ .strategy f :: post) ≠ none := by
          rw [lastStrategy_append]; simp only [lastStrategy]
          cases lastStrategy post <;> simp
        simp only [buildChain, Builder.build, (chainBuilder_slots _).1] at h
        cases hl : lastStrategy (pre ++ .strategy f :: post) with
        | none => exact this hl
        | some g => rw [hl] at h; cases h
      | handle p => cases hb
      | name => cases hb
  · intro h
    simp only [buildChain, Builder.build, (chainBuilder_slots _).1, lastStrategy_none_of_no_strategy chain h, Option.map]

/-- The two slots are independent: a setter that is not `handle` (a strategy setter, `name`) leaves the
predicate what it would be without it, a setter that is not a strategy setter leaves the strategy what it
would be without it — wherever it stands in the chain; the predicate in force is that of the `handle`
call made last, and none (every error is handled) when `handle` was never called. -/
theorem builder_predicate_independent (pre post : List Setter) (st : Setter) :
    (st.isHandle = false → (chainBuilder (pre ++ st :: post)).pred = (chainBuilder (pre ++ post)).pred)
    ∧ (st.isStrategy = false → (chainBuilder (pre ++ st :: post)).strategy = (chainBuilder (pre ++ post)).strategy)
    ∧ (∀ p, st = .handle p → (∀ x ∈ post, x.isHandle = false) → (chainBuilder (pre ++ st :: post)).pred = some p)
    ∧ ((∀ x ∈ pre ++ st :: post, x.isHandle = false) → (chainBuilder (pre ++ st :: post)).pred = none) := by
  refine ⟨?_, ?_, ?_, ?_⟩
  · intro h
    rw [(chainBuilder_slots _).2, (chainBuilder_slots _).2, lastHandle_append, lastHandle_append]
    cases st with
    | handle p => cases h
    | strategy f => simp only [lastHandle]
    | name => simp only [lastHandle]
  · intro h
    rw [(chainBuilder_slots _).1, (chainBuilder_slots _).1, lastStrategy_append, lastStrategy_append]
    cases st with
    | strategy f => cases h
    | handle p => simp only [lastStrategy]
    | name => simp only [lastStrategy]
  · intro p hst hpost
    subst hst
    rw [(chainBuilder_slots _).2, lastHandle_append]
    simp only [lastHandle, lastHandle_none_of_no_handle post hpost]
  · intro h
    rw [(chainBuilder_slots _).2]
    exact lastHandle_none_of_no_handle _ h

/-- Under a strategy, only that strategy's own function is read: two configurations that differ in the
function fields of the OTHER strategies (what earlier setters may have left behind) behave alike. -/
theorem install_reads_own_function (f : StrategyFn) (base base' : Cfg) (hp : base.pred = base'.pred)
    (rq : Request) (n : Nat) (ri rb : IRes) :
    resolve (f.install base) rq n ri rb = resolve (f.install base') rq n ri rb := by
  cases base; cases base'
  simp only at hp
  subst hp
  cases f <;> cases ri <;> rfl

/-- The behaviour of a layer built by a chain is that of the layer built with its last strategy setter
and its last `handle` call alone (or no `handle` call): everything called earlier is without effect. -/
theorem builder_behaviour_is_last_strategy (base : Cfg) (pre post : List Setter) (f : StrategyFn)
    (hpost : ∀ st ∈ post, st.isStrategy = false) (cfg : Cfg)
    (hc : buildChain base (pre ++ .strategy f :: post) = some cfg) (rq : Request) (n : Nat) (ri rb : IRes) :
    resolve cfg rq n ri rb = resolve (f.install { base with pred := lastHandle (pre ++ post) }) rq n ri rb := by
  rw [(builder_strategy_last_wins base pre post f hpost).1] at hc
  cases hc
  rfl

/-- The seeded situation, for every chain: `exception(t)` somewhere, a value-producing strategy set
later and last — an accepted inner error gets that strategy's response, and the transformation `t` is not
invoked. (`value` here; the other strategies through `builder_behaviour_is_last_strategy` and their
`*_exact` theorem in the same way.) -/
theorem builder_exception_overridden (base : Cfg) (pre mid post : List Setter) (t : IErr → IErr) (v : Resp)
    (hpost : ∀ st ∈ post, st.isStrategy = false) (cfg : Cfg)
    (hc : buildChain base (pre ++ .strategy (.exception t) :: (mid ++ .strategy (.value v) :: post)) = some cfg)
    (rq : Request) (n : Nat) (e : IErr) (rb : IRes) (h : accepts cfg e = true) :
    (resolve cfg rq n (.err e) rb).2.2 = .ok v ∧ ∀ e', Callback.exception e' ∉ (resolve cfg rq n (.err e) rb).1 := by
  have hc' : buildChain base ((pre ++ .strategy (.exception t) :: mid) ++ .strategy (.value v) :: post) = some cfg := by
    simpa only [List.append_assoc, List.cons_append] using hc
  rw [(builder_strategy_last_wins base _ post (.value v) hpost).1] at hc'
  cases hc'
  rw [value_exact _ rq n e rb rfl h]
  refine ⟨rfl, ?_⟩
  intro e' hm
  simp only [predCalls] at hm
  split at hm <;> simp at hm

/-- the chains of the seeded demo with the harness's test functions: `exception` then `value(7)` — a handled
error gets the value; `name, exception, handle(kinds 1,2), from_request_error, name` — kind 1 gets the function of
request and error, kind 3 comes back unchanged; `value, handle(kind 1), exception` — the transformation;
`handle, name` alone: `build()` panics. -/
example :
    ((buildChain (test .value none 0) [.strategy (.exception strategyException), .strategy (.value (strategyValue 7))]).map
        fun cfg => resolve cfg ⟨1, 5⟩ 0 (.err ⟨1, 0⟩) (.ok ⟨0, 0, 0⟩))
      = some ([], false, .ok ⟨7, 0, 0⟩)
    ∧ ((buildChain (test .value none 0) [.name, .strategy (.exception strategyException), .handle (maskPred 6),
          .strategy (.fromReqErr strategyFromReqErr), .name]).map fun cfg =>
          (resolve cfg ⟨1, 5⟩ 0 (.err ⟨1, 0⟩) (.ok ⟨0, 0, 0⟩), resolve cfg ⟨1, 5⟩ 0 (.err ⟨3, 0⟩) (.ok ⟨0, 0, 0⟩)))
      = some (([.predicate ⟨1, 0⟩ true, .fromReqErr ⟨1, 5⟩ ⟨1, 0⟩], false, .ok ⟨0, 1, 501⟩),
              ([.predicate ⟨3, 0⟩ false], false, .inner ⟨3, 0⟩))
    ∧ ((buildChain (test .value none 0) [.strategy (.value (strategyValue 0)), .handle (maskPred 2),
          .strategy (.exception strategyException)]).map fun cfg => resolve cfg ⟨1, 5⟩ 0 (.err ⟨1, 4⟩) (.ok ⟨0, 0, 0⟩))
      = some ([.predicate ⟨1, 4⟩ true, .exception ⟨1, 4⟩], false, .inner ⟨11, 4⟩)
    ∧ ((buildChain (test .value none 0) [.handle (maskPred 2), .name]).map fun cfg => cfg.strat) = none := by
  decide

/-! ## two fallback layers stacked: the composition of two instances of the decision function -/

/-- The upper layer can tell every result of the lower layer from every other: the encoding under which
its functions see the lower layer's error (variant and payload) loses nothing. -/
theorem upper_sees_variant (o1 o2 : Outcome) (h : o1.asInner = o2.asInner) : o1 = o2 :=
  asInner_injective h

/-- The upper layer's decision **is** the decision function applied to the lower layer's result as
its inner result (for every upper strategy the harness builds: all but the backup service) — so every
theorem about `afterInner` above holds for the upper layer with "inner error" read as "the lower
layer's `FallbackError`". -/
theorem stack_is_composition (l u : Cfg) (hs : u.strat ≠ .service) (rq : Request) (nl nu : Nat) (ri rb : IRes) :
    afterInner u rq nu (resolve l rq nl ri rb).2.2.asInner
      = .finish (stackResolve l u rq nl nu ri rb).2.2.1 (stackResolve l u rq nl nu ri rb).2.2.2 ∧
    (stackResolve l u rq nl nu ri rb).1 = (resolve l rq nl ri rb).1 ∧
    (stackResolve l u rq nl nu ri rb).2.1 = (resolve l rq nl ri rb).2.1 :=
  ⟨upperFinish_spec hs rq nu _, rfl, rfl⟩

/-- A success of the inner service passes through both layers unchanged and triggers nothing in
either; so does a response the lower layer's fallback produced (it is a success for the upper layer). -/
theorem stack_success_passes_through (l u : Cfg) (rq : Request) (nl nu : Nat) (r : Resp) (rb : IRes) :
    stackResolve l u rq nl nu (.ok r) rb = ([], false, [], .ok r) ∧
    upperFinish u rq nu (.ok r) = ([], .ok r) := by
  refine ⟨?_, upperFinish_ok u rq nu r⟩
  simp [stackResolve, (success_passes_through l rq nl r rb).2, upperFinish_ok]

/-- An error result of the lower layer — `Inner(e)` or `FallbackFailed(e)` — triggers the upper layer's
strategy exactly when the upper predicate accepts **that** error (variant included), and is otherwise
passed on unchanged under the upper layer's pass-through variant. -/
theorem upper_handles_iff (u : Cfg) (hs : u.strat ≠ .service) (rq : Request) (n : Nat) (o : Outcome) (e' : IErr)
    (ho : o.asInner = .err e') :
    (accepts u e' = false → upperFinish u rq n o = ([.predicate e' false], .inner e')) ∧
    (accepts u e' = true → afterInner u rq n (.err e') = applyStrategy u rq n e' ∧
      applyStrategy u rq n e' = .finish (upperFinish u rq n o).1 (upperFinish u rq n o).2) := by
  have hsp := upperFinish_spec hs rq n o
  rw [ho] at hsp
  constructor
  · intro hacc
    have := (unhandled_unchanged u rq n e' (.ok ⟨0, 0, 0⟩) hacc).1
    rw [this] at hsp
    injection hsp with h1 h2
    exact Prod.ext h1.symm h2.symm
  · intro hacc
    have := handled_gets_strategy u rq n e' hacc
    exact ⟨this, by rw [← this]; exact hsp⟩

/-- The error transformation as the upper strategy: the transform is applied to exactly the lower
layer's error, variant included, and the result is `Inner` of what it returns. -/
theorem upper_exception_exact (u : Cfg) (hs : u.strat = .exception) (rq : Request) (n : Nat) (o : Outcome) (e' : IErr)
    (ho : o.asInner = .err e') (hacc : accepts u e' = true) :
    upperFinish u rq n o = (predCalls u e' ++ [.exception e'], .inner (u.exception e')) := by
  have hsp := upperFinish_spec (u := u) (by rw [hs]; decide) rq n o
  rw [ho] at hsp
  have := (exception_exact u rq n e' (.ok ⟨0, 0, 0⟩) hs hacc)
  simp only [resolve] at this
  rw [hsp] at this
  simp only [Prod.mk.injEq, true_and] at this
  exact Prod.ext this.1 this.2

/-- The composed statement for the stack "error shaping above, backup routing below": lower layer =
backup strategy, the inner error accepted, the backup fails with `eb`; upper layer = error
transformation (any function), its predicate (if any) accepting `FallbackFailed(eb)`. Then the backup was
called, the upper transform was handed `FallbackFailed(eb)` — not `Inner(eb)`, nor any other `Inner(..)` —
and the stack returns `Inner(transform(FallbackFailed(eb)))`; with the harness's transformation (kind + 10
on the encoded error) that differs from the transform of every `Inner(..)`. -/
theorem exception_over_failed_backup (l u : Cfg) (rq : Request) (nl nu : Nat) (e eb : IErr)
    (hl : l.strat = .service) (hal : accepts l e = true)
    (hu : u.strat = .exception) (hau : accepts u ⟨2 * eb.kind + 1, eb.v⟩ = true) :
    stackResolve l u rq nl nu (.err e) (.err eb)
      = (predCalls l e, true, predCalls u ⟨2 * eb.kind + 1, eb.v⟩ ++ [.exception ⟨2 * eb.kind + 1, eb.v⟩],
         .inner (u.exception ⟨2 * eb.kind + 1, eb.v⟩)) ∧
    (∀ e2 : IErr, Callback.exception ⟨2 * eb.kind + 1, eb.v⟩ ≠ .exception ⟨2 * e2.kind, e2.v⟩) ∧
    (u.exception = strategyException →
      ∀ e2 : IErr, Outcome.inner (u.exception ⟨2 * eb.kind + 1, eb.v⟩) ≠ .inner (u.exception ⟨2 * e2.kind, e2.v⟩)) := by
  refine ⟨?_, ?_, ?_⟩
  · have hr := service_backup_failing l rq nl e eb hl hal
    have hx := upper_exception_exact u hu rq nu (.failed eb) ⟨2 * eb.kind + 1, eb.v⟩ rfl hau
    simp only [stackResolve, hr, hx]
  · intro e2 h
    injection h with h
    injection h with h1 _
    omega
  · intro hx e2 h
    rw [hx] at h
    simp only [strategyException, Outcome.inner.injEq, IErr.mk.injEq] at h
    omega

/-- In every run of the lower instance, under every upper configuration: a result the caller of the
stack sees for request `c` is either a readiness failure forwarded by both `poll_ready`s, or the upper
instance's decision on a result `o` that the lower instance delivered for `c` — taken for the request
that was given to `c`'s inner call; and `o` is what `result_exact` says about the lower instance. -/
theorem stack_result_exact (l u : Cfg) (ops : List Op) (c : Nat) (o' : Outcome)
    (h : SEv.low (.result c o') ∈ stackLog u (run l ops).log) :
    ∃ o, FEv.result c o ∈ (run l ops).log ∧
      (o' = upperReady o ∨
       ∃ rq n k, FEv.innerCall c k rq ∈ (run l ops).log ∧ o' = (upperFinish u rq n o).2) := by
  obtain ⟨o, ho, hd⟩ := mem_liftLog_result (run l ops).log 0 [] h
  refine ⟨o, ho, ?_⟩
  rcases hd with hd | ⟨rq, n, hl, hd⟩
  · exact Or.inl hd
  · rcases hl with hl | ⟨k, hk⟩
    · simp [lookup] at hl
    · exact Or.inr ⟨rq, n, k, hk, hd⟩

/-- In every run: a user function of the upper layer (predicate, strategy function) is invoked for
request `c` only as part of its decision on an **error** result the lower instance delivered for `c`. -/
theorem upper_callbacks_only_for_lower_errors (l u : Cfg) (ops : List Op) (c : Nat) (cb : Callback)
    (h : SEv.up c cb ∈ stackLog u (run l ops).log) :
    ∃ o, FEv.result c o ∈ (run l ops).log ∧ (∀ r, o ≠ .ok r) ∧ ∃ rq n, cb ∈ (upperFinish u rq n o).1 := by
  obtain ⟨o, rq, n, ho, hcb⟩ := mem_liftLog_up (run l ops).log 0 [] h
  refine ⟨o, ho, ?_, rq, n, hcb⟩
  intro r hr
  subst hr
  rw [upperFinish_ok] at hcb
  simp at hcb

/-- In every run: once the inner call of request `c` has succeeded, the caller of the stack gets that
very response, and no user function of the upper layer is invoked for `c` (nor, by `success_untouched`,
any of the lower layer). -/
theorem stack_success_untouched (l u : Cfg) (ops : List Op) (c k : Nat)
    (h : FEv.innerDone c k .ok ∈ (run l ops).log) :
    ∃ rq : Request, (∀ o', SEv.low (.result c o') ∈ stackLog u (run l ops).log → o' = .ok ⟨k, rq.c, rq.tag⟩) ∧
      ∀ cb, SEv.up c cb ∉ stackLog u (run l ops).log := by
  obtain ⟨rq, hev⟩ := success_untouched l ops c k h
  have only : ∀ o, FEv.result c o ∈ (run l ops).log → o = .ok ⟨k, rq.c, rq.tag⟩ := by
    intro o ho
    have : FEv.result c o ∈ evsOf c (run l ops).log := mem_evsOf.mpr ⟨ho, rfl⟩
    rw [hev] at this
    simpa using this
  refine ⟨rq, ?_, ?_⟩
  · intro o' ho'
    obtain ⟨o, ho, hd⟩ := stack_result_exact l u ops c o' ho'
    rw [only o ho] at hd
    rcases hd with hd | ⟨rq', n, _, _, hd⟩
    · exact hd
    · rw [hd, upperFinish_ok]
  · intro cb hcb
    obtain ⟨o, ho, hne, _⟩ := upper_callbacks_only_for_lower_errors l u ops c cb hcb
    exact hne _ (only o ho)

/-! ## arbitrary user functions; the harness's test functions are one instance -/

/-- Every theorem of this file is about an arbitrary configuration `cfg : Cfg`: any handle predicate
`IErr → Bool` (or none), any static value, any value function (any sequence of responses), any
`from_error`, `from_request_error` and transformation function. The configuration the correspondence runs
are made with — `test strat handle val`, the functions the harness hands to the real builder — is the
instance: predicate = bit `kind` of the mask, value `(val,0,0)`, value function `(val+n,0,1)`, … -/
theorem test_instance (st : Strategy) (h : Option Nat) (val : Nat) (rq : Request) (n : Nat) (e : IErr) :
    (test st h val).strat = st ∧ (test st h val).value = ⟨val, 0, 0⟩ ∧ (test st h val).valueFn n = ⟨val + n, 0, 1⟩ ∧
    (test st h val).fromError e = ⟨e.v, 0, e.kind⟩ ∧ (test st h val).fromReqErr rq e = ⟨e.v, rq.c, rq.tag * 100 + e.kind⟩ ∧
    (test st h val).exception e = ⟨e.kind + 10, e.v⟩ ∧
    accepts (test st h val) e = (match h with | none => true | some m => m.testBit e.kind) ∧
    ((test st h val).pred = none ↔ h = none) := by
  cases h <;> simp [test, accepts, maskPred, strategyValue, strategyValueFn, strategyFromError, strategyFromReqErr,
    strategyException]

/-- The user functions the layer invokes on an inner error: the predicate, once, if one is configured;
then — **only if** the error is accepted — the one function of the strategy (none for a static value and
for the backup service), with exactly this request, this error and the current invocation number. -/
theorem user_functions_invoked (cfg : Cfg) (rq : Request) (n : Nat) (e : IErr) (rb : IRes) :
    (resolve cfg rq n (.err e) rb).1
      = predCalls cfg e ++ (if accepts cfg e then (strategyCall cfg rq n e).toList else []) := by
  have := afterInner_err_cbs cfg rq n e
  unfold resolve
  cases h : afterInner cfg rq n (.err e) <;> rw [h] at this <;> simpa [Act.cbs] using this

/-- With arbitrary functions a handled error can come back looking unhandled in exactly one way: the
strategy is the error transformation and the transformation maps this error to itself (the decision and the
callbacks still differ: `strategy_differs_from_unchanged`). Every other strategy yields a response or
`FallbackFailed`. -/
theorem handled_outcome_unchanged_iff (cfg : Cfg) (rq : Request) (n : Nat) (e : IErr) (rb : IRes)
    (h : accepts cfg e = true) :
    (resolve cfg rq n (.err e) rb).2.2 = .inner e ↔ cfg.strat = .exception ∧ cfg.exception e = e := by
  simp only [resolve, afterInner, h, if_true, applyStrategy]
  cases cfg.strat <;> simp
  cases rb <;> simp [afterBackup]

/-- an accepted error under an identity transformation: handled (the transformation is invoked), yet the
outcome is the error it came with -/
example :
    let cfg : Cfg := { test .exception (some 2) 0 with exception := fun e => e }
    accepts cfg ⟨1, 3⟩ = true ∧
    resolve cfg ⟨4, 14⟩ 0 (.err ⟨1, 3⟩) (.ok ⟨9, 9, 9⟩) = ([.predicate ⟨1, 3⟩ true, .exception ⟨1, 3⟩], false, .inner ⟨1, 3⟩) := by
  decide

/-! ## "for that request": the request the layer works with is the one the caller handed in -/

/-- In every run: the request given to the inner call of caller `c`, the request given to its backup
call and the request handed to the `from_request_error` function are all the request `c` handed to the
layer — `(c, tag)` of `c`'s `arrive` (`requestOf ops c`: the arrival is an input of the run, it emits no
event). The layer never swaps, re-tags or mixes up requests, in any interleaving of any callers. -/
theorem request_forwarded_unchanged (cfg : Cfg) (ops : List Op) (c k : Nat) (rq : Request)
    (h : FEv.innerCall c k rq ∈ (run cfg ops).log ∨ FEv.backupCall c k rq ∈ (run cfg ops).log ∨
         ∃ e, FEv.callback c (.fromReqErr rq e) ∈ (run cfg ops).log) :
    rq.c = c ∧ requestOf ops c = some rq.tag := by
  have hr := rinv_reachable cfg ops
  rcases h with h | h | ⟨e, h⟩
  · exact hr.log _ h rq rfl
  · exact hr.log _ h rq rfl
  · exact hr.log _ h rq rfl

/-- The same in hypothesis form: if every `arrive c` of the operation list carries `tag`, the inner call of
`c` is made with `(c, tag)`. -/
theorem request_is_the_arrivals (cfg : Cfg) (ops : List Op) (c tag k : Nat) (rq : Request)
    (hall : ∀ t plan, Op.arrive c t plan ∈ ops → t = tag) (h : FEv.innerCall c k rq ∈ (run cfg ops).log) :
    rq = ⟨c, tag⟩ := by
  obtain ⟨h1, h2⟩ := request_forwarded_unchanged cfg ops c k rq (Or.inl h)
  have := requestOf_of_all hall h2
  cases rq; simp only at h1 this; simp [h1, this]

example :
    let ops := [Op.arrive 1 11 [⟨0, .err 1⟩, ⟨0, .ok⟩], .arrive 2 12 [⟨0, .ok⟩], .arrive 1 99 [⟨0, .ok⟩], .poll 2, .poll 1]
    requestOf ops 1 = some 11 ∧ FEv.backupCall 1 2 ⟨1, 11⟩ ∈ (run (test .service none 0) ops).log ∧
    FEv.innerCall 2 0 ⟨2, 12⟩ ∈ (run (test .service none 0) ops).log := by
  decide

example : ∀ t plan, Op.arrive 2 t plan ∈
    [Op.arrive 1 11 [⟨0, .err 1⟩, ⟨0, .ok⟩], .arrive 2 12 [⟨0, .ok⟩], .arrive 1 99 [⟨0, .ok⟩], .poll 2, .poll 1] → t = 12 := by
  intro t plan h
  simp at h
  exact h.1

/-- `success_untouched`, for that request: once the inner call of `c` has succeeded, the events about `c`
are the inner call **with the request `c` handed in**, its completion, and the response carrying that
request's payload — nothing else. -/
theorem success_untouched_for_that_request (cfg : Cfg) (ops : List Op) (c k : Nat)
    (h : FEv.innerDone c k .ok ∈ (run cfg ops).log) :
    ∃ tag, requestOf ops c = some tag ∧ evsOf c (run cfg ops).log =
      [.innerCall c k ⟨c, tag⟩, .innerDone c k .ok, .resp c (.ok ⟨k, c, tag⟩), .result c (.ok ⟨k, c, tag⟩)] := by
  obtain ⟨rq, hev⟩ := success_untouched cfg ops c k h
  have hc : FEv.innerCall c k rq ∈ (run cfg ops).log := (mem_evsOf.mp (by rw [hev]; simp)).1
  obtain ⟨h1, h2⟩ := request_forwarded_unchanged cfg ops c k rq (Or.inl hc)
  refine ⟨rq.tag, h2, ?_⟩
  rw [hev]; cases rq; simp only at h1; subst h1; rfl

/-! ## which copy of the request goes where (request types with an observable `Clone`)

`Sub` = a request with its generation (bumped by `clone()`); `handOut` = what `Fallback::call` does with the request it
is given (lib.rs:279-285); `FEv.sight g e` = the request value event `e` hands to user code when caller `c` submitted
generation `g c`. The property text fixes the primary side ("for that request", a success "passes through unchanged":
the wrapped service works on the request the caller submitted, not on a copy of it); the strategy side (exactly one copy
further) is the reading of lib.rs:279. -/

/-- what `Fallback::call` hands out: the request itself to the inner call, ONE copy of it to the strategies; the copy
is the same request (`c`, `tag`), one generation further — a different value -/
theorem handOut_exact (r : Sub) :
    (handOut r).primary = r ∧ (handOut r).strategy = r.clone ∧ (handOut r).strategy.rq = r.rq ∧
    (handOut r).strategy.gen = r.gen + 1 ∧ (handOut r).primary ≠ (handOut r).strategy := by
  refine ⟨rfl, rfl, rfl, rfl, ?_⟩
  intro h
  have : r.gen = r.gen + 1 := congrArg Sub.gen h
  omega

/-- the seeded clause: handing the copy to the inner call and the original to the strategies is a different hand-out,
for every request — on both sides -/
theorem swapped_handOut_differs (r : Sub) :
    (⟨(handOut r).strategy, (handOut r).primary⟩ : Handed) ≠ handOut r ∧
    (handOut r).strategy ≠ r ∧ (handOut r).primary ≠ r.clone := by
  have h := (handOut_exact r).2.2.2.2
  refine ⟨?_, ?_, ?_⟩
  · intro e
    exact h (congrArg Handed.strategy e)
  · intro e
    exact h (by rw [(handOut_exact r).1]; exact e.symm)
  · intro e
    exact h (by rw [e]; rfl)

/-- a stack hands the request down unchanged: what the lower instance is submitted by the upper one is the request
the caller submitted, so both instances hand out the same two values -/
theorem stack_hands_down_the_original (r : Sub) : handOut (handOut r).primary = handOut r := rfl

/-- In every run, with every assignment of submitted generations: the inner call of caller `c` is handed exactly the
request `c` submitted — `(c, tag)` of its `arrive` AND the generation it submitted, not a copy. -/
theorem inner_gets_submitted_request (cfg : Cfg) (ops : List Op) (g : Nat → Nat) (c k : Nat) (rq : Request)
    (h : FEv.innerCall c k rq ∈ (run cfg ops).log) :
    ∃ tag, requestOf ops c = some tag ∧
      (FEv.innerCall c k rq).sight g = some ⟨.inner, c, ⟨⟨c, tag⟩, g c⟩⟩ := by
  obtain ⟨h1, h2⟩ := request_forwarded_unchanged cfg ops c k rq (Or.inl h)
  refine ⟨rq.tag, h2, ?_⟩
  cases rq; simp only at h1; subst h1; rfl

/-- In every run: the backup call and the `from_request_error` function of caller `c` are handed the copy of the
request `c` submitted — the same `(c, tag)`, one generation further; never the submitted value itself. -/
theorem strategy_gets_the_copy (cfg : Cfg) (ops : List Op) (g : Nat → Nat) (c : Nat) (ev : FEv)
    (hev : ev ∈ (run cfg ops).log)
    (hk : (∃ k rq, ev = .backupCall c k rq) ∨ (∃ rq e, ev = .callback c (.fromReqErr rq e))) :
    ∃ tag who, requestOf ops c = some tag ∧ who ≠ Who.inner ∧
      ev.sight g = some ⟨who, c, (⟨⟨c, tag⟩, g c⟩ : Sub).clone⟩ ∧
      ev.sight g ≠ some ⟨who, c, ⟨⟨c, tag⟩, g c⟩⟩ := by
  rcases hk with ⟨k, rq, rfl⟩ | ⟨rq, e, rfl⟩
  · obtain ⟨h1, h2⟩ := request_forwarded_unchanged cfg ops c k rq (Or.inr (Or.inl hev))
    refine ⟨rq.tag, .backup, h2, by decide, ?_, ?_⟩
    · cases rq; simp only at h1; subst h1; rfl
    · cases rq; simp only at h1; subst h1
      simp [FEv.sight, handOut, Sub.clone]
  · obtain ⟨h1, h2⟩ := request_forwarded_unchanged cfg ops c 0 rq (Or.inr (Or.inr ⟨e, hev⟩))
    refine ⟨rq.tag, .fromReqErr, h2, by decide, ?_, ?_⟩
    · cases rq; simp only at h1; subst h1; rfl
    · cases rq; simp only at h1; subst h1
      simp [FEv.sight, handOut, Sub.clone]

/-- Every request value handed to user code in a run is accounted for: it is the request its caller submitted
(generation included) if it goes to the inner call, and that request's one copy otherwise. -/
theorem every_sight_justified (cfg : Cfg) (ops : List Op) (g : Nat → Nat) (ev : FEv) (s : Sight)
    (hev : ev ∈ (run cfg ops).log) (hs : ev.sight g = some s) :
    ∃ tag, requestOf ops s.c = some tag ∧ s.got.rq = ⟨s.c, tag⟩ ∧
      s.got.gen = (if s.who = .inner then g s.c else g s.c + 1) := by
  cases ev with
  | innerCall c k rq =>
      obtain ⟨tag, h2, h3⟩ := inner_gets_submitted_request cfg ops g c k rq hev
      rw [h3] at hs; cases hs; exact ⟨tag, h2, rfl, rfl⟩
  | backupCall c k rq =>
      obtain ⟨tag, who, h2, _, h3, _⟩ := strategy_gets_the_copy cfg ops g c _ hev (Or.inl ⟨k, rq, rfl⟩)
      have hw : who = .backup := by
        simp only [FEv.sight] at h3; cases h3; rfl
      subst hw
      rw [h3] at hs; cases hs; exact ⟨tag, h2, rfl, rfl⟩
  | callback c cb =>
      cases cb with
      | fromReqErr rq e =>
          obtain ⟨tag, who, h2, _, h3, _⟩ := strategy_gets_the_copy cfg ops g c _ hev (Or.inr ⟨rq, e, rfl⟩)
          have hw : who = .fromReqErr := by
            simp only [FEv.sight] at h3; cases h3; rfl
          subst hw
          rw [h3] at hs; cases hs; exact ⟨tag, h2, rfl, rfl⟩
      | _ => simp [FEv.sight] at hs
  | _ => simp [FEv.sight] at hs

/-- the seeded demo: a request submitted as an original (generation 0) under `from_request_error` with a failing
inner call, and one submitted as a copy (generation 3) under the backup service -/
example :
    let g : Nat → Nat := fun c => if c = 2 then 3 else 0
    ((run (test .fromReqErr none 0) [.arrive 1 5 [⟨0, .err 1⟩], .poll 1]).log.filterMap (FEv.sight g) =
      [⟨.inner, 1, ⟨⟨1, 5⟩, 0⟩⟩, ⟨.fromReqErr, 1, ⟨⟨1, 5⟩, 1⟩⟩]) ∧
    ((run (test .service none 0) [.arrive 2 7 [⟨0, .err 1⟩, ⟨0, .ok⟩], .poll 2]).log.filterMap (FEv.sight g) =
      [⟨.inner, 2, ⟨⟨2, 7⟩, 3⟩⟩, ⟨.backup, 2, ⟨⟨2, 7⟩, 4⟩⟩]) := by
  decide

/-! ## rejected errors and user functions, at run level -/

/-- The mirror of `success_untouched` for an error the predicate **rejects**: in every run, once the inner
call of `c` has failed with an error the predicate does not accept, the events about `c` are exactly: the
inner call (with the request `c` handed in), its completion, the one predicate call (answer: no), the
response and the result with **that very error** under the pass-through variant — no strategy function, no
backup call, nothing afterwards. -/
theorem rejected_untouched (cfg : Cfg) (ops : List Op) (c k kd : Nat)
    (h : FEv.innerDone c k (.err kd) ∈ (run cfg ops).log) (hrej : accepts cfg ⟨kd, k⟩ = false) :
    ∃ tag, requestOf ops c = some tag ∧ evsOf c (run cfg ops).log =
      [.innerCall c k ⟨c, tag⟩, .innerDone c k (.err kd), .callback c (.predicate ⟨kd, k⟩ false),
       .resp c (.inner ⟨kd, k⟩), .result c (.inner ⟨kd, k⟩)] := by
  have hm : FEv.innerDone c k (.err kd) ∈ evsOf c (run cfg ops).log := mem_evsOf.mpr ⟨h, rfl⟩
  have key : ∃ rq, evsOf c (run cfg ops).log =
      [.innerCall c k rq, .innerDone c k (.err kd), .callback c (.predicate ⟨kd, k⟩ false),
       .resp c (.inner ⟨kd, k⟩), .result c (.inner ⟨kd, k⟩)] := by
    generalize hl : evsOf c (run cfg ops).log = l at hm
    have ht : Trace cfg c l := hl ▸ trace_reachable cfg ops c
    cases ht with
    | none => simp at hm
    | calling rq k' => simp at hm
    | notReady => simp at hm
    | readyFailed => simp at hm
    | droppedInner rq k' => simp at hm
    | panicked rq k' out hn hr =>
        simp at hm
        obtain ⟨hk, ho⟩ := hm
        subst hk; subst ho
        simp [svcResult] at hr
    | finished rq n k' out ri cbs o hn hr ha =>
        simp at hm
        obtain ⟨hk, ho⟩ := hm
        subst hk; subst ho
        simp only [svcResult, Option.some.injEq] at hr
        subst hr
        rw [afterInner_rejected hrej] at ha
        injection ha with h1 h2
        subst h1; subst h2
        exact ⟨rq, rfl⟩
    | backup rq n k' out ri cbs tail hn hr ha htl =>
        simp at hm
        rcases hm with ⟨hk, ho⟩ | hm
        · subst hk; subst ho
          simp only [svcResult, Option.some.injEq] at hr
          subst hr
          rw [afterInner_rejected hrej] at ha
          cases ha
        · exact absurd hm (innerDone_not_mem_tail htl c k (.err kd))
  obtain ⟨rq, hev⟩ := key
  have hc : FEv.innerCall c k rq ∈ (run cfg ops).log := (mem_evsOf.mp (by rw [hev]; simp)).1
  obtain ⟨h1, h2⟩ := request_forwarded_unchanged cfg ops c k rq (Or.inl hc)
  refine ⟨rq.tag, h2, ?_⟩
  rw [hev]; cases rq; simp only at h1; subst h1; rfl

example :
    let cfg := test .fromReqErr (some 2) 0
    let ops := [Op.arrive 3 13 [⟨0, .err 2⟩], .poll 3]
    FEv.innerDone 3 0 (.err 2) ∈ (run cfg ops).log ∧ accepts cfg ⟨2, 0⟩ = false := by
  decide

/-- In every run: **every** invocation of a user function for request `c` — not only the backup call — is
justified: `c`'s inner call (made with the request `c` handed in) completed with an error, and the function
is the predicate called on that error, or — the predicate (if any) **having accepted that error** — the one
function of the configured strategy, called with exactly that request and that error. -/
theorem callback_justified (cfg : Cfg) (ops : List Op) (c : Nat) (cb : Callback)
    (h : FEv.callback c cb ∈ (run cfg ops).log) :
    ∃ tag n k kd, requestOf ops c = some tag ∧ FEv.innerCall c k ⟨c, tag⟩ ∈ (run cfg ops).log ∧
      FEv.innerDone c k (.err kd) ∈ (run cfg ops).log ∧
      ((cb = .predicate ⟨kd, k⟩ (accepts cfg ⟨kd, k⟩) ∧ cfg.pred ≠ none) ∨
       (accepts cfg ⟨kd, k⟩ = true ∧ strategyCall cfg ⟨c, tag⟩ n ⟨kd, k⟩ = some cb)) := by
  have hm : FEv.callback c cb ∈ evsOf c (run cfg ops).log := mem_evsOf.mpr ⟨h, rfl⟩
  obtain ⟨rq, n, k, out, ri, hcall, hdone, hr, hcb⟩ := callback_mem_trace (trace_reachable cfg ops c) hm
  obtain ⟨e, hri, hd⟩ := mem_afterInner_cbs hcb
  subst hri
  obtain ⟨ho, hv⟩ := svcResult_err hr
  subst ho
  have he : (⟨e.kind, k⟩ : IErr) = e := by cases e; simp only at hv; simp [hv]
  obtain ⟨h1, h2⟩ := request_forwarded_unchanged cfg ops c k rq (Or.inl (mem_evsOf.mp hcall).1)
  have hrq : rq = ⟨c, rq.tag⟩ := by cases rq; simp only at h1; subst h1; rfl
  refine ⟨rq.tag, n, k, e.kind, h2, hrq ▸ (mem_evsOf.mp hcall).1, (mem_evsOf.mp hdone).1, ?_⟩
  rw [he, ← hrq]
  exact hd

/-- In particular: a **strategy** function (value function, `from_error`, `from_request_error`,
transformation) runs for `c` only if the predicate accepted the error `c`'s inner call failed with. -/
theorem strategy_callback_only_if_accepted (cfg : Cfg) (ops : List Op) (c : Nat) (cb : Callback)
    (h : FEv.callback c cb ∈ (run cfg ops).log) (hnp : cb.isPredicate = false) :
    ∃ k kd, FEv.innerDone c k (.err kd) ∈ (run cfg ops).log ∧ accepts cfg ⟨kd, k⟩ = true := by
  obtain ⟨tag, n, k, kd, _, _, hdone, hd⟩ := callback_justified cfg ops c cb h
  rcases hd with ⟨hp, _⟩ | ⟨hacc, _⟩
  · subst hp; simp [Callback.isPredicate] at hnp
  · exact ⟨k, kd, hdone, hacc⟩

example :
    let cfg := test .fromReqErr (some 2) 0
    let ops := [Op.arrive 3 13 [⟨0, .err 1⟩], .poll 3]
    FEv.callback 3 (.fromReqErr ⟨3, 13⟩ ⟨1, 0⟩) ∈ (run cfg ops).log ∧
    (Callback.fromReqErr ⟨3, 13⟩ ⟨1, 0⟩).isPredicate = false := by
  decide

/-! ## the value-function counter and the place of a completion block, read off the log -/

/-- The ghost counter of the model is a function of the log: the number of `value_fn` callbacks logged. -/
theorem fnCalls_is_count (cfg : Cfg) (ops : List Op) :
    (run cfg ops).fnCalls = (run cfg ops).log.countP isValueFn :=
  (acct_reachable cfg ops).count

/-- In every run: the invocation number the value function is called with is its position among the
`value_fn` callbacks of the whole log — wherever `callback c (valueFn n)` stands, exactly `n` invocations of
the value function (for any request) stand before it. -/
theorem value_fn_counter_exact (cfg : Cfg) (ops : List Op) (pre post : List FEv) (c n : Nat)
    (h : (run cfg ops).log = pre ++ .callback c (.valueFn n) :: post) : n = pre.countP isValueFn :=
  value_fn_counter_of_grown (acct_reachable cfg ops).grown pre post c n h

/-- In every run, wherever `innerDone c k out` stands in the log (of all requests): before it the only
event about `c` is its inner call, and the WHOLE completion block — the predicate / strategy callbacks and
the response, computed with the number of `value_fn` callbacks before this point — follows it
immediately: one poll, no event of any other request in between. -/
theorem completion_block_in_one_piece (cfg : Cfg) (ops : List Op) (pre post : List FEv) (c k : Nat) (out : Out)
    (h : (run cfg ops).log = pre ++ .innerDone c k out :: post) :
    ∃ rq, evsOf c pre = [.innerCall c k rq] ∧
      (completionInner cfg c rq (pre.countP isValueFn) k out).1 <+: .innerDone c k out :: post :=
  blocks_of_grown (acct_reachable cfg ops).grown pre post c k out h

/-- The request a `callback` event belongs to (a ghost of the model: the implementation's log line does
not name it) can be read off the log: wherever a callback for `c` stands, the closest event before it that
is not a callback is `innerDone` **of `c`**, and all callbacks in between are `c`'s. -/
theorem callback_owner_in_log (cfg : Cfg) (ops : List Op) (pre post : List FEv) (c : Nat) (cb : Callback)
    (h : (run cfg ops).log = pre ++ .callback c cb :: post) :
    ∃ pre' k out, ∃ cbs1 : List Callback, pre = pre' ++ .innerDone c k out :: cbs1.map (.callback c) :=
  callback_owner_of_grown (acct_reachable cfg ops).grown pre post c cb h

example :
    let cfg := test .valueFn none 700
    let ops := [Op.arrive 1 11 [⟨0, .err 1⟩], .arrive 2 12 [⟨0, .err 1⟩], .poll 2, .poll 1]
    (run cfg ops).log = [.innerCall 2 0 ⟨2, 12⟩, .innerDone 2 0 (.err 1)] ++ .callback 2 (.valueFn 0) ::
      [.resp 2 (.ok ⟨700, 0, 1⟩), .result 2 (.ok ⟨700, 0, 1⟩), .innerCall 1 1 ⟨1, 11⟩, .innerDone 1 1 (.err 1),
       .callback 1 (.valueFn 1), .resp 1 (.ok ⟨701, 0, 1⟩), .result 1 (.ok ⟨701, 0, 1⟩)] ∧
    (run cfg ops).log = [.innerCall 2 0 ⟨2, 12⟩, .innerDone 2 0 (.err 1), .callback 2 (.valueFn 0),
       .resp 2 (.ok ⟨700, 0, 1⟩), .result 2 (.ok ⟨700, 0, 1⟩), .innerCall 1 1 ⟨1, 11⟩] ++ .innerDone 1 1 (.err 1) ::
      [.callback 1 (.valueFn 1), .resp 1 (.ok ⟨701, 0, 1⟩), .result 1 (.ok ⟨701, 0, 1⟩)] ∧
    (run cfg ops).fnCalls = 2 := by
  decide

/-- `result_exact` with nothing left open: in every run a result delivered for `c` is the readiness
failure of the wrapped service, or the log splits at `c`'s `innerDone` — before it `c` has only its inner
call, made with the request `(c, tag)` that `c` handed in — and the result is what the decision function
specifies for **that request**, **that inner result** and the value-function counter = **the number of
`value_fn` callbacks logged before that `innerDone`**; if the decision was to call the backup: for the
backup's result, the backup call (with the same request) and its completion standing after the `innerDone`,
or for the backup's readiness failure, no backup call having been made. -/
theorem result_exact_counted (cfg : Cfg) (ops : List Op) (c : Nat) (o : Outcome)
    (h : FEv.result c o ∈ (run cfg ops).log) :
    (o = .inner readyErr ∧ evsOf c (run cfg ops).log = [.resp c (.inner readyErr), .result c (.inner readyErr)]) ∨
    ∃ tag k out ri pre post, requestOf ops c = some tag ∧
      (run cfg ops).log = pre ++ .innerDone c k out :: post ∧ evsOf c pre = [.innerCall c k ⟨c, tag⟩] ∧
      svcResult ⟨c, tag⟩ k out = some ri ∧
      ((∃ cbs, afterInner cfg ⟨c, tag⟩ (pre.countP isValueFn) ri = .finish cbs o) ∨
       (∃ cbs k2 out2 rb, afterInner cfg ⟨c, tag⟩ (pre.countP isValueFn) ri = .backup cbs ∧
          FEv.backupCall c k2 ⟨c, tag⟩ ∈ post ∧ FEv.backupDone c k2 out2 ∈ post ∧
          svcResult ⟨c, tag⟩ k2 out2 = some rb ∧ o = afterBackup rb) ∨
       (∃ cbs, afterInner cfg ⟨c, tag⟩ (pre.countP isValueFn) ri = .backup cbs ∧ o = afterBackup (.err readyErr) ∧
          ∀ k2 rq', FEv.backupCall c k2 rq' ∉ (run cfg ops).log)) := by
  have hm : FEv.result c o ∈ evsOf c (run cfg ops).log := mem_evsOf.mpr ⟨h, rfl⟩
  rcases result_mem_trace (trace_reachable cfg ops c) hm with hl | ⟨rq, n, k, out, ri, tail, hn, hr, hl, hd⟩
  · exact Or.inl hl
  · right
    obtain ⟨pre, post', hlog, hpre, htail, hB⟩ := block_counter_pinned cfg ops hl
    obtain ⟨rest, hhead, _⟩ := completionInner_head cfg c rq n k out
    have hcall : FEv.innerCall c k rq ∈ (run cfg ops).log := (mem_evsOf.mp (by rw [hl]; simp [traceFin])).1
    obtain ⟨h1, h2⟩ := request_forwarded_unchanged cfg ops c k rq (Or.inl hcall)
    have hrq : rq = ⟨c, rq.tag⟩ := by cases rq; simp only at h1; subst h1; rfl
    have hn' := afterInner_eq_of_block_eq hr hB
    have hpost : ∀ e, e ∈ tail → e ∈ rest ++ post' := by
      intro e he
      rw [htail] at he
      exact List.mem_append_right _ (mem_evsOf.mp he).1
    refine ⟨rq.tag, k, out, ri, pre, rest ++ post', h2, by rw [hlog, hhead]; simp, hrq ▸ hpre, hrq ▸ hr, ?_⟩
    rw [← hrq, ← hn']
    rcases hd with ⟨cbs, ha, _⟩ | ⟨cbs, k2, out2, rb, ha, _, hr2, ho, ht⟩ | ⟨cbs, ha, ho, ht⟩
    · exact Or.inl ⟨cbs, ha⟩
    · exact Or.inr (Or.inl ⟨cbs, k2, out2, rb, ha, hpost _ (by rw [ht]; simp), hpost _ (by rw [ht]; simp), hr2, ho⟩)
    · refine Or.inr (Or.inr ⟨cbs, ha, ho, ?_⟩)
      intro k2 rq' hb
      have : FEv.backupCall c k2 rq' ∈ evsOf c (run cfg ops).log := mem_evsOf.mpr ⟨hb, rfl⟩
      rw [hl, ht] at this
      simp only [traceFin, List.cons_append, List.mem_cons, reduceCtorEq, false_or, List.mem_append, List.mem_nil_iff,
        or_false] at this
      rcases completionInner_cases cfg c rq n k out with ⟨_, hc⟩ | ⟨ri', cbs', o', _, _, hc⟩ | ⟨ri', cbs', _, _, hc⟩ <;>
        rw [hc] at this <;> simp at this

/-- In every run the inner call of a request completes at most once, and at most one result is ever
delivered for a request (one `result` event about it in the whole log). -/
theorem at_most_one_completion_and_result (cfg : Cfg) (ops : List Op) (c : Nat) :
    (∀ k k' o o', FEv.innerDone c k o ∈ (run cfg ops).log → FEv.innerDone c k' o' ∈ (run cfg ops).log → k = k' ∧ o = o') ∧
    (∀ o o', FEv.result c o ∈ (run cfg ops).log → FEv.result c o' ∈ (run cfg ops).log → o = o') ∧
    (run cfg ops).log.countP (isResultOf c) ≤ 1 := by
  have ht := trace_reachable cfg ops c
  refine ⟨?_, ?_, ?_⟩
  · intro k k' o o' h1 h2
    exact trace_innerDone_unique ht (mem_evsOf.mpr ⟨h1, rfl⟩) (mem_evsOf.mpr ⟨h2, rfl⟩)
  · intro o o' h1 h2
    exact trace_result_unique ht (mem_evsOf.mpr ⟨h1, rfl⟩) (mem_evsOf.mpr ⟨h2, rfl⟩)
  · rw [countP_isResultOf]; exact trace_one_result ht

/-- The property's oracle, as a theorem about every run: the result delivered for `c` is the value of the
pure reference function `resolve` of (configuration, the request `c` handed in, the number of `value_fn`
callbacks logged before `c`'s inner call completed, the inner result, the backup result) — and when that
function says the backup is called, the backup call (with that request) and its completion stand in the log
after the `innerDone`, or the backup service failed readiness and no backup call was made. -/
theorem result_is_reference_function (cfg : Cfg) (ops : List Op) (c : Nat) (o : Outcome)
    (h : FEv.result c o ∈ (run cfg ops).log) :
    (o = .inner readyErr ∧ evsOf c (run cfg ops).log = [.resp c (.inner readyErr), .result c (.inner readyErr)]) ∨
    ∃ tag k out ri rb pre post, requestOf ops c = some tag ∧
      (run cfg ops).log = pre ++ .innerDone c k out :: post ∧ evsOf c pre = [.innerCall c k ⟨c, tag⟩] ∧
      svcResult ⟨c, tag⟩ k out = some ri ∧
      o = (resolve cfg ⟨c, tag⟩ (pre.countP isValueFn) ri rb).2.2 ∧
      ((resolve cfg ⟨c, tag⟩ (pre.countP isValueFn) ri rb).2.1 = true →
        (∃ k2 out2, FEv.backupCall c k2 ⟨c, tag⟩ ∈ post ∧ FEv.backupDone c k2 out2 ∈ post ∧
           svcResult ⟨c, tag⟩ k2 out2 = some rb) ∨
        (rb = .err readyErr ∧ ∀ k2 rq', FEv.backupCall c k2 rq' ∉ (run cfg ops).log)) := by
  rcases result_exact_counted cfg ops c o h with hl | ⟨tag, k, out, ri, pre, post, hreq, hlog, hpre, hr, hd⟩
  · exact Or.inl hl
  · right
    rcases hd with ⟨cbs, ha⟩ | ⟨cbs, k2, out2, rb, ha, hb1, hb2, hr2, ho⟩ | ⟨cbs, ha, ho, hno⟩
    · exact ⟨tag, k, out, ri, .ok ⟨0, 0, 0⟩, pre, post, hreq, hlog, hpre, hr, by simp [resolve, ha], by simp [resolve, ha]⟩
    · exact ⟨tag, k, out, ri, rb, pre, post, hreq, hlog, hpre, hr, by simp [resolve, ha, ho],
        fun _ => Or.inl ⟨k2, out2, hb1, hb2, hr2⟩⟩
    · exact ⟨tag, k, out, ri, .err readyErr, pre, post, hreq, hlog, hpre, hr, by simp [resolve, ha, ho],
        fun _ => Or.inr ⟨rfl, hno⟩⟩

/-! ## the caller's log: every delivered result through the caller's post-processing -/

/-- What the line-protocol machine prints is `callerLog` of the log (of the stack, if there is one). In
every run, for every assignment of post-processing steps to callers: a `result` line of the caller's log is
`postRun` of a result the layer delivered for that caller — the same variant, the payload converted once per
`map` step, a success untouched — and every delivered result appears so; … -/
theorem caller_result_is_post_run (cfg : Cfg) (ops : List Op) (posts : List (Nat × List PostStep)) (c : Nat) (o' : Outcome) :
    CEv.ev (.low (.result c o')) ∈ callerLog posts ((run cfg ops).log.map .low) ↔
      ∃ o, FEv.result c o ∈ (run cfg ops).log ∧ o' = (postRun (stepsOf posts c) o).2 ∧
        o' = o.mapErr (iter appErr (mapCount (stepsOf posts c))) ∧ o'.isInner = o.isInner ∧ o'.isFailed = o.isFailed := by
  rw [mem_callerLog_result]
  constructor
  · rintro ⟨o, ho, rfl⟩
    simp only [List.mem_map, SEv.low.injEq, exists_eq_right] at ho
    exact ⟨o, ho, rfl, (post_exact _ o).1, (post_exact _ o).2.1, (post_exact _ o).2.2.1⟩
  · rintro ⟨o, ho, rfl, _⟩
    exact ⟨o, by simpa using ho, rfl⟩

/-- … a `view` line is one of the looks `postRun` takes at a result delivered for that caller: it shows the
variant the layer produced; … -/
theorem caller_view_is_post_run (cfg : Cfg) (ops : List Op) (posts : List (Nat × List PostStep)) (c : Nat) (v : View)
    (h : CEv.view c v ∈ callerLog posts ((run cfg ops).log.map .low)) :
    ∃ o, FEv.resp c o ∈ (run cfg ops).log ∧ v ∈ (postRun (stepsOf posts c) o).1 ∧
      v.isInner = o.isInner ∧ v.isFailed = o.isFailed ∧ v.ref = v.into := by
  obtain ⟨o, ho, hv⟩ := mem_callerLog_view.mp h
  simp only [List.mem_map, SEv.low.injEq, exists_eq_right] at ho
  obtain ⟨h1, h2, h3, _⟩ := post_views_exact _ o v hv
  exact ⟨o, ho, hv, h1, h2, h3⟩

/-- … and the same over a stack: the caller's `result` line is `postRun` of the upper layer's result. -/
theorem caller_result_is_post_run_stack (l u : Cfg) (ops : List Op) (posts : List (Nat × List PostStep)) (c : Nat) (o' : Outcome) :
    CEv.ev (.low (.result c o')) ∈ callerLog posts (stackLog u (run l ops).log) ↔
      ∃ o, SEv.low (.result c o) ∈ stackLog u (run l ops).log ∧ o' = (postRun (stepsOf posts c) o).2 :=
  mem_callerLog_result

example :
    callerLog [(1, [.map, .view])] ((run (test .service none 0) [Op.arrive 1 11 [⟨0, .err 1⟩, ⟨0, .err 3⟩], .poll 1]).log.map .low)
      = [.ev (.low (.innerCall 1 0 ⟨1, 11⟩)), .ev (.low (.innerDone 1 0 (.err 1))), .ev (.low (.backupCall 1 1 ⟨1, 11⟩)),
         .ev (.low (.backupDone 1 1 (.err 3))), .view 1 ⟨false, true, ⟨103, 1⟩, ⟨103, 1⟩⟩,
         .ev (.low (.resp 1 (.failed ⟨103, 1⟩))), .ev (.low (.result 1 (.failed ⟨103, 1⟩)))] := by
  decide

/-- In every run of the lower instance, under every upper configuration: the invocation number the UPPER
layer's value function is called with is its position among the upper `value_fn` callbacks of the stack's
log (the counter of `stack_result_exact`, read off the log). -/
theorem stack_value_fn_counter_exact (l u : Cfg) (ops : List Op) (pre post : List SEv) (c m : Nat)
    (h : stackLog u (run l ops).log = pre ++ .up c (.valueFn m) :: post) : m = pre.countP isUpValueFn := by
  have := liftLog_valueFn_counter u (run l ops).log 0 [] pre post c m h
  simpa using this

example :
    stackLog (test .valueFn none 50) (run (test .exception none 0)
        [.arrive 1 11 [⟨0, .err 1⟩], .arrive 2 12 [⟨0, .err 2⟩], .poll 2, .poll 1]).log
      = [.low (.innerCall 2 0 ⟨2, 12⟩), .low (.innerDone 2 0 (.err 2)), .low (.callback 2 (.exception ⟨2, 0⟩)),
         .up 2 (.valueFn 0), .low (.resp 2 (.ok ⟨50, 0, 1⟩)), .low (.result 2 (.ok ⟨50, 0, 1⟩)),
         .low (.innerCall 1 1 ⟨1, 11⟩), .low (.innerDone 1 1 (.err 1)), .low (.callback 1 (.exception ⟨1, 1⟩))] ++
        .up 1 (.valueFn 1) :: [.low (.resp 1 (.ok ⟨51, 0, 1⟩)), .low (.result 1 (.ok ⟨51, 0, 1⟩))] := by
  decide

/-! ## non-vacuity -/

/-- The grid is inhabited in every corner: with predicate "kind 1 only" the backup strategy
handles `err1` (backup fails with kind 3 ⇒ `FallbackFailed` of the backup's error) and returns
`err2` unchanged, and a success is untouched. -/
example :
    let cfg : Cfg := test .service (some 2) 700
    resolve cfg ⟨4, 14⟩ 0 (.err ⟨1, 3⟩) (.err ⟨3, 4⟩) = ([.predicate ⟨1, 3⟩ true], true, .failed ⟨3, 4⟩) ∧
    resolve cfg ⟨3, 13⟩ 0 (.err ⟨2, 2⟩) (.ok ⟨9, 9, 9⟩) = ([.predicate ⟨2, 2⟩ false], false, .inner ⟨2, 2⟩) ∧
    resolve cfg ⟨1, 11⟩ 0 (.ok ⟨0, 1, 11⟩) (.ok ⟨9, 9, 9⟩) = ([], false, .ok ⟨0, 1, 11⟩) := by
  decide

/-- The theorems are about arbitrary user functions; a configuration that is NOT the harness's: a predicate
on the payload (even `v` only), a value function with an irregular sequence of responses, `from_error` /
`from_request_error` / transformation functions of their own. Accepted errors (`v` even) get the strategy's
function applied to exactly this request and error, a rejected one (`v` odd) comes back unchanged. -/
example :
    let cfg (st : Strategy) : Cfg :=
      { strat := st, pred := some (fun e => e.v % 2 == 0), value := ⟨1, 2, 3⟩,
        valueFn := fun n => ⟨n * n, 7, 7⟩, fromError := fun e => ⟨e.kind * e.v, 5, 5⟩,
        fromReqErr := fun rq e => ⟨rq.tag + e.v, rq.c, e.kind⟩, exception := fun e => ⟨e.v, e.kind⟩ }
    resolve (cfg .valueFn) ⟨4, 14⟩ 3 (.err ⟨1, 6⟩) (.ok ⟨9, 9, 9⟩) = ([.predicate ⟨1, 6⟩ true, .valueFn 3], false, .ok ⟨9, 7, 7⟩) ∧
    resolve (cfg .fromError) ⟨4, 14⟩ 3 (.err ⟨2, 6⟩) (.ok ⟨9, 9, 9⟩) = ([.predicate ⟨2, 6⟩ true, .fromError ⟨2, 6⟩], false, .ok ⟨12, 5, 5⟩) ∧
    resolve (cfg .fromReqErr) ⟨4, 14⟩ 3 (.err ⟨2, 6⟩) (.ok ⟨9, 9, 9⟩)
      = ([.predicate ⟨2, 6⟩ true, .fromReqErr ⟨4, 14⟩ ⟨2, 6⟩], false, .ok ⟨20, 4, 2⟩) ∧
    resolve (cfg .exception) ⟨4, 14⟩ 3 (.err ⟨2, 6⟩) (.ok ⟨9, 9, 9⟩) = ([.predicate ⟨2, 6⟩ true, .exception ⟨2, 6⟩], false, .inner ⟨6, 2⟩) ∧
    resolve (cfg .fromReqErr) ⟨4, 14⟩ 3 (.err ⟨2, 7⟩) (.ok ⟨9, 9, 9⟩) = ([.predicate ⟨2, 7⟩ false], false, .inner ⟨2, 7⟩) ∧
    FEv.result 3 (.ok ⟨1, 7, 7⟩) ∈ (run (cfg .valueFn)
      [.arrive 1 11 [⟨0, .err 5⟩], .arrive 2 12 [⟨0, .ok⟩], .arrive 3 13 [⟨0, .err 5⟩], .poll 1, .poll 2, .poll 3]).log := by
  decide

/-- The per-strategy theorems of the test instance: value function, `from_error`, `from_request_error`. -/
example :
    resolve (test .valueFn (some 2) 700) ⟨4, 14⟩ 5 (.err ⟨1, 3⟩) (.ok ⟨9, 9, 9⟩) = ([.predicate ⟨1, 3⟩ true, .valueFn 5], false, .ok ⟨705, 0, 1⟩) ∧
    resolve (test .fromError none 700) ⟨4, 14⟩ 5 (.err ⟨1, 3⟩) (.ok ⟨9, 9, 9⟩) = ([.fromError ⟨1, 3⟩], false, .ok ⟨3, 0, 1⟩) ∧
    resolve (test .fromReqErr (some 2) 700) ⟨4, 14⟩ 5 (.err ⟨1, 3⟩) (.ok ⟨9, 9, 9⟩)
      = ([.predicate ⟨1, 3⟩ true, .fromReqErr ⟨4, 14⟩ ⟨1, 3⟩], false, .ok ⟨3, 4, 1401⟩) ∧
    accepts (test .valueFn (some 2) 700) ⟨1, 3⟩ = true ∧ accepts (test .fromError none 700) ⟨1, 3⟩ = true := by
  decide

/-- A concrete run in which all branches occur: request 1 succeeds, request 2's error is
replaced by the backup's response after 5+3 ms, request 3's error is rejected by the predicate,
request 4 is cancelled while the backup call is in flight. -/
example :
    let cfg : Cfg := test .service (some 2) 700
    let ops := [Op.arrive 1 11 [⟨0, .ok⟩], .arrive 2 12 [⟨5, .err 1⟩, ⟨3, .ok⟩], .arrive 3 13 [⟨0, .err 2⟩],
                .arrive 4 14 [⟨0, .err 1⟩, ⟨9, .ok⟩], .poll 1, .poll 2, .poll 3, .poll 4, .adv 5, .poll 2, .adv 3,
                .poll 2, .drop 4]
    evsOf 2 (run cfg ops).log =
      [.innerCall 2 1 ⟨2, 12⟩, .innerDone 2 1 (.err 1), .callback 2 (.predicate ⟨1, 1⟩ true),
       .backupCall 2 5 ⟨2, 12⟩, .backupDone 2 5 .ok, .resp 2 (.ok ⟨5, 2, 12⟩), .result 2 (.ok ⟨5, 2, 12⟩)] ∧
    FEv.innerDone 1 0 .ok ∈ (run cfg ops).log ∧ requestOf ops 1 = some 11 ∧
    FEv.result 1 (.ok ⟨0, 1, 11⟩) ∈ (run cfg ops).log ∧
    FEv.result 3 (.inner ⟨2, 2⟩) ∈ (run cfg ops).log ∧
    FEv.backupDrop 4 4 ∈ (run cfg ops).log := by
  decide

/-- The handles are dropped in every phase — before request 1 was polled, while the inner call of
request 2 and the backup call of request 3 are pending, after request 4 completed: each request
gets exactly what the strategy specifies, … -/
example :
    let cfg : Cfg := test .service (some 2) 700
    let ops := [Op.arrive 1 11 [⟨0, .err 1⟩, ⟨0, .ok⟩], .arrive 2 12 [⟨5, .err 1⟩, ⟨0, .err 3⟩],
                .arrive 3 13 [⟨0, .err 1⟩, ⟨5, .ok⟩], .arrive 4 14 [⟨0, .err 2⟩], .poll 2, .poll 3, .poll 4,
                .dropsvc, .poll 1, .adv 5, .poll 2, .poll 3]
    FEv.result 1 (.ok ⟨5, 1, 11⟩) ∈ (run cfg ops).log ∧
    FEv.result 2 (.failed ⟨3, 6⟩) ∈ (run cfg ops).log ∧
    FEv.result 3 (.ok ⟨2, 3, 13⟩) ∈ (run cfg ops).log ∧
    FEv.result 4 (.inner ⟨2, 3⟩) ∈ (run cfg ops).log := by
  decide

/-- … and a request attempted after the drop never exists (it does when the handles are kept). -/
example :
    let cfg : Cfg := test .value none 700
    evsOf 2 (run cfg [.arrive 1 11 [⟨0, .err 1⟩], .dropsvc, .arrive 2 12 [⟨0, .ok⟩], .poll 1, .poll 2]).log = [] ∧
    FEv.result 1 (.ok ⟨700, 0, 0⟩) ∈ (run cfg [.arrive 1 11 [⟨0, .err 1⟩], .dropsvc, .arrive 2 12 [⟨0, .ok⟩], .poll 1, .poll 2]).log ∧
    FEv.result 2 (.ok ⟨1, 2, 12⟩) ∈ (run cfg [.arrive 1 11 [⟨0, .err 1⟩], .arrive 2 12 [⟨0, .ok⟩], .poll 1, .poll 2]).log := by
  decide

/-- Readiness under the error transformation with a predicate that accepts kind 9: request 1 meets a
readiness error of the wrapped service — returned unchanged, nothing called; request 2 finds it
pending and gives up; request 3 is called and its **call** fails with the same kind 9 — that one is
handled (predicate, transformation). -/
example :
    let cfg : Cfg := test .exception (some 512) 0 (ready := [.error, .pending])
    let ops := [Op.arrive 1 11 [⟨0, .ok⟩], .arrive 2 12 [⟨0, .ok⟩], .arrive 3 13 [⟨0, .err 9⟩], .poll 1, .poll 2, .poll 3]
    (run cfg ops).log =
      [.resp 1 (.inner ⟨9, 0⟩), .result 1 (.inner ⟨9, 0⟩), .notReady 2,
       .innerCall 3 0 ⟨3, 13⟩, .innerDone 3 0 (.err 9), .callback 3 (.predicate ⟨9, 0⟩ true),
       .callback 3 (.exception ⟨9, 0⟩), .resp 3 (.inner ⟨19, 0⟩), .result 3 (.inner ⟨19, 0⟩)] := by
  decide

/-- Readiness of the backup service (pending, error, then ready): request 1's backup is pending once,
then fails readiness — `FallbackFailed` of that error, no backup call; request 2's backup is called.
Arrivals do not touch the backup's script. -/
example :
    let cfg : Cfg := test .service none 0 (bready := [.pending, .error])
    let ops := [Op.arrive 1 11 [⟨0, .err 1⟩, ⟨0, .ok⟩], .arrive 2 12 [⟨0, .err 1⟩, ⟨0, .ok⟩], .poll 1, .poll 2]
    (run cfg ops).log =
      [.innerCall 1 0 ⟨1, 11⟩, .innerDone 1 0 (.err 1), .resp 1 (.failed ⟨9, 0⟩), .result 1 (.failed ⟨9, 0⟩),
       .innerCall 2 1 ⟨2, 12⟩, .innerDone 2 1 (.err 1), .backupCall 2 2 ⟨2, 12⟩, .backupDone 2 2 .ok,
       .resp 2 (.ok ⟨2, 2, 12⟩), .result 2 (.ok ⟨2, 2, 12⟩)] := by
  decide

/-- The caller's post-processing on a failed backup: cloned, looked at, converted, looked at again —
`FallbackFailed` throughout, payload 3:4 then 103:4. -/
example :
    postRun [.clone, .view, .map, .view] (.failed ⟨3, 4⟩)
      = ([⟨false, true, ⟨3, 4⟩, ⟨3, 4⟩⟩, ⟨false, true, ⟨103, 4⟩, ⟨103, 4⟩⟩], .failed ⟨103, 4⟩) ∧
    postRun [.map, .view] (.inner ⟨2, 7⟩) = ([⟨true, false, ⟨102, 7⟩, ⟨102, 7⟩⟩], .inner ⟨102, 7⟩) := by
  decide

/-- A stack in a concrete run: the lower layer (backup strategy, predicate "kind 1 only") over the
upper layer (error transformation, predicate "only `FallbackFailed`"). Request 1: inner `err1`, backup
`err3` — the transform is handed `FallbackFailed(3:1)` (kind 7 under the encoding) and the caller gets
`Inner` of its result (kind 17); request 2: inner `err2` is rejected below, `Inner(2:2)` (kind 4) is
rejected above: passed on; request 3 succeeds: nothing is called. -/
example :
    let l : Cfg := test .service (some 2) 700
    let u : Cfg := test .exception (some 0xAAAAAAAAAAAAAAAA) 0
    let ops := [Op.arrive 1 11 [⟨0, .err 1⟩, ⟨0, .err 3⟩], .arrive 2 12 [⟨0, .err 2⟩], .arrive 3 13 [⟨0, .ok⟩],
                .poll 1, .poll 2, .poll 3]
    stackLog u (run l ops).log =
      [.low (.innerCall 1 0 ⟨1, 11⟩), .low (.innerDone 1 0 (.err 1)), .low (.callback 1 (.predicate ⟨1, 0⟩ true)),
       .low (.backupCall 1 1 ⟨1, 11⟩), .low (.backupDone 1 1 (.err 3)),
       .up 1 (.predicate ⟨7, 1⟩ true), .up 1 (.exception ⟨7, 1⟩),
       .low (.resp 1 (.inner ⟨17, 1⟩)), .low (.result 1 (.inner ⟨17, 1⟩)),
       .low (.innerCall 2 2 ⟨2, 12⟩), .low (.innerDone 2 2 (.err 2)), .low (.callback 2 (.predicate ⟨2, 2⟩ false)),
       .up 2 (.predicate ⟨4, 2⟩ false), .low (.resp 2 (.inner ⟨4, 2⟩)), .low (.result 2 (.inner ⟨4, 2⟩)),
       .low (.innerCall 3 3 ⟨3, 13⟩), .low (.innerDone 3 3 .ok),
       .low (.resp 3 (.ok ⟨3, 3, 13⟩)), .low (.result 3 (.ok ⟨3, 3, 13⟩))] := by
  decide

end TR.Props.C17
