import TR.Lemmas.RateLimiter
import TR.Lemmas.RateLimiterLog
import TR.Lemmas.RateLimiterF64
import TR.Lemmas.RateLimiterBoundary
/-!
# C02 — the rate limiter admits at most `limit_for_period` calls per window

Quantification: all three window types, every `limit ≥ 1`, every `refresh_period ≥ 1` tick, every
`timeout_duration` (zero, below, equal to, above the period), every list of operations — i.e. any
number of callers, every arrival / poll / cancellation order, every instant (time only moves by
`adv`, so instants are non-decreasing; several operations may share one instant, including
instants exactly on a window boundary), every inner script, and every allowed value of the
observed choices (`rej`, `woke`, `adm`, `b1`). Each `try_acquire` is one critical section under the limiter's
mutex, so a list of operations is every schedule. For the sliding counter there is one more hypothesis, which the
code needs as well (see "the zero estimate" below): the bucket is at least `10 · limit` nanoseconds long.

The statements are about the **event log** the correspondence check compares: `(run cfg ops).tlog` is the list of
`(instant, event)` the driver prints as `t=<instant> <event>` (`log_is_what_is_printed`), and `callStamps` picks the
`(caller, instant)` of its `inner_call` lines. The ghost `admits`, the limiter's `grants` and `wins` are tied to it
by `admissions_are_the_inner_call_lines` and `admit_iff_granted`.
-/
namespace TR.Props.C02
open TR TR.RateLimiter

/-! ### the ghost history is the log -/

/-- In every reachable state of every configuration: the timed log without its stamps is the event log; its stamps
never decrease and never lie in the future; and the recorded admissions are exactly the `inner_call` lines with the
instants printed in front of them, in order. -/
theorem admissions_are_the_inner_call_lines (cfg : Cfg) (ops : List Op) :
    (run cfg ops).tlog.map Prod.snd = (run cfg ops).log ∧
    Sorted ((run cfg ops).tlog.map Prod.fst) ∧ (∀ p ∈ (run cfg ops).tlog, p.1 ≤ (run cfg ops).now) ∧
    (run cfg ops).admits = callStamps (run cfg ops).tlog :=
  let h := tinv_reachable cfg ops
  ⟨h.logEq, h.sorted, h.stampLe, h.adm⟩

/-- The stamp of every event of a step is the model's clock after that step — the number the driver prints in
front of the event (`Driver.printEvs (m.now st') evs`; for the one-service machine `m.now` is this clock). -/
theorem log_is_what_is_printed (cfg : Cfg) (s : State) (op : Op) :
    ∃ evs, (stepS cfg s op).log = s.log ++ evs ∧
      (stepS cfg s op).tlog = s.tlog ++ stamp (stepS cfg s op).now evs :=
  tlog_stamp_is_printed cfg s op

/-- A call reaches the wrapped service iff a `try_acquire` made for it took a permit, for callers
admitted at once and after waiting alike: the `inner_call` events of the trace are, in order, the
recorded admissions, and the admission instants are, in order, exactly the instants at which a
`try_acquire` answered "granted" (so `Ok(Duration::ZERO)` never stands for a zero wait). -/
theorem admit_iff_granted (cfg : Cfg) (hG : Good cfg) (ops : List Op) :
    callList (run cfg ops).log = (run cfg ops).admits.map Prod.fst ∧
    (run cfg ops).admits.map Prod.snd = (run cfg ops).lim.grants := by
  have h := inv_reachable cfg ops
  exact ⟨h.calls, by have := h.grants hG; simpa using this⟩

/-- the same over the log alone: the instants of the `inner_call` lines are the limiter's grants -/
theorem inner_call_instants_are_grants (cfg : Cfg) (hG : Good cfg) (ops : List Op) :
    (callStamps (run cfg ops).tlog).map Prod.snd = (run cfg ops).lim.grants := by
  rw [← (tinv_reachable cfg ops).adm]; exact (admit_iff_granted cfg hG ops).2

/-- One step, first poll: the caller reaches the inner service in this step only if its
`try_acquire` took a permit at this instant. -/
theorem admission_at_once_is_a_grant (cfg : Cfg) (hG : Good cfg)
    (ops : List Op) (c : Nat) (rej woke : Bool) (fx : Fx)
    (hph : phaseOf (run cfg ops) c = some .fresh)
    (hadm : Admitted (phaseOf (stepS cfg (run cfg ops) (.poll c rej woke fx)) c)) :
    (room cfg (run cfg ops).lim (run cfg ops).now fx).2 = true ∧
    (stepS cfg (run cfg ops) (.poll c rej woke fx)).lim.grants = (run cfg ops).lim.grants ++ [(run cfg ops).now] :=
  let h := fresh_admission cfg (run cfg ops) c rej woke fx hG (inv_reachable cfg ops) hph hadm
  ⟨h.1, h.2.1⟩

/-- One step, a caller that had been told to wait: it reaches the inner service in this step only if its second
`try_acquire` took a permit at this instant. -/
theorem admission_after_wait_is_a_grant (cfg : Cfg) (hG : Good cfg)
    (ops : List Op) (c arr lo hi : Nat) (rej woke : Bool) (fx : Fx)
    (hph : phaseOf (run cfg ops) c = some (.sleeping arr lo hi))
    (hadm : Admitted (phaseOf (stepS cfg (run cfg ops) (.poll c rej woke fx)) c)) :
    (room cfg (run cfg ops).lim (run cfg ops).now fx).2 = true ∧
    (stepS cfg (run cfg ops) (.poll c rej woke fx)).lim.grants = (run cfg ops).lim.grants ++ [(run cfg ops).now] :=
  let h := sleeper_admission cfg (run cfg ops) c arr lo hi rej woke fx hG (inv_reachable cfg ops) hph hadm
  ⟨h.1, h.2.2.1⟩

/-! ### the window bounds, over the log -/

/-- Fixed window: the limiter's own window starts cut time into consecutive windows
`[s_k, s_{k+1})` at least `refresh_period` apart, every admission lies in the window it is filed
under, no window holds more than `limit_for_period` admissions (`Cut`), and the admissions filed
are exactly the instants of the `inner_call` lines of the log. -/
theorem fixed_windows (cfg : Cfg) (hk : cfg.kind = .fixed) (hL : 1 ≤ cfg.limit) (hP : 1 ≤ cfg.period)
    (ops : List Op) :
    Cut cfg.period cfg.limit (run cfg ops).lim.wins ∧
    flat (run cfg ops).lim.wins = (callStamps (run cfg ops).tlog).map Prod.snd := by
  have hG := Good.of_not_counter cfg (by rw [hk]; decide) hL hP
  have hw := ((inv_reachable cfg ops).lim hP).win (by rw [hk]; decide)
  exact ⟨hw.cut, by rw [hw.flat]; exact (inner_call_instants_are_grants cfg hG ops).symm⟩

/-- Sliding counter: the same statement with the limiter's bucket starts as the cut — for buckets of at least
`10 · limit` nanoseconds (`hZ`; without it the code itself admits without a permit:
`zero_estimate_admits_without_permit`). -/
theorem counter_windows (cfg : Cfg) (hk : cfg.kind = .counter) (hL : 1 ≤ cfg.limit) (hP : 1 ≤ cfg.period)
    (hZ : 10 * cfg.limit ≤ cfg.period * cfg.tickNs) (ops : List Op) :
    Cut cfg.period cfg.limit (run cfg ops).lim.wins ∧
    flat (run cfg ops).lim.wins = (callStamps (run cfg ops).tlog).map Prod.snd := by
  have hG : Good cfg := ⟨hL, hP, fun _ => hZ⟩
  have hw := ((inv_reachable cfg ops).lim hP).win (by rw [hk]; decide)
  exact ⟨hw.cut, by rw [hw.flat]; exact (inner_call_instants_are_grants cfg hG ops).symm⟩

/-- The property's existential, with nothing but the log in the statement: the instants of the `inner_call` lines
can be cut into consecutive windows, none shorter than `refresh_period`, each holding at most `limit_for_period`. -/
theorem windows_exist (cfg : Cfg) (hG : Good cfg) (hk : cfg.kind ≠ .slog) (ops : List Op) :
    ∃ w, Cut cfg.period cfg.limit w ∧ flat w = (callStamps (run cfg ops).tlog).map Prod.snd := by
  have hw := ((inv_reachable cfg ops).lim hG.period).win hk
  exact ⟨_, hw.cut, by rw [hw.flat]; exact (inner_call_instants_are_grants cfg hG ops).symm⟩

/-- Sliding log: any `limit_for_period + 1` consecutive admissions span at least
`refresh_period`: `a[i + L] − a[i] ≥ P` for the instants `a` of the `inner_call` lines, for all `i`. -/
theorem log_span (cfg : Cfg) (hk : cfg.kind = .slog) (hL : 1 ≤ cfg.limit) (hP : 1 ≤ cfg.period)
    (ops : List Op) (i : Nat)
    (hi : i + cfg.limit < ((callStamps (run cfg ops).tlog).map Prod.snd).length) :
    ((callStamps (run cfg ops).tlog).map Prod.snd)[i]'(by omega) + cfg.period
      ≤ ((callStamps (run cfg ops).tlog).map Prod.snd)[i + cfg.limit] := by
  have hG := Good.of_not_counter cfg (by rw [hk]; decide) hL hP
  have hg := inner_call_instants_are_grants cfg hG ops
  have hs := (((inv_reachable cfg ops).lim hP).slog hk).span
  simp only [hg] at hi ⊢
  exact hs i hi

/-- Whatever the wait estimate does (any configuration with `period ≥ 1`): the **permits** the sliding counter /
fixed window hands out always respect the windows. What a zero estimate breaks is only "admitted ⇒ permit". -/
theorem permits_respect_windows (cfg : Cfg) (hk : cfg.kind ≠ .slog) (hP : 1 ≤ cfg.period) (ops : List Op) :
    Cut cfg.period cfg.limit (run cfg ops).lim.wins ∧ flat (run cfg ops).lim.wins = (run cfg ops).lim.grants :=
  let hw := ((inv_reachable cfg ops).lim hP).win hk
  ⟨hw.cut, hw.flat⟩

/-! ### the zero estimate (sliding counter)

`estimate_wait_time` is at least `bucket / (10 · previous_count)`; `Duration::from_secs_f64` rounds it to whole
nanoseconds; `try_acquire` returns `Ok(that)`; `acquire()` matches `Ok(Duration::ZERO)` as "permit acquired". -/

/-- In a `Good` configuration the code cannot return a zero wait: whenever the exact weighted test fails, the exact
estimate is at least one nanosecond. -/
theorem no_zero_estimate (cfg : Cfg) (hG : Good cfg) (hk : cfg.kind = .counter) (l : Lim) (now : Nat)
    (hprev : l.prev ≤ cfg.limit) (hlt : now - l.start < cfg.period)
    (hno : ¬ (l.prev * (cfg.period - (now - l.start)) + l.cur * cfg.period < cfg.limit * cfg.period)) :
    zeroOk cfg l now = false :=
  counter_no_zero cfg l now hG hk hprev hlt hno

/-- Conversely a zero wait needs a bucket shorter than `10 · previous_count` nanoseconds. -/
theorem zero_estimate_needs_short_bucket (cfg : Cfg) (l : Lim) (now : Nat) (ht : 1 ≤ cfg.tickNs)
    (hlt : now - l.start < cfg.period)
    (hno : ¬ (l.prev * (cfg.period - (now - l.start)) + l.cur * cfg.period < cfg.limit * cfg.period))
    (hz : zeroOk cfg l now = true) :
    0 < l.prev ∧ l.cur < cfg.limit ∧ cfg.period * cfg.tickNs < 10 * l.prev :=
  zeroOk_short_bucket cfg l now ht hlt hno hz

/-- **Outside that range the model — like the code — admits without a permit, and C02's bound fails.** Sliding
counter, limit 201, bucket of one microsecond (`tickNs = 1000`), timeout 0: after a full bucket (201 grants at
t = 0) the estimate at t = 1 µs is `0.1 · 1000 / 201 < 0.5` ns, i.e. `Duration::ZERO`; here with limit 2 and a
bucket of one nanosecond for a small kernel-checked witness: two grants at t = 0, then at t = 1 three callers
observed to reach the wrapped service (`adm`) do so with no permit taken: five `inner_call`s, two grants, and
three admissions in a window that may hold two. The real-code witness (limit 201, 1 µs, 403 calls) is
`corpus/ratelimiter/c02-zero-estimate.ops`. -/
theorem zero_estimate_admits_without_permit :
    let cfg : Cfg := { kind := .counter, limit := 2, period := 1, timeout := 0, tickNs := 1 }
    let arr := (List.range 5).map fun c => Op.arrive (c + 1) ⟨0, .ok⟩
    let s := run cfg (arr ++ [.poll 1 false false { adm := true }, .poll 2 false false { adm := true }, .adv 1,
      .poll 3 false false { adm := true }, .poll 4 false false { adm := true }, .poll 5 false false { adm := true }])
    (callStamps s.tlog).map Prod.snd = [0, 0, 1, 1, 1] ∧ s.lim.grants = [0, 0] ∧
    ¬ ((callStamps s.tlog).map Prod.snd = s.lim.grants) := by decide

/-! ### the `f64` arithmetic of the sliding counter (see `Lemmas/RateLimiterF64.lean`) -/

/-- Off the boundary every evaluation of the weighted count that is accurate to within `1/B` decides like the
model's integer test: `n/d` the computed value, `X = prev·(B−e) + cur·B`. -/
theorem f64_weighted_test_agrees_off_boundary (X L B n d : Nat) (hB : 0 < B)
    (hlo : d * X < n * B + d) (hhi : n * B < d * X + d) (hne : X ≠ L * B) : (n < L * d ↔ X < L * B) :=
  approx_decides X L B n d hB hlo hhi hne

/-- … and every such evaluation of the bucket count decides `≥ 2` like the exact quotient, except at exactly two
buckets. -/
theorem f64_bucket_count_agrees_off_boundary (e B n d : Nat) (hB : 0 < B)
    (hlo : d * e < n * B + d) (hhi : n * B < d * e + d) (hne : e ≠ 2 * B) : (2 * d ≤ n ↔ 2 * B ≤ e) :=
  approx_buckets e B n d hB hlo hhi hne

/-- The observed `f64` outcomes are consulted on those boundaries only: away from them the model's `try_acquire`
does not depend on them. -/
theorem f64_choices_only_on_boundary (cfg : Cfg) (l : Lim) (now : Nat) (a a' b b' : Bool)
    (h2 : now - l.start ≠ 2 * cfg.period)
    (hb : onBoundary cfg (counterRoll cfg l now b) (now - (counterRoll cfg l now b).start) = false) :
    room cfg l now { adm := a, b1 := b } = room cfg l now { adm := a', b1 := b' } := by
  have hr : ∀ x : Bool, room cfg l now { adm := x, b1 := b } = room cfg l now { adm := x, b1 := b' } := by
    intro x
    unfold room
    cases hk : cfg.kind with
    | fixed => rfl
    | slog => rfl
    | counter => simp only [roomCounter, counterRoll_b1_only_at_two_buckets cfg l now b b' h2]
  rw [room_adm_only_on_boundary cfg l now a a' b hb, hr]

/-- Whichever way the comparison on the boundary goes, the bound of this property holds (the theorems above
quantify over all observed choices): an extra grant on the boundary still leaves the bucket with at most `limit`
grants. Witness of such a grant — limit 4, bucket 44 ms, the real code grants the fifth call at t = 77
(weighted count exactly 4): `corpus/ratelimiter/c02-counter-f64-boundary.ops`. -/
example :
    let cfg : Cfg := { kind := .counter, limit := 4, period := 44, timeout := 0 }
    let arr := (List.range 10).map fun c => Op.arrive (c + 1) ⟨0, .ok⟩
    let s := run cfg (arr ++ [.poll 1 false false, .poll 2 false false, .poll 3 false false, .poll 4 false false,
      .adv 44, .poll 10 true false, .adv 11, .poll 5 false false, .adv 11, .poll 6 false false, .adv 11,
      .poll 7 false false, .poll 8 false false { adm := true }, .poll 9 true false])
    s.lim.wins = [(44, [55, 66, 77, 77]), (0, [0, 0, 0, 0])] ∧ s.lim.prev = 4 ∧ s.lim.cur = 4 ∧
    phaseOf s 9 = some (.done false) := by decide

/-! ### outside the quantifier: `limit_for_period = 0`, `refresh_period = 0` (the builder validates neither) -/

/-- `limit = 0`, fixed window or sliding counter: no call ever reaches the wrapped service. -/
theorem limit_zero_admits_nobody (cfg : Cfg) (hL : cfg.limit = 0) (hk : cfg.kind ≠ .slog) (hP : 1 ≤ cfg.period)
    (ht : 1 ≤ cfg.tickNs) (ops : List Op) : callStamps (run cfg ops).tlog = [] := by
  rw [← (tinv_reachable cfg ops).adm]
  exact (TR.RateLimiter.limit_zero_admits_nobody cfg hL hk hP ht ops).1

/-- `limit = 0`, sliding log: `request_log.len() < 0` is false and `front()` is `None`, the branch commented
"should not happen if limit > 0" returns `Ok(Duration::ZERO)`, and `acquire()` takes it for a grant: the first
poll of every caller reaches the wrapped service, no permit exists or is taken. (Code and model agree.) -/
theorem limit_zero_log_admits_everybody (cfg : Cfg) (hL : cfg.limit = 0) (hk : cfg.kind = .slog) (s : State)
    (hts : s.lim.ts = []) (c : Nat) (rej woke : Bool) (fx : Fx) (hph : phaseOf s c = some .fresh) :
    (∃ rest, (stepS cfg s (.poll c rej woke fx)).log = s.log ++ Ev.innerCall c s.serial :: rest) ∧
    (stepS cfg s (.poll c rej woke fx)).lim.grants = s.lim.grants ∧ (stepS cfg s (.poll c rej woke fx)).lim.ts = [] := by
  simp only [stepS, hph]
  exact limit_zero_log_admits cfg s c rej fx hL hk hts

/-- `refresh_period = 0`, fixed window or sliding log (limit ≥ 1): every `try_acquire` refreshes the window /
empties the log first, so every call is admitted at once — windows of length zero, each with one admission. -/
theorem period_zero_admits_everybody (cfg : Cfg) (hP : cfg.period = 0) (hL : 1 ≤ cfg.limit) (hk : cfg.kind ≠ .counter)
    (s : State) (c : Nat) (rej woke : Bool) (fx : Fx) (hph : phaseOf s c = some .fresh) :
    ∃ rest, (stepS cfg s (.poll c rej woke fx)).log = s.log ++ Ev.innerCall c s.serial :: rest := by
  simp only [stepS, hph]
  exact pollFresh_admits cfg s c rej fx (period_zero_always_room cfg s.lim s.now fx hP hL hk)

/-- Non-vacuity of the three boundary notes: limit 0 fixed (everybody rejected), limit 0 sliding log (everybody
admitted, no grant), period 0 fixed with limit 1 (three admissions at one instant). -/
example :
    let ops := [Op.arrive 1 ⟨0, .ok⟩, .arrive 2 ⟨0, .ok⟩, .arrive 3 ⟨0, .ok⟩, .poll 1 false false, .poll 2 false false,
      .adv 7, .poll 3 false false]
    (callStamps (run { kind := .fixed, limit := 0, period := 5, timeout := 0 } ops).tlog = []) ∧
    (callStamps (run { kind := .slog, limit := 0, period := 5, timeout := 0 } ops).tlog = [(1, 0), (2, 0), (3, 7)] ∧
      (run { kind := .slog, limit := 0, period := 5, timeout := 0 } ops).lim.grants = []) ∧
    (callStamps (run { kind := .fixed, limit := 1, period := 0, timeout := 0 } ops).tlog = [(1, 0), (2, 0), (3, 7)]) := by
  decide

/-- Readiness of the wrapped service never touches the budget: an arrival (whether the caller gets
its call future or is turned away because the wrapped service is not ready — `poll_ready` pending)
and a change of the wrapped service's readiness leave the limiter, hence its permits, and the
admissions as they are. In particular no permit is ever held by a request that waits for the
wrapped service to become ready: permits are only taken by `try_acquire` inside a poll, and the
inner call is made in that very step (`admit_iff_granted`), on the instance whose readiness the
caller observed before `call`. -/
theorem readiness_takes_no_permit (cfg : Cfg) (s : State) (c : Nat) (sc : Step) (ms : Nat) :
    (stepS cfg s (.arrive c sc)).lim = s.lim ∧ (stepS cfg s (.arrive c sc)).admits = s.admits ∧
    (stepS cfg s (.busy ms)).lim = s.lim ∧ (stepS cfg s (.busy ms)).admits = s.admits := by
  refine ⟨?_, ?_, rfl, rfl⟩ <;>
  · simp only [stepS]
    split
    · rfl
    · split <;> rfl

/-- While the wrapped service is not ready a new caller is turned away before `call`: it gets
`notready`, is finished, and (by `C15.not_ready_never_inner`) never reaches the wrapped service. -/
theorem not_ready_turned_away (cfg : Cfg) (s : State) (c : Nat) (sc : Step)
    (hnew : phaseOf s c = none) (hbusy : s.now < s.busyUntil) :
    stepS cfg s (.arrive c sc) = notReadyCall s c := by
  simp [stepS, hnew, hbusy]

/-- Every `inner_call` line the model predicts says `ready=1`: the wrapped service is only ever
called on an instance that has reported ready (Tower readiness contract). -/
theorem calls_only_ready (e : Ev) (c k tag : Nat) (r : Bool) (h : wire e = .innerCallX c k tag r) :
    r = true := by
  cases e <;> simp [wire] at h <;> exact h.2.2.2

/-- A failed or (scripted) pending `poll_ready` of the wrapped service — answered to the caller by
`RateLimiter::poll_ready` before any call exists — takes no permit and makes no admission either,
whatever else is in flight or asleep on other handles at that moment. -/
theorem readiness_error_takes_no_permit (cfg : Cfg) (s : State) (c : Nat) (err : Bool) :
    (stepS cfg s (.turnedAway c err)).lim = s.lim ∧ (stepS cfg s (.turnedAway c err)).admits = s.admits := by
  simp only [stepS]
  split
  · exact ⟨rfl, rfl⟩
  · cases err <;> exact ⟨rfl, rfl⟩

/-! ### Several services built from one layer value; presets

"Through one rate limiter (all clones)": the limiter belongs to a *service* (`RateLimiter::new` makes it) and is
shared by the clones of that service. A second service built from the same layer value (or from a clone of the
layer) gets a limiter of its own, whose first window starts when that service is built. -/

/-- Independence: an operation addressed to service `k` (a call on any handle of it, a poll or the cancellation
of one of its callers) leaves the limiter and the callers of every other service exactly as they are. -/
theorem services_independent (cfg : Cfg) (f : Fleet) (op : FOp) (k j : Nat)
    (ht : target f op = some k) (hj : j ≠ k) :
    lookup (fstep cfg f op).1.insts j = lookup f.insts j :=
  fstep_other cfg f op k j ht hj

/-- Every service of the fleet is one rate limiter in the sense of this file: its state is reached by a sequence
of single-limiter operations (its own callers' operations and the passage of time since it was built), so every
theorem above and in `C15` holds for it — in particular: -/
theorem each_service_is_one_limiter (cfg : Cfg) (ops : List FOp) (k : Nat) (s : State)
    (h : lookup (frun cfg ops).insts k = some s) : ∃ ops', s = run cfg ops' :=
  frun_reach cfg ops k s h

/-- … each service, separately, admits at most `limit_for_period` calls per window of its own (fixed window and
sliding counter), and its admissions are exactly its limiter's grants … -/
theorem each_service_windows (cfg : Cfg) (hG : Good cfg) (hk : cfg.kind ≠ .slog)
    (ops : List FOp) (k : Nat) (s : State) (h : lookup (frun cfg ops).insts k = some s) :
    ∃ w, Cut cfg.period cfg.limit w ∧ flat w = (callStamps s.tlog).map Prod.snd := by
  obtain ⟨ops', rfl⟩ := frun_reach cfg ops k s h
  exact windows_exist cfg hG hk ops'

/-- … and, for the sliding log, any `limit_for_period + 1` consecutive admissions of one service span at least
`refresh_period`. -/
theorem each_service_log_span (cfg : Cfg) (hk : cfg.kind = .slog) (hL : 1 ≤ cfg.limit) (hP : 1 ≤ cfg.period)
    (ops : List FOp) (k : Nat) (s : State) (h : lookup (frun cfg ops).insts k = some s) (i : Nat)
    (hi : i + cfg.limit < ((callStamps s.tlog).map Prod.snd).length) :
    ((callStamps s.tlog).map Prod.snd)[i]'(by omega) + cfg.period ≤ ((callStamps s.tlog).map Prod.snd)[i + cfg.limit] := by
  obtain ⟨ops', rfl⟩ := frun_reach cfg ops k s h
  exact log_span cfg hk hL hP ops' i hi

/-- The preset constructors (`RateLimiterLayer::per_second(n)`, `per_minute(n)`, `burst(rate, burst)`) and the
builder's defaults, with their documented configurations, meet the hypotheses of the theorems of this file and of
`C15` whenever the resulting limit is at least one, in either tick (`u` ticks per millisecond, `u ≥ 1`). -/
theorem presets_meet_hypotheses (u n rate b : Nat) (hu : 1 ≤ u) (hn : 1 ≤ n) (hr : 1 ≤ rate + b) :
    (1 ≤ (scale u (perSecond n)).limit ∧ 1 ≤ (scale u (perSecond n)).period ∧ (scale u (perSecond n)).kind = .fixed) ∧
    (1 ≤ (scale u (perMinute n)).limit ∧ 1 ≤ (scale u (perMinute n)).period ∧ (scale u (perMinute n)).kind = .fixed) ∧
    (1 ≤ (scale u (burst rate b)).limit ∧ 1 ≤ (scale u (burst rate b)).period ∧ (scale u (burst rate b)).kind = .counter) ∧
    (1 ≤ (scale u builderDefaults).limit ∧ 1 ≤ (scale u builderDefaults).period) := by
  have h1 : ∀ p, 1 ≤ p → 1 ≤ p * u := fun p hp => Nat.le_trans hu (Nat.le_mul_of_pos_left u (by omega))
  exact ⟨⟨hn, h1 1000 (by omega), rfl⟩, ⟨hn, h1 60000 (by omega), rfl⟩, ⟨hr, h1 1000 (by omega), rfl⟩,
    ⟨Nat.le_of_ble_eq_true rfl, h1 1000 (by omega)⟩⟩

/-- `per_second(n)`: at most `n` admissions in each of the limiter's windows, which are at least 1000 ms apart. -/
theorem per_second_windows (n : Nat) (hn : 1 ≤ n) (ops : List Op) :
    Cut 1000 n (run (perSecond n) ops).lim.wins ∧
    flat (run (perSecond n) ops).lim.wins = (callStamps (run (perSecond n) ops).tlog).map Prod.snd :=
  fixed_windows (perSecond n) rfl hn (Nat.le_of_ble_eq_true rfl) ops

/-- `burst(rate, burst)`: at most `rate + burst` admissions in each of the sliding counter's buckets of 1000 ms —
as long as `rate + burst ≤ 10⁸` (a one-second bucket is `10⁹` ns ≥ `10 · limit`). -/
theorem burst_windows (rate b : Nat) (hr : 1 ≤ rate + b) (hbig : rate + b ≤ 100000000) (ops : List Op) :
    Cut 1000 (rate + b) (run (burst rate b) ops).lim.wins ∧
    flat (run (burst rate b) ops).lim.wins = (callStamps (run (burst rate b) ops).tlog).map Prod.snd :=
  counter_windows (burst rate b) rfl hr (Nat.le_of_ble_eq_true rfl) (by show 10 * (rate + b) ≤ 1000 * 1000000; omega) ops

/-- Non-vacuity (two services from one layer, limit 1, period 100, fixed). Service 0 is built at t = 0 and admits
caller 1; caller 2 finds its window used up. Service 1 is built at t = 30 by its first caller (3) and admits it at
once — its window is its own, and runs from 30 to 130: at t = 100 caller 4 (service 1) is rejected while caller 5
(service 0, new window at 100) is admitted; at t = 130 service 1 admits caller 6. The calls of the wrapped
service are numbered through the case. -/
example :
    let cfg : Cfg := { kind := .fixed, limit := 1, period := 100, timeout := 0 }
    ftrace cfg [.arrive 0 1 ⟨0, .ok⟩, .poll 1 false false, .arrive 0 2 ⟨0, .ok⟩, .poll 2 false false, .adv 30,
      .arrive 1 3 ⟨0, .ok⟩, .poll 3 false false, .adv 70, .arrive 1 4 ⟨0, .ok⟩, .poll 4 false false,
      .arrive 0 5 ⟨0, .ok⟩, .poll 5 false false, .adv 30, .arrive 1 6 ⟨0, .ok⟩, .poll 6 false false]
    = [.innerCall 1 0, .innerDone 1 0 .ok, .result 1 (.ok 0), .result 2 .rateLimited,
       .innerCall 3 1, .innerDone 3 1 .ok, .result 3 (.ok 1), .result 4 .rateLimited,
       .innerCall 5 2, .innerDone 5 2 .ok, .result 5 (.ok 2),
       .innerCall 6 3, .innerDone 6 3 .ok, .result 6 (.ok 3)] := by decide

/-- Non-vacuity (readiness of the wrapped service, scripted: pending, then an error): callers 1 and 2 are turned
away before `call` — the second with the wrapped service's error — and take nothing; caller 3 gets the only permit. -/
example :
    let cfg : Cfg := { kind := .slog, limit := 1, period := 100, timeout := 0 }
    ftrace cfg [.ready ['p', 'e'], .arrive 0 1 ⟨0, .ok⟩, .arrive 0 2 ⟨0, .ok⟩, .arrive 0 3 ⟨0, .ok⟩,
      .poll 3 false false]
    = [.result 1 .notReady, readyErrEv 2, .result 2 .notReady,
       .innerCall 3 0, .innerDone 3 0 .ok, .result 3 (.ok 0)] := by decide

/-- Non-vacuity (wrapped service busy across three windows, limit 1, fixed): the callers of the
busy windows are turned away without a permit, so when the wrapped service is ready again only one
call reaches it — nothing was banked. -/
example :
    let cfg : Cfg := { kind := .fixed, limit := 1, period := 100, timeout := 0 }
    let s := run cfg [.arrive 1 ⟨0, .ok⟩, .poll 1 false false, .busy 250, .adv 100, .arrive 2 ⟨0, .ok⟩,
      .adv 100, .arrive 3 ⟨0, .ok⟩, .adv 50, .arrive 4 ⟨0, .ok⟩, .arrive 5 ⟨0, .ok⟩,
      .poll 4 false false, .poll 5 false false]
    s.admits = [(1, 0), (4, 250)] ∧ phaseOf s 2 = some (.done false) ∧ phaseOf s 3 = some (.done false) ∧
    Ev.result 2 .notReady ∈ s.log ∧ Ev.result 5 .rateLimited ∈ s.log := by decide

/-- Non-vacuity (fixed window, the scenario of the property text): limit 2, period 100,
timeout 250 > period, six callers at t = 0. Two are admitted at once, four sleep; at t = 100
two of the sleepers are admitted and two are rejected: two windows, two admissions each. -/
example :
    let cfg : Cfg := { kind := .fixed, limit := 2, period := 100, timeout := 250 }
    let arr := (List.range 6).map fun c => Op.arrive (c + 1) ⟨0, .ok⟩
    let p0 := (List.range 6).map fun c => Op.poll (c + 1) false false
    let p1 := (List.range 4).map fun c => Op.poll (c + 3) false true
    let s := run cfg (arr ++ p0 ++ [.adv 100] ++ p1)
    s.admits = [(1, 0), (2, 0), (3, 100), (4, 100)] ∧
    s.lim.wins = [(100, [100, 100]), (0, [0, 0])] ∧
    phaseOf s 5 = some (.done false) ∧ phaseOf s 6 = some (.done false) := by decide

/-- Non-vacuity (sliding log): limit 2, period 100: admissions at 0, 0, 100, 130. -/
example :
    let cfg : Cfg := { kind := .slog, limit := 2, period := 100, timeout := 50 }
    let s := run cfg [.arrive 1 ⟨0, .ok⟩, .arrive 2 ⟨0, .ok⟩, .arrive 3 ⟨0, .ok⟩, .arrive 4 ⟨0, .ok⟩,
      .poll 1 false false, .poll 2 false false, .adv 60, .poll 3 false false, .adv 40, .poll 3 false true,
      .adv 30, .poll 4 false false]
    s.admits.map Prod.snd = [0, 0, 100, 130] ∧ s.lim.ts = [100, 130] := by decide

/-- Non-vacuity (sliding counter): limit 2, bucket 1000: two grants in the first bucket; at the
rotation the previous bucket still weighs 2, at t = 1500 it weighs 1 and one more call fits. -/
example :
    let cfg : Cfg := { kind := .counter, limit := 2, period := 1000, timeout := 0 }
    let s := run cfg [.arrive 1 ⟨0, .ok⟩, .arrive 2 ⟨0, .ok⟩, .arrive 3 ⟨0, .ok⟩, .arrive 4 ⟨0, .ok⟩,
      .poll 1 false false, .poll 2 false false, .adv 1000, .poll 3 true false, .adv 500, .poll 4 false false]
    s.admits.map Prod.snd = [0, 0, 1500] ∧ s.lim.wins = [(1000, [1500]), (0, [0, 0])] ∧
    phaseOf s 3 = some (.done false) := by decide

end TR.Props.C02
