import TR.Lemmas.RateLimiter
/-!
# C02 — the rate limiter admits at most `limit_for_period` calls per window

Quantification: all three window types, every `limit ≥ 1`, every `refresh_period ≥ 1` tick, every
`timeout_duration` (zero, below, equal to, above the period), every list of operations — i.e. any
number of callers, every arrival / poll / cancellation order, every instant (time only moves by
`adv`, so instants are non-decreasing; several operations may share one instant, including
instants exactly on a window boundary), every inner script, and every allowed value of the
observed choices (`rej`, `woke`). Each `try_acquire` is one critical section under the limiter's
mutex, so a list of operations is every schedule.

`(run cfg ops).admits` is the list of `(caller, instant)` of the inner calls made so far;
`admit_iff_granted` ties it to the `inner_call` events of the trace on one side and to the
limiter's grants on the other.
-/
namespace TR.Props.C02
open TR TR.RateLimiter

/-- A call reaches the wrapped service iff a `try_acquire` made for it took a permit, for callers
admitted at once and after waiting alike: the `inner_call` events of the trace are, in order, the
recorded admissions, and the admission instants are, in order, exactly the instants at which a
`try_acquire` answered "granted" (so `Ok(Duration::ZERO)` never stands for a zero wait). -/
theorem admit_iff_granted (cfg : Cfg) (hL : 1 ≤ cfg.limit) (hP : 1 ≤ cfg.period) (ops : List Op) :
    callList (run cfg ops).log = (run cfg ops).admits.map Prod.fst ∧
    (run cfg ops).admits.map Prod.snd = (run cfg ops).lim.grants := by
  have h := inv_reachable cfg hL hP ops
  exact ⟨h.calls, by have := h.grants; simpa using this⟩

/-- One step, first poll: the caller reaches the inner service in this step only if its
`try_acquire` took a permit at this instant. -/
theorem admission_at_once_is_a_grant (cfg : Cfg) (hL : 1 ≤ cfg.limit)
    (ops : List Op) (c : Nat) (rej woke : Bool)
    (hph : phaseOf (run cfg ops) c = some .fresh)
    (hadm : Admitted (phaseOf (stepS cfg (run cfg ops) (.poll c rej woke)) c)) :
    (room cfg (run cfg ops).lim (run cfg ops).now).2 = true ∧
    (stepS cfg (run cfg ops) (.poll c rej woke)).lim.grants = (run cfg ops).lim.grants ++ [(run cfg ops).now] :=
  let h := fresh_admission cfg (run cfg ops) c rej woke hL hph hadm
  ⟨h.1, h.2.1⟩

/-- Fixed window: the limiter's own window starts cut time into consecutive windows
`[s_k, s_{k+1})` at least `refresh_period` apart, every admission lies in the window it is filed
under, no window holds more than `limit_for_period` admissions (`Cut`), and the admissions filed
are exactly all inner calls (`flat … = admits`). -/
theorem fixed_windows (cfg : Cfg) (hk : cfg.kind = .fixed) (hL : 1 ≤ cfg.limit) (hP : 1 ≤ cfg.period)
    (ops : List Op) :
    Cut cfg.period cfg.limit (run cfg ops).lim.wins ∧
    flat (run cfg ops).lim.wins = (run cfg ops).admits.map Prod.snd := by
  have h := inv_reachable cfg hL hP ops
  have hw := h.lim.win (by rw [hk]; decide)
  exact ⟨hw.cut, by rw [hw.flat]; have := h.grants; simpa using this.symm⟩

/-- Sliding counter: the same statement with the limiter's bucket starts as the cut. -/
theorem counter_windows (cfg : Cfg) (hk : cfg.kind = .counter) (hL : 1 ≤ cfg.limit) (hP : 1 ≤ cfg.period)
    (ops : List Op) :
    Cut cfg.period cfg.limit (run cfg ops).lim.wins ∧
    flat (run cfg ops).lim.wins = (run cfg ops).admits.map Prod.snd := by
  have h := inv_reachable cfg hL hP ops
  have hw := h.lim.win (by rw [hk]; decide)
  exact ⟨hw.cut, by rw [hw.flat]; have := h.grants; simpa using this.symm⟩

/-- Sliding log: any `limit_for_period + 1` consecutive admissions span at least
`refresh_period`: `a[i + L] − a[i] ≥ P` for the admission instants `a`, for all `i`. -/
theorem log_span (cfg : Cfg) (hk : cfg.kind = .slog) (hL : 1 ≤ cfg.limit) (hP : 1 ≤ cfg.period)
    (ops : List Op) (i : Nat)
    (hi : i + cfg.limit < ((run cfg ops).admits.map Prod.snd).length) :
    ((run cfg ops).admits.map Prod.snd)[i]'(by omega) + cfg.period
      ≤ ((run cfg ops).admits.map Prod.snd)[i + cfg.limit] := by
  have h := inv_reachable cfg hL hP ops
  have hg : (run cfg ops).admits.map Prod.snd = (run cfg ops).lim.grants := by
    have := h.grants; simpa using this
  have hs := (h.lim.slog hk).span
  simp only [hg] at hi ⊢
  exact hs i hi

/-- Readiness of the wrapped service never touches the budget: an arrival (whether the caller gets
its call future or is turned away because the wrapped service is not ready — `poll_ready` pending)
and a change of the wrapped service's readiness leave the limiter, hence its permits, and the
admissions as they are. In particular no permit is ever held by a request that waits for the
wrapped service to become ready: permits are only taken by `try_acquire` inside a poll, and the
inner call is made in that very step (`admit_iff_granted`), on the instance whose readiness the
caller observed before `call`. -/
theorem readiness_takes_no_permit (cfg : Cfg) (s : State) (c : Nat) (sc : Step) (ms : Nat) :
    (stepS cfg s (.arrive c sc)).lim = s.lim ∧ (stepS cfg s (.arrive c sc)).admits = s.admits ∧
    (stepS cfg s (.busy ms)).lim = s.lim ∧ (stepS cfg s (.busy ms)).admits = s.admits := by
  refine ⟨?_, ?_, rfl, rfl⟩ <;>
  · simp only [stepS]
    split
    · rfl
    · split <;> rfl

/-- While the wrapped service is not ready a new caller is turned away before `call`: it gets
`notready`, is finished, and (by `C15.not_ready_never_inner`) never reaches the wrapped service. -/
theorem not_ready_turned_away (cfg : Cfg) (s : State) (c : Nat) (sc : Step)
    (hnew : phaseOf s c = none) (hbusy : s.now < s.busyUntil) :
    stepS cfg s (.arrive c sc) = notReadyCall s c := by
  simp [stepS, hnew, hbusy]

/-- Every `inner_call` line the model predicts says `ready=1`: the wrapped service is only ever
called on an instance that has reported ready (Tower readiness contract). -/
theorem calls_only_ready (e : Ev) (c k tag : Nat) (r : Bool) (h : wire e = .innerCallX c k tag r) :
    r = true := by
  cases e <;> simp [wire] at h <;> exact h.2.2.2

/-- Non-vacuity (wrapped service busy across three windows, limit 1, fixed): the callers of the
busy windows are turned away without a permit, so when the wrapped service is ready again only one
call reaches it — nothing was banked. -/
example :
    let cfg : Cfg := { kind := .fixed, limit := 1, period := 100, timeout := 0 }
    let s := run cfg [.arrive 1 ⟨0, .ok⟩, .poll 1 false false, .busy 250, .adv 100, .arrive 2 ⟨0, .ok⟩,
      .adv 100, .arrive 3 ⟨0, .ok⟩, .adv 50, .arrive 4 ⟨0, .ok⟩, .arrive 5 ⟨0, .ok⟩,
      .poll 4 false false, .poll 5 false false]
    s.admits = [(1, 0), (4, 250)] ∧ phaseOf s 2 = some (.done false) ∧ phaseOf s 3 = some (.done false) ∧
    Ev.result 2 .notReady ∈ s.log ∧ Ev.result 5 .rateLimited ∈ s.log := by decide

/-- Non-vacuity (fixed window, the scenario of the property text): limit 2, period 100,
timeout 250 > period, six callers at t = 0. Two are admitted at once, four sleep; at t = 100
two of the sleepers are admitted and two are rejected: two windows, two admissions each. -/
example :
    let cfg : Cfg := { kind := .fixed, limit := 2, period := 100, timeout := 250 }
    let arr := (List.range 6).map fun c => Op.arrive (c + 1) ⟨0, .ok⟩
    let p0 := (List.range 6).map fun c => Op.poll (c + 1) false false
    let p1 := (List.range 4).map fun c => Op.poll (c + 3) false true
    let s := run cfg (arr ++ p0 ++ [.adv 100] ++ p1)
    s.admits = [(1, 0), (2, 0), (3, 100), (4, 100)] ∧
    s.lim.wins = [(100, [100, 100]), (0, [0, 0])] ∧
    phaseOf s 5 = some (.done false) ∧ phaseOf s 6 = some (.done false) := by decide

/-- Non-vacuity (sliding log): limit 2, period 100: admissions at 0, 0, 100, 130. -/
example :
    let cfg : Cfg := { kind := .slog, limit := 2, period := 100, timeout := 50 }
    let s := run cfg [.arrive 1 ⟨0, .ok⟩, .arrive 2 ⟨0, .ok⟩, .arrive 3 ⟨0, .ok⟩, .arrive 4 ⟨0, .ok⟩,
      .poll 1 false false, .poll 2 false false, .adv 60, .poll 3 false false, .adv 40, .poll 3 false true,
      .adv 30, .poll 4 false false]
    s.admits.map Prod.snd = [0, 0, 100, 130] ∧ s.lim.ts = [100, 130] := by decide

/-- Non-vacuity (sliding counter): limit 2, bucket 1000: two grants in the first bucket; at the
rotation the previous bucket still weighs 2, at t = 1500 it weighs 1 and one more call fits. -/
example :
    let cfg : Cfg := { kind := .counter, limit := 2, period := 1000, timeout := 0 }
    let s := run cfg [.arrive 1 ⟨0, .ok⟩, .arrive 2 ⟨0, .ok⟩, .arrive 3 ⟨0, .ok⟩, .arrive 4 ⟨0, .ok⟩,
      .poll 1 false false, .poll 2 false false, .adv 1000, .poll 3 true false, .adv 500, .poll 4 false false]
    s.admits.map Prod.snd = [0, 0, 1500] ∧ s.lim.wins = [(1000, [1500]), (0, [0, 0])] ∧
    phaseOf s 3 = some (.done false) := by decide

end TR.Props.C02
