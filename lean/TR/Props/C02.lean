import TR.Lemmas.RateLimiter
/-!
# C02 — the rate limiter admits at most `limit_for_period` calls per window

Quantification: all three window types, every `limit ≥ 1`, every `refresh_period ≥ 1` tick, every
`timeout_duration` (zero, below, equal to, above the period), every list of operations — i.e. any
number of callers, every arrival / poll / cancellation order, every instant (time only moves by
`adv`, so instants are non-decreasing; several operations may share one instant, including
instants exactly on a window boundary), every inner script, and every allowed value of the
observed choices (`rej`, `woke`). Each `try_acquire` is one critical section under the limiter's
mutex, so a list of operations is every schedule.

`(run cfg ops).admits` is the list of `(caller, instant)` of the inner calls made so far;
`admit_iff_granted` ties it to the `inner_call` events of the trace on one side and to the
limiter's grants on the other.
-/
namespace TR.Props.C02
open TR TR.RateLimiter

/-- A call reaches the wrapped service iff a `try_acquire` made for it took a permit, for callers
admitted at once and after waiting alike: the `inner_call` events of the trace are, in order, the
recorded admissions, and the admission instants are, in order, exactly the instants at which a
`try_acquire` answered "granted" (so `Ok(Duration::ZERO)` never stands for a zero wait). -/
theorem admit_iff_granted (cfg : Cfg) (hL : 1 ≤ cfg.limit) (hP : 1 ≤ cfg.period) (ops : List Op) :
    callList (run cfg ops).log = (run cfg ops).admits.map Prod.fst ∧
    (run cfg ops).admits.map Prod.snd = (run cfg ops).lim.grants := by
  have h := inv_reachable cfg hL hP ops
  exact ⟨h.calls, by have := h.grants; simpa using this⟩

/-- One step, first poll: the caller reaches the inner service in this step only if its
`try_acquire` took a permit at this instant. -/
theorem admission_at_once_is_a_grant (cfg : Cfg) (hL : 1 ≤ cfg.limit)
    (ops : List Op) (c : Nat) (rej woke : Bool)
    (hph : phaseOf (run cfg ops) c = some .fresh)
    (hadm : Admitted (phaseOf (stepS cfg (run cfg ops) (.poll c rej woke)) c)) :
    (room cfg (run cfg ops).lim (run cfg ops).now).2 = true ∧
    (stepS cfg (run cfg ops) (.poll c rej woke)).lim.grants = (run cfg ops).lim.grants ++ [(run cfg ops).now] :=
  let h := fresh_admission cfg (run cfg ops) c rej woke hL hph hadm
  ⟨h.1, h.2.1⟩

/-- Fixed window: the limiter's own window starts cut time into consecutive windows
`[s_k, s_{k+1})` at least `refresh_period` apart, every admission lies in the window it is filed
under, no window holds more than `limit_for_period` admissions (`Cut`), and the admissions filed
are exactly all inner calls (`flat … = admits`). -/
theorem fixed_windows (cfg : Cfg) (hk : cfg.kind = .fixed) (hL : 1 ≤ cfg.limit) (hP : 1 ≤ cfg.period)
    (ops : List Op) :
    Cut cfg.period cfg.limit (run cfg ops).lim.wins ∧
    flat (run cfg ops).lim.wins = (run cfg ops).admits.map Prod.snd := by
  have h := inv_reachable cfg hL hP ops
  have hw := h.lim.win (by rw [hk]; decide)
  exact ⟨hw.cut, by rw [hw.flat]; have := h.grants; simpa using this.symm⟩

/-- Sliding counter: the same statement with the limiter's bucket starts as the cut. -/
theorem counter_windows (cfg : Cfg) (hk : cfg.kind = .counter) (hL : 1 ≤ cfg.limit) (hP : 1 ≤ cfg.period)
    (ops : List Op) :
    Cut cfg.period cfg.limit (run cfg ops).lim.wins ∧
    flat (run cfg ops).lim.wins = (run cfg ops).admits.map Prod.snd := by
  have h := inv_reachable cfg hL hP ops
  have hw := h.lim.win (by rw [hk]; decide)
  exact ⟨hw.cut, by rw [hw.flat]; have := h.grants; simpa using this.symm⟩

/-- Sliding log: any `limit_for_period + 1` consecutive admissions span at least
`refresh_period`: `a[i + L] − a[i] ≥ P` for the admission instants `a`, for all `i`. -/
theorem log_span (cfg : Cfg) (hk : cfg.kind = .slog) (hL : 1 ≤ cfg.limit) (hP : 1 ≤ cfg.period)
    (ops : List Op) (i : Nat)
    (hi : i + cfg.limit < ((run cfg ops).admits.map Prod.snd).length) :
    ((run cfg ops).admits.map Prod.snd)[i]'(by omega) + cfg.period
      ≤ ((run cfg ops).admits.map Prod.snd)[i + cfg.limit] := by
  have h := inv_reachable cfg hL hP ops
  have hg : (run cfg ops).admits.map Prod.snd = (run cfg ops).lim.grants := by
    have := h.grants; simpa using this
  have hs := (h.lim.slog hk).span
  simp only [hg] at hi ⊢
  exact hs i hi

/-- Readiness of the wrapped service never touches the budget: an arrival (whether the caller gets
its call future or is turned away because the wrapped service is not ready — `poll_ready` pending)
and a change of the wrapped service's readiness leave the limiter, hence its permits, and the
admissions as they are. In particular no permit is ever held by a request that waits for the
wrapped service to become ready: permits are only taken by `try_acquire` inside a poll, and the
inner call is made in that very step (`admit_iff_granted`), on the instance whose readiness the
caller observed before `call`. -/
theorem readiness_takes_no_permit (cfg : Cfg) (s : State) (c : Nat) (sc : Step) (ms : Nat) :
    (stepS cfg s (.arrive c sc)).lim = s.lim ∧ (stepS cfg s (.arrive c sc)).admits = s.admits ∧
    (stepS cfg s (.busy ms)).lim = s.lim ∧ (stepS cfg s (.busy ms)).admits = s.admits := by
  refine ⟨?_, ?_, rfl, rfl⟩ <;>
  · simp only [stepS]
    split
    · rfl
    · split <;> rfl

/-- While the wrapped service is not ready a new caller is turned away before `call`: it gets
`notready`, is finished, and (by `C15.not_ready_never_inner`) never reaches the wrapped service. -/
theorem not_ready_turned_away (cfg : Cfg) (s : State) (c : Nat) (sc : Step)
    (hnew : phaseOf s c = none) (hbusy : s.now < s.busyUntil) :
    stepS cfg s (.arrive c sc) = notReadyCall s c := by
  simp [stepS, hnew, hbusy]

/-- Every `inner_call` line the model predicts says `ready=1`: the wrapped service is only ever
called on an instance that has reported ready (Tower readiness contract). -/
theorem calls_only_ready (e : Ev) (c k tag : Nat) (r : Bool) (h : wire e = .innerCallX c k tag r) :
    r = true := by
  cases e <;> simp [wire] at h <;> exact h.2.2.2

/-- A failed or (scripted) pending `poll_ready` of the wrapped service — answered to the caller by
`RateLimiter::poll_ready` before any call exists — takes no permit and makes no admission either,
whatever else is in flight or asleep on other handles at that moment. -/
theorem readiness_error_takes_no_permit (cfg : Cfg) (s : State) (c : Nat) (err : Bool) :
    (stepS cfg s (.turnedAway c err)).lim = s.lim ∧ (stepS cfg s (.turnedAway c err)).admits = s.admits := by
  simp only [stepS]
  split
  · exact ⟨rfl, rfl⟩
  · cases err <;> exact ⟨rfl, rfl⟩

/-! ### Several services built from one layer value; presets

"Through one rate limiter (all clones)": the limiter belongs to a *service* (`RateLimiter::new` makes it) and is
shared by the clones of that service. A second service built from the same layer value (or from a clone of the
layer) gets a limiter of its own, whose first window starts when that service is built. -/

/-- Independence: an operation addressed to service `k` (a call on any handle of it, a poll or the cancellation
of one of its callers) leaves the limiter and the callers of every other service exactly as they are. -/
theorem services_independent (cfg : Cfg) (f : Fleet) (op : FOp) (k j : Nat)
    (ht : target f op = some k) (hj : j ≠ k) :
    lookup (fstep cfg f op).1.insts j = lookup f.insts j :=
  fstep_other cfg f op k j ht hj

/-- Every service of the fleet is one rate limiter in the sense of this file: its state is reached by a sequence
of single-limiter operations (its own callers' operations and the passage of time since it was built), so every
theorem above and in `C15` holds for it — in particular: -/
theorem each_service_is_one_limiter (cfg : Cfg) (ops : List FOp) (k : Nat) (s : State)
    (h : lookup (frun cfg ops).insts k = some s) : ∃ ops', s = run cfg ops' :=
  frun_reach cfg ops k s h

/-- … each service, separately, admits at most `limit_for_period` calls per window of its own (fixed window and
sliding counter), and its admissions are exactly its limiter's grants … -/
theorem each_service_windows (cfg : Cfg) (hk : cfg.kind = .fixed ∨ cfg.kind = .counter) (hL : 1 ≤ cfg.limit)
    (hP : 1 ≤ cfg.period) (ops : List FOp) (k : Nat) (s : State) (h : lookup (frun cfg ops).insts k = some s) :
    Cut cfg.period cfg.limit s.lim.wins ∧ flat s.lim.wins = s.admits.map Prod.snd := by
  obtain ⟨ops', rfl⟩ := frun_reach cfg ops k s h
  rcases hk with hk | hk
  · exact fixed_windows cfg hk hL hP ops'
  · exact counter_windows cfg hk hL hP ops'

/-- … and, for the sliding log, any `limit_for_period + 1` consecutive admissions of one service span at least
`refresh_period`. -/
theorem each_service_log_span (cfg : Cfg) (hk : cfg.kind = .slog) (hL : 1 ≤ cfg.limit) (hP : 1 ≤ cfg.period)
    (ops : List FOp) (k : Nat) (s : State) (h : lookup (frun cfg ops).insts k = some s) (i : Nat)
    (hi : i + cfg.limit < (s.admits.map Prod.snd).length) :
    (s.admits.map Prod.snd)[i]'(by omega) + cfg.period ≤ (s.admits.map Prod.snd)[i + cfg.limit] := by
  obtain ⟨ops', rfl⟩ := frun_reach cfg ops k s h
  exact log_span cfg hk hL hP ops' i hi

/-- The preset constructors (`RateLimiterLayer::per_second(n)`, `per_minute(n)`, `burst(rate, burst)`) and the
builder's defaults, with their documented configurations, meet the hypotheses of the theorems of this file and of
`C15` whenever the resulting limit is at least one, in either tick (`u` ticks per millisecond, `u ≥ 1`). -/
theorem presets_meet_hypotheses (u n rate b : Nat) (hu : 1 ≤ u) (hn : 1 ≤ n) (hr : 1 ≤ rate + b) :
    (1 ≤ (scale u (perSecond n)).limit ∧ 1 ≤ (scale u (perSecond n)).period ∧ (scale u (perSecond n)).kind = .fixed) ∧
    (1 ≤ (scale u (perMinute n)).limit ∧ 1 ≤ (scale u (perMinute n)).period ∧ (scale u (perMinute n)).kind = .fixed) ∧
    (1 ≤ (scale u (burst rate b)).limit ∧ 1 ≤ (scale u (burst rate b)).period ∧ (scale u (burst rate b)).kind = .counter) ∧
    (1 ≤ (scale u builderDefaults).limit ∧ 1 ≤ (scale u builderDefaults).period) := by
  have h1 : ∀ p, 1 ≤ p → 1 ≤ p * u := fun p hp => Nat.le_trans hu (Nat.le_mul_of_pos_left u (by omega))
  exact ⟨⟨hn, h1 1000 (by omega), rfl⟩, ⟨hn, h1 60000 (by omega), rfl⟩, ⟨hr, h1 1000 (by omega), rfl⟩,
    ⟨Nat.le_of_ble_eq_true rfl, h1 1000 (by omega)⟩⟩

/-- `per_second(n)`: at most `n` admissions in each of the limiter's windows, which are at least 1000 ms apart. -/
theorem per_second_windows (n : Nat) (hn : 1 ≤ n) (ops : List Op) :
    Cut 1000 n (run (perSecond n) ops).lim.wins ∧
    flat (run (perSecond n) ops).lim.wins = (run (perSecond n) ops).admits.map Prod.snd :=
  fixed_windows (perSecond n) rfl hn (Nat.le_of_ble_eq_true rfl) ops

/-- `burst(rate, burst)`: at most `rate + burst` admissions in each of the sliding counter's buckets of 1000 ms. -/
theorem burst_windows (rate b : Nat) (hr : 1 ≤ rate + b) (ops : List Op) :
    Cut 1000 (rate + b) (run (burst rate b) ops).lim.wins ∧
    flat (run (burst rate b) ops).lim.wins = (run (burst rate b) ops).admits.map Prod.snd :=
  counter_windows (burst rate b) rfl hr (Nat.le_of_ble_eq_true rfl) ops

/-- Non-vacuity (two services from one layer, limit 1, period 100, fixed). Service 0 is built at t = 0 and admits
caller 1; caller 2 finds its window used up. Service 1 is built at t = 30 by its first caller (3) and admits it at
once — its window is its own, and runs from 30 to 130: at t = 100 caller 4 (service 1) is rejected while caller 5
(service 0, new window at 100) is admitted; at t = 130 service 1 admits caller 6. The calls of the wrapped
service are numbered through the case. -/
example :
    let cfg : Cfg := { kind := .fixed, limit := 1, period := 100, timeout := 0 }
    ftrace cfg [.arrive 0 1 ⟨0, .ok⟩, .poll 1 false false, .arrive 0 2 ⟨0, .ok⟩, .poll 2 false false, .adv 30,
      .arrive 1 3 ⟨0, .ok⟩, .poll 3 false false, .adv 70, .arrive 1 4 ⟨0, .ok⟩, .poll 4 false false,
      .arrive 0 5 ⟨0, .ok⟩, .poll 5 false false, .adv 30, .arrive 1 6 ⟨0, .ok⟩, .poll 6 false false]
    = [.innerCall 1 0, .innerDone 1 0 .ok, .result 1 (.ok 0), .result 2 .rateLimited,
       .innerCall 3 1, .innerDone 3 1 .ok, .result 3 (.ok 1), .result 4 .rateLimited,
       .innerCall 5 2, .innerDone 5 2 .ok, .result 5 (.ok 2),
       .innerCall 6 3, .innerDone 6 3 .ok, .result 6 (.ok 3)] := by decide

/-- Non-vacuity (readiness of the wrapped service, scripted: pending, then an error): callers 1 and 2 are turned
away before `call` — the second with the wrapped service's error — and take nothing; caller 3 gets the only permit. -/
example :
    let cfg : Cfg := { kind := .slog, limit := 1, period := 100, timeout := 0 }
    ftrace cfg [.ready ['p', 'e'], .arrive 0 1 ⟨0, .ok⟩, .arrive 0 2 ⟨0, .ok⟩, .arrive 0 3 ⟨0, .ok⟩,
      .poll 3 false false]
    = [.result 1 .notReady, readyErrEv 2, .result 2 .notReady,
       .innerCall 3 0, .innerDone 3 0 .ok, .result 3 (.ok 0)] := by decide

/-- Non-vacuity (wrapped service busy across three windows, limit 1, fixed): the callers of the
busy windows are turned away without a permit, so when the wrapped service is ready again only one
call reaches it — nothing was banked. -/
example :
    let cfg : Cfg := { kind := .fixed, limit := 1, period := 100, timeout := 0 }
    let s := run cfg [.arrive 1 ⟨0, .ok⟩, .poll 1 false false, .busy 250, .adv 100, .arrive 2 ⟨0, .ok⟩,
      .adv 100, .arrive 3 ⟨0, .ok⟩, .adv 50, .arrive 4 ⟨0, .ok⟩, .arrive 5 ⟨0, .ok⟩,
      .poll 4 false false, .poll 5 false false]
    s.admits = [(1, 0), (4, 250)] ∧ phaseOf s 2 = some (.done false) ∧ phaseOf s 3 = some (.done false) ∧
    Ev.result 2 .notReady ∈ s.log ∧ Ev.result 5 .rateLimited ∈ s.log := by decide

/-- Non-vacuity (fixed window, the scenario of the property text): limit 2, period 100,
timeout 250 > period, six callers at t = 0. Two are admitted at once, four sleep; at t = 100
two of the sleepers are admitted and two are rejected: two windows, two admissions each. -/
example :
    let cfg : Cfg := { kind := .fixed, limit := 2, period := 100, timeout := 250 }
    let arr := (List.range 6).map fun c => Op.arrive (c + 1) ⟨0, .ok⟩
    let p0 := (List.range 6).map fun c => Op.poll (c + 1) false false
    let p1 := (List.range 4).map fun c => Op.poll (c + 3) false true
    let s := run cfg (arr ++ p0 ++ [.adv 100] ++ p1)
    s.admits = [(1, 0), (2, 0), (3, 100), (4, 100)] ∧
    s.lim.wins = [(100, [100, 100]), (0, [0, 0])] ∧
    phaseOf s 5 = some (.done false) ∧ phaseOf s 6 = some (.done false) := by decide

/-- Non-vacuity (sliding log): limit 2, period 100: admissions at 0, 0, 100, 130. -/
example :
    let cfg : Cfg := { kind := .slog, limit := 2, period := 100, timeout := 50 }
    let s := run cfg [.arrive 1 ⟨0, .ok⟩, .arrive 2 ⟨0, .ok⟩, .arrive 3 ⟨0, .ok⟩, .arrive 4 ⟨0, .ok⟩,
      .poll 1 false false, .poll 2 false false, .adv 60, .poll 3 false false, .adv 40, .poll 3 false true,
      .adv 30, .poll 4 false false]
    s.admits.map Prod.snd = [0, 0, 100, 130] ∧ s.lim.ts = [100, 130] := by decide

/-- Non-vacuity (sliding counter): limit 2, bucket 1000: two grants in the first bucket; at the
rotation the previous bucket still weighs 2, at t = 1500 it weighs 1 and one more call fits. -/
example :
    let cfg : Cfg := { kind := .counter, limit := 2, period := 1000, timeout := 0 }
    let s := run cfg [.arrive 1 ⟨0, .ok⟩, .arrive 2 ⟨0, .ok⟩, .arrive 3 ⟨0, .ok⟩, .arrive 4 ⟨0, .ok⟩,
      .poll 1 false false, .poll 2 false false, .adv 1000, .poll 3 true false, .adv 500, .poll 4 false false]
    s.admits.map Prod.snd = [0, 0, 1500] ∧ s.lim.wins = [(1000, [1500]), (0, [0, 0])] ∧
    phaseOf s 3 = some (.done false) := by decide

end TR.Props.C02
