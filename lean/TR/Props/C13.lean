import TR.Lemmas.Limit
import TR.Lemmas.LimitTrace
import TR.Lemmas.Adaptive
import TR.Lemmas.AdaptiveMulti
/-!
# C13 — the adaptive limiter keeps its limit in bounds and its in-flight count exact

Part A (`TR.Limit`): the limit algorithms AIMD (`AimdController`, as used by the adaptive `Aimd`
and by the retry `AimdBudget`) and Vegas, one model step per atomic operation.
Quantification: every configuration with `min ≤ max` and ANY decrease function `d` with `d r ≤ r` on the values
within the bounds (`Limit.DecOk` — the exact `⌊r·p/q⌋`, the binary64 arithmetic `(r as f64 * factor) as usize` of the
code for every factor `p/q ≤ 1` below 2^53, or anything else; every initial limit, increase, threshold, alpha,
beta, min_samples), every number of threads,
every feedback program of every thread (successes with any latency, failures, `limit()` reads),
every schedule (list of turns of any length, including turns of finished or non-existent
threads, and turns in which a `compare_exchange_weak` fails spuriously: `Limit.Turn.weak`).

Part B (`TR.Adaptive`): the service. Quantification: every such configuration, every list of
operations (= every arrival, poll, cancellation, time-advance order; inner calls that succeed,
fail, panic or never complete; an inner service whose `call()` itself panics before it has returned
a future — `arrive … callpanic=1`, on a fresh clone, a checked clone or a persistent handle —;
readiness checks made ahead of the call; probes; callers that
keep a finished call future alive — `arrive … keep=1` — and let go of it at any later point;
persistent handles polled for readiness any number of times over an inner service that answers
ready / pending / error per poll — `manual ready h= rdy=`, `arrive … h=` —; rounds of threads).

Part C (`TR.Adaptive`, interleaving model): clones of the service on any number of threads, every
thread program (acquire = `poll_ready` + `call`, complete / fail / panic, drop, reads, direct
feedback), every schedule of the yield points (one per hooked atomic operation; `weak` turns included). The counter,
the bounds AND the readiness clauses in the strongest form that is true when `poll_ready`'s two loads and `call`'s
`fetch_add` are separate atomic steps (`threads_check_exact_at_its_turn`, `threads_every_check_exact`,
`threads_admitted_on_a_passed_check`, `threads_overshoot_bounded`).

Part E (`TR.Adaptive`, `Multi`): any number of services built from one layer value or from clones of it (`svc=<k>`), every
sequence of operations on them.

Part D (`TR.Limit`, protocol level): every value-level trace of the hooked atomics that the checker
`TR.Limit.checkTrace` accepts — any number of threads, feedback operations and atomic operations, in any
interleaving, however an implementation sequences its loads, stores and read-modify-writes (spurious failures of
weak compare-exchanges are reads like any other). The End markers of the trace carry what every call reported; the
checker validates them and the thread outputs compared at protocol level are a function of them (`thOuts`).
-/
namespace TR.Props.C13
open TR

/-! ## Part A — the limit stays within `[min_limit, max_limit]` under all interleavings -/
section limit
open TR.Limit

/-- The bound at one state of the algorithm: the limit cell, **every value ever stored in it**
(`stores` is the ghost history of the cell), every thread register that holds a loaded limit,
and every value a `limit()` call has returned lie in `[min, max]`. -/
def AllInBounds (cfg : Cfg) (s : State) : Prop :=
  InB cfg s.cells.limit ∧
  (∀ v ∈ s.cells.stores, InB cfg v) ∧
  (∀ th ∈ s.threads, (∀ r, th.ph.limitReg = some r → InB cfg r) ∧ (∀ v ∈ th.out, InB cfg v))

theorem allInBounds_of_inv {cfg : Cfg} {s : State} (h : Inv cfg s) : AllInBounds cfg s :=
  ⟨h.cells.lim, h.cells.stores, fun th hth => ⟨(h.threads th hth).ph, (h.threads th hth).out⟩⟩

/-- **The adaptive limit stays within `[min_limit, max_limit]`** for every configuration with
`min ≤ max` and decrease factor `≤ 1`, for AIMD and for Vegas, for all thread programs and all
schedules of their atomic steps: after any prefix of any schedule every value ever stored in
the limit cell, every register holding a loaded limit and every value returned by `limit()` is
in bounds. (A schedule's prefixes are schedules, so this covers every intermediate state.)
The proof does not look at the rtt cells: Vegas's three-way choice is arbitrary in the invariant. -/
theorem limit_in_bounds (cfg : Cfg) (hmm : cfg.min ≤ cfg.max) (hf : Limit.DecOk cfg)
    (progs : List (List FOp)) (sched : List Limit.Turn) :
    AllInBounds cfg (runSched cfg (init cfg progs) sched) :=
  allInBounds_of_inv (runSched_inv ⟨hmm, hf⟩ sched (init_inv hmm progs))

/-- **… for an arbitrary decrease function.** `record_failure` stores `max(d current, min)`; whatever `d : Nat → Nat` is —
`⌊r·p/q⌋`, the two binary64 roundings and the truncation of `(current as f64 * decrease_factor) as usize` for ANY
`f64` factor in `[0, 1]`, a table, … — as long as `d r ≤ r`, every value ever stored, every register and every
`limit()` result stays within `[min, max]`, for all programs and schedules (spurious CAS failures included). -/
theorem limit_in_bounds_any_decrease (cfg : Cfg) (d : Nat → Nat) (hmm : cfg.min ≤ cfg.max) (hd : ∀ r, d r ≤ r)
    (progs : List (List FOp)) (sched : List Turn) :
    AllInBounds { cfg with dec := d } (runSched { cfg with dec := d } (init { cfg with dec := d } progs) sched) :=
  limit_in_bounds { cfg with dec := d } hmm (fun r _ => hd r) progs sched

/-- **The code's own arithmetic never increases**: for every factor `p/q ≤ 1` and every `r < 2^53` (where `usize as f64` is
exact) `(r as f64 * (p as f64 / q as f64)) as usize ≤ r` — `f64Dec` is the exact transcription of the two roundings
(to nearest, ties to even) and the truncation in `Nat` arithmetic. -/
theorem f64_decrease_never_increases (p q r : Nat) (h : p ≤ q) (hr : r < 2 ^ 53) : f64Dec p q r ≤ r :=
  f64Dec_le h hr

/-- … hence the bound for the algorithm as the code computes it, for every decrease factor `p/q ≤ 1` — dyadic or not —
and every `max_limit < 2^53`. -/
theorem limit_in_bounds_f64_factor (cfg : Cfg) (p q : Nat) (hmm : cfg.min ≤ cfg.max) (hf : p ≤ q) (hmax : cfg.max < 2 ^ 53)
    (progs : List (List FOp)) (sched : List Turn) :
    AllInBounds { cfg with dec := f64Dec p q }
      (runSched { cfg with dec := f64Dec p q } (init { cfg with dec := f64Dec p q } progs) sched) :=
  limit_in_bounds { cfg with dec := f64Dec p q } hmm (decOk_f64 (cfg := { cfg with dec := f64Dec p q }) hf hmax rfl) progs sched

/-- Every configuration the line protocol builds (the cases the correspondence check runs) with `fnum ≤ fden` and
`max < 2^53` is one the theorems speak about. -/
theorem parsed_config_covered (kv : Kv) (hf : kv.nat "fnum" 1 ≤ kv.nat "fden" 2) (hmax : (parseCfg kv).max < 2 ^ 53) :
    DecOk (parseCfg kv) :=
  decOk_f64 hf hmax rfl

/-- Non-vacuity / what the generalisation buys: for the factor 0.7 the code's result differs from `⌊r·7/10⌋` (90 ↦ 62, not
63: `0.7` is not a binary fraction) — both are covered; the default configuration satisfies `DecOk`; a factor above 1
does not (and the bound is then false: outside the property). -/
example : f64Dec 7 10 90 = 62 ∧ ratioDec 7 10 90 = 63 ∧ f64Dec 58 100 100 = 57 ∧ f64Dec 1 2 9 = 4 ∧ f64Dec 0 1 9 = 0 ∧
    f64Dec 1 1 9 = 9 ∧ f64Dec 1 3 9007199254740991 ≤ 9007199254740991 ∧ f64Dec 3 2 4 = 6 := by decide

example : DecOk ({} : Cfg) := decOk_half rfl

example : DecOk { ({} : Cfg) with dec := f64Dec 7 10 } := decOk_f64 (p := 7) (q := 10) (by decide) (by decide) rfl

/-- The same after the threads have been run to completion behind the schedule (what the
harness does: remaining threads lowest id first): the final limit is in bounds. -/
theorem limit_in_bounds_final (cfg : Cfg) (hmm : cfg.min ≤ cfg.max) (hf : Limit.DecOk cfg)
    (progs : List (List FOp)) (sched : List Limit.Turn) :
    AllInBounds cfg (exec cfg (init cfg progs) sched) :=
  allInBounds_of_inv (exec_inv ⟨hmm, hf⟩ sched (init_inv hmm progs))

/-- The limit cell always holds the last value stored (the ghost history is the cell's history). -/
theorem limit_is_last_store (cfg : Cfg) (hmm : cfg.min ≤ cfg.max) (hf : Limit.DecOk cfg)
    (progs : List (List FOp)) (sched : List Limit.Turn) :
    (runSched cfg (init cfg progs) sched).cells.stores.getLast? =
      some (runSched cfg (init cfg progs) sched).cells.limit :=
  (runSched_inv ⟨hmm, hf⟩ sched (init_inv hmm progs)).cells.last

/-- Vegas's choice really is irrelevant: whatever queue estimate the float arithmetic yields,
the stored value is in bounds. -/
theorem vegas_choice_arbitrary (cfg : Cfg) (hmm : cfg.min ≤ cfg.max) (cl q : Nat) (h : InB cfg cl) :
    InB cfg (vegasNew cfg cl q) := vegasNew_inB hmm h q

/-- Several rounds: from any cells that are in bounds (e.g. left by earlier rounds or by a
sequential warm-up), any further threads under any schedule keep the bounds. -/
theorem limit_in_bounds_rounds (cfg : Cfg) (hmm : cfg.min ≤ cfg.max) (hf : Limit.DecOk cfg)
    (c : Cells) (hc : CellsOk cfg c) (progs : List (List FOp)) (sched : List Limit.Turn) :
    AllInBounds cfg (exec cfg { cells := c, threads := progs.map fun p => { prog := p } } sched) :=
  allInBounds_of_inv (exec_inv ⟨hmm, hf⟩ sched (start_inv hc progs))

/-- Non-vacuity of `CellsOk` (the hypothesis of `limit_in_bounds_rounds`): the constructor's cells, and the cells any
sequential warm-up leaves behind (AIMD, limit 4 → 2 → 3), meet it. -/
example :
    let cfg : Cfg := { kind := .aimd, min := 2, max := 9, initial := 4 }
    CellsOk cfg (initCells cfg) ∧ CellsOk cfg (seqOps cfg (initCells cfg) [.fail, .succ 0, .read]).1 ∧
    (seqOps cfg (initCells cfg) [.fail, .succ 0, .read]).1.stores = [4, 2, 3] :=
  ⟨initCells_ok (by decide), (seqOps_ok ⟨by decide, decOk_half rfl⟩ _ _ (initCells_ok (by decide))).1, by decide⟩

/-- Sequential use (one thread alone; the semantics the service model uses): any feedback
program leaves the limit in bounds and every `limit()` it made returned a value in bounds. -/
theorem seq_limit_in_bounds (cfg : Cfg) (hmm : cfg.min ≤ cfg.max) (hf : Limit.DecOk cfg)
    (prog : List FOp) :
    InB cfg (seqOps cfg (initCells cfg) prog).1.limit ∧ ∀ v ∈ (seqOps cfg (initCells cfg) prog).2, InB cfg v :=
  ⟨(seqOps_ok ⟨hmm, hf⟩ _ prog (initCells_ok hmm)).1.lim, (seqOps_ok ⟨hmm, hf⟩ _ prog (initCells_ok hmm)).2⟩

/-- The configuration `AimdBudget::new` gives its limit controller: initial = max = `max_budget`,
min = `min_budget`, `increase_by = 1`, the budget's decrease factor `p/q`. -/
def budgetCfg (minBudget maxBudget : Nat) (d : Nat → Nat) : Cfg :=
  { kind := .aimd, min := minBudget, max := maxBudget, initial := maxBudget, inc := 1, dec := d, thrNs := 0 }

/-- **The AIMD controller inside the retry AIMD budget obeys the same bound** (it is the same
controller): `deposit` calls `record_success` (here `succ 0`), an exhausted `try_withdraw` calls
`record_failure`, `current_max`/`deposit` read `limit()`. For all budgets with
`min_budget ≤ max_budget`, factor `p/q ≤ 1`, all thread programs and schedules the budget's
current maximum stays in `[min_budget, max_budget]`. (Used by C08's `capped`.) -/
theorem aimd_budget_controller_in_bounds (minBudget maxBudget : Nat) (d : Nat → Nat) (hmm : minBudget ≤ maxBudget)
    (hf : ∀ r, d r ≤ r) (progs : List (List FOp)) (sched : List Limit.Turn) :
    AllInBounds (budgetCfg minBudget maxBudget d)
      (runSched (budgetCfg minBudget maxBudget d) (init (budgetCfg minBudget maxBudget d) progs) sched) :=
  limit_in_bounds _ hmm (fun r _ => hf r) progs sched

/-! ### the additive step in `usize` arithmetic: it may saturate, the clamp comes after

`increase_by` (and the `n` of `record_successes(n)`) may be any `usize`: `increase_by(usize::MAX)` — "straight to the ceiling
on the first good response" — is a legal configuration, and then `current + increase_by` does not fit a `usize`. The code
computes `current.saturating_add(increase_by).min(max_limit)` (`record_successes`:
`current.saturating_add(increase_by.saturating_mul(n)).min(max_limit)`). The model computes `min (r + inc) max` in `Nat`; the
theorems below are why that is the same number for EVERY `increase_by` / `n`, so that the theorems of this part (which
quantify over every `cfg.inc : Nat`) speak about the code also where its arithmetic saturates. A variant that lets the
overflow branch escape the clamp (the fallback `usize::MAX` stored as it is) stores a value ≠ `aimdSuccNew` — the
step-level comparison and `checkTrace` (`allowed`) both refuse it. -/

/-- **`current.saturating_add(increase_by).min(max_limit)` = the model's `min (r + inc) max`**, whatever `increase_by`, for
every `max_limit` that is a `usize`; `record_successes(n)` likewise, with both saturations. -/
theorem saturating_step_is_model (cfg : Cfg) (hmax : cfg.max ≤ u64Max) (n r : Nat) :
    aimdSuccNewSat cfg r = aimdSuccNew cfg r ∧ aimdSuccsNewSat cfg n r = aimdSuccsNew cfg n r :=
  ⟨aimdSuccNewSat_eq hmax r, aimdSuccsNewSat_eq hmax n r⟩

/-- … hence what the code stores after a success is within the bounds **however large the step is** — in particular
when the sum overflows `usize` (the result of the saturation, `usize::MAX`, is never what is stored unless
`max_limit = usize::MAX`). -/
theorem saturating_step_in_bounds (cfg : Cfg) (hmm : cfg.min ≤ cfg.max) (hmax : cfg.max ≤ u64Max) (n r : Nat)
    (hr : InB cfg r) : InB cfg (aimdSuccNewSat cfg r) ∧ InB cfg (aimdSuccsNewSat cfg n r) := by
  rw [aimdSuccNewSat_eq hmax, aimdSuccsNewSat_eq hmax]
  exact ⟨aimdSuccNew_inB hmm hr, aimdSuccsNew_inB hmm n hr⟩

/-- Non-vacuity: limit 5 in [1, 10], `increase_by = usize::MAX`: the sum saturates, 10 is stored — and `usize::MAX`, which
the overflow branch of a `checked_add` variant would store, is not an allowed write. Bare controller, `increase_by = 2^32`,
`record_successes(2^32)`: the product saturates; again 10. -/
example :
    let cfg : Cfg := { min := 1, max := 10, initial := 5, inc := u64Max }
    sat64 (5 + cfg.inc) = u64Max ∧ aimdSuccNewSat cfg 5 = 10 ∧ (seqOps cfg (initCells cfg) [.succ 0, .read]).2 = [10]
      ∧ aimdSuccNew cfg 5 ≠ u64Max
      -- the protocol-level checker: a success that has read 5 may write 10 and nothing else — not `usize::MAX`
      ∧ allowed cfg (.succ 0) 5 10 = true ∧ allowed cfg (.succ 0) 5 u64Max = false := by
  decide

example :
    let cfg : Cfg := { min := 1, max := 10, initial := 5, inc := 2 ^ 32, ctl := true }
    sat64 (cfg.inc * 2 ^ 32) = u64Max ∧ aimdSuccsNewSat cfg (2 ^ 32) 5 = 10
      ∧ (seqOps cfg (initCells cfg) (parseProg "NdL".toList)).2 = [10]
      ∧ allowed cfg (.succs (2 ^ 32)) 5 10 = true ∧ allowed cfg (.succs (2 ^ 32)) 5 u64Max = false := by
  decide

/-! ### spurious failures of `compare_exchange_weak` (Vegas's `update_rtt`, algorithm.rs:233)

Every theorem of this part quantifies over `List Turn`: a turn is `run tid` or `weak tid` — the same turn, except that
if the thread's next atomic operation is the weak compare-exchange it fails although the cell may hold the expected
value. What such a failure is: -/

/-- **A spurious failure is a schedulable non-effect**: it writes no cell (not the limit, not `min_rtt`), returns nothing,
finishes nothing; the thread only takes the cell's actual value as its new `current_min` and is again in front of the
`while` test. Where the next operation is not a weak compare-exchange a `weak` turn is an ordinary turn. -/
theorem weak_cas_failure_no_effect (cfg : Cfg) (c : Cells) (th : Thread) :
    (∀ th', weakFail c th = some th' →
        tstepW cfg c th true = (c, th') ∧ th'.prog = th.prog ∧ th'.out = th.out ∧
        ∃ rtt cm, th.ph = .vMin rtt cm ∧ th'.ph = afterMinLoad rtt c.minRtt) ∧
    (weakFail c th = none → tstepW cfg c th true = tstep cfg c th) ∧
    tstepW cfg c th false = tstep cfg c th := by
  refine ⟨?_, ?_, ?_⟩
  · intro th' h
    unfold weakFail at h
    split at h
    · next rtt cm hph =>
      cases h
      refine ⟨?_, rfl, rfl, rtt, cm, hph, rfl⟩
      simp [tstepW, weakFail, hph]
    · cases h
  · intro h; simp [tstepW, h]
  · simp [tstepW]

/-- … and when nobody has changed `min_rtt` meanwhile the whole turn is a stutter: the state after it is the state before
it (plus the line in the turn log). Any number of them can be inserted anywhere. -/
theorem weak_turn_stutters (cfg : Cfg) (s : State) (t : Nat) (th : Thread) (rtt : Nat)
    (hth : s.threads[t]? = some th) (hp : th.prog.isEmpty = false) (hph : th.ph = .vMin rtt s.cells.minRtt)
    (hlt : rtt < s.cells.minRtt) : stepT cfg s (.weak t) = say s s!"step {t} weak" := by
  have hset : s.threads.set t th = s.threads := by
    apply List.ext_getElem?
    intro i
    by_cases hi : t = i
    · subst hi; rw [List.getElem?_set_self (by exact (List.getElem?_eq_some_iff.mp hth).1)]; exact hth.symm
    · rw [List.getElem?_set_ne hi]
  have hw : tstepW cfg s.cells th true = (s.cells, th) := by
    simp only [tstepW, weakFail, hph, afterMinLoad, hlt, if_true]
    cases th; simp_all
  simp only [stepT, Turn.tid, Turn.isWeak, Turn.render, hth, hp, hw, hset]
  rfl

/-- Non-vacuity (Vegas, 9 samples of 2^21 ns seen): thread 0 records 2^20 ns — below the minimum, so it reaches the
compare-exchange after one turn. Two spurious failures leave everything as it was (`stores`, `min_rtt`, the thread's
phase); with or without them the run ends in the same cells. A spurious failure AFTER thread 1 has lowered `min_rtt` to
1 ns takes thread 0 out of the loop (the reloaded value is below its sample) exactly as a genuine failure does. -/
example :
    let cfg : Cfg := { kind := .vegas, min := 1, max := 8, initial := 4, alpha := 1, beta := 2 }
    let c := (seqOps cfg (initCells cfg) (List.replicate 9 (.succ (2 ^ 21)))).1
    let s0 : State := { cells := c, threads := [{ prog := [.succ (2 ^ 20)] }, { prog := [.succ 1] }] }
    (runSched cfg s0 [0]).threads.map (·.ph) = [.vMin (2 ^ 20) (2 ^ 21), .idle] ∧
    (runSched cfg s0 [0, .weak 0, .weak 0]).threads = (runSched cfg s0 [0]).threads ∧
    (runSched cfg s0 [0, .weak 0, .weak 0]).cells.minRtt = 2 ^ 21 ∧
    (exec cfg s0 [0, .weak 0, .weak 0, 1, .weak 1]).cells.stores = (exec cfg s0 [0, 1]).cells.stores ∧
    (exec cfg s0 [0, .weak 0, .weak 0, 1, .weak 1]).cells.minRtt = 1 ∧
    (runSched cfg s0 [0, 1, 1, .weak 0]).threads.map (·.ph) = [.vLdSm (2 ^ 20), .vLdSm 1] ∧
    (runSched cfg s0 [0, 1, 1, 0]).threads.map (·.ph) = [.vLdSm (2 ^ 20), .vLdSm 1] := by
  decide

/-- Non-vacuity (AIMD, granularity matters): two threads each record one success with
`increase_by = 2` from limit 4, max 9. Run one after the other the limit is 8; with the
schedule `[0,1,0,1]` (both load 4, both store 6) one increase is lost — the model distinguishes
the interleavings, and all of them are in bounds. -/
example :
    let cfg : Cfg := { kind := .aimd, min := 2, max := 9, initial := 4, inc := 2 }
    (runSched cfg (init cfg [[.succ 0], [.succ 0]]) [0, 0, 1, 1]).cells.stores = [4, 6, 8] ∧
    (runSched cfg (init cfg [[.succ 0], [.succ 0]]) [0, 1, 0, 1]).cells.stores = [4, 6, 6] ∧
    (runSched cfg (init cfg [[.fail, .read], [.succ 0]]) [1, 0, 0, 1, 0]).cells.stores = [4, 2, 6] ∧
    ((runSched cfg (init cfg [[.fail, .read], [.succ 0]]) [1, 0, 0, 1, 0]).threads.map (·.out)) = [[6], []] := by
  decide

/-- Non-vacuity (Vegas): after a warm-up of 9 samples of 2^21 ns the tenth sample makes Vegas
adjust; a slow sample (2^23 ns) interleaved with a failure of another thread: the failure halves
the limit between the slow thread's load and store, whose store then overwrites it. -/
example :
    let cfg : Cfg := { kind := .vegas, min := 1, max := 8, initial := 4, alpha := 1, beta := 2 }
    let c := (seqOps cfg (initCells cfg) (List.replicate 9 (.succ (2 ^ 21)))).1
    let s := exec cfg { cells := c, threads := [{ prog := [.succ (2 ^ 23)] }, { prog := [.fail, .read] }] }
              [0, 0, 0, 0, 0, 0, 0, 0, 1, 1, 0]
    c.stores = [4] ∧ c.count = 9 ∧ s.cells.stores = [4, 2, 3] ∧ s.threads.map (·.out) = [[], [3]] := by
  decide

end limit

/-! ## Part B — the in-flight count is exact; readiness is refused exactly at capacity -/
section service
open TR.Adaptive
open TR.Limit (Cfg InB)

/-- **`in_flight` is exact**: in every reachable state, for all arrival / completion /
cancellation / panic orders, the counter equals the number of calls really running (call
future alive, inner call started and not finished). A finished call future that its caller still
holds is not in `running` (`held_future_not_in_flight`). -/
theorem in_flight_exact (cfg : Cfg) (hmm : cfg.min ≤ cfg.max) (hf : Limit.DecOk cfg) (ops : List Op) :
    (run cfg ops).inFlight = (run cfg ops).running.length :=
  (inv_reachable ⟨hmm, hf⟩ ops).exact

/-- The same in the property's observables: the counter equals (inner calls started) −
(inner calls finished with any outcome, panicked or dropped) according to the event log. -/
theorem in_flight_matches_log (cfg : Cfg) (hmm : cfg.min ≤ cfg.max) (hf : Limit.DecOk cfg) (ops : List Op) :
    calls (run cfg ops).log = ended (run cfg ops).log + (run cfg ops).inFlight :=
  (inv_reachable ⟨hmm, hf⟩ ops).trace

/-- **After any history the limiter reports zero in flight once nothing is running** — histories with calls whose
inner `Service::call` panicked synchronously included (`Op.arriveX`; see `call_panic_frees_slot`). -/
theorem quiescent_zero (cfg : Cfg) (hmm : cfg.min ≤ cfg.max) (hf : Limit.DecOk cfg) (ops : List Op)
    (hq : (run cfg ops).running = []) : (run cfg ops).inFlight = 0 := by
  have := in_flight_exact cfg hmm hf ops
  rw [hq] at this; exact this

/-- **Readiness is refused for capacity iff `limit` or more calls are really in flight at that
step**: in every reachable state the comparison `poll_ready` makes (`atCapacity`, used by
`arrive`, `check` and the readiness probe) is true exactly when the number of running calls has
reached the algorithm's current limit. -/
theorem ready_iff_capacity (cfg : Cfg) (hmm : cfg.min ≤ cfg.max) (hf : Limit.DecOk cfg) (ops : List Op) :
    atCapacity (run cfg ops) = true ↔ (run cfg ops).running.length ≥ (run cfg ops).alg.limit := by
  have h := in_flight_exact cfg hmm hf ops
  simp only [atCapacity, decide_eq_true_eq]
  rw [h]

/-- Never refused while fewer than `limit` calls are in flight: a new caller arriving in a
reachable state with spare capacity is admitted in that step (its inner call starts). -/
theorem admitted_below_limit (cfg : Cfg) (hmm : cfg.min ≤ cfg.max) (hf : Limit.DecOk cfg) (ops : List Op)
    (c : Nat) (sc : Step) (keep : Bool) (hk : known (run cfg ops) c = false) (hc : c ∉ (run cfg ops).checked)
    (hcap : (run cfg ops).running.length < (run cfg ops).alg.limit) :
    (stepS cfg (run cfg ops) (.arrive c sc keep)).running = (run cfg ops).running ++ [c] ∧
    (stepS cfg (run cfg ops) (.arrive c sc keep)).inFlight = (run cfg ops).inFlight + 1 := by
  have h := ready_iff_capacity cfg hmm hf ops
  have hn : atCapacity (run cfg ops) = false := by
    cases hcp : atCapacity (run cfg ops)
    · rfl
    · have := h.mp hcp; omega
  exact arrive_below cfg _ c sc keep hk hc hn

/-- Never admitted at the limit: a caller that checks readiness with `limit` (or more) calls
already in flight is refused (`result c notready`); nothing is started and the counter is unchanged. -/
theorem refused_at_limit (cfg : Cfg) (hmm : cfg.min ≤ cfg.max) (hf : Limit.DecOk cfg) (ops : List Op)
    (c : Nat) (sc : Step) (keep : Bool) (hk : known (run cfg ops) c = false) (hc : c ∉ (run cfg ops).checked)
    (hcap : (run cfg ops).running.length ≥ (run cfg ops).alg.limit) :
    (stepS cfg (run cfg ops) (.arrive c sc keep)).running = (run cfg ops).running ∧
    (stepS cfg (run cfg ops) (.arrive c sc keep)).inFlight = (run cfg ops).inFlight ∧
    (stepS cfg (run cfg ops) (.arrive c sc keep)).log = (run cfg ops).log ++ [.result c .notReady] := by
  have h := (ready_iff_capacity cfg hmm hf ops).mpr hcap
  exact arrive_at cfg _ c sc keep hk hc h

/-- Every readiness check ever made (by an arriving caller, an ahead-of-time check or a probe)
was answered correctly: refused iff at least `limit` calls were running at that step. -/
theorem every_check_exact (cfg : Cfg) (hmm : cfg.min ≤ cfg.max) (hf : Limit.DecOk cfg) (ops : List Op) :
    ∀ k ∈ (run cfg ops).checks, (k.refused = true ↔ k.running ≥ k.limit) :=
  (inv_reachable ⟨hmm, hf⟩ ops).checks

/-- A caller that holds a ready clone (checked ahead of its `call`) checked at a step where
fewer than `limit` calls were in flight. (`poll_ready` reserves nothing: what is proved is the
check, as the property states it.) -/
theorem checked_had_capacity (cfg : Cfg) (hmm : cfg.min ≤ cfg.max) (hf : Limit.DecOk cfg) (ops : List Op) :
    ∀ c ∈ (run cfg ops).checked, ∃ k ∈ (run cfg ops).checks, k.who = c ∧ k.running < k.limit := by
  intro c hc
  have hi := inv_reachable (cfg := cfg) ⟨hmm, hf⟩ ops
  obtain ⟨k, hk, hw, hr⟩ := hi.chkHad c hc
  refine ⟨k, hk, hw, ?_⟩
  have := hi.checks k hk
  unfold Check.ok at this
  rw [hr] at this
  by_cases hlt : k.running < k.limit
  · exact hlt
  · have := this.mpr (by omega); cases this

/-- The limit the service compares with is itself in `[min, max]` in every reachable state
(sequential use of part A's algorithms), as is everything ever stored in it. -/
theorem service_limit_in_bounds (cfg : Cfg) (hmm : cfg.min ≤ cfg.max) (hf : Limit.DecOk cfg) (ops : List Op) :
    InB cfg (run cfg ops).alg.limit ∧ ∀ v ∈ (run cfg ops).alg.stores, InB cfg v :=
  ⟨(inv_reachable ⟨hmm, hf⟩ ops).alg.lim, (inv_reachable ⟨hmm, hf⟩ ops).alg.stores⟩

/-- Every running call has its scripted completion instant, its outcome and its serial (so the
hypotheses of `completion_frees_slot` can always be met for a call that is running). -/
theorem running_is_scheduled (cfg : Cfg) (hmm : cfg.min ≤ cfg.max) (hf : Limit.DecOk cfg) (ops : List Op) :
    ∀ c ∈ (run cfg ops).running, ∃ t sc k, lookup (run cfg ops).doneAt c = some t ∧
      lookup (run cfg ops).script c = some sc ∧ lookup (run cfg ops).kOf c = some k := by
  intro c hc
  have hi := inv_reachable (cfg := cfg) ⟨hmm, hf⟩ ops
  have h1 := (hi.sched c hc).1
  have h2 := (hi.sched c hc).2
  have h3 := hi.runKnown c hc
  unfold known at h3
  rw [Option.isSome_iff_exists] at h1 h2 h3
  obtain ⟨t, ht⟩ := h1
  obtain ⟨k, hk⟩ := h2
  obtain ⟨sc, hs⟩ := h3
  exact ⟨t, sc, k, ht, hs, hk⟩

/-- **A call stops counting as in flight when it completes or fails (or panics)** — at the poll
that observes the end of the inner call, *not* when the caller eventually lets go of the future
object. In every reachable state, for a running call `c` whose inner call has finished (scripted
instant reached, outcome ok / error / panic): that one poll takes `c` out of `running` and gives
its slot back (`in_flight` goes down by exactly one and is again the number of running calls),
**whether or not the caller keeps the finished future alive** (`keep`: a pinned future polled by
reference, a `select!` over `&mut fut`). A kept future that resolved with a value is from then
on *held*: alive, but not in flight. -/
theorem completion_frees_slot (cfg : Cfg) (hmm : cfg.min ≤ cfg.max) (hf : Limit.DecOk cfg) (ops : List Op)
    (c t k : Nat) (sc : Step) (hc : c ∈ (run cfg ops).running)
    (hd : lookup (run cfg ops).doneAt c = some t) (hs : lookup (run cfg ops).script c = some sc)
    (hk : lookup (run cfg ops).kOf c = some k) (ht : (run cfg ops).now ≥ t) (hn : sc.out ≠ .never) :
    (stepS cfg (run cfg ops) (.poll c)).inFlight + 1 = (run cfg ops).inFlight ∧
    (stepS cfg (run cfg ops) (.poll c)).running = (run cfg ops).running.erase c ∧
    c ∉ (stepS cfg (run cfg ops) (.poll c)).running ∧
    (stepS cfg (run cfg ops) (.poll c)).inFlight = (stepS cfg (run cfg ops) (.poll c)).running.length ∧
    (c ∈ (run cfg ops).keeps → sc.out ≠ .panic → c ∈ (stepS cfg (run cfg ops) (.poll c)).held) := by
  have hi := inv_reachable (cfg := cfg) ⟨hmm, hf⟩ ops
  have hi' := stepS_inv ⟨hmm, hf⟩ hi (.poll c)
  obtain ⟨h1, h2, h3⟩ := poll_finished cfg (run cfg ops) c t k sc hc hd hs hk ht hn
  have hpos : 0 < (run cfg ops).running.length := List.length_pos_of_mem hc
  have hex := hi.exact
  refine ⟨by rw [h1]; omega, h2, ?_, hi'.exact, ?_⟩
  · rw [h2]; intro hm; exact ((hi.nodup.mem_erase_iff).mp hm).1 rfl
  · intro hkp hnp
    rw [h3, if_pos ⟨hkp, hnp⟩]
    exact List.mem_append_right _ (List.mem_singleton.mpr rfl)

/-- **… or is dropped**: dropping a running call future (polled or never polled) takes it out of
`running` and gives its slot back in that step. -/
theorem drop_frees_slot (cfg : Cfg) (hmm : cfg.min ≤ cfg.max) (hf : Limit.DecOk cfg) (ops : List Op)
    (c : Nat) (hc : c ∈ (run cfg ops).running) :
    (stepS cfg (run cfg ops) (.drop c)).inFlight + 1 = (run cfg ops).inFlight ∧
    (stepS cfg (run cfg ops) (.drop c)).running = (run cfg ops).running.erase c ∧
    c ∉ (stepS cfg (run cfg ops) (.drop c)).running := by
  have hi := inv_reachable (cfg := cfg) ⟨hmm, hf⟩ ops
  obtain ⟨h1, h2, _⟩ := drop_running cfg (run cfg ops) c hc
  have hpos : 0 < (run cfg ops).running.length := List.length_pos_of_mem hc
  have hex := hi.exact
  refine ⟨by rw [h1]; omega, h2, ?_⟩
  rw [h2]; intro hm; exact ((hi.nodup.mem_erase_iff).mp hm).1 rfl

/-- **A finished call future that is still alive does not count as in flight**: in every
reachable state no held future (resolved, not yet dropped by its caller) is among the running
calls — and the counter is exactly the number of running calls (`in_flight_exact`), so with
nothing running it is 0 however many finished futures are still held, and readiness is decided
by the running calls alone (`ready_iff_capacity`). -/
theorem held_future_not_in_flight (cfg : Cfg) (hmm : cfg.min ≤ cfg.max) (hf : Limit.DecOk cfg) (ops : List Op) :
    (∀ c ∈ (run cfg ops).held, c ∉ (run cfg ops).running) ∧
    (run cfg ops).inFlight = (run cfg ops).running.length ∧
    ((run cfg ops).running = [] → (run cfg ops).inFlight = 0) ∧
    ((run cfg ops).running.length < (run cfg ops).alg.limit → atCapacity (run cfg ops) = false) := by
  have hi := inv_reachable (cfg := cfg) ⟨hmm, hf⟩ ops
  refine ⟨hi.heldFree, hi.exact, quiescent_zero cfg hmm hf ops, ?_⟩
  intro hlt
  have h := ready_iff_capacity cfg hmm hf ops
  cases hcp : atCapacity (run cfg ops)
  · rfl
  · have := h.mp hcp; omega

/-- **Letting go of a finished future releases nothing** (the slot was given back at completion):
the step changes neither the counter, nor the running calls, nor the algorithm, nor the answer
of a readiness check, and emits no event. -/
theorem letting_go_changes_nothing (cfg : Cfg) (ops : List Op) (c : Nat) :
    (stepS cfg (run cfg ops) (.letGo c)).inFlight = (run cfg ops).inFlight ∧
    (stepS cfg (run cfg ops) (.letGo c)).running = (run cfg ops).running ∧
    (stepS cfg (run cfg ops) (.letGo c)).alg = (run cfg ops).alg ∧
    (stepS cfg (run cfg ops) (.letGo c)).log = (run cfg ops).log ∧
    atCapacity (stepS cfg (run cfg ops) (.letGo c)) = atCapacity (run cfg ops) := by
  obtain ⟨h1, h2, h3, _, _, h6, _, h8⟩ := letGo_frame cfg (run cfg ops) c
  exact ⟨h1, h2, h3, h6, h8⟩

/-- Non-vacuity: limit 2 (AIMD, min 1, max 4). Two slow calls are admitted, a third caller is
refused and a probe is refused; one call is dropped, the other panics: the counter is back to 0
and a new caller is admitted. A caller checked ahead of time while one call was running calls
after the limit was reached: `in_flight` exceeds the limit without any refusal being wrong. -/
example :
    let cfg : Cfg := { kind := .aimd, min := 1, max := 4, initial := 2, thrNs := 5000000 }
    let pre := [Op.arrive 1 ⟨10, .never⟩ false, .check 9, .arrive 2 ⟨3, .panic⟩ false, .arrive 3 ⟨0, .ok⟩ false, .probeReady]
    (run cfg pre).running = [1, 2] ∧ (run cfg pre).inFlight = 2 ∧ (run cfg pre).checked = [9] ∧
    (run cfg pre).checks = [⟨1, 0, 2, false⟩, ⟨9, 1, 2, false⟩, ⟨2, 1, 2, false⟩, ⟨3, 2, 2, true⟩, ⟨0, 2, 2, true⟩] ∧
    (run cfg (pre ++ [.arrive 9 ⟨0, .ok⟩ false])).inFlight = 3 ∧
    (run cfg (pre ++ [.drop 1, .adv 3, .poll 2])).inFlight = 0 ∧
    (run cfg (pre ++ [.drop 1, .adv 3, .poll 2, .arrive 4 ⟨0, .ok⟩ false])).running = [4] := by
  decide

/-- Non-vacuity (finished futures kept alive): fixed limit 1. Caller 1 keeps its future; it
completes at the first poll: nothing is running, `in_flight` is 0 and a readiness probe is
answered "ready" while the finished future is still held; caller 2 (a failing call, kept as
well) is admitted and fails: both finished futures are held, nothing is in flight; letting go
of them afterwards changes nothing. The hypotheses of `completion_frees_slot` are met by
caller 1 before its poll. -/
example :
    let cfg : Cfg := { kind := .aimd, min := 1, max := 1, initial := 1 }
    let a := [Op.arrive 1 ⟨0, .ok⟩ true]
    let b := a ++ [.poll 1, .probeInFlight, .probeReady]
    let d := b ++ [.arrive 2 ⟨0, .err 1⟩ true, .poll 2]
    (run cfg a).running = [1] ∧ (run cfg a).inFlight = 1 ∧ (run cfg a).keeps = [1] ∧
    lookup (run cfg a).doneAt 1 = some 0 ∧ lookup (run cfg a).script 1 = some ⟨0, .ok⟩ ∧ lookup (run cfg a).kOf 1 = some 0 ∧
    (run cfg b).running = [] ∧ (run cfg b).held = [1] ∧ (run cfg b).inFlight = 0 ∧
    (run cfg b).checks = [⟨1, 0, 1, false⟩, ⟨0, 0, 1, false⟩] ∧
    (run cfg (b ++ [.arrive 2 ⟨0, .err 1⟩ true])).running = [2] ∧
    (run cfg d).held = [1, 2] ∧ (run cfg d).inFlight = 0 ∧ (run cfg d).running = [] ∧
    (run cfg (d ++ [.letGo 1, .letGo 2])).held = [] ∧ (run cfg (d ++ [.letGo 1, .letGo 2])).inFlight = 0 := by
  decide

/-! ### an inner service whose `call()` itself panics (no future is ever returned) -/

/-- **A call stops counting as in flight when it … panics — also when the panic happens inside the wrapped service's
`Service::call`, before any future exists.** `call()` has counted the call and built the guard (`enterCall`) when
`inner.call(req)` unwinds; the unwind drops the guard (`unwindCall`). In every reachable state, for every such arrival
(fresh clone, checked clone, persistent handle; admitted or refused): after the step the counter and the set of
running calls are what they were (the caller never becomes *running*), the counter is exactly the number of running
calls — so zero with nothing running —, the readiness comparison answers as before (such panics never use up
capacity: after any number of them a caller is still admitted below the limit), the algorithm got no feedback, the
`current_limit` mirror and the inner service's serial numbers are untouched (the inner service was not reached). -/
theorem call_panic_frees_slot (cfg : Cfg) (hmm : cfg.min ≤ cfg.max) (hf : Limit.DecOk cfg) (ops : List Op)
    (c : Nat) (sc : Step) (hd : Nat) (a : Ans) :
    (stepS cfg (run cfg ops) (.arriveX c sc hd a)).inFlight = (run cfg ops).inFlight ∧
    (stepS cfg (run cfg ops) (.arriveX c sc hd a)).running = (run cfg ops).running ∧
    (stepS cfg (run cfg ops) (.arriveX c sc hd a)).inFlight = (stepS cfg (run cfg ops) (.arriveX c sc hd a)).running.length ∧
    ((run cfg ops).running = [] → (stepS cfg (run cfg ops) (.arriveX c sc hd a)).inFlight = 0) ∧
    atCapacity (stepS cfg (run cfg ops) (.arriveX c sc hd a)) = atCapacity (run cfg ops) ∧
    (stepS cfg (run cfg ops) (.arriveX c sc hd a)).alg = (run cfg ops).alg ∧
    (stepS cfg (run cfg ops) (.arriveX c sc hd a)).cur = (run cfg ops).cur ∧
    (stepS cfg (run cfg ops) (.arriveX c sc hd a)).serial = (run cfg ops).serial := by
  have hi := inv_reachable (cfg := cfg) ⟨hmm, hf⟩ ops
  have hi' := stepS_inv ⟨hmm, hf⟩ hi (.arriveX c sc hd a)
  have hfr : (stepS cfg (run cfg ops) (.arriveX c sc hd a)).inFlight = (run cfg ops).inFlight ∧
      (stepS cfg (run cfg ops) (.arriveX c sc hd a)).running = (run cfg ops).running ∧
      (stepS cfg (run cfg ops) (.arriveX c sc hd a)).alg = (run cfg ops).alg ∧
      (stepS cfg (run cfg ops) (.arriveX c sc hd a)).cur = (run cfg ops).cur ∧
      (stepS cfg (run cfg ops) (.arriveX c sc hd a)).serial = (run cfg ops).serial := by
    simp only [stepS, arriveFreshX, arriveHandleX, panicCall_eq]
    repeat' split
    all_goals simp [refuse, refuseWith, emit, recordCheck, pollHandle]
  obtain ⟨h1, h2, h3, h4, h5⟩ := hfr
  refine ⟨h1, h2, hi'.exact, ?_, ?_, h3, h4, h5⟩
  · intro hq
    rw [hi'.exact, h2, hq]; rfl
  · simp only [atCapacity, h1, h3]

/-- The two halves of such a call, spelled out: the call IS counted while `inner.call(req)` runs (`enterCall`: the
guard exists), and the unwind gives exactly that slot back; what remains is the caller's `panic`. An admitted caller
(fresh clone, below the limit) sees exactly that. -/
theorem call_panic_counted_then_released (cfg : Cfg) (s : State) (c : Nat) (sc : Step) (hk : known s c = false)
    (hc : c ∉ s.checked) (hn : atCapacity s = false) :
    (enterCall (recordCheck s c)).inFlight = s.inFlight + 1 ∧
    (unwindCall (enterCall (recordCheck s c))).inFlight = s.inFlight ∧
    stepS cfg s (.arriveX c sc 0 .r) = panicCall (recordCheck s c) c sc ∧
    (stepS cfg s (.arriveX c sc 0 .r)).log = s.log ++ [.result c .panic] := by
  have hn' : atCapacity s = false := hn
  refine ⟨rfl, by simp [unwindCall, enterCall, recordCheck], ?_, ?_⟩
  · simp [stepS, hk, hc, arriveFreshX, hn']
  · simp [stepS, hk, hc, arriveFreshX, hn', panicCall_eq, refuseWith, emit, recordCheck]

/-- Non-vacuity (the situation of the seeded change): fixed limit 2. One ordinary call completes; then two callers whose
inner `call()` panics — one on a fresh clone, one through a persistent handle that was polled ready before —, and a
third one on a clone checked ahead of time: after each the limiter reports 0 in flight, a readiness probe says ready,
and two further long calls are admitted (the third is refused: the limit is 2, not less). A panic inside the returned
future (caller 9) is the other kind and frees its slot at the poll. -/
example :
    let cfg : Cfg := { kind := .aimd, min := 2, max := 2, initial := 2 }
    let a := [Op.arrive 1 ⟨0, .ok⟩ false, .poll 1, .arriveX 2 ⟨0, .ok⟩ 0 .r]
    let b := a ++ [.ready 1 .r, .arriveX 3 ⟨0, .ok⟩ 1 .r, .check 4, .arriveX 4 ⟨0, .ok⟩ 0 .r]
    let d := b ++ [.probeReady, .arrive 5 ⟨100, .ok⟩ false, .arrive 6 ⟨100, .ok⟩ false, .arrive 7 ⟨100, .ok⟩ false]
    (run cfg a).inFlight = 0 ∧ (run cfg a).running = [] ∧ atCapacity (run cfg a) = false ∧
    (run cfg b).inFlight = 0 ∧ (run cfg b).running = [] ∧ (run cfg b).hready = [] ∧ (run cfg b).checked = [] ∧
    (run cfg b).serial = 1 ∧ (run cfg b).alg.limit = 2 ∧
    (run cfg d).running = [5, 6] ∧ (run cfg d).inFlight = 2 ∧
    (run cfg d).checks.map (fun k => (k.who, k.running, k.refused)) =
      [(1, 0, false), (2, 0, false), (4, 0, false), (0, 0, false), (5, 0, false), (6, 1, false), (7, 2, true)] ∧
    (run cfg [.arrive 9 ⟨0, .panic⟩ false, .poll 9]).inFlight = 0 := by
  decide

/-! ### an inner service that is not ready at once: the capacity check is made at every `poll_ready` -/

/-- **Every `poll_ready` ever made on a persistent handle was answered correctly** — the first poll of a handle and
every later one, whatever the handle was told before (in particular after a poll at which the capacity check had
passed and only the inner service was pending): refused for capacity iff at least `limit` calls were running at
*that* poll; `Ready` only with fewer than `limit` calls running at that poll and the inner service ready. -/
theorem every_poll_exact (cfg : Cfg) (hmm : cfg.min ≤ cfg.max) (hf : Limit.DecOk cfg) (ops : List Op) :
    ∀ k ∈ (run cfg ops).polls, (k.answer = .refused ↔ k.running ≥ k.limit) ∧
      (k.answer = .ready → k.running < k.limit ∧ k.inner = .r) := by
  intro k hk
  have h := (inv_reachable (cfg := cfg) ⟨hmm, hf⟩ ops).pollsOk k hk
  refine ⟨h.1, fun hr => ⟨?_, h.2 hr⟩⟩
  by_cases hlt : k.running < k.limit
  · exact hlt
  · have := h.1.mpr (by omega); rw [hr] at this; cases this

/-- **Never admits a caller that checked readiness with `limit` calls already in flight** (richer interface): a
handle is ready — its caller may `call` — only on the strength of its MOST RECENT `poll_ready`, and that poll was
made with fewer than `limit` calls in flight and answered `Ready`. -/
theorem ready_handle_polled_below_limit (cfg : Cfg) (hmm : cfg.min ≤ cfg.max) (hf : Limit.DecOk cfg)
    (ops : List Op) (hd : Nat) (k : Poll) (hl : lookup (run cfg ops).hready hd = some k) :
    k ∈ (run cfg ops).polls ∧ k.handle = hd ∧ k.answer = .ready ∧ k.running < k.limit := by
  have hi := inv_reachable (cfg := cfg) ⟨hmm, hf⟩ ops
  obtain ⟨h1, h2, h3⟩ := hi.hrdy (hd, k) (lookup_mem hl)
  exact ⟨h1, h2, h3, ((every_poll_exact cfg hmm hf ops k h1).2 h3).1⟩

/-- A poll that is not answered `Ready` (refused for capacity, inner service pending, inner service failed)
leaves the handle not ready — whatever it was before. -/
theorem unready_poll_leaves_handle_not_ready (cfg : Cfg) (s : State) (hd : Nat) (a : Ans)
    (hn : answerOf s a ≠ .ready) : lookup (stepS cfg s (.ready hd a)).hready hd = none := by
  simp only [stepS, readyOp, emit, pollHandle, if_neg hn]
  exact lookup_eraseKey _ _

/-- **The capacity check is repeated at every `poll_ready`**: in a reachable state with `limit` (or more) calls in
flight, a `poll_ready` on ANY handle — also one whose previous poll found capacity and was only waiting for the inner
service — is refused (`ready h refused`), the handle is not ready afterwards, nothing starts. -/
theorem handle_refused_at_limit (cfg : Cfg) (hmm : cfg.min ≤ cfg.max) (hf : Limit.DecOk cfg) (ops : List Op)
    (hd : Nat) (a : Ans) (hcap : (run cfg ops).running.length ≥ (run cfg ops).alg.limit) :
    lookup (stepS cfg (run cfg ops) (.ready hd a)).hready hd = none ∧
    (stepS cfg (run cfg ops) (.ready hd a)).log = (run cfg ops).log ++ [.raw s!"ready {hd} {Answer.refused.render}"] ∧
    (stepS cfg (run cfg ops) (.ready hd a)).running = (run cfg ops).running ∧
    (stepS cfg (run cfg ops) (.ready hd a)).inFlight = (run cfg ops).inFlight := by
  have hc := (ready_iff_capacity cfg hmm hf ops).mpr hcap
  have hr : answerOf (run cfg ops) a = .refused := (answerOf_refused _ a).mpr hc
  refine ⟨unready_poll_leaves_handle_not_ready cfg _ hd a (by rw [hr]; simp), ?_, rfl, rfl⟩
  show (emit (pollHandle (run cfg ops) hd a) [.raw s!"ready {hd} {(answerOf (run cfg ops) a).render}"]).log = _
  rw [hr]
  rfl

/-- … and a caller arriving through a handle that is not ready (e.g. one that was waiting for the inner service)
with `limit` calls in flight is refused, whatever the inner service would answer now: nothing is started. -/
theorem handle_never_admitted_at_limit (cfg : Cfg) (hmm : cfg.min ≤ cfg.max) (hf : Limit.DecOk cfg)
    (ops : List Op) (c : Nat) (sc : Step) (keep : Bool) (hd : Nat) (a : Ans)
    (hk : known (run cfg ops) c = false) (hc : c ∉ (run cfg ops).checked)
    (hnr : lookup (run cfg ops).hready hd = none)
    (hcap : (run cfg ops).running.length ≥ (run cfg ops).alg.limit) :
    (stepS cfg (run cfg ops) (.arriveH c sc keep hd a)).running = (run cfg ops).running ∧
    (stepS cfg (run cfg ops) (.arriveH c sc keep hd a)).inFlight = (run cfg ops).inFlight ∧
    (stepS cfg (run cfg ops) (.arriveH c sc keep hd a)).log = (run cfg ops).log ++ [.result c .notReady] := by
  have hcp := (ready_iff_capacity cfg hmm hf ops).mpr hcap
  have hcp' : atCapacity (noteKeep (run cfg ops) c keep) = true := by unfold noteKeep; split <;> exact hcp
  have hr : answerOf (noteKeep (run cfg ops) c keep) a = .refused := (answerOf_refused _ a).mpr hcp'
  have hnr' : lookup (noteKeep (run cfg ops) c keep).hready hd = none := by unfold noteKeep; split <;> exact hnr
  have hs : stepS cfg (run cfg ops) (.arriveH c sc keep hd a) =
      refuseWith (pollHandle (noteKeep (run cfg ops) c keep) hd a) c sc .notReady := by
    simp only [stepS, hk, hc, arriveHandle, hnr', hr, refusalOf]
    simp
  rw [hs]
  unfold noteKeep
  split <;> simp [refuseWith, emit, pollHandle]

/-- With spare capacity and the inner service ready the handle becomes ready at that poll (never refused below the limit). -/
theorem handle_ready_below_limit (cfg : Cfg) (hmm : cfg.min ≤ cfg.max) (hf : Limit.DecOk cfg) (ops : List Op)
    (hd : Nat) (hcap : (run cfg ops).running.length < (run cfg ops).alg.limit) :
    lookup (stepS cfg (run cfg ops) (.ready hd .r)).hready hd = some (mkPoll (run cfg ops) hd .r) ∧
    (mkPoll (run cfg ops) hd .r).answer = .ready := by
  have h := ready_iff_capacity cfg hmm hf ops
  have hn : atCapacity (run cfg ops) = false := by
    cases hcp : atCapacity (run cfg ops)
    · rfl
    · have := h.mp hcp; omega
  have hr : answerOf (run cfg ops) .r = .ready := (answerOf_ready _ _).mpr ⟨hn, rfl⟩
  refine ⟨?_, hr⟩
  simp [stepS, readyOp, emit, pollHandle, hr, lookup]

/-- Non-vacuity (the two situations in which "checked once, waited for the inner service" differs). (1) Limit 1, two
handles: handle 1 polls while the limiter is idle and the inner service is pending; handle 2 polls, is ready and
calls; the inner service is now ready, handle 1 polls again: refused, with 1 = limit calls in flight — and a caller
arriving through handle 1 is refused too. After the call has completed handle 1 is admitted. (2) One handle, limit
6 → 3 → 1 by two failures while it waits: refused at the re-poll with 1 call in flight. -/
example :
    let cfg : Cfg := { kind := .aimd, min := 1, max := 1, initial := 1 }
    let a := [Op.ready 1 .p, .ready 2 .r, .arriveH 2 ⟨5, .ok⟩ false 2 .r]
    (run cfg a).inFlight = 1 ∧ (run cfg a).hready = [] ∧
    (run cfg (a ++ [.ready 1 .r])).hready = [] ∧
    (run cfg (a ++ [.ready 1 .r])).polls.map (·.answer) = [.pending, .ready, .refused] ∧
    (run cfg (a ++ [.arriveH 3 ⟨0, .ok⟩ false 1 .r])).running = [2] ∧
    (run cfg (a ++ [.adv 5, .poll 2, .arriveH 3 ⟨0, .ok⟩ false 1 .r])).running = [3] := by
  decide

example :
    let cfg : Cfg := { kind := .aimd, min := 1, max := 6, initial := 6, thrNs := 3600000000000 }
    let a := [Op.arrive 1 ⟨0, .err 1⟩ false, .arrive 2 ⟨0, .err 1⟩ false, .arrive 3 ⟨9, .ok⟩ false, .ready 1 .p,
              .poll 1, .poll 2]
    (run cfg a).inFlight = 1 ∧ (run cfg a).alg.limit = 1 ∧
    (run cfg (a ++ [.ready 1 .r])).polls.map (·.answer) = [.pending, .refused] ∧
    (run cfg (a ++ [.ready 1 .r])).polls.map (·.running) = [3, 1] := by
  decide


end service

/-! ## Part C — clones of the service on several threads: the in-flight count is exact under every interleaving -/
section threads
open TR.Adaptive
open TR.Limit (Cfg InB CellsOk)

/-- **One turn of one thread changes the counter by exactly the change of that thread's own live guards**: `+1` at
the `fetch_add` of `call()` (the guard exists from that turn on), `−1` at the `fetch_sub` of the guard's drop, `0` at
every other yield point (the loads of `poll_ready`, the mirror, the algorithm's atomics, the operation boundaries). -/
theorem turn_changes_counter_by_own_guards (cfg : Cfg) (hmm : cfg.min ≤ cfg.max) (hf : Limit.DecOk cfg)
    (sh : Shared) (tid : Nat) (th : TThread) (hle : th.calls.length ≤ sh.inFlight) :
    (tstepT cfg sh tid th).1.inFlight + th.calls.length = sh.inFlight + (tstepT cfg sh tid th).2.calls.length :=
  (tstepT_eff ⟨hmm, hf⟩ sh tid th).cnt hle

/-- The hypothesis of `turn_changes_counter_by_own_guards` holds for every thread of every reachable state: a thread's own
live guards are among the calls the counter counts. -/
theorem threads_own_guards_le_counter (cfg : Cfg) (hmm : cfg.min ≤ cfg.max) (hf : Limit.DecOk cfg) (ops : List Op)
    (sched : List Limit.Turn) :
    ∀ th ∈ (runSchedT cfg (tinit (run cfg ops)) sched).threads,
      th.calls.length ≤ (runSchedT cfg (tinit (run cfg ops)) sched).sh.inFlight := by
  intro th hth
  have hi := inv_reachable (cfg := cfg) ⟨hmm, hf⟩ ops
  have h := runSchedT_inv ⟨hmm, hf⟩ sched (tinit_inv hi)
  obtain ⟨i, hi'⟩ := List.getElem?_of_mem hth
  obtain ⟨rest, a, _⟩ := sumBy_split nlive _ i th hi'
  have hex := h.exact
  have hn : nlive th = th.calls.length := rfl
  omega

/-- Non-vacuity of that hypothesis, concretely: a thread holding one call, counter 2, in front of its guard's `fetch_sub`:
the turn takes the counter to 1 and the thread's guards to 0. -/
example :
    let cfg : Cfg := { kind := .aimd, min := 1, max := 4, initial := 2 }
    let sh : Shared := { alg := Limit.initCells cfg, inFlight := 2 }
    let th : TThread := { prog := [.dropCall], ph := .rel false, calls := [{ c := 1000, k := 0, o := .ok }] }
    th.calls.length ≤ sh.inFlight ∧ (tstepT cfg sh 0 th).1.inFlight = 1 ∧ (tstepT cfg sh 0 th).2.calls.length = 0 := by
  decide

/-- **In-flight count exact under every interleaving.** Clones of a fresh limiter on any number of threads, any
thread programs, any schedule of the yield points (turns for finished or non-existent threads included): after every
prefix of the schedule (prefixes of schedules are schedules) the counter equals the number of live guards — call
futures started (`fetch_add` executed) whose guard has not yet been released (`fetch_sub` not yet executed), summed
over the threads. -/
theorem threads_in_flight_exact (cfg : Cfg) (hmm : cfg.min ≤ cfg.max) (hf : Limit.DecOk cfg)
    (progs : List (List TOp)) (sched : List Limit.Turn) :
    (runSchedT cfg { sh := freshShared cfg, threads := freshThreads progs } sched).sh.inFlight =
      liveGuards (runSchedT cfg { sh := freshShared cfg, threads := freshThreads progs } sched).threads := by
  have h := runSchedT_inv ⟨hmm, hf⟩ sched
    (start_tinv (sh := freshShared cfg) (Limit.initCells_ok hmm) (by rfl) progs)
  have := h.exact
  rw [liveGuards_eq]
  simpa [freshShared] using this

/-- The same after the remaining threads have run to completion behind the schedule (what the harness does). -/
theorem threads_in_flight_exact_final (cfg : Cfg) (hmm : cfg.min ≤ cfg.max) (hf : Limit.DecOk cfg)
    (progs : List (List TOp)) (sched : List Limit.Turn) :
    (execT cfg { sh := freshShared cfg, threads := freshThreads progs } sched).sh.inFlight =
      liveGuards (execT cfg { sh := freshShared cfg, threads := freshThreads progs } sched).threads := by
  have h := execT_inv ⟨hmm, hf⟩ sched
    (start_tinv (sh := freshShared cfg) (Limit.initCells_ok hmm) (by rfl) progs)
  have := h.exact
  rw [liveGuards_eq]
  simpa [freshShared] using this

/-- **Zero in flight once nothing is running**, for every interleaving: when no thread holds a call future any more
(everything completed, failed, panicked or was dropped) the limiter reports zero. -/
theorem threads_quiescent_zero (cfg : Cfg) (hmm : cfg.min ≤ cfg.max) (hf : Limit.DecOk cfg)
    (progs : List (List TOp)) (sched : List Limit.Turn)
    (hq : ∀ th ∈ (runSchedT cfg { sh := freshShared cfg, threads := freshThreads progs } sched).threads, th.calls = []) :
    (runSchedT cfg { sh := freshShared cfg, threads := freshThreads progs } sched).sh.inFlight = 0 := by
  rw [threads_in_flight_exact cfg hmm hf progs sched, liveGuards_eq]
  apply sumBy_zero
  intro x hx
  simp [nlive, hq x hx]

/-- Inside a history: the threads start in any reachable state of the single-threaded service (whose running calls stay
in flight meanwhile); at every point of every schedule the counter is those running calls plus the threads' live guards. -/
theorem threads_in_flight_exact_within_history (cfg : Cfg) (hmm : cfg.min ≤ cfg.max) (hf : Limit.DecOk cfg)
    (ops : List Op) (sched : List Limit.Turn) :
    (runSchedT cfg (tinit (run cfg ops)) sched).sh.inFlight =
      (run cfg ops).running.length + liveGuards (runSchedT cfg (tinit (run cfg ops)) sched).threads := by
  have hi := inv_reachable (cfg := cfg) ⟨hmm, hf⟩ ops
  have h := runSchedT_inv ⟨hmm, hf⟩ sched (tinit_inv hi)
  rw [liveGuards_eq, ← hi.exact]
  exact h.exact

/-- The same in the observables: inner calls started = inner calls ended (any outcome, dropped) + the counter − the
releases that are under way (end of the inner call already logged, guard not yet dropped). -/
theorem threads_in_flight_matches_log (cfg : Cfg) (hmm : cfg.min ≤ cfg.max) (hf : Limit.DecOk cfg)
    (progs : List (List TOp)) (sched : List Limit.Turn) :
    calls (runSchedT cfg { sh := freshShared cfg, threads := freshThreads progs } sched).sh.log +
        sumBy pend (runSchedT cfg { sh := freshShared cfg, threads := freshThreads progs } sched).threads =
      ended (runSchedT cfg { sh := freshShared cfg, threads := freshThreads progs } sched).sh.log +
        (runSchedT cfg { sh := freshShared cfg, threads := freshThreads progs } sched).sh.inFlight :=
  (runSchedT_inv ⟨hmm, hf⟩ sched (start_tinv (sh := freshShared cfg) (Limit.initCells_ok hmm) (by rfl) progs)).trace

/-- The limit stays in `[min, max]` when the feedback comes from calls completing on several threads (the
algorithm's atomic steps interleaved with those of the service). -/
theorem threads_limit_in_bounds (cfg : Cfg) (hmm : cfg.min ≤ cfg.max) (hf : Limit.DecOk cfg)
    (progs : List (List TOp)) (sched : List Limit.Turn) :
    InB cfg (execT cfg { sh := freshShared cfg, threads := freshThreads progs } sched).sh.alg.limit ∧
    ∀ v ∈ (execT cfg { sh := freshShared cfg, threads := freshThreads progs } sched).sh.alg.stores, InB cfg v := by
  have h := execT_inv ⟨hmm, hf⟩ sched
    (start_tinv (sh := freshShared cfg) (Limit.initCells_ok hmm) (by rfl) progs)
  exact ⟨h.alg.lim, h.alg.stores⟩

/-! ### readiness under interleaving

`poll_ready` is two loads (the limit, then `in_flight`) and `call` a third atomic (`fetch_add`); other threads run in
between. So the two readiness clauses cannot hold in their single-threaded form: a thread may be admitted although `limit`
calls are in flight when it counts itself in (its check is stale), and it may be refused on a limit that has risen
since it loaded it. What IS true at atomic-step granularity, for every program and every schedule: -/

/-- **Every readiness check, under every interleaving, is answered by what it saw, and what it saw was true when it saw
it.** At the turn of the `in_flight` load of a `poll_ready` that has loaded the limit `lim`: the thread is refused iff
the number of calls really in flight AT THAT TURN — the running calls of the single-threaded callers plus the live guards
of all threads — is `lim` or more; otherwise it proceeds to `call`. So *never refused while fewer than `lim` calls are in
flight*, `lim` being the limit this `poll_ready` loaded; and the counter is not changed by the check. -/
theorem threads_check_exact_at_its_turn (cfg : Cfg) (hmm : cfg.min ≤ cfg.max) (hf : Limit.DecOk cfg) (ops : List Op)
    (sched : List Limit.Turn) (t : Limit.Turn) (th : TThread) (o : Out) (lim : Nat)
    (hth : (runSchedT cfg (tinit (run cfg ops)) sched).threads[t.tid]? = some th) (hp : th.prog.isEmpty = false)
    (hph : th.ph = .rdInFlight o lim) :
    let s := runSchedT cfg (tinit (run cfg ops)) sched
    let n := (run cfg ops).running.length + liveGuards s.threads
    (stepTT cfg s t).sh.tchecks = s.sh.tchecks ++ [{ tid := t.tid, lim := lim, seen := n, refused := decide (n ≥ lim) }] ∧
    (stepTT cfg s t).threads = s.threads.set t.tid
      (if n ≥ lim then tdone { th with out := th.out ++ ["x"] } else { th with ph := .enter o lim n }) ∧
    (stepTT cfg s t).sh.inFlight = s.sh.inFlight := by
  have hi := inv_reachable (cfg := cfg) ⟨hmm, hf⟩ ops
  have h := runSchedT_inv ⟨hmm, hf⟩ sched (tinit_inv hi)
  rw [← hi.exact]
  exact stepTT_check h t th o lim hth hp hph

/-- **… and the limit it compares with is the limit at the turn it loaded it** (the turn before, or earlier): after the
first load of `poll_ready` the thread's register holds the value of the limit cell at that turn. -/
theorem threads_limit_loaded_at_its_turn (cfg : Cfg) (s : TState) (t : Limit.Turn) (th : TThread) (o : Out)
    (hth : s.threads[t.tid]? = some th) (hp : th.prog.isEmpty = false) (hph : th.ph = .rdLimit o) :
    (stepTT cfg s t).threads = s.threads.set t.tid { th with ph := .rdInFlight o s.sh.alg.limit } ∧
    (stepTT cfg s t).sh.inFlight = s.sh.inFlight ∧ (stepTT cfg s t).sh.alg = s.sh.alg :=
  stepTT_loadLimit cfg s t th o hth hp hph

/-- **Every readiness comparison ever made by any thread** (the ghost record `tchecks`, in the order they were made): refused
iff the `in_flight` value it loaded had reached the limit it had loaded; that limit is within `[min, max]` and is a value
the limit cell has held (`stores`: its history) — possibly no longer the current one. -/
theorem threads_every_check_exact (cfg : Cfg) (hmm : cfg.min ≤ cfg.max) (hf : Limit.DecOk cfg) (ops : List Op)
    (sched : List Limit.Turn) :
    ∀ k ∈ (runSchedT cfg (tinit (run cfg ops)) sched).sh.tchecks,
      (k.refused = true ↔ k.seen ≥ k.lim) ∧ InB cfg k.lim ∧
      k.lim ∈ (runSchedT cfg (tinit (run cfg ops)) sched).sh.alg.stores := by
  intro k hk
  have hi := inv_reachable (cfg := cfg) ⟨hmm, hf⟩ ops
  have h := (runSchedT_inv ⟨hmm, hf⟩ sched (tinit_inv hi)).chks k hk
  exact ⟨h.1, h.2.1, h.2.2⟩

/-- **Never admits a caller whose readiness check saw `limit` calls in flight** — the strongest form that is true under
interleaving: every thread that is about to count its call in, and every call in flight, was admitted by a readiness check
that loaded a limit `lim` (within the bounds, a value the limit cell held) and then saw FEWER than `lim` calls in flight.
(The check may be stale by the time of the `fetch_add`: see `stale_admission_example` and `threads_overshoot_bounded`.) -/
theorem threads_admitted_on_a_passed_check (cfg : Cfg) (hmm : cfg.min ≤ cfg.max) (hf : Limit.DecOk cfg) (ops : List Op)
    (sched : List Limit.Turn) :
    ∀ th ∈ (runSchedT cfg (tinit (run cfg ops)) sched).threads,
      (∀ c ∈ th.calls, c.seen < c.lim ∧ InB cfg c.lim ∧ c.lim ∈ (runSchedT cfg (tinit (run cfg ops)) sched).sh.alg.stores) ∧
      (∀ o lim seen, th.ph = .enter o lim seen → seen < lim ∧ InB cfg lim) := by
  intro th hth
  have hi := inv_reachable (cfg := cfg) ⟨hmm, hf⟩ ops
  have h := (runSchedT_inv ⟨hmm, hf⟩ sched (tinit_inv hi)).regs th hth
  exact ⟨fun c hc => ⟨(h.cl c hc).1, (h.cl c hc).2.1, (h.cl c hc).2.2⟩, fun o lim seen hp => ⟨(h.en o lim seen hp).1, (h.en o lim seen hp).2.1⟩⟩

/-- **How far stale checks can overshoot**: with `T` threads using clones of the service, at every point of every schedule the
counter — plus the threads that have passed their check and not yet counted themselves in — is at most
`max_limit + T − 1` (or what was already in flight when the threads started, if that is more): each OTHER thread can slip
in at most one call between a thread's check and its `fetch_add`. With one thread (`T = 1`) this is the sequential
statement: never above `max_limit` by a fresh check. -/
theorem threads_overshoot_bounded (cfg : Cfg) (hmm : cfg.min ≤ cfg.max) (hf : Limit.DecOk cfg) (ops : List Op)
    (sched : List Limit.Turn) :
    (runSchedT cfg (tinit (run cfg ops)) sched).sh.inFlight ≤
      max (run cfg ops).running.length (cfg.max + (run cfg ops).progs.length - 1) := by
  have hi := inv_reachable (cfg := cfg) ⟨hmm, hf⟩ ops
  have h := runSchedT_inv ⟨hmm, hf⟩ sched (tinit_inv hi)
  have ho := h.over
  have hl : (runSchedT cfg (tinit (run cfg ops)) sched).threads.length = (run cfg ops).progs.length := by
    have : ∀ (sched : List Limit.Turn) (s : TState), (runSchedT cfg s sched).threads.length = s.threads.length := by
      intro sched
      induction sched with
      | nil => intro s; rfl
      | cons t tl ih =>
        intro s
        show (runSchedT cfg (stepTT cfg s t) tl).threads.length = _
        rw [ih]
        unfold stepTT
        split
        · rfl
        · split
          · rfl
          · simp
    rw [this]; simp [tinit, freshThreads]
  rw [hl, hi.exact] at ho
  omega

/-- The guard's `fetch_sub` never wraps: whenever a thread holds a call, the counter is at least 1. -/
theorem threads_release_never_underflows (cfg : Cfg) (hmm : cfg.min ≤ cfg.max) (hf : Limit.DecOk cfg) (ops : List Op)
    (sched : List Limit.Turn) :
    ∀ th ∈ (runSchedT cfg (tinit (run cfg ops)) sched).threads, th.calls ≠ [] →
      0 < (runSchedT cfg (tinit (run cfg ops)) sched).sh.inFlight := by
  intro th hth hc
  have hi := inv_reachable (cfg := cfg) ⟨hmm, hf⟩ ops
  exact guard_release_no_underflow (runSchedT_inv ⟨hmm, hf⟩ sched (tinit_inv hi)) th hth hc

/-- … and for the single-threaded callers: a running call finds the counter at 1 or more. -/
theorem release_never_underflows (cfg : Cfg) (hmm : cfg.min ≤ cfg.max) (hf : Limit.DecOk cfg) (ops : List Op) (c : Nat)
    (hc : c ∈ (run cfg ops).running) : 0 < (run cfg ops).inFlight := by
  rw [in_flight_exact cfg hmm hf ops]; exact List.length_pos_of_mem hc

/-- Non-vacuity, and the bound is tight (`stale_admission_example`): fixed limit 1, two threads. Both load the limit (1), both
load `in_flight` (0) — both checks pass, each having seen 0 < 1 —, both count themselves in: 2 calls in flight at limit 1 =
`max_limit + T − 1`. Every record is truthful (`tchecks`: seen 0, not refused), both calls carry `seen = 0 < lim = 1`. A third
acquisition (thread 0 again) now sees 2 ≥ 1 and is refused. Interleaved the other way (thread 1 only after thread 0 has
counted itself in) thread 1 is refused having seen 1. -/
example :
    let cfg : Cfg := { kind := .aimd, min := 1, max := 1, initial := 1 }
    let s0 : TState := { sh := freshShared cfg, threads := freshThreads [[.acquire .ok, .acquire .ok], [.acquire .ok]] }
    let stale : List Limit.Turn := [0, 1, 0, 1, 0, 1, 0, 1]
    (runSchedT cfg s0 stale).sh.inFlight = 2 ∧
    (runSchedT cfg s0 stale).sh.tchecks = [⟨0, 1, 0, false⟩, ⟨1, 1, 0, false⟩] ∧
    (runSchedT cfg s0 stale).threads.map (fun th => th.calls.map fun c => (c.lim, c.seen)) = [[(1, 0)], [(1, 0)]] ∧
    (execT cfg s0 stale).sh.tchecks = [⟨0, 1, 0, false⟩, ⟨1, 1, 0, false⟩, ⟨0, 1, 2, true⟩] ∧
    (execT cfg s0 stale).threads.map (·.out) = [["x"], []] ∧
    (execT cfg s0 [0, 0, 0, 0, 1, 1, 1]).sh.tchecks = [⟨0, 1, 0, false⟩, ⟨1, 1, 1, true⟩, ⟨0, 1, 1, true⟩] ∧
    (execT cfg s0 [0, 0, 0, 0, 1, 1, 1]).sh.inFlight = 1 := by
  decide

/-- Non-vacuity (a stale LIMIT): limit 2 → 1 by a failure of thread 1 between thread 0's two loads: thread 0 compares the
1 call in flight with the limit 2 it loaded, passes, and is the second call in flight at limit 1. The limit it used is in
the cell's history (`stores = [2, 1]`), not its current value. -/
example :
    let cfg : Cfg := { kind := .aimd, min := 1, max := 2, initial := 2 }
    let s0 : TState := { sh := freshShared cfg, threads := freshThreads [[.acquire .ok], [.acquire .ok, .fb .fail]] }
    let sch : List Limit.Turn := [1, 1, 1, 1, 1, 1, 0, 0, 1, 1, 1, 0, 0]
    (runSchedT cfg s0 sch).sh.alg.stores = [2, 1] ∧ (runSchedT cfg s0 sch).sh.alg.limit = 1 ∧
    (runSchedT cfg s0 sch).sh.inFlight = 2 ∧
    (runSchedT cfg s0 sch).sh.tchecks = [⟨1, 2, 0, false⟩, ⟨0, 2, 1, false⟩] := by
  decide

/-- Non-vacuity: limit 4. Two threads start one call each (6 turns: boundary, two loads of `poll_ready`,
`fetch_add`, two loads for the mirror), then end them turn by turn — thread 0 completes its call, thread 1 drops
its — so that both releases are under way at the same time: with both guards still live the counter is 2, afterwards
0. Thread 0's completion then feeds the algorithm (limit 4 → 5). -/
example :
    let cfg : Cfg := { kind := .aimd, min := 1, max := 8, initial := 4 }
    let s0 : TState := { sh := freshShared cfg, threads := freshThreads [[.acquire .ok, .finishCall], [.acquire .ok, .dropCall]] }
    let acq := [0, 0, 0, 0, 0, 0, 1, 1, 1, 1, 1, 1]
    (runSchedT cfg s0 acq).sh.inFlight = 2 ∧ liveGuards (runSchedT cfg s0 acq).threads = 2 ∧
    (runSchedT cfg s0 (acq ++ [0, 1])).sh.inFlight = 2 ∧ sumBy pend (runSchedT cfg s0 (acq ++ [0, 1])).threads = 2 ∧
    (runSchedT cfg s0 (acq ++ [0, 1, 0])).sh.inFlight = 1 ∧
    (runSchedT cfg s0 (acq ++ [0, 1, 0, 1])).sh.inFlight = 0 ∧
    liveGuards (runSchedT cfg s0 (acq ++ [0, 1, 0, 1])).threads = 0 ∧
    (execT cfg s0 (acq ++ [0, 1, 0, 1])).sh.alg.limit = 5 ∧ (execT cfg s0 (acq ++ [0, 1, 0, 1])).sh.inFlight = 0 := by
  decide

end threads

/-! ## Part E — several services built from one layer value: the algorithm is shared, the in-flight count is not -/
section services
open TR.Adaptive
open TR.Limit (Cfg InB)

/-- **The services of one layer share the algorithm** (the layer holds it in an `Arc`; `Layer::layer`, `Clone` of the
layer, `into_layer` and the builder paths all hand out that same `Arc`): every service sees the same cells, and what an
operation on service `k` does to the algorithm (feedback from a completion) is what every service `j` sees next. -/
theorem services_share_algorithm (cfg : Cfg) (m : Multi) (k j : Nat) (op : Op) :
    (view m j).alg = (view m k).alg ∧ (view (stepM cfg m k op) j).alg = (stepS cfg (view m k) op).alg := by
  refine ⟨?_, ?_⟩
  · unfold view; split <;> split <;> rfl
  · unfold view stepM
    split <;> rfl

/-- **… and nothing else: a step on one service leaves every other service as it was** — its in-flight counter, its
running, checked and held callers, its ready handles, its mirror, its ghost records. (Documented behaviour:
`AdaptiveService::new` creates a fresh counter per service.) -/
theorem services_independent (cfg : Cfg) (m : Multi) (k j : Nat) (op : Op) (h : j ≠ k) :
    lookup (stepM cfg m k op).svcs j = lookup m.svcs j ∧
    (view (stepM cfg m k op) j).inFlight = (view m j).inFlight ∧
    (view (stepM cfg m k op) j).running = (view m j).running ∧
    (view (stepM cfg m k op) j).checked = (view m j).checked ∧
    (view (stepM cfg m k op) j).held = (view m j).held ∧
    (view (stepM cfg m k op) j).hready = (view m j).hready := by
  have hl : lookup (stepM cfg m k op).svcs j = lookup m.svcs j := lookup_setKey_ne _ _ _ _ h
  refine ⟨hl, ?_, ?_, ?_, ?_, ?_⟩ <;>
  · unfold view
    rw [hl]
    split <;> rfl

/-- A service that has not been used yet starts with nothing in flight, whatever the other services are doing, and
compares with the shared limit. -/
theorem new_service_starts_empty (m : Multi) (k : Nat) (h : lookup m.svcs k = none) :
    (view m k).inFlight = 0 ∧ (view m k).running = [] ∧ (view m k).alg = m.alg ∧ (view m k).cur = m.alg.limit := by
  unfold view
  rw [h]
  exact ⟨rfl, rfl, rfl, rfl⟩

/-- **In-flight count exact, per service**: after any sequence of operations on any services of the layer, every
service's counter equals the number of ITS calls really running (so zero once none of its calls is running, whatever
is in flight on the other services), readiness is refused on it iff that number has reached the shared limit, and the
shared limit is within `[min, max]`. -/
theorem services_in_flight_exact (cfg : Cfg) (hmm : cfg.min ≤ cfg.max) (hf : Limit.DecOk cfg)
    (ops : List (Nat × Op)) (j : Nat) :
    (view (runM cfg ops) j).inFlight = (view (runM cfg ops) j).running.length ∧
    ((view (runM cfg ops) j).running = [] → (view (runM cfg ops) j).inFlight = 0) ∧
    (atCapacity (view (runM cfg ops) j) = true ↔ (view (runM cfg ops) j).running.length ≥ (runM cfg ops).alg.limit) ∧
    InB cfg (runM cfg ops).alg.limit := by
  have hm := runM_inv (cfg := cfg) ⟨hmm, hf⟩ ops
  have hi := view_inv hm j
  have halg : (view (runM cfg ops) j).alg = (runM cfg ops).alg := by unfold view; split <;> rfl
  refine ⟨hi.exact, ?_, ?_, hm.alg.lim⟩
  · intro hq; rw [hi.exact, hq]; rfl
  · simp only [atCapacity, decide_eq_true_eq]
    rw [hi.exact, halg]

/-- Non-vacuity: limit 2 shared by two services. Service 0 takes two calls (at capacity: refused), service 1 — built
later, from the same layer — still admits two of its own (its counter is its own) and is then refused as well; a failure
completing on service 1 halves the shared limit: service 0, with two calls still running, now sees limit 1. -/
example :
    let cfg : Cfg := { kind := .aimd, min := 1, max := 4, initial := 2, thrNs := 5000000 }
    let a : List (Nat × Op) := [(0, .arrive 1 ⟨9, .never⟩ false), (0, .arrive 2 ⟨9, .never⟩ false), (0, .arrive 3 ⟨0, .ok⟩ false),
      (1, .arrive 4 ⟨0, .err 1⟩ false), (1, .arrive 5 ⟨9, .ok⟩ false), (1, .arrive 6 ⟨0, .ok⟩ false)]
    (view (runM cfg a) 0).running = [1, 2] ∧ (view (runM cfg a) 0).inFlight = 2 ∧
    (view (runM cfg a) 1).running = [4, 5] ∧ (view (runM cfg a) 1).inFlight = 2 ∧
    (view (runM cfg a) 2).inFlight = 0 ∧ (runM cfg a).alg.limit = 2 ∧
    (runM cfg (a ++ [(1, .poll 4)])).alg.limit = 1 ∧ (view (runM cfg (a ++ [(1, .poll 4)])) 0).alg.limit = 1 ∧
    (view (runM cfg (a ++ [(1, .poll 4)])) 0).inFlight = 2 ∧ (view (runM cfg (a ++ [(1, .poll 4)])) 1).inFlight = 1 := by
  decide

end services

/-! ## Part D — protocol level: every value-level trace of the atomics that `checkTrace` accepts

Parts A and C are about step-by-step transcriptions of `aimd.rs` / `algorithm.rs` / `service.rs`. The theorems below do not
depend on how an implementation sequences its atomic operations: they hold for **every** trace — any number of
threads, calls and atomic operations, in any interleaving — in which the cell values chain and each write to the limit
cell, made inside a feedback operation, stores one of the modelled update functions (`aimdSuccNew`, `aimdFailNew`,
`aimdSuccsNew n`, `vegasFailNew`, `vegasNew … q` for some estimate `q`, the clamped initial value for `reset`) applied to a
value the same operation read from the cell earlier (`TR.Model.LimitTrace`). The harness records such a trace from the
hooked atomics on every scheduled run (and every sequential warm-up) and the model's checker decides it; a rewrite
that keeps the protocol — every load/store pair replaced by one `fetch_update`, a store skipped when nothing changes —
keeps these theorems applicable even when its step sequence no longer matches the transcription. -/
section protocol
open TR.Limit

/-- **The limit stays within `[min_limit, max_limit]` in every accepted trace**: starting from a limit within the
bounds, every value the limit cell ever holds in the course of the trace (`limValues`: the value each atomic operation
on the cell leaves behind), the value it holds at the end, and every value a `limit()` call returned lie in
`[min, max]` — for AIMD, the bare controller (`record_successes`, `reset`) and Vegas, whatever the interleaving. -/
theorem trace_limit_in_bounds (cfg : Cfg) (hmm : cfg.min ≤ cfg.max) (hf : Limit.DecOk cfg) (v0 i0 : Nat)
    (hv : InB cfg v0) (tr : List Item) (cs : CS) (h : checkTrace cfg v0 i0 tr = some cs) :
    (∀ v ∈ limValues tr, InB cfg v) ∧ InB cfg (finalLim v0 tr) ∧ cs.lim = finalLim v0 tr ∧
      ∀ v ∈ readResults tr, InB cfg v := by
  obtain ⟨hrun, _, _⟩ := checkTrace_run h
  have r := crun_ok ⟨hmm, hf⟩ tr (cinit_inv i0 hv) hrun
  refine ⟨?_, ?_, ?_, ?_⟩
  · intro v hm
    exact r.inv.vals v (by rw [r.vals]; exact List.mem_append_right _ hm)
  · have := r.lim; simp only [cinit] at this; rw [← this]; exact r.inv.lim
  · have := r.lim; simpa [cinit] using this
  · intro v hm
    exact r.inv.rets v (by rw [r.rets]; exact List.mem_append_right _ hm)

/-- … and at every point of an accepted trace: whatever split `a ++ b`, every value the cell held during `a` and the
value it holds after `a` are within the bounds. -/
theorem trace_limit_in_bounds_prefix (cfg : Cfg) (hmm : cfg.min ≤ cfg.max) (hf : Limit.DecOk cfg) (v0 i0 : Nat)
    (hv : InB cfg v0) (a b : List Item) (cs : CS) (h : checkTrace cfg v0 i0 (a ++ b) = some cs) :
    (∀ v ∈ limValues a, InB cfg v) ∧ InB cfg (finalLim v0 a) := by
  obtain ⟨hrun, _, _⟩ := checkTrace_run h
  obtain ⟨cs1, r, _⟩ := crun_split ⟨hmm, hf⟩ a b (cinit_inv i0 hv) hrun
  refine ⟨?_, ?_⟩
  · intro v hm
    exact r.inv.vals v (by rw [r.vals]; exact List.mem_append_right _ hm)
  · have := r.lim; simp only [cinit] at this; rw [← this]; exact r.inv.lim

/-- Several traces one after the other (the rounds and warm-ups of one case): each accepted, each beginning with the
value the previous one left in the cell. -/
def checkRounds (cfg : Cfg) : Nat → List (Nat × List Item) → Option Nat
  | v, [] => some v
  | v, (i0, tr) :: tl =>
    match checkTrace cfg v i0 tr with
    | some cs => checkRounds cfg cs.lim tl
    | none => none

/-- **From the constructor on**: a freshly built algorithm holds `initial.clamp(min, max)`; after any number of
accepted traces (rounds of threads, warm-ups) every value the limit cell held in any of them, and the value it holds in
the end, is within `[min, max]`. -/
theorem trace_rounds_in_bounds (cfg : Cfg) (hmm : cfg.min ≤ cfg.max) (hf : Limit.DecOk cfg)
    (trs : List (Nat × List Item)) (vend : Nat) (h : checkRounds cfg (clampInit cfg) trs = some vend) :
    InB cfg vend ∧ ∀ p ∈ trs, ∀ v ∈ limValues p.2, InB cfg v := by
  suffices hgen : ∀ (trs : List (Nat × List Item)) (v0 : Nat), InB cfg v0 → checkRounds cfg v0 trs = some vend →
      InB cfg vend ∧ ∀ p ∈ trs, ∀ v ∈ limValues p.2, InB cfg v from hgen trs _ (clampInit_inB hmm) h
  intro trs
  induction trs with
  | nil =>
    intro v0 hv hc
    simp only [checkRounds] at hc
    cases hc
    exact ⟨hv, by intro p hp; cases hp⟩
  | cons p tl ih =>
    intro v0 hv hc
    obtain ⟨i0, tr⟩ := p
    simp only [checkRounds] at hc
    split at hc
    · next cs hcs =>
      obtain ⟨h1, h2, h3, _⟩ := trace_limit_in_bounds cfg hmm hf v0 i0 hv tr cs hcs
      obtain ⟨ha, hb⟩ := ih cs.lim (by rw [h3]; exact h2) hc
      refine ⟨ha, ?_⟩
      intro q hq
      simp only [List.mem_cons] at hq
      rcases hq with hq | hq
      · subst hq; exact h1
      · exact hb q hq
    · cases hc

/-- The three estimates the checker tries are all there is: a value is `vegasNew cfg r q` for SOME queue estimate `q`
iff it is one of `vegasNew cfg r 0`, `vegasNew cfg r (beta + 1)`, `vegasNew cfg r alpha`. -/
theorem vegas_three_results (cfg : Cfg) (r new : Nat) :
    (∃ q, new = vegasNew cfg r q) ↔
      (new = vegasNew cfg r 0 ∨ new = vegasNew cfg r (cfg.beta + 1) ∨ new = vegasNew cfg r cfg.alpha) := by
  constructor
  · rintro ⟨q, rfl⟩
    unfold vegasNew
    by_cases h1 : q < cfg.alpha
    · left
      have : 0 < cfg.alpha := by omega
      simp [h1, this]
    · by_cases h2 : q > cfg.beta
      · by_cases h3 : cfg.beta + 1 < cfg.alpha
        · right; right
          have h4 : cfg.alpha > cfg.beta := by omega
          simp [h1, h2, h4]
        · right; left
          simp [h1, h2, h3]
      · right; right
        have h4 : ¬ cfg.alpha > cfg.beta := by omega
        simp [h1, h2, h4]
  · rintro (h | h | h)
    · exact ⟨_, h⟩
    · exact ⟨_, h⟩
    · exact ⟨_, h⟩

/-- **In-flight count exact in every accepted trace** (rounds of threads on clones of the service): once every
operation has returned, the counter is what it was at the beginning plus the `poll_ready`+`call` operations that were
admitted minus the operations that ended a call their thread held (completion, failure, panic, drop) — so with
everything the threads started ended again, the limiter reports what it reported before the round. -/
theorem trace_in_flight_exact (cfg : Cfg) (hmm : cfg.min ≤ cfg.max) (hf : Limit.DecOk cfg) (v0 i0 : Nat)
    (hv : InB cfg v0) (tr : List Item) (cs : CS) (h : checkTrace cfg v0 i0 tr = some cs) :
    finalInf i0 tr + releasedCalls tr = i0 + admittedCalls tr := by
  obtain ⟨hrun, ha, hr⟩ := checkTrace_run h
  have r := crun_ok ⟨hmm, hf⟩ tr (cinit_inv i0 hv) hrun
  have h1 := r.inv.cnt; have h2 := r.inv.adm; have h3 := r.inv.rel
  have h4 := r.adm; have h5 := r.rel; have h6 := r.inf
  simp only [cinit] at h4 h5 h6
  omega

/-- … and at every point of an accepted trace (any split `a ++ b`): the counter is the initial value plus admitted
minus ended calls, up to the operations in progress at that point — `inAcq` of the acquisitions that have begun and not
yet returned have already counted themselves in, `inRel` of the ending operations in progress have already counted
their call out. -/
theorem trace_in_flight_prefix (cfg : Cfg) (hmm : cfg.min ≤ cfg.max) (hf : Limit.DecOk cfg) (v0 i0 : Nat)
    (hv : InB cfg v0) (a b : List Item) (cs : CS) (h : checkTrace cfg v0 i0 (a ++ b) = some cs) :
    ∃ inAcq inRel, inAcq + endedAcq a ≤ begunAcq a ∧ inRel + releasedCalls a ≤ begunRel a ∧
      finalInf i0 a + releasedCalls a + inRel = i0 + admittedCalls a + inAcq := by
  obtain ⟨hrun, _, _⟩ := checkTrace_run h
  obtain ⟨cs1, r, _⟩ := crun_split ⟨hmm, hf⟩ a b (cinit_inv i0 hv) hrun
  refine ⟨cs1.openAW, cs1.openRW, ?_, ?_, ?_⟩
  · have h1 := r.inv.ba; have h2 := r.begA; have h3 := r.finA
    simp only [cinit] at h2 h3
    omega
  · have h1 := r.inv.br; have h2 := r.begR; have h3 := r.rel
    simp only [cinit] at h2 h3
    omega
  · have h1 := r.inv.cnt; have h2 := r.inv.adm; have h3 := r.inv.rel
    have h4 := r.adm; have h5 := r.rel; have h6 := r.inf
    simp only [cinit] at h4 h5 h6
    omega

/-- **What the calls of an accepted trace report is justified by the trace**: every `limit()` result is a value the limit
cell held during that call, within `[min, max]` (`trace_limit_in_bounds`); every `min_limit()` / `max_limit()` result is the
configured bound; an acquisition reports "admitted" iff it counted itself in, `in_flight()` reports a value that call read
from the counter, the bare controller's `clone()` starts from a limit that call read (these three by the checker's
definition: `finOp`, `accCheck`). `thOuts` — the thread output lines the protocol-level comparison uses — is a function of
these validated End markers alone. -/
theorem trace_results_justified (cfg : Cfg) (hmm : cfg.min ≤ cfg.max) (hf : Limit.DecOk cfg) (v0 i0 : Nat)
    (hv : InB cfg v0) (tr : List Item) (cs : CS) (h : checkTrace cfg v0 i0 tr = some cs) :
    (∀ tid op res, Item.fin tid op res ∈ tr →
        (op.acc = .minL → res = some cfg.min) ∧ (op.acc = .maxL → res = some cfg.max)) ∧
    (∀ v ∈ readResults tr, InB cfg v) := by
  obtain ⟨hrun, _, _⟩ := checkTrace_run h
  refine ⟨?_, (trace_limit_in_bounds cfg hmm hf v0 i0 hv tr cs h).2.2.2⟩
  intro tid op res hm
  exact crun_itemsOk tr hrun _ hm

/-- **The readiness decisions of concurrent callers, on every accepted trace** (`checkTraceD`: the protocol checker with the
decision bookkeeping `dstep` beside it — this is what the verdict `trace-ok` means): for every `poll_ready`+`call` that
returned, in the order they returned, there are a limit `lim` the call had read from the limit cell (within `[min, max]`)
and a count `seen` it had read from the in-flight counter with — **admitted** (it counted itself in): `seen < lim`, read
BEFORE it counted itself in; **refused**: `seen ≥ lim`. One decision per returned acquisition. So, whatever the
interleaving and however the implementation sequences its loads: *never refused without having seen `limit` calls in
flight, never admitted without having seen fewer* — with `limit` the value the caller loaded. And every such trace is an
accepted trace of `checkTrace`: all the theorems of this part apply to it. -/
theorem trace_readiness_decisions (cfg : Cfg) (hmm : cfg.min ≤ cfg.max) (hf : Limit.DecOk cfg) (v0 i0 : Nat)
    (hv : InB cfg v0) (tr : List Item) (cs : CS) (ds : DS) (h : checkTraceD cfg v0 i0 tr = some (cs, ds)) :
    checkTrace cfg v0 i0 tr = some cs ∧ ds.decs.length = endedAcq tr ∧
    ∀ d ∈ ds.decs, (d.admitted = true → d.seen < d.lim) ∧ (d.admitted = false → d.seen ≥ d.lim) ∧ InB cfg d.lim := by
  obtain ⟨hrun, _⟩ := checkTraceD_run h
  obtain ⟨_, r2, r3⟩ := crunD_ok ⟨hmm, hf⟩ tr (cinit_inv i0 hv) ⟨(by intro q hq; cases hq), (by intro d hd; cases hd)⟩ hrun
  exact ⟨checkTraceD_checkTrace ⟨hmm, hf⟩ hv h, by simpa using r3, fun d hd => r2.decs d hd⟩

/-- Non-vacuity (fixed limit 1, two threads; the stale admission of `threads_overshoot_bounded` as a value-level trace): both
load the limit 1, both load the count 0, both count themselves in (0 → 1 → 2): accepted, two admitted decisions each with
`seen = 0 < lim = 1`; a third acquisition then reads 2 ≥ 1 and is refused: accepted, decision `(refused, 1, 2)`. An
acquisition that counts itself in having read the count 1 at limit 1 is rejected at its `fetch_add`; one that is refused
having read 0 < 1 is rejected at its End marker. -/
example :
    let cfg : Cfg := { kind := .aimd, min := 1, max := 1, initial := 1 }
    let a : TrOp := { role := .acq }
    let tr : List Item := [.begin 0 a, .begin 1 a, .lim 0 .load 1 1 true, .lim 1 .load 1 1 true, .inf 0 .load 0 0 true,
      .inf 1 .load 0 0 true, .inf 0 .rmw 0 1 true, .inf 1 .rmw 1 2 true, .lim 0 .load 1 1 true, .lim 1 .load 1 1 true,
      .fin 0 a (some 1), .fin 1 a (some 1), .begin 0 a, .lim 0 .load 1 1 true, .inf 0 .load 2 2 true, .fin 0 a (some 0)]
    ((checkTraceD cfg 1 0 tr).map fun r => r.2.decs) = some [⟨true, 1, 0⟩, ⟨true, 1, 0⟩, ⟨false, 1, 2⟩] ∧
    cfirstBadD cfg (cinit 1 1) {} 0 [.begin 0 a, .lim 0 .load 1 1 true, .inf 0 .load 1 1 true, .inf 0 .rmw 1 2 true] = some 3 ∧
    cfirstBadD cfg (cinit 1 0) {} 0 [.begin 0 a, .lim 0 .load 1 1 true, .inf 0 .load 0 0 true, .fin 0 a (some 0)] = some 3 := by
  decide

/-- Non-vacuity (results carried by the End markers, fixed limit 3, bounds [2, 9]): `limit()` → 3 (read), `min_limit()` → 2,
`max_limit()` → 9, a refused acquisition (`x`) after `in_flight()` → 1: accepted, and the thread's output line is re-derived
as `3,2,9,1,x`. A `max_limit()` reporting 8, an `in_flight()` reporting a value it did not read, a `limit()` reporting a
value it did not read: each rejected at its End marker. -/
example :
    let cfg : Cfg := { kind := .aimd, min := 2, max := 9, initial := 3 }
    let l : TrOp := { rd := true }
    let m : TrOp := { acc := .minL }
    let mx : TrOp := { acc := .maxL }
    let i : TrOp := { acc := .inFl }
    let a : TrOp := { role := .acq }
    let tr : List Item := [.begin 0 l, .lim 0 .load 3 3 true, .fin 0 l (some 3), .begin 0 m, .fin 0 m (some 2),
      .begin 0 mx, .fin 0 mx (some 9), .begin 0 i, .inf 0 .load 1 1 true, .fin 0 i (some 1),
      .begin 0 a, .lim 0 .load 3 3 true, .inf 0 .load 1 1 true, .fin 0 a (some 0)]
    (checkTrace cfg 3 1 tr).isSome = true ∧ thOuts cfg 0 tr = ["3", "2", "9", "1", "x"] ∧ thOuts cfg 1 tr = [] ∧
    cfirstBad cfg (cinit 3 1) 0 [.begin 0 mx, .fin 0 mx (some 8)] = some 1 ∧
    cfirstBad cfg (cinit 3 1) 0 [.begin 0 i, .inf 0 .load 1 1 true, .fin 0 i (some 0)] = some 2 ∧
    cfirstBad cfg (cinit 3 1) 0 [.begin 0 l, .lim 0 .load 3 3 true, .fin 0 l (some 4)] = some 2 ∧
    cfirstBad cfg (cinit 3 1) 0 [.begin 0 a, .inf 0 .load 1 1 true, .fin 0 a (some 1)] = some 2 := by
  decide

/-- Non-vacuity (traces recorded from the real code). (1) AIMD, limit 4, `increase_by = 2`, max 9: two threads record a
success each, both load 4, both store 6 (a lost update, within the bounds): accepted. (2) The same two operations as
one `fetch_update` each (the harmless rewrite): 4 → 6 → 8, accepted by the same checker although the step sequence
differs. (3) Vegas on its floor (min 2) writing `min − 1` (the boundary slip `>=` for `>`): rejected at the store.
(4) A write outside any feedback operation, and a `limit()` call that writes: rejected. -/
example :
    let cfg : Cfg := { kind := .aimd, min := 2, max := 9, initial := 4, inc := 2 }
    let s : TrOp := { fb := .succ 0 }
    let l : TrOp := { rd := true }
    let tr1 : List Item := [.begin 9 l, .lim 9 .load 4 4 true, .fin 9 l (some 4),
      .begin 0 s, .begin 1 s, .lim 0 .load 4 4 true, .lim 1 .load 4 4 true, .lim 0 .store 4 6 true, .fin 0 s none,
      .lim 1 .store 6 6 true, .fin 1 s none]
    let tr2 : List Item := [.begin 9 l, .lim 9 .load 4 4 true, .fin 9 l (some 4),
      .begin 0 s, .begin 1 s, .lim 0 .rmw 4 6 true, .fin 0 s none, .lim 1 .rmw 6 8 true, .fin 1 s none]
    (checkTrace cfg 4 0 tr1).isSome = true ∧ limValues tr1 = [4, 4, 4, 6, 6] ∧ readResults tr1 = [4] ∧
    (checkTrace cfg 4 0 tr2).isSome = true ∧ limValues tr2 = [4, 6, 8] ∧
    cfirstBad cfg (cinit 4 0) 0 [.lim 0 .store 4 5 true] = some 0 ∧
    cfirstBad cfg (cinit 4 0) 0 [.begin 0 l, .lim 0 .rmw 4 6 true] = some 1 := by
  decide

example :
    let cfg : Cfg := { kind := .vegas, min := 2, max := 8, initial := 2, alpha := 1, beta := 2 }
    let s : TrOp := { fb := .succ 8388608 }
    cfirstBad cfg (cinit 2 0) 0 [.begin 0 s, .oth, .oth, .lim 0 .load 2 2 true, .lim 0 .store 2 1 true, .fin 0 s none] = some 4 ∧
    (checkTrace cfg 2 0 [.begin 0 s, .oth, .oth, .lim 0 .load 2 2 true, .lim 0 .store 2 3 true, .fin 0 s none]).isSome = true ∧
    (checkTrace cfg 2 0 [.begin 0 s, .oth, .oth, .lim 0 .load 2 2 true, .fin 0 s none]).isSome = true := by
  decide

/-- Non-vacuity (in-flight counter): two threads on clones of the service with one call of a single-threaded caller in
flight meanwhile (`i0 = 1`): both are admitted (`fetch_add`), thread 0 completes its call, thread 1 drops its — the two
`fetch_sub`s interleaved with the feedback of thread 0 — and the counter is back to 1. The guard release written as
load + store (two threads, both load 3, both store 2) is rejected at the first plain store. -/
example :
    let cfg : Cfg := { kind := .aimd, min := 1, max := 8, initial := 4 }
    let a : TrOp := { role := .acq }
    let c : TrOp := { fb := .succ 0, role := .rel }
    let d : TrOp := { role := .rel }
    let tr : List Item := [.begin 0 a, .lim 0 .load 4 4 true, .inf 0 .load 1 1 true, .begin 1 a, .inf 0 .rmw 1 2 true,
      .lim 1 .load 4 4 true, .inf 1 .load 2 2 true, .inf 1 .rmw 2 3 true, .fin 0 a (some 1), .fin 1 a (some 1),
      .begin 0 c, .begin 1 d, .inf 0 .rmw 3 2 true, .inf 1 .rmw 2 1 true, .lim 0 .load 4 4 true, .fin 1 d none,
      .lim 0 .store 4 5 true, .fin 0 c none]
    (checkTrace cfg 4 1 tr).isSome = true ∧ finalInf 1 tr = 1 ∧ admittedCalls tr = 2 ∧ releasedCalls tr = 2 ∧
    finalLim 4 tr = 5 ∧
    cfirstBad cfg (cinit 4 3) 0 [.begin 0 d, .begin 1 d, .inf 0 .load 3 3 true, .inf 1 .load 3 3 true,
      .inf 0 .store 3 2 true, .inf 1 .store 2 2 true] = some 4 := by
  decide

end protocol

end TR.Props.C13
