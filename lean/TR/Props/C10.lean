import TR.Lemmas.Cache
import TR.Lemmas.CacheFifo
import TR.Lemmas.CacheTtl
import TR.Lemmas.CacheLayer
import TR.Lemmas.CacheLog
import TR.Lemmas.CacheRecency
import TR.Lemmas.CacheResult
import TR.Lemmas.CacheSince
import TR.Lemmas.CacheWhen
/-!
# C10 — cache hits return the latest unexpired value of the right key; size is bounded; the victim follows the policy

Quantification of every theorem: every configuration (`policy` LRU / LFU / FIFO, `max ≥ 1`, `ttl`
absent or any value), every list of operations — any number of requests over any key space, any
interleaving of lookups (`arrive` = `call()`), completions (`poll`), cancellations (`drop`) and time
advances, inner outcomes ok / error / panic / never, concurrent misses on one key — and every LFU
victim choice `w` carried by the `poll` operations (a choice outside the allowed set is replaced by
an allowed one and flagged `choice-not-allowed`, so the statements hold for all `w`). One model
state serves every client: a `SharedCacheLayer` used by several services is the same history; the
services of a plain `CacheLayer` value have one such state each (last section before the examples).

Vocabulary: `s.store` is the container; `lookup s.stored k` is the **specification map**
`key ↦ (value, storedAt)` of the latest successful completion for `k` (`s.stored` lists every
successful completion, newest first — theorem `stored_only_by_ok_completion`); `s.callKey` maps the
serial of an inner call (= the value of its response) to the key of the request it was made for.

`stored`, `callKey` and the entries' `used` are ghosts: the correspondence check compares the **event log**
(`s.log`: `req c key=k svc=i` — `reqEv c k i` —, `inner_call c v`, `inner_done c v ok|…`, `result c …`), not
them. The section "read off the event log" proves that the ghosts are functions of the log and restates the
clauses over the log alone: `ReqKey log c k` — the log shows a request of caller `c` with key `k`;
`LastOkFor log k v` — the last `inner_done _ _ ok` of a caller whose request has key `k` carries `v`;
`IsAccess` / `AccessedAfter` — recency of a key in the log (LRU).
-/
namespace TR.Props.C10
open TR TR.Cache

/-- The cache never holds more than `max_size` entries. -/
theorem size_bounded (cfg : Cfg) (hm : 0 < cfg.max) (ops : List Op) :
    (run cfg ops).store.length ≤ cfg.max := by
  have := (inv_reachable cfg ops).1.st.size
  rwa [cap_eq_max hm] at this

/-- No key is held twice. -/
theorem keys_unique (cfg : Cfg) (ops : List Op) :
    ((run cfg ops).store.map (·.key)).Nodup :=
  (inv_reachable cfg ops).1.st.uniq

/-- Refinement: the store is a sub-map of the specification map — every entry holds, under its
key, exactly the value and the instant of the latest successful completion for that key. -/
theorem store_refines_spec (cfg : Cfg) (ops : List Op) (e : Entry) (he : e ∈ (run cfg ops).store) :
    lookup (run cfg ops).stored e.key = some (e.val, e.ins) :=
  (inv_reachable cfg ops).1.fresh e he

/-- The specification map is what its name says: `stored` changes only in the step in which a
pending inner call of some caller `c` completes `Ok`, and then gains exactly
`(key of c's request, (serial of that call, now))` at the front. -/
theorem stored_only_by_ok_completion (cfg : Cfg) (s : State) (op : Op) :
    (stepS cfg s op).stored = s.stored ∨
    ∃ c w p, op = .poll c w ∧ lookup s.hits c = none ∧ lookup s.pend c = some p ∧ p.out = .ok ∧
      p.doneAt ≤ s.now ∧ (stepS cfg s op).stored = (p.key, (p.k, s.now)) :: s.stored :=
  step_stored cfg s op

/-- **A hit returns the latest unexpired value of that key.** If the lookup for `k` in a reachable
state hits with value `v`, then `v` is the value of the latest successful completion for `k`, it
was stored at an instant `t ≤ now`, and `now − t ≤ ttl` when a TTL is configured. -/
theorem hit_is_latest (cfg : Cfg) (ops : List Op) (k v : Nat)
    (h : (storeGet cfg (run cfg ops).now (run cfg ops).tick (run cfg ops).store k).2 = some v) :
    ∃ t, lookup (run cfg ops).stored k = some (v, t) ∧ t ≤ (run cfg ops).now ∧
      ∀ d, cfg.ttl = some d → (run cfg ops).now - t ≤ d := by
  obtain ⟨e, he, hk, hv, hexp⟩ := storeGet_hit h
  have hi := (inv_reachable cfg ops).1
  have hf := hi.fresh e he
  rw [hk, hv] at hf
  exact ⟨e.ins, hf, hi.past _ (lookup_mem hf), expired_false hexp⟩

/-- **Never a response of another key, never a cached error.** The value a hit for `k` returns is
the serial of an inner call that was made for a request with key `k` and that completed `Ok`. -/
theorem hit_right_key (cfg : Cfg) (ops : List Op) (k v : Nat)
    (h : (storeGet cfg (run cfg ops).now (run cfg ops).tick (run cfg ops).store k).2 = some v) :
    lookup (run cfg ops).callKey v = some k ∧ ∃ c, Ev.innerDone c v .ok ∈ (run cfg ops).log := by
  obtain ⟨t, ht, _, _⟩ := hit_is_latest cfg ops k v h
  have h2 := (inv_reachable cfg ops).2.1
  exact ⟨h2.rightKey _ (lookup_mem ht), h2.okDone _ (lookup_mem ht)⟩

/-- **A hit does not call the wrapped service**: the `call()` of a new request whose lookup hits
logs only the echo of the request, consumes no serial, and parks the cached value for the caller. -/
theorem hit_no_inner_call (cfg : Cfg) (s : State) (c k svc v : Nat) (sc : Step)
    (hc : s.seen.contains c = false)
    (h : (storeGet cfg s.now s.tick s.store k).2 = some v) :
    (stepS cfg s (.arrive c k svc sc)).log = s.log ++ [reqEv c k svc] ∧
    (stepS cfg s (.arrive c k svc sc)).serial = s.serial ∧
    (stepS cfg s (.arrive c k svc sc)).pend = s.pend ∧
    lookup (stepS cfg s (.arrive c k svc sc)).hits c = some v :=
  step_arrive_hit cfg s c k svc v sc hc h

/-- … and the caller's next poll delivers exactly that value, whatever happened to the store in
between. -/
theorem hit_result (cfg : Cfg) (s : State) (c v w : Nat) (h : lookup s.hits c = some v) :
    (stepS cfg s (.poll c w)).log = s.log ++ [.result c (.ok v)] ∧
    (stepS cfg s (.poll c w)).store = s.store :=
  step_poll_hit cfg s c v w h

/-- **A miss calls the wrapped service exactly once**, inside `call()`: the step logs the echo and
one `inner_call c serial` with a fresh serial, and registers the call as pending. -/
theorem miss_calls_once (cfg : Cfg) (s : State) (c k svc : Nat) (sc : Step)
    (hc : s.seen.contains c = false)
    (h : (storeGet cfg s.now s.tick s.store k).2 = none) :
    (stepS cfg s (.arrive c k svc sc)).log = s.log ++ [reqEv c k svc, .innerCall c s.serial] ∧
    (stepS cfg s (.arrive c k svc sc)).serial = s.serial + 1 ∧
    lookup (stepS cfg s (.arrive c k svc sc)).pend c
      = some { key := k, k := s.serial, doneAt := s.now + sc.lat, out := sc.out } :=
  step_arrive_miss cfg s c k svc sc hc h

/-- No other operation reaches the inner service: polls (completions included), drops and time
advances append no `inner_call`. -/
theorem only_arrive_calls (cfg : Cfg) (s : State) (op : Op)
    (h : ∀ c k svc sc, op ≠ .arrive c k svc sc) :
    ∃ evs, (stepS cfg s op).log = s.log ++ evs ∧ ∀ e ∈ evs, isCall e = false :=
  step_nocall cfg s op h

/-- Over a whole history: the inner service is called at most once per request. -/
theorem inner_call_at_most_once (cfg : Cfg) (ops : List Op) (c : Nat) :
    (run cfg ops).log.countP (isCallOf c) ≤ 1 :=
  (inv_reachable cfg ops).2.2.callOnce c

/-- **Errors are never cached**: when the pending call of `c` ends in an error or a panic (or is
not finished), polling `c` leaves the store and the specification map untouched. -/
theorem errors_not_cached (cfg : Cfg) (s : State) (c w : Nat) (p : Pend)
    (hh : lookup s.hits c = none) (hp : lookup s.pend c = some p) (hout : p.out ≠ .ok) :
    (stepS cfg s (.poll c w)).store = s.store ∧ (stepS cfg s (.poll c w)).stored = s.stored :=
  step_errors cfg s c w p hh hp hout

/-- Over a whole history: every value in the store is the response of an inner call that
completed `Ok`, made for a request with the entry's key. -/
theorem cached_values_are_ok_responses (cfg : Cfg) (ops : List Op) (e : Entry) (he : e ∈ (run cfg ops).store) :
    (∃ c, Ev.innerDone c e.val .ok ∈ (run cfg ops).log) ∧ lookup (run cfg ops).callKey e.val = some e.key := by
  have hf := lookup_mem ((inv_reachable cfg ops).1.fresh e he)
  have h2 := (inv_reachable cfg ops).2.1
  exact ⟨h2.okDone _ hf, h2.rightKey _ hf⟩

/-! ## the TTL boundary, at the resolution of the clock

The instants of the model are whole clock ticks and the model does not know the length of a tick: the
correspondence check runs it with 1 ms ticks and (`tick=us`) with 1 µs ticks, TTLs that are and are not
whole milliseconds included. `hit_is_latest` says a hit is never older than the TTL; the two theorems
below say the boundary is exactly there, in every unit. -/

/-- **Served up to the TTL, not one tick longer.** After any history, for a key that is stored and a TTL
of `d` ticks: the store's entry carries the instant `t` of the latest successful completion for the key,
and the lookup hits (with that completion's value) exactly when `now − t ≤ d`, misses — removing the
entry, so that the inner service is called (`miss_calls_once`) — exactly when `now − t > d`. -/
theorem ttl_boundary_exact (cfg : Cfg) (ops : List Op) (k d : Nat) (e : Entry)
    (httl : cfg.ttl = some d) (hf : find (run cfg ops).store k = some e) :
    lookup (run cfg ops).stored k = some (e.val, e.ins) ∧
    ((storeGet cfg (run cfg ops).now (run cfg ops).tick (run cfg ops).store k).2 = some e.val
      ↔ (run cfg ops).now - e.ins ≤ d) ∧
    ((storeGet cfg (run cfg ops).now (run cfg ops).tick (run cfg ops).store k).2 = none
      ↔ d < (run cfg ops).now - e.ins) ∧
    (d < (run cfg ops).now - e.ins →
      (storeGet cfg (run cfg ops).now (run cfg ops).tick (run cfg ops).store k).1 = rm k (run cfg ops).store) := by
  have hfr := (inv_reachable cfg ops).1.fresh e (find_some hf).1
  rw [(find_some hf).2] at hfr
  refine ⟨hfr, (storeGet_hit_iff hf httl).1, (storeGet_hit_iff hf httl).2, fun hlt => ?_⟩
  have hx : expired cfg.ttl (run cfg ops).now e = true := by rw [httl]; exact expired_some_iff.mpr hlt
  rw [storeGet_expired hf hx]

/-- **The expiry test does not depend on the unit of the clock**: the same stamp, instant and TTL
expressed in a unit `c` times finer (milliseconds → microseconds: `c = 1000`) give the same answer. A
test on quantities truncated to a coarser unit does not have this property (second example below). -/
theorem expiry_is_unit_free (c : Nat) (hc : 0 < c) (ttl : Option Nat) (now : Nat) (e : Entry) :
    expired (ttl.map (· * c)) (now * c) { e with ins := e.ins * c } = expired ttl now e :=
  expired_scale c hc ttl now e

/-! ## the victim

The store a successful completion produces is `storeInsert cfg now tick store key serial w`
(`completeOk`, by definition). `Evicts items new e v` says: `v` was in `items`, and `new` consists of
the new entry `e` and of every old entry except the one with `v`'s key. `used` / `born` are the
logical instants (ticks of the store's access counter) of the entry's last use (`get` hit or insert)
and of the insert that created it; `cnt` is the container's own frequency field. -/

/-- the store after a successful completion is the policy's insert -/
theorem completion_inserts (cfg : Cfg) (s : State) (c w : Nat) (p : Pend) :
    (completeOk cfg s c p w).store = (storeInsert cfg s.now s.tick s.store p.key p.k w).items := rfl

/-- **LRU**: inserting a new key into a full store removes the least recently used entry. -/
theorem victim_lru (cfg : Cfg) (ops : List Op) (hp : cfg.policy = .lru)
    (now k v w : Nat) (hnew : find (run cfg ops).store k = none)
    (hfull : (run cfg ops).store.length ≥ cfg.cap) :
    ∃ x, (storeInsert cfg now (run cfg ops).tick (run cfg ops).store k v w).victim = some x ∧
      Evicts (run cfg ops).store (storeInsert cfg now (run cfg ops).tick (run cfg ops).store k v w).items
        { key := k, val := v, ins := now, cnt := 1, used := (run cfg ops).tick, born := (run cfg ops).tick } x ∧
      ∀ y ∈ (run cfg ops).store, x.used ≤ y.used := by
  have hst := (inv_reachable cfg ops).1.st
  rw [hp] at hst
  rw [storeInsert_lru hp]
  exact insertLru_victim (cap_pos cfg) hst hnew hfull

/-- **FIFO**: inserting a new key into a full store removes the entry inserted first. -/
theorem victim_fifo (cfg : Cfg) (ops : List Op) (hp : cfg.policy = .fifo)
    (now k v w : Nat) (hnew : find (run cfg ops).store k = none)
    (hfull : (run cfg ops).store.length ≥ cfg.cap) :
    ∃ x, (storeInsert cfg now (run cfg ops).tick (run cfg ops).store k v w).victim = some x ∧
      Evicts (run cfg ops).store (storeInsert cfg now (run cfg ops).tick (run cfg ops).store k v w).items
        { key := k, val := v, ins := now, cnt := 1, used := (run cfg ops).tick, born := (run cfg ops).tick } x ∧
      ∀ y ∈ (run cfg ops).store, x.born ≤ y.born := by
  have hst := (inv_reachable cfg ops).1.st
  rw [hp] at hst
  rw [storeInsert_fifo hp]
  exact insertFifo_victim (cap_pos cfg) hst hnew hfull

/-- **LFU**: inserting a new key into a full store removes an entry of minimal count — for every
choice `w`; and when `w` is an allowed choice (present, minimal count) the removed entry is `w`'s. -/
theorem victim_lfu (cfg : Cfg) (ops : List Op) (hp : cfg.policy = .lfu)
    (now k v w : Nat) (hnew : find (run cfg ops).store k = none)
    (hfull : (run cfg ops).store.length ≥ cfg.cap) :
    ∃ x, (storeInsert cfg now (run cfg ops).tick (run cfg ops).store k v w).victim = some x ∧
      Evicts (run cfg ops).store (storeInsert cfg now (run cfg ops).tick (run cfg ops).store k v w).items
        { key := k, val := v, ins := now, cnt := 1, used := (run cfg ops).tick, born := (run cfg ops).tick } x ∧
      (∀ y ∈ (run cfg ops).store, x.cnt ≤ y.cnt) ∧
      (allowedVictim (run cfg ops).store w = true → x.key = w) := by
  have hst := (inv_reachable cfg ops).1.st
  rw [hp] at hst
  rw [storeInsert_lfu hp]
  exact insertLfu_victim (cap_pos cfg) hst hnew hfull

/-- **LFU, unique minimum: no choice is left.** If one stored entry `m` has a count strictly below the
count of every other stored entry — in a store of any size — then inserting a new key into the full
store removes `m`, whatever `w` the implementation's hash-map order suggests. (The correspondence
check builds stores of up to 40 entries with a unique least-frequently-used entry and reads the
victim back.) -/
theorem victim_lfu_unique_min (cfg : Cfg) (ops : List Op) (hp : cfg.policy = .lfu)
    (now k v w : Nat) (hnew : find (run cfg ops).store k = none)
    (hfull : (run cfg ops).store.length ≥ cfg.cap)
    (m : Entry) (hm : m ∈ (run cfg ops).store)
    (huniq : ∀ y ∈ (run cfg ops).store, y.key ≠ m.key → m.cnt < y.cnt) :
    (storeInsert cfg now (run cfg ops).tick (run cfg ops).store k v w).victim = some m ∧
    Evicts (run cfg ops).store (storeInsert cfg now (run cfg ops).tick (run cfg ops).store k v w).items
      { key := k, val := v, ins := now, cnt := 1, used := (run cfg ops).tick, born := (run cfg ops).tick } m := by
  obtain ⟨x, hv, hev, hmin, _⟩ := victim_lfu cfg ops hp now k v w hnew hfull
  have hxm : x = m := unique_min_is_victim (keys_unique cfg ops) hev.1 hm hmin huniq
  subst hxm
  exact ⟨hv, hev⟩

/-- Nothing is evicted otherwise: when the key is already present (update) or the store has room,
every entry of another key survives the insert with its value and `inserted_at`. -/
theorem no_eviction_otherwise (cfg : Cfg) (s : State) (now k v w : Nat)
    (h : (find s.store k).isSome = true ∨ s.store.length < cfg.cap) :
    (storeInsert cfg now s.tick s.store k v w).victim = none ∧
    ∀ x ∈ s.store, x.key ≠ k → ∃ y ∈ (storeInsert cfg now s.tick s.store k v w).items, Same y x :=
  storeInsert_keeps h

/-! ## FIFO: "first in" after arbitrary interleavings of expiry-removals and re-stores

`victim_fifo` says the victim has the smallest `born` among the stored entries. The theorems below
say what that means for the queue itself and pin down `born`: the queue only ever changes by one
of four moves (`QStep`), so an entry whose expired predecessor was lazily removed re-enters at the
back as a *new* entry, the removal of an expired slot (front, middle, anywhere) leaves the order of
all other slots alone, and the victim is the front — the entry that has been stored longest without
interruption, not the key that was first seen. -/

/-- **The FIFO queue, every state, every operation.** One operation of the service does exactly one
of these to the store (`TR.Cache.QStep`): `same` — the slots (key, creation tick) and their order are
unchanged (hits, re-inserts of a present key, failed completions, drops, time); `expire` — the
lookup found its entry expired: that slot is deleted and nothing else moves (`rm`); `push` — a key
that is not stored, room left: the new entry, created at this tick, goes to the back; `evict` — a
key that is not stored, store full: the front leaves and the new entry goes to the back. -/
theorem fifo_queue_step (cfg : Cfg) (hp : cfg.policy = .fifo) (s : State) (op : Op) :
    QStep cfg.ttl s.now cfg.cap s.tick s.store (stepS cfg s op).store :=
  step_fifo_queue cfg hp s op

/-- … in particular the entries that stay keep their relative order and their creation ticks, and
at most one entry is new: it is at the back, created at this tick, under a key that was not stored. -/
theorem fifo_survivors_keep_order (cfg : Cfg) (hp : cfg.policy = .fifo) (s : State) (op : Op) :
    ∃ kept new, (stepS cfg s op).store.map slot = kept ++ new ∧ kept.Sublist (s.store.map slot) ∧
      new.length ≤ 1 ∧ ∀ sl ∈ new, sl.2 = s.tick ∧ ∀ x ∈ s.store, x.key ≠ sl.1 :=
  (step_fifo_queue cfg hp s op).slots_sublist

/-- Over a whole history: the queue is in order of creation — creation ticks strictly increase from
front to back, and all lie before the current tick (so the next entry created is the newest). -/
theorem fifo_queue_in_creation_order (cfg : Cfg) (hp : cfg.policy = .fifo) (ops : List Op) :
    (run cfg ops).store.Pairwise (fun a b => a.born < b.born) ∧
    ∀ e ∈ (run cfg ops).store, e.born < (run cfg ops).tick :=
  ⟨(inv_reachable cfg ops).1.st.fifo hp, fun e he => ((inv_reachable cfg ops).1.st.ticks e he).2⟩

/-- **FIFO victim = the oldest *stored* entry**, after any history (any interleaving of expiries,
lazy removals, re-stores, evictions): a new key into a full store removes the front of the queue
and appends the new entry; the front was created strictly before every other entry now stored. -/
theorem victim_fifo_oldest_stored (cfg : Cfg) (ops : List Op) (hp : cfg.policy = .fifo)
    (now k v w : Nat) (hnew : find (run cfg ops).store k = none)
    (hfull : (run cfg ops).store.length ≥ cfg.cap) :
    (storeInsert cfg now (run cfg ops).tick (run cfg ops).store k v w).victim = (run cfg ops).store.head? ∧
    (storeInsert cfg now (run cfg ops).tick (run cfg ops).store k v w).items
      = (run cfg ops).store.tail ++
        [{ key := k, val := v, ins := now, cnt := 1, used := (run cfg ops).tick, born := (run cfg ops).tick }] ∧
    ∀ x, (run cfg ops).store.head? = some x → ∀ y ∈ (run cfg ops).store, y ≠ x → x.born < y.born := by
  rw [storeInsert_fifo hp]
  refine ⟨(insertFifo_victim_head hnew hfull).1, (insertFifo_victim_head hnew hfull).2, ?_⟩
  have hs := (fifo_queue_in_creation_order cfg hp ops).1
  intro x hx y hy hne
  cases hst : (run cfg ops).store with
  | nil => rw [hst] at hx; simp at hx
  | cons a tl =>
    rw [hst] at hx hy hs
    simp only [List.head?_cons, Option.some.injEq] at hx
    subst hx
    simp only [List.mem_cons] at hy
    rcases hy with rfl | hy
    · exact absurd rfl hne
    · exact (List.pairwise_cons.mp hs).1 y hy

/-- `cap` is `max_size` for every configuration the property quantifies over. -/
theorem cap_is_max (cfg : Cfg) (hm : 0 < cfg.max) : cfg.cap = cfg.max := cap_eq_max hm

/-! ## a TTL of zero is a TTL

`ttl(Duration::ZERO)` configures `Some(ZERO)`: `is_expired` is `elapsed() > 0`, so an entry is served at the
instant it was stored (the clock has not moved) and has expired as soon as it has any age at all — the
`d = 0` instance of `ttl_boundary_exact`. It is not the configuration "no TTL", under which a stored key is
served for ever (`zero_ttl_is_not_no_ttl`). -/

/-- **TTL 0: served only at the instant of the store.** After any history, for a stored key: its entry was
stamped at an instant `t ≤ now` (the instant of the latest successful completion for the key); the lookup
hits exactly when `now = t` and misses — removing the entry, the inner service is called — exactly when
`t < now`, i.e. as soon as the response is older than the TTL. -/
theorem ttl_zero_served_only_at_store_instant (cfg : Cfg) (ops : List Op) (k : Nat) (e : Entry)
    (httl : cfg.ttl = some 0) (hf : find (run cfg ops).store k = some e) :
    lookup (run cfg ops).stored k = some (e.val, e.ins) ∧ e.ins ≤ (run cfg ops).now ∧
    ((storeGet cfg (run cfg ops).now (run cfg ops).tick (run cfg ops).store k).2 = some e.val
      ↔ (run cfg ops).now = e.ins) ∧
    ((storeGet cfg (run cfg ops).now (run cfg ops).tick (run cfg ops).store k).2 = none
      ↔ e.ins < (run cfg ops).now) := by
  have hi := (inv_reachable cfg ops).1
  have hfr := hi.fresh e (find_some hf).1
  rw [(find_some hf).2] at hfr
  have hpast : e.ins ≤ (run cfg ops).now := hi.past _ (lookup_mem hfr)
  exact ⟨hfr, hpast, storeGet_ttl_zero hf httl hpast⟩

/-- … whereas without a TTL the same stored key hits at every later instant: the two configurations differ
on every entry of positive age. -/
theorem zero_ttl_is_not_no_ttl (cfg0 cfgN : Cfg) (h0 : cfg0.ttl = some 0) (hN : cfgN.ttl = none)
    (now tick k : Nat) (items : List Entry) (e : Entry) (hf : find items k = some e) (hage : e.ins < now) :
    (storeGet cfg0 now tick items k).2 = none ∧ (storeGet cfgN now tick items k).2 = some e.val :=
  ⟨(storeGet_ttl_zero hf h0 (Nat.le_of_lt hage)).2.mpr hage, storeGet_no_ttl hf hN⟩

/-! ## several services built from one layer value

`runAt cfg n i ops` is the state of store `i` of `n` after the history `ops` — by definition the
single-store model run on the operations that concern that store (`concerns`: a request concerns the
store of the service it is made on, `svc % n`; the clock, polls and drops concern every store). So every
theorem of this file holds, verbatim, for each store of a plain `CacheLayer`'s services (two instances are
spelled out below), and the stores do not interact. A plain `CacheLayer` has one store per `layer()` call,
a `SharedCacheLayer` (or `CacheLayer::shared()`) one store for all of its services. -/

/-- **The stores of a plain layer's services are independent.** One more operation: the store it concerns
makes exactly that step of the single-store model; every other store is left exactly as it was. -/
theorem stores_step_independently (cfg : Cfg) (n i : Nat) (ops : List Op) (op : Op) :
    runAt cfg n i (ops ++ [op]) =
      if concerns n i op then stepS cfg (runAt cfg n i ops) op else runAt cfg n i ops :=
  runAt_snoc cfg n i ops op

/-- In particular a request made on another service (`svc % n ≠ i`) — its lookup, its inner call, and
(next theorem) its completion — changes nothing in store `i`: no entry, no count, no recency, no stamp. -/
theorem request_on_other_service_leaves_store_alone (cfg : Cfg) (n i : Nat) (ops : List Op)
    (c key svc : Nat) (sc : Step) (h : svc % n ≠ i) :
    runAt cfg n i (ops ++ [.arrive c key svc sc]) = runAt cfg n i ops := by
  rw [runAt_snoc]
  simp [concerns, h]

/-- A poll (completion, delivery of a hit) or a drop of a caller that has no call in a store's books —
the caller of another service — is a no-op there. -/
theorem poll_of_other_service_leaves_store_alone (cfg : Cfg) (s : State) (c w : Nat)
    (hh : lookup s.hits c = none) (hp : lookup s.pend c = none) :
    stepS cfg s (.poll c w) = s ∧ stepS cfg s (.drop c) = s :=
  foreign_poll cfg s c w hh hp

/-- A shared layer: one store; it sees the whole history, whichever service a request is made on. A plain
layer: as many stores as services, service `k` uses store `k`. -/
theorem shared_layer_one_store (cfg : Cfg) (nsvc : Nat) (ops : List Op) :
    nStores true nsvc = 1 ∧ runAt cfg 1 0 ops = run cfg ops ∧
    ∀ c key svc sc, concerns 1 0 (.arrive c key svc sc) = true := by
  refine ⟨rfl, ?_, ?_⟩
  · unfold runAt; rw [proj_one]
  · intro c key svc sc; simp [concerns, Nat.mod_one]

theorem private_layer_store_per_service (nsvc : Nat) (h : 0 < nsvc) (k : Nat) (hk : k < nsvc) :
    nStores false nsvc = nsvc ∧ k % nStores false nsvc = k := by
  rw [nStores_private h]
  exact ⟨rfl, Nat.mod_eq_of_lt hk⟩

/-- Each store of a plain layer is bounded by `max_size` on its own … -/
theorem size_bounded_per_store (cfg : Cfg) (hm : 0 < cfg.max) (n i : Nat) (ops : List Op) :
    (runAt cfg n i ops).store.length ≤ cfg.max :=
  size_bounded cfg hm (proj n i ops)

/-- … and a hit on a service returns the latest unexpired value stored *in that service's store*. -/
theorem hit_is_latest_per_store (cfg : Cfg) (n i : Nat) (ops : List Op) (k v : Nat)
    (h : (storeGet cfg (runAt cfg n i ops).now (runAt cfg n i ops).tick (runAt cfg n i ops).store k).2 = some v) :
    ∃ t, lookup (runAt cfg n i ops).stored k = some (v, t) ∧ t ≤ (runAt cfg n i ops).now ∧
      ∀ d, cfg.ttl = some d → (runAt cfg n i ops).now - t ≤ d :=
  hit_is_latest cfg (proj n i ops) k v h

/-! ## the read path as the code writes it; a present key hits

`CacheStore::get` (`store.rs:51-61`) first runs the container's own `get` — LRU promotes, LFU counts — and only
then tests the entry; an expired one is removed from the already touched container. `storeGet` is written in
exactly these two phases (the first theorem is its definition, `rfl`); the proofs use the one-phase form
`storeGetC` (expired ⇒ plain `rm`), and the second and third theorem are the justification. -/

/-- `storeGet` **is** the two-phase read of the code: container `get` (`touch`), then the expiry test and
the removal from the touched container. -/
theorem read_is_two_phase (cfg : Cfg) (now tick : Nat) (items : List Entry) (k : Nat) :
    storeGet cfg now tick items k =
      match find items k with
      | none => (items, none)
      | some e => if expired cfg.ttl now e then (rm k (touch cfg.policy tick e items), none)
                  else (touch cfg.policy tick e items, some e.val) := by
  unfold storeGet
  cases find items k <;> rfl

/-- **promote-then-remove = remove**, for each of the three containers. -/
theorem promote_then_remove_is_remove (p : Policy) (tick : Nat) (e : Entry) (items : List Entry) :
    rm e.key (touch p tick e items) = rm e.key items :=
  rm_touch p tick e items

/-- … hence the two-phase read is the one-phase read (`storeGetC`: an expired entry is simply removed). -/
theorem two_phase_read_is_one_phase (cfg : Cfg) (now tick : Nat) (items : List Entry) (k : Nat) :
    storeGet cfg now tick items k = storeGetC cfg now tick items k :=
  storeGet_eq cfg now tick items k

/-- **A present, unexpired key hits** — for every TTL configuration (`none` included): if the store holds
an entry for `k` that has not expired, the lookup returns that entry's value, which is the value of the
latest successful completion for `k`. -/
theorem present_unexpired_key_hits (cfg : Cfg) (ops : List Op) (k : Nat) (e : Entry)
    (hf : find (run cfg ops).store k = some e) (hx : expired cfg.ttl (run cfg ops).now e = false) :
    (storeGet cfg (run cfg ops).now (run cfg ops).tick (run cfg ops).store k).2 = some e.val ∧
    lookup (run cfg ops).stored k = some (e.val, e.ins) := by
  have hfr := (inv_reachable cfg ops).1.fresh e (find_some hf).1
  rw [(find_some hf).2] at hfr
  exact ⟨storeGet_fresh hf hx, hfr⟩

/-- **Without a TTL a present key always hits** (the clause the monitor `c10-no-needless-miss` checks,
for `ttl = none`): whatever the clock says. -/
theorem present_key_hits_without_ttl (cfg : Cfg) (ops : List Op) (httl : cfg.ttl = none) (k : Nat) (e : Entry)
    (hf : find (run cfg ops).store k = some e) :
    (storeGet cfg (run cfg ops).now (run cfg ops).tick (run cfg ops).store k).2 = some e.val ∧
    lookup (run cfg ops).stored k = some (e.val, e.ins) :=
  present_unexpired_key_hits cfg ops k e hf (by rw [httl]; rfl)

/-- **A TTL the clock has not yet reached has expired nothing.** With `ttl = some d` and a clock reading
`now ≤ d` (the clock starts at 0: no entry can be older than `now`) a present key always hits — whatever
`d` is, in particular for the huge values for which `inserted_at + ttl` is not representable by `Instant`
(`Duration::MAX`, `Duration::from_secs(u64::MAX)`, 2^63 s): "the deadline cannot be computed" means "it
lies beyond every clock reading", i.e. *not expired*. -/
theorem present_key_hits_while_clock_within_ttl (cfg : Cfg) (ops : List Op) (d : Nat) (httl : cfg.ttl = some d)
    (hd : (run cfg ops).now ≤ d) (k : Nat) (e : Entry) (hf : find (run cfg ops).store k = some e) :
    (storeGet cfg (run cfg ops).now (run cfg ops).tick (run cfg ops).store k).2 = some e.val ∧
    lookup (run cfg ops).stored k = some (e.val, e.ins) :=
  present_unexpired_key_hits cfg ops k e hf (by
    rw [httl]; simp only [expired, decide_eq_false_iff_not]; omega)

/-- The same, read off the history: as long as the `adv` steps of the history sum to at most the TTL. -/
theorem present_key_hits_while_advances_within_ttl (cfg : Cfg) (ops : List Op) (d : Nat) (httl : cfg.ttl = some d)
    (hd : advSum ops ≤ d) (k : Nat) (e : Entry) (hf : find (run cfg ops).store k = some e) :
    (storeGet cfg (run cfg ops).now (run cfg ops).tick (run cfg ops).store k).2 = some e.val :=
  (present_key_hits_while_clock_within_ttl cfg ops d httl (by rw [now_eq_advSum]; exact hd) k e hf).1

/-- **`ttl(Duration::MAX)` never expires.** The header word `ttl=max` is read as `durMaxTicks` ticks —
18 446 744 073 709 551 615 999 ms, resp. …999 999 µs — and until the clock has advanced by that much
(5.8·10^11 years) a present key hits, exactly as without a TTL (`present_key_hits_without_ttl`). -/
theorem max_ttl_never_expires (cfg : Cfg) (tickNs : Nat) (ops : List Op)
    (httl : cfg.ttl = parseTtl tickNs (some "max")) (hd : advSum ops ≤ durMaxTicks tickNs)
    (k : Nat) (e : Entry) (hf : find (run cfg ops).store k = some e) :
    (storeGet cfg (run cfg ops).now (run cfg ops).tick (run cfg ops).store k).2 = some e.val :=
  present_key_hits_while_advances_within_ttl cfg ops (durMaxTicks tickNs) (by rw [httl]; rfl) hd k e hf

example : durMaxTicks 1000000 = 18446744073709551615999 ∧ durMaxTicks 1000 = 18446744073709551615999999 := by decide

/-- The seeded history with a "forever" TTL: store at 0, a year of milliseconds later the key still hits
(no inner call), for `Duration::MAX` and for 2^63 s alike. -/
example :
    let ops := [Op.arrive 1 7 0 ⟨0, .ok⟩, .poll 1 0, .adv 31536000000, .arrive 2 7 0 ⟨0, .ok⟩]
    (run { max := 4, ttl := parseTtl 1000000 (some "max"), policy := .lru } ops).log.filter (· matches .innerCall ..) = [.innerCall 1 0] ∧
    (run { max := 4, ttl := some (2 ^ 63 * 1000), policy := .lfu } ops).log.filter (· matches .innerCall ..) = [.innerCall 1 0] := by
  decide

/-- An absent key misses and the lookup leaves the store as it is (in every state). -/
theorem absent_key_misses (cfg : Cfg) (now tick : Nat) (items : List Entry) (k : Nat) (hf : find items k = none) :
    storeGet cfg now tick items k = (items, none) := by
  rw [storeGet_eq]; simp [storeGetC, hf]

/-! ## the same clauses, read off the event log

Everything below speaks about `(run cfg ops).log` only — the lines the correspondence check compares with
the implementation — for every configuration and every history. -/

/-- The echo line `req c key=k svc=i` determines the caller, the key and the service. -/
theorem echo_determines_request {c k i c' k' i' : Nat} (h : reqEv c k i = reqEv c' k' i') :
    c = c' ∧ k = k' ∧ i = i' :=
  reqEv_inj h

/-- **Bookkeeping of the log.** A caller has at most one request (one key); an inner call stands directly
behind the echo of its caller's request; a serial is used by one call, a caller makes at most one call;
an `inner_done c v _` is the completion of the call `inner_call c v`. -/
theorem log_bookkeeping (cfg : Cfg) (ops : List Op) :
    (∀ c k k', ReqKey (run cfg ops).log c k → ReqKey (run cfg ops).log c k' → k = k') ∧
    (∀ c v, Ev.innerCall c v ∈ (run cfg ops).log →
      ∃ pre post k svc, (run cfg ops).log = pre ++ reqEv c k svc :: Ev.innerCall c v :: post) ∧
    (∀ c c' v, Ev.innerCall c v ∈ (run cfg ops).log → Ev.innerCall c' v ∈ (run cfg ops).log → c = c') ∧
    (∀ c v v', Ev.innerCall c v ∈ (run cfg ops).log → Ev.innerCall c v' ∈ (run cfg ops).log → v = v') ∧
    (∀ c v o, Ev.innerDone c v o ∈ (run cfg ops).log → Ev.innerCall c v ∈ (run cfg ops).log) := by
  have h := (log_inv_reachable cfg ops).1
  refine ⟨h.reqFun, ?_, h.callFun, h.callOne, h.doneCall⟩
  intro c v hc
  obtain ⟨pre, post, k, svc, hl, _⟩ := h.callAdj c v hc
  exact ⟨pre, post, k, svc, hl⟩

/-- **`callKey` is a function of the log**: it maps `v` to `k` exactly when the log shows an inner call
with serial `v` made by a caller whose request has key `k`. -/
theorem call_key_is_request_key (cfg : Cfg) (ops : List Op) (v k : Nat) :
    lookup (run cfg ops).callKey v = some k ↔
      ∃ c, Ev.innerCall c v ∈ (run cfg ops).log ∧ ReqKey (run cfg ops).log c k :=
  callKey_iff_log (log_inv_reachable cfg ops).1 v k

/-- **The specification map is a function of the log**: `stored` maps `k` to the value `v` exactly when
the *last* `inner_done c v' ok` in the log whose caller `c` requested key `k` has `v' = v`, and to nothing
exactly when the log has no successful completion of a request for `k`. -/
theorem spec_map_is_last_ok_completion (cfg : Cfg) (ops : List Op) (k : Nat) :
    (∀ v, (∃ t, lookup (run cfg ops).stored k = some (v, t)) ↔ LastOkFor (run cfg ops).log k v) ∧
    (lookup (run cfg ops).stored k = none ↔ NoOkFor (run cfg ops).log k) :=
  ⟨fun v => stored_iff_log (log_inv_reachable cfg ops).2 k v, stored_none_iff_log (log_inv_reachable cfg ops).2 k⟩

/-- **A hit returns the response most recently stored for its key — in log order — and never a response
of another key.** Take any history and its log. Let `c` be a caller that was answered `ok:v` without an
inner call of its own (a hit), and point at the echo of its request: `log = pre ++ req c key=k … :: post`.
Then, in the part `pre` of the log that precedes the request:
* there is a successful completion `inner_done c₀ v ok` of a caller `c₀` whose request (also in `pre`) has
  key `k`, and **behind it** `pre` contains no successful completion of any request with key `k`
  (`LastOkFor pre k v`, unfolded) — `v` is the response of the LAST inner call for `k` that completed `Ok`
  (and was therefore stored) before the request;
* `v` is the serial of an inner call made for a request with key `k`, and of no call made for a request
  with another key. -/
theorem hit_returns_last_stored_response_of_its_key (cfg : Cfg) (ops : List Op) (c v k svc : Nat)
    (pre post : List Ev)
    (hr : Ev.result c (.ok v) ∈ (run cfg ops).log)
    (hn : ∀ v', Ev.innerCall c v' ∉ (run cfg ops).log)
    (hd : (run cfg ops).log = pre ++ reqEv c k svc :: post) :
    (∃ p q c₀, pre = p ++ Ev.innerDone c₀ v .ok :: q ∧ ReqKey pre c₀ k ∧
      ∀ c' v', Ev.innerDone c' v' .ok ∈ q → ¬ ReqKey pre c' k) ∧
    (∃ c₀, Ev.innerCall c₀ v ∈ (run cfg ops).log ∧ ReqKey (run cfg ops).log c₀ k) ∧
    (∀ c' k', Ev.innerCall c' v ∈ (run cfg ops).log → ReqKey (run cfg ops).log c' k' → k' = k) := by
  obtain ⟨hl, hs⟩ := log_inv_reachable cfg ops
  have hlast := hit_result_log hl hs hr hn hd
  obtain ⟨p, q, c₀, hp, hk, hno⟩ := hlast
  have hdone : Ev.innerDone c₀ v .ok ∈ (run cfg ops).log := by rw [hd, hp]; simp
  have hcall := hl.doneCall c₀ v .ok hdone
  have hk' : ReqKey (run cfg ops).log c₀ k := by rw [hd]; exact hk.mono _
  refine ⟨⟨p, q, c₀, hp, hk, hno⟩, ⟨c₀, hcall, hk'⟩, ?_⟩
  intro c' k' hc' hr'
  rw [hl.callFun c' c₀ v hc' hcall] at hr'
  exact hl.reqFun c₀ k' k hr' hk'

/-- Every caller answered `ok:v` without an inner call of its own *has* such an echo in the log (so the
theorem above is about every hit). -/
theorem hit_has_request_in_log (cfg : Cfg) (ops : List Op) (c v : Nat)
    (hr : Ev.result c (.ok v) ∈ (run cfg ops).log) (hn : ∀ v', Ev.innerCall c v' ∉ (run cfg ops).log) :
    ∃ pre post k svc, (run cfg ops).log = pre ++ reqEv c k svc :: post := by
  obtain ⟨hl, hs⟩ := log_inv_reachable cfg ops
  rcases hs.res c v hr with hdone | ⟨_, pre, post, k, svc, hd, _⟩
  · exact absurd (hl.doneCall c v .ok hdone) (hn v)
  · exact ⟨pre, post, k, svc, hd⟩

/-- **A miss returns the response of its own inner call**: a caller that made an inner call and was
answered `ok:v` made the call with serial `v`, and that call completed `Ok`. -/
theorem miss_returns_own_response (cfg : Cfg) (ops : List Op) (c v v' : Nat)
    (hr : Ev.result c (.ok v) ∈ (run cfg ops).log) (hc : Ev.innerCall c v' ∈ (run cfg ops).log) :
    v' = v ∧ Ev.innerDone c v .ok ∈ (run cfg ops).log := by
  obtain ⟨hl, hs⟩ := log_inv_reachable cfg ops
  rcases hs.res c v hr with hdone | ⟨hno, _⟩
  · exact ⟨hl.callOne c v' v hc (hl.doneCall c v .ok hdone), hdone⟩
  · exact absurd hc (hno v')

/-- **LRU order = recency in the log.** Under LRU, after any history: every resident key has been accessed
(`IsAccess`: the echo of a request served from the cache, or the successful completion of a request for the
key), and the container lists the resident keys most recently accessed first: if `a` stands before `b`,
then behind the last access of `b.key` in the log there is an access of `a.key`. -/
theorem lru_order_is_log_recency (cfg : Cfg) (hp : cfg.policy = .lru) (ops : List Op) :
    (∀ e ∈ (run cfg ops).store, Accessed (run cfg ops).log e.key) ∧
    (run cfg ops).store.Pairwise (fun a b => AccessedAfter (run cfg ops).log b.key a.key) :=
  ⟨(rinv_reachable cfg hp ops).acc, (rinv_reachable cfg hp ops).ord⟩

/-- **LRU victim = the least recently used resident key, in log order.** Inserting a new key into a full
store removes an entry `x` (and nothing else, `Evicts`) such that every other resident key has been accessed
— hit or stored — *after* the last access of `x.key` in the log. -/
theorem victim_lru_log (cfg : Cfg) (ops : List Op) (hp : cfg.policy = .lru)
    (now k v w : Nat) (hnew : find (run cfg ops).store k = none)
    (hfull : (run cfg ops).store.length ≥ cfg.cap) :
    ∃ x, (storeInsert cfg now (run cfg ops).tick (run cfg ops).store k v w).victim = some x ∧
      Evicts (run cfg ops).store (storeInsert cfg now (run cfg ops).tick (run cfg ops).store k v w).items
        { key := k, val := v, ins := now, cnt := 1, used := (run cfg ops).tick, born := (run cfg ops).tick } x ∧
      ∀ y ∈ (run cfg ops).store, y.key ≠ x.key → AccessedAfter (run cfg ops).log x.key y.key := by
  obtain ⟨x, hv, hev, _⟩ := victim_lru cfg ops hp now k v w hnew hfull
  refine ⟨x, hv, hev, ?_⟩
  rw [storeInsert_lru hp] at hv
  obtain ⟨ys, x', hys, hv'⟩ := insertLru_victim_last
    (e := ⟨k, v, now, 1, (run cfg ops).tick, (run cfg ops).tick⟩) (cap_pos cfg) hnew hfull
  rw [hv] at hv'
  cases hv'
  have hord := (rinv_reachable cfg hp ops).ord
  rw [hys, List.pairwise_append] at hord
  intro y hy hne
  rw [hys, List.mem_append, List.mem_singleton] at hy
  rcases hy with hy | rfl
  · exact hord.2.2 y hy x (by simp)
  · exact absurd rfl hne

/-- **At most one result per caller**: the log holds at most one `result c …` line for every caller `c` —
"the response" of a request is well defined. -/
theorem one_result_per_caller (cfg : Cfg) (ops : List Op) (c : Nat) :
    (run cfg ops).log.countP (isResOf c) ≤ 1 :=
  (resinv_reachable cfg ops).resOnce c

/-! ### LFU and FIFO: "since the entry was inserted"

An eviction or a lazy expiry-removal writes no log line, so the moment a key became resident is a fact of the
history, not of one log line. `ResidentSince cfg ops k n`: operation number `n` of `ops` inserted `k` — `k` is
absent after the first `n` operations and present after every longer prefix of `ops`, all of `ops` included. -/

/-- the operation that inserted a resident key is unique -/
theorem insertion_is_unique (cfg : Cfg) (ops : List Op) (k n n' : Nat)
    (h : ResidentSince cfg ops k n) (h' : ResidentSince cfg ops k n') : n = n' :=
  h.unique h'

/-- **LFU: the count of an entry is the number of accesses since its insertion.** Under LFU, after any
history, for every resident entry `e`: some operation `n` inserted `e.key` (`ResidentSince`), and `e.cnt` is
the number of accesses of `e.key` (`IsAccess`: echo of a request served from the cache, successful completion
of a request for the key — the inserting completion included) among the log lines `q` written since then. -/
theorem lfu_count_is_accesses_since_insertion (cfg : Cfg) (hp : cfg.policy = .lfu) (ops : List Op)
    (e : Entry) (he : e ∈ (run cfg ops).store) :
    ∃ n q, ResidentSince cfg ops e.key n ∧ (run cfg ops).log = (run cfg (ops.take n)).log ++ q ∧
      CountAcc (run cfg ops).log e.key q e.cnt :=
  lfu_count_since_insertion cfg hp ops e he

/-- … and every single operation moves the counts by exactly the accesses among its own log lines
(`LfuStep`): an entry that stays has its count raised by the number of accesses of its key among the new
lines, an entry for a key that was absent starts with that number (one: the inserting completion). -/
theorem lfu_count_step (cfg : Cfg) (hp : cfg.policy = .lfu) (ops : List Op) (op : Op) :
    LfuStep (run cfg ops) (stepS cfg (run cfg ops) op) :=
  step_lfuStep hp op (log_inv_reachable cfg ops).1

/-- **LFU victim = a key with the fewest accesses since its insertion**: the removed entry has minimal
count (`victim_lfu`), and every count in the store, the victim's included, is the number of accesses of
the entry's key since the operation that inserted it. -/
theorem victim_lfu_log (cfg : Cfg) (ops : List Op) (hp : cfg.policy = .lfu)
    (now k v w : Nat) (hnew : find (run cfg ops).store k = none)
    (hfull : (run cfg ops).store.length ≥ cfg.cap) :
    ∃ x, (storeInsert cfg now (run cfg ops).tick (run cfg ops).store k v w).victim = some x ∧
      x ∈ (run cfg ops).store ∧ (∀ y ∈ (run cfg ops).store, x.cnt ≤ y.cnt) ∧
      ∀ y ∈ (run cfg ops).store, CountedSince cfg ops y := by
  obtain ⟨x, hv, hev, hmin, _⟩ := victim_lfu cfg ops hp now k v w hnew hfull
  exact ⟨x, hv, hev.1, hmin, lfu_count_since_insertion cfg hp ops⟩

/-- **FIFO: the queue is in the order of the insertions.** Under FIFO, after any history, every resident key
was inserted by some operation of the history, and if `a` stands before `b` in the queue then `a`'s key was
inserted before `b`'s (`InsertedBefore`) — re-stores of a present key, hits, expiry-removals of other keys
and evictions in between notwithstanding. -/
theorem fifo_queue_is_insertion_order (cfg : Cfg) (hp : cfg.policy = .fifo) (ops : List Op) :
    (∀ e ∈ (run cfg ops).store, ∃ n, ResidentSince cfg ops e.key n) ∧
    ((run cfg ops).store.map (·.key)).Pairwise (InsertedBefore cfg ops) :=
  ⟨(fifo_order_is_insertion_order cfg hp ops).res, (fifo_order_is_insertion_order cfg hp ops).ord⟩

/-- **FIFO victim = the key that was inserted first** among the resident ones (and has been resident ever
since): inserting a new key into a full store removes the front `x` of the queue, and every other resident
key was inserted by a later operation of the history. -/
theorem victim_fifo_first_inserted (cfg : Cfg) (ops : List Op) (hp : cfg.policy = .fifo)
    (now k v w : Nat) (hnew : find (run cfg ops).store k = none)
    (hfull : (run cfg ops).store.length ≥ cfg.cap) :
    ∃ x, (storeInsert cfg now (run cfg ops).tick (run cfg ops).store k v w).victim = some x ∧
      (run cfg ops).store.head? = some x ∧
      ∀ y ∈ (run cfg ops).store, y.key ≠ x.key → InsertedBefore cfg ops x.key y.key := by
  obtain ⟨hv, _, _⟩ := victim_fifo_oldest_stored cfg ops hp now k v w hnew hfull
  have hord := (fifo_order_is_insertion_order cfg hp ops).ord
  cases hst : (run cfg ops).store with
  | nil => rw [hst] at hfull; have := cap_pos cfg; simp at hfull; omega
  | cons x tl =>
    rw [hst] at hv hord
    refine ⟨x, hv, rfl, ?_⟩
    intro y hy hne
    simp only [List.map_cons, List.pairwise_cons] at hord
    simp only [List.mem_cons] at hy
    rcases hy with rfl | hy
    · exact absurd rfl hne
    · exact hord.1 y.key (List.mem_map.mpr ⟨y, hy, rfl⟩)

/-! ### the TTL clause over the history

The log carries no instants (an `adv` writes no line): the clock is a function of the history. -/

/-- The clock after a history is the sum of its time advances. -/
theorem clock_is_sum_of_advances (cfg : Cfg) (ops : List Op) : (run cfg ops).now = advSum ops :=
  now_eq_advSum cfg ops

/-- **Never older than the TTL — over the history.** If the lookup for `k` after the history `ops` hits with
`v`, then some operation number `n` of `ops` is a poll `poll c w` that completed `c`'s inner call successfully
— the log lines of that operation are `inner_done c v ok, …, result c ok:v` (`okEvs c v b`) and the echo of
`c`'s request shows key `k` — and the time advances of the history since that operation sum to at most the
TTL (when one is configured). -/
theorem hit_not_older_than_ttl_in_history (cfg : Cfg) (ops : List Op) (k v : Nat)
    (h : (storeGet cfg (run cfg ops).now (run cfg ops).tick (run cfg ops).store k).2 = some v) :
    ∃ n c w b, n < ops.length ∧ ops[n]? = some (Op.poll c w) ∧
      (run cfg (ops.take (n + 1))).log = (run cfg (ops.take n)).log ++ okEvs c v b ∧
      ReqKey (run cfg (ops.take n)).log c k ∧
      ∀ d, cfg.ttl = some d → advSum ops - advSum (ops.take n) ≤ d := by
  obtain ⟨t, ht, _, httl⟩ := hit_is_latest cfg ops k v h
  obtain ⟨n, c, w, b, hn, hop, hnow, hlog, hreq⟩ := stored_by_completion cfg ops _ (lookup_mem ht)
  refine ⟨n, c, w, b, hn, hop, hlog, hreq, ?_⟩
  intro d hd
  have := httl d hd
  rw [now_eq_advSum] at this hnow
  simp only [] at hnow
  rw [hnow]; exact this

/-- The log-level statements hold for each store of a plain layer's services on its own (on the log of that
store, with that store's serial numbers): a hit on a service returns the response most recently stored *in
that service's store* for its key … -/
theorem hit_returns_last_stored_response_per_store (cfg : Cfg) (n i : Nat) (ops : List Op) (c v k svc : Nat)
    (pre post : List Ev)
    (hr : Ev.result c (.ok v) ∈ (runAt cfg n i ops).log)
    (hn : ∀ v', Ev.innerCall c v' ∉ (runAt cfg n i ops).log)
    (hd : (runAt cfg n i ops).log = pre ++ reqEv c k svc :: post) :
    (∃ p q c₀, pre = p ++ Ev.innerDone c₀ v .ok :: q ∧ ReqKey pre c₀ k ∧
      ∀ c' v', Ev.innerDone c' v' .ok ∈ q → ¬ ReqKey pre c' k) ∧
    (∃ c₀, Ev.innerCall c₀ v ∈ (runAt cfg n i ops).log ∧ ReqKey (runAt cfg n i ops).log c₀ k) ∧
    (∀ c' k', Ev.innerCall c' v ∈ (runAt cfg n i ops).log → ReqKey (runAt cfg n i ops).log c' k' → k' = k) :=
  hit_returns_last_stored_response_of_its_key cfg (proj n i ops) c v k svc pre post hr hn hd

/-- … and each store's LRU victim is the least recently used key of *that store's* log (the log of a store
holds exactly the requests made on its service, `proj`). -/
theorem victim_lru_log_per_store (cfg : Cfg) (n i : Nat) (ops : List Op) (hp : cfg.policy = .lru)
    (now k v w : Nat) (hnew : find (runAt cfg n i ops).store k = none)
    (hfull : (runAt cfg n i ops).store.length ≥ cfg.cap) :
    ∃ x, (storeInsert cfg now (runAt cfg n i ops).tick (runAt cfg n i ops).store k v w).victim = some x ∧
      ∀ y ∈ (runAt cfg n i ops).store, y.key ≠ x.key → AccessedAfter (runAt cfg n i ops).log x.key y.key := by
  obtain ⟨x, hv, _, h⟩ := victim_lru_log cfg (proj n i ops) hp now k v w hnew hfull
  exact ⟨x, hv, h⟩

/-- The builder's defaults (no `max_size` / `ttl` / `eviction_policy` call) are within the property's
quantifier: `max_size = 100 ≥ 1`, no TTL, LRU. -/
theorem builder_defaults_ok : 0 < builderDefaults.max ∧ builderDefaults.cap = 100 ∧
    builderDefaults.ttl = none ∧ builderDefaults.policy = .lru := by decide

/-! ## non-vacuity: concrete histories -/

/-- LRU, `max = 2`, ttl 10: a and b stored, a read (hit, returns a's serial 0), c stored ⇒ b is the
victim; the store is full; a's hit at exactly `inserted_at + ttl` is still a hit, one ms later it
is a miss that reaches the inner service. -/
example :
    let cfg : Cfg := { max := 2, ttl := some 10, policy := .lru }
    let ops := [Op.arrive 1 1 0 ⟨0, .ok⟩, .poll 1 0, .arrive 2 2 0 ⟨0, .ok⟩, .poll 2 0,
                .arrive 3 1 0 ⟨0, .ok⟩, .poll 3 0, .arrive 4 3 0 ⟨0, .ok⟩, .poll 4 0]
    ((run cfg ops).store.map (·.key)) = [3, 1] ∧
    (run cfg ops).log.getLast? = some (.result 4 (.ok 2)) ∧
    (storeGet cfg 10 (run cfg ops).tick (run cfg ops).store 1).2 = some 0 ∧
    (storeGet cfg 11 (run cfg ops).tick (run cfg ops).store 1).2 = none ∧
    (storeGet cfg 0 (run cfg ops).tick (run cfg ops).store 2).2 = none ∧
    find (run cfg ops).store 2 = none ∧ (run cfg ops).store.length ≥ cfg.cap := by decide

/-- FIFO: the re-insert of key 1 (concurrent miss completing later) keeps its queue position, so 1
is still the victim when 3 arrives; an error (caller 5) is not cached. -/
example :
    let cfg : Cfg := { max := 2, ttl := none, policy := .fifo }
    let ops := [Op.arrive 1 1 0 ⟨0, .ok⟩, .arrive 2 1 0 ⟨5, .ok⟩, .poll 1 0, .arrive 3 2 0 ⟨0, .ok⟩, .poll 3 0,
                .adv 5, .poll 2 0, .arrive 5 3 0 ⟨0, .err 1⟩, .poll 5 0, .arrive 6 3 0 ⟨0, .ok⟩, .poll 6 0]
    ((run cfg ops).store.map (fun e => (e.key, e.val))) = [(2, 2), (3, 4)] ∧
    lookup (run cfg ops).stored 1 = some (1, 5) ∧
    find (run cfg ops).store 1 = none ∧ (run cfg ops).store.length ≥ cfg.cap := by decide

/-- FIFO with a TTL, `max = 3`: 1 stored at 0, 2 and 3 at 7; at 11 only 1 (the **front**) has expired.
Its lookup deletes just that slot (queue 2 3), the completion re-stores it at the back (2 3 1), so key 4
evicts 2 — not 3, and not the key that was first seen. -/
example :
    let cfg : Cfg := { max := 3, ttl := some 10, policy := .fifo }
    let ops := [Op.arrive 1 1 0 ⟨0, .ok⟩, .poll 1 0, .adv 7, .arrive 2 2 0 ⟨0, .ok⟩, .poll 2 0,
                .arrive 3 3 0 ⟨0, .ok⟩, .poll 3 0, .adv 4, .arrive 4 1 0 ⟨0, .ok⟩]
    ((run cfg ops).store.map (·.key)) = [2, 3] ∧
    ((run cfg (ops ++ [.poll 4 0])).store.map (·.key)) = [2, 3, 1] ∧
    find (run cfg (ops ++ [.poll 4 0])).store 4 = none ∧ (run cfg (ops ++ [.poll 4 0])).store.length ≥ cfg.cap ∧
    ((run cfg (ops ++ [.poll 4 0, .arrive 5 4 0 ⟨0, .ok⟩, .poll 5 0])).store.map (·.key)) = [3, 1, 4] := by decide

/-- FIFO, `max = 4`, a **middle** slot expires: key 1 is refreshed by a late concurrent completion
(slot kept, `inserted_at` new), so at 12 only key 2, second in the queue 1 2 3 4, has expired. The
lookup leaves 1 3 4, the re-store gives 1 3 4 2; keys 5 and 6 then evict 1 and 3. -/
example :
    let cfg : Cfg := { max := 4, ttl := some 10, policy := .fifo }
    let ops := [Op.arrive 1 1 0 ⟨0, .ok⟩, .arrive 2 1 0 ⟨5, .ok⟩, .poll 1 0, .adv 1, .arrive 3 2 0 ⟨0, .ok⟩, .poll 3 0,
                .adv 4, .poll 2 0, .arrive 4 3 0 ⟨0, .ok⟩, .poll 4 0, .arrive 5 4 0 ⟨0, .ok⟩, .poll 5 0, .adv 7]
    ((run cfg ops).store.map (fun e => (e.key, e.ins))) = [(1, 5), (2, 1), (3, 5), (4, 5)] ∧
    ((run cfg (ops ++ [.arrive 6 2 0 ⟨0, .ok⟩])).store.map (·.key)) = [1, 3, 4] ∧
    ((run cfg (ops ++ [.arrive 6 2 0 ⟨0, .ok⟩, .poll 6 0])).store.map (·.key)) = [1, 3, 4, 2] ∧
    ((run cfg (ops ++ [.arrive 6 2 0 ⟨0, .ok⟩, .poll 6 0, .arrive 7 5 0 ⟨0, .ok⟩, .poll 7 0,
                       .arrive 8 6 0 ⟨0, .ok⟩, .poll 8 0])).store.map (·.key)) = [4, 2, 5, 6] := by decide

/-- 1 µs ticks, TTL 5 ms = 5000: stored at 300, a hit at age 5000 exactly, a miss at age 5001 and at age
5200 — where both the age and the TTL truncate to 5 whole milliseconds (`5500 / 1000 > 5000 / 1000` is
false). TTL 5200 (not a whole millisecond): hit at age 5200, miss at 5201 and 5999. -/
example :
    let cfg : Cfg := { max := 2, ttl := some 5000, policy := .lru }
    let cfg2 : Cfg := { max := 2, ttl := some 5200, policy := .lfu }
    let ops := [Op.adv 300, .arrive 1 1 0 ⟨0, .ok⟩, .poll 1 0]
    ((run cfg ops).store.map (fun e => (e.key, e.ins))) = [(1, 300)] ∧
    (storeGet cfg 5300 (run cfg ops).tick (run cfg ops).store 1).2 = some 0 ∧
    (storeGet cfg 5301 (run cfg ops).tick (run cfg ops).store 1).2 = none ∧
    (storeGet cfg 5500 (run cfg ops).tick (run cfg ops).store 1).2 = none ∧
    ((run cfg (ops ++ [.adv 5200, .arrive 2 1 0 ⟨0, .ok⟩])).log.getLast? = some (.innerCall 2 1)) ∧
    (storeGet cfg2 5500 (run cfg2 ops).tick (run cfg2 ops).store 1).2 = some 0 ∧
    (storeGet cfg2 5501 (run cfg2 ops).tick (run cfg2 ops).store 1).2 = none ∧
    (storeGet cfg2 6299 (run cfg2 ops).tick (run cfg2 ops).store 1).2 = none ∧
    decide ((5500 - 300) / 1000 > 5000 / 1000) = false := by decide

/-- LFU, `max = 10` (more entries than any bounded scan of 8 looks at): keys 1..10 stored, every key
but 9 used once more, so 9 — ninth in insertion order — is the unique least frequently used entry
(hypotheses of `victim_lfu_unique_min`); key 11 evicts it whatever `w` says, and everything else stays. -/
example :
    let cfg : Cfg := { max := 10, ttl := none, policy := .lfu }
    let fill := (List.range 10).flatMap fun i => [Op.arrive (i + 1) (i + 1) 0 ⟨0, .ok⟩, .poll (i + 1) 0]
    let uses := ((List.range 10).filter (· != 8)).flatMap fun i => [Op.arrive (i + 21) (i + 1) 0 ⟨0, .ok⟩, .poll (i + 21) 0]
    let s := run cfg (fill ++ uses)
    s.store.map (fun e => (e.key, e.cnt)) = [(1, 2), (2, 2), (3, 2), (4, 2), (5, 2), (6, 2), (7, 2), (8, 2), (9, 1), (10, 2)] ∧
    find s.store 11 = none ∧ s.store.length ≥ cfg.cap ∧
    (run cfg (fill ++ uses ++ [.arrive 40 11 0 ⟨0, .ok⟩, .poll 40 3])).store.map (·.key) = [1, 2, 3, 4, 5, 6, 7, 8, 10, 11] ∧
    (run cfg (fill ++ uses ++ [.arrive 40 11 0 ⟨0, .ok⟩, .poll 40 9])).store.map (·.key) = [1, 2, 3, 4, 5, 6, 7, 8, 10, 11] := by
  decide

/-- a pending call that will fail (hypotheses of `errors_not_cached`), and a parked hit
(hypothesis of `hit_result`) -/
example :
    let cfg : Cfg := { max := 1, ttl := none, policy := .lfu }
    let s := run cfg [Op.arrive 1 7 0 ⟨0, .ok⟩, .poll 1 0, .arrive 2 8 1 ⟨3, .err 2⟩, .arrive 3 7 1 ⟨0, .ok⟩]
    lookup s.hits 2 = none ∧ lookup s.pend 2 = some { key := 8, k := 1, doneAt := 3, out := .err 2 } ∧
    lookup s.hits 3 = some 0 ∧ s.seen.contains 4 = false := by decide

/-- LFU with a tie: both allowed victims lead to different stores; a choice that is not allowed is
flagged. -/
example :
    let cfg : Cfg := { max := 2, ttl := none, policy := .lfu }
    let ops := [Op.arrive 1 1 0 ⟨0, .ok⟩, .poll 1 0, .arrive 2 2 0 ⟨0, .ok⟩, .poll 2 0, .arrive 3 3 0 ⟨0, .ok⟩]
    ((run cfg (ops ++ [.poll 3 1])).store.map (·.key)) = [2, 3] ∧
    ((run cfg (ops ++ [.poll 3 2])).store.map (·.key)) = [1, 3] ∧
    Ev.raw "choice-not-allowed" ∈ (run cfg (ops ++ [.poll 3 7])).log ∧
    Ev.raw "choice-not-allowed" ∉ (run cfg (ops ++ [.poll 3 2])).log := by decide

/-- Hypotheses of `hit_returns_last_stored_response_of_its_key` and of `miss_returns_own_response`, on a
history with an overwrite: two concurrent misses on key 7 (callers 1 and 2, serials 0 and 1) and a request
for key 8 in between; caller 2's slower call completes last, so it is the last successful completion for
key 7 when caller 4 asks: caller 4 is answered `ok:1` without an inner call, and the part of the log before
its echo ends `… inner_done 1 0 ok … inner_done 3 2 ok … inner_done 2 1 ok, result 2 ok:1`. -/
example :
    let cfg : Cfg := { max := 2, ttl := some 50, policy := .fifo }
    let ops := [Op.arrive 1 7 0 ⟨0, .ok⟩, .arrive 2 7 0 ⟨5, .ok⟩, .poll 1 0, .arrive 3 8 0 ⟨0, .ok⟩, .poll 3 0,
                .adv 5, .poll 2 0, .arrive 4 7 0 ⟨0, .ok⟩, .poll 4 0]
    let pre := [reqEv 1 7 0, .innerCall 1 0, reqEv 2 7 0, .innerCall 2 1, .innerDone 1 0 .ok, .result 1 (.ok 0),
                reqEv 3 8 0, .innerCall 3 2, .innerDone 3 2 .ok, .result 3 (.ok 2), .innerDone 2 1 .ok, .result 2 (.ok 1)]
    (run cfg ops).log = pre ++ reqEv 4 7 0 :: [.result 4 (.ok 1)] ∧
    Ev.result 4 (.ok 1) ∈ (run cfg ops).log ∧ (∀ v', Ev.innerCall 4 v' ∉ (run cfg ops).log) ∧
    Ev.result 2 (.ok 1) ∈ (run cfg ops).log ∧ Ev.innerCall 2 1 ∈ (run cfg ops).log := by
  refine ⟨by decide, by decide, no_call_of_countP (by decide), by decide, by decide⟩

/-- Hypotheses of `present_unexpired_key_hits` / `present_key_hits_without_ttl` / `absent_key_misses`. -/
example :
    let cfg : Cfg := { max := 2, ttl := some 10, policy := .lfu }
    let cfgN : Cfg := { max := 2, ttl := none, policy := .lru }
    let ops := [Op.arrive 1 7 0 ⟨0, .ok⟩, .poll 1 0, .adv 10]
    let e : Entry := { key := 7, val := 0, ins := 0, cnt := 1, used := 1, born := 1 }
    find (run cfg ops).store 7 = some e ∧ expired cfg.ttl (run cfg ops).now e = false ∧
    find (run cfgN (ops ++ [.adv 1000000])).store 7 = some e ∧ cfgN.ttl = none ∧
    find (run cfg ops).store 8 = none := by decide

/-- `lru_order_is_log_recency` / `victim_lru_log` on a concrete log: keys 1 and 2 stored, key 1 read again.
The store is full (`max = 2`) and lists `1, 2`; a new key would evict 2. In the log the last access of key 2
is `inner_done 2 1 ok`; behind it stands `req 3 key=1`, the echo of a request served from the cache — an
access of key 1: `AccessedAfter log 2 1`. -/
example :
    let cfg : Cfg := { max := 2, ttl := none, policy := .lru }
    let ops := [Op.arrive 1 1 0 ⟨0, .ok⟩, .poll 1 0, .arrive 2 2 0 ⟨0, .ok⟩, .poll 2 0, .arrive 3 1 0 ⟨0, .ok⟩, .poll 3 0]
    (run cfg ops).store.map (·.key) = [1, 2] ∧ find (run cfg ops).store 3 = none ∧
    (run cfg ops).store.length ≥ cfg.cap ∧ AccessedAfter (run cfg ops).log 2 1 := by
  refine ⟨by decide, by decide, by decide, ?_⟩
  refine ⟨[reqEv 1 1 0, .innerCall 1 0, .innerDone 1 0 .ok, .result 1 (.ok 0), reqEv 2 2 0, .innerCall 2 1],
    .innerDone 2 1 .ok, [.result 2 (.ok 1), reqEv 3 1 0, .result 3 (.ok 0)], ⟨by decide, ?_, ?_⟩,
    reqEv 3 1 0, by simp, ?_⟩
  · exact Or.inr ⟨2, 1, rfl, 0, by decide⟩
  · intro b hb
    simp only [List.mem_cons, List.not_mem_nil, or_false] at hb
    rcases hb with rfl | rfl | rfl
    · exact not_isAccess_quiet_nodone (quiet_result _ _) (fun _ _ h => by cases h)
    · intro h; exact absurd (isAccess_req h).1 (by decide)
    · exact not_isAccess_quiet_nodone (quiet_result _ _) (fun _ _ h => by cases h)
  · exact Or.inl ⟨3, 0, rfl, no_call_of_countP (by decide)⟩

/-- `lfu_count_is_accesses_since_insertion` on a concrete history: key 7 is stored by operation 1 (`poll 1`)
and read once; its count is 2, and the log lines written since operation 1 — `inner_done 1 0 ok`,
`result 1 ok:0`, `req 2 key=7 …`, `result 2 ok:0` — contain exactly two accesses of key 7 (the storing
completion and the echo of the request served from the cache). -/
example :
    let cfg : Cfg := { max := 2, ttl := none, policy := .lfu }
    let ops := [Op.arrive 1 7 0 ⟨0, .ok⟩, .poll 1 0, .arrive 2 7 0 ⟨0, .ok⟩, .poll 2 0]
    (run cfg ops).store.map (fun e => (e.key, e.cnt)) = [(7, 2)] ∧ ResidentSince cfg ops 7 1 ∧
    (run cfg ops).log = (run cfg (ops.take 1)).log ++
      [.innerDone 1 0 .ok, .result 1 (.ok 0), reqEv 2 7 0, .result 2 (.ok 0)] ∧
    CountAcc (run cfg ops).log 7 [.innerDone 1 0 .ok, .result 1 (.ok 0), reqEv 2 7 0, .result 2 (.ok 0)] 2 := by
  intro cfg ops
  refine ⟨by decide, ⟨by decide, by decide, ?_⟩, by decide, ?_⟩
  · intro m h1 h2
    have hm : m = 2 ∨ m = 3 ∨ m = 4 := by simp [ops] at h2; omega
    rcases hm with rfl | rfl | rfl <;> decide
  · have hnr : ∀ c r, ¬ IsAccess (run cfg ops).log 7 (Ev.result c r) :=
      fun c r => not_isAccess_quiet_nodone (quiet_result _ _) (fun _ _ h => by cases h)
    exact .hit (Or.inr ⟨1, 0, rfl, 0, by decide⟩) (.skip (hnr _ _)
      (.hit (Or.inl ⟨2, 0, rfl, no_call_of_countP (by decide)⟩) (.skip (hnr _ _) .nil)))

/-- `victim_fifo_first_inserted` / `fifo_queue_is_insertion_order` on a concrete history: key 1 is inserted by
operation 1, key 2 by operation 3 (the re-store of key 1 by the late completion of caller 2, operation 6, does
not re-insert it): `InsertedBefore cfg ops 1 2`; the store is full and key 3 is absent. -/
example :
    let cfg : Cfg := { max := 2, ttl := none, policy := .fifo }
    let ops := [Op.arrive 1 1 0 ⟨0, .ok⟩, .poll 1 0, .arrive 3 2 0 ⟨0, .ok⟩, .poll 3 0]
    (run cfg ops).store.map (·.key) = [1, 2] ∧ find (run cfg ops).store 3 = none ∧
    (run cfg ops).store.length ≥ cfg.cap ∧ InsertedBefore cfg ops 1 2 := by
  intro cfg ops
  refine ⟨by decide, by decide, by decide, 1, 3, ⟨by decide, by decide, ?_⟩, ⟨by decide, by decide, ?_⟩, by decide⟩
  · intro m h1 h2
    have hm : m = 2 ∨ m = 3 ∨ m = 4 := by simp [ops] at h2; omega
    rcases hm with rfl | rfl | rfl <;> decide
  · intro m h1 h2
    have hm : m = 4 := by simp [ops] at h2; omega
    subst hm; decide

/-- Hypothesis of `hit_not_older_than_ttl_in_history`: key 7 stored at clock 3 by operation 2, a lookup at
clock 3 + 10 = the TTL boundary still hits; the advances since operation 2 sum to 10. -/
example :
    let cfg : Cfg := { max := 2, ttl := some 10, policy := .lru }
    let ops := [Op.adv 3, .arrive 1 7 0 ⟨0, .ok⟩, .poll 1 0, .adv 4, .adv 6]
    (storeGet cfg (run cfg ops).now (run cfg ops).tick (run cfg ops).store 7).2 = some 0 ∧
    ops[2]? = some (Op.poll 1 0) ∧ advSum ops - advSum (ops.take 2) = 10 ∧
    (run cfg (ops.take 3)).log = (run cfg (ops.take 2)).log ++ okEvs 1 0 true := by
  intro cfg ops
  exact ⟨by decide, rfl, by decide, by decide⟩

/-- TTL 0 (the history of seeded change C10-w5m1): key 1 stored at 0; a second request at the same instant
is a hit; one tick later the entry is older than the TTL: the lookup misses, removes it and calls the inner
service (serial 1). With "no TTL" the same request is a hit — the two configurations are different. -/
example :
    let cfg0 : Cfg := { max := 2, ttl := some 0, policy := .lru }
    let cfgN : Cfg := { max := 2, ttl := none, policy := .lru }
    let ops := [Op.arrive 1 1 0 ⟨0, .ok⟩, .poll 1 0, .arrive 2 1 0 ⟨0, .ok⟩, .poll 2 0, .adv 1, .arrive 3 1 0 ⟨0, .ok⟩]
    (run cfg0 ops).log.getLast? = some (.innerCall 3 1) ∧ (run cfg0 ops).store = [] ∧
    Ev.result 2 (.ok 0) ∈ (run cfg0 ops).log ∧ Ev.innerCall 2 1 ∉ (run cfg0 ops).log ∧
    lookup (run cfgN ops).hits 3 = some 0 ∧ (run cfgN ops).serial = 1 := by decide

/-- Two services of a plain layer (`n = 2`): key 1 stored through service 0 is a miss on service 1 (its own,
empty store: inner call with that store's first serial) and a hit on service 0; `svc = 2` is service 0
again. With one store (`n = 1`, a shared layer) the request on service 1 is a hit. -/
example :
    let cfg : Cfg := { max := 1, ttl := none, policy := .fifo }
    let ops := [Op.arrive 1 1 0 ⟨0, .ok⟩, .poll 1 0, .arrive 2 1 1 ⟨0, .ok⟩, .arrive 3 1 2 ⟨0, .ok⟩]
    (runAt cfg 2 0 ops).store.map (·.key) = [1] ∧ lookup (runAt cfg 2 0 ops).hits 3 = some 0 ∧
    (runAt cfg 2 1 ops).store = [] ∧ lookup (runAt cfg 2 1 ops).hits 2 = none ∧
    Ev.innerCall 2 0 ∈ (runAt cfg 2 1 ops).log ∧
    lookup (runAt cfg 1 0 ops).hits 2 = some 0 ∧ (runAt cfg 1 0 ops).serial = 1 := by decide

end TR.Props.C10
