import TR.Lemmas.Coalesce
import TR.Lemmas.CoalesceHandle
import TR.Lemmas.CoalesceHerd
import TR.Lemmas.CoalesceCaller
import TR.Lemmas.CoalesceServices
import TR.Lemmas.CoalesceUnwind
import TR.Lemmas.CoalesceOnce
import TR.Lemmas.CoalesceReady
/-!
# C11 — coalesce runs one inner call per key and shares its result with all waiters

Quantification: every list of operations of `TR.Model.Coalesce` — any number of requests over
any key space (`key : Nat`), every arrival / completion instant (`adv`), every cancellation
point of leaders and waiters (`drop` between any two operations), inner outcomes ok / error /
panic / never with any latency, every poll order (including spurious polls), and the moment
at which the last `CoalesceService` handle is dropped (`Op.dropsvc`: before any arrival, with a
leader and waiters in flight, after completion). The three statements about an *arrival*
(`waiter_no_inner_at_arrival`, `fresh_call_when_free`, `call_panic_frees_key`) carry the
hypothesis `svcGone = false`: a request can only be made through a handle that still exists.

Vocabulary (`TR.Lemmas.Coalesce`): `LiveLeader s c key k` — caller `c` made inner call number
`k` for `key` and its future still exists; `LiveWaiter s c key l` — caller `c` found `key`
registered by leader `l` at `call()` time and its future still exists; `reg s key` — the
entry of the `in_flight.requests` map; `Delivered log l key k r` — the log contains
`inner_done l k ok|errN` of `l`'s call for `key`, `r` is that value with serial `k`, and `l` itself
returned it (`result l r`); `Cancelled log l key k` — the log contains `inner_drop l k`, or
`inner_done l k panic`, or `result l panic` after an `inner_done l k …` (the leader panicked while
publishing the value: its `Clone` unwound). The two exclude each other (`delivered_cancelled_exclusive`).

"Leader panics" covers both a panic of the leader's inner *future* (`inner=…:panic`; theorem
`leader_panic_closes`) and a panic inside the inner service's `call()` itself
(`arrive … callpanic=1`; theorem `call_panic_frees_key`). The second wedged the key for ever on
the pinned tree (kernel-checked in `TR/Mutants/CoalesceCallPanicWedges.lean`) and was repaired by
`fix: coalesce unregisters the key when the inner call() panics`; the model follows the repaired code.
-/
namespace TR.Props.C11
open TR TR.Coalesce

/-- In every reachable state two live leaders of one key are the same caller (and the same
inner call): at most one call to the wrapped service is in flight per key. -/
theorem one_inflight_per_key (ops : List Op) (c₁ c₂ key k₁ k₂ : Nat)
    (h1 : LiveLeader (run ops) c₁ key k₁) (h2 : LiveLeader (run ops) c₂ key k₂) :
    c₁ = c₂ ∧ k₁ = k₂ := by
  have inv := inv_reachable ops
  have e1 := inv.leaderReg c₁ key k₁ h1.1 h1.2
  have e2 := inv.leaderReg c₂ key k₂ h2.1 h2.2
  rw [e1] at e2; cases e2
  have := h1.1; rw [h2.1] at this; cases this
  exact ⟨rfl, rfl⟩

/-- The same in the property's own observables: in **every prefix** of the event log and for
every key, (inner calls for that key started) − (finished, panicked or dropped) ≤ 1. -/
theorem one_inflight_per_key_trace (ops : List Op) (key n : Nat) :
    calls key ((run ops).log.take n) ≤ ended key ((run ops).log.take n) + 1 :=
  (tinv_reachable ops).peak key n

/-- The log and the map agree: a call for `key` is in flight according to the log exactly when
`key` is registered in the map. -/
theorem trace_matches_map (ops : List Op) (key : Nat) :
    calls key (run ops).log = ended key (run ops).log + (if (reg (run ops) key).isSome then 1 else 0) :=
  (tinv_reachable ops).trace key

/-- A key is registered exactly when a leader of that key is alive, and then to that leader:
no key is ever left registered by a leader that completed, panicked or was dropped. -/
theorem registered_iff_live_leader (ops : List Op) (key l : Nat) :
    reg (run ops) key = some l ↔ ∃ k, LiveLeader (run ops) l key k := by
  have inv := inv_reachable ops
  constructor
  · intro h; obtain ⟨⟨k, hk⟩, hg⟩ := inv.regLeader key l h; exact ⟨k, hk, hg⟩
  · rintro ⟨k, hk, hg⟩; exact inv.leaderReg l key k hk hg

/-- A request that arrives while its key is registered causes no event at all — in particular
no `inner_call` — consumes no serial number, and becomes a waiter of the registered leader. -/
theorem waiter_no_inner_at_arrival (ops : List Op) (c key ldr : Nat) (sc : Step) (cp : Bool)
    (hs : (run ops).svcGone = false)
    (hc : lookup (run ops).role c = none) (hr : reg (run ops) key = some ldr) :
    (stepS (run ops) (.arrive c key sc cp)).log = (run ops).log ∧
    (stepS (run ops) (.arrive c key sc cp)).serial = (run ops).serial ∧
    LiveWaiter (stepS (run ops) (.arrive c key sc cp)) c key ldr := by
  rw [arrive_registered sc cp hs hc hr]
  exact ⟨rfl, rfl, lookup_cons_self .., fresh_not_gone (inv_reachable ops) hc⟩

/-- … and never later either: no `inner_call` of a waiter occurs anywhere in any reachable log. -/
theorem waiter_no_inner (ops : List Op) (c key l key' k : Nat)
    (hw : lookup (run ops).role c = some (.waiter key l)) :
    CEv.innerCall c key' k ∉ (run ops).log := by
  intro h
  have := (inv_reachable ops).callLeader c key' k h
  rw [hw] at this; cases this

/-- Whatever a waiter ever receives is fair with respect to exactly the leader `l` it joined,
whose key is the waiter's key: either the value (ok or error, same serial `k`) that `l`'s own
inner call for that key produced, or `err:leader_cancelled` and then `l` was dropped or its
inner call panicked. Never another call's, never another key's result. -/
theorem waiter_gets_leader_result (ops : List Op) (c key l : Nat) (r : Res)
    (hw : lookup (run ops).role c = some (.waiter key l))
    (hres : CEv.result c r ∈ (run ops).log) :
    ∃ k, lookup (run ops).role l = some (.leader key k) ∧
      (Delivered (run ops).log l key k r ∨ (r = .cancelled ∧ Cancelled (run ops).log l key k)) :=
  (inv_reachable ops).resultW c key l r hw hres

/-- Serial numbers identify inner calls: two leaders with the same serial are the same caller,
so the serial in a waiter's result pins down the one call it came from. -/
theorem serial_identifies_leader (ops : List Op) (l₁ l₂ key₁ key₂ k : Nat)
    (h1 : lookup (run ops).role l₁ = some (.leader key₁ k))
    (h2 : lookup (run ops).role l₂ = some (.leader key₂ k)) : l₁ = l₂ :=
  serialUniq_reachable ops l₁ l₂ key₁ key₂ k h1 h2

/-- Dropping an unfinished leader emits `inner_drop`, unregisters the key in that step and
leaves its channel closed. -/
theorem leader_drop_closes (ops : List Op) (l key k : Nat) (hl : LiveLeader (run ops) l key k) :
    (stepS (run ops) (.drop l)).log = (run ops).log ++ [.innerDrop l key k] ∧
    reg (stepS (run ops) (.drop l)) key = none ∧
    lookup (stepS (run ops) (.drop l)).chan l = some .closed := by
  obtain ⟨h1, h2, h3, _⟩ := drop_leader_effect hl
  exact ⟨h1, h2, h3⟩

/-- A poll in which the leader's inner call panics (the unwinding drops the leader's future in
the same step) unregisters the key and leaves the channel closed. -/
theorem leader_panic_closes (ops : List Op) (l key k : Nat) (hl : LiveLeader (run ops) l key k)
    (hp : CEv.result l .panic ∈ (stepS (run ops) (.poll l)).log) (hn : CEv.result l .panic ∉ (run ops).log) :
    reg (stepS (run ops) (.poll l)) key = none ∧
    lookup (stepS (run ops) (.poll l)).chan l = some .closed := by
  rcases poll_leader_effect hl with h0 | ⟨o, r, ch, _, _, hpc, hlog, hreg, hch, _⟩
  · rw [h0] at hp; exact absurd hp hn
  · rw [hlog] at hp
    have : r = .panic := by
      rcases List.mem_append.mp hp with hp | hp
      · exact absurd hp hn
      · simp at hp; exact hp.symm
    exact ⟨hreg, by rw [hch, hpc this]⟩

/-- **Fails fast.** Once the channel of leader `l` is closed (by `leader_drop_closes` /
`leader_panic_closes`), then after *any* further operations `mid` that do not poll or drop the
waiter `c` itself, the very next poll of `c` returns `err:leader_cancelled` — and `c` is in the
wake set at that moment (its waker has fired since its last poll, or it was never polled). -/
theorem leader_gone_fails_fast (ops mid : List Op) (c key l : Nat)
    (hw : LiveWaiter (run ops) c key l) (hch : lookup (run ops).chan l = some .closed)
    (hmid : ∀ op ∈ mid, op ≠ .poll c ∧ op ≠ .drop c) :
    (stepS (run (ops ++ mid)) (.poll c)).log = (run (ops ++ mid)).log ++ [.result c .cancelled] ∧
    lookup (run (ops ++ mid)).awake c = some true := by
  rw [run_append]
  obtain ⟨inv', hw', hch'⟩ := waiter_persist mid hmid (run ops) (inv_reachable ops) hw hch (by simp)
  exact ⟨poll_waiter_closed hw' hch', inv'.awakeW c key l hw'.1 hw'.2⟩

/-- The two previous statements put together for cancellation: drop a live leader, do anything
that does not touch waiter `c`, poll `c` once: `err:leader_cancelled`. -/
theorem dropped_leader_waiter_fails_at_next_poll (ops mid : List Op) (c key l k : Nat)
    (hl : LiveLeader (run ops) l key k) (hw : LiveWaiter (run ops) c key l)
    (hmid : ∀ op ∈ mid, op ≠ .poll c ∧ op ≠ .drop c) :
    (stepS (run (ops ++ .drop l :: mid)) (.poll c)).log
      = (run (ops ++ .drop l :: mid)).log ++ [.result c .cancelled] := by
  have hcl : c ≠ l := by
    intro e; subst e; have := hl.1; rw [hw.1] at this; cases this
  have e : ops ++ .drop l :: mid = (ops ++ [.drop l]) ++ mid := by simp
  rw [e]
  have hrun : run (ops ++ [.drop l]) = stepS (run ops) (.drop l) := by rw [run_append]; rfl
  refine (leader_gone_fails_fast (ops ++ [.drop l]) mid c key l ?_ ?_ hmid).1
  · rw [hrun]
    refine ⟨stepS_role_mono _ _ hw.1, ?_⟩
    intro hx
    rcases stepS_gone _ _ _ (by rw [hw.1]; simp) hx with h | h | h
    · exact hw.2 h
    · cases h
    · cases h; exact hcl rfl
  · rw [hrun]; exact (drop_leader_effect hl).2.2.1

/-- A waiter whose leader completed receives the buffered value at its next poll, likewise after
any operations that do not touch the waiter. -/
theorem completed_leader_waiter_resolves (ops mid : List Op) (c key l : Nat) (r : Res)
    (hw : LiveWaiter (run ops) c key l) (hch : lookup (run ops).chan l = some (.sent r))
    (hmid : ∀ op ∈ mid, op ≠ .poll c ∧ op ≠ .drop c) :
    (stepS (run (ops ++ mid)) (.poll c)).log = (run (ops ++ mid)).log ++ [.result c r] := by
  rw [run_append]
  obtain ⟨_, hw', hch'⟩ := waiter_persist mid hmid (run ops) (inv_reachable ops) hw hch (by simp)
  exact poll_waiter_sent hw' hch'

/-- **The key is free again at once.** The step that completes a leader (ok, error or panic) or
drops it leaves the key unregistered … -/
theorem key_free_again (ops : List Op) (l key k : Nat) (hl : LiveLeader (run ops) l key k) :
    reg (stepS (run ops) (.drop l)) key = none ∧
    (l ∈ (stepS (run ops) (.poll l)).gone → reg (stepS (run ops) (.poll l)) key = none) := by
  refine ⟨(drop_leader_effect hl).2.1, ?_⟩
  intro hg
  rcases poll_leader_effect hl with h0 | ⟨o, _, _, _, _, _, _, hreg, _, _⟩
  · rw [h0] at hg; exact absurd hg hl.2
  · exact hreg

/-- … and a request arriving for an unregistered key starts a fresh inner call in the very
step of its arrival (the first new event is its `inner_call` with the next serial number). -/
theorem fresh_call_when_free (ops : List Op) (c key : Nat) (sc : Step)
    (hs : (run ops).svcGone = false)
    (hc : lookup (run ops).role c = none) (hr : reg (run ops) key = none) :
    (stepS (run ops) (.arrive c key sc false)).log = (run ops).log ++ [.innerCall c key (run ops).serial] ∧
    LiveLeader (stepS (run ops) (.arrive c key sc false)) c key (run ops).serial := by
  rw [arrive_free sc hs hc hr]
  exact ⟨rfl, lookup_cons_self .., fresh_not_gone (inv_reachable ops) hc⟩

/-- **A leader whose inner `call()` itself panics** gets the panic, and the key is unregistered
again in that very step (no inner call was logged, no serial consumed): the next request for the
key — `c'`, arriving at once — leads a fresh call. Nothing is left behind that a later request
could wait on. -/
theorem call_panic_frees_key (ops : List Op) (c c' key : Nat) (sc sc' : Step)
    (hs : (run ops).svcGone = false)
    (hc : lookup (run ops).role c = none) (hr : reg (run ops) key = none)
    (hc' : lookup (run ops).role c' = none) (hne : c' ≠ c) :
    let s := stepS (run ops) (.arrive c key sc true)
    s.log = (run ops).log ++ [.result c .panic] ∧ reg s key = none ∧ s.serial = (run ops).serial ∧
    (stepS s (.arrive c' key sc' false)).log = s.log ++ [.innerCall c' key s.serial] := by
  intro s
  have hs0 := hs
  have hs : s = leadPanic (run ops) c key := arrive_free_callPanics sc hs hc hr
  have hs' : s.svcGone = false := by rw [hs]; exact hs0
  have hreg : reg s key = none := by rw [hs]; exact hr
  have hrole : lookup s.role c' = none := by
    rw [hs]; show lookup ((c, _) :: (run ops).role) c' = none
    rw [lookup_cons_ne _ _ (fun e => hne e.symm)]; exact hc'
  refine ⟨by rw [hs]; rfl, hreg, by rw [hs]; rfl, ?_⟩
  rw [arrive_free sc' hs' hrole hreg]; rfl

/-- a state in which polling any caller produces no event -/
def Settled (s : State) : Prop := ∀ c, (stepS s (.poll c)).log = s.log

/-- **No eternal wait.** In a settled state every waiter that is still pending has a leader that
is still alive (so it is legitimately waiting for a call in flight): no waiter whose leader has
completed, panicked or been dropped is pending. -/
theorem no_eternal_wait (ops : List Op) (c key l : Nat)
    (hs : Settled (run ops)) (hw : LiveWaiter (run ops) c key l) :
    ∃ k, LiveLeader (run ops) l key k := by
  have inv := inv_reachable ops
  obtain ⟨k, hk⟩ := inv.waiterLeader c key l hw.1
  obtain ⟨ch, hch, hiff⟩ := inv.chanOf l key k hk
  have hlen : ∀ e : CEv, (run ops).log ++ [e] ≠ (run ops).log := by
    intro e h; have := congrArg List.length h; simp at this
  cases ch with
  | opened => exact ⟨k, hk, hiff.mp rfl⟩
  | sent r => exact absurd ((poll_waiter_sent hw hch).symm.trans (hs c)) (hlen _)
  | closed => exact absurd ((poll_waiter_closed hw hch).symm.trans (hs c)) (hlen _)

/-- A waiter whose leader's future no longer exists resolves at its next poll, whatever happened. -/
theorem waiter_resolves_once_leader_gone (ops : List Op) (c key l : Nat)
    (hw : LiveWaiter (run ops) c key l) (hg : l ∈ (run ops).gone) :
    ∃ r, (stepS (run ops) (.poll c)).log = (run ops).log ++ [.result c r] := by
  have inv := inv_reachable ops
  obtain ⟨k, hk⟩ := inv.waiterLeader c key l hw.1
  obtain ⟨ch, hch, hiff⟩ := inv.chanOf l key k hk
  cases ch with
  | opened => exact absurd hg (hiff.mp rfl)
  | sent r => exact ⟨r, poll_waiter_sent hw hch⟩
  | closed => exact ⟨.cancelled, poll_waiter_closed hw hch⟩

/-- A waiter that is pending is always in the wake set: every `Pending` it returned was preceded
by `wake_by_ref` on its own waker (the implementation busy-polls), so an executor polls it again. -/
theorem waiter_always_rearmed (ops : List Op) (c key l : Nat) (hw : LiveWaiter (run ops) c key l) :
    lookup (run ops).awake c = some true :=
  (inv_reachable ops).awakeW c key l hw.1 hw.2

/-! ## the lifetime of the service handle does not matter to calls in flight

`Op.dropsvc` = every `CoalesceService` handle sharing the in-flight table (and the layer) is
dropped: `svc.clone().oneshot(req)` bursts whose last request consumes the original handle, a
temporary service, an owner shutting down while requests drain. The leader's future owns the
table (`Arc`), so nothing in flight may notice. -/

/-- **Dropping the last handle only stops arrivals.** For every history `pre`, and every
continuation `post`: the state reached when the handle is dropped between them is — field for
field: log, map, channels, roles, resolved callers, wake flags — the state reached by `pre`
followed by `post` *with its arrivals deleted*, except for the flag recording that no handle is
left. No result, no inner call, no cancellation is caused, prevented, changed or re-ordered. -/
theorem handle_drop_only_stops_arrivals (pre post : List Op) :
    run (pre ++ .dropsvc :: post) = closeSvc (run (pre ++ noArrivals post)) := by
  rw [run_append, run_append, List.foldl_cons, stepS_dropsvc, foldl_closeSvc]

/-- … in the property's observables: the same event log (every `inner_call`, `inner_done`,
`inner_drop` and every caller's `result`, in the same order), the same registered keys, the same
channels, the same set of callers still pending. -/
theorem handle_drop_preserves_outcomes (pre post : List Op) :
    (run (pre ++ .dropsvc :: post)).log = (run (pre ++ noArrivals post)).log ∧
    (∀ key, reg (run (pre ++ .dropsvc :: post)) key = reg (run (pre ++ noArrivals post)) key) ∧
    (run (pre ++ .dropsvc :: post)).chan = (run (pre ++ noArrivals post)).chan ∧
    (run (pre ++ .dropsvc :: post)).gone = (run (pre ++ noArrivals post)).gone := by
  rw [handle_drop_only_stops_arrivals]
  exact ⟨rfl, fun _ => rfl, rfl, rfl⟩

/-- **Outcomes are independent of *when* the handle is dropped.** Moving the drop of the last
handle across any operations that are not arrivals (polls, drops of callers, time passing, in
any number and order) leads to the very same state: dropped before the leader's first poll,
between a waiter's polls, or after everything has completed — all the same. -/
theorem handle_drop_time_irrelevant (pre mid post : List Op)
    (hmid : ∀ op ∈ mid, op.isArrive = false) :
    run (pre ++ .dropsvc :: (mid ++ post)) = run ((pre ++ mid) ++ .dropsvc :: post) := by
  rw [handle_drop_only_stops_arrivals, handle_drop_only_stops_arrivals, noArrivals_append,
    noArrivals_id hmid, List.append_assoc]

/-- If no request arrives afterwards anyway, dropping the handle is unobservable: same log as
if it had been kept for ever. -/
theorem handle_drop_unobservable (pre post : List Op) (hpost : ∀ op ∈ post, op.isArrive = false) :
    (run (pre ++ .dropsvc :: post)).log = (run (pre ++ post)).log := by
  rw [handle_drop_only_stops_arrivals, noArrivals_id hpost]; rfl

/-- **Waiters outlive the handle.** A live leader with a live waiter, then the last handle is
dropped: the key stays registered to that leader, its channel stays open, leader and waiter are
still live, and a poll of the waiter produces no event — it keeps waiting; it is *not* told that
its leader was cancelled. (What it then receives is the leader's result or, iff the leader is
dropped or panics, `err:leader_cancelled`: `waiter_gets_leader_result`,
`completed_leader_waiter_resolves`, `leader_gone_fails_fast` hold for every operation sequence,
those containing `dropsvc` included.) -/
theorem waiters_outlive_the_handle (ops : List Op) (c key l k : Nat)
    (hl : LiveLeader (run ops) l key k) (hw : LiveWaiter (run ops) c key l) :
    let s := run (ops ++ [.dropsvc])
    LiveLeader s l key k ∧ LiveWaiter s c key l ∧ reg s key = some l ∧
    lookup s.chan l = some .opened ∧ (stepS s (.poll c)).log = s.log := by
  intro s
  have hs : s = closeSvc (run ops) := by
    show run (ops ++ [.dropsvc]) = _
    rw [run_append]; rfl
  have inv := inv_reachable ops
  have hreg : reg (run ops) key = some l := inv.leaderReg l key k hl.1 hl.2
  have hch : lookup (run ops).chan l = some .opened := by
    obtain ⟨ch, h1, h2⟩ := inv.chanOf l key k hl.1
    rw [h1, h2.mpr hl.2]
  have hl' : LiveLeader s l key k := by rw [hs]; exact hl
  have hw' : LiveWaiter s c key l := by rw [hs]; exact hw
  have hch' : lookup s.chan l = some .opened := by rw [hs]; exact hch
  refine ⟨hl', hw', by rw [hs]; exact hreg, hch', ?_⟩
  exact (poll_waiter_open hw' hch').1

/-! ## a request arriving while a dropped leader is being torn down

Dropping a leader is not instantaneous in the code: the key is unregistered and the inner future is
destroyed, and the inner future's destructor is arbitrary code of the wrapped service (it may block while
another thread calls the coalescing service, or make a request itself). Until that destructor has
finished the leader's call is still in flight, so a request for the key arriving in that window has to be
treated as arriving *before* the drop (`TR.Coalesce.dropOps`, `manual ondrop` in the harness). -/

/-- Request `c` for `key` arrives, then the live leader `l` of `key` is dropped (in the code: `c` arrives
while `l`'s inner future is being destroyed). The only event is `inner_drop l k` — `c` makes no inner
call, so at no point are two calls for `key` in flight —, the key is free, and `c` is failed with
`err:leader_cancelled` at its next poll. -/
theorem request_during_leader_teardown (ops : List Op) (l key k c : Nat) (sc : Step) (cp : Bool)
    (hs : (run ops).svcGone = false) (hl : LiveLeader (run ops) l key k)
    (hc : lookup (run ops).role c = none) :
    (run (ops ++ [.arrive c key sc cp, .drop l])).log = (run ops).log ++ [.innerDrop l key k] ∧
    reg (run (ops ++ [.arrive c key sc cp, .drop l])) key = none ∧
    (stepS (run (ops ++ [.arrive c key sc cp, .drop l])) (.poll c)).log
      = (run (ops ++ [.arrive c key sc cp, .drop l])).log ++ [.result c .cancelled] := by
  have hreg : reg (run ops) key = some l := (inv_reachable ops).leaderReg l key k hl.1 hl.2
  have hrun1 : run (ops ++ [.arrive c key sc cp]) = joinWaiter (run ops) c key l := by
    rw [run_append]; exact arrive_registered sc cp hs hc hreg
  obtain ⟨hlog1, _, hw1⟩ := waiter_no_inner_at_arrival ops c key l sc cp hs hc hreg
  have hw1' : LiveWaiter (run (ops ++ [.arrive c key sc cp])) c key l := by
    rw [run_append]; exact hw1
  have hl1 : LiveLeader (run (ops ++ [.arrive c key sc cp])) l key k := by
    rw [hrun1]
    exact ⟨role_ext _ hc hl.1, hl.2⟩
  have e : ops ++ [.arrive c key sc cp, .drop l] = (ops ++ [.arrive c key sc cp]) ++ [.drop l] := by simp
  have hrun2 : run ((ops ++ [.arrive c key sc cp]) ++ [.drop l])
      = stepS (run (ops ++ [.arrive c key sc cp])) (.drop l) := by rw [run_append]; rfl
  obtain ⟨hlog2, hreg2, _⟩ := leader_drop_closes _ l key k hl1
  have hlog1' : (run (ops ++ [.arrive c key sc cp])).log = (run ops).log := by
    rw [run_append]; exact hlog1
  refine ⟨?_, ?_, ?_⟩
  · rw [e, hrun2, hlog2, hlog1']
  · rw [e, hrun2]; exact hreg2
  · rw [e]
    exact dropped_leader_waiter_fails_at_next_poll _ [] c key l k hl1 hw1' (by simp)

/-- What the line-protocol driver makes of a `drop c` line (`dropOps`): the plain drop, or — when a
request `c2` is scripted to arrive during the tear-down of `c` and the situation is exactly that of
`request_during_leader_teardown` — that arrival followed by the drop. -/
theorem dropOps_spec (s : State) (hooks : List (Nat × (Nat × Step))) (c : Nat) :
    dropOps s hooks c = [.drop c] ∨
    ∃ c2 key k sc, dropOps s hooks c = [.arrive c2 key sc false, .drop c] ∧
      s.svcGone = false ∧ LiveLeader s c key k ∧ lookup s.role c2 = none := by
  unfold dropOps
  split
  · rename_i c2 sc key k hh hr
    split
    · rename_i hcond
      right
      simp at hcond
      exact ⟨c2, key, k, sc, rfl, hcond.1.1, ⟨hr, by simpa using hcond.1.2⟩, hcond.2⟩
    · exact Or.inl rfl
  · exact Or.inl rfl

/-! ## requests whose `call()`s overlap on different threads

One `Service::call` is one step of the model — the look-up of the key and its registration are a single critical
section under the map's lock —, so N `call()`s for one key that overlap in real time take effect in *some* order.
The harness searches real schedules for an execution that is not of that kind (`manual herd`, a search and not a
proof; seeded/C11-w3m2 splits the critical section in two); the theorem says what every execution that IS of that
kind looks like, whatever the order. -/

/-- **Simultaneous arrivals elect one leader.** The key is free; the requests `c :: cs` (distinct, new; any
scripts) arrive in this — arbitrary — order and nothing else happens in between. Then exactly one event has
occurred: the inner call of the first one, `c`; `c` is the live leader, the key is registered to it, and every
other request is a live waiter of `c`: it made no inner call and (`waiter_gets_leader_result`,
`completed_leader_waiter_resolves`) will receive `c`'s result. -/
theorem simultaneous_arrivals_one_leader (ops : List Op) (key c : Nat) (sc : Step) (cs : List (Nat × Step))
    (hs : (run ops).svcGone = false) (hr : reg (run ops) key = none)
    (hc : lookup (run ops).role c = none) (hcs : ∀ p ∈ cs, lookup (run ops).role p.1 = none)
    (hnd : (c :: cs.map Prod.fst).Nodup) :
    let s' := run (ops ++ arrivals key ((c, sc) :: cs))
    s'.log = (run ops).log ++ [.innerCall c key (run ops).serial] ∧
    LiveLeader s' c key (run ops).serial ∧ reg s' key = some c ∧
    ∀ p ∈ cs, LiveWaiter s' p.1 key c := by
  intro s'
  have inv := inv_reachable ops
  have hnd' : c ∉ cs.map Prod.fst ∧ (cs.map Prod.fst).Nodup := by simpa using hnd
  have e1 : stepS (run ops) (.arrive c key sc false) = lead (run ops) c key sc := arrive_free sc hs hc hr
  have hs' : s' = (arrivals key cs).foldl stepS (lead (run ops) c key sc) := by
    show run (ops ++ arrivals key ((c, sc) :: cs)) = _
    rw [run_append]
    show List.foldl stepS (stepS (run ops) (.arrive c key sc false)) (arrivals key cs) = _
    rw [e1]
  have hreg1 : reg (lead (run ops) c key sc) key = some c := by
    show regOf ((key, some c) :: (run ops).inflight) key = some c
    rw [regOf_cons]; simp
  have hf1 : ∀ p ∈ cs, lookup (lead (run ops) c key sc).role p.1 = none := by
    intro p hp
    have hne : c ≠ p.1 := fun h => hnd'.1 (by rw [h]; exact List.mem_map_of_mem hp)
    show lookup ((c, _) :: (run ops).role) p.1 = none
    rw [lookup_cons_ne _ _ hne]; exact hcs p hp
  obtain ⟨h1, _, h3, _, h5, h6, h7⟩ := arrivals_join key c cs (lead (run ops) c key sc) hs hreg1 hf1 hnd'.2
  rw [hs']
  refine ⟨by rw [h1]; rfl, ⟨h7 c _ (lookup_cons_self ..), ?_⟩, h5, ?_⟩
  · rw [h3]; exact fresh_not_gone inv hc
  · intro p hp
    exact ⟨h6 p hp, by rw [h3]; exact fresh_not_gone inv (hcs p hp)⟩

/-! ## non-vacuity: concrete histories that meet the hypotheses -/

/-! ## no cancellation without a cancelled leader; the caller's handle does not matter -/

/-- **`leader_cancelled` has a cause.** A request that was coalesced onto the call of leader `l` and received
`err:leader_cancelled`: then `l`'s future was dropped unfinished (`inner_drop`), or its inner call panicked
(`inner_done … panic`), or `l` itself panicked in the poll that completed its inner call (`result l panic`: the
`Clone` of the value unwound) — and that is in the log. -/
theorem no_cancellation_without_cause (ops : List Op) (c key l : Nat)
    (hw : lookup (run ops).role c = some (.waiter key l))
    (hres : CEv.result c .cancelled ∈ (run ops).log) :
    ∃ k, lookup (run ops).role l = some (.leader key k) ∧ Cancelled (run ops).log l key k := by
  obtain ⟨k, hk, hf⟩ := waiter_gets_leader_result ops c key l .cancelled hw hres
  refine ⟨k, hk, ?_⟩
  rcases hf with hd | ⟨_, hc⟩
  · rcases hd with ⟨h, _⟩ | ⟨kd, h, _⟩ <;> cases h
  · exact hc

/-- … so in a history in which no leader was dropped and no inner call panicked (whatever else happened: any
arrival, completion and poll order — the situation of `manual finish`) a request that arrives while a call for its
key is in flight is never failed with `leader_cancelled`: whatever it receives is that call's own value. -/
theorem arrival_during_completion_shares_or_leads (ops : List Op) (c key l : Nat) (r : Res)
    (hquiet : ∀ l key k, ¬ Cancelled (run ops).log l key k)
    (hw : lookup (run ops).role c = some (.waiter key l))
    (hres : CEv.result c r ∈ (run ops).log) :
    ∃ k, lookup (run ops).role l = some (.leader key k) ∧ Delivered (run ops).log l key k r := by
  obtain ⟨k, hk, hf⟩ := waiter_gets_leader_result ops c key l r hw hres
  refine ⟨k, hk, ?_⟩
  rcases hf with hd | ⟨_, hc⟩
  · exact hd
  · exact absurd hc (hquiet l key k)

/-- **The caller's handle does not matter.** The request an `arrive` line stands for is the same with and without
a `via=…` word (wherever it stands and whatever its value): the model — and hence every theorem of this file —
is indifferent to whether the request comes through a clone made for it, through the ONE handle that was never
cloned (so that the handle is the only owner of the in-flight table apart from the call futures), through the
`mem::replace` idiom or through a clone of a readied handle. The harness makes the real code go through all four. -/
theorem caller_mode_irrelevant (c : Nat) (pre post : Kv) (v : String) :
    arriveOp c (pre ++ ("via", v) :: post) = arriveOp c (pre ++ post) :=
  arriveOp_skip c pre post "via" v (by decide) (by decide) (by decide) (by decide)

/-! ## a leader whose own poll panics — however its future is then destroyed

A caller either owns the call future in the frame that polls it (a spawned task, an `async` block awaiting it, a
`select!`/`join!` arm: the panic raised by the poll destroys the future WHILE IT UNWINDS, `std::thread::panicking()`
is true in its destructors; harness: `arrive … unwind=1`), or catches the panic around the `poll` call alone and
drops the future afterwards (the default). Likewise an unfinished future can go away because its owner panics for
a reason of its own (`drop c unwind=1`) instead of by an orderly drop. The model has one `poll` and one `drop`
operation and one answer — the property's: the leader is gone, so the key is free at once and its waiters fail with
`leader_cancelled` at their next poll. -/

/-- **The poll in which a leader's inner call panics.** Leader `l` of `key` is alive, its inner call `k` is due and
scripted to panic. That one poll logs `inner_done l k panic`, `result l panic`, unregisters the key, closes the
channel, and the leader's future is gone; a request `c'` for the key arriving at once leads a fresh call (the first
new event is its `inner_call` with the next serial number) — nothing is left registered that it could join. -/
theorem leader_panic_frees_key_at_once (ops : List Op) (l key k t c' : Nat) (sc sc' : Step)
    (hs : (run ops).svcGone = false) (hl : LiveLeader (run ops) l key k)
    (hd : lookup (run ops).doneAt l = some t) (hsc : lookup (run ops).script l = some sc)
    (hdue : (run ops).now ≥ t) (hp : sc.out = .panic)
    (hc' : lookup (run ops).role c' = none) :
    let s := run (ops ++ [.poll l])
    s.log = (run ops).log ++ [.innerDone l key k .panic, .result l .panic] ∧
    reg s key = none ∧ lookup s.chan l = some .closed ∧ l ∈ s.gone ∧
    (stepS s (.arrive c' key sc' false)).log = s.log ++ [.innerCall c' key s.serial] := by
  intro s
  have hs' : s = emit (retire (run ops) l key .closed) [.innerDone l key k .panic, .result l .panic] := by
    show run (ops ++ [.poll l]) = _
    rw [run_append]; exact poll_leader_panics hl hd hsc hdue hp
  have hreg : reg s key = none := by
    rw [hs']; show regOf ((key, none) :: (run ops).inflight) key = none
    rw [regOf_cons]; simp
  refine ⟨by rw [hs']; rfl, hreg, by rw [hs']; exact lookup_cons_self .., ?_, ?_⟩
  · rw [hs']; show l ∈ l :: (run ops).gone; simp
  · have hsg : (run (ops ++ [.poll l])).svcGone = false := by show s.svcGone = false; rw [hs']; exact hs
    have hro : lookup (run (ops ++ [.poll l])).role c' = none := by show lookup s.role c' = none; rw [hs']; exact hc'
    exact (fresh_call_when_free (ops ++ [.poll l]) c' key sc' hsg hro hreg).1

/-- **A leader that panics while publishing its result.** Leader `l` of `key` is alive, its inner call `k` is due
with a value (ok or an error) whose `Clone` panics (`arrive … clonepanic=1`): the leader clones its result for the
waiters, that unwinds out of its poll — the leading request panics after its inner call has finished. The poll logs
`inner_done l k <outcome>`, `result l panic`, unregisters the key, closes the channel without a value, and a request
arriving at once leads a fresh call: the same as when the inner call itself panics. -/
theorem leader_clone_panic_frees_key_at_once (ops : List Op) (l key k t c' : Nat) (sc sc' : Step)
    (hs : (run ops).svcGone = false) (hl : LiveLeader (run ops) l key k)
    (hd : lookup (run ops).doneAt l = some t) (hsc : lookup (run ops).script l = some sc)
    (hdue : (run ops).now ≥ t) (hb : (run ops).bomb.contains l = true)
    (ho : sc.out ≠ .never ∧ sc.out ≠ .panic)
    (hc' : lookup (run ops).role c' = none) :
    let s := run (ops ++ [.poll l])
    s.log = (run ops).log ++ [.innerDone l key k sc.out, .result l .panic] ∧
    reg s key = none ∧ lookup s.chan l = some .closed ∧ l ∈ s.gone ∧
    (stepS s (.arrive c' key sc' false)).log = s.log ++ [.innerCall c' key s.serial] := by
  intro s
  have hs' : s = emit (retire (run ops) l key .closed) [.innerDone l key k sc.out, .result l .panic] := by
    show run (ops ++ [.poll l]) = _
    rw [run_append]; exact poll_leader_clone_panics hl hd hsc hdue hb ho
  have hreg : reg s key = none := by
    rw [hs']; show regOf ((key, none) :: (run ops).inflight) key = none
    rw [regOf_cons]; simp
  refine ⟨by rw [hs']; rfl, hreg, by rw [hs']; exact lookup_cons_self .., ?_, ?_⟩
  · rw [hs']; show l ∈ l :: (run ops).gone; simp
  · have hsg : (run (ops ++ [.poll l])).svcGone = false := by show s.svcGone = false; rw [hs']; exact hs
    have hro : lookup (run (ops ++ [.poll l])).role c' = none := by show lookup s.role c' = none; rw [hs']; exact hc'
    exact (fresh_call_when_free (ops ++ [.poll l]) c' key sc' hsg hro hreg).1

/-- … and every waiter of a leader that panics in its poll — because its inner call panicked or because publishing
the value did —, after *any* further operations that do not poll or drop the waiter itself, receives
`err:leader_cancelled` at its very next poll. -/
theorem panicked_leader_waiter_fails_at_next_poll (ops mid : List Op) (c key l k : Nat)
    (hl : LiveLeader (run ops) l key k)
    (hp : CEv.result l .panic ∈ (stepS (run ops) (.poll l)).log) (hn : CEv.result l .panic ∉ (run ops).log)
    (hw : LiveWaiter (run ops) c key l)
    (hmid : ∀ op ∈ mid, op ≠ .poll c ∧ op ≠ .drop c) :
    (stepS (run (ops ++ .poll l :: mid)) (.poll c)).log
      = (run (ops ++ .poll l :: mid)).log ++ [.result c .cancelled] := by
  have hcl : c ≠ l := by
    intro e; subst e; have := hl.1; rw [hw.1] at this; cases this
  have e : ops ++ .poll l :: mid = (ops ++ [.poll l]) ++ mid := by simp
  rw [e]
  have hrun : run (ops ++ [.poll l]) = stepS (run ops) (.poll l) := by rw [run_append]; rfl
  refine (leader_gone_fails_fast (ops ++ [.poll l]) mid c key l ?_ ?_ hmid).1
  · rw [hrun]
    refine ⟨stepS_role_mono _ _ hw.1, ?_⟩
    intro hx
    rcases stepS_gone _ _ _ (by rw [hw.1]; simp) hx with h | h | h
    · exact hw.2 h
    · cases h; exact hcl rfl
    · cases h
  · rw [hrun]; exact (leader_panic_closes ops l key k hl hp hn).2

/-! ## a leader that completes: what it publishes is what its waiters receive -/

/-- **The completing poll publishes the value.** Leader `l` of `key` is alive, its inner call `k` is due with
outcome `o` (ok, error or panic) and its value can be cloned: that one poll logs `inner_done l k o` and the leader's
own result, unregisters the key, and leaves in the channel exactly that value (`sent (ok k)` / `sent (inner kd k)`;
closed for a panic). -/
theorem leader_completion_publishes (ops : List Op) (l key k t : Nat) (sc : Step)
    (hl : LiveLeader (run ops) l key k)
    (hd : lookup (run ops).doneAt l = some t) (hsc : lookup (run ops).script l = some sc)
    (hdue : (run ops).now ≥ t) (ho : sc.out ≠ .never) (hb : (run ops).bomb.contains l = false) :
    let s := stepS (run ops) (.poll l)
    s.log = (run ops).log ++ [.innerDone l key k sc.out, .result l (outRes k sc.out)] ∧
    reg s key = none ∧ lookup s.chan l = some (outChan k sc.out) ∧ l ∈ s.gone := by
  intro s
  have hs' : s = emit (retire (run ops) l key (outChan k sc.out))
      [.innerDone l key k sc.out, .result l (outRes k sc.out)] := poll_leader_completes hl hd hsc hdue ho hb
  refine ⟨by rw [hs']; rfl, ?_, by rw [hs']; exact lookup_cons_self .., ?_⟩
  · rw [hs']; show regOf ((key, none) :: (run ops).inflight) key = none
    rw [regOf_cons]; simp
  · rw [hs']; show l ∈ l :: (run ops).gone; simp

/-- **Every waiter receives the leader's value.** … and a live waiter `c` of that leader, after the leader's
completing poll and *any* further operations that do not poll or drop `c` itself, receives at its very next poll the
value the leader's inner call produced — ok or error, with the leader's serial number. End to end: "every request
arriving while it is in flight receives a clone of that call's result, success or error". -/
theorem waiter_receives_leader_value (ops mid : List Op) (c key l k t : Nat) (sc : Step)
    (hl : LiveLeader (run ops) l key k)
    (hd : lookup (run ops).doneAt l = some t) (hsc : lookup (run ops).script l = some sc)
    (hdue : (run ops).now ≥ t) (ho : sc.out = .ok ∨ ∃ kd, sc.out = .err kd)
    (hb : (run ops).bomb.contains l = false)
    (hw : LiveWaiter (run ops) c key l)
    (hmid : ∀ op ∈ mid, op ≠ .poll c ∧ op ≠ .drop c) :
    (stepS (run (ops ++ .poll l :: mid)) (.poll c)).log
      = (run (ops ++ .poll l :: mid)).log ++ [.result c (outRes k sc.out)] := by
  have hcl : c ≠ l := by
    intro e; subst e; have := hl.1; rw [hw.1] at this; cases this
  have hne : sc.out ≠ .never := by
    rcases ho with h | ⟨kd, h⟩ <;> rw [h] <;> intro e <;> cases e
  have hsent : outChan k sc.out = .sent (outRes k sc.out) := by
    rcases ho with h | ⟨kd, h⟩ <;> rw [h] <;> rfl
  have e : ops ++ .poll l :: mid = (ops ++ [.poll l]) ++ mid := by simp
  rw [e]
  have hrun : run (ops ++ [.poll l]) = stepS (run ops) (.poll l) := by rw [run_append]; rfl
  refine completed_leader_waiter_resolves (ops ++ [.poll l]) mid c key l _ ?_ ?_ hmid
  · rw [hrun]
    refine ⟨stepS_role_mono _ _ hw.1, ?_⟩
    intro hx
    rcases stepS_gone _ _ _ (by rw [hw.1]; simp) hx with h | h | h
    · exact hw.2 h
    · cases h; exact hcl rfl
    · cases h
  · rw [hrun, ← hsent]; exact (leader_completion_publishes ops l key k t sc hl hd hsc hdue hne hb).2.2.1

/-- **What the caller does with the future, and with what it returns, does not matter.** The request an `arrive`
line stands for is the same with and without the words `unwind=…` (the future is destroyed during the unwinding of
a panic raised by its own poll, instead of after that panic was caught), `eclone=…` (the caller looks at a clone of
the result), `keep=…` (it holds on to the finished future), `coop=…` / `burn=…` (cooperative budget), `via=…`: the
model — and every theorem of this file — gives the same answer in all these cases. The harness makes the real code
go through them. -/
theorem caller_behaviour_irrelevant (c : Nat) (pre post : Kv) (a v : String)
    (ha : a = "unwind" ∨ a = "eclone" ∨ a = "keep" ∨ a = "coop" ∨ a = "burn" ∨ a = "via") :
    arriveOps c (pre ++ (a, v) :: post) = arriveOps c (pre ++ post) := by
  rcases ha with h | h | h | h | h | h <;> subst h <;>
    exact arriveOps_skip c pre post _ v (by decide) (by decide) (by decide) (by decide) (by decide)

/-- … and a future destroyed because its owner panics (`drop c unwind=1`) is a dropped future like any other:
the words after the caller's number do not reach the model. -/
theorem unwinding_drop_is_a_drop (c : String) (rest : List String) :
    parseOp ("drop" :: c :: rest) = some (.drop (c.toNat?.getD 0)) := rfl

/-! ## a readiness failure concerns the handle it happened on, and nothing else -/

/-- **A handle whose readiness fails.** `arrive c … rdy=<script>` with a script that does not end in "ready" (the
wrapped service of the handle the caller is about to call answers its `poll_ready` with an error, or stays pending):
the caller is answered with exactly that — the readiness error `err:inner9:0` or `notready` — and the state of the
coalescing service is, field for field, what it was: nothing is unregistered, no channel is closed, no waiter is
answered, nothing is logged. Whatever state, whatever armed hooks, whatever else the line says. (seeded/C11-w6m1
empties the table shared by all handles here.) -/
theorem readiness_failure_changes_nothing (s : State) (hooks : List (Nat × (Nat × Step))) (c : String)
    (rest : List String) (r : Res) (hs : s.svcGone = false) (hr : readiness (parseKv rest) = some r) :
    machine.step (s, hooks) ("arrive" :: c :: rest) = ((s, hooks), [Ev.result (c.toNat?.getD 0) r]) := by
  rw [step_refusal s hooks c rest r hr, hs]; rfl

/-- … in particular **the in-flight table is unchanged** (whether or not a service handle is left): every key
registered by a leader — a call that was led through ANOTHER handle — is still registered by that leader, so (by
`waiter_no_inner_at_arrival`) the next request for the key joins it instead of starting a second inner call, its
channel is still open, so (by `no_answer_while_pending_or_dropped`) its waiters keep waiting, and every free key is
still free. -/
theorem readiness_failure_leaves_table (s : State) (hooks : List (Nat × (Nat × Step))) (c : String)
    (rest : List String) (r : Res) (hr : readiness (parseKv rest) = some r) :
    let s' := (machine.step (s, hooks) ("arrive" :: c :: rest)).1.1
    s'.inflight = s.inflight ∧ (∀ key, reg s' key = reg s key) ∧ s'.chan = s.chan ∧ s'.gone = s.gone ∧ s'.log = s.log := by
  rw [step_refusal s hooks c rest r hr]
  exact ⟨rfl, fun _ => rfl, rfl, rfl, rfl⟩

/-- **Readiness failures are invisible to everybody else.** A history (any lines, from any state; `afterLines`: the
state of the model's machine after them) ends in exactly the state of the same history with the arrivals through
handles that did not become ready (`refusedLine`) deleted: every later answer to every other request — who leads, who
joins, what each waiter receives and when — is what it would have been had those handles never been polled. -/
theorem refused_arrivals_invisible (ls : List (List String)) (σ : machine.σ) :
    afterLines σ ls = afterLines σ (ls.filter fun ws => !refusedLine ws) :=
  afterLines_filter ls σ

/-! ## every request is answered at most once; a call that delivered was not cancelled -/

/-- **At most one answer per request.** In every reachable log the number of `result c …` events of a caller is
at most one … -/
theorem at_most_one_result (ops : List Op) (c : Nat) : nres c (run ops).log ≤ 1 :=
  (rinv_reachable ops).atMost c

/-- … so two answers of one caller found anywhere in the log are the same answer, -/
theorem result_unique (ops : List Op) (c : Nat) (r r' : Res)
    (h : CEv.result c r ∈ (run ops).log) (h' : CEv.result c r' ∈ (run ops).log) : r = r' := by
  by_cases hne : r = r'
  · exact hne
  · have h2 := nres_two_of_mem h h' hne
    have h1 := at_most_one_result ops c
    omega

/-- … a request whose future still exists has not been answered, and a leader that was dropped unfinished is never
answered (neither before nor after the drop). -/
theorem no_answer_while_pending_or_dropped (ops : List Op) (c : Nat) (r : Res) :
    (c ∉ (run ops).gone → CEv.result c r ∉ (run ops).log) ∧
    (∀ key k, CEv.innerDrop c key k ∈ (run ops).log → CEv.result c r ∉ (run ops).log) := by
  have ri := rinv_reachable ops
  constructor
  · intro hc hm
    have := nres_pos_of_mem hm
    rw [ri.liveNone c hc] at this; omega
  · intro key k hd hm
    have := nres_pos_of_mem hm
    rw [(ri.dropNone c key k hd).2] at this; omega

/-- **Delivered and cancelled exclude each other.** For one inner call `k` of leader `l`: the log never shows both
that `l` delivered a value (its inner call finished ok / with an error and `l` itself returned that value) and that `l`
was cancelled (dropped unfinished, inner call panicked, or `l` panicked while publishing). Hence in
`waiter_gets_leader_result` exactly one of the two alternatives holds: a waiter is told `leader_cancelled` only if its
leader delivered nothing, and receives a value only from a leader that was not cancelled. -/
theorem delivered_cancelled_exclusive (ops : List Op) (l key k : Nat) (r : Res) :
    ¬ (Delivered (run ops).log l key k r ∧ Cancelled (run ops).log l key k) := by
  rintro ⟨hd, hc⟩
  have ri := rinv_reachable ops
  -- the leader's own answer, which is a value, not `panic`
  have hv : ∃ v, v ≠ Res.panic ∧ CEv.result l v ∈ (run ops).log := by
    rcases hd with ⟨_, _, h⟩ | ⟨kd, _, _, h⟩
    · exact ⟨.ok k, (fun e => by cases e), h⟩
    · exact ⟨.inner kd k, (fun e => by cases e), h⟩
  obtain ⟨v, hvp, hv⟩ := hv
  rcases hc with h | h | ⟨h, _⟩
  · exact (no_answer_while_pending_or_dropped ops l v).2 key k h hv
  · exact hvp (result_unique ops l v .panic hv (ri.donePanic l key k h))
  · exact hvp (result_unique ops l v .panic hv h)

/-! ## several services built from one layer value (or from clones of it) share nothing

`arrive … svc=<i>`: the model's key is `svcKey i key` (an injective pairing, `svcKey_inj`), i.e. the family of
services is this model over the key space (service, key) — see `TR.Model.Coalesce`. What that means: -/

/-- **An operation on one service leaves every other service alone.** If the operation is not about a key of
service `i` (it is the arrival of a request to another service, or the poll / drop of a caller that arrived at
another service, or time passing, or the handles being dropped), then every entry of service `i`'s in-flight
table, and the numbers of inner calls started and ended for every key of service `i` in the log, are after the
step what they were before. -/
theorem service_steps_are_independent (ops : List Op) (op : Op) (i : Nat)
    (hop : ∀ key, opKey (run ops) op ≠ some (svcKey i key)) (key : Nat) :
    reg (stepS (run ops) op) (svcKey i key) = reg (run ops) (svcKey i key) ∧
    traffic (svcKey i key) (stepS (run ops) op).log = traffic (svcKey i key) (run ops).log :=
  ⟨step_other_key _ op _ (hop key), step_other_key_traffic _ op _ (hop key)⟩

/-- **Services built from one layer do not share calls.** Whatever is in flight on service `i` — in particular a
call for the very same key —, a request `c` for `key` arriving at service `j ≠ i` while `key` is free THERE leads a
fresh inner call of its own in the step of its arrival, and service `i`'s table and traffic are untouched by it. -/
theorem services_do_not_share (ops : List Op) (i j key c : Nat) (sc : Step) (hij : i ≠ j)
    (hs : (run ops).svcGone = false) (hc : lookup (run ops).role c = none)
    (hfree : reg (run ops) (svcKey j key) = none) :
    let s' := stepS (run ops) (.arrive c (svcKey j key) sc false)
    s'.log = (run ops).log ++ [.innerCall c (svcKey j key) (run ops).serial] ∧
    LiveLeader s' c (svcKey j key) (run ops).serial ∧
    ∀ key', reg s' (svcKey i key') = reg (run ops) (svcKey i key') ∧
            traffic (svcKey i key') s'.log = traffic (svcKey i key') (run ops).log := by
  intro s'
  obtain ⟨h1, h2⟩ := fresh_call_when_free ops c (svcKey j key) sc hs hc hfree
  refine ⟨h1, h2, fun key' => ?_⟩
  refine service_steps_are_independent ops _ i (fun k => ?_) key'
  show some (svcKey j key) ≠ some (svcKey i k)
  intro e
  exact svcKey_ne (Or.inl hij.symm) (Option.some.inj e)

/-- the `svc=` word of an `arrive` line selects the service, and through it the model's key -/
theorem arrive_line_key (c : Nat) (kv : Kv) :
    ∃ sc cp, arriveOp c kv = .arrive c (svcKey (kv.nat "svc" 0) (kv.nat "key" 0)) sc cp := ⟨_, _, rfl⟩

/-! ## distinct keys are independent — whatever their hashes

The in-flight table is keyed by the KEY (the key type's `Eq`), not by a digest of it. The model has no notion of a
hash at all: its table is a `Nat`-indexed association list; so the statements below hold for EVERY function `h`
standing for the key type's `Hash` (in particular a coarse one: `h a = h b` for `a ≠ b` — the harness's
`khash=<m>` / `hmod=<m>` key types hash only `key mod m`). seeded/C11-w7m1 keys the table by a 64-bit digest. -/

/-- **A step for one key leaves every other key alone**: if the operation is not about `key'` (it is the arrival of
a request for another key, the poll / drop / completion / panic of a caller of another key, time passing, the handles
being dropped), the table entry of `key'` and the numbers of inner calls started and ended for `key'` are after the
step what they were before. -/
theorem distinct_keys_independent (ops : List Op) (op : Op) (key' : Nat)
    (hop : opKey (run ops) op ≠ some key') :
    reg (stepS (run ops) op) key' = reg (run ops) key' ∧
    traffic key' (stepS (run ops) op).log = traffic key' (run ops).log :=
  ⟨step_other_key _ op _ hop, step_other_key_traffic _ op _ hop⟩

/-- **Keys that collide in their hash do not share a call.** `h` is any hash function; `a` is in flight (led by
`l`), `b ≠ a` has the same hash and is free. A request `c` for `b` leads a fresh inner call of its own in the step
of its arrival — it does not become a waiter of `l` —, and `a`'s entry and traffic are untouched by it. -/
theorem colliding_keys_do_not_share (h : Nat → Nat) (ops : List Op) (a b l c : Nat) (sc : Step)
    (_hcol : h a = h b) (hab : a ≠ b)
    (hs : (run ops).svcGone = false) (hc : lookup (run ops).role c = none)
    (_ha : reg (run ops) a = some l) (hfree : reg (run ops) b = none) :
    let s' := stepS (run ops) (.arrive c b sc false)
    s'.log = (run ops).log ++ [.innerCall c b (run ops).serial] ∧
    LiveLeader s' c b (run ops).serial ∧
    reg s' a = reg (run ops) a ∧ traffic a s'.log = traffic a (run ops).log := by
  intro s'
  obtain ⟨h1, h2⟩ := fresh_call_when_free ops c b sc hs hc hfree
  refine ⟨h1, h2, ?_⟩
  refine distinct_keys_independent ops _ a ?_
  show some b ≠ some a
  intro e
  exact hab (Option.some.inj e).symm

/-- **… and the end of one does not retire the other**: whatever happens to a caller of key `a` (its leader
completes, panics, is dropped; a waiter of it is polled or dropped), a key `b ≠ a` — equal hash or not — that is
registered to leader `l` stays registered to `l`. -/
theorem colliding_key_survives_other_keys_end (h : Nat → Nat) (ops : List Op) (a b l c : Nat) (r : Role)
    (_hcol : h a = h b) (hab : a ≠ b) (hr : lookup (run ops).role c = some r)
    (hk : (match r with | .leader key _ => key | .waiter key _ => key | .panicked key => key) = a)
    (hb : reg (run ops) b = some l) :
    reg (stepS (run ops) (.poll c)) b = some l ∧ reg (stepS (run ops) (.drop c)) b = some l := by
  subst hk
  have hne : ∀ op a', a' ≠ b → opKey (run ops) op = some a' → opKey (run ops) op ≠ some b := by
    intro op a' hab' e1 e2
    rw [e1] at e2
    exact hab' (Option.some.inj e2)
  have hp := hne (.poll c) _ hab (by cases r <;> simp [opKey, hr])
  have hd := hne (.drop c) _ hab (by cases r <;> simp [opKey, hr])
  exact ⟨by rw [(distinct_keys_independent ops _ b hp).1]; exact hb,
         by rw [(distinct_keys_independent ops _ b hd).1]; exact hb⟩

/-- the seeded situation (keys 7 and 9, think `h = (· % 2)`): 7 in flight when 9 arrives — 9 leads call 1 and gets
its own error, 7's waiter gets `ok:0`; 7's completion leaves 9 registered (request 5 joins call 1) -/
example :
    (7 % 2 = 9 % 2) ∧
    (run [.arrive 1 7 ⟨10, .ok⟩ false, .arrive 2 9 ⟨20, .err 1⟩ false, .arrive 3 7 ⟨0, .ok⟩ false, .adv 10, .poll 1,
          .poll 3, .arrive 5 9 ⟨0, .ok⟩ false, .adv 10, .poll 2, .poll 5]).log
      = [.innerCall 1 7 0, .innerCall 2 9 1, .innerDone 1 7 0 .ok, .result 1 (.ok 0), .result 3 (.ok 0),
         .innerDone 2 9 1 (.err 1), .result 2 (.inner 1 1), .result 5 (.inner 1 1)] ∧
    reg (run [.arrive 1 7 ⟨10, .ok⟩ false, .arrive 2 9 ⟨20, .err 1⟩ false, .adv 10, .poll 1]) 9 = some 2 := by decide

/-- two requests for key 7 coalesce (one inner call, serial 0, both get `ok:0`), key 8 runs
its own call concurrently and fails: its waiter gets the same error with the same serial 1 -/
example :
    (run [.arrive 1 7 ⟨5, .ok⟩ false, .arrive 2 7 ⟨0, .ok⟩ false, .arrive 3 8 ⟨0, .err 1⟩ false, .arrive 4 8 ⟨0, .ok⟩ false,
          .poll 2, .adv 5, .poll 1, .poll 2, .poll 4, .poll 3, .poll 4]).log
      = [.innerCall 1 7 0, .innerCall 3 8 1, .innerDone 1 7 0 .ok, .result 1 (.ok 0), .result 2 (.ok 0),
         .innerDone 3 8 1 (.err 1), .result 3 (.inner 1 1), .result 4 (.inner 1 1)] := by decide

/-- a live leader with a live waiter (hypotheses of `dropped_leader_waiter_fails_at_next_poll`),
the drop, an unrelated arrival that leads a fresh call for the same key, then the waiter's poll -/
example :
    let ops := [Op.arrive 1 7 ⟨5, .never⟩ false, .arrive 2 7 ⟨0, .ok⟩ false, .poll 2]
    lookup (run ops).role 1 = some (.leader 7 0) ∧ 1 ∉ (run ops).gone ∧
    lookup (run ops).role 2 = some (.waiter 7 1) ∧ 2 ∉ (run ops).gone ∧ reg (run ops) 7 = some 1 ∧
    (run (ops ++ [.drop 1, .arrive 3 7 ⟨0, .ok⟩ false, .poll 2])).log
      = [.innerCall 1 7 0, .innerDrop 1 7 0, .innerCall 3 7 1, .result 2 .cancelled] ∧
    reg (run (ops ++ [.drop 1])) 7 = none := by decide

/-- a panicking leader: its waiter fails with `leader_cancelled` at its next poll -/
example :
    (run [.arrive 1 7 ⟨0, .panic⟩ false, .arrive 2 7 ⟨0, .ok⟩ false, .poll 1, .poll 2]).log
      = [.innerCall 1 7 0, .innerDone 1 7 0 .panic, .result 1 .panic, .result 2 .cancelled] := by decide

/-- a settled state with a pending waiter exists (its leader's call never finishes) -/
example :
    let s := run [.arrive 1 7 ⟨0, .never⟩ false, .arrive 2 7 ⟨0, .ok⟩ false, .poll 1, .poll 2]
    (∀ c ∈ [0, 1, 2, 3], (stepS s (.poll c)).log = s.log) ∧
    lookup s.role 2 = some (.waiter 7 1) ∧ 2 ∉ s.gone ∧ 1 ∉ s.gone ∧ lookup s.awake 2 = some true := by
  decide

/-- caller 1's `inner.call()` panics; caller 2 arrives for the same key, leads a fresh call with
serial 0 and completes; caller 3 coalesces onto a later leader as usual -/
example :
    let s := run [.arrive 1 7 ⟨0, .ok⟩ true, .arrive 2 7 ⟨0, .ok⟩ false, .poll 2,
                  .arrive 3 7 ⟨5, .ok⟩ false, .arrive 4 7 ⟨0, .ok⟩ true, .adv 5, .poll 3, .poll 4]
    s.log = [.result 1 .panic, .innerCall 2 7 0, .innerDone 2 7 0 .ok, .result 2 (.ok 0),
             .innerCall 3 7 1, .innerDone 3 7 1 .ok, .result 3 (.ok 1), .result 4 (.ok 1)] ∧
    reg s 7 = none := by decide

/-- the seeded situation: leader 1 (10 ms) and waiters 2, 3 in flight, the last handle is dropped,
a later request 4 is refused (no event), the waiters keep waiting (polls at t=0 and t=9 produce
nothing) and receive the leader's `ok:0` once it has completed — never `leader_cancelled` -/
example :
    let ops := [Op.arrive 1 7 ⟨10, .ok⟩ false, .arrive 2 7 ⟨0, .ok⟩ false, .arrive 3 7 ⟨0, .ok⟩ false, .poll 2]
    LiveLeader (run ops) 1 7 0 ∧ LiveWaiter (run ops) 2 7 1 ∧
    (run (ops ++ [.dropsvc, .arrive 4 7 ⟨0, .ok⟩ false, .poll 2, .poll 3, .adv 9, .poll 1, .poll 3, .adv 1,
                  .poll 2, .poll 1, .poll 2, .poll 3, .poll 4])).log
      = [.innerCall 1 7 0, .innerDone 1 7 0 .ok, .result 1 (.ok 0), .result 2 (.ok 0), .result 3 (.ok 0)] ∧
    (run (ops ++ [.dropsvc])).svcGone = true ∧ reg (run (ops ++ [.dropsvc])) 7 = some 1 := by
  unfold LiveLeader LiveWaiter; decide

/-- a leader dropped after the handle has gone still fails its waiter fast -/
example :
    (run [.arrive 1 7 ⟨10, .ok⟩ false, .arrive 2 7 ⟨0, .ok⟩ false, .dropsvc, .poll 2, .drop 1, .poll 2]).log
      = [.innerCall 1 7 0, .innerDrop 1 7 0, .result 2 .cancelled] := by decide

/-- the tear-down window: leader 1 with waiter 2; request 3 arrives while 1 is being dropped; a hook
is armed for it, so the `drop 1` line stands for `arrive 3; drop 1`; only `inner_drop` happens and
both 2 and 3 are failed with `leader_cancelled`; the next request leads call number 1 -/
example :
    let ops := [Op.arrive 1 7 ⟨10, .ok⟩ false, .arrive 2 7 ⟨0, .ok⟩ false]
    dropOps (run ops) [(1, (3, ⟨5, .ok⟩))] 1 = [.arrive 3 7 ⟨5, .ok⟩ false, .drop 1] ∧
    (run (ops ++ dropOps (run ops) [(1, (3, ⟨5, .ok⟩))] 1 ++ [.poll 2, .poll 3, .arrive 4 7 ⟨0, .ok⟩ false])).log
      = [.innerCall 1 7 0, .innerDrop 1 7 0, .result 2 .cancelled, .result 3 .cancelled, .innerCall 4 7 1] := by
  intro ops
  exact ⟨rfl, by decide⟩

/-- a herd of 5 requests over 2 keys (threads 0,2,4 ask for key 1, threads 1,3 for key 2): two inner calls,
all five receive the result of their key's call — also when the calls fail —; the order of the arrivals does
not change the tallies; the totals of 10 rounds of it, 5 of them failing -/
example :
    herdTally 5 2 .ok = (2, 5) ∧ herdTally 5 2 (.err 1) = (2, 5) ∧ herdTally 8 1 .ok = (1, 8) ∧
    (run (arrivals 7 [(3, ⟨0, .ok⟩), (1, ⟨0, .ok⟩), (2, ⟨0, .ok⟩)] ++ [.poll 1, .poll 3, .poll 1, .poll 2])).log
      = [.innerCall 3 7 0, .innerDone 3 7 0 .ok, .result 3 (.ok 0), .result 1 (.ok 0), .result 2 (.ok 0)] ∧
    herdTotals 5 2 10 5 = (20, 50) := by decide

/-- a completion with a request on either side of it and no drop, no panic: 2 joins call 0 and shares `ok:0`; 3
arrives after the completion and leads call 1; nobody is cancelled; and the `manual finish` line -/
example :
    (run [.arrive 1 7 ⟨0, .ok⟩ false, .arrive 2 7 ⟨0, .ok⟩ false, .poll 1, .arrive 3 7 ⟨0, .err 2⟩ false,
          .poll 2, .poll 3]).log
      = [.innerCall 1 7 0, .innerDone 1 7 0 .ok, .result 1 (.ok 0), .innerCall 3 7 1, .result 2 (.ok 0),
         .innerDone 3 7 1 (.err 2), .result 3 (.inner 2 1)] ∧
    arriveOp 4 [("key", "7"), ("via", "template"), ("inner", "5:ok")] = arriveOp 4 [("key", "7"), ("inner", "5:ok")] := by
  exact ⟨by decide, caller_mode_irrelevant 4 [("key", "7")] [("inner", "5:ok")] "template"⟩

/-- the hypotheses of `leader_panic_frees_key_at_once` / `panicked_leader_waiter_fails_at_next_poll` are met by a
concrete history (leader 1 due to panic, live waiter 2), and the run: the leader's poll, the waiter's poll, a new
request that leads call number 1 -/
example :
    let ops := [Op.arrive 1 7 ⟨0, .panic⟩ false, .arrive 2 7 ⟨0, .ok⟩ false, .poll 2]
    lookup (run ops).role 1 = some (.leader 7 0) ∧ 1 ∉ (run ops).gone ∧
    lookup (run ops).role 2 = some (.waiter 7 1) ∧ 2 ∉ (run ops).gone ∧
    lookup (run ops).doneAt 1 = some 0 ∧ lookup (run ops).script 1 = some ⟨0, .panic⟩ ∧
    (run (ops ++ [.poll 1, .arrive 3 7 ⟨0, .ok⟩ false, .poll 2])).log
      = [.innerCall 1 7 0, .innerDone 1 7 0 .panic, .result 1 .panic, .innerCall 3 7 1, .result 2 .cancelled] := by
  decide

/-- the hypotheses of `leader_clone_panic_frees_key_at_once` are met by a concrete history (the value of leader 1's
call cannot be cloned; live waiter 2), and the run: the leader's poll panics after `inner_done … ok`, a new request
leads call number 1, the waiter is cancelled (an `arrive … clonepanic=1` line stands for `bomb c; arrive c …`: `arriveOps`) -/
example :
    let ops := [Op.bomb 1, .arrive 1 7 ⟨0, .ok⟩ false, .arrive 2 7 ⟨0, .ok⟩ false, .poll 2]
    lookup (run ops).role 1 = some (.leader 7 0) ∧ 1 ∉ (run ops).gone ∧ (run ops).bomb.contains 1 = true ∧
    lookup (run ops).role 2 = some (.waiter 7 1) ∧ 2 ∉ (run ops).gone ∧
    lookup (run ops).doneAt 1 = some 0 ∧ lookup (run ops).script 1 = some ⟨0, .ok⟩ ∧
    (run (ops ++ [.poll 1, .arrive 3 7 ⟨0, .ok⟩ false, .poll 2])).log
      = [.innerCall 1 7 0, .innerDone 1 7 0 .ok, .result 1 .panic, .innerCall 3 7 1, .result 2 .cancelled] := by
  decide

/-- two services from one layer, the same key 7 on both: request 2 at service 1 leads its own call although call 0
for key 7 is in flight on service 0; request 3 at service 0 coalesces onto call 0, request 4 at service 1 onto call 1;
dropping leader 1 (service 0) cancels 3 and leaves service 1 alone -/
example :
    svcKey 0 7 ≠ svcKey 1 7 ∧
    (run [.arrive 1 (svcKey 0 7) ⟨5, .ok⟩ false, .arrive 2 (svcKey 1 7) ⟨0, .err 3⟩ false,
          .arrive 3 (svcKey 0 7) ⟨0, .ok⟩ false, .arrive 4 (svcKey 1 7) ⟨0, .ok⟩ false,
          .drop 1, .poll 3, .poll 2, .poll 4]).log.map CEv.toEv
      = [.innerCall 1 0, .innerCall 2 1, .innerDrop 1 0, .result 3 .cancelled,
         .innerDone 2 1 (.err 3), .result 2 (.inner 3 1), .result 4 (.inner 3 1)] := by decide

/-- key 7 is in flight, led by caller 1 (through one handle), caller 2 waits for it; the handle caller 3 is about to
call fails its readiness check (`rdy=pe`): by `readiness_failure_changes_nothing` caller 3 gets the readiness error
and the state stays this one, in which key 7 is registered by caller 1, caller 2 is pending at its next poll, and
caller 4 joins the call in flight (no second inner call) -/
example :
    let s := run [.arrive 1 (svcKey 0 7) ⟨10, .ok⟩ false, .arrive 2 (svcKey 0 7) ⟨0, .ok⟩ false, .poll 2]
    readiness [("key", "7"), ("rdy", "pe")] = some (.inner 9 0) ∧ readiness [("rdy", "pp")] = some .notReady ∧
    readiness [("rdy", "ppr")] = none ∧ readiness [("key", "7")] = none ∧
    s.svcGone = false ∧ reg s (svcKey 0 7) = some 1 ∧ (stepS s (.poll 2)).log = s.log ∧
    (stepS s (.arrive 4 (svcKey 0 7) ⟨0, .ok⟩ false)).log = s.log := by decide

end TR.Props.C11
