import TR.Lemmas.CircuitTrace
import TR.Lemmas.CircuitRefine
/-!
# C09 — a half-open breaker lets through at most `permitted_calls_in_half_open` trial calls

Quantification: every configuration (both window types, every `permitted`), every list of
operations (any number of callers arriving while half-open, all latencies and outcomes of the
trial calls, cancellations and panics of trial futures, all poll orders).
-/
namespace TR.Props.C09
open TR TR.Circuit

/-- In every reachable half-open state: the inner calls started since the breaker became
half-open are exactly the admitted trials still accounted for plus the trials whose future
was cancelled before an outcome was recorded, and the accounted trials never exceed
`permitted` (`max permitted 1`: the call that half-opens the breaker is always admitted). -/
theorem trials_accounting (cfg : Cfg) (ops : List Op) (h : (run cfg ops).circ.st = .halfOpen) :
    callsSince (run cfg ops).log = (run cfg ops).circ.hoAdmitted + (run cfg ops).circ.released ∧
    (run cfg ops).circ.hoAdmitted ≤ max cfg.permitted 1 :=
  ⟨(sinv_reachable cfg ops).calls h, (sinv_reachable cfg ops).circ.hoAdm h⟩

/-- Trial calls that reached the inner service in the current half-open episode, not counting
those that were cancelled, never exceed `permitted` — however many callers arrive at once.
(`released` is a ghost counter of the model; `released_is_cancelled_since` below says which events of the log it counts, and
`trials_in_flight_bounded_log` is this statement over the log alone.) -/
theorem trials_in_flight_bounded (cfg : Cfg) (ops : List Op) (hp : cfg.permitted ≥ 1)
    (h : (run cfg ops).circ.st = .halfOpen) :
    callsSince (run cfg ops).log - (run cfg ops).circ.released ≤ cfg.permitted := by
  have := trials_accounting cfg ops h
  omega

/-- Without cancellations: at most `permitted` inner calls between entering half-open and the decision.
(Kept as a lemma: its hypothesis is about the ghost `released`. `trials_bounded_no_cancellations` has the hypothesis on the
operations, `trials_bounded_every_prefix` on the log.) -/
theorem trials_bounded (cfg : Cfg) (ops : List Op) (hp : cfg.permitted ≥ 1)
    (h : (run cfg ops).circ.st = .halfOpen) (hnc : (run cfg ops).circ.released = 0) :
    callsSince (run cfg ops).log ≤ cfg.permitted := by
  have := trials_accounting cfg ops h
  omega

/-! ## The same over the event log alone

`cancelledSince log` (Lemmas/CircuitTrace.lean) reads the log: of the `inner_call c k` events after the last `transition` event,
how many were followed by `inner_drop c k` (the caller cancelled the trial) or `inner_done c k panic` (the trial panicked) —
matched by the serial number `k`. Cancellations and panics of calls started BEFORE the last transition (leftovers of earlier
episodes, calls admitted while closed) are not counted: they hold no slot of this episode. -/

/-- **The ghost is the log.** In every reachable half-open state the slots given back in the current episode (`released`, the
counter `release_trial` would keep) are exactly the trials of this episode that the log shows as cancelled or panicked. -/
theorem released_is_cancelled_since (cfg : Cfg) (ops : List Op) (h : (run cfg ops).circ.st = .halfOpen) :
    (run cfg ops).circ.released = cancelledSince (run cfg ops).log := by
  rw [← (tinv_reachable cfg ops).canc h]
  exact (tr_fields cfg _).2.2.2.1

/-- … and the trials of this episode still in flight are exactly the running calls whose `inner_call` event stands after the
last transition event (`r.k` is among the serial numbers the checker collected since then). -/
theorem current_trials_are_the_calls_since (cfg : Cfg) (ops : List Op) (h : (run cfg ops).circ.st = .halfOpen)
    (r : Caller) (hr : r ∈ (run cfg ops).running) :
    r.k ∈ (tr cfg (run cfg ops).log).ks ↔ r.ep = some (run cfg ops).circ.episode :=
  (tinv_reachable cfg ops).ks h r hr

/-- `trials_in_flight_bounded` over the log alone: inner calls started since the breaker became half-open, minus those of them
the log shows as cancelled / panicked, never exceed `permitted`. -/
theorem trials_in_flight_bounded_log (cfg : Cfg) (ops : List Op) (hp : cfg.permitted ≥ 1)
    (h : (run cfg ops).circ.st = .halfOpen) :
    callsSince (run cfg ops).log - cancelledSince (run cfg ops).log ≤ cfg.permitted := by
  rw [← released_is_cancelled_since cfg ops h]
  exact trials_in_flight_bounded cfg ops hp h

/-- **Every half-open episode of every log, at every event.** Cut a reachable log anywhere (also in the middle of a step): if the
last transition event of the prefix went to half-open, then the `inner_call` events after it, minus those among them that were
cancelled or panicked, are at most `permitted`. Since every half-open episode of the history is the tail of such a prefix, this
bounds each episode of the whole log, not only the current one. -/
theorem trials_bounded_every_prefix (cfg : Cfg) (ops : List Op) (hp : cfg.permitted ≥ 1) (n : Nat)
    (h : lastTarget ((run cfg ops).log.take n) = .halfOpen) :
    callsSince ((run cfg ops).log.take n) - cancelledSince ((run cfg ops).log.take n) ≤ cfg.permitted := by
  have hok := tr_ok_take cfg _ n (tinv_reachable cfg ops).ok
  have hf := tr_fields cfg ((run cfg ops).log.take n)
  have hg := (tr_ok_good cfg _ hok).2
  rw [hf.1, hf.2.2.1, hf.2.2.2.1] at hg
  have := hg h
  omega

/-- **Without cancellations** — a history with no `drop` operation and no inner call scripted to panic (`noCancelOp`) — the log
contains no `inner_drop` / `inner_done … panic` event, nothing is ever given back (`released = 0` is DERIVED, not assumed), and
in every half-open episode, at every event, at most `permitted` inner calls have been started. -/
theorem trials_bounded_no_cancellations (cfg : Cfg) (ops : List Op) (hp : cfg.permitted ≥ 1)
    (hops : ∀ op ∈ ops, noCancelOp op = true) :
    (∀ p ∈ (run cfg ops).log, isCancel p.2 = false) ∧
    ((run cfg ops).circ.st = .halfOpen → (run cfg ops).circ.released = 0) ∧
    (∀ n, lastTarget ((run cfg ops).log.take n) = .halfOpen → callsSince ((run cfg ops).log.take n) ≤ cfg.permitted) := by
  have hnc := (nc_reachable cfg ops hops).log
  refine ⟨hnc, fun h => ?_, fun n h => ?_⟩
  · rw [released_is_cancelled_since cfg ops h]; exact cancelledSince_zero _ hnc
  · have := trials_bounded_every_prefix cfg ops hp n h
    rw [cancelledSince_zero _ (fun p hp' => hnc p (List.mem_of_mem_take hp'))] at this
    exact this

/-- A caller arriving when all trial slots are taken is rejected in the same step (open-circuit
error or fallback); the circuit is untouched and no inner call is made. Holds in any state. -/
theorem excess_rejected (cfg : Cfg) (s : State) (f : Fresh)
    (hst : s.circ.st = .halfOpen) (hfull : ¬ s.circ.hoAdmitted < cfg.permitted) :
    pollFresh cfg s f = rejected cfg s f := by
  have hacq := tryAcquire_acq cfg s.circ s.now
  cases hacq with
  | closed h => rw [hst] at h; cases h
  | toHalf h => rw [hst] at h; cases h
  | rejectOpen h => rw [hst] at h; cases h
  | trial h hlt => exact absurd hlt hfull
  | rejectHalf h hge hc hok he =>
    unfold pollFresh; simp only
    rw [admitStep_rej cfg s f hok hc he]; simp

/-- A caller arriving while a slot is free is admitted as a trial of the current episode. -/
theorem free_slot_admits (cfg : Cfg) (s : State) (f : Fresh)
    (hst : s.circ.st = .halfOpen) (hfree : s.circ.hoAdmitted < cfg.permitted) :
    (admitStep cfg s f).2 = true ∧ (admitStep cfg s f).1.circ.hoAdmitted = s.circ.hoAdmitted + 1 := by
  have hacq := tryAcquire_acq cfg s.circ s.now
  cases hacq with
  | closed h => rw [hst] at h; cases h
  | toHalf h => rw [hst] at h; cases h
  | rejectOpen h => rw [hst] at h; cases h
  | trial h hlt hok he hc =>
    rw [admitStep_ok cfg s f hok]
    exact ⟨rfl, by simp [admitted, hc]⟩
  | rejectHalf h hge => exact absurd hfree hge

/-- No wedge: in every reachable half-open state in which no trial of the current episode is
still in flight (all completed or were dropped), a trial slot is free — the breaker cannot
stay half-open rejecting everybody. Holds for every `permitted`, window size and duration. -/
theorem no_wedge (cfg : Cfg) (ops : List Op) (h : (run cfg ops).circ.st = .halfOpen)
    (hidle : trialsOf (run cfg ops).circ.episode (run cfg ops).running = 0) :
    (run cfg ops).circ.hoAdmitted < max cfg.permitted 1 := by
  have hs := sinv_reachable cfg ops
  have h1 := hs.trials h
  have h2 := hs.circ.own
  have h3 := hs.circ.hoSucc h
  omega

/-! ## leftovers of earlier episodes, operator overrides, tear-down of cancelled trials -/

/-- Every slot that is taken is taken by a trial of the CURRENT episode — one still in flight, or one
that succeeded. Trials left over from earlier episodes, whatever ended those (a failing trial,
`force_open()`, `force_closed()`, `reset()`), hold none; in particular with no success yet and all
`permitted` slots taken there are `permitted` live trials of this very episode. Every history. -/
theorem slots_belong_to_current_episode (cfg : Cfg) (ops : List Op) (h : (run cfg ops).circ.st = .halfOpen) :
    (run cfg ops).circ.hoAdmitted
      = trialsOf (run cfg ops).circ.episode (run cfg ops).running + (run cfg ops).circ.ownSucc :=
  (sinv_reachable cfg ops).trials h

/-- No call in flight carries an episode number from the future: the number a leftover trial carries
is never handed out again. -/
theorem episode_numbers_are_past (cfg : Cfg) (ops : List Op) (r : Caller) (hr : r ∈ (run cfg ops).running)
    (e : Nat) (he : r.ep = some e) : e ≤ (run cfg ops).circ.episode :=
  (sinv_reachable cfg ops).eps r hr e he

/-- The operator's overrides never rewind the episode counter: `force_open()`, `force_closed()` and
`reset()` move it forward when they change the state and leave it alone when they do not. -/
theorem overrides_never_rewind (c : Circuit) (now : Nat) (tgt : St) :
    c.episode ≤ (transitionTo c tgt now).1.episode ∧
    (c.st ≠ tgt → (transitionTo c tgt now).1.episode = c.episode + 1) ∧
    c.episode ≤ (reset c now).1.episode ∧
    (c.st ≠ .closed → (reset c now).1.episode = c.episode + 1) := by
  have tr : ∀ t, c.episode ≤ (transitionTo c t now).1.episode ∧
      (c.st ≠ t → (transitionTo c t now).1.episode = c.episode + 1) := by
    intro t
    unfold transitionTo
    by_cases h : c.st = t <;> simp [h, clearWindow]
  exact ⟨(tr tgt).1, (tr tgt).2, (tr .closed).1, (tr .closed).2⟩

/-- Cancelling a leftover — a call whose guard carries no episode or another one than the current —
gives no slot back: the circuit is exactly as before. -/
theorem leftover_drop_frees_nothing (s : State) (c : Nat) (r : Caller) (hne : r.ep ≠ some s.circ.episode) :
    (dropRunning s c r).circ = s.circ := by
  unfold dropRunning releaseTrial
  simp only [emit_circ]
  cases hep : r.ep with
  | none => rfl
  | some e =>
    have hee : ¬ s.circ.episode = e := fun h => hne (by rw [hep, h])
    simp [hee]

/-- … so the caller arriving after a leftover was cancelled, with all slots of the current episode
taken, is rejected like everybody else. -/
theorem late_caller_rejected_after_leftover_drop (cfg : Cfg) (s : State) (c : Nat) (r : Caller) (f : Fresh)
    (hne : r.ep ≠ some s.circ.episode) (hst : s.circ.st = .halfOpen) (hfull : ¬ s.circ.hoAdmitted < cfg.permitted) :
    pollFresh cfg (dropRunning s c r) f = rejected cfg (dropRunning s c r) f :=
  excess_rejected cfg _ f (by rw [leftover_drop_frees_nothing s c r hne]; exact hst)
    (by rw [leftover_drop_frees_nothing s c r hne]; exact hfull)

/-- A cancelled trial holds its slot until it has left the wrapped service. In the op language a caller
that arrives while the cancelled trial's inner call is still being destroyed is `arrive c2; poll c2`
placed BEFORE the `drop` (the harness's `manual ondrop`): with all slots taken it is rejected in that
step, and neither the circuit nor the calls in flight change. (`hup`: the wrapped service is ready — otherwise the
caller does not even get to the breaker, `C03.not_ready_request_touches_nothing`.) -/
theorem teardown_arrival_rejected (cfg : Cfg) (s : State) (c2 : Nat) (sc : Step) (tag : Nat) (fb : Step)
    (hnew : s.seen.contains c2 = false) (hfr : findFresh s.fresh c2 = none) (hup : s.gate = .up)
    (hst : s.circ.st = .halfOpen) (hfull : ¬ s.circ.hoAdmitted < cfg.permitted) :
    stepS cfg (stepS cfg s (.arrive c2 sc tag fb)) (.poll c2)
      = rejected cfg (stepS cfg s (.arrive c2 sc tag fb)) ⟨c2, sc, tag, fb⟩ ∧
    (stepS cfg (stepS cfg s (.arrive c2 sc tag fb)) (.poll c2)).circ = s.circ ∧
    (stepS cfg (stepS cfg s (.arrive c2 sc tag fb)) (.poll c2)).running = s.running := by
  have h1 : stepS cfg s (.arrive c2 sc tag fb)
      = { s with fresh := s.fresh ++ [{ c := c2, sc := sc, tag := tag, fb := fb }], seen := c2 :: s.seen } := by
    simp only [stepS, hnew, Bool.false_eq_true, if_false, hup, if_true]
  have hff : findFresh (s.fresh ++ [{ c := c2, sc := sc, tag := tag, fb := fb }]) c2
      = some { c := c2, sc := sc, tag := tag, fb := fb } := by
    unfold findFresh at hfr ⊢
    simp [List.find?_append, hfr]
  rw [h1]
  have h2 : stepS cfg { s with fresh := s.fresh ++ [{ c := c2, sc := sc, tag := tag, fb := fb }], seen := c2 :: s.seen } (.poll c2)
      = pollFresh cfg { s with fresh := s.fresh ++ [{ c := c2, sc := sc, tag := tag, fb := fb }], seen := c2 :: s.seen }
          { c := c2, sc := sc, tag := tag, fb := fb } := by
    simp only [stepS, hff]
  have key := excess_rejected cfg
    { s with fresh := s.fresh ++ [{ c := c2, sc := sc, tag := tag, fb := fb }], seen := c2 :: s.seen }
    { c := c2, sc := sc, tag := tag, fb := fb } hst hfull
  rw [h2, key]
  refine ⟨rfl, rejected_circ cfg _ _, ?_⟩
  unfold rejected startFallback emit
  split
  · split <;> rfl
  · rfl

/-- Non-vacuity (`permitted = 1`, window 1): the breaker trips, half-opens, trial 2 stays in flight;
`reset()`; it trips again, half-opens again, trial 4 takes the slot. Dropping the leftover 2 frees
nothing: caller 5 is rejected. Caller 6 arrives during the tear-down of the cancelled trial 4 (before the
drop): rejected; caller 7, after the drop, gets the slot. Four inner calls before 7, five with it. -/
example :
    let cfg : Cfg := { size := 1, minCalls := 1, waitMs := 10, permitted := 1 }
    let pre := [Op.arrive 1 ⟨0, .err 1⟩ 0, .poll 1, .adv 10, .arrive 2 ⟨5000, .ok⟩ 0, .poll 2, .reset,
                .arrive 3 ⟨0, .err 1⟩ 0, .poll 3, .adv 10, .arrive 4 ⟨500, .ok⟩ 0, .poll 4,
                .drop 2, .arrive 5 ⟨0, .ok⟩ 0, .poll 5]
    let td := pre ++ [.arrive 6 ⟨0, .ok⟩ 0, .poll 6, .drop 4]
    (run cfg pre).circ.st = .halfOpen ∧ (run cfg pre).circ.hoAdmitted = 1 ∧ (run cfg pre).serial = 4 ∧
    (run cfg pre).log.getLast? = some (10 + 10, CEv.result 5 .openCircuit) ∧
    (run cfg td).serial = 4 ∧ (run cfg td).circ.hoAdmitted = 0 ∧
    (run cfg (td ++ [.arrive 7 ⟨50, .ok⟩ 0, .poll 7])).serial = 5 ∧
    (run cfg (td ++ [.arrive 7 ⟨50, .ok⟩ 0, .poll 7])).circ.hoAdmitted = 1 := by
  decide

/-- Non-vacuity: `permitted = 2`, four callers arrive together at a half-open breaker with slow
trial calls: exactly two inner calls, two rejections; dropping one trial frees one slot. -/
example :
    let cfg : Cfg := { size := 1, minCalls := 1, waitMs := 10, permitted := 2 }
    let pre := [Op.arrive 1 ⟨0, .err 1⟩ 0, .poll 1, .adv 10,
                .arrive 2 ⟨50, .ok⟩ 0, .arrive 3 ⟨50, .ok⟩ 0, .arrive 4 ⟨50, .ok⟩ 0, .arrive 5 ⟨50, .ok⟩ 0,
                .poll 2, .poll 3, .poll 4, .poll 5]
    (run cfg pre).circ.st = .halfOpen ∧ callsSince (run cfg pre).log = 2 ∧ (run cfg pre).circ.hoAdmitted = 2 ∧
    (run cfg (pre ++ [.drop 2])).circ.hoAdmitted = 1 ∧ (run cfg (pre ++ [.drop 2])).circ.released = 1 := by
  decide

/-- Non-vacuity of the log-level statements: the same history; the log shows one cancelled trial (`inner_drop 2 1`) after the
`→ half-open` event, so `cancelledSince = 1 = released`; a trial that panics counts as well; cancelling call 1 — started before
the transition — does not. The history up to the drops has no cancelling operation (`noCancelOp`), reaches half-open and
starts exactly `permitted` inner calls in the episode. -/
example :
    let cfg : Cfg := { size := 1, minCalls := 1, waitMs := 10, permitted := 2 }
    let pre := [Op.arrive 9 ⟨900, .ok⟩ 0, .poll 9, .arrive 1 ⟨0, .err 1⟩ 0, .poll 1, .adv 10,
                .arrive 2 ⟨50, .ok⟩ 0, .arrive 3 ⟨50, .panic⟩ 0, .arrive 4 ⟨50, .ok⟩ 0, .poll 2, .poll 3, .poll 4]
    (∀ op ∈ pre.take 6 ++ [Op.arrive 4 ⟨50, .ok⟩ 0, .poll 2, .poll 4], noCancelOp op = true) ∧
    (run cfg pre).circ.st = .halfOpen ∧ callsSince (run cfg pre).log = 2 ∧ cancelledSince (run cfg pre).log = 0 ∧
    cancelledSince (run cfg (pre ++ [.drop 2])).log = 1 ∧ (run cfg (pre ++ [.drop 2])).circ.released = 1 ∧
    cancelledSince (run cfg (pre ++ [.drop 2, .adv 50, .poll 3])).log = 2 ∧
    (run cfg (pre ++ [.drop 2, .adv 50, .poll 3])).circ.released = 2 ∧
    cancelledSince (run cfg (pre ++ [.drop 9])).log = 0 ∧ (run cfg (pre ++ [.drop 9])).circ.released = 0 ∧
    lastTarget ((run cfg (pre ++ [.drop 2, .adv 50, .poll 3])).log.take 7) = .halfOpen := by
  decide

/-! ## Callers beyond the permitted number: what the log shows; the decision -/

/-- `excess_rejected` read on the log: the step of a caller that finds all trial slots taken appends, at that instant, its
open-circuit error — or, with a fallback, `fallback_call` followed at most by that fallback's own value — and nothing else:
no `inner_call`, no transition. -/
theorem excess_rejected_log (cfg : Cfg) (s : State) (f : Fresh)
    (hst : s.circ.st = .halfOpen) (hfull : ¬ s.circ.hoAdmitted < cfg.permitted) :
    (pollFresh cfg s f).circ = s.circ ∧ (pollFresh cfg s f).running = s.running ∧
    ∃ rest, (pollFresh cfg s f).log =
        s.log ++ (s.now, if cfg.fallback then CEv.fbCall f.c else CEv.result f.c .openCircuit) :: rest ∧
      ∀ p ∈ rest, p = (s.now, CEv.result f.c (fbRes f.c f.fb.out)) := by
  rw [excess_rejected cfg s f hst hfull]
  unfold rejected
  by_cases hfb : cfg.fallback = true
  · simp only [hfb, if_true]
    unfold startFallback
    split
    · exact ⟨rfl, rfl, [(s.now, CEv.result f.c (fbRes f.c f.fb.out))], rfl, by simp⟩
    · exact ⟨rfl, rfl, [], rfl, by simp⟩
  · simp only [hfb]
    exact ⟨rfl, rfl, [], rfl, by simp⟩

/-- **"… before it decides to close or re-open."** What the code decides on, precisely (`record_success` / `record_failure`,
circuit.rs): while half-open, ANY recorded failure re-opens the breaker, and the success that brings `half_open_successes` to
`permitted` closes it — whether or not the recorded call was a trial of this episode (`own`). `half_open_successes` counts the
successes of leftover calls too (admitted while closed, or in an earlier episode, and completing now): such a call can close —
or re-open — the breaker while the current trials are still in flight. The bound on trial calls is not affected; "after
`permitted` successful TRIAL calls" is not what the code waits for. -/
theorem half_open_decision (cfg : Cfg) (c : Circuit) (dur now : Nat) (own : Bool) (h : c.st = .halfOpen) :
    (record cfg c true dur now own).1.st = .opened ∧
    (c.hoSuccesses + 1 ≥ cfg.permitted → (record cfg c false dur now own).1.st = .closed) ∧
    (c.hoSuccesses + 1 < cfg.permitted → (record cfg c false dur now own).1.st = .halfOpen ∧
      (record cfg c false dur now own).1.hoSuccesses = c.hoSuccesses + 1 ∧
      (record cfg c false dur now own).1.hoAdmitted = c.hoAdmitted) := by
  have hf := fun fail => pushOutcome_frame cfg c { t := now, fail := fail, slow := isSlow cfg dur } now
  refine ⟨?_, ?_, ?_⟩
  · rw [record_half cfg c true dur now own h]; simp only [if_true]; exact transitionTo_st ..
  · intro hge
    rw [record_half cfg c false dur now own h]
    have := (hf false).2.2.2.2.1
    simp only [Bool.false_eq_true, if_false]
    rw [if_pos (by rw [this]; exact hge)]
    exact transitionTo_st ..
  · intro hlt
    rw [record_half cfg c false dur now own h]
    have h5 := (hf false).2.2.2.2.1
    simp only [Bool.false_eq_true, if_false]
    rw [if_neg (by rw [h5]; omega)]
    exact ⟨(hf false).1.trans h, by simp [h5], (hf false).2.2.2.1⟩

/-- Non-vacuity of the decision by a LEFTOVER (`permitted = 2`, window 4): call 1 is admitted while closed and stays in flight;
`force_open`, the wait passes, trial 2 half-opens the breaker and succeeds (1 of 2 successes), trial 3 is in flight; now the
leftover 1 completes successfully: that is the second success, the breaker closes — with trial 3 still in flight, after only one
successful trial. Two inner calls were started in the episode (2 and 3): the bound holds. -/
example :
    let cfg : Cfg := { size := 4, minCalls := 4, waitMs := 10, permitted := 2 }
    let pre := [Op.arrive 1 ⟨100, .ok⟩ 0, .poll 1, .forceOpen, .adv 10, .arrive 2 ⟨0, .ok⟩ 0, .poll 2,
                .arrive 3 ⟨500, .ok⟩ 0, .poll 3]
    (run cfg pre).circ.st = .halfOpen ∧ (run cfg pre).circ.hoSuccesses = 1 ∧ (run cfg pre).circ.hoAdmitted = 2 ∧
    callsSince (run cfg pre).log = 2 ∧
    (run cfg (pre ++ [.adv 90, .poll 1])).circ.st = .closed ∧ (run cfg (pre ++ [.adv 90, .poll 1])).running.length = 1 := by
  decide

/-! ## `TrialGuard::drop` gives up after 1024 failed `try_lock`s (lib.rs)

`Drop for TrialGuard` spins `try_lock` at most 1024 times (`std::thread::yield_now` in between) and then returns WITHOUT having
called `release_trial`. `dropRunning` / the panic branch of `complete` model the release as always happening. On one thread the
lock can only be held at that moment by a frame further up the same stack — i.e. the trial future is destroyed from inside a
user callback the breaker runs under its mutex (an event listener, the failure classifier); under a multi-thread runtime, by
another thread that keeps the mutex for the whole spin. Neither is produced by the harness (its callbacks only log): the release
is MODELLED, NOT VERIFIED for these situations. What the code does then is `dropRunningLost`: the call is gone, the circuit is
untouched. -/

/-- a cancelled trial whose `TrialGuard` could not take the lock: the slot is not given back -/
def dropRunningLost (s : State) (c : Nat) (r : Caller) : State :=
  emit { s with running := s.running.eraseP (·.c == c) } [.innerDrop r.c r.k]

/-- A lost release cannot make the breaker let MORE callers through: the circuit is exactly what it was with the trial still in flight, so a
caller who finds the slots taken is still rejected (the bound on trial calls is not endangered) … -/
theorem lost_release_admits_nobody (cfg : Cfg) (s : State) (c : Nat) (r : Caller) (f : Fresh)
    (hst : s.circ.st = .halfOpen) (hfull : ¬ s.circ.hoAdmitted < cfg.permitted) :
    (dropRunningLost s c r).circ = s.circ ∧
    pollFresh cfg (dropRunningLost s c r) f = rejected cfg (dropRunningLost s c r) f :=
  ⟨rfl, excess_rejected cfg _ f hst hfull⟩

/-- … but the slot is leaked: `permitted = 1`, the only trial is cancelled and its release lost — the breaker is half-open with
no call in flight and its one slot taken (the situation `no_wedge` excludes for the model), and the next caller is rejected,
now and however much later: only an operator's override gets it out. -/
example :
    let cfg : Cfg := { waitMs := 10, permitted := 1 }
    let s := run cfg [Op.forceOpen, .adv 10, .arrive 1 ⟨500, .ok⟩ 0, .poll 1]
    let w := dropRunningLost s 1 ⟨1, 0, 10, 510, .ok, 0, some 2⟩
    w.circ.st = .halfOpen ∧ w.running.length = 0 ∧ w.circ.hoAdmitted = 1 ∧
    (stepS cfg (stepS cfg (stepS cfg w (.adv 1000000)) (.arrive 2 ⟨0, .ok⟩ 0)) (.poll 2)).log.getLast?
      = some (1000010, CEv.result 2 .openCircuit) ∧
    (stepS cfg (stepS cfg (stepS cfg w (.adv 1000000)) (.arrive 2 ⟨0, .ok⟩ 0)) (.poll 2)).circ.st = .halfOpen := by
  decide

/-! ## Event listeners

`cfg.listen = false`: the breaker is built without any event listener (the log of the real breaker then has no `transition`
lines; the line protocol of the model filters them). Nothing else may depend on it. -/

/-- The breaker behaves the same with and without listeners: no step reads `cfg.listen`. -/
theorem listeners_do_not_matter (cfg : Cfg) (b : Bool) (ops : List Op) :
    run { cfg with listen := b } ops = run cfg ops := rfl

/-- The caller that ends the open wait is the first trial call of the new episode and is COUNTED: after its admission the
breaker is half-open with `half_open_admitted = 1` (so with `permitted = 1` every further caller is rejected while it is in
flight: `excess_rejected`). -/
theorem wait_ending_caller_is_counted (cfg : Cfg) (c : Circuit) (now : Nat)
    (ho : c.st = .opened) (hw : now - c.lastChange ≥ cfg.waitMs) :
    (tryAcquire cfg c now).2.1 = true ∧ (tryAcquire cfg c now).1.st = .halfOpen ∧
    (tryAcquire cfg c now).1.hoAdmitted = 1 ∧ (tryAcquire cfg c now).1.episode = c.episode + 1 := by
  unfold tryAcquire
  simp [ho, hw, transitionTo, clearWindow]

/-- Non-vacuity, no listener, `permitted = 1`: the caller that ends the wait is in flight, the next caller is rejected. -/
example :
    let cfg : Cfg := { waitMs := 10, permitted := 1, listen := false }
    let pre := [Op.forceOpen, .adv 10, .arrive 1 ⟨500, .ok⟩ 0, .poll 1, .arrive 2 ⟨0, .ok⟩ 0, .poll 2]
    (run cfg pre).circ.st = .halfOpen ∧ (run cfg pre).circ.hoAdmitted = 1 ∧ (run cfg pre).serial = 1 ∧
    (run cfg pre).log.getLast? = some (10, CEv.result 2 .openCircuit) := by
  decide

/-! ## A rejected caller holds no slot — and gives none back -/

/-- The caller that is turned away from a half-open breaker whose trial slots are all taken leaves the breaker exactly as it
was: `half_open_admitted` unchanged, the trials in flight still in flight. In particular the NEXT caller is turned away as
well — a rejection never hands the slot of a running trial to somebody else (whatever the rejected caller's future does when it
is dropped: it never held a trial slot). -/
theorem rejected_caller_frees_nothing (cfg : Cfg) (s : State) (f g : Fresh)
    (hst : s.circ.st = .halfOpen) (hfull : ¬ s.circ.hoAdmitted < cfg.permitted) :
    (pollFresh cfg s f).circ = s.circ ∧
    pollFresh cfg (pollFresh cfg s f) g = rejected cfg (pollFresh cfg s f) g := by
  have h1 : (pollFresh cfg s f).circ = s.circ := by
    rw [excess_rejected cfg s f hst hfull]; exact rejected_circ cfg s f
  refine ⟨h1, excess_rejected cfg _ g ?_ ?_⟩
  · rw [h1]; exact hst
  · rw [h1]; exact hfull

/-! ## Several services made from one layer value -/

/-- Each service made from the layer counts its own trials: in every history over any number of services, a half-open
service has admitted at most `permitted` trials that are still accounted for, whatever the other services are doing. -/
theorem trials_bounded_per_service (cfg : Cfg) (mops : List (Nat × Op)) (k : Nat)
    (h : ((runM cfg mops).get k).circ.st = .halfOpen) :
    callsSince ((runM cfg mops).get k).log
      = ((runM cfg mops).get k).circ.hoAdmitted + ((runM cfg mops).get k).circ.released ∧
    ((runM cfg mops).get k).circ.hoAdmitted ≤ max cfg.permitted 1 := by
  obtain ⟨ops, ho⟩ := every_service_is_a_run cfg mops k
  rw [ho] at h ⊢
  exact trials_accounting cfg ops h

/-- Non-vacuity: `permitted = 1`, trial 1 in flight; caller 2 is rejected; caller 3 is rejected as well (one inner call in all);
a second service made from the same layer is still closed and admits caller 4. -/
example :
    let cfg : Cfg := { waitMs := 10, permitted := 1 }
    let ops := [(0, Op.forceOpen), (0, .adv 10), (0, .arrive 1 ⟨500, .ok⟩ 0), (0, .poll 1), (0, .arrive 2 ⟨0, .ok⟩ 0), (0, .poll 2),
                (0, .arrive 3 ⟨0, .ok⟩ 0), (0, .poll 3), (1, .arrive 4 ⟨0, .ok⟩ 0), (1, .poll 4)]
    ((runM cfg ops).get 0).circ.st = .halfOpen ∧ ((runM cfg ops).get 0).circ.hoAdmitted = 1 ∧
    callsSince ((runM cfg ops).get 0).log = 1 ∧
    ((runM cfg ops).get 0).log.getLast? = some (10, CEv.result 3 .openCircuit) ∧
    ((runM cfg ops).get 1).circ.st = .closed ∧ ((runM cfg ops).get 1).log.getLast? = some (10, CEv.result 4 (.ok 1)) := by
  decide

end TR.Props.C09
