import TR.Lemmas.CircuitState
/-!
# C09 — a half-open breaker lets through at most `permitted_calls_in_half_open` trial calls

Quantification: every configuration (both window types, every `permitted`), every list of
operations (any number of callers arriving while half-open, all latencies and outcomes of the
trial calls, cancellations and panics of trial futures, all poll orders).
-/
namespace TR.Props.C09
open TR TR.Circuit

/-- In every reachable half-open state: the inner calls started since the breaker became
half-open are exactly the admitted trials still accounted for plus the trials whose future
was cancelled before an outcome was recorded, and the accounted trials never exceed
`permitted` (`max permitted 1`: the call that half-opens the breaker is always admitted). -/
theorem trials_accounting (cfg : Cfg) (ops : List Op) (h : (run cfg ops).circ.st = .halfOpen) :
    callsSince (run cfg ops).log = (run cfg ops).circ.hoAdmitted + (run cfg ops).circ.released ∧
    (run cfg ops).circ.hoAdmitted ≤ max cfg.permitted 1 :=
  ⟨(sinv_reachable cfg ops).calls h, (sinv_reachable cfg ops).circ.hoAdm h⟩

/-- Trial calls that reached the inner service in the current half-open episode, not counting
those that were cancelled, never exceed `permitted` — however many callers arrive at once. -/
theorem trials_in_flight_bounded (cfg : Cfg) (ops : List Op) (hp : cfg.permitted ≥ 1)
    (h : (run cfg ops).circ.st = .halfOpen) :
    callsSince (run cfg ops).log - (run cfg ops).circ.released ≤ cfg.permitted := by
  have := trials_accounting cfg ops h
  omega

/-- Without cancellations: at most `permitted` inner calls between entering half-open and the decision. -/
theorem trials_bounded (cfg : Cfg) (ops : List Op) (hp : cfg.permitted ≥ 1)
    (h : (run cfg ops).circ.st = .halfOpen) (hnc : (run cfg ops).circ.released = 0) :
    callsSince (run cfg ops).log ≤ cfg.permitted := by
  have := trials_accounting cfg ops h
  omega

/-- A caller arriving when all trial slots are taken is rejected in the same step (open-circuit
error or fallback); the circuit is untouched and no inner call is made. Holds in any state. -/
theorem excess_rejected (cfg : Cfg) (s : State) (f : Fresh)
    (hst : s.circ.st = .halfOpen) (hfull : ¬ s.circ.hoAdmitted < cfg.permitted) :
    pollFresh cfg s f = rejected cfg s f := by
  have hacq := tryAcquire_acq cfg s.circ s.now
  cases hacq with
  | closed h => rw [hst] at h; cases h
  | toHalf h => rw [hst] at h; cases h
  | rejectOpen h => rw [hst] at h; cases h
  | trial h hlt => exact absurd hlt hfull
  | rejectHalf h hge hc hok he =>
    unfold pollFresh; simp only
    rw [admitStep_rej cfg s f hok hc he]; simp

/-- A caller arriving while a slot is free is admitted as a trial of the current episode. -/
theorem free_slot_admits (cfg : Cfg) (s : State) (f : Fresh)
    (hst : s.circ.st = .halfOpen) (hfree : s.circ.hoAdmitted < cfg.permitted) :
    (admitStep cfg s f).2 = true ∧ (admitStep cfg s f).1.circ.hoAdmitted = s.circ.hoAdmitted + 1 := by
  have hacq := tryAcquire_acq cfg s.circ s.now
  cases hacq with
  | closed h => rw [hst] at h; cases h
  | toHalf h => rw [hst] at h; cases h
  | rejectOpen h => rw [hst] at h; cases h
  | trial h hlt hok he hc =>
    rw [admitStep_ok cfg s f hok]
    exact ⟨rfl, by simp [admitted, hc]⟩
  | rejectHalf h hge => exact absurd hfree hge

/-- No wedge: in every reachable half-open state in which no trial of the current episode is
still in flight (all completed or were dropped), a trial slot is free — the breaker cannot
stay half-open rejecting everybody. Holds for every `permitted`, window size and duration. -/
theorem no_wedge (cfg : Cfg) (ops : List Op) (h : (run cfg ops).circ.st = .halfOpen)
    (hidle : trialsOf (run cfg ops).circ.episode (run cfg ops).running = 0) :
    (run cfg ops).circ.hoAdmitted < max cfg.permitted 1 := by
  have hs := sinv_reachable cfg ops
  have h1 := hs.trials h
  have h2 := hs.circ.own
  have h3 := hs.circ.hoSucc h
  omega

/-! ## leftovers of earlier episodes, operator overrides, tear-down of cancelled trials -/

/-- Every slot that is taken is taken by a trial of the CURRENT episode — one still in flight, or one
that succeeded. Trials left over from earlier episodes, whatever ended those (a failing trial,
`force_open()`, `force_closed()`, `reset()`), hold none; in particular with no success yet and all
`permitted` slots taken there are `permitted` live trials of this very episode. Every history. -/
theorem slots_belong_to_current_episode (cfg : Cfg) (ops : List Op) (h : (run cfg ops).circ.st = .halfOpen) :
    (run cfg ops).circ.hoAdmitted
      = trialsOf (run cfg ops).circ.episode (run cfg ops).running + (run cfg ops).circ.ownSucc :=
  (sinv_reachable cfg ops).trials h

/-- No call in flight carries an episode number from the future: the number a leftover trial carries
is never handed out again. -/
theorem episode_numbers_are_past (cfg : Cfg) (ops : List Op) (r : Caller) (hr : r ∈ (run cfg ops).running)
    (e : Nat) (he : r.ep = some e) : e ≤ (run cfg ops).circ.episode :=
  (sinv_reachable cfg ops).eps r hr e he

/-- The operator's overrides never rewind the episode counter: `force_open()`, `force_closed()` and
`reset()` move it forward when they change the state and leave it alone when they do not. -/
theorem overrides_never_rewind (c : Circuit) (now : Nat) (tgt : St) :
    c.episode ≤ (transitionTo c tgt now).1.episode ∧
    (c.st ≠ tgt → (transitionTo c tgt now).1.episode = c.episode + 1) ∧
    c.episode ≤ (reset c now).1.episode ∧
    (c.st ≠ .closed → (reset c now).1.episode = c.episode + 1) := by
  have tr : ∀ t, c.episode ≤ (transitionTo c t now).1.episode ∧
      (c.st ≠ t → (transitionTo c t now).1.episode = c.episode + 1) := by
    intro t
    unfold transitionTo
    by_cases h : c.st = t <;> simp [h, clearWindow]
  exact ⟨(tr tgt).1, (tr tgt).2, (tr .closed).1, (tr .closed).2⟩

/-- Cancelling a leftover — a call whose guard carries no episode or another one than the current —
gives no slot back: the circuit is exactly as before. -/
theorem leftover_drop_frees_nothing (s : State) (c : Nat) (r : Caller) (hne : r.ep ≠ some s.circ.episode) :
    (dropRunning s c r).circ = s.circ := by
  unfold dropRunning releaseTrial
  simp only [emit_circ]
  cases hep : r.ep with
  | none => rfl
  | some e =>
    have hee : ¬ s.circ.episode = e := fun h => hne (by rw [hep, h])
    simp [hee]

/-- … so the caller arriving after a leftover was cancelled, with all slots of the current episode
taken, is rejected like everybody else. -/
theorem late_caller_rejected_after_leftover_drop (cfg : Cfg) (s : State) (c : Nat) (r : Caller) (f : Fresh)
    (hne : r.ep ≠ some s.circ.episode) (hst : s.circ.st = .halfOpen) (hfull : ¬ s.circ.hoAdmitted < cfg.permitted) :
    pollFresh cfg (dropRunning s c r) f = rejected cfg (dropRunning s c r) f :=
  excess_rejected cfg _ f (by rw [leftover_drop_frees_nothing s c r hne]; exact hst)
    (by rw [leftover_drop_frees_nothing s c r hne]; exact hfull)

/-- A cancelled trial holds its slot until it has left the wrapped service. In the op language a caller
that arrives while the cancelled trial's inner call is still being destroyed is `arrive c2; poll c2`
placed BEFORE the `drop` (the harness's `manual ondrop`): with all slots taken it is rejected in that
step, and neither the circuit nor the calls in flight change. (`hup`: the wrapped service is ready — otherwise the
caller does not even get to the breaker, `C03.not_ready_request_touches_nothing`.) -/
theorem teardown_arrival_rejected (cfg : Cfg) (s : State) (c2 : Nat) (sc : Step) (tag : Nat) (fb : Step)
    (hnew : s.seen.contains c2 = false) (hfr : findFresh s.fresh c2 = none) (hup : s.gate = .up)
    (hst : s.circ.st = .halfOpen) (hfull : ¬ s.circ.hoAdmitted < cfg.permitted) :
    stepS cfg (stepS cfg s (.arrive c2 sc tag fb)) (.poll c2)
      = rejected cfg (stepS cfg s (.arrive c2 sc tag fb)) ⟨c2, sc, tag, fb⟩ ∧
    (stepS cfg (stepS cfg s (.arrive c2 sc tag fb)) (.poll c2)).circ = s.circ ∧
    (stepS cfg (stepS cfg s (.arrive c2 sc tag fb)) (.poll c2)).running = s.running := by
  have h1 : stepS cfg s (.arrive c2 sc tag fb)
      = { s with fresh := s.fresh ++ [{ c := c2, sc := sc, tag := tag, fb := fb }], seen := c2 :: s.seen } := by
    simp only [stepS, hnew, Bool.false_eq_true, if_false, hup, if_true]
  have hff : findFresh (s.fresh ++ [{ c := c2, sc := sc, tag := tag, fb := fb }]) c2
      = some { c := c2, sc := sc, tag := tag, fb := fb } := by
    unfold findFresh at hfr ⊢
    simp [List.find?_append, hfr]
  rw [h1]
  have h2 : stepS cfg { s with fresh := s.fresh ++ [{ c := c2, sc := sc, tag := tag, fb := fb }], seen := c2 :: s.seen } (.poll c2)
      = pollFresh cfg { s with fresh := s.fresh ++ [{ c := c2, sc := sc, tag := tag, fb := fb }], seen := c2 :: s.seen }
          { c := c2, sc := sc, tag := tag, fb := fb } := by
    simp only [stepS, hff]
  have key := excess_rejected cfg
    { s with fresh := s.fresh ++ [{ c := c2, sc := sc, tag := tag, fb := fb }], seen := c2 :: s.seen }
    { c := c2, sc := sc, tag := tag, fb := fb } hst hfull
  rw [h2, key]
  refine ⟨rfl, rejected_circ cfg _ _, ?_⟩
  unfold rejected startFallback emit
  split
  · split <;> rfl
  · rfl

/-- Non-vacuity (`permitted = 1`, window 1): the breaker trips, half-opens, trial 2 stays in flight;
`reset()`; it trips again, half-opens again, trial 4 takes the slot. Dropping the leftover 2 frees
nothing: caller 5 is rejected. Caller 6 arrives during the tear-down of the cancelled trial 4 (before the
drop): rejected; caller 7, after the drop, gets the slot. Four inner calls before 7, five with it. -/
example :
    let cfg : Cfg := { size := 1, minCalls := 1, waitMs := 10, permitted := 1 }
    let pre := [Op.arrive 1 ⟨0, .err 1⟩ 0, .poll 1, .adv 10, .arrive 2 ⟨5000, .ok⟩ 0, .poll 2, .reset,
                .arrive 3 ⟨0, .err 1⟩ 0, .poll 3, .adv 10, .arrive 4 ⟨500, .ok⟩ 0, .poll 4,
                .drop 2, .arrive 5 ⟨0, .ok⟩ 0, .poll 5]
    let td := pre ++ [.arrive 6 ⟨0, .ok⟩ 0, .poll 6, .drop 4]
    (run cfg pre).circ.st = .halfOpen ∧ (run cfg pre).circ.hoAdmitted = 1 ∧ (run cfg pre).serial = 4 ∧
    (run cfg pre).log.getLast? = some (10 + 10, CEv.result 5 .openCircuit) ∧
    (run cfg td).serial = 4 ∧ (run cfg td).circ.hoAdmitted = 0 ∧
    (run cfg (td ++ [.arrive 7 ⟨50, .ok⟩ 0, .poll 7])).serial = 5 ∧
    (run cfg (td ++ [.arrive 7 ⟨50, .ok⟩ 0, .poll 7])).circ.hoAdmitted = 1 := by
  decide

/-- Non-vacuity: `permitted = 2`, four callers arrive together at a half-open breaker with slow
trial calls: exactly two inner calls, two rejections; dropping one trial frees one slot. -/
example :
    let cfg : Cfg := { size := 1, minCalls := 1, waitMs := 10, permitted := 2 }
    let pre := [Op.arrive 1 ⟨0, .err 1⟩ 0, .poll 1, .adv 10,
                .arrive 2 ⟨50, .ok⟩ 0, .arrive 3 ⟨50, .ok⟩ 0, .arrive 4 ⟨50, .ok⟩ 0, .arrive 5 ⟨50, .ok⟩ 0,
                .poll 2, .poll 3, .poll 4, .poll 5]
    (run cfg pre).circ.st = .halfOpen ∧ callsSince (run cfg pre).log = 2 ∧ (run cfg pre).circ.hoAdmitted = 2 ∧
    (run cfg (pre ++ [.drop 2])).circ.hoAdmitted = 1 ∧ (run cfg (pre ++ [.drop 2])).circ.released = 1 := by
  decide

/-! ## Event listeners

`cfg.listen = false`: the breaker is built without any event listener (the log of the real breaker then has no `transition`
lines; the line protocol of the model filters them). Nothing else may depend on it. -/

/-- The breaker behaves the same with and without listeners: no step reads `cfg.listen`. -/
theorem listeners_do_not_matter (cfg : Cfg) (b : Bool) (ops : List Op) :
    run { cfg with listen := b } ops = run cfg ops := rfl

/-- The caller that ends the open wait is the first trial call of the new episode and is COUNTED: after its admission the
breaker is half-open with `half_open_admitted = 1` (so with `permitted = 1` every further caller is rejected while it is in
flight: `excess_rejected`). -/
theorem wait_ending_caller_is_counted (cfg : Cfg) (c : Circuit) (now : Nat)
    (ho : c.st = .opened) (hw : now - c.lastChange ≥ cfg.waitMs) :
    (tryAcquire cfg c now).2.1 = true ∧ (tryAcquire cfg c now).1.st = .halfOpen ∧
    (tryAcquire cfg c now).1.hoAdmitted = 1 ∧ (tryAcquire cfg c now).1.episode = c.episode + 1 := by
  unfold tryAcquire
  simp [ho, hw, transitionTo, clearWindow]

/-- Non-vacuity, no listener, `permitted = 1`: the caller that ends the wait is in flight, the next caller is rejected. -/
example :
    let cfg : Cfg := { waitMs := 10, permitted := 1, listen := false }
    let pre := [Op.forceOpen, .adv 10, .arrive 1 ⟨500, .ok⟩ 0, .poll 1, .arrive 2 ⟨0, .ok⟩ 0, .poll 2]
    (run cfg pre).circ.st = .halfOpen ∧ (run cfg pre).circ.hoAdmitted = 1 ∧ (run cfg pre).serial = 1 ∧
    (run cfg pre).log.getLast? = some (10, CEv.result 2 .openCircuit) := by
  decide

/-! ## A rejected caller holds no slot — and gives none back -/

/-- The caller that is turned away from a half-open breaker whose trial slots are all taken leaves the breaker exactly as it
was: `half_open_admitted` unchanged, the trials in flight still in flight. In particular the NEXT caller is turned away as
well — a rejection never hands the slot of a running trial to somebody else (whatever the rejected caller's future does when it
is dropped: it never held a trial slot). -/
theorem rejected_caller_frees_nothing (cfg : Cfg) (s : State) (f g : Fresh)
    (hst : s.circ.st = .halfOpen) (hfull : ¬ s.circ.hoAdmitted < cfg.permitted) :
    (pollFresh cfg s f).circ = s.circ ∧
    pollFresh cfg (pollFresh cfg s f) g = rejected cfg (pollFresh cfg s f) g := by
  have h1 : (pollFresh cfg s f).circ = s.circ := by
    rw [excess_rejected cfg s f hst hfull]; exact rejected_circ cfg s f
  refine ⟨h1, excess_rejected cfg _ g ?_ ?_⟩
  · rw [h1]; exact hst
  · rw [h1]; exact hfull

/-! ## Several services made from one layer value -/

/-- Each service made from the layer counts its own trials: in every history over any number of services, a half-open
service has admitted at most `permitted` trials that are still accounted for, whatever the other services are doing. -/
theorem trials_bounded_per_service (cfg : Cfg) (mops : List (Nat × Op)) (k : Nat)
    (h : ((runM cfg mops).get k).circ.st = .halfOpen) :
    callsSince ((runM cfg mops).get k).log
      = ((runM cfg mops).get k).circ.hoAdmitted + ((runM cfg mops).get k).circ.released ∧
    ((runM cfg mops).get k).circ.hoAdmitted ≤ max cfg.permitted 1 := by
  obtain ⟨ops, ho⟩ := every_service_is_a_run cfg mops k
  rw [ho] at h ⊢
  exact trials_accounting cfg ops h

/-- Non-vacuity: `permitted = 1`, trial 1 in flight; caller 2 is rejected; caller 3 is rejected as well (one inner call in all);
a second service made from the same layer is still closed and admits caller 4. -/
example :
    let cfg : Cfg := { waitMs := 10, permitted := 1 }
    let ops := [(0, Op.forceOpen), (0, .adv 10), (0, .arrive 1 ⟨500, .ok⟩ 0), (0, .poll 1), (0, .arrive 2 ⟨0, .ok⟩ 0), (0, .poll 2),
                (0, .arrive 3 ⟨0, .ok⟩ 0), (0, .poll 3), (1, .arrive 4 ⟨0, .ok⟩ 0), (1, .poll 4)]
    ((runM cfg ops).get 0).circ.st = .halfOpen ∧ ((runM cfg ops).get 0).circ.hoAdmitted = 1 ∧
    callsSince ((runM cfg ops).get 0).log = 1 ∧
    ((runM cfg ops).get 0).log.getLast? = some (10, CEv.result 3 .openCircuit) ∧
    ((runM cfg ops).get 1).circ.st = .closed ∧ ((runM cfg ops).get 1).log.getLast? = some (10, CEv.result 4 (.ok 1)) := by
  decide

end TR.Props.C09
