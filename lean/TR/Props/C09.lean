import TR.Lemmas.CircuitState
/-!
# C09 — a half-open breaker lets through at most `permitted_calls_in_half_open` trial calls

Quantification: every configuration (both window types, every `permitted`), every list of
operations (any number of callers arriving while half-open, all latencies and outcomes of the
trial calls, cancellations and panics of trial futures, all poll orders).
-/
namespace TR.Props.C09
open TR TR.Circuit

/-- In every reachable half-open state: the inner calls started since the breaker became
half-open are exactly the admitted trials still accounted for plus the trials whose future
was cancelled before an outcome was recorded, and the accounted trials never exceed
`permitted` (`max permitted 1`: the call that half-opens the breaker is always admitted). -/
theorem trials_accounting (cfg : Cfg) (ops : List Op) (h : (run cfg ops).circ.st = .halfOpen) :
    callsSince (run cfg ops).log = (run cfg ops).circ.hoAdmitted + (run cfg ops).circ.released ∧
    (run cfg ops).circ.hoAdmitted ≤ max cfg.permitted 1 :=
  ⟨(sinv_reachable cfg ops).calls h, (sinv_reachable cfg ops).circ.hoAdm h⟩

/-- Trial calls that reached the inner service in the current half-open episode, not counting
those that were cancelled, never exceed `permitted` — however many callers arrive at once. -/
theorem trials_in_flight_bounded (cfg : Cfg) (ops : List Op) (hp : cfg.permitted ≥ 1)
    (h : (run cfg ops).circ.st = .halfOpen) :
    callsSince (run cfg ops).log - (run cfg ops).circ.released ≤ cfg.permitted := by
  have := trials_accounting cfg ops h
  omega

/-- Without cancellations: at most `permitted` inner calls between entering half-open and the decision. -/
theorem trials_bounded (cfg : Cfg) (ops : List Op) (hp : cfg.permitted ≥ 1)
    (h : (run cfg ops).circ.st = .halfOpen) (hnc : (run cfg ops).circ.released = 0) :
    callsSince (run cfg ops).log ≤ cfg.permitted := by
  have := trials_accounting cfg ops h
  omega

/-- A caller arriving when all trial slots are taken is rejected in the same step (open-circuit
error or fallback); the circuit is untouched and no inner call is made. Holds in any state. -/
theorem excess_rejected (cfg : Cfg) (s : State) (f : Fresh)
    (hst : s.circ.st = .halfOpen) (hfull : ¬ s.circ.hoAdmitted < cfg.permitted) :
    pollFresh cfg s f = rejected cfg s f := by
  have hacq := tryAcquire_acq cfg s.circ s.now
  cases hacq with
  | closed h => rw [hst] at h; cases h
  | toHalf h => rw [hst] at h; cases h
  | rejectOpen h => rw [hst] at h; cases h
  | trial h hlt => exact absurd hlt hfull
  | rejectHalf h hge hc hok he =>
    unfold pollFresh; simp only
    rw [admitStep_rej cfg s f hok hc he]; simp

/-- A caller arriving while a slot is free is admitted as a trial of the current episode. -/
theorem free_slot_admits (cfg : Cfg) (s : State) (f : Fresh)
    (hst : s.circ.st = .halfOpen) (hfree : s.circ.hoAdmitted < cfg.permitted) :
    (admitStep cfg s f).2 = true ∧ (admitStep cfg s f).1.circ.hoAdmitted = s.circ.hoAdmitted + 1 := by
  have hacq := tryAcquire_acq cfg s.circ s.now
  cases hacq with
  | closed h => rw [hst] at h; cases h
  | toHalf h => rw [hst] at h; cases h
  | rejectOpen h => rw [hst] at h; cases h
  | trial h hlt hok he hc =>
    rw [admitStep_ok cfg s f hok]
    exact ⟨rfl, by simp [admitted, hc]⟩
  | rejectHalf h hge => exact absurd hfree hge

/-- No wedge: in every reachable half-open state in which no trial of the current episode is
still in flight (all completed or were dropped), a trial slot is free — the breaker cannot
stay half-open rejecting everybody. Holds for every `permitted`, window size and duration. -/
theorem no_wedge (cfg : Cfg) (ops : List Op) (h : (run cfg ops).circ.st = .halfOpen)
    (hidle : trialsOf (run cfg ops).circ.episode (run cfg ops).running = 0) :
    (run cfg ops).circ.hoAdmitted < max cfg.permitted 1 := by
  have hs := sinv_reachable cfg ops
  have h1 := hs.trials h
  have h2 := hs.circ.own
  have h3 := hs.circ.hoSucc h
  omega

/-- Non-vacuity: `permitted = 2`, four callers arrive together at a half-open breaker with slow
trial calls: exactly two inner calls, two rejections; dropping one trial frees one slot. -/
example :
    let cfg : Cfg := { size := 1, minCalls := 1, waitMs := 10, permitted := 2 }
    let pre := [Op.arrive 1 ⟨0, .err 1⟩ 0, .poll 1, .adv 10,
                .arrive 2 ⟨50, .ok⟩ 0, .arrive 3 ⟨50, .ok⟩ 0, .arrive 4 ⟨50, .ok⟩ 0, .arrive 5 ⟨50, .ok⟩ 0,
                .poll 2, .poll 3, .poll 4, .poll 5]
    (run cfg pre).circ.st = .halfOpen ∧ callsSince (run cfg pre).log = 2 ∧ (run cfg pre).circ.hoAdmitted = 2 ∧
    (run cfg (pre ++ [.drop 2])).circ.hoAdmitted = 1 ∧ (run cfg (pre ++ [.drop 2])).circ.released = 1 := by
  decide

end TR.Props.C09
