import TR.Lemmas.RetryLogOrder
/-!
# C05 — retry makes a bounded number of attempts and returns the last outcome

Quantification of every theorem below: every configuration `cfg` — `max_attempts` fixed or per
request (any value, 0 included), **every** predicate `pred : Nat → Bool` over error kinds,
**every** back-off policy — `backoff : Nat → Nat` (retry number ↦ the least delay the interval function may answer,
in **microseconds**) and `spread : Nat → Nat` (width of its envelope: 0 for the exact policies, for which `backoff`
is *the* configured delay; positive for jittered / float-computed interval functions, whose every answer inside
`[backoff k, backoff k + spread k]` is covered: the answers arrive with the `poll` operations, any values at all) —
(the instants of the model — `now`, `start`, `due`, `seen` — are whole milliseconds, as in the
compared event log), **every** budget (arbitrary `withdraw` /
`deposit` functions, hence every sequence of grant answers; `none` = no budget), **every** script `rdy` of answers of
the inner service to the readiness polls the loop makes before a retry — and every list
of operations `ops`: any number of requests with any finite outcome scripts (latency, ok / error
kind / panic / never), polled, dropped and interleaved in any order, with time advancing by any
amounts, and other holders of the shared budget depositing and withdrawing in between.
`cl` is the record of request `c` in the reached state: `cl.atts` is its attempt history (newest
first), `callsOf c log` the serials of its `inner_call` events in the event log that is compared
with the real code.

The event log `(run cfg ops).log` is the **timestamped** log: a list of lines `(t, e)`, `t` the instant (ms) the driver
prints in front of the line (`log_stamps_are_the_printed_instants`), `e` an `inner_call` / `inner_done` / `inner_drop` /
`result` / probe event or a budget line `budget c grant|refused` (`REv.withdraw c granted`: the answer to a `try_withdraw`
made by the loop of request `c`). `linesOf c log` are the lines of request `c`. The section "the timestamped log" ties every
ghost field used by the other theorems (`Att.start`, `Att.seen`, `Att.out`, `Caller.grants`, `Caller.result`) to lines of
that log (`request_lines_of_the_log`, `inner_call_line_iff`, `inner_done_line_iff`) and restates the property over it.
-/
namespace TR.Props.C05
open TR TR.Retry

/-- The ghost history used by the statements below is the event log: the `inner_call` events of
request `c` are exactly its recorded attempts (same serials, same order) and the `result` events
of `c` are exactly its recorded result (at most one). -/
theorem log_matches_history (cfg : Cfg) (ops : List Op) (c : Nat) (cl : Caller)
    (h : lookup (run cfg ops).callers c = some cl) :
    callsOf c (run cfg ops).log = serials cl ∧ resultsOf c (run cfg ops).log = cl.result.toList := by
  have hs := sinv_reachable cfg ops
  have h1 := hs.calls c
  have h2 := hs.results c
  simp only [nCalls, resOfC, h] at h1 h2
  exact ⟨h1, h2⟩

/-- **Per-request `max_attempts`.** The `max_attempts` and the outcome script that the theorems
below refer to (`cl.maxA`, `cl.plan0`) are those of the request's arrival — the fixed
`max_attempts`, or with `max_attempts_fn` the value carried by the request (default: the fixed
one) — and no later operation changes them. -/
theorem max_attempts_fixed_at_arrival (cfg : Cfg) (before after : List Op) (c : Nat) (ma : Option Nat)
    (plan : List Step) (hnew : lookup (run cfg before).callers c = none) :
    ∃ cl, lookup (run cfg (before ++ .arrive c ma plan :: after)).callers c = some cl ∧
      cl.maxA = (if cfg.dyn then ma.getD cfg.max else cfg.max) ∧ cl.plan0 = plan := by
  obtain ⟨cl0, h0, hm, hp, _⟩ := arrive_sets (cfg := cfg) (ma := ma) (plan := plan) hnew
  have hs : SInv cfg (stepS cfg (run cfg before) (.arrive c ma plan)) := sinv_step (sinv_reachable cfg before) _
  obtain ⟨cl, h1, hm1, hp1⟩ := foldl_keeps after hs (by simpa [stepS] using h0)
  refine ⟨cl, ?_, by rw [hm1, hm], by rw [hp1, hp]⟩
  rw [run_append]; simpa using h1

/-- **At least once.** A request that received a result has called the inner service. -/
theorem at_least_one (cfg : Cfg) (ops : List Op) (c : Nat) (cl : Caller)
    (h : lookup (run cfg ops).callers c = some cl) (r : Res)
    (hr : r ∈ resultsOf c (run cfg ops).log) : 1 ≤ (callsOf c (run cfg ops).log).length := by
  obtain ⟨h1, h2⟩ := log_matches_history cfg ops c cl h
  have hc : CInv cfg cl := (sinv_reachable cfg ops).all _ (mem_of_lookup h)
  rw [h2] at hr
  have hres : cl.result ≠ none := by intro e; simp [e] at hr
  have hph := hc.phase
  rcases hc.resultDone hres with hd | hd
  · simp only [PhaseInv, hd] at hph
    obtain ⟨a, tl, t, ha, _⟩ := hph
    simp [h1, serials, ha]
  · simp only [PhaseInv, hd] at hph
    obtain ⟨a, tl, t, ha, _⟩ := hph
    simp [h1, serials, ha]

/-- … and the first call is made by the very first poll of the request (so every polled request
calls the inner service at least once, whatever `max_attempts` is — also for 0). -/
theorem first_poll_calls_inner (cfg : Cfg) (ops : List Op) (c : Nat) (cl : Caller) (ds : List Nat)
    (h : lookup (run cfg ops).callers c = some cl) (hp : cl.phase = .fresh) :
    ∃ rest, (stepS cfg (run cfg ops) (.poll c ds)).log
      = (run cfg ops).log ++ ((run cfg ops).now, REv.innerCall c (run cfg ops).serial) :: rest :=
  poll_fresh_calls ds h hp

/-- **At most `max(1, max_attempts)`.** In every reachable state the number of `inner_call`
events of a request is at most `max 1 max_attempts` (its own `max_attempts`). -/
theorem at_most_max (cfg : Cfg) (ops : List Op) (c : Nat) (cl : Caller)
    (h : lookup (run cfg ops).callers c = some cl) :
    (callsOf c (run cfg ops).log).length ≤ max 1 cl.maxA := by
  obtain ⟨h1, _⟩ := log_matches_history cfg ops c cl h
  have hc : CInv cfg cl := (sinv_reachable cfg ops).all _ (mem_of_lookup h)
  have := hc.bound
  simpa [h1, serials] using this

/-- A request unknown to the layer has no inner calls. -/
theorem no_calls_without_request (cfg : Cfg) (ops : List Op) (c : Nat)
    (h : lookup (run cfg ops).callers c = none) : callsOf c (run cfg ops).log = [] := by
  have := (sinv_reachable cfg ops).calls c
  simpa [nCalls, h] using this

/-- **Stops at the first success or refused error.** Every attempt other than the newest one
ended in an error that the predicate accepts (and was observed): no inner call is ever made after
a success, after an error the predicate refuses, or after a panic. -/
theorem stops_at_first_success_or_refused (cfg : Cfg) (ops : List Op) (c : Nat) (cl : Caller)
    (h : lookup (run cfg ops).callers c = some cl) :
    ∀ a ∈ cl.atts.tail, (∃ kd, a.out = .err kd ∧ cfg.pred kd = true) ∧ ∃ t, a.seen = some t := by
  have hc : CInv cfg cl := (sinv_reachable cfg ops).all _ (mem_of_lookup h)
  have hh := hc.hist
  cases ha : cl.atts with
  | nil => intro a hm; simp at hm
  | cons x tl =>
    rw [ha] at hh
    intro a hm
    exact hist_tail hh a (by simpa using hm)

/-- … and it stops only for a reason: a request that has a result stopped on a success, a panic,
or an error which the predicate refuses, or with its attempts exhausted
(`attempt + 1 ≥ max_attempts`), or because the budget answered `false` — or, after a retryable error and the whole
back-off, because the inner service answered the readiness poll before the retry with an error (that error is the
result; only possible when the script of readiness answers contains an error). -/
theorem stops_only_for_a_reason (cfg : Cfg) (ops : List Op) (c : Nat) (cl : Caller)
    (h : lookup (run cfg ops).callers c = some cl) (hr : cl.result ≠ none) :
    ∃ a tl, cl.atts = a :: tl ∧
      ((cl.phase = .done ∧ (a.out = .ok ∨ a.out = .panic ∨ ∃ kd, a.out = .err kd ∧
        (cfg.pred kd = false ∨ cl.maxA ≤ tl.length + 1 ∨
          (cfg.budget ≠ none ∧ cl.grants.head? = some false)))) ∨
       (cl.phase = .unready ∧ cl.result = some readyErr ∧ (∃ kd, a.out = .err kd ∧ cfg.pred kd = true) ∧
          tl.length + 2 ≤ cl.maxA)) := by
  have hc : CInv cfg cl := (sinv_reachable cfg ops).all _ (mem_of_lookup h)
  have hph := hc.phase
  rcases hc.resultDone hr with hd | hd
  · simp only [PhaseInv, hd] at hph
    obtain ⟨a, tl, t, ha, _, _, _, hwhy, _⟩ := hph
    have hh := hc.hist
    rw [ha] at hh
    have hidx : a.idx = tl.length := hh.1
    refine ⟨a, tl, ha, Or.inl ⟨hd, ?_⟩⟩
    unfold StopReason at hwhy
    rw [hidx] at hwhy
    exact hwhy
  · simp only [PhaseInv, hd] at hph
    obtain ⟨a, tl, t, ha, _, hres, hret, _, hroom⟩ := hph
    exact ⟨a, tl, ha, Or.inr ⟨hd, hres, hret, hroom⟩⟩

/-- A finished request never acts again: polling it changes neither the log nor the budget. -/
theorem finished_is_final (cfg : Cfg) (ops : List Op) (c : Nat) (cl : Caller) (ds : List Nat)
    (h : lookup (run cfg ops).callers c = some cl) (hr : cl.result ≠ none) :
    (stepS cfg (run cfg ops) (.poll c ds)).log = (run cfg ops).log ∧
    (stepS cfg (run cfg ops) (.poll c ds)).b = (run cfg ops).b := by
  have hc : CInv cfg cl := (sinv_reachable cfg ops).all _ (mem_of_lookup h)
  have := poll_done_inert (cfg := cfg) ds h (hc.resultDone hr)
  exact ⟨this.1, this.2.1⟩

/-- **Returns the last outcome.** The result handed to the caller is the outcome of the newest
attempt `a`: `ok:k` / `err:inner<kind>:k` / panic for its outcome, with `k` the serial of the
**last** `inner_call` of the request in the log; and that outcome is step number
`(number of earlier attempts)` of the request's script (`ok` when the script is exhausted) — unless the last thing
the request observed of the inner service was a failed readiness poll before a retry (`cl.phase = .unready`, see
`readiness_error_is_the_last_outcome`). -/
theorem returns_last_outcome (cfg : Cfg) (ops : List Op) (c : Nat) (cl : Caller)
    (h : lookup (run cfg ops).callers c = some cl) (r : Res)
    (hr : r ∈ resultsOf c (run cfg ops).log) (hnu : cl.phase ≠ .unready) :
    ∃ a tl, cl.atts = a :: tl ∧ r = resOf a.k a.out ∧ a.out ≠ .never ∧
      (callsOf c (run cfg ops).log).getLast? = some a.k ∧
      a.out = (cl.plan0.getD tl.length { lat := 0, out := .ok }).out := by
  obtain ⟨h1, h2⟩ := log_matches_history cfg ops c cl h
  have hc : CInv cfg cl := (sinv_reachable cfg ops).all _ (mem_of_lookup h)
  rw [h2] at hr
  have hres : cl.result = some r := by
    cases hx : cl.result with
    | none => simp [hx] at hr
    | some r' => simp [hx] at hr; simp [hr]
  have hph := hc.phase
  have hd : cl.phase = .done := by
    rcases hc.resultDone (by simp [hres]) with e | e
    · exact e
    · exact absurd e hnu
  simp only [PhaseInv, hd] at hph
  obtain ⟨a, tl, t, ha, _, hres', hnn, _, _⟩ := hph
  have hh := hc.hist
  rw [ha] at hh
  refine ⟨a, tl, ha, ?_, hnn, ?_, ?_⟩
  · rw [hres] at hres'; simpa using hres'
  · simp [h1, serials, ha]
  · have := hh.2.1; rw [hh.1] at this; exact this

/-- **… also when that outcome is a readiness error.** A request in phase `unready` has exactly the result
`err:inner9:0` (the error of the failed readiness poll); its newest attempt failed with an error the predicate accepts and
was observed, attempts were left (`attempts + 1 < max_attempts`), the back-off after it was slept, and no further inner
call was made: the readiness error is the last thing the request observed of the inner service. -/
theorem readiness_error_is_the_last_outcome (cfg : Cfg) (ops : List Op) (c : Nat) (cl : Caller)
    (h : lookup (run cfg ops).callers c = some cl) (hu : cl.phase = .unready) :
    resultsOf c (run cfg ops).log = [readyErr] ∧
    ∃ a tl t, cl.atts = a :: tl ∧ a.seen = some t ∧ (∃ kd, a.out = .err kd ∧ cfg.pred kd = true) ∧
      tl.length + 2 ≤ cl.maxA ∧ cl.sleeps.length = tl.length + 1 ∧
      (callsOf c (run cfg ops).log).length = tl.length + 1 := by
  obtain ⟨h1, h2⟩ := log_matches_history cfg ops c cl h
  have hc : CInv cfg cl := (sinv_reachable cfg ops).all _ (mem_of_lookup h)
  have hph := hc.phase
  simp only [PhaseInv, hu] at hph
  obtain ⟨a, tl, t, ha, hs, hres, hret, hsl, hroom⟩ := hph
  refine ⟨by rw [h2, hres]; rfl, a, tl, t, ha, hs, hret, hroom, hsl, ?_⟩
  simp [h1, serials, ha]

/-- … and that can happen only if the inner service errs: when the script of its answers to the readiness polls
contains no error (in particular for an inner service that is always ready, the empty script) no request of any
reachable state is ever ended by a readiness error — every result is then the outcome of the request's last attempt
(`returns_last_outcome` applies to every request). -/
theorem ready_service_never_unready (cfg : Cfg) (hr : 'e' ∉ cfg.rdy) (ops : List Op) (c : Nat) (cl : Caller)
    (h : lookup (run cfg ops).callers c = some cl) : cl.phase ≠ .unready := by
  intro hu
  exact hr ((rinv_reachable cfg ops).2 _ (mem_of_lookup h) hu)

/-- At most one result per request, and it is the recorded one. -/
theorem one_result (cfg : Cfg) (ops : List Op) (c : Nat) (cl : Caller)
    (h : lookup (run cfg ops).callers c = some cl) :
    (resultsOf c (run cfg ops).log).length ≤ 1 := by
  obtain ⟨_, h2⟩ := log_matches_history cfg ops c cl h
  rw [h2]; cases cl.result <;> simp

/-- **The sleep before retry k is the configured back-off for k.** The delays (µs) handed to `sleep` by a
request are, in order, what the interval function answered for retry 0, 1, … — each inside the policy's envelope
`[backoff k, backoff k + spread k]` whatever was observed (`SleepsOK`, newest first) —, one per retry made (plus one
while the request is sleeping); for an exact policy (`spread = 0`: fixed, exponential ×2, custom table) they are
exactly `backoff 0, backoff 1, …` (`boList`). -/
theorem sleeps_are_backoff (cfg : Cfg) (ops : List Op) (c : Nat) (cl : Caller)
    (h : lookup (run cfg ops).callers c = some cl) :
    SleepsOK cfg cl.sleeps ∧
    ((∀ k, cfg.spread k = 0) → cl.sleeps = boList cfg.backoff cl.sleeps.length) ∧
    retries cl ≤ cl.sleeps.length ∧ cl.sleeps.length ≤ retries cl + 1 := by
  have hc : CInv cfg cl := (sinv_reachable cfg ops).all _ (mem_of_lookup h)
  have := hc.sleepsLen
  refine ⟨hc.sleeps, fun hx => sleepsOK_exact hx hc.sleeps, ?_, ?_⟩ <;> simp only [retries_eq] <;> omega

/-- **Jitter stays within the randomization factor; an allowed answer is slept as it is.** Whatever the interval
function answers (`ch`, ns) for retry `k`, the delay handed to `sleep` lies in `[backoff k, backoff k + spread k]`; an
answer inside the envelope is slept unchanged (rounded up to the model's µs, which never shortens it: `ns ≤ d·1000`);
an exact policy sleeps `backoff k` whatever is observed. In particular an interval function saturated at
`Duration::MAX` (`backoff k = durMaxUs`) is never slept as zero. -/
theorem slept_delay_in_envelope (cfg : Cfg) (k : Nat) (ch : Option Nat) :
    cfg.backoff k ≤ pick cfg k ch ∧ pick cfg k ch ≤ cfg.backoff k + cfg.spread k ∧
    (∀ ns, ch = some ns → okChoice cfg k ch = true → pick cfg k ch = ceilUs ns ∧ ns ≤ pick cfg k ch * 1000) ∧
    (cfg.spread k = 0 → pick cfg k ch = cfg.backoff k) := by
  refine ⟨(pick_bounds cfg k ch).1, (pick_bounds cfg k ch).2, ?_, pick_exact cfg k ch⟩
  intro ns hns hok
  subst hns
  have := pick_of_ok cfg k ns hok
  exact ⟨this, by rw [this]; exact (le_ceilUs ns).1⟩

/-- **The envelope of the interval-function objects** (`ExponentialBackoff` with any multiplier / maximum: `pct = none`;
`ExponentialRandomBackoff` with randomization factor `pct` %: the jittered delay lies in `[d·(1−f), d·(1+f)]`, capped at
`Duration::MAX`, `d` the capped exponential): with `x = min ⌊initial·(p/q)^k⌋ cap` the exact value for retry `k`, the least
allowed answer is at most `x` and within the float tolerance (2^-40 relative + 1 ns, + 1 ns for the jitter's own
rounding) of `x` resp. `x·(100−pct)/100`; the largest is at most `Duration::MAX`, at most the maximum for the un-jittered
object, and within the tolerance of `x·(100+pct)/100`; the envelope is not empty, and in the model's unit it is
`[lo k, lo k + sp k]` with `lo k + sp k` = the largest allowed answer. So with factor 0 the jittered delay is `x` up to
the tolerance — in particular ≥ `x − x/2^40 − 2` ns, never zero for a saturated `x`. -/
theorem interval_function_envelope (i : Ivl) (k : Nat) (hcap : i.capNs ≤ durMaxNs) :
    i.ideal k ≤ i.capNs ∧ i.loNs k ≤ i.ideal k ∧ i.loNs k ≤ i.hiNs k ∧ i.hiNs k ≤ durMaxNs ∧
    i.lo k + i.sp k = ceilUs (i.hiNs k) ∧
    (i.pct = none → i.hiNs k ≤ i.capNs ∧ i.ideal k ≤ i.loNs k + tolNs (i.ideal k) ∧ i.hiNs k ≤ i.ideal k + tolNs (i.ideal k)) ∧
    (∀ pct, i.pct = some pct →
      i.ideal k * (100 - min pct 100) / 100 ≤ i.loNs k + tolNs (i.ideal k) + 1 ∧
      i.hiNs k ≤ i.ideal k * (100 + min pct 100) / 100 + tolNs (2 * i.ideal k) + 1 ∧
      (pct = 0 → i.ideal k ≤ i.loNs k + tolNs (i.ideal k) + 1)) := by
  have hx : i.ideal k ≤ i.capNs := by unfold Ivl.ideal idealNs; exact Nat.min_le_right _ _
  have key : i.loNs k ≤ i.ideal k ∧ i.loNs k ≤ i.hiNs k ∧ i.hiNs k ≤ durMaxNs ∧
      (i.pct = none → i.hiNs k ≤ i.capNs ∧ i.ideal k ≤ i.loNs k + tolNs (i.ideal k) ∧ i.hiNs k ≤ i.ideal k + tolNs (i.ideal k)) ∧
      (∀ pct, i.pct = some pct →
        i.ideal k * (100 - min pct 100) / 100 ≤ i.loNs k + tolNs (i.ideal k) + 1 ∧
        i.hiNs k ≤ i.ideal k * (100 + min pct 100) / 100 + tolNs (2 * i.ideal k) + 1 ∧
        (pct = 0 → i.ideal k ≤ i.loNs k + tolNs (i.ideal k) + 1)) := by
    cases hp : i.pct with
    | none =>
      simp only [Ivl.loNs, Ivl.hiNs, hp]
      refine ⟨by omega, by omega, by omega, fun _ => ⟨by omega, by omega, by omega⟩, by intro pct h; cases h⟩
    | some pct =>
      have h1 : i.ideal k * (100 - min pct 100) / 100 ≤ i.ideal k :=
        Nat.div_le_of_le_mul (by rw [Nat.mul_comm]; exact Nat.mul_le_mul_right _ (by omega))
      have h2 : i.ideal k ≤ i.ideal k * (100 + min pct 100) / 100 :=
        (Nat.le_div_iff_mul_le (by decide)).mpr (Nat.mul_le_mul_left _ (by omega))
      simp only [Ivl.loNs, Ivl.hiNs, hp]
      refine ⟨?_, ?_, ?_, ?_, ?_⟩
      · omega
      · omega
      · omega
      · intro h; cases h
      · intro pct' h
        cases h
        refine ⟨by omega, by omega, ?_⟩
        intro h0
        subst h0
        have : i.ideal k * (100 - min 0 100) / 100 = i.ideal k := by simp
        omega
  refine ⟨hx, key.1, key.2.1, key.2.2.1, ?_, key.2.2.2.1, key.2.2.2.2⟩
  have := ceilUs_mono key.2.1
  simp only [Ivl.lo, Ivl.sp]
  omega

/-- … and it is honoured, **in microseconds**: for any two consecutive attempts `q` (number `k−1`)
and `p` (number `k`) of a request, `q`'s failure was observed at some instant `t` (ms), no earlier
than the inner future was ready, and `p` started no earlier than the configured back-off after it:
`t·1000 + backoff (k−1) ≤ start·1000` with `backoff` in µs — whatever fraction of a millisecond the
configured delay has, for every back-off function (zero and `Duration::MAX`-like values included).
More precisely the timer's rounding is *up*: the retry starts no earlier than
`t + ⌈backoff (k−1) / 1000⌉` ms. For an interval function with an envelope (jitter: `backoff` is the least value it may
answer) the same holds for the delay `p.wait` it actually answered, which lies in the envelope. -/
theorem waits_at_least_backoff (cfg : Cfg) (ops : List Op) (c : Nat) (cl : Caller)
    (h : lookup (run cfg ops).callers c = some cl)
    (pre rest : List Att) (p q : Att) (hpq : cl.atts = pre ++ p :: q :: rest) :
    q.idx = rest.length ∧ p.idx = q.idx + 1 ∧
    ∃ t, q.seen = some t ∧ q.due ≤ t ∧ t * 1000 + cfg.backoff q.idx ≤ p.start * 1000 ∧
      t + ceilMs (cfg.backoff q.idx) ≤ p.start ∧
      -- … and, for a policy with an envelope (jitter), the very delay the interval function answered (`p.wait`)
      cfg.backoff q.idx ≤ p.wait ∧ p.wait ≤ cfg.backoff q.idx + cfg.spread q.idx ∧
      t * 1000 + p.wait ≤ p.start * 1000 ∧ t + ceilMs p.wait ≤ p.start := by
  have hc : CInv cfg cl := (sinv_reachable cfg ops).all _ (mem_of_lookup h)
  obtain ⟨_, h2, hlo, hhi, t, h3, h4, h5⟩ := hist_adjacent pre hc.hist hpq
  have := hist_member (pre ++ [p]) hc.hist (a := q) (rest := rest) (by simp [hpq])
  have hle := le_ceilMs p.wait
  have hmono := ceilMs_mono hlo
  exact ⟨this.1, h2, t, h3, h4, by omega, by omega, hlo, hhi, by omega, h5⟩

/-- **The timer rounds up, never down, and by less than a millisecond.** While a request is in its
back-off (`sleeping u`), the wake-up instant `u` (ms) is the *first* millisecond boundary at or after
"failure observed at `t`" + the delay `d` (µs) the interval function answered — `d` inside the envelope of the retry
number, `d = backoff` for an exact policy —: `t·1000 + d ≤ u·1000 < t·1000 + d + 1000`.
In particular a back-off of `0 < d < 1000` µs waits a full millisecond (never zero), a whole number
of milliseconds is waited exactly, and a zero back-off does not wait (`u = t`). -/
theorem backoff_deadline_rounds_up (cfg : Cfg) (ops : List Op) (c u : Nat) (cl : Caller)
    (h : lookup (run cfg ops).callers c = some cl) (hp : cl.phase = .sleeping u) :
    ∃ a tl t d, cl.atts = a :: tl ∧ a.seen = some t ∧ cl.sleeps.head? = some d ∧
      cfg.backoff tl.length ≤ d ∧ d ≤ cfg.backoff tl.length + cfg.spread tl.length ∧
      (cfg.spread tl.length = 0 → d = cfg.backoff tl.length) ∧
      t * 1000 + d ≤ u * 1000 ∧ u * 1000 < t * 1000 + d + 1000 ∧
      (d = 0 → u = t) ∧
      (∀ ms, d = ms * 1000 → u = t + ms) ∧
      (0 < d → t < u) := by
  have hc : CInv cfg cl := (sinv_reachable cfg ops).all _ (mem_of_lookup h)
  have hph := hc.phase
  simp only [PhaseInv, hp] at hph
  obtain ⟨a, tl, t, d, ds, ha, hs, hsd, hu', _, hsl, _⟩ := hph
  have hso := hc.sleeps
  rw [hsd] at hso
  simp only [SleepsOK, hsl] at hso
  obtain ⟨e1, e2, e3⟩ := ceil_window t u d hu'
  refine ⟨a, tl, t, d, ha, hs, by simp [hsd], hso.1, hso.2.1, by intro h0; omega, e1, e2, ?_, ?_, e3⟩
  · intro h0; rw [hu', h0, ceilMs_zero]; rfl
  · intro ms hms; rw [hu', hms, ceilMs_whole]

/-- Before the end of the back-off a poll of the request does nothing (no inner call, no budget
operation) — nor while the service instance the request holds answers "pending" to the readiness poll (still
recovering from the attempt that failed): readiness can only delay a retry further … -/
theorem no_retry_before_backoff (cfg : Cfg) (ops : List Op) (c u : Nat) (cl : Caller) (ds : List Nat)
    (h : lookup (run cfg ops).callers c = some cl) (hp : cl.phase = .sleeping u)
    (hu : (run cfg ops).now < u ∨ recovered cfg cl.atts (run cfg ops).now = false) :
    (stepS cfg (run cfg ops) (.poll c ds)).log = (run cfg ops).log ∧
    (stepS cfg (run cfg ops) (.poll c ds)).b = (run cfg ops).b := by
  have := poll_sleeping_waits (cfg := cfg) ds h hp hu
  exact ⟨this.1, this.2.1⟩

/-- … and a poll at or after it, once the service instance has recovered (`recov = 0`: at once), starts the retry in that
step, provided the inner service answers the readiness poll
with "ready" (always, for the empty script): polled on time, the gap is exactly `⌈d / 1000⌉` ms (`u` is `t + ⌈d / 1000⌉`
for the newest attempt, observed at `t`, `d` the delay answered by the interval function — `backoff (k−1)` for an exact
policy —: the first millisecond boundary at or after the configured deadline). If the readiness poll fails instead, the
request ends in that step with that error and nothing else happens. -/
theorem retry_starts_when_polled (cfg : Cfg) (ops : List Op) (c u : Nat) (cl : Caller) (ds : List Nat)
    (h : lookup (run cfg ops).callers c = some cl) (hp : cl.phase = .sleeping u)
    (hu : u ≤ (run cfg ops).now) (hrec : recovered cfg cl.atts (run cfg ops).now = true) :
    (∃ a tl t d, cl.atts = a :: tl ∧ a.seen = some t ∧ cl.sleeps.head? = some d ∧ u = t + ceilMs d ∧
      (cfg.spread tl.length = 0 → u = t + ceilMs (cfg.backoff tl.length))) ∧
    ((readyOf (run cfg ops).rdy).1 = true →
      ∃ rest, (stepS cfg (run cfg ops) (.poll c ds)).log
        = (run cfg ops).log ++ ((run cfg ops).now, REv.innerCall c (run cfg ops).serial) :: rest) ∧
    ((readyOf (run cfg ops).rdy).1 = false →
      (stepS cfg (run cfg ops) (.poll c ds)).log = (run cfg ops).log ++ [((run cfg ops).now, REv.result c readyErr)] ∧
      (stepS cfg (run cfg ops) (.poll c ds)).b = (run cfg ops).b) := by
  have hc : CInv cfg cl := (sinv_reachable cfg ops).all _ (mem_of_lookup h)
  have hph := hc.phase
  simp only [PhaseInv, hp] at hph
  obtain ⟨a, tl, t, d, ds', ha, hs, hsd, hu', _, hsl, _⟩ := hph
  have hso := hc.sleeps
  rw [hsd] at hso
  simp only [SleepsOK, hsl] at hso
  refine ⟨⟨a, tl, t, d, ha, hs, by simp [hsd], hu', ?_⟩, fun hr => poll_sleeping_calls ds h hp hu hrec hr, fun hr => ?_⟩
  · intro h0
    have : d = cfg.backoff tl.length := by omega
    rw [hu', this]
  · have := poll_sleeping_unready (cfg := cfg) ds h hp hu hrec hr
    exact ⟨this.1, this.2.1⟩

/-- An inner service whose instances need no recovery time (`recov = 0`, the default) has always recovered by the end
of the back-off: the retry then starts at the first poll at or after the back-off deadline. -/
theorem recovered_of_no_recovery_time (cfg : Cfg) (hz : cfg.recov = 0) (ops : List Op) (c u : Nat) (cl : Caller)
    (h : lookup (run cfg ops).callers c = some cl) (hp : cl.phase = .sleeping u) (hu : u ≤ (run cfg ops).now) :
    recovered cfg cl.atts (run cfg ops).now = true := by
  have hc : CInv cfg cl := (sinv_reachable cfg ops).all _ (mem_of_lookup h)
  have hph := hc.phase
  simp only [PhaseInv, hp] at hph
  obtain ⟨a, tl, t, d, ds', ha, hs, hsd, hu', _, hsl, _⟩ := hph
  have hh := hc.hist
  rw [ha] at hh
  have h3 := hh.2.2.1
  have h4 := hh.2.2.2.1 t hs
  simp only [recovered, ha, hz]
  simp; omega

/-- **No grant, no retry.** With a budget configured, every sleep (hence every retry) of a request
was preceded by its own `true` answer of `try_withdraw`: the number of `true` answers it consumed
equals the number of sleeps it entered, so `retries ≤ grants ≤ retries + 1` (the `+1` only while
sleeping, when dropped while sleeping, or when the readiness poll after the sleep failed); every answer but the newest
is `true`, and a `false` answer ends the request. -/
theorem no_grant_no_retry (cfg : Cfg) (ops : List Op) (c : Nat) (cl : Caller)
    (h : lookup (run cfg ops).callers c = some cl) (hb : cfg.budget ≠ none) :
    ctTrue cl.grants = cl.sleeps.length ∧
    retries cl ≤ ctTrue cl.grants ∧ ctTrue cl.grants ≤ retries cl + 1 ∧
    (∀ g ∈ cl.grants.tail, g = true) ∧
    (cl.grants.head? = some false → cl.result ≠ none) ∧
    (cl.phase = .done → retries cl = ctTrue cl.grants) := by
  have hc : CInv cfg cl := (sinv_reachable cfg ops).all _ (mem_of_lookup h)
  have hcount := hc.grantsCount hb
  have hlen := hc.sleepsLen
  refine ⟨hcount, by simp only [retries_eq]; omega, by simp only [retries_eq]; omega, hc.grantsTail, ?_, ?_⟩
  · intro hf
    have hdone : cl.phase = .done := by
      apply Classical.byContradiction
      intro hnd
      have := hc.grantsLive hnd false
      cases hg : cl.grants with
      | nil => simp [hg] at hf
      | cons x tl => simp [hg] at hf; subst hf; simp [hg] at this
    have hph := hc.phase
    simp only [PhaseInv, hdone] at hph
    obtain ⟨a, tl, t, _, _, hres, _⟩ := hph
    simp [hres]
  · intro hd
    have hph := hc.phase
    simp only [PhaseInv, hd] at hph
    obtain ⟨a, tl, t, ha, _, _, _, _, hsl⟩ := hph
    simp only [retries_eq, ha, hcount, hsl]; simp

/-- Without a budget the budget is never consulted. -/
theorem no_budget_no_grants (cfg : Cfg) (ops : List Op) (c : Nat) (cl : Caller)
    (h : lookup (run cfg ops).callers c = some cl) (hb : cfg.budget = none) : cl.grants = [] :=
  ((sinv_reachable cfg ops).all _ (mem_of_lookup h)).grantsNone hb

/-- **Shared budget bound.** For any number of requests sharing one budget, under any
interleaving of their steps and of the other users of the budget: if every grant takes `cost`
tokens, a refusal creates none and a deposit adds at most `amount` (each `try_withdraw` /
`deposit` atomic), then

    (retries of all requests + grants to other users) × cost + balance ≤ initial + deposits × amount. -/
theorem shared_budget_bound (cfg : Cfg) (cost amount : Nat) (hok : BudgetOK cost amount cfg)
    (hb : cfg.budget ≠ none) (ops : List Op) :
    (totalRetries (run cfg ops) + (run cfg ops).others) * cost + (run cfg ops).b.tokens
      ≤ cfg.b0.tokens + (run cfg ops).deposits * amount := by
  have hg := ginv_reachable hok ops
  have hs := sinv_reachable cfg ops
  unfold GInv at hg
  have hle : gsum (fun cl => retries cl * cost) (run cfg ops).callers ≤ gsum (spent cost) (run cfg ops).callers := by
    apply gsum_le
    intro p hp
    have hc := hs.all p hp
    have h1 := hc.grantsCount hb
    have h2 := hc.sleepsLen
    simp only [spent, retries_eq]
    apply Nat.mul_le_mul_right
    omega
  rw [gsum_mul] at hle
  simp only [totalRetries_eq, Nat.add_mul]
  omega

/-- the token bucket: one token per retry, one per deposit -/
theorem shared_budget_bound_bucket (cfg : Cfg) (m : Nat) (hb : cfg.budget = some (bucket m)) (ops : List Op) :
    totalRetries (run cfg ops) + (run cfg ops).others + (run cfg ops).b.tokens
      ≤ cfg.b0.tokens + (run cfg ops).deposits := by
  have := shared_budget_bound cfg 1 1
    (by intro bu h; rw [hb] at h; cases h; exact bucket_conserving m) (by simp [hb]) ops
  simpa using this

/-- the AIMD budget: `withdraw_amount` per retry, at most `deposit_amount` per deposit -/
theorem shared_budget_bound_aimd (cfg : Cfg) (minB maxB dep wd q : Nat)
    (hb : cfg.budget = some (aimd minB maxB dep wd q)) (ops : List Op) :
    (totalRetries (run cfg ops) + (run cfg ops).others) * wd + (run cfg ops).b.tokens
      ≤ cfg.b0.tokens + (run cfg ops).deposits * dep :=
  shared_budget_bound cfg wd dep
    (by intro bu h; rw [hb] at h; cases h; exact aimd_conserving minB maxB dep wd q) (by simp [hb]) ops

/-- The model's poll is faithful to "one poll runs the loop until it has to wait": the outcome of
an inner call that is ready is observed by the poll in that step (first new event `inner_done`) … -/
theorem ready_outcome_is_observed (cfg : Cfg) (ops : List Op) (c k due : Nat) (o : Out) (cl : Caller) (ds : List Nat)
    (h : lookup (run cfg ops).callers c = some cl) (hp : cl.phase = .calling k due o)
    (hd : due ≤ (run cfg ops).now) (hn : o ≠ .never) :
    ∃ rest, (stepS cfg (run cfg ops) (.poll c ds)).log = (run cfg ops).log ++ ((run cfg ops).now, REv.innerDone c k o) :: rest :=
  poll_calling_observes ds h hp hd hn

/-- … and after any poll the request is finished or genuinely waiting (for its inner call or for
the end of its back-off): no further loop iteration is possible, i.e. the fuel bounding the
model's loop never cuts a poll short. -/
theorem poll_runs_until_blocked (cfg : Cfg) (ops : List Op) (c : Nat) (cl : Caller) (ds : List Nat)
    (h : lookup (run cfg ops).callers c = some cl) :
    ∃ cl', lookup (stepS cfg (run cfg ops) (.poll c ds)).callers c = some cl' ∧
      tickC cfg (stepS cfg (run cfg ops) (.poll c ds)).now (stepS cfg (run cfg ops) (.poll c ds)).serial
        (stepS cfg (run cfg ops) (.poll c ds)).b c cl' = none :=
  TR.Retry.poll_runs_until_blocked ds (sinv_reachable cfg ops) h

/-! ## the timestamped log

Everything above that speaks about the ghost record of a request (`cl.atts`, `Att.start`, `Att.seen`, `Att.out`,
`cl.grants`) is, by the theorems of this section, a statement about lines of the event log that is compared with the
implementation's — with their instants and their order. -/

/-- **The instants of the log are the instants the driver prints.** Every operation only appends lines to the log, and each
appended line carries the instant of the state the operation leads to — `Driver.applyStep` prints exactly that instant
(`t=<now>`) in front of the line, and the correspondence check compares it with the implementation's. -/
theorem log_stamps_are_the_printed_instants (cfg : Cfg) (s : State) (op : Op) :
    (stepS cfg s op).log.take s.log.length = s.log ∧
    ∀ p ∈ (stepS cfg s op).log.drop s.log.length, p.1 = (stepS cfg s op).now := by
  obtain ⟨evs, h1, h2⟩ := step_log cfg s op
  rw [h1]
  exact ⟨by simp, by simpa using h2⟩

/-- … and never decrease along the log, nor run ahead of the clock: the log is in chronological order. -/
theorem log_instants_never_decrease (cfg : Cfg) (ops : List Op) :
    (∀ p ∈ (run cfg ops).log, p.1 ≤ (run cfg ops).now) ∧ (run cfg ops).log.Pairwise (fun a b => a.1 ≤ b.1) :=
  monoLog_reachable cfg ops

/-- **The full bridge: the lines of a request are what its record says** (`Shape`, `TR.Lemmas.RetryLog`): one block
`inner_call (at start), inner_done (at seen)[, budget c grant (at seen)]` per attempt that failed and was followed by a
back-off, oldest first, then — by phase — nothing (in a back-off), the `inner_call` line of the attempt in flight, the lines
`inner_call, inner_done[, budget c refused], result` of the final attempt (the last three at one instant), the `result` line
of a readiness error (no earlier than the end of the back-off), or `inner_call, inner_drop` of a cancelled attempt. A request
that never arrived has no line. -/
theorem request_lines_of_the_log (cfg : Cfg) (ops : List Op) (c : Nat) :
    match lookup (run cfg ops).callers c with
    | some cl => Shape cfg c cl (linesOf c (run cfg ops).log)
    | none => linesOf c (run cfg ops).log = [] :=
  linv_reachable cfg ops c

/-- … its `inner_call` lines, with their instants, are exactly its recorded attempts: `(t, inner_call c k)` is a line of the
log iff some attempt of the request has serial `k` and started at `t` (`Att.start` *is* the instant of the line) … -/
theorem inner_call_line_iff (cfg : Cfg) (ops : List Op) (c : Nat) (cl : Caller)
    (h : lookup (run cfg ops).callers c = some cl) (t k : Nat) :
    (t, REv.innerCall c k) ∈ (run cfg ops).log ↔ ∃ a ∈ cl.atts, a.start = t ∧ a.k = k := by
  have hc : CInv cfg cl := (sinv_reachable cfg ops).all _ (mem_of_lookup h)
  have hs := linv_reachable cfg ops c
  simp only [h] at hs
  rw [← call_line_iff hc hs t k]
  simp [linesOf, ofReq]

/-- … and its `inner_done` lines, with their instants and outcomes, are exactly its observed attempts: `(t, inner_done c k o)`
is a line of the log iff some attempt of the request has serial `k`, outcome `o` and was observed at `t` (`Att.seen`,
`Att.out` *are* the instant and the outcome on the line). -/
theorem inner_done_line_iff (cfg : Cfg) (ops : List Op) (c : Nat) (cl : Caller)
    (h : lookup (run cfg ops).callers c = some cl) (t k : Nat) (o : Out) :
    (t, REv.innerDone c k o) ∈ (run cfg ops).log ↔ ∃ a ∈ cl.atts, a.seen = some t ∧ a.k = k ∧ a.out = o := by
  have hc : CInv cfg cl := (sinv_reachable cfg ops).all _ (mem_of_lookup h)
  have hs := linv_reachable cfg ops c
  simp only [h] at hs
  rw [← done_line_iff hc hs t k o]
  simp [linesOf, ofReq]

/-- **Every attempt follows the script** — not only the newest (`returns_last_outcome`): attempt number `i` of a request
(`a.idx = i` = the number of attempts before it) has the outcome and the latency of step `i` of the request's script (`ok` at
once when the script is exhausted), and was observed no earlier than its inner future was ready. With `inner_done_line_iff`:
the outcome on the `i`-th `inner_done` line of a request is the `i`-th scripted outcome. -/
theorem every_attempt_follows_script (cfg : Cfg) (ops : List Op) (c : Nat) (cl : Caller)
    (h : lookup (run cfg ops).callers c = some cl) (pre rest : List Att) (a : Att) (ha : cl.atts = pre ++ a :: rest) :
    a.idx = rest.length ∧ a.out = (cl.plan0.getD a.idx { lat := 0, out := .ok }).out ∧
    a.due = a.start + (cl.plan0.getD a.idx { lat := 0, out := .ok }).lat ∧ (∀ t, a.seen = some t → a.due ≤ t) := by
  have hc : CInv cfg cl := (sinv_reachable cfg ops).all _ (mem_of_lookup h)
  exact hist_member pre hc.hist ha

/-- **Between 1 and `max(1, max_attempts)` `inner_call` lines per request**: at most `max 1 max_attempts` in every reachable
log; at least one as soon as the request has been polled and not been dropped before its first poll — in particular whenever
it has a `result` line. -/
theorem inner_call_lines_between_one_and_max (cfg : Cfg) (ops : List Op) (c : Nat) (cl : Caller)
    (h : lookup (run cfg ops).callers c = some cl) :
    (callsOf c (run cfg ops).log).length ≤ max 1 cl.maxA ∧
    ((cl.phase ≠ .fresh ∧ cl.phase ≠ .dropped) ∨ (∃ t r, (t, REv.result c r) ∈ (run cfg ops).log) →
      1 ≤ (callsOf c (run cfg ops).log).length) := by
  refine ⟨at_most_max cfg ops c cl h, ?_⟩
  obtain ⟨h1, _⟩ := log_matches_history cfg ops c cl h
  have hc : CInv cfg cl := (sinv_reachable cfg ops).all _ (mem_of_lookup h)
  have hph := hc.phase
  have key : cl.atts ≠ [] → 1 ≤ (callsOf c (run cfg ops).log).length := by
    intro hne
    rw [h1]
    cases ha : cl.atts with
    | nil => exact absurd ha hne
    | cons a tl => simp [serials, ha]
  rintro (⟨hf, hd⟩ | ⟨t, r, hm⟩)
  · apply key
    intro he
    cases hp : cl.phase with
    | fresh => exact hf hp
    | dropped => exact hd hp
    | calling k due o => simp only [PhaseInv, hp] at hph; obtain ⟨a, tl, ha, _⟩ := hph; simp [ha] at he
    | sleeping u => simp only [PhaseInv, hp] at hph; obtain ⟨a, tl, t, d, ds, ha, _⟩ := hph; simp [ha] at he
    | done => simp only [PhaseInv, hp] at hph; obtain ⟨a, tl, t, ha, _⟩ := hph; simp [ha] at he
    | unready => simp only [PhaseInv, hp] at hph; obtain ⟨a, tl, t, ha, _⟩ := hph; simp [ha] at he
  · have hr : r ∈ resultsOf c (run cfg ops).log := by
      simp only [resultsOf, List.mem_filterMap]
      exact ⟨(t, REv.result c r), hm, by simp [resultOf]⟩
    exact at_least_one cfg ops c cl h r hr

/-- **The caller's result is the outcome on the LAST `inner_done` line of the request — or the readiness error that ended
it.** If `(t, result c r)` is a line of the log, the lines of request `c` are

    … , (s, inner_call c k), (ts, inner_done c k o), W, (t, result c r)

with nothing after the `result` line and `W` at most one budget line (so the `inner_done` line shown is the request's last,
and `k` the serial of its last `inner_call` line), `o` the scripted outcome of that attempt, and either
* `r` is that outcome (`ok:k` / `err:inner<kind>:k` / panic), delivered at the instant of the `inner_done` line (`ts = t`), `W`
  empty or the refusal `budget c refused` at `t`; or
* `r` is the readiness error `err:inner9:0`: the outcome `o` was an error the predicate accepts, attempts were left, `W` is
  (with a budget) the grant of the retry that was never made, the `result` comes no earlier than the end of the back-off
  (`ts + ⌈d/1000⌉ ≤ t`, `d` the delay slept), and the inner service's readiness script contains an error. -/
theorem result_is_the_last_inner_done_line (cfg : Cfg) (ops : List Op) (c : Nat) (cl : Caller)
    (h : lookup (run cfg ops).callers c = some cl) (t : Nat) (r : Res)
    (hm : (t, REv.result c r) ∈ (run cfg ops).log) :
    ∃ pre s k ts o W,
      linesOf c (run cfg ops).log
        = pre ++ [(s, REv.innerCall c k), (ts, REv.innerDone c k o)] ++ W ++ [(t, REv.result c r)] ∧
      (callsOf c (run cfg ops).log).getLast? = some k ∧
      o = (cl.plan0.getD (cl.atts.length - 1) { lat := 0, out := .ok }).out ∧
      ((r = resOf k o ∧ ts = t ∧ (W = [] ∨ W = [(t, REv.withdraw c false)])) ∨
       (r = readyErr ∧ 'e' ∈ cfg.rdy ∧ (∃ kd, o = .err kd ∧ cfg.pred kd = true) ∧ cl.atts.length + 1 ≤ cl.maxA ∧
          W = (if cfg.budget.isSome then [(ts, REv.withdraw c true)] else []) ∧
          ∃ d, cl.sleeps.head? = some d ∧ ts + ceilMs d ≤ t)) := by
  have hc : CInv cfg cl := (sinv_reachable cfg ops).all _ (mem_of_lookup h)
  have hs := linv_reachable cfg ops c
  simp only [h] at hs
  have hm' : (t, REv.result c r) ∈ linesOf c (run cfg ops).log := by simp [linesOf, ofReq, hm]
  obtain ⟨a, tl, ts, W, ha, hseen, hP, hcase⟩ := result_shape hc hs t r hm'
  obtain ⟨h1, _⟩ := log_matches_history cfg ops c cl h
  have hh := hc.hist
  rw [ha] at hh
  refine ⟨closed cfg c tl, a.start, a.k, ts, a.out, W, hP, by simp [h1, serials, ha], ?_, ?_⟩
  · have := hh.2.1
    rw [hh.1] at this
    simpa [ha] using this
  · rcases hcase with ⟨_, hr, hts, hW⟩ | ⟨hu, hr, hW, hd⟩
    · left
      refine ⟨hr, hts, ?_⟩
      rcases hW with ⟨hW, _⟩ | ⟨hW, _⟩
      · exact Or.inl hW
      · exact Or.inr hW
    · right
      have hph := hc.phase
      simp only [PhaseInv, hu] at hph
      obtain ⟨a', tl', _, ha', _, _, hret, _, hroom⟩ := hph
      rw [ha] at ha'; cases ha'
      exact ⟨hr, (rinv_reachable cfg ops).2 _ (mem_of_lookup h) hu, hret, by simp [ha]; omega, hW, hd⟩

/-- **Consecutive `inner_call` lines of a request are at least the answered back-off apart.** For any two consecutive
attempts `q` (number `j`) and `p` (number `j + 1`) of a request, its lines are

    X, (q.start, inner_call c q.k), (t, inner_done c q.k q.out)[, (t, budget c grant)], (p.start, inner_call c p.k), …

with exactly `j` `inner_call` lines in `X` — these are the `j`-th and `j+1`-st `inner_call` lines of the request (zero based),
nothing of the request between them but the outcome of the first and, with a budget, its grant — and their instants satisfy
`q.start ≤ t` and, in **microseconds**, `t·1000 + d ≤ p.start·1000` (so `q.start·1000 + d ≤ p.start·1000`), rounded up by the
timer: `t + ⌈d/1000⌉ ≤ p.start`, where `d = p.wait` is the delay the interval function answered for retry `j` — inside the
policy's envelope `[backoff j, backoff j + spread j]`, `= backoff j` for an exact policy. -/
theorem consecutive_inner_calls_wait_the_backoff (cfg : Cfg) (ops : List Op) (c : Nat) (cl : Caller)
    (h : lookup (run cfg ops).callers c = some cl)
    (pre rest : List Att) (p q : Att) (hpq : cl.atts = pre ++ p :: q :: rest) :
    ∃ X Y t,
      linesOf c (run cfg ops).log
        = X ++ [(q.start, REv.innerCall c q.k), (t, REv.innerDone c q.k q.out)] ++
            (if cfg.budget.isSome then [(t, REv.withdraw c true)] else []) ++ (p.start, REv.innerCall c p.k) :: Y ∧
      (callsOf c X).length = rest.length ∧ q.idx = rest.length ∧
      q.start ≤ t ∧ t * 1000 + p.wait ≤ p.start * 1000 ∧ q.start * 1000 + p.wait ≤ p.start * 1000 ∧
      t + ceilMs p.wait ≤ p.start ∧
      cfg.backoff q.idx ≤ p.wait ∧ p.wait ≤ cfg.backoff q.idx + cfg.spread q.idx ∧
      (cfg.spread q.idx = 0 → p.wait = cfg.backoff q.idx) := by
  have hc : CInv cfg cl := (sinv_reachable cfg ops).all _ (mem_of_lookup h)
  have hs := linv_reachable cfg ops c
  simp only [h] at hs
  obtain ⟨Y, hP⟩ := consecutive_attempts hc hs pre rest p q hpq
  obtain ⟨hidx, _, t, hseen, hdue, _, _, hlo, hhi, hus, hms⟩ := waits_at_least_backoff cfg ops c cl h pre rest p q hpq
  have hstart : q.start ≤ t := by
    have hq := hist_member (pre ++ [p]) hc.hist (a := q) (rest := rest) (by simp [hpq])
    have h3 := hq.2.2.1
    generalize (cl.plan0.getD q.idx { lat := 0, out := .ok }).lat = lat at h3
    omega
  have hceil := le_ceilMs p.wait
  have hlen : (callsOf c (closed cfg c rest)).length = rest.length := by simp [callsOf_closed]
  refine ⟨closed cfg c rest, Y, t, ?_, hlen, hidx, hstart, hus, ?_, hms, hlo, hhi, ?_⟩
  · rw [hP]; simp [block, hseen]
  · have : q.start * 1000 ≤ t * 1000 := Nat.mul_le_mul_right _ hstart
    exact Nat.le_trans (Nat.add_le_add_right this _) hus
  · intro h0; exact Nat.le_antisymm (by rw [h0] at hhi; exact hhi) hlo

/-- **Every `inner_call` line after the first is preceded by a `grant` line for it.** With a budget configured: whenever
`(t, inner_call c k)` is a line of request `c` and not its first line, the line of the request right before it is a grant
`(t', budget c grant)` — the request's own, obtained after its previous `inner_call` (by
`consecutive_inner_calls_wait_the_backoff` it stands right after the `inner_done` line of the failed attempt, at the same
instant). Without a budget there is no budget line at all. -/
theorem every_retry_is_preceded_by_its_grant (cfg : Cfg) (ops : List Op) (c : Nat) (cl : Caller)
    (h : lookup (run cfg ops).callers c = some cl) :
    (cfg.budget ≠ none → ∀ X t k Y, linesOf c (run cfg ops).log = X ++ (t, REv.innerCall c k) :: Y →
      X = [] ∨ ∃ X' t', X = X' ++ [(t', REv.withdraw c true)]) ∧
    (cfg.budget = none → ∀ t c' g, (t, REv.withdraw c' g) ∉ (run cfg ops).log) := by
  have hc : CInv cfg cl := (sinv_reachable cfg ops).all _ (mem_of_lookup h)
  have hs := linv_reachable cfg ops c
  simp only [h] at hs
  refine ⟨?_, fun hb => no_budget_line_reachable hb ops⟩
  intro hb X t k Y hP
  have hb' : cfg.budget.isSome = true := by
    cases hx : cfg.budget with
    | none => exact absurd hx hb
    | some _ => rfl
  exact grant_precedes_retry hc hs hb' X t c k Y hP

/-- **The budget lines of a request are its recorded answers** (`log_matches_history` for `cl.grants`): the answers on the
`budget c grant|refused` lines of the log, in order, are the request's recorded answers of `try_withdraw` (oldest first). So
`no_grant_no_retry` is a statement about lines of the log: with a budget, the number of `grant` lines of a request is at least
the number of its `inner_call` lines after the first (its retries) and at most one more; every budget line of the request
but the last is a grant; and a request whose last budget line is a refusal is finished. -/
theorem budget_lines_are_the_grants (cfg : Cfg) (ops : List Op) (c : Nat) (cl : Caller)
    (h : lookup (run cfg ops).callers c = some cl) :
    withdrawsOf c (run cfg ops).log = cl.grants.reverse ∧
    (cfg.budget ≠ none →
      (callsOf c (run cfg ops).log).length - 1 ≤ (withdrawsOf c (run cfg ops).log).count true ∧
      (withdrawsOf c (run cfg ops).log).count true ≤ (callsOf c (run cfg ops).log).length - 1 + 1 ∧
      (∀ g ∈ (withdrawsOf c (run cfg ops).log).dropLast, g = true) ∧
      ((withdrawsOf c (run cfg ops).log).getLast? = some false → cl.result ≠ none)) := by
  have hw := winv_reachable cfg ops c
  simp only [grantsOfC, h] at hw
  refine ⟨hw, fun hb => ?_⟩
  obtain ⟨h1, _⟩ := log_matches_history cfg ops c cl h
  obtain ⟨_, g1, g2, g3, g4, _⟩ := no_grant_no_retry cfg ops c cl h hb
  have hlen : (callsOf c (run cfg ops).log).length = cl.atts.length := by simp [h1, serials]
  rw [hw, hlen]
  simp only [retries_eq, ctTrue] at g1 g2
  refine ⟨by simpa using g1, by simpa using g2, ?_, ?_⟩
  · intro g hg
    rw [List.dropLast_reverse] at hg
    exact g3 g (by simpa using hg)
  · intro hl
    rw [List.getLast?_reverse] at hl
    exact g4 hl

/-- **A `refused` line ends the request with its last outcome.** If `(t, budget c refused)` is a line of the log, request
`c` is finished and its lines end

    …, (s, inner_call c k), (t, inner_done c k o), (t, budget c refused), (t, result c <o as a result>)

— the refusal follows the `inner_done` line of the attempt that just failed at the same instant, the `result` line follows at
once with that attempt's outcome, `o` is an error the predicate accepts with attempts left (the budget is asked last), and no
line of the request follows. -/
theorem a_refusal_ends_the_request (cfg : Cfg) (ops : List Op) (c : Nat) (cl : Caller)
    (h : lookup (run cfg ops).callers c = some cl) (t : Nat)
    (hm : (t, REv.withdraw c false) ∈ (run cfg ops).log) :
    cl.phase = .done ∧ ∃ pre s k o,
      linesOf c (run cfg ops).log
        = pre ++ [(s, REv.innerCall c k), (t, REv.innerDone c k o), (t, REv.withdraw c false), (t, REv.result c (resOf k o))] ∧
      cl.result = some (resOf k o) ∧ (callsOf c (run cfg ops).log).getLast? = some k ∧
      (∃ kd, o = .err kd ∧ cfg.pred kd = true) ∧ cl.atts.length + 1 ≤ cl.maxA := by
  have hc : CInv cfg cl := (sinv_reachable cfg ops).all _ (mem_of_lookup h)
  have hs := linv_reachable cfg ops c
  simp only [h] at hs
  have hm' : (t, REv.withdraw c false) ∈ linesOf c (run cfg ops).log := by simp [linesOf, ofReq, hm]
  obtain ⟨a, tl, ha, hd, hseen, hhead, hret, hroom, hP⟩ := refusal_shape hc hs t hm'
  obtain ⟨h1, _⟩ := log_matches_history cfg ops c cl h
  have hph := hc.phase
  simp only [PhaseInv, hd] at hph
  obtain ⟨a', tl', _, ha', _, hres, _, hwhy, _⟩ := hph
  rw [ha] at ha'; cases ha'
  refine ⟨hd, closed cfg c tl, a.start, a.k, a.out, hP, hres, by simp [h1, serials, ha], hret, ?_⟩
  simp [ha]; omega

/-! ## a readiness error between attempts: the grant is spent, the retry is not made

The behaviour reported in `notes/strengthen-retry-w5.md` §4, as theorems about the model (which follows the code, lib.rs:
`try_withdraw()` … `sleep(delay).await` … next iteration: `poll_fn(|cx| service.poll_ready(cx)).await?`). The property text
says "no grant, no retry", not the converse; these theorems make the converse's failure visible. -/

/-- **The step.** A request whose back-off has elapsed (and whose instance has recovered) is polled and the inner service
fails the readiness poll: the request ends in that step with the readiness error as its only new line — no `inner_call`,
no budget line —, the budget is exactly what it was (nothing is refunded: neither the balance nor the number of deposits
changes), and the request keeps the grants it had obtained, the one for this retry included. -/
theorem readiness_error_refunds_nothing (cfg : Cfg) (ops : List Op) (c u : Nat) (cl : Caller) (ds : List Nat)
    (h : lookup (run cfg ops).callers c = some cl) (hp : cl.phase = .sleeping u)
    (hu : u ≤ (run cfg ops).now) (hrec : recovered cfg cl.atts (run cfg ops).now = true)
    (hr : (readyOf (run cfg ops).rdy).1 = false) :
    (stepS cfg (run cfg ops) (.poll c ds)).log = (run cfg ops).log ++ [((run cfg ops).now, REv.result c readyErr)] ∧
    (stepS cfg (run cfg ops) (.poll c ds)).b = (run cfg ops).b ∧
    (stepS cfg (run cfg ops) (.poll c ds)).deposits = (run cfg ops).deposits ∧
    ∃ cl', lookup (stepS cfg (run cfg ops) (.poll c ds)).callers c = some cl' ∧ cl'.phase = .unready ∧
      cl'.grants = cl.grants ∧ cl'.atts = cl.atts ∧ cl'.result = some readyErr ∧
      (cfg.budget ≠ none → ctTrue cl'.grants = retries cl' + 1) := by
  have h1 := poll_sleeping_unready (cfg := cfg) ds h hp hu hrec hr
  obtain ⟨h2, cl', hl', hph, hg, ha, hres⟩ := poll_sleeping_unready_state (cfg := cfg) ds h hp hu hrec hr
  refine ⟨h1.1, h1.2.1, h2, cl', hl', hph, hg, ha, hres, ?_⟩
  intro hb
  have hc : CInv cfg cl := (sinv_reachable cfg ops).all _ (mem_of_lookup h)
  have hcount := hc.grantsCount hb
  have hph0 := hc.phase
  simp only [PhaseInv, hp] at hph0
  obtain ⟨a, tl, t, d, ds', hatts, _, hsd, _, _, hsl, _⟩ := hph0
  rw [hg, retries_eq, ha, hcount, hsd, hatts]
  simp [hsl]

/-- **The reached state.** A request that was ended by a readiness error, under a budget: its lines end with the grant of the
retry that was never made, followed by the `result` line carrying the readiness error — no `inner_call` line after that
grant —; it holds one more grant than it made retries (as many grants as inner calls), and that grant stays counted as
spent in the budget's conservation bound (`shared_budget_bound_counts_grants`): the token is not given back. -/
theorem readiness_error_spends_grant_without_call (cfg : Cfg) (ops : List Op) (c : Nat) (cl : Caller)
    (h : lookup (run cfg ops).callers c = some cl) (hu : cl.phase = .unready) (hb : cfg.budget ≠ none) :
    (∃ pre ts t, linesOf c (run cfg ops).log = pre ++ [(ts, REv.withdraw c true), (t, REv.result c readyErr)]) ∧
    ctTrue cl.grants = retries cl + 1 ∧
    (callsOf c (run cfg ops).log).length = ctTrue cl.grants ∧
    (∀ g ∈ cl.grants, g = true) := by
  have hc : CInv cfg cl := (sinv_reachable cfg ops).all _ (mem_of_lookup h)
  have hs := linv_reachable cfg ops c
  simp only [h] at hs
  obtain ⟨_, a, tl, t0, ha, _, _, _, hsl, hcalls⟩ := readiness_error_is_the_last_outcome cfg ops c cl h hu
  have hsh := hs
  simp only [Shape, hu] at hsh
  obtain ⟨t, ts, d, hP, hseen, _, _⟩ := hsh
  have hb' : cfg.budget.isSome = true := by
    cases hx : cfg.budget with
    | none => exact absurd hx hb
    | some _ => rfl
  have hcount := hc.grantsCount hb
  refine ⟨?_, ?_, ?_, hc.grantsLive (by simp [hu])⟩
  · rw [ha] at hseen hP
    simp at hseen
    refine ⟨closed cfg c tl ++ [(a.start, REv.innerCall c a.k), (ts, REv.innerDone c a.k a.out)], ts, t, ?_⟩
    rw [hP]
    simp [closed, block, hseen, hb']
  · rw [hcount, hsl, retries_eq, ha]; simp
  · rw [hcalls, hcount, hsl]

/-- **The conservation bound counts grants, not retries.** Under the hypotheses of `shared_budget_bound`:

    (grants obtained by all requests + grants to other users) × cost + balance ≤ initial + deposits × amount,

and every request has obtained at least as many grants as it made retries — exactly one more while it is in a back-off, and
for good once it was ended by a readiness error after the back-off (or dropped in it). -/
theorem shared_budget_bound_counts_grants (cfg : Cfg) (cost amount : Nat) (hok : BudgetOK cost amount cfg)
    (hb : cfg.budget ≠ none) (ops : List Op) :
    (totalGrants (run cfg ops) + (run cfg ops).others) * cost + (run cfg ops).b.tokens
      ≤ cfg.b0.tokens + (run cfg ops).deposits * amount ∧
    ∀ c cl, lookup (run cfg ops).callers c = some cl →
      retries cl ≤ ctTrue cl.grants ∧ (cl.phase = .unready → ctTrue cl.grants = retries cl + 1) := by
  have hg := ginv_reachable hok ops
  unfold GInv at hg
  constructor
  · have : gsum (spent cost) (run cfg ops).callers = totalGrants (run cfg ops) * cost := by
      rw [totalGrants_eq, ← gsum_mul]; rfl
    rw [this] at hg
    simp only [Nat.add_mul]
    omega
  · intro c cl h
    refine ⟨(no_grant_no_retry cfg ops c cl h hb).2.1, fun hu => ?_⟩
    exact (readiness_error_spends_grant_without_call cfg ops c cl h hu hb).2.1

/-! ## several services, handles and clones of one layer

`RetryLayer::layer` hands every service the same `Arc<RetryConfig>` — policy, `max_attempts` source, budget — and nothing
else: a `Retry` service holds no state of its own, the attempt counter lives in the call future. So the model has one
record per *request* and one budget per *layer*, whichever service / handle / clone the request was made through; what is
per request is untouched by the steps of other requests, what is shared is only the budget (`shared_budget_bound`) and
the inner service's readiness script. -/

/-- **Per-request state is not shared.** A poll of request `c` (through whichever service of the layer) changes the
record of no other request `c'`: its attempt counter, attempt history, sleeps, grants, result and `max_attempts` are
exactly what they were — in particular the attempts of one request never count against another's `max_attempts`. -/
theorem poll_leaves_other_requests_alone (cfg : Cfg) (s : State) (c c' : Nat) (ds : List Nat) (hne : c' ≠ c) :
    lookup (stepS cfg s (.poll c ds)).callers c' = lookup s.callers c' := by
  simp only [stepS, pollS]
  split
  · rfl
  · exact lookup_modify_ne hne

/-- … nor does dropping one request's call future or the arrival of another request. -/
theorem drop_and_arrival_leave_other_requests_alone (cfg : Cfg) (s : State) (c c' : Nat) (hne : c' ≠ c)
    (ma : Option Nat) (plan : List Step) :
    lookup (stepS cfg s (.drop c)).callers c' = lookup s.callers c' ∧
    lookup (stepS cfg s (.arrive c ma plan)).callers c' = lookup s.callers c' := by
  constructor
  · simp only [stepS, dropS]
    split
    · rfl
    · split
      · rfl
      · rfl
      · rfl
      · simp only [emit]; exact lookup_modify_ne hne
      · exact lookup_modify_ne hne
  · simp only [stepS, arriveS]
    split
    · rfl
    · have : ¬ c = c' := fun e => hne e.symm
      simp [lookup, this]

/-! ## the builder: the layer that a chain of setters builds

`build chain` is the configuration of `RetryLayer::builder().s₁.s₂.….build()`, a fold over the setters from the
builder's defaults. `Setter.slot` names the setting a setter writes: `max_attempts(n)` and `max_attempts_fn(f)` write the
same one (the source of `max_attempts`), the three back-off setters write the interval function. -/

/-- **`max_attempts(n)` given last is the layer's limit — also after a `max_attempts_fn`.** Whatever stands before it
(`pre`: any setters, extractors included) and whatever setters of the *other* settings follow it (`post`), the built
layer has the fixed limit `n`; and `max_attempts_fn(f)` given last makes the limit per request (default `d`), whatever
fixed limit was given before. With neither, the limit is the default 3, fixed. -/
theorem builder_max_attempts_last_wins (pre post : List Setter) (n : Nat) (hpost : ∀ s ∈ post, s.slot ≠ 0) :
    ((build (pre ++ .maxA n :: post)).max = n ∧ (build (pre ++ .maxA n :: post)).dyn = false) ∧
    ((build (pre ++ .maxFn n :: post)).max = n ∧ (build (pre ++ .maxFn n :: post)).dyn = true) ∧
    (∀ chain : List Setter, (∀ s ∈ chain, s.slot ≠ 0) → (build chain).max = 3 ∧ (build chain).dyn = false) := by
  refine ⟨?_, ?_, ?_⟩
  · rw [build_append_cons]
    have h := foldl_max_keep post (applySetter (build pre) (.maxA n)) hpost
    exact ⟨h.1.trans rfl, h.2.trans rfl⟩
  · rw [build_append_cons]
    have h := foldl_max_keep post (applySetter (build pre) (.maxFn n)) hpost
    exact ⟨h.1.trans rfl, h.2.trans rfl⟩
  · intro chain h
    exact foldl_max_keep chain defaultCfg h

/-- The back-off function is the one given last (by any of the three back-off setters — `.backoff(i)` with an exact
function, or with an interval-function object that has an envelope: its envelope), wherever the other setters
stand; without one it is the default: exponential from 100 ms, exact. -/
theorem builder_backoff_last_wins (pre post : List Setter) (f : Nat → Nat) (hpost : ∀ s ∈ post, s.slot ≠ 1) :
    ((build (pre ++ .backoff f :: post)).backoff = f ∧ ∀ k, (build (pre ++ .backoff f :: post)).spread k = 0) ∧
    (∀ lo sp, (build (pre ++ .interval lo sp :: post)).backoff = lo ∧ (build (pre ++ .interval lo sp :: post)).spread = sp) ∧
    (∀ chain : List Setter, (∀ s ∈ chain, s.slot ≠ 1) →
      ∀ k, (build chain).backoff k = 100000 * 2 ^ k ∧ (build chain).spread k = 0) := by
  refine ⟨⟨?_, ?_⟩, ?_, ?_⟩
  · rw [build_append_cons, foldl_backoff_keep _ _ hpost]; rfl
  · intro k; rw [build_append_cons, foldl_spread_keep _ _ hpost]; rfl
  · intro lo sp
    constructor
    · rw [build_append_cons, foldl_backoff_keep _ _ hpost]; rfl
    · rw [build_append_cons, foldl_spread_keep _ _ hpost]; rfl
  · intro chain h k
    constructor
    · rw [build, foldl_backoff_keep chain defaultCfg h]; rfl
    · rw [build, foldl_spread_keep chain defaultCfg h]; rfl

/-- The predicate is the one given last; without one every error is retried. -/
theorem builder_predicate_last_wins (pre post : List Setter) (p : Nat → Bool) (hpost : ∀ s ∈ post, s.slot ≠ 2) :
    (build (pre ++ .pred p :: post)).pred = p ∧
    (∀ chain : List Setter, (∀ s ∈ chain, s.slot ≠ 2) → ∀ k, (build chain).pred k = true) := by
  constructor
  · rw [build_append_cons, foldl_pred_keep _ _ hpost]; rfl
  · intro chain h k
    rw [build, foldl_pred_keep chain defaultCfg h]; rfl

/-- The budget is the one given last (in the state it was handed over in); without one there is none. -/
theorem builder_budget_last_wins (pre post : List Setter) (bu : Budget) (b0 : BState) (a : Bool)
    (hpost : ∀ s ∈ post, s.slot ≠ 3) :
    ((build (pre ++ .budget bu b0 a :: post)).budget = some bu ∧ (build (pre ++ .budget bu b0 a :: post)).b0 = b0) ∧
    (∀ chain : List Setter, (∀ s ∈ chain, s.slot ≠ 3) → (build chain).budget = none) := by
  constructor
  · rw [build_append_cons]
    have h := foldl_budget_keep post (applySetter (build pre) (.budget bu b0 a)) hpost
    exact ⟨h.1.trans rfl, h.2.1.trans rfl⟩
  · intro chain h
    exact (foldl_budget_keep chain defaultCfg h).1

/-- **At most `max(1, n)` invocations for the layer built with `max_attempts(n)` last** — for every chain in which
`max_attempts(n)` is the last setter of the limit (any `max_attempts_fn` extractors before it, any other setters after
it), every readiness behaviour `r` of the inner service, every operation sequence and every request, whatever value the
request itself carries. -/
theorem chain_fixed_at_most_max (pre post : List Setter) (n : Nat) (hpost : ∀ s ∈ post, s.slot ≠ 0)
    (r : List Char) (ops : List Op) (c : Nat) :
    (callsOf c (run { build (pre ++ .maxA n :: post) with rdy := r } ops).log).length ≤ max 1 n := by
  obtain ⟨⟨hm, hd⟩, _⟩ := builder_max_attempts_last_wins pre post n hpost
  have hm' : ({ build (pre ++ .maxA n :: post) with rdy := r } : Cfg).max = n := hm
  have hd' : ({ build (pre ++ .maxA n :: post) with rdy := r } : Cfg).dyn = false := hd
  cases h : lookup (run { build (pre ++ .maxA n :: post) with rdy := r } ops).callers c with
  | none => simp [no_calls_without_request _ ops c h]
  | some cl =>
    obtain ⟨ma, hma⟩ := maxA_origin _ ops c cl h
    have := at_most_max _ ops c cl h
    rw [hma, hd', hm'] at this
    simpa using this

/-- … and for the layer built with `max_attempts_fn(f)` last (any fixed limits before it): a request that arrives
carrying `ma` (none: the extractor's default `d`) is invoked at most `max(1, ma)` times, at least once when it has a
result. -/
theorem chain_per_request_at_most_max (pre post : List Setter) (d : Nat) (hpost : ∀ s ∈ post, s.slot ≠ 0)
    (r : List Char) (before after : List Op) (c : Nat) (ma : Option Nat) (plan : List Step)
    (hnew : lookup (run { build (pre ++ .maxFn d :: post) with rdy := r } before).callers c = none) :
    (callsOf c (run { build (pre ++ .maxFn d :: post) with rdy := r } (before ++ .arrive c ma plan :: after)).log).length
      ≤ max 1 (ma.getD d) := by
  obtain ⟨_, ⟨hm, hd⟩, _⟩ := builder_max_attempts_last_wins pre post d hpost
  have hm' : ({ build (pre ++ .maxFn d :: post) with rdy := r } : Cfg).max = d := hm
  have hd' : ({ build (pre ++ .maxFn d :: post) with rdy := r } : Cfg).dyn = true := hd
  obtain ⟨cl, hl, hma, _⟩ := max_attempts_fixed_at_arrival _ before after c ma plan hnew
  have := at_most_max _ _ c cl hl
  rw [hma, hd', hm'] at this
  simpa using this

/-! ## non-vacuity: concrete runs -/

/-- err1 retryable, err2 not; back-off 5·2^k ms; token bucket with a single token -/
def cfgEx : Cfg :=
  { max := 3, pred := fun k => k == 1, backoff := fun k => 5000 * 2 ^ k,
    budget := some (bucket 1), b0 := ⟨1, 1⟩ }

/-- Two requests share the one-token bucket: request 1 gets the grant and retries exactly
`backoff 0 = 5` ms after its failure (not at 4 ms), request 2 is refused and returns its first
error; request 1's second failure finds the bucket empty and returns the last error (serial 2);
request 3 succeeds at once, deposits, and request 4 can retry again and stops at the refused err2. -/
example :
    (run cfgEx [.arrive 1 none [⟨0, .err 1⟩, ⟨0, .err 1⟩, ⟨0, .ok⟩], .arrive 2 none [⟨0, .err 1⟩, ⟨0, .ok⟩],
       .poll 1 [], .poll 2 [], .adv 4, .poll 1 [], .adv 1, .poll 1 [],
       .arrive 3 none [⟨0, .ok⟩], .poll 3 [],
       .arrive 4 none [⟨2, .err 1⟩, ⟨0, .err 2⟩, ⟨0, .ok⟩], .poll 4 [], .adv 2, .poll 4 [], .adv 5, .poll 4 []]).log
    = [(0, .innerCall 1 0), (0, .innerDone 1 0 (.err 1)), (0, .withdraw 1 true),
       (0, .innerCall 2 1), (0, .innerDone 2 1 (.err 1)), (0, .withdraw 2 false), (0, .result 2 (.inner 1 1)),
       (5, .innerCall 1 2), (5, .innerDone 1 2 (.err 1)), (5, .withdraw 1 false), (5, .result 1 (.inner 1 2)),
       (5, .innerCall 3 3), (5, .innerDone 3 3 .ok), (5, .result 3 (.ok 3)),
       (5, .innerCall 4 4), (7, .innerDone 4 4 (.err 1)), (7, .withdraw 4 true),
       (12, .innerCall 4 5), (12, .innerDone 4 5 (.err 2)), (12, .result 4 (.inner 2 5))] := by decide

/-- the operations of the first example above (two requests share the one-token bucket, …) -/
def opsEx : List Op :=
  [.arrive 1 none [⟨0, .err 1⟩, ⟨0, .err 1⟩, ⟨0, .ok⟩], .arrive 2 none [⟨0, .err 1⟩, ⟨0, .ok⟩],
   .poll 1 [], .poll 2 [], .adv 4, .poll 1 [], .adv 1, .poll 1 [],
   .arrive 3 none [⟨0, .ok⟩], .poll 3 [],
   .arrive 4 none [⟨2, .err 1⟩, ⟨0, .err 2⟩, ⟨0, .ok⟩], .poll 4 [], .adv 2, .poll 4 [], .adv 5, .poll 4 []]

/-- **the timestamped log, request by request** (`request_lines_of_the_log`): request 1 — a closed block (call, failure, grant,
all at 0), then the final attempt at 5: call, failure, refusal, result (hypotheses of `result_is_the_last_inner_done_line` and
`a_refusal_ends_the_request`: the `result` and the `refused` line are in the log); request 4 — the failure is observed at 7,
the grant stands right there, the retry's `inner_call` follows at 12 = 7 + 5 ms (`every_retry_is_preceded_by_its_grant`,
`consecutive_inner_calls_wait_the_backoff`); request 2 — refused at once -/
example :
    linesOf 1 (run cfgEx opsEx).log
      = [(0, .innerCall 1 0), (0, .innerDone 1 0 (.err 1)), (0, .withdraw 1 true),
         (5, .innerCall 1 2), (5, .innerDone 1 2 (.err 1)), (5, .withdraw 1 false), (5, .result 1 (.inner 1 2))] ∧
    linesOf 4 (run cfgEx opsEx).log
      = [(5, .innerCall 4 4), (7, .innerDone 4 4 (.err 1)), (7, .withdraw 4 true),
         (12, .innerCall 4 5), (12, .innerDone 4 5 (.err 2)), (12, .result 4 (.inner 2 5))] ∧
    linesOf 2 (run cfgEx opsEx).log
      = [(0, .innerCall 2 1), (0, .innerDone 2 1 (.err 1)), (0, .withdraw 2 false), (0, .result 2 (.inner 1 1))] := by
  decide

/-- … and their budget lines (`budget_lines_are_the_grants`): request 1 was granted once, then refused -/
example :
    withdrawsOf 1 (run cfgEx opsEx).log = [true, false] ∧ withdrawsOf 2 (run cfgEx opsEx).log = [false] ∧
    withdrawsOf 3 (run cfgEx opsEx).log = [] ∧ withdrawsOf 4 (run cfgEx opsEx).log = [true] := by decide

example : (5, REv.result 1 (.inner 1 2)) ∈ (run cfgEx opsEx).log := by decide
example : (5, REv.withdraw 1 false) ∈ (run cfgEx opsEx).log := by decide
example :
    ((lookup (run cfgEx opsEx).callers 4).map fun cl => cl.atts.map fun a => (a.idx, a.k, a.start, a.seen, a.wait))
      = some [(1, 5, 12, some 12, 5000), (0, 4, 5, some 7, 0)] := by decide

/-- hypotheses of `readiness_error_refunds_nothing`: the back-off (2 ms) has elapsed, the instance needs no recovery, the
inner service answers the readiness poll with an error — the poll adds the one `result` line, the bucket keeps its 2 of 3
tokens (the one taken for this retry is not refunded), the request holds 1 grant and has made 0 retries -/
example :
    let cfg : Cfg := { max := 4, backoff := fun _ => 2000, budget := some (bucket 3), b0 := ⟨3, 3⟩, rdy := ['e'] }
    let s := run cfg [.arrive 1 none [⟨0, .err 1⟩, ⟨0, .ok⟩], .poll 1 [], .adv 2]
    let s' := stepS cfg s (.poll 1 [])
    ((lookup s.callers 1).map fun cl => (cl.phase, recovered cfg cl.atts s.now)) = some (.sleeping 2, true) ∧ s.now = 2 ∧
    (readyOf s.rdy).1 = false ∧ s.b.tokens = 2 ∧
    s'.log = [(0, .innerCall 1 0), (0, .innerDone 1 0 (.err 1)), (0, .withdraw 1 true), (2, .result 1 readyErr)] ∧
    s'.b.tokens = 2 ∧ s'.deposits = 0 ∧
    ((lookup s'.callers 1).map fun cl => (cl.phase, cl.grants, retries cl)) = some (.unready, [true], 0) := by decide

/-- `max_attempts = 0` still makes one call; a zero back-off retries within the same poll; a
per-request `max_attempts` of 2 stops after two calls although the script would go on. -/
example :
    (run { max := 0, dyn := true, backoff := fun _ => 0 }
      [.arrive 1 none [⟨0, .err 1⟩, ⟨0, .ok⟩], .poll 1 [],
       .arrive 2 (some 2) [⟨0, .err 1⟩, ⟨0, .err 3⟩, ⟨0, .ok⟩], .poll 2 []]).log
    = [(0, .innerCall 1 0), (0, .innerDone 1 0 (.err 1)), (0, .result 1 (.inner 1 0)),
       (0, .innerCall 2 1), (0, .innerDone 2 1 (.err 1)), (0, .innerCall 2 2), (0, .innerDone 2 2 (.err 3)),
       (0, .result 2 (.inner 3 2))] := by decide

/-- the hypotheses of the per-request theorems are met by a request in mid-flight (sleeping) -/
example :
    (lookup (run cfgEx [.arrive 7 none [⟨0, .err 1⟩, ⟨0, .err 1⟩], .poll 7 []]).callers 7).map
      (fun cl => (cl.phase, cl.sleeps, cl.grants, cl.atts.length))
    = some (.sleeping 5, [5000], [true], 1) := by decide

/-- Back-offs that are not whole milliseconds (`fn:900,1500,2001` µs), inner call failing at once:
the 900 µs back-off is waited (no retry in the first poll, none possible before t = 1 ms), the retry
after 1.5 ms starts at 1 + 2 = 3 ms (a poll at 2 ms does nothing), the one after 2.001 ms at 3 + 3 = 6 ms. -/
example :
    ((run { max := 4, backoff := fun k => [900, 1500, 2001].getD k 0 }
      [.arrive 1 none [⟨0, .err 1⟩, ⟨0, .err 1⟩, ⟨0, .err 1⟩, ⟨0, .ok⟩], .poll 1 [], .adv 1, .poll 1 [],
       .adv 1, .poll 1 [], .adv 1, .poll 1 [], .adv 2, .poll 1 [], .adv 1, .poll 1 []]).callers.map
        (fun p => ((p.2.atts.map (·.start)).reverse, p.2.sleeps.reverse, p.2.result)))
    = [([0, 1, 3, 6], [900, 1500, 2001], some (.ok 3))] := by decide

/-- a `Duration::MAX` back-off never ends (here: not after 10^12 ms), a zero one does not wait -/
example :
    ((run { max := 3, backoff := fun k => [0, durMaxUs].getD k 0 }
      [.arrive 1 none [⟨0, .err 1⟩, ⟨0, .err 1⟩, ⟨0, .ok⟩], .poll 1 [], .adv 1000000000000, .poll 1 []]).callers.map
        (fun p => ((p.2.atts.map (·.start)).reverse, p.2.phase)))
    = [([0, 0], .sleeping (2 ^ 64 * 1000))] := by decide

/-- a jittered policy (`ExponentialRandomBackoff`, 1 s ×2, factor 50 %, no maximum, as the line protocol builds it):
the envelope for retry 0 is [0.5 s, 1.5 s] (± the float tolerance), for retry 1 [1 s, 3 s]; the observed answers
(`poll … @d=<ns>`) 731 ms and 2.9 s are slept as they are — the retries start at 731 ms and 731 + 2900 ms, not before —,
and nothing is flagged -/
example :
    let iv : Ivl := { init := 1000000000, pct := some 50 }
    let cfg : Cfg := { max := 3, backoff := iv.lo, spread := iv.sp }
    (iv.lo 0, iv.lo 0 + iv.sp 0, iv.lo 1, iv.lo 1 + iv.sp 1) = (500000, 1500001, 1000000, 3000001) ∧
    ((run cfg [.arrive 1 none [⟨0, .err 1⟩, ⟨0, .err 1⟩, ⟨0, .ok⟩], .poll 1 [731000000], .adv 730, .poll 1 [],
               .adv 1, .poll 1 [2900000000], .adv 2899, .poll 1 [], .adv 1, .poll 1 []]).callers.map
        (fun p => ((p.2.atts.map (·.start)).reverse, p.2.sleeps.reverse, p.2.result)))
      = [([0, 731, 3631], [731000, 2900000], some (.ok 2))] ∧
    (run cfg [.arrive 1 none [⟨0, .err 1⟩, ⟨0, .ok⟩], .poll 1 [731000000]]).log
      = [(0, .innerCall 1 0), (0, .innerDone 1 0 (.err 1))] := by decide

/-- **a saturated jittered back-off is never "no back-off"**: `ExponentialRandomBackoff::new(Duration::MAX, 0.0)` has the
envelope [`Duration::MAX` − tolerance, `Duration::MAX`]; an interval function answering 0 for it (the seeded change
C05-w5m1) is flagged (`choice-not-allowed`), and the model does not retry: it sleeps (at least) the least allowed
delay, more than 2^63 s; the answer `Duration::MAX` itself is accepted and slept -/
example :
    let iv : Ivl := { init := durMaxNs, pct := some 0 }
    let cfg : Cfg := { max := 3, backoff := iv.lo, spread := iv.sp }
    2 ^ 63 * 1000000 ≤ iv.lo 0 ∧ iv.lo 0 + iv.sp 0 = durMaxUs ∧
    (run cfg [.arrive 1 none [⟨0, .err 1⟩, ⟨0, .ok⟩], .poll 1 [0], .adv 1000000000000, .poll 1 []]).log
      = [(0, .innerCall 1 0), (0, .innerDone 1 0 (.err 1)), (0, .raw "choice-not-allowed")] ∧
    (run cfg [.arrive 1 none [⟨0, .err 1⟩, ⟨0, .ok⟩], .poll 1 [durMaxNs], .adv 1000000000000, .poll 1 []]).log
      = [(0, .innerCall 1 0), (0, .innerDone 1 0 (.err 1))] ∧
    ((run cfg [.arrive 1 none [⟨0, .err 1⟩, ⟨0, .ok⟩], .poll 1 [durMaxNs]]).callers.map (·.2.sleeps)) = [[durMaxUs]] := by
  decide

/-- the inner service fails the readiness poll before the second retry (script "re"; 'p' = pending, polled again at
once): request 1 makes two calls, sleeps its second back-off and ends with the readiness error — no third call, the
budget token taken for that retry is not refunded; request 2, after it, finds the script exhausted (ready) -/
example :
    let cfg : Cfg := { max := 4, backoff := fun _ => 2000, budget := some (bucket 3), b0 := ⟨3, 3⟩, rdy := ['r', 'p', 'e'] }
    let s := run cfg [.arrive 1 none [⟨0, .err 1⟩, ⟨0, .err 1⟩, ⟨0, .ok⟩], .poll 1 [], .adv 2, .poll 1 [], .adv 2, .poll 1 [],
                      .arrive 2 none [⟨0, .err 1⟩, ⟨0, .ok⟩], .poll 2 [], .adv 2, .poll 2 []]
    s.log = [(0, .innerCall 1 0), (0, .innerDone 1 0 (.err 1)), (0, .withdraw 1 true),
             (2, .innerCall 1 1), (2, .innerDone 1 1 (.err 1)), (2, .withdraw 1 true), (4, .result 1 readyErr),
             (4, .innerCall 2 2), (4, .innerDone 2 2 (.err 1)), (4, .withdraw 2 true),
             (6, .innerCall 2 3), (6, .innerDone 2 3 .ok), (6, .result 2 (.ok 3))] ∧
    s.b.tokens = 1 ∧ s.callers.map (fun p => (p.1, p.2.phase)) = [(2, .done), (1, .unready)] := by decide

/-- readiness that pends delays the retry, never the other way round: the service instance needs 5 ms after each call
(`recov := 5`), the back-off is 2 ms; attempt 0 starts at 0 and fails at 1, the back-off ends at 3 — a poll then does
nothing —, the instance has recovered at 5: the retry starts at 5, not before; with a back-off longer than the recovery
(10 ms) it is the back-off that decides -/
example :
    ((run { max := 3, backoff := fun _ => 2000, recov := 5 }
        [.arrive 1 none [⟨1, .err 1⟩, ⟨0, .ok⟩], .poll 1 [], .adv 1, .poll 1 [], .adv 2, .poll 1 [], .adv 1, .poll 1 [],
         .adv 1, .poll 1 []]).callers.map (fun p => ((p.2.atts.map (·.start)).reverse, p.2.result))) = [([0, 5], some (.ok 1))] ∧
    ((run { max := 3, backoff := fun _ => 10000, recov := 5 }
        [.arrive 1 none [⟨1, .err 1⟩, ⟨0, .ok⟩], .poll 1 [], .adv 1, .poll 1 [], .adv 9, .poll 1 [], .adv 1, .poll 1 []]
      ).callers.map (fun p => ((p.2.atts.map (·.start)).reverse, p.2.result))) = [([0, 11], some (.ok 1))] := by decide

/-- an arbitrary sequence of grant answers is a budget: here the answers `true, false` scripted
through the token counter -/
example :
    (run { max := 5, backoff := fun _ => 0,
           budget := some { withdraw := fun b => ([true, false].getD b.tokens false, { b with tokens := b.tokens + 1 }),
                            deposit := fun b => b } }
      [.arrive 1 none [⟨0, .err 1⟩, ⟨0, .err 1⟩, ⟨0, .err 1⟩], .poll 1 []]).log
    = [(0, .innerCall 1 0), (0, .innerDone 1 0 (.err 1)), (0, .withdraw 1 true),
       (0, .innerCall 1 1), (0, .innerDone 1 1 (.err 1)), (0, .withdraw 1 false), (0, .result 1 (.inner 1 1))] := by decide

/-- the builder: `max_attempts_fn(|_| 5) … .max_attempts(2)` is a layer with the fixed limit 2 (two calls, not five,
whatever the request carries); the other order is per request (the request's 4, the extractor's 5 without one); a repeated
setter overrides; the back-off given last (zero) is the one slept; the empty chain has the defaults -/
example :
    let bo0 : Setter := .backoff fun _ => 0
    let script : List Step := [⟨0, .err 1⟩, ⟨0, .err 1⟩, ⟨0, .err 1⟩, ⟨0, .err 1⟩, ⟨0, .err 1⟩, ⟨0, .err 1⟩]
    let ops := [Op.arrive 1 none script, .poll 1 [], .arrive 2 (some 4) script, .poll 2 []]
    let calls := fun (chain : List Setter) => (1, 2) |> fun (a, b) =>
      ((callsOf a (run (build chain) ops).log).length, (callsOf b (run (build chain) ops).log).length)
    calls [.maxFn 5, .backoff (fun _ => 7000), bo0, .maxA 2] = (2, 2) ∧
    calls [.maxA 2, bo0, .maxFn 5] = (5, 4) ∧
    calls [.maxA 7, .maxFn 6, bo0, .maxA 0, .pred (fun _ => true)] = (1, 1) ∧
    calls [bo0, .maxA 1, .maxA 4] = (4, 4) ∧
    calls [.pred (fun _ => false), bo0, .maxA 6, .pred (fun k => k == 1)] = (6, 6) ∧
    ((build []).max, (build []).dyn, (build []).backoff 2, (build []).budget.isSome) = (3, false, 400000, false) := by
  decide

end TR.Props.C05
