import TR.Lemmas.Backoff
import TR.Lemmas.BackoffFloat
/-!
# C14 — back-off delays are total, monotone and capped

(A) theorems about `ideal`, the delay in exact arithmetic: for **every** attempt number (no
bound; attempts above `i32::MAX` use the clamped exponent exactly as the code does), every
initial interval, every multiplier `num/den ≥ 1`, every cap (absent = `Duration::MAX`, below /
equal / above the initial interval), and every `ReconnectPolicy` / interval function built on it.

(B) the code itself, transcribed over an abstract arithmetic (`nextInterval`, `randomizeFull`, `Policy.delayForAttempt`):
* `total_over_any_arithmetic`: never the panic branch, never above the cap, for every arithmetic with the four laws
  of `FloatLike`;
* **(B) = (A) on exact arithmetic**: `code_is_ideal_natArith`, `code_is_ideal_ratArith` — on exact naturals / exact
  rationals (fractional multipliers, the only rounding being the floor of `from_secs_f64`) the code computes `ideal`;
* under the named hypothesis structure `F64Laws` (what is assumed of binary64 — `powi` monotone in the exponent for a
  multiplier ≥ 1, exact for powers of two, …): `float_monotone`, and `float_exact_in_exact_region` (no tolerance: the
  code equals `ideal` wherever the initial interval and the maximum are exactly representable seconds and the
  multiplier is a power of two); the checker demands exactly that there (`exact_region_choice_sound`) and holds every
  other observed value against the cap, the envelope and monotonicity (`accepted_observations_monotone`);
* under `JitterLaws`: `jitter_range_well_formed` (the range handed to `rand::Rng::random_range` has finite bounds,
  `lo ≤ hi`, a finite width — for every attempt and every configuration the constructors accept), `randomize_total`,
  `randomize_within_bounds`, `jitter_code_within_factor_ratArith` ((B) = (A) for the jitter, any rational factor);
* `interval_function_total`, `delay_for_attempt_total`, `loop_never_crashes`, `loop_runs_forever`: the last clause of
  the property; `reconnect_policy_*`: `ReconnectPolicy::delay_for_attempt`, zero / sub-millisecond delays included.
The laws are hypotheses, not axioms: `laws_consistent` exhibits an arithmetic with overflow, +∞ and NaN satisfying all
of them. That binary64 satisfies them is what the correspondence check samples. `TR.Mutants.Backoff*`: the pinned code
and the seeded changes C14-w5m1 / C14-w5m2, transcribed the same way, provably violate these statements.
-/
namespace TR.Props.C14
open TR TR.Backoff

/-- **Non-decreasing in the attempt number**, for all attempts up to and beyond `usize::MAX`. -/
theorem ideal_monotone (cfg : Cfg) (hv : cfg.Valid) (a b : Nat) (h : a ≤ b) : ideal cfg a ≤ ideal cfg b :=
  ideal_mono cfg hv h

/-- **Never above `max_interval`** (or `Duration::MAX` when no maximum is configured). -/
theorem ideal_capped (cfg : Cfg) (a : Nat) : ideal cfg a ≤ cfg.capNs :=
  ideal_capped_aux cfg a

/-- … hence never beyond what a `Duration` can hold: no overflow for any attempt. -/
theorem ideal_no_overflow (cfg : Cfg) (a : Nat) (hc : ∀ c, cfg.cap = some c → c ≤ durMax) :
    ideal cfg a ≤ durMax :=
  ideal_no_overflow_aux cfg a hc

/-- **Equal to `initial × multiplier^attempt` until that reaches the cap**: below the cap the delay
is exactly `⌊initial · (num/den)^e⌋`, `e` the (clamped) attempt: the unique `n` with
`n · den^e ≤ initial · num^e < (n+1) · den^e`. -/
theorem ideal_exact_below_cap (cfg : Cfg) (hv : cfg.Valid) (a : Nat) (h : raw cfg a < cfg.capNs) :
    ideal cfg a = cfg.initial * cfg.num ^ expo a / cfg.den ^ expo a ∧
    ideal cfg a * cfg.den ^ expo a ≤ cfg.initial * cfg.num ^ expo a ∧
    cfg.initial * cfg.num ^ expo a < (ideal cfg a + 1) * cfg.den ^ expo a :=
  ideal_exact_below_cap_aux cfg hv a h

/-- the exponent is the attempt itself for all attempts up to `i32::MAX` … -/
theorem exponent_is_attempt (a : Nat) (h : a ≤ i32Max) : expo a = a := expo_of_le h

/-- … and from `i32::MAX` on (up to `usize::MAX` and beyond) the delay no longer changes. -/
theorem ideal_constant_beyond_i32 (cfg : Cfg) (a : Nat) (h : i32Max ≤ a) : ideal cfg a = ideal cfg i32Max :=
  ideal_constant_beyond_i32_aux cfg a h

/-- **Never above the cap afterwards — and exactly the cap**: once the exact product has reached the
cap it stays there for every later attempt. -/
theorem ideal_cap_reached_forever (cfg : Cfg) (hv : cfg.Valid) (a b : Nat) (h : cfg.capNs ≤ raw cfg a)
    (hab : a ≤ b) : ideal cfg b = cfg.capNs :=
  ideal_cap_reached_forever_aux cfg hv a b h hab

/-- a cap at or below the initial interval: every attempt yields the cap -/
theorem ideal_cap_below_initial (cfg : Cfg) (hv : cfg.Valid) (h : cfg.capNs ≤ cfg.initial) (a : Nat) :
    ideal cfg a = cfg.capNs :=
  ideal_cap_below_initial_aux cfg hv h a

/-- a zero initial interval: every attempt yields zero -/
theorem ideal_zero_initial (cfg : Cfg) (h : cfg.initial = 0) (a : Nat) : ideal cfg a = 0 :=
  ideal_zero_initial_aux cfg h a

/-- **Jittered variants stay within the randomization factor** of the capped value `x`: for every
factor `pct/100 ∈ [0,1]` and every random point `r/s ∈ [0,1]`,
`x·(1−f) ≤ jittered ≤ x·(1+f) ≤ 2·x`, and the un-jittered value lies inside the same interval. -/
theorem jitter_envelope (x pct r s : Nat) (hp : pct ≤ 100) (hr : r ≤ s) :
    jitterLo x pct ≤ jittered x pct r s ∧ jittered x pct r s ≤ jitterHi x pct ∧
    jitterLo x pct ≤ x ∧ x ≤ jitterHi x pct ∧ jitterHi x pct ≤ 2 * x :=
  ⟨(jittered_bounds x pct r s hr).1, (jittered_bounds x pct r s hr).2, jitterLo_le x pct,
   le_jitterHi x pct, jitterHi_le x pct hp⟩

/-- jittered exponential back-off never exceeds twice the cap, for every attempt -/
theorem jittered_ideal_bounded (cfg : Cfg) (a pct r s : Nat) (hp : pct ≤ 100) (hr : r ≤ s) :
    jittered (ideal cfg a) pct r s ≤ 2 * cfg.capNs :=
  jittered_ideal_bounded_aux cfg a pct r s hp hr

/-- **Every `ReconnectPolicy` / interval function built on them** (none, fixed, exponential,
randomised — the latter before jitter): the delay never exceeds the policy's bound … -/
theorem policy_capped (k : Kind) (a v : Nat) (h : k.base a = some v) : v ≤ k.bound :=
  policy_capped_aux k a v h

/-- … and is non-decreasing in the attempt number. -/
theorem policy_monotone (k : Kind) (hv : KindValid k) (a b va vb : Nat) (hab : a ≤ b)
    (ha : k.base a = some va) (hb : k.base b = some vb) : va ≤ vb :=
  policy_monotone_aux k hv a b va vb hab ha hb

/-- The early-exit evaluation run by the model driver computes exactly `ideal`. -/
theorem driver_computes_ideal (cfg : Cfg) (hv : cfg.Valid) (a : Nat) : idealExec cfg a = ideal cfg a :=
  idealExec_eq cfg hv a

/-- What the correspondence check accepts as the implementation's value for an un-jittered kind
("every allowed choice"): at most the cap, and within `2^-40` relative + 1 ns of `ideal`. -/
theorem allowed_choice_sound (cfg : Cfg) (hv : cfg.Valid) (a v : Nat) (h : allowedExp cfg a v = true) :
    v ≤ cfg.capNs ∧ v ≤ ideal cfg a + tolE (ideal cfg a) (effExp cfg a) ∧ ideal cfg a ≤ v + tolE (ideal cfg a) (effExp cfg a) :=
  allowed_choice_sound_aux cfg hv a v h

/-- (B) **Total over any arithmetic**: the repaired `capped_exponential` returns a duration — it
never reaches `Duration::from_secs_f64` outside its domain, i.e. never panics — and that duration
is at most the cap, for every attempt, every initial interval, every multiplier (including NaN,
∞, negative, < 1: `mult` is arbitrary), and every arithmetic `fl` satisfying the laws of `FloatLike`. -/
theorem total_over_any_arithmetic (fl : FloatLike) (initial : Nat) (mult : fl.F) (attempt : Nat)
    (max : Option Nat) (hmax : ∀ c, max = some c → c ≤ durMax) :
    ∃ d, nextInterval fl initial mult attempt max = .dur d ∧ d ≤ max.getD durMax :=
  nextInterval_total fl initial mult attempt max hmax

/-- (B) the jitter step never panics either, whatever value the random range produced. -/
theorem randomize_total_over_any_arithmetic (fl : FloatLike) (r : fl.F) : ∃ d, randomize fl r = .dur d :=
  randomize_total fl r

/-- The laws are consistent: `natArith` (exact naturals with ∞) is an instance, and on it the
repaired code maps the defect witness (100 ms, ×2, cap 5 s, attempt 68) to the cap, while the
pinned code (`nextIntervalCapAfter`: convert first, cap afterwards) panics on it. -/
theorem laws_consistent_and_witness :
    nextInterval natArith 100000000 (some 2) 68 (some 5000000000) = .dur 5000000000 ∧
    nextIntervalCapAfter natArith 100000000 (some 2) 68 (some 5000000000) = .panic := by
  decide

/-! ## the builder: `new(initial)` followed by any chain of `multiplier(..)` / `max_interval(..)` -/

/-- **Only the last value of each setting counts**: whatever the order and however often setters are
repeated, the configuration a chain builds is the fresh one (`×2`, no maximum) with the multiplier
replaced by the one set last (if any) and the maximum by the one set last (if any). -/
theorem builder_depends_only_on_last (i : Nat) (chain : List Setter) :
    build i chain = ofLast (newCfg i) (lastMult chain) (lastCap chain) :=
  build_last i chain

/-- … so two chains with the same last multiplier and the same last maximum build the same back-off. -/
theorem builder_same_last_same_backoff (i : Nat) (l₁ l₂ : List Setter) (hm : lastMult l₁ = lastMult l₂)
    (hc : lastCap l₁ = lastCap l₂) : build i l₁ = build i l₂ := by
  rw [build_last, build_last, hm, hc]

/-- **`multiplier` last wins**, wherever `max_interval` setters (or earlier `multiplier`s) stand:
before it, after it, or on both sides. The initial interval is never touched. -/
theorem builder_multiplier_last_wins (i p q : Nat) (pre post : List Setter) (h : ∀ s ∈ post, s.isMult = false) :
    (build i (pre ++ .mult p q :: post)).num = p ∧ (build i (pre ++ .mult p q :: post)).den = q ∧
    (build i (pre ++ .mult p q :: post)).initial = i := by
  rw [build_last, lastMult_append_cons pre post p q h]
  exact ⟨rfl, rfl, rfl⟩

/-- **`max_interval` last wins**, wherever the `multiplier` setters stand. -/
theorem builder_max_interval_last_wins (i c : Nat) (pre post : List Setter) (h : ∀ s ∈ post, s.isMult = true) :
    (build i (pre ++ .cap c :: post)).cap = some c ∧ (build i (pre ++ .cap c :: post)).capNs = c := by
  rw [build_last, lastCap_append_cons pre post c h]
  exact ⟨rfl, rfl⟩

/-- defaults: without a `multiplier` setter the multiplier is 2, without a `max_interval` setter there is no maximum -/
theorem builder_defaults (i : Nat) (chain : List Setter) :
    (build i chain).initial = i ∧
    ((∀ s ∈ chain, s.isMult = false) → (build i chain).num = 2 ∧ (build i chain).den = 1) ∧
    ((∀ s ∈ chain, s.isMult = true) → (build i chain).cap = none ∧ (build i chain).capNs = durMax) := by
  rw [build_last]
  refine ⟨rfl, fun h => ?_, fun h => ?_⟩
  · rw [lastMult_none_of chain h]; exact ⟨rfl, rfl⟩
  · rw [lastCap_none_of chain h]; exact ⟨rfl, rfl⟩

/-- **Order-independence of distinct setters**: a `multiplier` and a `max_interval` standing next to each
other anywhere in a chain may be exchanged. -/
theorem builder_distinct_setters_commute (i : Nat) (pre post : List Setter) (s t : Setter) (h : s.isMult ≠ t.isMult) :
    build i (pre ++ s :: t :: post) = build i (pre ++ t :: s :: post) :=
  builder_same_last_same_backoff i _ _ (last_swap pre post s t h).1 (last_swap pre post s t h).2

/-- a setter immediately repeated: only the second call counts -/
theorem builder_repeated_setter_overrides (i : Nat) (pre post : List Setter) (s t : Setter) (h : s.isMult = t.isMult) :
    build i (pre ++ s :: t :: post) = build i (pre ++ t :: post) :=
  builder_same_last_same_backoff i _ _ (last_override pre post s t h).1 (last_override pre post s t h).2

/-- **The delay clause for a back-off given by its chain**: with `p/q ≥ 1` the multiplier set last and `c`
the maximum set last (in either order, whatever was set before and overridden), the delay equals
`⌊initial · (p/q)^attempt⌋` for as long as that is below `c`, is exactly `c` from then on, and is
non-decreasing — with the multiplier set last, not the one in force when the maximum was set. -/
theorem chain_delay (i p q c : Nat) (chain : List Setter) (hq : 0 < q) (hpq : q ≤ p)
    (hm : lastMult chain = some (p, q)) (hc : lastCap chain = some c) (a : Nat) :
    (i * p ^ expo a / q ^ expo a < c → ideal (build i chain) a = i * p ^ expo a / q ^ expo a) ∧
    (c ≤ i * p ^ expo a / q ^ expo a → ∀ b, a ≤ b → ideal (build i chain) b = c) ∧
    (∀ b, a ≤ b → ideal (build i chain) a ≤ ideal (build i chain) b) := by
  have hb : build i chain = { initial := i, num := p, den := q, cap := some c } := by
    rw [build_last, hm, hc]; rfl
  rw [hb]
  have hv : Cfg.Valid { initial := i, num := p, den := q, cap := some c } := ⟨hq, hpq⟩
  exact ⟨fun h => (ideal_exact_below_cap_aux _ hv a h).1,
         fun h b hab => ideal_cap_reached_forever_aux _ hv a b h hab,
         fun b hab => ideal_mono _ hv hab⟩

/-- the two orders of the seeded example, anywhere in a chain: the same delay for every attempt -/
theorem delay_independent_of_setter_order (i p q c : Nat) (pre post : List Setter) (a : Nat) :
    ideal (build i (pre ++ .cap c :: .mult p q :: post)) a = ideal (build i (pre ++ .mult p q :: .cap c :: post)) a := by
  rw [builder_distinct_setters_commute i pre post (.cap c) (.mult p q) (by simp [Setter.isMult])]

/-! ## (B) = (A): the transcribed code computes `ideal` wherever no rounding occurs -/

/-- **On exact naturals** (`natArith`: every operation exact, natural multiplier `m`, including 0): for every initial
interval, attempt and maximum that is a `Duration`, `capped_exponential` returns exactly `ideal`. The side condition
`c ≤ Duration::MAX` is what makes `from_secs_f64` defined below the cap; nothing else is needed. -/
theorem code_is_ideal_natArith (i m a : Nat) (cap : Option Nat) (hc : ∀ c, cap = some c → c ≤ durMax) :
    nextInterval natArith i (some m) a cap = .dur (ideal { initial := i, num := m, den := 1, cap := cap } a) :=
  nextInterval_natArith_eq_ideal i m a cap hc

/-- **On exact rationals** (`ratArith`: fractional multipliers `num/den`, no overflow, the only rounding is the floor in
`from_secs_f64`): the code returns exactly `ideal cfg a = min ⌊initial·(num/den)^e⌋ cap`, for every valid configuration. -/
theorem code_is_ideal_ratArith (cfg : Cfg) (hv : cfg.Valid) (hc : ∀ c, cfg.cap = some c → c ≤ durMax) (a : Nat) :
    nextInterval ratArith cfg.initial (.q cfg.num cfg.den) a cfg.cap = .dur (ideal cfg a) :=
  nextInterval_ratArith_eq_ideal cfg hv hc a

/-- … and where `den^e` divides `initial·num^e` (e.g. every whole-number multiplier) not even that floor rounds:
below the cap the delay times `den^e` is `initial·num^e` on the nose. -/
theorem ideal_no_rounding (cfg : Cfg) (hv : cfg.Valid) (a : Nat) (h : raw cfg a < cfg.capNs)
    (hdiv : cfg.den ^ expo a ∣ cfg.initial * cfg.num ^ expo a) :
    ideal cfg a * cfg.den ^ expo a = cfg.initial * cfg.num ^ expo a := by
  rw [(ideal_exact_below_cap_aux cfg hv a h).1]
  exact Nat.div_mul_cancel hdiv

/-! ## the float instance: what is assumed of binary64 (`F64Laws`), and what follows -/

/-- **Non-decreasing in the attempt number — the code itself**, over every arithmetic satisfying `F64Laws` (in
particular: `powi` monotone in the exponent for a multiplier ≥ 1, multiplication and `from_secs_f64` monotone), for all
attempts, every initial interval, every multiplier `≥ 1` and every maximum. -/
theorem float_monotone (fl : FloatLike) (O : FloatOps fl) (L : F64Laws fl O) (i : Nat) (m : fl.F) (mx : Option Nat)
    (hi : i ≤ durMax) (hmax : ∀ c, mx = some c → c ≤ durMax) (hm : fl.le O.one m = true) (a b : Nat) (hab : a ≤ b) :
    ∃ da db, nextInterval fl i m a mx = .dur da ∧ nextInterval fl i m b mx = .dur db ∧ da ≤ db ∧ db ≤ mx.getD durMax := by
  obtain ⟨da, ha, _⟩ := nextInterval_total fl i m a mx hmax
  obtain ⟨db, hb, hbc⟩ := nextInterval_total fl i m b mx hmax
  exact ⟨da, db, ha, hb, nextInterval_mono fl O L i m mx hi hmax hm hab ha hb, hbc⟩

/-- **Exact on the exact region — the code itself**: when the initial interval and the maximum are numbers of seconds
binary64 represents exactly (`exactRegion`) and the multiplier is `2^j`, every `f64` operation of `capped_exponential`
is exact under `F64Laws`, and the result is `ideal` with no tolerance at all: `initial × multiplier^attempt` until
that reaches the maximum, the maximum afterwards. -/
theorem float_exact_in_exact_region (fl : FloatLike) (O : FloatOps fl) (L : F64Laws fl O) (cfg : Cfg) (j a : Nat)
    (hx : exactRegion cfg = true) (hj : cfg.num = 2 ^ j * cfg.den) (hc : ∀ c, cfg.cap = some c → c ≤ durMax) :
    nextInterval fl cfg.initial (O.pow2 j) a cfg.cap = .dur (ideal cfg a) := by
  obtain ⟨hd, hrep, hce, _⟩ := exactRegion_spec hx
  rw [nextInterval_exact fl O L cfg.initial j a cfg.cap hrep (fun c h => ⟨hc c h, hce c h⟩)]
  unfold ideal
  rw [raw_pow2 cfg j hd hj a]
  rfl

/-- the tolerance of the envelope depends on the EFFECTIVE exponent — the number of factors `m` that decide the answer: never
more than the exponent the code uses … -/
theorem effective_exponent_le (cfg : Cfg) (a : Nat) : effExp cfg a ≤ expo a := effExp_le cfg a

/-- … and when it is smaller (the loop stopped early), the exact value is the cap: attempts beyond the first capped one
get the tolerance of that attempt, not one that grows with the attempt number. -/
theorem effective_exponent_stops_at_cap (cfg : Cfg) (hv : cfg.Valid) (a : Nat) (hm : cfg.num ≠ cfg.den) (hi : cfg.initial ≠ 0)
    (h : effExp cfg a < expo a) : ideal cfg a = cfg.capNs := by
  rw [← idealExec_eq cfg hv, ← idealExecP_fst]
  unfold effExp at h
  unfold idealExecP at h ⊢
  rw [if_neg (by intro hh; rcases hh with hh | hh <;> contradiction)] at h ⊢
  exact goP_stopped _ _ _ _ _ _ _ (by omega)

/-- up to exponent 4092 the tolerance is the `2^-40 + 1 ns` the envelope always had; beyond it grows as `(2e + 8)·2^-53`
(the `f64` multiplier is off by up to `2^-53`, and the power multiplies that by `e`). -/
theorem tolerance_unchanged_up_to_4092 (x e : Nat) (h : e ≤ 4092) : tolE x e = tol x := tolE_eq_tol x e h

/-- "never reaches the cap" contradicts `ideal`: growth by 5 % from 100 ms reaches a one-hour maximum at attempt 216 exactly
(below it at 215), by 1 % at attempt 1055 (below it at 1054, and at 1024 — where the exponent of the seeded change C14-w6m2
stops — it is 2661.26 s); it stays there for ever by `ideal_cap_reached_forever`. The checker's effective exponent at
`usize::MAX` is the first capped attempt, and a value that stopped growing below the cap is rejected. -/
example : ideal { initial := 100000000, num := 21, den := 20, cap := some 3600000000000 } 215 < 3600000000000
    ∧ ideal { initial := 100000000, num := 21, den := 20, cap := some 3600000000000 } 216 = 3600000000000
    ∧ ideal { initial := 100000000, num := 101, den := 100, cap := some 3600000000000 } 1024 = 2661256611730
    ∧ ideal { initial := 100000000, num := 101, den := 100, cap := some 3600000000000 } 1054 < 3600000000000
    ∧ ideal { initial := 100000000, num := 101, den := 100, cap := some 3600000000000 } 1055 = 3600000000000
 := by
  decide +kernel

example : effExp { initial := 100000000, num := 21, den := 20, cap := some 3600000000000 } 18446744073709551615 = 216
    ∧ allowedExp { initial := 100000000, num := 21, den := 20, cap := some 3600000000000 } 300 3600000000000 = true
    ∧ allowedExp { initial := 100000000, num := 21, den := 20, cap := some 3600000000000 } 300 3599999990000 = false := by
  decide +kernel

/-- what the checker accepts inside the exact region is `ideal` itself … -/
theorem exact_region_choice_sound (cfg : Cfg) (a v : Nat) (hx : exactRegion cfg = true) (h : allowedExp cfg a v = true) :
    v = ideal cfg a := by
  unfold allowedExp at h
  rw [hx, idealExec_eq cfg (exactRegion_valid hx)] at h
  simpa using h

/-- … and over a whole run of the checker, whatever the operations: any two observed values it has accepted for one
configuration are ordered like their attempt numbers (the same attempt: the same value). An implementation whose
values are not monotone in the attempt is answered `choice-not-allowed`. -/
theorem accepted_observations_monotone (hdr : Kv) (ops : List (List String)) (cfg : Cfg) (a b v w : Nat)
    (ha : (a, v) ∈ histGet (runM { hdr := hdr } ops).hist cfg) (hb : (b, w) ∈ histGet (runM { hdr := hdr } ops).hist cfg)
    (hab : a ≤ b) : v ≤ w :=
  runM_HistInv ops { hdr := hdr } HistInv_nil cfg (a, v) ha (b, w) hb hab

/-- a probe line that is not answered `choice-not-allowed` has its value in the history (and it was allowed) -/
theorem accepted_observation_recorded (st : St) (ws : List String) (cfg : Cfg) (v : Nat)
    (hk : parseKind (kvMerge st.hdr (parseKv ws)) = .exp cfg) (ho : parseObs ws = .ns v)
    (hacc : (probe st ws).2 ≠ [.raw "choice-not-allowed"]) :
    ((kvMerge st.hdr (parseKv ws)).nat "attempt" 0, v) ∈ histGet (probe st ws).1.hist cfg ∧
    allowedExp cfg ((kvMerge st.hdr (parseKv ws)).nat "attempt" 0) v = true :=
  probe_records st ws cfg v hk ho hacc

/-- **The hypotheses are consistent**: `ovfArith` — integers with overflow to +∞ (at `2^200`), `∞ − ∞ = NaN`,
`0·∞ = NaN` — satisfies `F64Laws` and `JitterLaws`; so do the exact rationals (fractional multipliers and factors;
there `powi` monotone in the exponent for a multiplier ≥ 1 is a theorem, not an assumption). -/
theorem laws_consistent : F64Laws ovfArith ovfOps ∧ JitterLaws ovfArith ovfOps ∧
    F64Laws ratArith ratOps ∧ JitterLaws ratArith ratOps :=
  ⟨ovfF64, ovfJitter, ratF64, ratJitter⟩

/-! ## jitter: the range handed to `random_range`, any factor in `[0,1]` -/

/-- **`random_range` cannot panic**: for every `Duration` `d` (in particular the capped delay of every attempt) and every
stored factor `f ∈ [0,1]`, the range `d − d·f ..= d + d·f` has finite bounds, `lo ≤ hi` (so neither is NaN) and a finite
width — exactly the three conditions under which `rand::Rng::random_range` does not panic. -/
theorem jitter_range_well_formed (fl : FloatLike) (O : FloatOps fl) (J : JitterLaws fl O) (d : Nat) (f : fl.F) (hd : d ≤ durMax)
    (hf0 : fl.le fl.zero f = true) (hf1 : fl.le f O.one = true) :
    rangeOk fl O (jitterRange fl O d f).1 (jitterRange fl O d f).2 = true :=
  jitterRange_ok fl O J d f hd hf0 hf1

/-- **Every configuration the constructor accepts**: `ExponentialRandomBackoff::new(initial, f)` with any `f` that is a
number (finite or infinite, negative or above 1 — `clamp(0.0, 1.0)`), followed by any setters, is well-formed, so the
range is well-formed for every attempt and every draw, and `next_interval` returns a `Duration`. (`f = NaN` survives the
clamp and is outside the property's `[0,1]`.) -/
theorem constructor_accepts (fl : FloatLike) (O : FloatOps fl) (J : JitterLaws fl O) (i : Nat) (f m : fl.F) (mx : Option Nat)
    (hi : i ≤ durMax) (hm : ∀ c, mx = some c → c ≤ durMax) (hf : fl.le f f = true) (a : Nat) (r : fl.F) :
    (IntervalFn.newRand O i f m mx).WF O ∧ ∃ d, (IntervalFn.newRand O i f m mx).next O a r = .dur d ∧ d ≤ durMax :=
  ⟨IntervalFn.newRand_WF O J i f m mx hi hm hf,
   IntervalFn.next_total O J _ (IntervalFn.newRand_WF O J i f m mx hi hm hf) a r⟩

/-- the full `randomize` — range computation included — returns a `Duration` whatever is drawn -/
theorem randomize_total (fl : FloatLike) (O : FloatOps fl) (J : JitterLaws fl O) (d : Nat) (f r : fl.F) (hd : d ≤ durMax)
    (hf0 : fl.le fl.zero f = true) (hf1 : fl.le f O.one = true) : ∃ v, randomizeFull fl O d f r = .dur v ∧ v ≤ durMax :=
  randomizeFull_total fl O J d f r hd hf0 hf1

/-- **Within the randomization factor — the code itself**: a draw inside the range gives a delay between the conversions
of the two bounds `d − d·f` and `d + d·f` (when they are convertible; else `Duration::MAX` bounds it). -/
theorem randomize_within_bounds (fl : FloatLike) (O : FloatOps fl) (J : JitterLaws fl O) (d : Nat) (f r : fl.F) (hd : d ≤ durMax)
    (hf0 : fl.le fl.zero f = true) (hf1 : fl.le f O.one = true) (hin : InRange fl O d f r) (v : Nat)
    (hv : randomizeFull fl O d f r = .dur v) :
    (∀ l, fl.toDur? (jitterRange fl O d f).1 = some l → l ≤ v) ∧
    (∀ h, fl.toDur? (jitterRange fl O d f).2 = some h → v ≤ h) :=
  randomizeFull_envelope fl O J d f r hd hf0 hf1 hin hv

/-- **(B) = (A) for the jitter**: on exact rationals, for every valid configuration, every factor `fn/fd ∈ [0,1]` (any
rational, not only whole percents), every attempt and every draw inside the range, the jittered interval function
returns a delay within `[⌊x(1−f)⌋, ⌊x(1+f)⌋]` of `x = ideal cfg a`, and a `Duration`. -/
theorem jitter_code_within_factor_ratArith (cfg : Cfg) (hv : cfg.Valid) (hc : ∀ c, cfg.cap = some c → c ≤ durMax)
    (fn fd a : Nat) (r : Q) (hfd : 0 < fd) (h : fn ≤ fd) (hin : InRange ratArith ratOps (ideal cfg a) (.q fn fd) r) (v : Nat)
    (hr : (IntervalFn.rand cfg.initial (.q cfg.num cfg.den) (.q fn fd) cfg.cap : IntervalFn ratArith).next ratOps a r = .dur v) :
    jitterLoQ (ideal cfg a) fn fd ≤ v ∧ v ≤ jitterHiQ (ideal cfg a) fn fd ∧ v ≤ durMax :=
  rand_next_ratArith_envelope cfg hv hc fn fd a r hfd h hin hr

/-- **Jittered variants stay within the randomization factor, any factor `fn/fd ∈ [0,1]`** (exact arithmetic): for every
random point `r/s ∈ [0,1]`, `x(1−f) ≤ jittered ≤ x(1+f) ≤ 2x`; the un-jittered value lies inside; a factor 0 changes nothing. -/
theorem jitter_envelope_rational (x fn fd r s : Nat) (hd : 0 < fd) (hf : fn ≤ fd) (hr : r ≤ s) :
    jitterLoQ x fn fd ≤ jitteredQ x fn fd r s ∧ jitteredQ x fn fd r s ≤ jitterHiQ x fn fd ∧
    jitterLoQ x fn fd ≤ x ∧ x ≤ jitterHiQ x fn fd ∧ jitterHiQ x fn fd ≤ 2 * x ∧
    (fn = 0 → jitteredQ x fn fd r s = x) := by
  refine ⟨(jitteredQ_bounds x fn fd r s hd hr).1, (jitteredQ_bounds x fn fd r s hd hr).2, jitterLoQ_le x fn fd,
    le_jitterHiQ x fn fd hd, jitterHiQ_le x fn fd hf, ?_⟩
  intro h0
  subst h0
  have := jitterQ_zero x fd hd
  have hb := jitteredQ_bounds x 0 fd r s hd hr
  omega

/-- the factor the constructor stores (`clamp`) is in `[0,1]`, and an in-range factor is stored unchanged -/
theorem stored_factor_in_unit_interval (fn fd : Nat) :
    (clampFactor fn fd).1 ≤ (clampFactor fn fd).2 ∧ (fn ≤ fd → clampFactor fn fd = (fn, fd)) :=
  ⟨clampFactor_le fn fd, clampFactor_id fn fd⟩

/-- What the correspondence check accepts as the implementation's value for a jittered kind: within the randomization
factor `fn/fd` of `ideal` (± the float tolerance), and a `Duration` — the counterpart of `allowed_choice_sound`. -/
theorem allowed_rand_sound (cfg : Cfg) (hv : cfg.Valid) (fn fd a v : Nat) (h : allowedRand cfg fn fd a v = true) :
    jitterLoQ (ideal cfg a) fn fd ≤ v + tolE (ideal cfg a) (effExp cfg a) + 1 ∧
    v ≤ jitterHiQ (ideal cfg a) fn fd + 2 * tolE (ideal cfg a) (effExp cfg a) + 1 ∧ v ≤ durMax :=
  allowed_rand_sound_aux cfg hv fn fd a v h

/-! ## "retry and reconnect loops can run indefinitely against a dead backend without crashing" -/

/-- **Every built-in interval function is total**: `FixedInterval`, `ExponentialBackoff`, `ExponentialRandomBackoff` as the
public constructors build them return a `Duration` for every attempt and every draw — no panic in `from_secs_f64`, none
in `random_range`. -/
theorem interval_function_total (fl : FloatLike) (O : FloatOps fl) (J : JitterLaws fl O) (f : IntervalFn fl) (h : f.WF O)
    (a : Nat) (r : fl.F) : ∃ d, f.next O a r = .dur d ∧ d ≤ durMax :=
  IntervalFn.next_total O J f h a r

/-- **`ReconnectPolicy::delay_for_attempt` is total**: `None` exactly for `ReconnectPolicy::None`, else `Some` of a `Duration`. -/
theorem delay_for_attempt_total (fl : FloatLike) (O : FloatOps fl) (J : JitterLaws fl O) (p : Policy fl) (h : p.WF O)
    (a : Nat) (r : fl.F) :
    (p = .none ∧ p.delayForAttempt O a r = Option.none) ∨ ∃ d, p.delayForAttempt O a r = some (.dur d) ∧ d ≤ durMax :=
  Policy.delay_total O J p h a r

/-- **The loop never crashes**: a reconnect / retry loop that asks the policy for a delay after each of `n` consecutive
failures (numbered from any `first`: 0 for retry, 1 for reconnect; `n` unbounded) is never in the crashed state, and every
delay it slept is a `Duration`, whatever the random draws. -/
theorem loop_never_crashes (fl : FloatLike) (O : FloatOps fl) (J : JitterLaws fl O) (p : Policy fl) (h : p.WF O)
    (draws : Nat → fl.F) (first n : Nat) :
    outage O p draws first n ≠ .crashed ∧ (outage O p draws first n).Fine := by
  have hf := outage_fine O J p h draws first n
  refine ⟨?_, hf⟩
  intro hc
  rw [hc] at hf
  exact hf

/-- **… and runs indefinitely**: with a policy that reconnects, after `n` failures the loop is still running and has
slept exactly `n` times. -/
theorem loop_runs_forever (fl : FloatLike) (O : FloatOps fl) (J : JitterLaws fl O) (f : IntervalFn fl) (h : f.WF O)
    (draws : Nat → fl.F) (first n : Nat) : ∃ s, outage O (.fn f) draws first n = .running s ∧ s.length = n :=
  outage_running O J f h draws first n

/-! ## `ReconnectPolicy::delay_for_attempt`: zero and sub-millisecond delays included -/

/-- `delay_for_attempt` hands on the interval function's value and adds nothing to it -/
theorem delay_for_attempt_adds_nothing (fl : FloatLike) (O : FloatOps fl) (i mx d a : Nat) (r : fl.F) :
    (Policy.exponential O i mx).delayForAttempt O a r = some (nextInterval fl i (O.pow2 1) a (some mx)) ∧
    (Policy.fixed d : Policy fl).delayForAttempt O a r = some (.dur d) ∧
    (Policy.none : Policy fl).delayForAttempt O a r = Option.none :=
  ⟨rfl, rfl, rfl⟩

/-- **Never above the maximum**, over any arithmetic: `ReconnectPolicy::exponential(initial, max)` returns a `Duration` at
most `max` for every attempt — whatever the size of `max` (below one millisecond, below the initial delay). -/
theorem reconnect_policy_capped (fl : FloatLike) (O : FloatOps fl) (i mx a : Nat) (r : fl.F) (hm : mx ≤ durMax) :
    ∃ d, (Policy.exponential O i mx).delayForAttempt O a r = some (.dur d) ∧ d ≤ mx :=
  Policy.delay_exponential_capped O i mx a r hm

/-- a zero initial delay yields zero, for every attempt, over any arithmetic -/
theorem reconnect_policy_zero_initial (fl : FloatLike) (O : FloatOps fl) (mx a : Nat) (r : fl.F) :
    (Policy.exponential O 0 mx).delayForAttempt O a r = some (.dur 0) :=
  Policy.delay_exponential_zero O mx a r

/-- **`initial × 2^attempt` until that reaches the maximum** on exact arithmetic, for *every* initial delay and maximum
in nanoseconds — in particular below one millisecond: no floor, no rounding to milliseconds … -/
theorem reconnect_policy_delay_ratArith (i mx a : Nat) (r : Q) (hm : mx ≤ durMax) :
    (Policy.exponential ratOps i mx).delayForAttempt ratOps a r = some (.dur (min (i * 2 ^ expo a) mx)) ∧
    min (i * 2 ^ expo a) mx = ideal (build i [.mult 2 1, .cap mx]) a := by
  refine ⟨Policy.delay_exponential_ratArith i mx a r hm, ?_⟩
  rw [build_policy]
  simp [ideal, raw, Cfg.capNs]

/-- … and over every arithmetic satisfying `F64Laws`, whenever the two delays are exactly representable seconds. -/
theorem reconnect_policy_delay_exact (fl : FloatLike) (O : FloatOps fl) (L : F64Laws fl O) (i mx a : Nat) (r : fl.F)
    (hi : Rep i) (hm : mx ≤ durMax) (hme : CapExact mx) :
    (Policy.exponential O i mx).delayForAttempt O a r = some (.dur (min (i * 2 ^ expo a) mx)) :=
  Policy.delay_exponential_exact O L i mx a r hi hm hme

/-! ## non-vacuity -/

private def cfgD : Cfg := { initial := 100000000, num := 2, den := 1, cap := some 5000000000 }

/-- the default reconnect policy: 100, 200, …, 3200 ms, then 5 s for ever, including attempt `usize::MAX` -/
example : cfgD.Valid ∧ ideal cfgD 0 = 100000000 ∧ ideal cfgD 5 = 3200000000 ∧ ideal cfgD 6 = 5000000000
    ∧ ideal cfgD 68 = 5000000000 ∧ raw cfgD 5 < cfgD.capNs ∧ cfgD.capNs ≤ raw cfgD 6 := by
  refine ⟨⟨by decide, by decide⟩, by decide, by decide, by decide, by decide, by decide, by decide⟩

example : idealExec cfgD 18446744073709551615 = 5000000000 := by decide

/-- a fractional multiplier: 1 ms × 1.5^3 = 3.375 ms exactly; jitter ±30 % around it -/
example : ideal { initial := 1000000, num := 3, den := 2, cap := none } 3 = 3375000
    ∧ jitterLo 3375000 30 = 2362500 ∧ jitterHi 3375000 30 = 4387500 ∧ jittered 3375000 30 1 2 = 3375000 := by
  decide

/-- the envelope accepts the float result observed on the real code and rejects a value 1 µs off (1.1^100 = 13780.6…) -/
example : allowedExp { initial := 1, num := 11, den := 10, cap := none } 100 13781 = true
    ∧ allowedExp { initial := 1, num := 11, den := 10, cap := none } 100 14781 = false := by
  decide

/-- `new(100 ms).max_interval(10 s).multiplier(1.5)` = `new(100 ms).multiplier(1.5).max_interval(10 s)`:
100 ms × 1.5^8 = 2.562890625 s at attempt 8 (the ×2 default would have saturated there), 10 s from attempt 12 on;
overridden and repeated setters; the empty chain -/
example : build 100000000 [.cap 10000000000, .mult 3 2] = build 100000000 [.mult 3 2, .cap 10000000000]
    ∧ ideal (build 100000000 [.cap 10000000000, .mult 3 2]) 8 = 2562890625
    ∧ ideal (build 100000000 [.cap 10000000000, .mult 3 2]) 11 = 8649755859
    ∧ ideal (build 100000000 [.cap 10000000000, .mult 3 2]) 12 = 10000000000
    ∧ ideal (build 100000000 [.cap 10000000000]) 7 = 10000000000
    ∧ build 5 [.mult 10 1, .cap 7, .cap 9, .mult 5 4, .cap 8] = { initial := 5, num := 5, den := 4, cap := some 8 }
    ∧ build 5 [] = { initial := 5, num := 2, den := 1, cap := none }
    ∧ idealExec (build 250000000 [.cap 60000000000, .mult 1 1]) 18446744073709551615 = 250000000 := by
  decide

/-- the hypotheses of `policy_monotone` and `ideal_no_overflow`: a jittered policy kind over a valid configuration (the
default reconnect policy's, factor 1/3) with its un-jittered values at two attempts; a maximum that is a `Duration` -/
example : KindValid (.rand cfgD 1 3) ∧ (Kind.rand cfgD 1 3).base 2 = some 400000000 ∧ (Kind.rand cfgD 1 3).base 9 = some 5000000000
    ∧ (∀ c, cfgD.cap = some c → c ≤ durMax) := by
  refine ⟨⟨by decide, by decide⟩, by decide, by decide, ?_⟩
  intro c hc
  cases hc
  decide

/-! ### non-vacuity of the float-side statements -/

/-- a configuration in the exact region (1/512 s × 4, maximum 1 h) and two outside it (100 ms is not a binary fraction of a
second; ×1.5 is not a power of two); the checker demands `ideal` exactly inside and rejects a value 1 ns off -/
example : exactRegion { initial := 1953125, num := 4, den := 1, cap := some 3600000000000 } = true
    ∧ exactRegion { initial := 100000000, num := 2, den := 1, cap := none } = false
    ∧ exactRegion { initial := 1000000000, num := 3, den := 2, cap := none } = false
    ∧ allowedExp { initial := 1953125, num := 4, den := 1, cap := some 3600000000000 } 5 2000000000 = true
    ∧ allowedExp { initial := 1953125, num := 4, den := 1, cap := some 3600000000000 } 5 2000000001 = false
    ∧ allowedExp { initial := 1953125, num := 4, den := 1, cap := some 3600000000000 } 11 3600000000000 = true
    ∧ pow2Of 8 2 = some 2 := by
  decide

/-- `Rep`, `CapExact`: 1 s, 5 s, `Duration::MAX` -/
example : Rep 1000000000 ∧ CapExact 5000000000 ∧ CapExact durMax :=
  ⟨repB_sound (by decide), Or.inr (repB_sound (by decide)), Or.inl rfl⟩

/-- the hypotheses of `float_monotone` / `jitter_range_well_formed` / `loop_never_crashes` on `ovfArith`: multiplier 3 ≥ 1,
factor 1 ∈ [0,1]; the code over it: 100 ms × 3^a capped at 5 s, then +∞ is caught by the cap at attempt 200 -/
example : ovfArith.le ovfOps.one (.fin 3) = true ∧ ovfArith.le ovfArith.zero (.fin 1) = true ∧ ovfArith.le (.fin 1) ovfOps.one = true
    ∧ nextInterval ovfArith 100000000 (.fin 3) 2 (some 5000000000) = .dur 900000000
    ∧ nextInterval ovfArith 100000000 (.fin 3) 200 (some 5000000000) = .dur 5000000000
    ∧ nextInterval ovfArith 100000000 (.fin 3) 200 none = .dur durMax
    ∧ rangeOk ovfArith ovfOps (jitterRange ovfArith ovfOps durMax (.fin 1)).1 (jitterRange ovfArith ovfOps durMax (.fin 1)).2 = true := by
  decide

/-- the jitter on exact rationals with the factor 1/3 (not a whole percent): 3 ms ± 1 ms; a draw of 2.5 ms is in range and
is what comes out; the range of `Duration::MAX` with factor 1 is `[0, 2·MAX]` and a draw at its top saturates -/
example : jitterRange ratArith ratOps 3000000 (.q 1 3) = (.q 6000000 3, .q 12000000 3)
    ∧ jitterLoQ 3000000 1 3 = 2000000 ∧ jitterHiQ 3000000 1 3 = 4000000
    ∧ randomizeFull ratArith ratOps 3000000 (.q 1 3) (.q 5000000 2) = .dur 2500000
    ∧ randomizeFull ratArith ratOps durMax (.q 1 1) (.q (2 * durMax) 1) = .dur durMax
    ∧ clampFactor 3 2 = (1, 1) ∧ clampFactor 1 3 = (1, 3) ∧ clampFactor 7 0 = (1, 1) := by
  decide

/-- `InRange` for the draw above -/
example : InRange ratArith ratOps 3000000 (.q 1 3) (.q 5000000 2) := by
  constructor <;> decide

/-- `ReconnectPolicy::exponential` with a zero, a sub-millisecond initial delay, a sub-millisecond maximum:
0 for ever; 125 µs, 250 µs, 500 µs, 1 ms, 2 ms; 100 µs capped at 400 µs from attempt 2 on — and `usize::MAX` -/
example : (Policy.exponential ratOps 0 5000000000).delayForAttempt ratOps 7 .nan = some (.dur 0)
    ∧ (Policy.exponential ratOps 125000 10000000).delayForAttempt ratOps 0 .nan = some (.dur 125000)
    ∧ (Policy.exponential ratOps 125000 10000000).delayForAttempt ratOps 1 .nan = some (.dur 250000)
    ∧ (Policy.exponential ratOps 125000 10000000).delayForAttempt ratOps 3 .nan = some (.dur 1000000)
    ∧ (Policy.exponential ratOps 125000 10000000).delayForAttempt ratOps 4 .nan = some (.dur 2000000)
    ∧ (Policy.exponential ratOps 100000 400000).delayForAttempt ratOps 1 .nan = some (.dur 200000)
    ∧ (Policy.exponential ratOps 100000 400000).delayForAttempt ratOps 2 .nan = some (.dur 400000)
    ∧ (Policy.exponential ovfOps 100000 400000).delayForAttempt ovfOps 3 .nan = some (.dur 400000)
    ∧ (Policy.exponentialRandom ratOps 250000 1000000000 (.q 0 1)).delayForAttempt ratOps 1 (.q 500000 1) = some (.dur 500000) := by
  decide

/-- a well-formed jittered policy and three steps of an outage loop over it (attempts 1, 2, 3; draws in range) -/
example : outage ratOps (Policy.exponentialRandom ratOps 100000000 5000000000 (.q 1 2)) (fun _ => .q 150000000 1) 1 3
    = .running [150000000, 150000000, 150000000] := by
  decide

example (fl : FloatLike) (O : FloatOps fl) (J : JitterLaws fl O) (f : fl.F) (hf : fl.le f f = true) :
    (Policy.exponentialRandom O 100000000 5000000000 f).WF O :=
  Policy.exponentialRandom_WF O J _ _ f (by decide) (by decide) hf

end TR.Props.C14
