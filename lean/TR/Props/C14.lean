import TR.Lemmas.Backoff
/-!
# C14 — back-off delays are total, monotone and capped

(A) theorems about `ideal`, the delay in exact arithmetic: for **every** attempt number (no
bound; attempts above `i32::MAX` use the clamped exponent exactly as the code does), every
initial interval, every multiplier `num/den ≥ 1`, every cap (absent = `Duration::MAX`, below /
equal / above the initial interval), and every `ReconnectPolicy` / interval function built on it.

(B) `total_over_any_arithmetic`: the repaired `capped_exponential`, transcribed over an abstract
arithmetic, never takes the panic branch and never exceeds the cap, for every arithmetic that
satisfies the four listed laws. That binary64 satisfies them, and that the float result is close
to `ideal`, is sampled by the correspondence check (envelope `allowedExp` / `allowedRand`), not proved.
-/
namespace TR.Props.C14
open TR TR.Backoff

/-- **Non-decreasing in the attempt number**, for all attempts up to and beyond `usize::MAX`. -/
theorem ideal_monotone (cfg : Cfg) (hv : cfg.Valid) (a b : Nat) (h : a ≤ b) : ideal cfg a ≤ ideal cfg b :=
  ideal_mono cfg hv h

/-- **Never above `max_interval`** (or `Duration::MAX` when no maximum is configured). -/
theorem ideal_capped (cfg : Cfg) (a : Nat) : ideal cfg a ≤ cfg.capNs :=
  ideal_capped_aux cfg a

/-- … hence never beyond what a `Duration` can hold: no overflow for any attempt. -/
theorem ideal_no_overflow (cfg : Cfg) (a : Nat) (hc : ∀ c, cfg.cap = some c → c ≤ durMax) :
    ideal cfg a ≤ durMax :=
  ideal_no_overflow_aux cfg a hc

/-- **Equal to `initial × multiplier^attempt` until that reaches the cap**: below the cap the delay
is exactly `⌊initial · (num/den)^e⌋`, `e` the (clamped) attempt: the unique `n` with
`n · den^e ≤ initial · num^e < (n+1) · den^e`. -/
theorem ideal_exact_below_cap (cfg : Cfg) (hv : cfg.Valid) (a : Nat) (h : raw cfg a < cfg.capNs) :
    ideal cfg a = cfg.initial * cfg.num ^ expo a / cfg.den ^ expo a ∧
    ideal cfg a * cfg.den ^ expo a ≤ cfg.initial * cfg.num ^ expo a ∧
    cfg.initial * cfg.num ^ expo a < (ideal cfg a + 1) * cfg.den ^ expo a :=
  ideal_exact_below_cap_aux cfg hv a h

/-- the exponent is the attempt itself for all attempts up to `i32::MAX` … -/
theorem exponent_is_attempt (a : Nat) (h : a ≤ i32Max) : expo a = a := expo_of_le h

/-- … and from `i32::MAX` on (up to `usize::MAX` and beyond) the delay no longer changes. -/
theorem ideal_constant_beyond_i32 (cfg : Cfg) (a : Nat) (h : i32Max ≤ a) : ideal cfg a = ideal cfg i32Max :=
  ideal_constant_beyond_i32_aux cfg a h

/-- **Never above the cap afterwards — and exactly the cap**: once the exact product has reached the
cap it stays there for every later attempt. -/
theorem ideal_cap_reached_forever (cfg : Cfg) (hv : cfg.Valid) (a b : Nat) (h : cfg.capNs ≤ raw cfg a)
    (hab : a ≤ b) : ideal cfg b = cfg.capNs :=
  ideal_cap_reached_forever_aux cfg hv a b h hab

/-- a cap at or below the initial interval: every attempt yields the cap -/
theorem ideal_cap_below_initial (cfg : Cfg) (hv : cfg.Valid) (h : cfg.capNs ≤ cfg.initial) (a : Nat) :
    ideal cfg a = cfg.capNs :=
  ideal_cap_below_initial_aux cfg hv h a

/-- a zero initial interval: every attempt yields zero -/
theorem ideal_zero_initial (cfg : Cfg) (h : cfg.initial = 0) (a : Nat) : ideal cfg a = 0 :=
  ideal_zero_initial_aux cfg h a

/-- **Jittered variants stay within the randomization factor** of the capped value `x`: for every
factor `pct/100 ∈ [0,1]` and every random point `r/s ∈ [0,1]`,
`x·(1−f) ≤ jittered ≤ x·(1+f) ≤ 2·x`, and the un-jittered value lies inside the same interval. -/
theorem jitter_envelope (x pct r s : Nat) (hp : pct ≤ 100) (hr : r ≤ s) :
    jitterLo x pct ≤ jittered x pct r s ∧ jittered x pct r s ≤ jitterHi x pct ∧
    jitterLo x pct ≤ x ∧ x ≤ jitterHi x pct ∧ jitterHi x pct ≤ 2 * x :=
  ⟨(jittered_bounds x pct r s hr).1, (jittered_bounds x pct r s hr).2, jitterLo_le x pct,
   le_jitterHi x pct, jitterHi_le x pct hp⟩

/-- jittered exponential back-off never exceeds twice the cap, for every attempt -/
theorem jittered_ideal_bounded (cfg : Cfg) (a pct r s : Nat) (hp : pct ≤ 100) (hr : r ≤ s) :
    jittered (ideal cfg a) pct r s ≤ 2 * cfg.capNs :=
  jittered_ideal_bounded_aux cfg a pct r s hp hr

/-- **Every `ReconnectPolicy` / interval function built on them** (none, fixed, exponential,
randomised — the latter before jitter): the delay never exceeds the policy's bound … -/
theorem policy_capped (k : Kind) (a v : Nat) (h : k.base a = some v) : v ≤ k.bound :=
  policy_capped_aux k a v h

/-- … and is non-decreasing in the attempt number. -/
theorem policy_monotone (k : Kind) (hv : KindValid k) (a b va vb : Nat) (hab : a ≤ b)
    (ha : k.base a = some va) (hb : k.base b = some vb) : va ≤ vb :=
  policy_monotone_aux k hv a b va vb hab ha hb

/-- The early-exit evaluation run by the model driver computes exactly `ideal`. -/
theorem driver_computes_ideal (cfg : Cfg) (hv : cfg.Valid) (a : Nat) : idealExec cfg a = ideal cfg a :=
  idealExec_eq cfg hv a

/-- What the correspondence check accepts as the implementation's value for an un-jittered kind
("every allowed choice"): at most the cap, and within `2^-40` relative + 1 ns of `ideal`. -/
theorem allowed_choice_sound (cfg : Cfg) (hv : cfg.Valid) (a v : Nat) (h : allowedExp cfg a v = true) :
    v ≤ cfg.capNs ∧ v ≤ ideal cfg a + tol (ideal cfg a) ∧ ideal cfg a ≤ v + tol (ideal cfg a) :=
  allowed_choice_sound_aux cfg hv a v h

/-- (B) **Total over any arithmetic**: the repaired `capped_exponential` returns a duration — it
never reaches `Duration::from_secs_f64` outside its domain, i.e. never panics — and that duration
is at most the cap, for every attempt, every initial interval, every multiplier (including NaN,
∞, negative, < 1: `mult` is arbitrary), and every arithmetic `fl` satisfying the laws of `FloatLike`. -/
theorem total_over_any_arithmetic (fl : FloatLike) (initial : Nat) (mult : fl.F) (attempt : Nat)
    (max : Option Nat) (hmax : ∀ c, max = some c → c ≤ durMax) :
    ∃ d, nextInterval fl initial mult attempt max = .dur d ∧ d ≤ max.getD durMax :=
  nextInterval_total fl initial mult attempt max hmax

/-- (B) the jitter step never panics either, whatever value the random range produced. -/
theorem randomize_total_over_any_arithmetic (fl : FloatLike) (r : fl.F) : ∃ d, randomize fl r = .dur d :=
  randomize_total fl r

/-- The laws are consistent: `natArith` (exact naturals with ∞) is an instance, and on it the
repaired code maps the defect witness (100 ms, ×2, cap 5 s, attempt 68) to the cap, while the
pinned code (`nextIntervalCapAfter`: convert first, cap afterwards) panics on it. -/
theorem laws_consistent_and_witness :
    nextInterval natArith 100000000 (some 2) 68 (some 5000000000) = .dur 5000000000 ∧
    nextIntervalCapAfter natArith 100000000 (some 2) 68 (some 5000000000) = .panic := by
  decide

/-! ## non-vacuity -/

private def cfgD : Cfg := { initial := 100000000, num := 2, den := 1, cap := some 5000000000 }

/-- the default reconnect policy: 100, 200, …, 3200 ms, then 5 s for ever, including attempt `usize::MAX` -/
example : cfgD.Valid ∧ ideal cfgD 0 = 100000000 ∧ ideal cfgD 5 = 3200000000 ∧ ideal cfgD 6 = 5000000000
    ∧ ideal cfgD 68 = 5000000000 ∧ raw cfgD 5 < cfgD.capNs ∧ cfgD.capNs ≤ raw cfgD 6 := by
  refine ⟨⟨by decide, by decide⟩, by decide, by decide, by decide, by decide, by decide, by decide⟩

example : idealExec cfgD 18446744073709551615 = 5000000000 := by decide

/-- a fractional multiplier: 1 ms × 1.5^3 = 3.375 ms exactly; jitter ±30 % around it -/
example : ideal { initial := 1000000, num := 3, den := 2, cap := none } 3 = 3375000
    ∧ jitterLo 3375000 30 = 2362500 ∧ jitterHi 3375000 30 = 4387500 ∧ jittered 3375000 30 1 2 = 3375000 := by
  decide

/-- the envelope accepts the float result observed on the real code and rejects a value 1 µs off (1.1^100 = 13780.6…) -/
example : allowedExp { initial := 1, num := 11, den := 10, cap := none } 100 13781 = true
    ∧ allowedExp { initial := 1, num := 11, den := 10, cap := none } 100 14781 = false := by
  decide

end TR.Props.C14
