import TR.Lemmas.Backoff
/-!
# C14 — back-off delays are total, monotone and capped

(A) theorems about `ideal`, the delay in exact arithmetic: for **every** attempt number (no
bound; attempts above `i32::MAX` use the clamped exponent exactly as the code does), every
initial interval, every multiplier `num/den ≥ 1`, every cap (absent = `Duration::MAX`, below /
equal / above the initial interval), and every `ReconnectPolicy` / interval function built on it.

(B) `total_over_any_arithmetic`: the repaired `capped_exponential`, transcribed over an abstract
arithmetic, never takes the panic branch and never exceeds the cap, for every arithmetic that
satisfies the four listed laws. That binary64 satisfies them, and that the float result is close
to `ideal`, is sampled by the correspondence check (envelope `allowedExp` / `allowedRand`), not proved.
-/
namespace TR.Props.C14
open TR TR.Backoff

/-- **Non-decreasing in the attempt number**, for all attempts up to and beyond `usize::MAX`. -/
theorem ideal_monotone (cfg : Cfg) (hv : cfg.Valid) (a b : Nat) (h : a ≤ b) : ideal cfg a ≤ ideal cfg b :=
  ideal_mono cfg hv h

/-- **Never above `max_interval`** (or `Duration::MAX` when no maximum is configured). -/
theorem ideal_capped (cfg : Cfg) (a : Nat) : ideal cfg a ≤ cfg.capNs :=
  ideal_capped_aux cfg a

/-- … hence never beyond what a `Duration` can hold: no overflow for any attempt. -/
theorem ideal_no_overflow (cfg : Cfg) (a : Nat) (hc : ∀ c, cfg.cap = some c → c ≤ durMax) :
    ideal cfg a ≤ durMax :=
  ideal_no_overflow_aux cfg a hc

/-- **Equal to `initial × multiplier^attempt` until that reaches the cap**: below the cap the delay
is exactly `⌊initial · (num/den)^e⌋`, `e` the (clamped) attempt: the unique `n` with
`n · den^e ≤ initial · num^e < (n+1) · den^e`. -/
theorem ideal_exact_below_cap (cfg : Cfg) (hv : cfg.Valid) (a : Nat) (h : raw cfg a < cfg.capNs) :
    ideal cfg a = cfg.initial * cfg.num ^ expo a / cfg.den ^ expo a ∧
    ideal cfg a * cfg.den ^ expo a ≤ cfg.initial * cfg.num ^ expo a ∧
    cfg.initial * cfg.num ^ expo a < (ideal cfg a + 1) * cfg.den ^ expo a :=
  ideal_exact_below_cap_aux cfg hv a h

/-- the exponent is the attempt itself for all attempts up to `i32::MAX` … -/
theorem exponent_is_attempt (a : Nat) (h : a ≤ i32Max) : expo a = a := expo_of_le h

/-- … and from `i32::MAX` on (up to `usize::MAX` and beyond) the delay no longer changes. -/
theorem ideal_constant_beyond_i32 (cfg : Cfg) (a : Nat) (h : i32Max ≤ a) : ideal cfg a = ideal cfg i32Max :=
  ideal_constant_beyond_i32_aux cfg a h

/-- **Never above the cap afterwards — and exactly the cap**: once the exact product has reached the
cap it stays there for every later attempt. -/
theorem ideal_cap_reached_forever (cfg : Cfg) (hv : cfg.Valid) (a b : Nat) (h : cfg.capNs ≤ raw cfg a)
    (hab : a ≤ b) : ideal cfg b = cfg.capNs :=
  ideal_cap_reached_forever_aux cfg hv a b h hab

/-- a cap at or below the initial interval: every attempt yields the cap -/
theorem ideal_cap_below_initial (cfg : Cfg) (hv : cfg.Valid) (h : cfg.capNs ≤ cfg.initial) (a : Nat) :
    ideal cfg a = cfg.capNs :=
  ideal_cap_below_initial_aux cfg hv h a

/-- a zero initial interval: every attempt yields zero -/
theorem ideal_zero_initial (cfg : Cfg) (h : cfg.initial = 0) (a : Nat) : ideal cfg a = 0 :=
  ideal_zero_initial_aux cfg h a

/-- **Jittered variants stay within the randomization factor** of the capped value `x`: for every
factor `pct/100 ∈ [0,1]` and every random point `r/s ∈ [0,1]`,
`x·(1−f) ≤ jittered ≤ x·(1+f) ≤ 2·x`, and the un-jittered value lies inside the same interval. -/
theorem jitter_envelope (x pct r s : Nat) (hp : pct ≤ 100) (hr : r ≤ s) :
    jitterLo x pct ≤ jittered x pct r s ∧ jittered x pct r s ≤ jitterHi x pct ∧
    jitterLo x pct ≤ x ∧ x ≤ jitterHi x pct ∧ jitterHi x pct ≤ 2 * x :=
  ⟨(jittered_bounds x pct r s hr).1, (jittered_bounds x pct r s hr).2, jitterLo_le x pct,
   le_jitterHi x pct, jitterHi_le x pct hp⟩

/-- jittered exponential back-off never exceeds twice the cap, for every attempt -/
theorem jittered_ideal_bounded (cfg : Cfg) (a pct r s : Nat) (hp : pct ≤ 100) (hr : r ≤ s) :
    jittered (ideal cfg a) pct r s ≤ 2 * cfg.capNs :=
  jittered_ideal_bounded_aux cfg a pct r s hp hr

/-- **Every `ReconnectPolicy` / interval function built on them** (none, fixed, exponential,
randomised — the latter before jitter): the delay never exceeds the policy's bound … -/
theorem policy_capped (k : Kind) (a v : Nat) (h : k.base a = some v) : v ≤ k.bound :=
  policy_capped_aux k a v h

/-- … and is non-decreasing in the attempt number. -/
theorem policy_monotone (k : Kind) (hv : KindValid k) (a b va vb : Nat) (hab : a ≤ b)
    (ha : k.base a = some va) (hb : k.base b = some vb) : va ≤ vb :=
  policy_monotone_aux k hv a b va vb hab ha hb

/-- The early-exit evaluation run by the model driver computes exactly `ideal`. -/
theorem driver_computes_ideal (cfg : Cfg) (hv : cfg.Valid) (a : Nat) : idealExec cfg a = ideal cfg a :=
  idealExec_eq cfg hv a

/-- What the correspondence check accepts as the implementation's value for an un-jittered kind
("every allowed choice"): at most the cap, and within `2^-40` relative + 1 ns of `ideal`. -/
theorem allowed_choice_sound (cfg : Cfg) (hv : cfg.Valid) (a v : Nat) (h : allowedExp cfg a v = true) :
    v ≤ cfg.capNs ∧ v ≤ ideal cfg a + tol (ideal cfg a) ∧ ideal cfg a ≤ v + tol (ideal cfg a) :=
  allowed_choice_sound_aux cfg hv a v h

/-- (B) **Total over any arithmetic**: the repaired `capped_exponential` returns a duration — it
never reaches `Duration::from_secs_f64` outside its domain, i.e. never panics — and that duration
is at most the cap, for every attempt, every initial interval, every multiplier (including NaN,
∞, negative, < 1: `mult` is arbitrary), and every arithmetic `fl` satisfying the laws of `FloatLike`. -/
theorem total_over_any_arithmetic (fl : FloatLike) (initial : Nat) (mult : fl.F) (attempt : Nat)
    (max : Option Nat) (hmax : ∀ c, max = some c → c ≤ durMax) :
    ∃ d, nextInterval fl initial mult attempt max = .dur d ∧ d ≤ max.getD durMax :=
  nextInterval_total fl initial mult attempt max hmax

/-- (B) the jitter step never panics either, whatever value the random range produced. -/
theorem randomize_total_over_any_arithmetic (fl : FloatLike) (r : fl.F) : ∃ d, randomize fl r = .dur d :=
  randomize_total fl r

/-- The laws are consistent: `natArith` (exact naturals with ∞) is an instance, and on it the
repaired code maps the defect witness (100 ms, ×2, cap 5 s, attempt 68) to the cap, while the
pinned code (`nextIntervalCapAfter`: convert first, cap afterwards) panics on it. -/
theorem laws_consistent_and_witness :
    nextInterval natArith 100000000 (some 2) 68 (some 5000000000) = .dur 5000000000 ∧
    nextIntervalCapAfter natArith 100000000 (some 2) 68 (some 5000000000) = .panic := by
  decide

/-! ## the builder: `new(initial)` followed by any chain of `multiplier(..)` / `max_interval(..)` -/

/-- **Only the last value of each setting counts**: whatever the order and however often setters are
repeated, the configuration a chain builds is the fresh one (`×2`, no maximum) with the multiplier
replaced by the one set last (if any) and the maximum by the one set last (if any). -/
theorem builder_depends_only_on_last (i : Nat) (chain : List Setter) :
    build i chain = ofLast (newCfg i) (lastMult chain) (lastCap chain) :=
  build_last i chain

/-- … so two chains with the same last multiplier and the same last maximum build the same back-off. -/
theorem builder_same_last_same_backoff (i : Nat) (l₁ l₂ : List Setter) (hm : lastMult l₁ = lastMult l₂)
    (hc : lastCap l₁ = lastCap l₂) : build i l₁ = build i l₂ := by
  rw [build_last, build_last, hm, hc]

/-- **`multiplier` last wins**, wherever `max_interval` setters (or earlier `multiplier`s) stand:
before it, after it, or on both sides. The initial interval is never touched. -/
theorem builder_multiplier_last_wins (i p q : Nat) (pre post : List Setter) (h : ∀ s ∈ post, s.isMult = false) :
    (build i (pre ++ .mult p q :: post)).num = p ∧ (build i (pre ++ .mult p q :: post)).den = q ∧
    (build i (pre ++ .mult p q :: post)).initial = i := by
  rw [build_last, lastMult_append_cons pre post p q h]
  exact ⟨rfl, rfl, rfl⟩

/-- **`max_interval` last wins**, wherever the `multiplier` setters stand. -/
theorem builder_max_interval_last_wins (i c : Nat) (pre post : List Setter) (h : ∀ s ∈ post, s.isMult = true) :
    (build i (pre ++ .cap c :: post)).cap = some c ∧ (build i (pre ++ .cap c :: post)).capNs = c := by
  rw [build_last, lastCap_append_cons pre post c h]
  exact ⟨rfl, rfl⟩

/-- defaults: without a `multiplier` setter the multiplier is 2, without a `max_interval` setter there is no maximum -/
theorem builder_defaults (i : Nat) (chain : List Setter) :
    (build i chain).initial = i ∧
    ((∀ s ∈ chain, s.isMult = false) → (build i chain).num = 2 ∧ (build i chain).den = 1) ∧
    ((∀ s ∈ chain, s.isMult = true) → (build i chain).cap = none ∧ (build i chain).capNs = durMax) := by
  rw [build_last]
  refine ⟨rfl, fun h => ?_, fun h => ?_⟩
  · rw [lastMult_none_of chain h]; exact ⟨rfl, rfl⟩
  · rw [lastCap_none_of chain h]; exact ⟨rfl, rfl⟩

/-- **Order-independence of distinct setters**: a `multiplier` and a `max_interval` standing next to each
other anywhere in a chain may be exchanged. -/
theorem builder_distinct_setters_commute (i : Nat) (pre post : List Setter) (s t : Setter) (h : s.isMult ≠ t.isMult) :
    build i (pre ++ s :: t :: post) = build i (pre ++ t :: s :: post) :=
  builder_same_last_same_backoff i _ _ (last_swap pre post s t h).1 (last_swap pre post s t h).2

/-- a setter immediately repeated: only the second call counts -/
theorem builder_repeated_setter_overrides (i : Nat) (pre post : List Setter) (s t : Setter) (h : s.isMult = t.isMult) :
    build i (pre ++ s :: t :: post) = build i (pre ++ t :: post) :=
  builder_same_last_same_backoff i _ _ (last_override pre post s t h).1 (last_override pre post s t h).2

/-- **The delay clause for a back-off given by its chain**: with `p/q ≥ 1` the multiplier set last and `c`
the maximum set last (in either order, whatever was set before and overridden), the delay equals
`⌊initial · (p/q)^attempt⌋` for as long as that is below `c`, is exactly `c` from then on, and is
non-decreasing — with the multiplier set last, not the one in force when the maximum was set. -/
theorem chain_delay (i p q c : Nat) (chain : List Setter) (hq : 0 < q) (hpq : q ≤ p)
    (hm : lastMult chain = some (p, q)) (hc : lastCap chain = some c) (a : Nat) :
    (i * p ^ expo a / q ^ expo a < c → ideal (build i chain) a = i * p ^ expo a / q ^ expo a) ∧
    (c ≤ i * p ^ expo a / q ^ expo a → ∀ b, a ≤ b → ideal (build i chain) b = c) ∧
    (∀ b, a ≤ b → ideal (build i chain) a ≤ ideal (build i chain) b) := by
  have hb : build i chain = { initial := i, num := p, den := q, cap := some c } := by
    rw [build_last, hm, hc]; rfl
  rw [hb]
  have hv : Cfg.Valid { initial := i, num := p, den := q, cap := some c } := ⟨hq, hpq⟩
  exact ⟨fun h => (ideal_exact_below_cap_aux _ hv a h).1,
         fun h b hab => ideal_cap_reached_forever_aux _ hv a b h hab,
         fun b hab => ideal_mono _ hv hab⟩

/-- the two orders of the seeded example, anywhere in a chain: the same delay for every attempt -/
theorem delay_independent_of_setter_order (i p q c : Nat) (pre post : List Setter) (a : Nat) :
    ideal (build i (pre ++ .cap c :: .mult p q :: post)) a = ideal (build i (pre ++ .mult p q :: .cap c :: post)) a := by
  rw [builder_distinct_setters_commute i pre post (.cap c) (.mult p q) (by simp [Setter.isMult])]

/-! ## non-vacuity -/

private def cfgD : Cfg := { initial := 100000000, num := 2, den := 1, cap := some 5000000000 }

/-- the default reconnect policy: 100, 200, …, 3200 ms, then 5 s for ever, including attempt `usize::MAX` -/
example : cfgD.Valid ∧ ideal cfgD 0 = 100000000 ∧ ideal cfgD 5 = 3200000000 ∧ ideal cfgD 6 = 5000000000
    ∧ ideal cfgD 68 = 5000000000 ∧ raw cfgD 5 < cfgD.capNs ∧ cfgD.capNs ≤ raw cfgD 6 := by
  refine ⟨⟨by decide, by decide⟩, by decide, by decide, by decide, by decide, by decide, by decide⟩

example : idealExec cfgD 18446744073709551615 = 5000000000 := by decide

/-- a fractional multiplier: 1 ms × 1.5^3 = 3.375 ms exactly; jitter ±30 % around it -/
example : ideal { initial := 1000000, num := 3, den := 2, cap := none } 3 = 3375000
    ∧ jitterLo 3375000 30 = 2362500 ∧ jitterHi 3375000 30 = 4387500 ∧ jittered 3375000 30 1 2 = 3375000 := by
  decide

/-- the envelope accepts the float result observed on the real code and rejects a value 1 µs off (1.1^100 = 13780.6…) -/
example : allowedExp { initial := 1, num := 11, den := 10, cap := none } 100 13781 = true
    ∧ allowedExp { initial := 1, num := 11, den := 10, cap := none } 100 14781 = false := by
  decide

/-- `new(100 ms).max_interval(10 s).multiplier(1.5)` = `new(100 ms).multiplier(1.5).max_interval(10 s)`:
100 ms × 1.5^8 = 2.562890625 s at attempt 8 (the ×2 default would have saturated there), 10 s from attempt 12 on;
overridden and repeated setters; the empty chain -/
example : build 100000000 [.cap 10000000000, .mult 3 2] = build 100000000 [.mult 3 2, .cap 10000000000]
    ∧ ideal (build 100000000 [.cap 10000000000, .mult 3 2]) 8 = 2562890625
    ∧ ideal (build 100000000 [.cap 10000000000, .mult 3 2]) 11 = 8649755859
    ∧ ideal (build 100000000 [.cap 10000000000, .mult 3 2]) 12 = 10000000000
    ∧ ideal (build 100000000 [.cap 10000000000]) 7 = 10000000000
    ∧ build 5 [.mult 10 1, .cap 7, .cap 9, .mult 5 4, .cap 8] = { initial := 5, num := 5, den := 4, cap := some 8 }
    ∧ build 5 [] = { initial := 5, num := 2, den := 1, cap := none }
    ∧ idealExec (build 250000000 [.cap 60000000000, .mult 1 1]) 18446744073709551615 = 250000000 := by
  decide

end TR.Props.C14
