import TR.Lemmas.Bulkhead
import TR.Lemmas.BulkheadMulti
import TR.Lemmas.BulkheadLog
/-!
# C01 — the bulkhead never lets more than `max_concurrent_calls` into the inner service

Quantification: every configuration (`max`, `maxWait` none / zero / finite), every list of
operations (= every arrival, poll, cancellation and time-advance order, any number of
callers), every inner script (latency, ok / error / panic / never).
-/
namespace TR.Props.C01
open TR TR.Bulkhead

/-- In every reachable state at most `max` callers are inside the inner service. -/
theorem bound (cfg : Cfg) (ops : List Op) : (run cfg ops).running.length ≤ cfg.max := by
  have := (inv_reachable cfg ops).count; omega

/-- The same statement in the property's own observables: in **every prefix** of the event
log, (inner calls started) − (inner calls finished or dropped) ≤ `max`. -/
theorem trace_bound (cfg : Cfg) (ops : List Op) (n : Nat) :
    calls ((run cfg ops).log.take n) ≤ ended ((run cfg ops).log.take n) + cfg.max :=
  (inv_reachable cfg ops).peak n

/-- The log and the state agree: the calls in flight according to the log are exactly the
callers the model holds in `running` (each of which holds a permit, see `permits_conserved`). -/
theorem trace_matches_state (cfg : Cfg) (ops : List Op) :
    calls (run cfg ops).log = ended (run cfg ops).log + (run cfg ops).running.length :=
  (inv_reachable cfg ops).trace

/-- Permits are conserved: free + handed-over + held = `max`. -/
theorem permits_conserved (cfg : Cfg) (ops : List Op) :
    (run cfg ops).free + (run cfg ops).assigned.length + (run cfg ops).running.length = cfg.max :=
  (inv_reachable cfg ops).count

/-- Non-vacuity: a concrete history in which the bound is attained (two of three callers
inside, the third queued). -/
example :
    let s := run { max := 2, maxWait := some 10 }
      [.arrive 1 ⟨5, .ok⟩, .arrive 2 ⟨5, .never⟩, .arrive 3 ⟨0, .panic⟩, .poll 1, .poll 2, .poll 3]
    s.running = [1, 2] ∧ s.queue = [3] ∧ s.free = 0 := by decide

/-! ## inner readiness failures, several services from one layer value, presets -/

/-- **An inner readiness failure costs and frees nothing.** When the handle a caller wanted to call does not become
ready (its inner service answers `poll_ready` with an error, or stays pending until the caller gives up), the request
is answered and nothing else changes: the free permits, the queue, the permits handed over and the calls in flight
are exactly what they were, and no inner call starts. (`bound` and `trace_bound` quantify over all operation lists,
so they already cover histories with any number of such failures at any point — "inner failure" in the property's
words includes failing readiness.) -/
theorem readiness_failure_changes_nothing (cfg : Cfg) (s : State) (c : Nat) (kind : Option Nat) :
    (stepS cfg s (.refuse c kind)).free = s.free ∧ (stepS cfg s (.refuse c kind)).queue = s.queue ∧
    (stepS cfg s (.refuse c kind)).assigned = s.assigned ∧ (stepS cfg s (.refuse c kind)).running = s.running ∧
    calls (stepS cfg s (.refuse c kind)).log = calls s.log := by
  simp only [stepS]
  split
  · exact ⟨rfl, rfl, rfl, rfl, rfl⟩
  · refine ⟨rfl, rfl, rfl, rfl, ?_⟩
    cases kind <;> simp [refuseCall, emit, calls, isCall]

/-- **Services built from one layer value are separate bulkheads, each with the full bound.** After any
multi-service history (operations of any callers on any services, in any order), every service has at most `max`
callers inside its inner service. -/
theorem services_bound (cfg : Cfg) (mops : List (Nat × Op)) (j : Nat) :
    ((runM cfg mops).insts j).running.length ≤ cfg.max := by
  rw [runM_synced]; exact bound cfg _

/-- … and the same in the observables: in every prefix of service `j`'s event log, calls started − calls ended ≤ `max`. -/
theorem services_trace_bound (cfg : Cfg) (mops : List (Nat × Op)) (j n : Nat) :
    calls (((runM cfg mops).insts j).log.take n) ≤ ended (((runM cfg mops).insts j).log.take n) + cfg.max := by
  rw [runM_synced]; exact trace_bound cfg _ n

/-- Each service conserves its own `max` permits. -/
theorem services_permits_conserved (cfg : Cfg) (mops : List (Nat × Op)) (j : Nat) :
    ((runM cfg mops).insts j).free + ((runM cfg mops).insts j).assigned.length
      + ((runM cfg mops).insts j).running.length = cfg.max := by
  rw [runM_synced]; exact permits_conserved cfg _

/-- The presets are ordinary configurations (`small` 10, `medium` 50, `large` 200 slots, zero wait): the bound holds
with the documented numbers, for every operation list. -/
theorem preset_bounds (ops : List Op) :
    (run presetSmall ops).running.length ≤ 10 ∧ (run presetMedium ops).running.length ≤ 50 ∧
    (run presetLarge ops).running.length ≤ 200 :=
  ⟨bound presetSmall ops, bound presetMedium ops, bound presetLarge ops⟩

/-- Non-vacuity: two services from one layer (`max = 1`): service 0 is full and has a waiter, service 1 admits its own
caller; a readiness failure on service 0 (caller 5) leaves both untouched. -/
example :
    let ms := runM { max := 1, maxWait := none }
      [(0, .arrive 1 ⟨5, .never⟩), (0, .poll 1), (0, .arrive 2 ⟨0, .ok⟩), (0, .poll 2), (0, .refuse 5 (some 9)),
       (1, .arrive 3 ⟨5, .never⟩), (1, .poll 3), (0, .poll 2)]
    (ms.insts 0).running = [1] ∧ (ms.insts 0).queue = [2] ∧ (ms.insts 1).running = [3] ∧ (ms.insts 1).free = 0 ∧
    (ms.insts 2).free = 1 := by decide

/-! ## the count is the in-flight SET: the log is a well-formed call/end trace (audit A, C01 gap G1)

`trace_bound` bounds `calls − ended` in every prefix. The theorems below say that this difference IS the number of calls
in flight, on the log alone: `inflight p` is the list of callers whose `inner_call` has no matching end in the prefix `p`
(computed from the events only, `Lemmas/BulkheadLog`). -/

/-- **Every event of every reachable log is sensible with respect to the events before it** (`EvOK`, spelled out in
`call_is_new` and `end_follows_own_call`). `WF` is closed under prefixes (`WF.take`). -/
theorem log_wellformed (cfg : Cfg) (ops : List Op) : WF (run cfg ops).log :=
  (logInv_reachable cfg ops).wf

/-- An `inner_call c k` is the first inner call of caller `c` and the first use of serial `k`. -/
theorem call_is_new (cfg : Cfg) (ops : List Op) (p rest : List Ev) (c k : Nat)
    (h : (run cfg ops).log = p ++ Ev.innerCall c k :: rest) :
    (∀ k', Ev.innerCall c k' ∉ p) ∧ (∀ c', Ev.innerCall c' k ∉ p) := by
  have := log_wellformed cfg ops; rw [h] at this; exact this.at

/-- **Each `inner_done` / `inner_drop` of call `(c, k)` follows its own `inner_call c k`, while that call is still
open** (so it occurs at most once: it closes the call, and `c` never gets a second one — `at_most_one_call_and_end`). -/
theorem end_follows_own_call (cfg : Cfg) (ops : List Op) (p rest : List Ev) (e : Ev) (c k : Nat)
    (he : e = Ev.innerDrop c k ∨ ∃ o, e = Ev.innerDone c k o) (h : (run cfg ops).log = p ++ e :: rest) :
    Ev.innerCall c k ∈ p ∧ c ∈ inflight p := by
  have := log_wellformed cfg ops; rw [h] at this
  have hok := this.at
  rcases he with he | ⟨o, he⟩ <;> (subst he; exact ⟨hok.2, hok.1⟩)

/-- In every prefix of the log, per caller: at most one inner call, at most one end, an end only after the call;
`calls − ends` of the caller is 1 exactly while it is in `inflight`. -/
theorem at_most_one_call_and_end (cfg : Cfg) (ops : List Op) (n c : Nat) :
    callsOf ((run cfg ops).log.take n) c ≤ 1 ∧
    callsOf ((run cfg ops).log.take n) c
      = endsOf ((run cfg ops).log.take n) c + (inflight ((run cfg ops).log.take n)).count c := by
  have := ((log_wellformed cfg ops).take n).account c
  exact ⟨this.2, this.1⟩

/-- **The count is the set.** In every prefix `p` of every reachable log: (inner calls started) − (finished or
dropped) = the number of open calls `inflight p`, nobody is in that list twice, and it has at most `max` members. -/
theorem count_is_inflight_set (cfg : Cfg) (ops : List Op) (n : Nat) :
    calls ((run cfg ops).log.take n) = ended ((run cfg ops).log.take n) + (inflight ((run cfg ops).log.take n)).length ∧
    (inflight ((run cfg ops).log.take n)).Nodup ∧ (inflight ((run cfg ops).log.take n)).length ≤ cfg.max := by
  have hwf := (log_wellformed cfg ops).take n
  have ht := hwf.total
  have hb := trace_bound cfg ops n
  exact ⟨ht, hwf.nodup, by omega⟩

/-- **The open calls of the log are exactly the model's `running`** (same callers, same order): every statement about
`running` (`bound`, `permits_conserved`, C07's hypotheses) is a statement about the event log. -/
theorem inflight_is_running (cfg : Cfg) (ops : List Op) : inflight (run cfg ops).log = (run cfg ops).running :=
  (logInv_reachable cfg ops).fl

/-- A caller is inside the inner service iff the log has its `inner_call` and no end for it. -/
theorem running_iff_log (cfg : Cfg) (ops : List Op) (c : Nat) :
    c ∈ (run cfg ops).running ↔ callsOf (run cfg ops).log c = 1 ∧ endsOf (run cfg ops).log c = 0 := by
  have h := (log_wellformed cfg ops).account c
  rw [inflight_is_running] at h
  rw [← List.count_pos_iff]
  constructor
  · intro hc; omega
  · intro ⟨h1, h2⟩; omega

/-- nobody is inside twice -/
theorem running_nodup (cfg : Cfg) (ops : List Op) : (run cfg ops).running.Nodup := by
  rw [← inflight_is_running]; exact (log_wellformed cfg ops).nodup

/-- Non-vacuity for `call_is_new` / `end_follows_own_call`: a log with a finished, a dropped and an open call. -/
example :
    (run { max := 2, maxWait := none }
      [.arrive 1 ⟨0, .ok⟩, .arrive 2 ⟨5, .never⟩, .arrive 3 ⟨5, .ok⟩, .poll 1, .poll 2, .poll 3, .drop 2]).log
    = [.innerCall 1 0, .innerDone 1 0 .ok, .result 1 (.ok 0)] ++ Ev.innerCall 2 1 :: [.innerCall 3 2] ++ Ev.innerDrop 2 1 :: [] ∧
    inflight [Ev.innerCall 1 0, .innerDone 1 0 .ok, .result 1 (.ok 0), .innerCall 2 1, .innerCall 3 2] = [2, 3] := by
  decide

/-! ## an inner call is made only in the step that took a permit (audit A, C01 clause 8) -/

/-- **`inner_needs_permit`.** If a step — ANY operation, from ANY state — appends `inner_call c k` to the log, then
the operation is `poll c`, `k` is the current serial, and the step consists of: taking a permit for `c` (giving `s1`:
either `c` is polled for the first time and a FREE permit leaves the pool, or `c` uses the permit a release handed
it; free + handed-over drops by exactly one and `running`, the queue and the log are untouched), `startInner s1 c`
(`c` enters `running`, `inner_call c k` is logged), and one poll of the new inner call. So no inner call exists
without its caller holding a permit, from before the call starts. -/
theorem inner_needs_permit (cfg : Cfg) (s : State) (op : Op) (c k : Nat)
    (h : Ev.innerCall c k ∈ (stepS cfg s op).log.drop s.log.length) :
    op = .poll c ∧ k = s.serial ∧
    ∃ s1 : State, s1.running = s.running ∧ s1.queue = s.queue ∧ s1.log = s.log ∧ s1.serial = s.serial ∧
      ((s.fresh.contains c = true ∧ s.free > 0 ∧ s1.free + 1 = s.free ∧ s1.assigned = s.assigned) ∨
       (s.fresh.contains c = false ∧ s.assigned.contains c = true ∧ s1.free = s.free ∧
          s1.assigned = s.assigned.erase c)) ∧
      stepS cfg s op = pollRunning (startInner s1 c) c :=
  inner_call_step cfg s op c k h

/-- The same over whole histories, in the observables: every `inner_call c k` in a reachable log was appended by one
particular `poll c` of the history, made in a state where `c` had never been polled and a permit was free, or where `c`
had been handed a permit. -/
theorem inner_call_origin (cfg : Cfg) (ops : List Op) (c k : Nat) (h : Ev.innerCall c k ∈ (run cfg ops).log) :
    ∃ pre post, ops = pre ++ Op.poll c :: post ∧ k = (run cfg pre).serial ∧
      (((run cfg pre).fresh.contains c = true ∧ (run cfg pre).free > 0) ∨
       ((run cfg pre).fresh.contains c = false ∧ (run cfg pre).assigned.contains c = true)) := by
  obtain ⟨pre, op, post, heq, hm⟩ := mem_log_origin cfg ops _ h
  obtain ⟨hop, hk, s1, _, _, _, _, hcase, _⟩ := inner_call_step cfg (run cfg pre) op c k hm
  subst hop
  refine ⟨pre, post, heq, hk, ?_⟩
  rcases hcase with ⟨a, b, _, _⟩ | ⟨a, b, _, _⟩
  · exact Or.inl ⟨a, b⟩
  · exact Or.inr ⟨a, b⟩

/-- Non-vacuity for `inner_needs_permit`, both ways of taking a permit: caller 1 takes the free permit; caller 2
queues, is handed the permit when 1 finishes, and starts its inner call at its next poll. -/
example :
    let cfg : Cfg := { max := 1, maxWait := none }
    let s0 := run cfg [.arrive 1 ⟨5, .ok⟩, .arrive 2 ⟨0, .ok⟩]
    let s1 := run cfg [.arrive 1 ⟨5, .ok⟩, .arrive 2 ⟨0, .ok⟩, .poll 1, .poll 2, .adv 5, .poll 1]
    Ev.innerCall 1 0 ∈ (stepS cfg s0 (.poll 1)).log.drop s0.log.length ∧ s0.free = 1 ∧
    s1.assigned = [2] ∧ s1.free = 0 ∧ Ev.innerCall 2 1 ∈ (stepS cfg s1 (.poll 2)).log.drop s1.log.length := by
  decide

/-- Every service built from one layer value has a well-formed log of its own whose open calls are its `running`. -/
theorem services_log_wellformed (cfg : Cfg) (mops : List (Nat × Op)) (j : Nat) :
    WF ((runM cfg mops).insts j).log ∧ inflight ((runM cfg mops).insts j).log = ((runM cfg mops).insts j).running := by
  rw [runM_synced]; exact ⟨log_wellformed cfg _, inflight_is_running cfg _⟩

/-! ## requests made from inside an admitted call

The wrapped service may itself be a caller of the bulkhead it sits behind: its response future makes requests through a
clone and polls them inside its own poll (`manual onpoll` in the harness). The model has no notion of WHO makes a
request — a nested request is an `arrive` and a `poll` like any other, placed right after the poll of its parent — so
`bound` / `trace_bound` / `count_is_inflight_set` (all operation lists) already cover every fan-out. Spelled out: -/

/-- **A nested request needs a permit of its own.** After any history in which every permit is taken (by the calls in
flight — the parent among them — or handed over to waiters), a request that arrives now and is polled once does not
start an inner call: "running within the parent's slot" does not exist. (With `max = 1` a call that fans out through
its own bulkhead can only queue behind itself: it times out, or waits for ever.) -/
theorem nested_call_needs_own_permit (cfg : Cfg) (ops : List Op) (c : Nat) (sc : Step)
    (hnew : known (run cfg ops) c = false) (hfull : (run cfg ops).free = 0) (k : Nat) :
    Ev.innerCall c k ∉ (run cfg (ops ++ [.arrive c sc, .poll c])).log.drop (run cfg ops).log.length := by
  intro h
  have hs : run cfg (ops ++ [.arrive c sc, .poll c])
      = stepS cfg (stepS cfg (run cfg ops) (.arrive c sc)) (.poll c) := by
    simp [run, List.foldl_append]
  rw [hs] at h
  have ha : stepS cfg (run cfg ops) (.arrive c sc)
      = { run cfg ops with fresh := (run cfg ops).fresh ++ [c], script := (c, sc) :: (run cfg ops).script } := by
    simp [stepS, hnew]
  rw [ha] at h
  let s' : State :=
    { run cfg ops with fresh := (run cfg ops).fresh ++ [c], script := (c, sc) :: (run cfg ops).script }
  have h' : Ev.innerCall c k ∈ (stepS cfg s' (.poll c)).log.drop s'.log.length := h
  obtain ⟨_, _, s1, _, _, _, _, hcase, _⟩ := inner_needs_permit cfg s' (.poll c) c k h'
  rcases hcase with ⟨_, hfree, _, _⟩ | ⟨hfr, _, _, _⟩
  · have : s'.free = 0 := hfull
    omega
  · have : s'.fresh.contains c = true := by
      show ((run cfg ops).fresh ++ [c]).contains c = true
      simp
    rw [this] at hfr
    cases hfr

/-- … and whatever it does, the calls in flight stay within `max` (this is `bound` for the extended history; stated
for the record: the parent `p` is still inside, the nested caller is not counted twice or for free). -/
theorem nested_call_bound (cfg : Cfg) (ops : List Op) (c : Nat) (sc : Step) :
    (run cfg (ops ++ [.arrive c sc, .poll c])).running.length ≤ cfg.max :=
  bound cfg _

/-- Non-vacuity (`max = 1`, `max_wait = 50`): parent 1 is admitted; from inside its poll requests 2 and 3 are made and
polled: both queue, only the parent is inside; at t = 50 both are rejected, the parent is still inside; with
`max = 2` the first child gets the second slot and the second child queues. -/
example :
    let cfg : Cfg := { max := 1, maxWait := some 50 }
    let ops : List Op := [.arrive 1 ⟨100, .ok⟩, .poll 1, .arrive 2 ⟨5, .ok⟩, .poll 2, .arrive 3 ⟨0, .ok⟩, .poll 3]
    (run cfg ops).running = [1] ∧ (run cfg ops).queue = [2, 3] ∧ (run cfg ops).log = [.innerCall 1 0] ∧
    (run cfg (ops ++ [.adv 50, .poll 2, .poll 3])).log = [.innerCall 1 0, .result 2 .timeout, .result 3 .timeout] ∧
    (run cfg (ops ++ [.adv 50, .poll 2, .poll 3])).running = [1] ∧
    (run { max := 2, maxWait := some 50 } ops).running = [1, 2] ∧
    (run { max := 2, maxWait := some 50 } ops).queue = [3] := by decide


/-! ## capacity 0 — `max_concurrent_calls(0)`, a bulkhead used as a kill switch

The boundary value of the capacity knob. The step function has no special case for it: the pool starts empty and no
release ever fills it, so nobody is ever inside the inner service — whatever `max_wait` is (none / zero / finite), for
every history. (When and how the callers are turned away is C07's business: `TR.Props.C07.zero_capacity_*`.) -/

/-- With capacity 0 the pool is empty, nobody has been handed a permit and nobody is inside, in every reachable state. -/
theorem zero_capacity_state (cfg : Cfg) (ops : List Op) (h0 : cfg.max = 0) :
    (run cfg ops).free = 0 ∧ (run cfg ops).assigned = [] ∧ (run cfg ops).running = [] := by
  have h := permits_conserved cfg ops
  rw [h0] at h
  exact ⟨by omega, List.eq_nil_of_length_eq_zero (by omega), List.eq_nil_of_length_eq_zero (by omega)⟩

/-- … and in the observables: no reachable log of a capacity-0 bulkhead contains an `inner_call` at all. -/
theorem zero_capacity_no_inner_call (cfg : Cfg) (ops : List Op) (h0 : cfg.max = 0) (c k : Nat) :
    Ev.innerCall c k ∉ (run cfg ops).log := by
  intro h
  obtain ⟨pre, post, _, _, hcase⟩ := inner_call_origin cfg ops c k h
  obtain ⟨hf, ha, _⟩ := zero_capacity_state cfg pre h0
  rcases hcase with ⟨_, hfree⟩ | ⟨_, hass⟩
  · omega
  · rw [ha] at hass; simp at hass

/-- Non-vacuity: capacity 0, `max_wait` 50 ms, none, 0 — three callers, nobody ever inside, no `inner_call`. -/
example :
    (run { max := 0, maxWait := some 50 } [.arrive 1 ⟨0, .ok⟩, .poll 1, .adv 50, .poll 1]).log = [.result 1 .timeout] ∧
    (run { max := 0, maxWait := none } [.arrive 1 ⟨0, .ok⟩, .poll 1, .adv 1000000, .poll 1]).log = [] ∧
    (run { max := 0, maxWait := some 0 } [.arrive 1 ⟨0, .ok⟩, .poll 1]).log = [.result 1 .timeout] := by
  decide

end TR.Props.C01
