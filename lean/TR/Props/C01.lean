import TR.Lemmas.Bulkhead
/-!
# C01 — the bulkhead never lets more than `max_concurrent_calls` into the inner service

Quantification: every configuration (`max`, `maxWait` none / zero / finite), every list of
operations (= every arrival, poll, cancellation and time-advance order, any number of
callers), every inner script (latency, ok / error / panic / never).
-/
namespace TR.Props.C01
open TR TR.Bulkhead

/-- In every reachable state at most `max` callers are inside the inner service. -/
theorem bound (cfg : Cfg) (ops : List Op) : (run cfg ops).running.length ≤ cfg.max := by
  have := (inv_reachable cfg ops).count; omega

/-- The same statement in the property's own observables: in **every prefix** of the event
log, (inner calls started) − (inner calls finished or dropped) ≤ `max`. -/
theorem trace_bound (cfg : Cfg) (ops : List Op) (n : Nat) :
    calls ((run cfg ops).log.take n) ≤ ended ((run cfg ops).log.take n) + cfg.max :=
  (inv_reachable cfg ops).peak n

/-- The log and the state agree: the calls in flight according to the log are exactly the
callers the model holds in `running` (each of which holds a permit, see `permits_conserved`). -/
theorem trace_matches_state (cfg : Cfg) (ops : List Op) :
    calls (run cfg ops).log = ended (run cfg ops).log + (run cfg ops).running.length :=
  (inv_reachable cfg ops).trace

/-- Permits are conserved: free + handed-over + held = `max`. -/
theorem permits_conserved (cfg : Cfg) (ops : List Op) :
    (run cfg ops).free + (run cfg ops).assigned.length + (run cfg ops).running.length = cfg.max :=
  (inv_reachable cfg ops).count

/-- Non-vacuity: a concrete history in which the bound is attained (two of three callers
inside, the third queued). -/
example :
    let s := run { max := 2, maxWait := some 10 }
      [.arrive 1 ⟨5, .ok⟩, .arrive 2 ⟨5, .never⟩, .arrive 3 ⟨0, .panic⟩, .poll 1, .poll 2, .poll 3]
    s.running = [1, 2] ∧ s.queue = [3] ∧ s.free = 0 := by decide

end TR.Props.C01
