import TR.Lemmas.Bulkhead
import TR.Lemmas.BulkheadMulti
/-!
# C01 — the bulkhead never lets more than `max_concurrent_calls` into the inner service

Quantification: every configuration (`max`, `maxWait` none / zero / finite), every list of
operations (= every arrival, poll, cancellation and time-advance order, any number of
callers), every inner script (latency, ok / error / panic / never).
-/
namespace TR.Props.C01
open TR TR.Bulkhead

/-- In every reachable state at most `max` callers are inside the inner service. -/
theorem bound (cfg : Cfg) (ops : List Op) : (run cfg ops).running.length ≤ cfg.max := by
  have := (inv_reachable cfg ops).count; omega

/-- The same statement in the property's own observables: in **every prefix** of the event
log, (inner calls started) − (inner calls finished or dropped) ≤ `max`. -/
theorem trace_bound (cfg : Cfg) (ops : List Op) (n : Nat) :
    calls ((run cfg ops).log.take n) ≤ ended ((run cfg ops).log.take n) + cfg.max :=
  (inv_reachable cfg ops).peak n

/-- The log and the state agree: the calls in flight according to the log are exactly the
callers the model holds in `running` (each of which holds a permit, see `permits_conserved`). -/
theorem trace_matches_state (cfg : Cfg) (ops : List Op) :
    calls (run cfg ops).log = ended (run cfg ops).log + (run cfg ops).running.length :=
  (inv_reachable cfg ops).trace

/-- Permits are conserved: free + handed-over + held = `max`. -/
theorem permits_conserved (cfg : Cfg) (ops : List Op) :
    (run cfg ops).free + (run cfg ops).assigned.length + (run cfg ops).running.length = cfg.max :=
  (inv_reachable cfg ops).count

/-- Non-vacuity: a concrete history in which the bound is attained (two of three callers
inside, the third queued). -/
example :
    let s := run { max := 2, maxWait := some 10 }
      [.arrive 1 ⟨5, .ok⟩, .arrive 2 ⟨5, .never⟩, .arrive 3 ⟨0, .panic⟩, .poll 1, .poll 2, .poll 3]
    s.running = [1, 2] ∧ s.queue = [3] ∧ s.free = 0 := by decide

/-! ## inner readiness failures, several services from one layer value, presets -/

/-- **An inner readiness failure costs and frees nothing.** When the handle a caller wanted to call does not become
ready (its inner service answers `poll_ready` with an error, or stays pending until the caller gives up), the request
is answered and nothing else changes: the free permits, the queue, the permits handed over and the calls in flight
are exactly what they were, and no inner call starts. (`bound` and `trace_bound` quantify over all operation lists,
so they already cover histories with any number of such failures at any point — "inner failure" in the property's
words includes failing readiness.) -/
theorem readiness_failure_changes_nothing (cfg : Cfg) (s : State) (c : Nat) (kind : Option Nat) :
    (stepS cfg s (.refuse c kind)).free = s.free ∧ (stepS cfg s (.refuse c kind)).queue = s.queue ∧
    (stepS cfg s (.refuse c kind)).assigned = s.assigned ∧ (stepS cfg s (.refuse c kind)).running = s.running ∧
    calls (stepS cfg s (.refuse c kind)).log = calls s.log := by
  simp only [stepS]
  split
  · exact ⟨rfl, rfl, rfl, rfl, rfl⟩
  · refine ⟨rfl, rfl, rfl, rfl, ?_⟩
    cases kind <;> simp [refuseCall, emit, calls, isCall]

/-- **Services built from one layer value are separate bulkheads, each with the full bound.** After any
multi-service history (operations of any callers on any services, in any order), every service has at most `max`
callers inside its inner service. -/
theorem services_bound (cfg : Cfg) (mops : List (Nat × Op)) (j : Nat) :
    ((runM cfg mops).insts j).running.length ≤ cfg.max := by
  rw [runM_synced]; exact bound cfg _

/-- … and the same in the observables: in every prefix of service `j`'s event log, calls started − calls ended ≤ `max`. -/
theorem services_trace_bound (cfg : Cfg) (mops : List (Nat × Op)) (j n : Nat) :
    calls (((runM cfg mops).insts j).log.take n) ≤ ended (((runM cfg mops).insts j).log.take n) + cfg.max := by
  rw [runM_synced]; exact trace_bound cfg _ n

/-- Each service conserves its own `max` permits. -/
theorem services_permits_conserved (cfg : Cfg) (mops : List (Nat × Op)) (j : Nat) :
    ((runM cfg mops).insts j).free + ((runM cfg mops).insts j).assigned.length
      + ((runM cfg mops).insts j).running.length = cfg.max := by
  rw [runM_synced]; exact permits_conserved cfg _

/-- The presets are ordinary configurations (`small` 10, `medium` 50, `large` 200 slots, zero wait): the bound holds
with the documented numbers, for every operation list. -/
theorem preset_bounds (ops : List Op) :
    (run presetSmall ops).running.length ≤ 10 ∧ (run presetMedium ops).running.length ≤ 50 ∧
    (run presetLarge ops).running.length ≤ 200 :=
  ⟨bound presetSmall ops, bound presetMedium ops, bound presetLarge ops⟩

/-- Non-vacuity: two services from one layer (`max = 1`): service 0 is full and has a waiter, service 1 admits its own
caller; a readiness failure on service 0 (caller 5) leaves both untouched. -/
example :
    let ms := runM { max := 1, maxWait := none }
      [(0, .arrive 1 ⟨5, .never⟩), (0, .poll 1), (0, .arrive 2 ⟨0, .ok⟩), (0, .poll 2), (0, .refuse 5 (some 9)),
       (1, .arrive 3 ⟨5, .never⟩), (1, .poll 3), (0, .poll 2)]
    (ms.insts 0).running = [1] ∧ (ms.insts 0).queue = [2] ∧ (ms.insts 1).running = [3] ∧ (ms.insts 1).free = 0 ∧
    (ms.insts 2).free = 1 := by decide

end TR.Props.C01
