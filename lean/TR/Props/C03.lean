import TR.Lemmas.CircuitState
/-!
# C03 — an open circuit breaker shields the inner service

Quantification: every configuration, every list of operations (= any number of callers on
clones, every interleaving of admissions, completions, outcome recordings, cancellations,
manual overrides and time advances), with and without fallback, opening by failure rate,
slow-call rate or `force_open`.
-/
namespace TR.Props.C03
open TR TR.Circuit

/-- In every reachable state in which the breaker is open, no inner call has been started
since the transition that opened it (`callsSince` counts `inner_call` events after the last
`transition` event of the log). Since this holds after *every* step, no step taken while the
breaker stays open emits an `inner_call`. -/
theorem open_shields (cfg : Cfg) (ops : List Op) (h : (run cfg ops).circ.st = .opened) :
    callsSince (run cfg ops).log = 0 :=
  (sinv_reachable cfg ops).shield h

/-- The state the model is in is the state an observer of the `on_state_transition` events
has last seen, and `last_state_change` is the instant of that event. -/
theorem observed_state (cfg : Cfg) (ops : List Op) :
    lastTarget (run cfg ops).log = (run cfg ops).circ.st ∧
    lastTrTime (run cfg ops).log = (run cfg ops).circ.lastChange ∧
    (run cfg ops).circ.lastChange ≤ (run cfg ops).now :=
  ⟨(sinv_reachable cfg ops).target, (sinv_reachable cfg ops).trTime, (sinv_reachable cfg ops).clock⟩

/-- The lock-free mirror read by `state_sync()` / `is_open()` always equals the state behind the mutex. -/
theorem mirror_agrees (cfg : Cfg) (ops : List Op) : (run cfg ops).circ.mirror = (run cfg ops).circ.st :=
  (sinv_reachable cfg ops).circ.mirror

/-- A caller first polled while the breaker is open and `wait_duration_in_open` has not elapsed
is answered in that very step with the open-circuit error (or the fallback), the circuit is
untouched, and nothing else happens: in particular no `inner_call`. Holds in *any* state. -/
theorem rejected_touches_nothing (cfg : Cfg) (s : State) (f : Fresh)
    (hst : s.circ.st = .opened) (hw : s.now - s.circ.lastChange < cfg.waitMs) :
    pollFresh cfg s f = rejected cfg s f := by
  have hacq := tryAcquire_acq cfg s.circ s.now
  cases hacq with
  | closed h => rw [hst] at h; cases h
  | toHalf h hw' => omega
  | rejectOpen h hw' hc hok he =>
    unfold pollFresh; simp only
    rw [admitStep_rej cfg s f hok hc he]; simp
  | trial h => rw [hst] at h; cases h
  | rejectHalf h => rw [hst] at h; cases h

/-- "Answered at once": the step that rejects a caller leaves the breaker and the running calls untouched and
appends, at that very instant and as its first event, the open-circuit error or the invocation of the
configured fallback (`fallback_call`), followed by nothing but that fallback's own value if it finishes at once.
Holds in *any* state: in particular however many other callers' fallbacks are still pending (`s.falling`) —
a rejected caller never waits for another caller's fallback. -/
theorem rejected_answered_at_once (cfg : Cfg) (s : State) (f : Fresh) :
    (rejected cfg s f).circ = s.circ ∧ (rejected cfg s f).running = s.running ∧
    ∃ rest, (rejected cfg s f).log =
        s.log ++ (s.now, if cfg.fallback then CEv.fbCall f.c else CEv.result f.c .openCircuit) :: rest ∧
      ∀ p ∈ rest, p = (s.now, CEv.result f.c (fbRes f.c f.fb.out)) := by
  unfold rejected
  by_cases hfb : cfg.fallback = true
  · simp only [hfb, if_true]
    unfold startFallback
    split
    · exact ⟨rfl, rfl, [(s.now, CEv.result f.c (fbRes f.c f.fb.out))], rfl, by simp⟩
    · exact ⟨rfl, rfl, [], rfl, by simp⟩
  · simp only [hfb]
    exact ⟨rfl, rfl, [], rfl, by simp⟩

/-- A pending fallback is outside the breaker: polling (or dropping) a caller that waits for its fallback
reads and writes nothing of the circuit, starts no inner call and touches no other caller; all it can do is
deliver that caller's own result (or record the cancellation). So it cannot hold the breaker's lock. -/
theorem pending_fallback_outside_breaker (cfg : Cfg) (s : State) (c : Nat) (r : Falling)
    (hf : findFresh s.fresh c = none) (hr : findFalling s.falling c = some r) :
    (stepS cfg s (.poll c)).circ = s.circ ∧ (stepS cfg s (.poll c)).running = s.running ∧
    (stepS cfg s (.poll c)).fresh = s.fresh ∧ (stepS cfg s (.poll c)).serial = s.serial ∧
    ((stepS cfg s (.poll c)).log = s.log ∨
      (stepS cfg s (.poll c)).log = s.log ++ [(s.now, CEv.result r.c (fbRes r.c r.out))]) ∧
    (stepS cfg s (.drop c)).circ = s.circ ∧ (stepS cfg s (.drop c)).running = s.running ∧
    (stepS cfg s (.drop c)).log = s.log ++ [(s.now, CEv.fbDrop r.c)] := by
  simp only [stepS, hf, hr]
  have hp := pollFalling_frame s r
  exact ⟨hp.1, hp.2.1, hp.2.2.1, hp.2.2.2.1, hp.2.2.2.2, rfl, rfl, rfl⟩

/-- The breaker never depends on pending fallbacks: for every operation that is not the poll / drop of a caller
waiting for its fallback — admissions and rejections of other callers (same handle or clones), completions and
outcome recordings of calls admitted earlier, `state()` / `metrics()` probes, `force_open`, `force_closed`,
`reset`, time — the step does to everything but the list of pending fallbacks exactly what it would do if no
fallback were pending at all (`core` forgets that list). -/
theorem breaker_ignores_pending_fallbacks (cfg : Cfg) (s : State) (op : Op)
    (h : ∀ c, (op = .poll c ∨ op = .drop c) → findFalling s.falling c = none) :
    core (stepS cfg s op) = core (stepS cfg (core s) op) := by
  cases op with
  | adv ms => rfl
  | arrive c sc tag fb =>
    simp only [stepS, show (core s).seen = s.seen from rfl]
    split <;> rfl
  | poll c =>
    have hn := h c (Or.inl rfl)
    simp only [stepS, show (core s).fresh = s.fresh from rfl, show (core s).falling = [] from rfl, hn]
    cases findFresh s.fresh c with
    | some f => exact (pollFresh_core cfg s f).symm
    | none =>
      show core (pollRunning cfg s c) = core (pollRunning cfg (core s) c)
      rw [pollRunning_core]; rfl
  | drop c =>
    have hn := h c (Or.inr rfl)
    simp only [stepS, show (core s).fresh = s.fresh from rfl, show (core s).falling = [] from rfl, hn,
      show (core s).running = s.running from rfl]
    cases findFresh s.fresh c with
    | some f => rfl
    | none =>
      show core (match findRunning s.running c with | some r => dropRunning s c r | none => s)
        = core (match findRunning s.running c with | some r => dropRunning (core s) c r | none => core s)
      cases findRunning s.running c <;> rfl
  | forceOpen => rfl
  | forceClosed => rfl
  | reset => rfl
  | views => rfl

/-- If a caller is admitted while the breaker is open, then `wait_duration_in_open` had elapsed
and the breaker moved to half-open first (the admission's first event is that transition). -/
theorem admitted_from_open (cfg : Cfg) (s : State) (f : Fresh) (hst : s.circ.st = .opened)
    (hok : (admitStep cfg s f).2 = true) :
    s.now - s.circ.lastChange ≥ cfg.waitMs ∧ (admitStep cfg s f).1.circ.st = .halfOpen ∧
    (admitStep cfg s f).1.log =
      s.log ++ [(s.now, CEv.transition .opened .halfOpen), (s.now, CEv.innerCall f.c s.serial)] := by
  have hacq := tryAcquire_acq cfg s.circ s.now
  cases hacq with
  | closed h => rw [hst] at h; cases h
  | toHalf h hw hok' he h2 =>
    rw [admitStep_ok cfg s f hok']
    refine ⟨hw, h2, ?_⟩
    simp [admitted, he]
  | rejectOpen h hw' hc hok' he => rw [admitStep_rej cfg s f hok' hc he] at hok; cases hok
  | trial h => rw [hst] at h; cases h
  | rejectHalf h => rw [hst] at h; cases h

/-- The open state is left only by a manual `force_closed` / `reset`, or by the first poll of a
caller once `wait_duration_in_open` has elapsed. Completions and cancellations of calls
admitted earlier never close or half-open it. -/
theorem leaves_open_only_after_wait_or_manual (cfg : Cfg) (s : State) (op : Op)
    (hst : s.circ.st = .opened) (hleft : (stepS cfg s op).circ.st ≠ .opened) :
    op = .forceClosed ∨ op = .reset ∨ ∃ c, op = .poll c ∧ s.now - s.circ.lastChange ≥ cfg.waitMs := by
  cases op with
  | adv ms => exact absurd hst hleft
  | arrive c sc tag fb => simp only [stepS] at hleft; split at hleft <;> exact absurd hst hleft
  | poll c =>
    right; right
    refine ⟨c, rfl, ?_⟩
    by_cases hw : s.now - s.circ.lastChange ≥ cfg.waitMs
    · exact hw
    · exfalso
      simp only [stepS] at hleft
      split at hleft
      · rename_i f _
        rw [rejected_touches_nothing cfg s f hst (by omega)] at hleft
        exact hleft (by rw [rejected_circ]; exact hst)
      · split at hleft
        · rename_i r _; rw [(pollFalling_frame s r).1] at hleft; exact hleft hst
        · exact hleft (pollRunning_opened cfg s c hst)
  | drop c =>
    simp only [stepS] at hleft
    split at hleft
    · exact absurd hst hleft
    · split at hleft
      · exact absurd hst hleft
      · split at hleft
        · unfold dropRunning at hleft; simp only at hleft
          rw [releaseTrial_st] at hleft; exact absurd hst hleft
        · exact absurd hst hleft
  | forceOpen =>
    simp only [stepS, emit_circ] at hleft
    rw [transitionTo_st] at hleft; exact absurd rfl hleft
  | forceClosed => left; rfl
  | reset => right; left; rfl
  | views => exact absurd hst hleft

/-- Non-vacuity: a breaker opened by failures rejects at `wait − 1` and admits (moving to
half-open) at exactly `wait`. -/
example :
    let cfg : Cfg := { size := 2, minCalls := 2, waitMs := 30, permitted := 1 }
    let pre := [Op.arrive 1 ⟨0, .err 1⟩ 0, .poll 1, .arrive 2 ⟨0, .err 1⟩ 0, .poll 2]
    (run cfg pre).circ.st = .opened ∧
    (run cfg (pre ++ [.adv 29, .arrive 3 ⟨0, .ok⟩ 0, .poll 3])).circ.st = .opened ∧
    (run cfg (pre ++ [.adv 29, .arrive 3 ⟨0, .ok⟩ 0, .poll 3])).serial = 2 ∧
    (run cfg (pre ++ [.adv 30, .arrive 3 ⟨5, .ok⟩ 0, .poll 3])).circ.st = .halfOpen ∧
    (run cfg (pre ++ [.adv 30, .arrive 3 ⟨5, .ok⟩ 0, .poll 3])).serial = 3 := by decide

/-- Non-vacuity: an open breaker with a fallback; caller 1's fallback takes 5 ms, caller 2 (a clone) arrives
meanwhile and is answered at once by its own fallback, a probe and `force_closed` go through meanwhile, caller 3
is then admitted; caller 1 gets its fallback value at t = 5. The inner service is reached by caller 3 only. -/
example :
    let cfg : Cfg := { size := 2, minCalls := 2, waitMs := 1000, fallback := true }
    let ops := [Op.forceOpen, .arrive 1 ⟨0, .ok⟩ 0 ⟨5, .ok⟩, .poll 1, .arrive 2 ⟨0, .ok⟩ 0, .poll 2, .views, .forceClosed,
                .arrive 3 ⟨0, .ok⟩ 0, .poll 3, .adv 5, .poll 1]
    (run cfg ops).log.map (·.2) =
      [.manual "force_open", .transition .closed .opened, .fbCall 1, .fbCall 2, .result 2 (.fallback 2),
       .views "views state=open sync=open is_open=1 mstate=open total=0 fail=0 succ=0 slow=0",
       .manual "force_closed", .transition .opened .closed, .innerCall 3 0, .innerDone 3 0 .ok, .result 3 (.ok 0),
       .result 1 (.fallback 1)] ∧
    (run cfg ops).falling.length = 0 := by decide

/-! ## Units: the model is unit-free (whole clock ticks)

Every statement above holds for every `cfg.waitMs : Nat` and every instant: nothing assumes that a configured duration is a
whole number of milliseconds. In `tick=us` cases of the correspondence check one tick is 1 µs (`wait=900` is 900 µs); only the
scripted latencies of the test double (`inner=`, `fb=`: tokio timers) are in milliseconds, `cfg.msTicks` ticks each. -/

/-- A scripted latency of `lat > 0` ms started at `now` is over at the first millisecond boundary at or after `now + lat` ms
(timer granularity of the test double), and exactly at `now + lat` when one tick is one millisecond. -/
theorem scripted_latency_on_ms_grid (cfg : Cfg) (now lat : Nat) (hm : cfg.msTicks ≥ 1) (hl : lat > 0) :
    now + lat * cfg.msTicks ≤ due cfg now lat ∧ due cfg now lat < now + lat * cfg.msTicks + cfg.msTicks ∧
    due cfg now lat % cfg.msTicks = 0 := by
  unfold due
  have hl' : lat ≠ 0 := by omega
  simp only [hl', if_false]
  generalize now + lat * cfg.msTicks = x
  have h1 := Nat.div_add_mod (x + (cfg.msTicks - 1)) cfg.msTicks
  have h2 := Nat.mod_lt (x + (cfg.msTicks - 1)) hm
  have h3 : (x + (cfg.msTicks - 1)) / cfg.msTicks * cfg.msTicks = cfg.msTicks * ((x + (cfg.msTicks - 1)) / cfg.msTicks) := Nat.mul_comm _ _
  refine ⟨by omega, by omega, ?_⟩
  exact Nat.mul_mod_left _ _

theorem scripted_latency_ms (cfg : Cfg) (now lat : Nat) (hm : cfg.msTicks = 1) : due cfg now lat = now + lat := by
  unfold due
  split
  · omega
  · simp [hm]

/-- Non-vacuity on the microsecond grid: `wait_duration_in_open` = 900 µs. Forced open at 0; a caller at 899 µs is rejected
(no inner call), a caller at 900 µs is admitted as the trial; its inner call (1 ms, started at 900 µs) is over at the
millisecond boundary 2000 µs: still half-open at 1999, closed at 2000. -/
example :
    let cfg : Cfg := { waitMs := 900, msTicks := 1000, permitted := 1 }
    let pre := [Op.forceOpen, .adv 899, .arrive 1 ⟨0, .ok⟩ 0, .poll 1]
    (run cfg pre).circ.st = .opened ∧ (run cfg pre).serial = 0 ∧
    (run cfg pre).log.getLast? = some (899, CEv.result 1 .openCircuit) ∧
    (run cfg (pre ++ [.adv 1, .arrive 2 ⟨1, .ok⟩ 0, .poll 2])).circ.st = .halfOpen ∧
    (run cfg (pre ++ [.adv 1, .arrive 2 ⟨1, .ok⟩ 0, .poll 2])).serial = 1 ∧
    (run cfg (pre ++ [.adv 1, .arrive 2 ⟨1, .ok⟩ 0, .poll 2, .adv 1099, .poll 2])).circ.st = .halfOpen ∧
    (run cfg (pre ++ [.adv 1, .arrive 2 ⟨1, .ok⟩ 0, .poll 2, .adv 1100, .poll 2])).circ.st = .closed := by
  decide

end TR.Props.C03
