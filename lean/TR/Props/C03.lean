import TR.Lemmas.CircuitState
/-!
# C03 — an open circuit breaker shields the inner service

Quantification: every configuration, every list of operations (= any number of callers on
clones, every interleaving of admissions, completions, outcome recordings, cancellations,
manual overrides and time advances), with and without fallback, opening by failure rate,
slow-call rate or `force_open`.
-/
namespace TR.Props.C03
open TR TR.Circuit

/-- In every reachable state in which the breaker is open, no inner call has been started
since the transition that opened it (`callsSince` counts `inner_call` events after the last
`transition` event of the log). Since this holds after *every* step, no step taken while the
breaker stays open emits an `inner_call`. -/
theorem open_shields (cfg : Cfg) (ops : List Op) (h : (run cfg ops).circ.st = .opened) :
    callsSince (run cfg ops).log = 0 :=
  (sinv_reachable cfg ops).shield h

/-- The state the model is in is the state an observer of the `on_state_transition` events
has last seen, and `last_state_change` is the instant of that event. -/
theorem observed_state (cfg : Cfg) (ops : List Op) :
    lastTarget (run cfg ops).log = (run cfg ops).circ.st ∧
    lastTrTime (run cfg ops).log = (run cfg ops).circ.lastChange ∧
    (run cfg ops).circ.lastChange ≤ (run cfg ops).now :=
  ⟨(sinv_reachable cfg ops).target, (sinv_reachable cfg ops).trTime, (sinv_reachable cfg ops).clock⟩

/-- The lock-free mirror read by `state_sync()` / `is_open()` always equals the state behind the mutex. -/
theorem mirror_agrees (cfg : Cfg) (ops : List Op) : (run cfg ops).circ.mirror = (run cfg ops).circ.st :=
  (sinv_reachable cfg ops).circ.mirror

/-- A caller first polled while the breaker is open and `wait_duration_in_open` has not elapsed
is answered in that very step with the open-circuit error (or the fallback), the circuit is
untouched, and nothing else happens: in particular no `inner_call`. Holds in *any* state. -/
theorem rejected_touches_nothing (cfg : Cfg) (s : State) (f : Fresh)
    (hst : s.circ.st = .opened) (hw : s.now - s.circ.lastChange < cfg.waitMs) :
    pollFresh cfg s f = rejected cfg s f := by
  have hacq := tryAcquire_acq cfg s.circ s.now
  cases hacq with
  | closed h => rw [hst] at h; cases h
  | toHalf h hw' => omega
  | rejectOpen h hw' hc hok he =>
    unfold pollFresh; simp only
    rw [admitStep_rej cfg s f hok hc he]; simp
  | trial h => rw [hst] at h; cases h
  | rejectHalf h => rw [hst] at h; cases h

/-- If a caller is admitted while the breaker is open, then `wait_duration_in_open` had elapsed
and the breaker moved to half-open first (the admission's first event is that transition). -/
theorem admitted_from_open (cfg : Cfg) (s : State) (f : Fresh) (hst : s.circ.st = .opened)
    (hok : (admitStep cfg s f).2 = true) :
    s.now - s.circ.lastChange ≥ cfg.waitMs ∧ (admitStep cfg s f).1.circ.st = .halfOpen ∧
    (admitStep cfg s f).1.log =
      s.log ++ [(s.now, CEv.transition .opened .halfOpen), (s.now, CEv.innerCall f.c s.serial)] := by
  have hacq := tryAcquire_acq cfg s.circ s.now
  cases hacq with
  | closed h => rw [hst] at h; cases h
  | toHalf h hw hok' he h2 =>
    rw [admitStep_ok cfg s f hok']
    refine ⟨hw, h2, ?_⟩
    simp [admitted, he]
  | rejectOpen h hw' hc hok' he => rw [admitStep_rej cfg s f hok' hc he] at hok; cases hok
  | trial h => rw [hst] at h; cases h
  | rejectHalf h => rw [hst] at h; cases h

/-- The open state is left only by a manual `force_closed` / `reset`, or by the first poll of a
caller once `wait_duration_in_open` has elapsed. Completions and cancellations of calls
admitted earlier never close or half-open it. -/
theorem leaves_open_only_after_wait_or_manual (cfg : Cfg) (s : State) (op : Op)
    (hst : s.circ.st = .opened) (hleft : (stepS cfg s op).circ.st ≠ .opened) :
    op = .forceClosed ∨ op = .reset ∨ ∃ c, op = .poll c ∧ s.now - s.circ.lastChange ≥ cfg.waitMs := by
  cases op with
  | adv ms => exact absurd hst hleft
  | arrive c sc tag => simp only [stepS] at hleft; split at hleft <;> exact absurd hst hleft
  | poll c =>
    right; right
    refine ⟨c, rfl, ?_⟩
    by_cases hw : s.now - s.circ.lastChange ≥ cfg.waitMs
    · exact hw
    · exfalso
      simp only [stepS] at hleft
      split at hleft
      · rename_i f _
        rw [rejected_touches_nothing cfg s f hst (by omega)] at hleft
        exact hleft hst
      · exact hleft (pollRunning_opened cfg s c hst)
  | drop c =>
    simp only [stepS] at hleft
    split at hleft
    · exact absurd hst hleft
    · split at hleft
      · unfold dropRunning at hleft; simp only at hleft
        rw [releaseTrial_st] at hleft; exact absurd hst hleft
      · exact absurd hst hleft
  | forceOpen =>
    simp only [stepS, emit_circ] at hleft
    rw [transitionTo_st] at hleft; exact absurd rfl hleft
  | forceClosed => left; rfl
  | reset => right; left; rfl
  | views => exact absurd hst hleft

/-- Non-vacuity: a breaker opened by failures rejects at `wait − 1` and admits (moving to
half-open) at exactly `wait`. -/
example :
    let cfg : Cfg := { size := 2, minCalls := 2, waitMs := 30, permitted := 1 }
    let pre := [Op.arrive 1 ⟨0, .err 1⟩ 0, .poll 1, .arrive 2 ⟨0, .err 1⟩ 0, .poll 2]
    (run cfg pre).circ.st = .opened ∧
    (run cfg (pre ++ [.adv 29, .arrive 3 ⟨0, .ok⟩ 0, .poll 3])).circ.st = .opened ∧
    (run cfg (pre ++ [.adv 29, .arrive 3 ⟨0, .ok⟩ 0, .poll 3])).serial = 2 ∧
    (run cfg (pre ++ [.adv 30, .arrive 3 ⟨5, .ok⟩ 0, .poll 3])).circ.st = .halfOpen ∧
    (run cfg (pre ++ [.adv 30, .arrive 3 ⟨5, .ok⟩ 0, .poll 3])).serial = 3 := by decide

end TR.Props.C03
