import TR.Lemmas.CircuitTrace
/-!
# C03 — an open circuit breaker shields the inner service

Quantification: every configuration, every list of operations (= any number of callers on
clones, every interleaving of admissions, completions, outcome recordings, cancellations,
manual overrides and time advances), with and without fallback, opening by failure rate,
slow-call rate or `force_open`.
-/
namespace TR.Props.C03
open TR TR.Circuit

/-- In every reachable STATE (= between two steps) in which the breaker is open, no inner call has been started since the
transition that opened it (`callsSince` counts `inner_call` events after the last `transition` event of the log).
This is a statement about step boundaries only. It does NOT say that a step which starts and ends with the breaker open
emits no `inner_call`: one poll can take the breaker open → half-open → open (a trial call admitted after the wait that fails at
once), and that step does start an inner call — between two transition events. The statement about every position of the log is
`open_shields_every_prefix` / `open_window` below. -/
theorem open_shields (cfg : Cfg) (ops : List Op) (h : (run cfg ops).circ.st = .opened) :
    callsSince (run cfg ops).log = 0 :=
  (sinv_reachable cfg ops).shield h

/-- The log of a run extends the log of each of its earlier stages: events are only ever appended. -/
theorem log_only_grows (cfg : Cfg) (ops : List Op) (n : Nat) : (run cfg (ops.take n)).log <+: (run cfg ops).log :=
  log_prefix cfg ops n

/-- **Every event-level prefix of every reachable log** (cut anywhere, also in the middle of a step): if the last transition
event of the prefix went to open, the prefix contains no `inner_call` event after it. -/
theorem open_shields_every_prefix (cfg : Cfg) (ops : List Op) (n : Nat)
    (h : lastTarget ((run cfg ops).log.take n) = .opened) : callsSince ((run cfg ops).log.take n) = 0 := by
  have hok := tr_ok_take cfg _ n (tinv_reachable cfg ops).ok
  have hf := tr_fields cfg ((run cfg ops).log.take n)
  have hg := (tr_ok_good cfg _ hok).1
  rw [hf.1, hf.2.2.1] at hg
  exact hg h

/-- **Trace-level shielding.** Take any `→ open` transition event of a reachable log — position `i`, instant `t0` — and any later
position `n` such that no transition event lies strictly between them ("until the next transition event"). Then
* the event at `n` is not an `inner_call` — no call reaches the wrapped service; and
* if the event at `n` is itself a transition (the next one), it leaves `open`, and either goes to half-open at an instant
  `≥ t0 + wait_duration_in_open`, or goes to closed and is an override: the last event before it that is not a transition is
  the operator's `manual force_closed` / `manual reset`, or `manual yield` (the scheduler running the task of a
  `trigger_healthy()` health signal) — `afterOverride`.
For all configurations, operation sequences (any number of callers on clones, every interleaving), with and without fallback. -/
theorem open_window (cfg : Cfg) (ops : List Op) (i n t0 : Nat) (a m : St)
    (hi : (run cfg ops).log[i]? = some (t0, .transition a .opened m)) (hin : i < n)
    (hq : ∀ j, i < j → j < n → ¬ trAt (run cfg ops).log j) :
    (∀ t c k, (run cfg ops).log[n]? ≠ some (t, .innerCall c k)) ∧
    (∀ tn x y z, (run cfg ops).log[n]? = some (tn, .transition x y z) →
      x = .opened ∧ ((y = .halfOpen ∧ t0 + cfg.waitMs ≤ tn) ∨
                     (y = .closed ∧ afterOverride ((run cfg ops).log.take n) = true))) := by
  have hok := (tinv_reachable cfg ops).ok
  have hn : n = i + 1 + (n - i - 1) := by omega
  have hsum := summaries_after_transition (run cfg ops).log i t0 a .opened m hi (n - i - 1)
    (fun j h1 h2 => hq j h1 (by omega))
  rw [← hn] at hsum
  have hf := tr_fields cfg ((run cfg ops).log.take n)
  constructor
  · intro t c k hp
    have := evOK_call cfg _ t c k (tr_ok_at cfg _ n _ hp hok)
    rw [hf.1, hsum.1] at this
    exact this rfl
  · intro tn x y z hp
    have := evOK_transition cfg _ tn x y z (tr_ok_at cfg _ n _ hp hok)
    rw [hf.1, hf.2.1, hf.2.2.2.2, hsum.1, hsum.2] at this
    exact ⟨this.1, this.2.2.2 this.1⟩

/-- The same in "there is a transition in between" form: if an `inner_call` event stands after a `→ open` transition event,
then a transition event lies strictly between them; the FIRST such one leaves `open` for half-open no earlier than
`t0 + wait_duration_in_open`, or for closed by an override; and no `inner_call` stands before it. -/
theorem open_interval (cfg : Cfg) (ops : List Op) (i j t0 t c k : Nat) (a m : St)
    (hi : (run cfg ops).log[i]? = some (t0, .transition a .opened m))
    (hj : (run cfg ops).log[j]? = some (t, .innerCall c k)) (hij : i < j) :
    ∃ n tn y z, i < n ∧ n < j ∧ (run cfg ops).log[n]? = some (tn, .transition .opened y z) ∧
      (∀ n', i < n' → n' < n → ¬ trAt (run cfg ops).log n') ∧
      (∀ n' t' c' k', i < n' → n' < n → (run cfg ops).log[n']? ≠ some (t', .innerCall c' k')) ∧
      ((y = .halfOpen ∧ t0 + cfg.waitMs ≤ tn) ∨ (y = .closed ∧ afterOverride ((run cfg ops).log.take n) = true)) := by
  rcases first_transition (run cfg ops).log i (j - i - 1) with h | ⟨n, h1, h2, ⟨tn, x, y, z, hp⟩, h4⟩
  · exfalso
    exact (open_window cfg ops i j t0 a m hi hij (fun n h1 h2 => h n h1 (by omega))).1 t c k hj
  · have hw := (open_window cfg ops i n t0 a m hi h1 h4).2 tn x y z hp
    refine ⟨n, tn, y, z, h1, by omega, by rw [hp, hw.1], h4, ?_, hw.2⟩
    intro n' t' c' k' g1 g2
    exact (open_window cfg ops i n' t0 a m hi g1 (fun q q1 q2 => h4 q q1 (by omega))).1 t' c' k'

/-- **From "observed open" to the event `open_window` starts from.** Whoever observes the breaker open between two operations —
through the lock-free view (`state_sync()`, `is_open()`, `http_status() = 503`), the async view, or by having heard the last
transition — is after a `→ open` transition event of the log: it is there, no transition event stands after it, and its instant
is `last_state_change`. So `open_window` applies from that position: no `inner_call` until the next transition event. -/
theorem observed_open_has_its_event (cfg : Cfg) (ops : List Op) (h : (run cfg ops).circ.mirror = .opened) :
    ∃ i t0 a m, (run cfg ops).log[i]? = some (t0, .transition a .opened m) ∧
      (∀ j, i < j → ¬ trAt (run cfg ops).log j) ∧ t0 = (run cfg ops).circ.lastChange := by
  have hs := sinv_reachable cfg ops
  have hst : (run cfg ops).circ.st = .opened := by rw [← hs.circ.mirror]; exact h
  obtain ⟨i, t0, a, m, hi, hafter⟩ := last_transition_event (run cfg ops).log .opened (by simp) (hs.target.trans hst)
  refine ⟨i, t0, a, m, hi, hafter, ?_⟩
  have := (summaries_after_transition (run cfg ops).log i t0 a .opened m hi (run cfg ops).log.length
    (fun j h1 _ => hafter j h1)).2
  rw [List.take_of_length_le (by omega)] at this
  rw [← this]
  exact hs.trTime

/-- **What a listener sees.** `transition_to` announces a transition BEFORE it applies it: for every `transition a b` event of
every reachable log, a listener that reads `state_sync()` (`is_open()`, `http_status()`, …) inside its `on_state_transition`
callback reads `a` — the state the breaker is leaving (`m`, third field of the event), never `b`; and `a` is the state the
previous transition event led to. (After the callback returns — from the next operation on — the views say `b`: `mirror_agrees`.) -/
theorem listener_sees_state_before_transition (cfg : Cfg) (ops : List Op) (n t : Nat) (a b m : St)
    (hp : (run cfg ops).log[n]? = some (t, .transition a b m)) :
    m = a ∧ a ≠ b ∧ a = lastTarget ((run cfg ops).log.take n) := by
  have := evOK_transition cfg _ t a b m (tr_ok_at cfg _ n _ hp (tinv_reachable cfg ops).ok)
  rw [(tr_fields cfg _).1] at this
  exact ⟨this.2.2.1, this.2.1, this.1⟩

/-- A step taken from a reachable open state whose new events contain no transition event (the breaker "stays open" in the
strict sense: nobody is told about any transition) starts no inner call. -/
theorem no_inner_call_while_no_transition (cfg : Cfg) (ops : List Op) (op : Op) (hst : (run cfg ops).circ.st = .opened)
    (hq : ∀ p ∈ (stepS cfg (run cfg ops) op).log.drop (run cfg ops).log.length, ∀ a b m, p.2 ≠ CEv.transition a b m) :
    ∀ p ∈ (stepS cfg (run cfg ops) op).log.drop (run cfg ops).log.length, ∀ c k, p.2 ≠ CEv.innerCall c k := by
  obtain ⟨x, hx⟩ := stepS_log_prefix cfg (run cfg ops) op
  have hrun : stepS cfg (run cfg ops) op = run cfg (ops ++ [op]) := by simp [run, List.foldl_append]
  rw [← hx, List.drop_left] at hq ⊢
  intro p hp c k hpk
  obtain ⟨j, hj, hjp⟩ := List.getElem_of_mem hp
  have hget : (run cfg (ops ++ [op])).log[(run cfg ops).log.length + j]? = some p := by
    rw [← hrun, ← hx, List.getElem?_append_right (Nat.le_add_right _ _)]
    simp [hjp, hj]
  have hok := tr_ok_at cfg _ _ _ hget (tinv_reachable cfg (ops ++ [op])).ok
  have htake : (run cfg (ops ++ [op])).log.take ((run cfg ops).log.length + j) = (run cfg ops).log ++ x.take j := by
    rw [← hrun, ← hx, List.take_length_add_append]
  obtain ⟨t, e⟩ := p
  simp only at hpk
  subst hpk
  have := evOK_call cfg _ t c k hok
  rw [(tr_fields cfg _).1, htake, lastTarget_append_quiet _ _ (fun q hq' => hq q (List.mem_of_mem_take hq'))] at this
  exact this ((sinv_reachable cfg ops).target.trans hst)

/-- **Calls admitted before it opened may still complete.** A call in flight whose inner call is over is, when polled while
the breaker is open, completed: its `inner_done` and its own result are the two events of that step, its outcome is
recorded, and the breaker stays open (no transition is announced). Holds in any state. -/
theorem running_completes_while_open (cfg : Cfg) (s : State) (c : Nat) (r : Caller) (hst : s.circ.st = .opened)
    (hf : findFresh s.fresh c = none) (hfl : findFalling s.falling c = none) (hr : findRunning s.running c = some r)
    (hd : s.now ≥ r.doneAt) (hn : r.out ≠ .never) :
    (stepS cfg s (.poll c)).log = s.log ++ [(s.now, CEv.innerDone r.c r.k r.out),
      (s.now, CEv.result r.c (if r.out = .panic then .panic else resOf r.k r.out))] ∧
    (stepS cfg s (.poll c)).circ.st = .opened ∧ (stepS cfg s (.poll c)).running = s.running.eraseP (·.c == c) := by
  have hopen := pollRunning_opened cfg s c hst
  simp only [stepS, hf, hfl] at hopen ⊢
  refine ⟨?_, hopen, ?_⟩
  · unfold pollRunning complete
    simp only [hr, hd, hn, ne_eq, not_false_eq_true, and_self, if_true]
    split
    · rename_i hp; simp [emit, hp]
    · rename_i o hno
      have hq := fun own => record_opened_quiet cfg s.circ (classify cfg r.out r.tag) (s.now - r.start) s.now own hst
      have hnp : r.out ≠ .panic := by intro h; exact hno h
      simp [emit, hq, hnp]
  · unfold pollRunning complete
    simp only [hr, hd, hn, ne_eq, not_false_eq_true, and_self, if_true]
    split <;> rfl

/-- The state the model is in is the state an observer of the `on_state_transition` events
has last seen, and `last_state_change` is the instant of that event. -/
theorem observed_state (cfg : Cfg) (ops : List Op) :
    lastTarget (run cfg ops).log = (run cfg ops).circ.st ∧
    lastTrTime (run cfg ops).log = (run cfg ops).circ.lastChange ∧
    (run cfg ops).circ.lastChange ≤ (run cfg ops).now :=
  ⟨(sinv_reachable cfg ops).target, (sinv_reachable cfg ops).trTime, (sinv_reachable cfg ops).clock⟩

/-- The lock-free mirror read by `state_sync()` / `is_open()` always equals the state behind the mutex. -/
theorem mirror_agrees (cfg : Cfg) (ops : List Op) : (run cfg ops).circ.mirror = (run cfg ops).circ.st :=
  (sinv_reachable cfg ops).circ.mirror

/-- A caller first polled while the breaker is open and `wait_duration_in_open` has not elapsed
is answered in that very step with the open-circuit error (or the fallback), the circuit is
untouched, and nothing else happens: in particular no `inner_call`. Holds in *any* state. -/
theorem rejected_touches_nothing (cfg : Cfg) (s : State) (f : Fresh)
    (hst : s.circ.st = .opened) (hw : s.now - s.circ.lastChange < cfg.waitMs) :
    pollFresh cfg s f = rejected cfg s f := by
  have hacq := tryAcquire_acq cfg s.circ s.now
  cases hacq with
  | closed h => rw [hst] at h; cases h
  | toHalf h hw' => omega
  | rejectOpen h hw' hc hok he =>
    unfold pollFresh; simp only
    rw [admitStep_rej cfg s f hok hc he]; simp
  | trial h => rw [hst] at h; cases h
  | rejectHalf h => rw [hst] at h; cases h

/-- "Answered at once": the step that rejects a caller leaves the breaker and the running calls untouched and
appends, at that very instant and as its first event, the open-circuit error or the invocation of the
configured fallback (`fallback_call`), followed by nothing but that fallback's own value if it finishes at once.
Holds in *any* state: in particular however many other callers' fallbacks are still pending (`s.falling`) —
a rejected caller never waits for another caller's fallback. -/
theorem rejected_answered_at_once (cfg : Cfg) (s : State) (f : Fresh) :
    (rejected cfg s f).circ = s.circ ∧ (rejected cfg s f).running = s.running ∧
    ∃ rest, (rejected cfg s f).log =
        s.log ++ (s.now, if cfg.fallback then CEv.fbCall f.c else CEv.result f.c .openCircuit) :: rest ∧
      ∀ p ∈ rest, p = (s.now, CEv.result f.c (fbRes f.c f.fb.out)) := by
  unfold rejected
  by_cases hfb : cfg.fallback = true
  · simp only [hfb, if_true]
    unfold startFallback
    split
    · exact ⟨rfl, rfl, [(s.now, CEv.result f.c (fbRes f.c f.fb.out))], rfl, by simp⟩
    · exact ⟨rfl, rfl, [], rfl, by simp⟩
  · simp only [hfb]
    exact ⟨rfl, rfl, [], rfl, by simp⟩

/-- A pending fallback is outside the breaker: polling (or dropping) a caller that waits for its fallback
reads and writes nothing of the circuit, starts no inner call and touches no other caller; all it can do is
deliver that caller's own result (or record the cancellation). So it cannot hold the breaker's lock. -/
theorem pending_fallback_outside_breaker (cfg : Cfg) (s : State) (c : Nat) (r : Falling)
    (hf : findFresh s.fresh c = none) (hr : findFalling s.falling c = some r) :
    (stepS cfg s (.poll c)).circ = s.circ ∧ (stepS cfg s (.poll c)).running = s.running ∧
    (stepS cfg s (.poll c)).fresh = s.fresh ∧ (stepS cfg s (.poll c)).serial = s.serial ∧
    ((stepS cfg s (.poll c)).log = s.log ∨
      (stepS cfg s (.poll c)).log = s.log ++ [(s.now, CEv.result r.c (fbRes r.c r.out))]) ∧
    (stepS cfg s (.drop c)).circ = s.circ ∧ (stepS cfg s (.drop c)).running = s.running ∧
    (stepS cfg s (.drop c)).log = s.log ++ [(s.now, CEv.fbDrop r.c)] := by
  simp only [stepS, hf, hr]
  have hp := pollFalling_frame s r
  exact ⟨hp.1, hp.2.1, hp.2.2.1, hp.2.2.2.1, hp.2.2.2.2, rfl, rfl, rfl⟩

theorem foldl_applyTask_core (l : List Bool) (t : State) :
    core (l.foldl applyTask (core t)) = core (l.foldl applyTask t) := by
  induction l generalizing t with
  | nil => rfl
  | cons u tl ih => exact ih (applyTask t u)

/-- The breaker never depends on pending fallbacks: for every operation that is not the poll / drop of a caller
waiting for its fallback — admissions and rejections of other callers (same handle or clones), completions and
outcome recordings of calls admitted earlier, `state()` / `metrics()` probes, `force_open`, `force_closed`,
`reset`, time — the step does to everything but the list of pending fallbacks exactly what it would do if no
fallback were pending at all (`core` forgets that list). -/
theorem breaker_ignores_pending_fallbacks (cfg : Cfg) (s : State) (op : Op)
    (h : ∀ c, (op = .poll c ∨ op = .drop c) → findFalling s.falling c = none) :
    core (stepS cfg s op) = core (stepS cfg (core s) op) := by
  cases op with
  | adv ms => rfl
  | arrive c sc tag fb =>
    simp only [stepS, show (core s).seen = s.seen from rfl, show (core s).gate = s.gate from rfl]
    split
    · rfl
    · split <;> rfl
  | poll c =>
    have hn := h c (Or.inl rfl)
    simp only [stepS, show (core s).fresh = s.fresh from rfl, show (core s).falling = [] from rfl, hn]
    cases findFresh s.fresh c with
    | some f => exact (pollFresh_core cfg s f).symm
    | none =>
      show core (pollRunning cfg s c) = core (pollRunning cfg (core s) c)
      rw [pollRunning_core]; rfl
  | drop c =>
    have hn := h c (Or.inr rfl)
    simp only [stepS, show (core s).fresh = s.fresh from rfl, show (core s).falling = [] from rfl, hn,
      show (core s).running = s.running from rfl]
    cases findFresh s.fresh c with
    | some f => rfl
    | none =>
      show core (match findRunning s.running c with | some r => dropRunning s c r | none => s)
        = core (match findRunning s.running c with | some r => dropRunning (core s) c r | none => core s)
      cases findRunning s.running c <;> rfl
  | forceOpen => rfl
  | forceClosed => rfl
  | reset => rfl
  | views => rfl
  | gate g => rfl
  | trigger u => rfl
  | elsewhere n => rfl
  | yield =>
    show core (runTasks (emit s [.manual "yield"])) = core (runTasks (emit (core s) [.manual "yield"]))
    unfold runTasks
    exact (foldl_applyTask_core _ _).symm

/-- If a caller is admitted while the breaker is open, then `wait_duration_in_open` had elapsed
and the breaker moved to half-open first (the admission's first event is that transition). -/
theorem admitted_from_open (cfg : Cfg) (s : State) (f : Fresh) (hst : s.circ.st = .opened)
    (hok : (admitStep cfg s f).2 = true) :
    s.now - s.circ.lastChange ≥ cfg.waitMs ∧ (admitStep cfg s f).1.circ.st = .halfOpen ∧
    (admitStep cfg s f).1.log =
      s.log ++ [(s.now, CEv.transition .opened .halfOpen s.circ.mirror), (s.now, CEv.innerCall f.c s.serial)] := by
  have hacq := tryAcquire_acq cfg s.circ s.now
  cases hacq with
  | closed h => rw [hst] at h; cases h
  | toHalf h hw hok' he h2 =>
    rw [admitStep_ok cfg s f hok']
    refine ⟨hw, h2, ?_⟩
    simp [admitted, he]
  | rejectOpen h hw' hc hok' he => rw [admitStep_rej cfg s f hok' hc he] at hok; cases hok
  | trial h => rw [hst] at h; cases h
  | rejectHalf h => rw [hst] at h; cases h

theorem foldl_applyTask_opened (l : List Bool) (t : State) (hl : ∀ u ∈ l, u = true) (ht : t.circ.st = .opened) :
    (l.foldl applyTask t).circ.st = .opened := by
  induction l generalizing t with
  | nil => exact ht
  | cons u tl ih =>
    have hu : u = true := hl u (by simp)
    subst hu
    apply ih _ (fun u hu => hl u (by simp [hu]))
    simp only [applyTask, emit_circ, if_true]
    exact transitionTo_st ..

/-- The open state is left only by a manual `force_closed` / `reset`, by the scheduler running the task of a
`trigger_healthy()` health signal, or by the first poll of a caller once `wait_duration_in_open` has elapsed.
Completions and cancellations of calls admitted earlier, the wrapped service becoming ready again, health triggers
that have not been scheduled yet: none of them closes or half-opens it. -/
theorem leaves_open_only_after_wait_or_manual (cfg : Cfg) (s : State) (op : Op)
    (hst : s.circ.st = .opened) (hleft : (stepS cfg s op).circ.st ≠ .opened) :
    op = .forceClosed ∨ op = .reset ∨ (op = .yield ∧ false ∈ s.pending) ∨
      ∃ c, op = .poll c ∧ s.now - s.circ.lastChange ≥ cfg.waitMs := by
  cases op with
  | adv ms => exact absurd hst hleft
  | arrive c sc tag fb =>
    simp only [stepS] at hleft
    split at hleft
    · exact absurd hst hleft
    · split at hleft <;> exact absurd hst hleft
  | gate g => exact absurd hst hleft
  | trigger u => exact absurd hst hleft
  | elsewhere n => exact absurd hst hleft
  | yield =>
    by_cases hf : false ∈ s.pending
    · right; right; left; exact ⟨rfl, hf⟩
    · exfalso
      apply hleft
      show (runTasks (emit s [.manual "yield"])).circ.st = .opened
      unfold runTasks
      refine foldl_applyTask_opened s.pending _ ?_ hst
      intro u hu
      cases u with
      | true => rfl
      | false => exact absurd hu hf
  | poll c =>
    right; right; right
    refine ⟨c, rfl, ?_⟩
    by_cases hw : s.now - s.circ.lastChange ≥ cfg.waitMs
    · exact hw
    · exfalso
      simp only [stepS] at hleft
      split at hleft
      · rename_i f _
        rw [rejected_touches_nothing cfg s f hst (by omega)] at hleft
        exact hleft (by rw [rejected_circ]; exact hst)
      · split at hleft
        · rename_i r _; rw [(pollFalling_frame s r).1] at hleft; exact hleft hst
        · exact hleft (pollRunning_opened cfg s c hst)
  | drop c =>
    simp only [stepS] at hleft
    split at hleft
    · exact absurd hst hleft
    · split at hleft
      · exact absurd hst hleft
      · split at hleft
        · unfold dropRunning at hleft; simp only at hleft
          rw [releaseTrial_st] at hleft; exact absurd hst hleft
        · exact absurd hst hleft
  | forceOpen =>
    simp only [stepS, emit_circ] at hleft
    rw [transitionTo_st] at hleft; exact absurd rfl hleft
  | forceClosed => left; rfl
  | reset => right; left; rfl
  | views => exact absurd hst hleft

/-- Non-vacuity of the trace-level statements, and the one-poll round trip the doc comment of `open_shields` warns about
(window 1, wait 30): call 1 fails and opens the breaker at 0 (the listener still reads "closed" in its callback); caller 2 at 29 is
rejected; caller 3 at 30 is the trial: its single poll emits `open → half-open`, `inner_call`, `inner_done`, `half-open → open`
— the breaker is open before and after that step, which nevertheless reached the wrapped service, between two transition
events, at `0 + wait`. Then `force_closed`: `open → closed` stands right after the operator's line (`afterOverride`). -/
example :
    let cfg : Cfg := { size := 1, minCalls := 1, waitMs := 30, permitted := 1 }
    let ops := [Op.arrive 1 ⟨0, .err 1⟩ 0, .poll 1, .adv 29, .arrive 2 ⟨0, .ok⟩ 0, .poll 2, .adv 1,
                .arrive 3 ⟨0, .err 1⟩ 0, .poll 3, .forceClosed]
    (run cfg ops).log =
      [(0, .innerCall 1 0), (0, .innerDone 1 0 (.err 1)), (0, .transition .closed .opened .closed), (0, .result 1 (.inner 1 0)),
       (29, .result 2 .openCircuit),
       (30, .transition .opened .halfOpen .opened), (30, .innerCall 3 1), (30, .innerDone 3 1 (.err 1)),
       (30, .transition .halfOpen .opened .halfOpen), (30, .result 3 (.inner 1 1)),
       (30, .manual "force_closed"), (30, .transition .opened .closed .opened)] ∧
    (run cfg (ops.take 6)).circ.st = .opened ∧ (run cfg (ops.take 8)).circ.st = .opened ∧
    afterOverride ((run cfg ops).log.take 11) = true ∧ afterOverride ((run cfg ops).log.take 8) = false ∧
    lastTarget ((run cfg ops).log.take 5) = .opened ∧ callsSince ((run cfg ops).log.take 5) = 0 := by
  decide

/-- Non-vacuity: a breaker opened by failures rejects at `wait − 1` and admits (moving to
half-open) at exactly `wait`. -/
example :
    let cfg : Cfg := { size := 2, minCalls := 2, waitMs := 30, permitted := 1 }
    let pre := [Op.arrive 1 ⟨0, .err 1⟩ 0, .poll 1, .arrive 2 ⟨0, .err 1⟩ 0, .poll 2]
    (run cfg pre).circ.st = .opened ∧
    (run cfg (pre ++ [.adv 29, .arrive 3 ⟨0, .ok⟩ 0, .poll 3])).circ.st = .opened ∧
    (run cfg (pre ++ [.adv 29, .arrive 3 ⟨0, .ok⟩ 0, .poll 3])).serial = 2 ∧
    (run cfg (pre ++ [.adv 30, .arrive 3 ⟨5, .ok⟩ 0, .poll 3])).circ.st = .halfOpen ∧
    (run cfg (pre ++ [.adv 30, .arrive 3 ⟨5, .ok⟩ 0, .poll 3])).serial = 3 := by decide

/-- Non-vacuity: an open breaker with a fallback; caller 1's fallback takes 5 ms, caller 2 (a clone) arrives
meanwhile and is answered at once by its own fallback, a probe and `force_closed` go through meanwhile, caller 3
is then admitted; caller 1 gets its fallback value at t = 5. The inner service is reached by caller 3 only. -/
example :
    let cfg : Cfg := { size := 2, minCalls := 2, waitMs := 1000, fallback := true }
    let ops := [Op.forceOpen, .arrive 1 ⟨0, .ok⟩ 0 ⟨5, .ok⟩, .poll 1, .arrive 2 ⟨0, .ok⟩ 0, .poll 2, .views, .forceClosed,
                .arrive 3 ⟨0, .ok⟩ 0, .poll 3, .adv 5, .poll 1]
    (run cfg ops).log.map (·.2) =
      [.manual "force_open", .transition .closed .opened .closed, .fbCall 1, .fbCall 2, .result 2 (.fallback 2),
       .views "views state=open sync=open is_open=1 mstate=open total=0 fail=0 succ=0 slow=0 http=503 health=unhealthy",
       .manual "force_closed", .transition .opened .closed .opened, .innerCall 3 0, .innerDone 3 0 .ok, .result 3 (.ok 0),
       .result 1 (.fallback 1)] ∧
    (run cfg ops).falling.length = 0 := by decide

/-! ## Units: the model is unit-free (whole clock ticks)

Every statement above holds for every `cfg.waitMs : Nat` and every instant: nothing assumes that a configured duration is a
whole number of milliseconds. In `tick=us` cases of the correspondence check one tick is 1 µs (`wait=900` is 900 µs); only the
scripted latencies of the test double (`inner=`, `fb=`: tokio timers) are in milliseconds, `cfg.msTicks` ticks each. -/

/-- A scripted latency of `lat > 0` ms started at `now` is over at the first millisecond boundary at or after `now + lat` ms
(timer granularity of the test double), and exactly at `now + lat` when one tick is one millisecond. -/
theorem scripted_latency_on_ms_grid (cfg : Cfg) (now lat : Nat) (hm : cfg.msTicks ≥ 1) (hl : lat > 0) :
    now + lat * cfg.msTicks ≤ due cfg now lat ∧ due cfg now lat < now + lat * cfg.msTicks + cfg.msTicks ∧
    due cfg now lat % cfg.msTicks = 0 := by
  unfold due
  have hl' : lat ≠ 0 := by omega
  simp only [hl', if_false]
  generalize now + lat * cfg.msTicks = x
  have h1 := Nat.div_add_mod (x + (cfg.msTicks - 1)) cfg.msTicks
  have h2 := Nat.mod_lt (x + (cfg.msTicks - 1)) hm
  have h3 : (x + (cfg.msTicks - 1)) / cfg.msTicks * cfg.msTicks = cfg.msTicks * ((x + (cfg.msTicks - 1)) / cfg.msTicks) := Nat.mul_comm _ _
  refine ⟨by omega, by omega, ?_⟩
  exact Nat.mul_mod_left _ _

theorem scripted_latency_ms (cfg : Cfg) (now lat : Nat) (hm : cfg.msTicks = 1) : due cfg now lat = now + lat := by
  unfold due
  split
  · omega
  · simp [hm]

/-- Non-vacuity on the microsecond grid: `wait_duration_in_open` = 900 µs. Forced open at 0; a caller at 899 µs is rejected
(no inner call), a caller at 900 µs is admitted as the trial; its inner call (1 ms, started at 900 µs) is over at the
millisecond boundary 2000 µs: still half-open at 1999, closed at 2000. -/
example :
    let cfg : Cfg := { waitMs := 900, msTicks := 1000, permitted := 1 }
    let pre := [Op.forceOpen, .adv 899, .arrive 1 ⟨0, .ok⟩ 0, .poll 1]
    (run cfg pre).circ.st = .opened ∧ (run cfg pre).serial = 0 ∧
    (run cfg pre).log.getLast? = some (899, CEv.result 1 .openCircuit) ∧
    (run cfg (pre ++ [.adv 1, .arrive 2 ⟨1, .ok⟩ 0, .poll 2])).circ.st = .halfOpen ∧
    (run cfg (pre ++ [.adv 1, .arrive 2 ⟨1, .ok⟩ 0, .poll 2])).serial = 1 ∧
    (run cfg (pre ++ [.adv 1, .arrive 2 ⟨1, .ok⟩ 0, .poll 2, .adv 1099, .poll 2])).circ.st = .halfOpen ∧
    (run cfg (pre ++ [.adv 1, .arrive 2 ⟨1, .ok⟩ 0, .poll 2, .adv 1100, .poll 2])).circ.st = .closed := by
  decide

/-! ## Health signals (`HealthTriggerable`, cargo feature `health-integration`)

`trigger_unhealthy()` / `trigger_healthy()` are synchronous: they spawn a task that takes the breaker's lock and applies
`force_open` / `force_closed`. `Op.trigger` queues the task, `Op.yield` is the scheduler getting to the queued tasks; every
theorem above already quantifies over all placements of both. -/

/-- When a health trigger returns nothing has changed yet: not the state behind the mutex, not the lock-free view
(`state_sync()` / `is_open()` / `http_status()`), not a call in flight. The breaker cannot be OBSERVED open before it IS open. -/
theorem trigger_changes_nothing_yet (cfg : Cfg) (s : State) (u : Bool) :
    (stepS cfg s (.trigger u)).circ = s.circ ∧ (stepS cfg s (.trigger u)).running = s.running ∧
    (stepS cfg s (.trigger u)).fresh = s.fresh ∧ (stepS cfg s (.trigger u)).pending = s.pending ++ [u] :=
  ⟨rfl, rfl, rfl, rfl⟩

/-- When the scheduler runs the task it is exactly the operator's override: state, lock-free view and the instant of the
change move together, in one critical section. -/
theorem trigger_task_is_the_override (s : State) (u : Bool) :
    (applyTask s u).circ = (transitionTo s.circ (if u then .opened else .closed) s.now).1 ∧
    (applyTask s u).running = s.running ∧ (applyTask s u).fresh = s.fresh := ⟨rfl, rfl, rfl⟩

/-- **Observed open through the lock-free view.** In every reachable state — whatever health signals were given, queued or
applied, whatever the readiness of the wrapped service did — if `state_sync()` reports open (`is_open()`, `http_status() =
503`, `health_status() = "unhealthy"`), the breaker IS open: no inner call has started since it opened, and a caller first
polled before `wait_duration_in_open` has elapsed is answered at once with the open-circuit error / the fallback. -/
theorem lockfree_view_open_shields (cfg : Cfg) (ops : List Op) (f : Fresh) (h : (run cfg ops).circ.mirror = .opened) :
    callsSince (run cfg ops).log = 0 ∧
    ((run cfg ops).now - (run cfg ops).circ.lastChange < cfg.waitMs →
      pollFresh cfg (run cfg ops) f = rejected cfg (run cfg ops) f) := by
  have hst : (run cfg ops).circ.st = .opened := by rw [← mirror_agrees]; exact h
  exact ⟨open_shields cfg ops hst, fun hw => rejected_touches_nothing cfg _ f hst hw⟩

/-- `http_status()` and `health_status()` are functions of the lock-free view, which is the state: 503 / "unhealthy" exactly
when open, "degraded" exactly when half-open. -/
theorem status_accessors_agree (cfg : Cfg) (ops : List Op) :
    (httpStatus (run cfg ops).circ.mirror = 503 ↔ (run cfg ops).circ.st = .opened) ∧
    (healthStatus (run cfg ops).circ.mirror = "unhealthy" ↔ (run cfg ops).circ.st = .opened) ∧
    (healthStatus (run cfg ops).circ.mirror = "degraded" ↔ (run cfg ops).circ.st = .halfOpen) := by
  rw [mirror_agrees]
  cases (run cfg ops).circ.st <;> simp [httpStatus, healthStatus]

/-! ## Readiness of the wrapped service -/

/-- A request that arrives while the wrapped service is not ready (pending, or failing) never gets as far as the breaker:
the caller is answered (`notready`, or the readiness error) and nothing else changes — no admission, no inner call. -/
theorem not_ready_request_touches_nothing (cfg : Cfg) (s : State) (c : Nat) (sc : Step) (tag : Nat) (fb : Step)
    (hg : s.gate ≠ .up) (hnew : s.seen.contains c = false) :
    (stepS cfg s (.arrive c sc tag fb)).circ = s.circ ∧ (stepS cfg s (.arrive c sc tag fb)).running = s.running ∧
    (stepS cfg s (.arrive c sc tag fb)).fresh = s.fresh ∧ (stepS cfg s (.arrive c sc tag fb)).serial = s.serial ∧
    ∃ r, (stepS cfg s (.arrive c sc tag fb)).log = s.log ++ [(s.now, CEv.result c r)] := by
  simp only [stepS, hnew, Bool.false_eq_true, if_false, if_neg hg]
  exact ⟨rfl, rfl, rfl, rfl, _, rfl⟩

/-- **Admission and the start of the inner call are one step.** The call future owns the instance of the wrapped service that
`poll_ready` was called on; its first poll, if admitted, calls it there and then — whatever the readiness of the wrapped
service has become in the meantime (`g`). There is no point between the admission decision and the inner call at which the
future could be parked: an admitted call is inside the wrapped service from the instant it is admitted. -/
theorem admitted_call_starts_at_once (cfg : Cfg) (s : State) (f : Fresh) (g : Gate)
    (hok : (tryAcquire cfg s.circ s.now).2.1 = true) :
    (admitStep cfg { s with gate := g } f).2 = true ∧
    (admitStep cfg { s with gate := g } f).1.log =
      s.log ++ (tryAcquire cfg s.circ s.now).2.2.map (fun e => (s.now, e)) ++ [(s.now, CEv.innerCall f.c s.serial)] := by
  rw [admitStep_ok cfg { s with gate := g } f hok]
  exact ⟨rfl, rfl⟩

/-- The readiness of the wrapped service changing is no business of the breaker's. -/
theorem readiness_change_touches_nothing (cfg : Cfg) (s : State) (g : Gate) :
    (stepS cfg s (.gate g)).circ = s.circ ∧ (stepS cfg s (.gate g)).running = s.running ∧
    (stepS cfg s (.gate g)).fresh = s.fresh ∧ (stepS cfg s (.gate g)).serial = s.serial := ⟨rfl, rfl, rfl, rfl⟩

/-! ## Several services made from one layer value -/

/-- Every `layer()` call makes a breaker of its own: an operation on service `k` leaves service `j ≠ k` exactly as it was —
opening one never shields, or exposes, the wrapped service of another. -/
theorem services_are_independent (cfg : Cfg) (m : Multi) (k j : Nat) (op : Op) (h : j ≠ k) :
    (stepM cfg m k op).get j = m.get j := services_independent cfg m k j op h

/-- … and each of them shields its own wrapped service: in every history over any number of services, whenever service `k` is
open no inner call has been started through it since it opened, and its lock-free view says open exactly then. -/
theorem open_shields_per_service (cfg : Cfg) (mops : List (Nat × Op)) (k : Nat) :
    (((runM cfg mops).get k).circ.st = .opened → callsSince ((runM cfg mops).get k).log = 0) ∧
    ((runM cfg mops).get k).circ.mirror = ((runM cfg mops).get k).circ.st := by
  obtain ⟨ops, ho⟩ := every_service_is_a_run cfg mops k
  rw [ho]
  exact ⟨open_shields cfg ops, mirror_agrees cfg ops⟩

/-- Non-vacuity. (a) A health signal: `trigger_unhealthy()` at 0 — a probe and a call right after it see a closed breaker
(views agree, the call is admitted); the task runs; now the views say open and the next caller is rejected.
(b) The wrapped service goes down after caller 1's `poll_ready`: caller 1's first poll still starts its inner call at once;
caller 2, arriving while it is down, is turned away without touching the breaker. (c) Two services from one layer: service 1
is forced open, service 0 still admits. -/
example :
    let cfg : Cfg := { size := 2, minCalls := 2, waitMs := 1000 }
    let a := [Op.trigger true, .views, .arrive 1 ⟨0, .ok⟩ 0, .poll 1, .yield, .views, .arrive 2 ⟨0, .ok⟩ 0, .poll 2]
    let b := [Op.arrive 1 ⟨5, .ok⟩ 0, .gate .down, .poll 1, .arrive 2 ⟨0, .ok⟩ 0, .forceOpen, .gate .up, .poll 1]
    (run cfg a).log.map (·.2) =
      [.manual "trigger_unhealthy",
       .views "views state=closed sync=closed is_open=0 mstate=closed total=0 fail=0 succ=0 slow=0 http=200 health=healthy",
       .innerCall 1 0, .innerDone 1 0 .ok, .result 1 (.ok 0), .manual "yield", .transition .closed .opened .closed,
       .views "views state=open sync=open is_open=1 mstate=open total=0 fail=0 succ=0 slow=0 http=503 health=unhealthy",
       .result 2 .openCircuit] ∧
    (run cfg b).log.map (·.2) =
      [.manual "inner_down", .innerCall 1 0, .result 2 .notReady, .manual "force_open", .transition .closed .opened .closed,
       .manual "inner_up"] ∧
    ((runM cfg [(1, .forceOpen), (0, .arrive 1 ⟨0, .ok⟩ 0), (0, .poll 1), (1, .arrive 2 ⟨0, .ok⟩ 0), (1, .poll 2)]).get 0).serial = 1 ∧
    ((runM cfg [(1, .forceOpen), (0, .arrive 1 ⟨0, .ok⟩ 0), (0, .poll 1), (1, .arrive 2 ⟨0, .ok⟩ 0), (1, .poll 2)]).get 1).log.map (·.2)
      = [.manual "force_open", .transition .closed .opened .closed, .result 2 .openCircuit] := by
  decide

end TR.Props.C03
