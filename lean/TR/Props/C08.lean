import TR.Lemmas.Budget
/-!
# C08 — the retry budget never grants more retries than it was funded

Quantification: every (well-formed) configuration of the token-bucket and the AIMD budget,
any number of threads with any programs of `try_withdraw` / `deposit` calls, and **every
schedule of their individual atomic steps** (a list of thread ids of any length; `run` after
any prefix of a schedule is an arbitrary reachable state, `runAll` lets the remaining threads
finish).
-/
namespace TR.Props.C08
open TR TR.Budget

/-- (retries granted) × cost + remaining balance ≤ initial balance + (deposits) × amount, in
every reachable state of every interleaving. -/
theorem conservation (cfg : Cfg) (hwf : WF cfg) (progs : List (List BOp)) (sched : List Nat) :
    (run cfg progs sched).granted * cfg.cost + (run cfg progs sched).tokens
      ≤ cfg.initial + (run cfg progs sched).deposits * cfg.amount :=
  (run_inv cfg hwf progs sched).cons

/-- … also once every thread has run to completion. -/
theorem conservation_final (cfg : Cfg) (hwf : WF cfg) (progs : List (List BOp)) (sched : List Nat) :
    (runAll cfg progs sched).granted * cfg.cost + (runAll cfg progs sched).tokens
      ≤ cfg.initial + (runAll cfg progs sched).deposits * cfg.amount :=
  (runAll_inv cfg hwf progs sched).cons

/-- The balance never exceeds its configured maximum (AIMD: a deposit is capped at a limit value
that was read earlier, and every limit value is at most `max_budget`). -/
theorem capped (cfg : Cfg) (hwf : WF cfg) (progs : List (List BOp)) (sched : List Nat) :
    (run cfg progs sched).tokens ≤ cfg.maxTokens ∧ (run cfg progs sched).limit ≤ cfg.maxLimit :=
  ⟨(run_inv cfg hwf progs sched).cap, (run_inv cfg hwf progs sched).lim⟩

/-- **Linearizable.** The ghost list `lin` orders the operations by their linearisation points
(a refused withdrawal at the load that saw too little, a granted one at its successful
compare-exchange, a deposit at its read-modify-write). Replaying that list *one operation at
a time* on the sequential budget reproduces every recorded result and ends in the current
balance … -/
theorem linearizable (cfg : Cfg) (hwf : WF cfg) (progs : List (List BOp)) (sched : List Nat) :
    replay cfg cfg.initial (run cfg progs sched).lin = some (run cfg progs sched).tokens :=
  (run_inv cfg hwf progs sched).lin

/-- … and every thread's own results are exactly its operations in that order: what a finished
thread observed is what the one-at-a-time execution gives it. -/
theorem linearizable_outputs (cfg : Cfg) (hwf : WF cfg) (progs : List (List BOp)) (sched : List Nat)
    (i : Nat) (t : Thread) (hi : (runAll cfg progs sched).threads[i]? = some t) (hdone : t.prog = []) :
    resultsOf i (runAll cfg progs sched).lin = t.out := by
  have := ((runAll_inv cfg hwf progs sched).outs i t hi).1
  simpa [pending, hdone] using this

/-- the token-bucket constructor yields well-formed configurations -/
theorem wf_token (mx ini : Nat) (h : ini ≤ mx) :
    WF { aimd := false, cost := 1000, amount := 1000, maxTokens := mx * 1000, initial := ini * 1000,
         minLimit := 0, maxLimit := 0 } :=
  ⟨by simp; omega, by simp, by intro r hr; simp at hr ⊢; subst hr; simp⟩

/-- the AIMD constructor yields well-formed configurations when `min ≤ max` and the decrease factor is ≤ 1 -/
theorem wf_aimd (mn mx dep wd fnum fden : Nat) (h1 : mn ≤ mx) (h2 : fnum ≤ fden) (h3 : fden > 0) :
    WF { aimd := true, cost := wd, amount := dep, maxTokens := mx, initial := mx, minLimit := mn, maxLimit := mx,
         fnum := fnum, fden := fden } := by
  refine ⟨Nat.le_refl _, fun _ => Nat.le_refl _, ?_⟩
  intro r hr
  simp only at hr ⊢
  have : r * fnum / fden ≤ r := by
    apply Nat.div_le_of_le_mul
    calc r * fnum ≤ r * fden := Nat.mul_le_mul_left r h2
      _ = fden * r := Nat.mul_comm _ _
  exact Nat.max_le.mpr ⟨Nat.le_trans this hr, h1⟩

/-- Non-vacuity: a contended run (both threads load before either compare-exchanges) in which
exactly one of two withdrawals of the last token is granted. -/
example :
    let cfg : Cfg := { maxTokens := 3000, initial := 1000 }
    let s := runAll cfg [[.W], [.W, .D]] [0, 1, 1, 0]
    s.granted = 1 ∧ s.tokens = 1000 ∧ s.deposits = 1 ∧
    (s.threads.map (·.out)) = [[some false], [some true, none]] := by decide

end TR.Props.C08
