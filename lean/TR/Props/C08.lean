import TR.Lemmas.Budget
import TR.Lemmas.BudgetCons
import TR.Lemmas.BudgetTrace
import TR.Lemmas.BudgetTraceOuts
/-!
# C08 — the retry budget never grants more retries than it was funded

Quantification: every (well-formed) configuration of the token-bucket and the AIMD budget,
any number of threads with any programs of `try_withdraw` / `deposit` calls, and **every
schedule of their individual atomic steps** (a list of thread ids of any length; `run` after
any prefix of a schedule is an arbitrary reachable state, `runAll` lets the remaining threads
finish).
-/
namespace TR.Props.C08
open TR TR.Budget

/-- (retries granted) × cost + remaining balance ≤ initial balance + (deposits) × amount, in
every reachable state of every interleaving. -/
theorem conservation (cfg : Cfg) (hwf : WF cfg) (progs : List (List BOp)) (sched : List Nat) :
    (run cfg progs sched).granted * cfg.cost + (run cfg progs sched).tokens
      ≤ cfg.initial + (run cfg progs sched).deposits * cfg.amount :=
  (run_inv cfg hwf progs sched).cons

/-- … also once every thread has run to completion. -/
theorem conservation_final (cfg : Cfg) (hwf : WF cfg) (progs : List (List BOp)) (sched : List Nat) :
    (runAll cfg progs sched).granted * cfg.cost + (runAll cfg progs sched).tokens
      ≤ cfg.initial + (runAll cfg progs sched).deposits * cfg.amount :=
  (runAll_inv cfg hwf progs sched).cons

/-- Conservation needs no hypothesis on the configuration at all: it holds for EVERY `cfg` — an initial balance above the
maximum, a decrease factor above one, zero amounts — in every reachable state of every interleaving, and after the
remaining threads have run to completion. (`WF` above is what the *cap* needs.) -/
theorem conservation_any (cfg : Cfg) (progs : List (List BOp)) (sched : List Nat) :
    (run cfg progs sched).granted * cfg.cost + (run cfg progs sched).tokens
      ≤ cfg.initial + (run cfg progs sched).deposits * cfg.amount :=
  (run_inv0 cfg progs sched).cons

theorem conservation_any_final (cfg : Cfg) (progs : List (List BOp)) (sched : List Nat) :
    (runAll cfg progs sched).granted * cfg.cost + (runAll cfg progs sched).tokens
      ≤ cfg.initial + (runAll cfg progs sched).deposits * cfg.amount :=
  (drain_inv0 cfg _ _ (run_inv0 cfg progs sched)).cons

/-- The balance never exceeds its configured maximum (AIMD: a deposit is capped at a limit value
that was read earlier, and every limit value is at most `max_budget`). -/
theorem capped (cfg : Cfg) (hwf : WF cfg) (progs : List (List BOp)) (sched : List Nat) :
    (run cfg progs sched).tokens ≤ cfg.maxTokens ∧ (run cfg progs sched).limit ≤ cfg.maxLimit :=
  ⟨(run_inv cfg hwf progs sched).cap, (run_inv cfg hwf progs sched).lim⟩

/-- **Linearizable.** The ghost list `lin` orders the operations by their linearisation points
(a refused withdrawal at the load that saw too little, a granted one at its successful
compare-exchange, a deposit at its read-modify-write). Replaying that list *one operation at
a time* on the sequential budget reproduces every recorded result and ends in the current
balance … -/
theorem linearizable (cfg : Cfg) (hwf : WF cfg) (progs : List (List BOp)) (sched : List Nat) :
    replay cfg cfg.initial (run cfg progs sched).lin = some (run cfg progs sched).tokens :=
  (run_inv cfg hwf progs sched).lin

/-- … and every thread's own results are exactly its operations in that order: what a finished
thread observed is what the one-at-a-time execution gives it. -/
theorem linearizable_outputs (cfg : Cfg) (hwf : WF cfg) (progs : List (List BOp)) (sched : List Nat)
    (i : Nat) (t : Thread) (hi : (runAll cfg progs sched).threads[i]? = some t) (hdone : t.prog = []) :
    resultsOf i (runAll cfg progs sched).lin = t.out := by
  have := ((runAll_inv cfg hwf progs sched).outs i t hi).1
  simpa [pending, hdone] using this

/-- the token-bucket constructor yields well-formed configurations -/
theorem wf_token (mx ini : Nat) (h : ini ≤ mx) :
    WF { aimd := false, cost := 1000, amount := 1000, maxTokens := mx * 1000, initial := ini * 1000,
         minLimit := 0, maxLimit := 0 } :=
  ⟨by simp; omega, by simp, by intro r hr; simp at hr ⊢; subst hr; simp⟩

/-- … for EVERY pair of arguments: the constructor clamps the initial balance to the burst capacity, so no configuration
of the token bucket is excluded by `WF`. (On the pinned tree it did not clamp: a bucket built with `initial_tokens >
max_tokens` started above its maximum, and a deposit then *lowered* the balance to the maximum.) -/
theorem wf_token_all (mx ini : Nat) :
    WF { aimd := false, cost := 1000, amount := 1000, maxTokens := mx * 1000, initial := min ini mx * 1000,
         minLimit := 0, maxLimit := 0 } :=
  wf_token mx (min ini mx) (Nat.min_le_right _ _)

/-- the AIMD constructor yields well-formed configurations when `min ≤ max` and the decrease factor is ≤ 1 -/
theorem wf_aimd (mn mx dep wd fnum fden : Nat) (h1 : mn ≤ mx) (h2 : fnum ≤ fden) (h3 : fden > 0) :
    WF { aimd := true, cost := wd, amount := dep, maxTokens := mx, initial := mx, minLimit := mn, maxLimit := mx,
         fnum := fnum, fden := fden } := by
  refine ⟨Nat.le_refl _, fun _ => Nat.le_refl _, ?_⟩
  intro r hr
  simp only at hr ⊢
  have : r * fnum / fden ≤ r := by
    apply Nat.div_le_of_le_mul
    calc r * fnum ≤ r * fden := Nat.mul_le_mul_left r h2
      _ = fden * r := Nat.mul_comm _ _
  exact Nat.max_le.mpr ⟨Nat.le_trans this hr, h1⟩

/-- … and whatever chain of setters the token-bucket builder is given, in whatever order and however often: the budget it
builds is well-formed (its initial balance is `initial_tokens`, or `max_tokens` as it stands when `build()` runs, clamped to
`max_tokens`), so conservation, the cap and linearizability hold for every builder-made token bucket. -/
theorem wf_token_builder (items : List TSet) : WF (tokenCfg (items.foldl tokenSet {})) := by
  have h := wf_token_all (items.foldl tokenSet {}).max ((items.foldl tokenSet {}).init.getD (items.foldl tokenSet {}).max)
  simpa [tokenCfg] using h

/-- the last `max_tokens` / `initial_tokens` setter of a chain is the one that counts -/
theorem token_builder_last_wins (items : List TSet) (n : Nat) :
    ((items ++ [TSet.max n]).foldl tokenSet {}).max = n ∧ ((items ++ [TSet.init n]).foldl tokenSet {}).init = some n := by
  constructor <;> simp [List.foldl_append, tokenSet]

/-- a setter of one kind leaves the other setting alone (`max_tokens` does not re-fund the bucket) -/
theorem token_builder_setters_independent (b : TokenB) (n : Nat) :
    (tokenSet b (TSet.max n)).init = b.init ∧ (tokenSet b (TSet.init n)).max = b.max := by
  simp [tokenSet]

/-- the AIMD builder: well-formed whenever the last `min_budget` is at most the last `max_budget` and the factor is at most one -/
theorem wf_aimd_builder (items : List ASet)
    (h1 : (items.foldl aimdSet {}).min ≤ (items.foldl aimdSet {}).max)
    (h2 : (items.foldl aimdSet {}).fnum ≤ (items.foldl aimdSet {}).fden) (h3 : (items.foldl aimdSet {}).fden > 0) :
    WF (aimdCfg (items.foldl aimdSet {})) := by
  have := wf_aimd (items.foldl aimdSet {}).min (items.foldl aimdSet {}).max (items.foldl aimdSet {}).dep
    (items.foldl aimdSet {}).wd (items.foldl aimdSet {}).fnum (items.foldl aimdSet {}).fden h1 h2 h3
  simpa [aimdCfg] using this

/-- the seeded shape: `initial_tokens(100)` given BEFORE `max_tokens(500)` funds the bucket with 100, not 500 -/
example : (tokenCfg ([TSet.init 100, TSet.max 500].foldl tokenSet {})).initial = 100000 ∧
          (tokenCfg ([TSet.max 500].foldl tokenSet {})).initial = 500000 ∧
          (tokenCfg ([TSet.init 700, TSet.max 500].foldl tokenSet {})).initial = 500000 := by decide

/-- Non-vacuity: a contended run (both threads load before either compare-exchanges) in which
exactly one of two withdrawals of the last token is granted. -/
example :
    let cfg : Cfg := { maxTokens := 3000, initial := 1000 }
    let s := runAll cfg [[.W], [.W, .D]] [0, 1, 1, 0]
    s.granted = 1 ∧ s.tokens = 1000 ∧ s.deposits = 1 ∧
    (s.threads.map (·.out)) = [[some false], [some true, none]] := by decide

/-! ## Protocol level: every value-level trace of the atomics that `checkTrace` accepts

The theorems above are about the step-by-step transcription of `budget.rs`. The ones below do not depend on how an
implementation sequences its loads and retries: they hold for **every** trace — any number of threads, calls and
atomic operations, in any interleaving — in which each write to the balance is a single atomic read-modify-write
of the shape the protocol allows (`TR.Model.BudgetTrace`). The harness records such a trace from the hooked atomics
on every scheduled run and the model's checker decides it; a rewrite that keeps the protocol keeps these theorems
applicable even when its step sequence no longer matches the transcription. -/

/-- Conservation, stated over what the callers saw: (`try_withdraw` calls that returned true) × cost + the balance left
in the cell ≤ initial balance + (`deposit` calls made) × amount. -/
theorem trace_conservation (cfg : Cfg) (hwf : WF cfg) (tr : List Item) (cs : CS) (h : checkTrace cfg tr = some cs) :
    grants tr * cfg.cost + finalTokens cfg.initial tr ≤ cfg.initial + depositCalls tr * cfg.amount := by
  obtain ⟨hi, ht, hr, hb⟩ := crun_inv cfg tr (cinit cfg) cs (cinit_inv cfg hwf) h
  have h1 := hi.cons; have h2 := hi.retW; have _h3 := hi.depA; have h4 := hi.depB
  have hr' : cs.retTrue = grants tr := by simpa [cinit] using hr
  have hb' : cs.begunD = depositCalls tr := by simpa [cinit] using hb
  have ht' : cs.tokens = finalTokens cfg.initial tr := by simpa [cinit] using ht
  rw [← hr', ← hb', ← ht']
  have a : cs.retTrue * cfg.cost ≤ cs.effW * cfg.cost := Nat.mul_le_mul_right _ (by omega)
  have b : cs.effD * cfg.amount ≤ cs.begunD * cfg.amount := Nat.mul_le_mul_right _ (by omega)
  omega

/-- … and at every point of an accepted trace: whatever has been granted and deposited up to any split `a ++ b`
satisfies the same inequality with the balance the cell held at that point. -/
theorem trace_conservation_prefix (cfg : Cfg) (hwf : WF cfg) (a b : List Item) (cs : CS)
    (h : checkTrace cfg (a ++ b) = some cs) :
    grants a * cfg.cost + finalTokens cfg.initial a ≤ cfg.initial + depositCalls a * cfg.amount ∧
      finalTokens cfg.initial a ≤ cfg.maxTokens := by
  obtain ⟨cs1, hi, ht, hr, hb, _⟩ := crun_split cfg a b (cinit cfg) cs (cinit_inv cfg hwf) h
  have h1 := hi.cons; have h2 := hi.retW; have _h3 := hi.depA; have h4 := hi.depB; have h5 := hi.cap
  have hr' : cs1.retTrue = grants a := by simpa [cinit] using hr
  have hb' : cs1.begunD = depositCalls a := by simpa [cinit] using hb
  have ht' : cs1.tokens = finalTokens cfg.initial a := by simpa [cinit] using ht
  rw [← hr', ← hb', ← ht']
  have x : cs1.retTrue * cfg.cost ≤ cs1.effW * cfg.cost := Nat.mul_le_mul_right _ (by omega)
  have y : cs1.effD * cfg.amount ≤ cs1.begunD * cfg.amount := Nat.mul_le_mul_right _ (by omega)
  omega

/-- The balance left in the cell never exceeds the maximum, and the AIMD limit never exceeds its own. -/
theorem trace_capped (cfg : Cfg) (hwf : WF cfg) (tr : List Item) (cs : CS) (h : checkTrace cfg tr = some cs) :
    finalTokens cfg.initial tr ≤ cfg.maxTokens ∧ cs.limit ≤ cfg.maxLimit := by
  obtain ⟨hi, ht, _, _⟩ := crun_inv cfg tr (cinit cfg) cs (cinit_inv cfg hwf) h
  have ht' : cs.tokens = finalTokens cfg.initial tr := by simpa [cinit] using ht
  exact ⟨ht' ▸ hi.cap, hi.lim⟩

/-- Linearizable: the checker's ghost list orders the calls by their linearisation points (a refusal at the read that
saw too little, a grant or a deposit at its one write); executing that list one call at a time on the sequential
budget reproduces every result and ends in the balance the cell holds. -/
theorem trace_linearizable (cfg : Cfg) (hwf : WF cfg) (tr : List Item) (cs : CS) (h : checkTrace cfg tr = some cs) :
    replay cfg cfg.initial cs.lin = some (finalTokens cfg.initial tr) := by
  obtain ⟨hi, ht, _, _⟩ := crun_inv cfg tr (cinit cfg) cs (cinit_inv cfg hwf) h
  have ht' : cs.tokens = finalTokens cfg.initial tr := by simpa [cinit] using ht
  exact ht' ▸ hi.lin

/-- … and what each thread's calls returned (`rets`: the results of its `try_withdraw` / `deposit` calls in program
order) is exactly what that one-at-a-time execution gives it, followed — for a call that has not returned yet — by the
result it is already committed to. For a trace in which every call has returned (`cs.opens = []`) the two coincide. -/
theorem trace_linearizable_outputs (cfg : Cfg) (tr : List Item) (cs : CS) (h : checkTrace cfg tr = some cs) (tid : Nat) :
    resultsOf tid cs.lin = rets tid tr ++ pend (findOpen cs.opens tid) := by
  have := crun_outs cfg tr (cinit cfg) cs (fun _ => []) (by intro i; simp [cinit, resultsOf, findOpen, pend]) h tid
  simpa using this

theorem trace_linearizable_outputs_complete (cfg : Cfg) (tr : List Item) (cs : CS) (h : checkTrace cfg tr = some cs)
    (hdone : cs.opens = []) (tid : Nat) : resultsOf tid cs.lin = rets tid tr := by
  have := trace_linearizable_outputs cfg tr cs h tid
  simpa [hdone, findOpen, pend] using this

/-- Non-vacuity (a trace recorded from the real token bucket, two threads contending for the last token: both load,
one compare-exchange succeeds, the other fails, reloads, is refused, then deposits): accepted, one grant. -/
example :
    let cfg : Cfg := { maxTokens := 2000, initial := 1000 }
    let tr : List Item := [.begin 1 .W, .begin 0 .W, .tok 0 .load 1000 1000 true, .tok 1 .load 1000 1000 true,
      .tok 1 .cas 1000 0 true, .fin 1 (some true), .tok 0 .cas 0 0 false, .tok 0 .load 0 0 true, .fin 0 (some false),
      .begin 0 .D, .tok 0 .rmw 0 1000 true, .fin 0 none]
    (checkTrace cfg tr).isSome = true ∧ grants tr = 1 ∧ depositCalls tr = 1 ∧ finalTokens cfg.initial tr = 1000 ∧
      rets 0 tr = [some false, none] ∧ rets 1 tr = [some true] ∧ ((checkTrace cfg tr).map (·.opens)) = some [] := by
  decide

/-- The pinned-tree deposit (a load followed by a plain store) is rejected at its store, even in a run without
contention; so is a withdrawal that reports success without having written. -/
example :
    let cfg : Cfg := { maxTokens := 2000, initial := 1000 }
    cfirstBad cfg (cinit cfg) 0 [.begin 0 .D, .tok 0 .load 1000 1000 true, .tok 0 .store 1000 2000 true, .fin 0 none] = some 2 ∧
    cfirstBad cfg (cinit cfg) 0 [.begin 0 .W, .tok 0 .load 1000 1000 true, .fin 0 (some true)] = some 2 := by
  decide

end TR.Props.C08
