import TR.Lemmas.RateLimiter
import TR.Lemmas.RateLimiterLog
import TR.Lemmas.RateLimiterF64
/-!
# C15 — the rate limiter decides every call within its timeout; rejected calls go nowhere

Quantification as for C02 (all window types, all timeouts, all operation lists: any number of callers, all arrival /
poll / cancellation orders and instants, all allowed observed choices). The routing clauses (`rejected_never_inner`,
`admitted_exactly_once`) and the decision-instant clause hold for EVERY configuration, `limit = 0`, `period = 0` and
zero wait estimates included; the clauses about permits need C02's `Good cfg`. "Arrival" is the first poll of the call
future: `acquire()` runs inside the boxed `async` block of `RateLimiter::call`, so nothing happens before that poll and
the sleep (if any) starts in it.

Decision instants. `(run cfg ops).tlog` is the event log with the instant printed in front of every line (`C02`);
`decStamps` picks the `(caller, instant)` of its decision lines — `inner_call c …` and `result c err:ratelimited`;
the ghost `decided` holds `(caller, arrival, decision instant)` and is tied to those lines by
`decisions_are_the_decision_lines`.
-/
namespace TR.Props.C15
open TR TR.RateLimiter

/-! ### decided within the timeout -/

/-- The ghost decision record is the log: the decisions filed are, in order, exactly the `inner_call` /
`result … err:ratelimited` lines of the log with the instants printed in front of them; at most one per caller is
implied by `admitted_exactly_once` / `rejected_never_inner`; no decision is earlier than the arrival it is filed with. -/
theorem decisions_are_the_decision_lines (cfg : Cfg) (ops : List Op) :
    (run cfg ops).decided.map (fun d => (d.1, d.2.2)) = decStamps (run cfg ops).tlog ∧
    ∀ d ∈ (run cfg ops).decided, d.2.1 ≤ d.2.2 :=
  let h := tinv_reachable cfg ops
  ⟨h.dec, h.decArr⟩

/-- **Every call is decided within `timeout_duration` of its arrival** — stated on the decision lines of the log,
for every configuration, under the poll discipline `Prompt` as the one explicit hypothesis (time is not advanced
past the instant by which a sleeping caller's timer must have fired without that caller being polled: "polled when
woken"; a poll that late must observe `woke` and decides, `decided_within_timeout_due_poll`): every decision line
`t=<t> inner_call c …` / `t=<t> result c err:ratelimited` belongs to a caller that arrived at some `arr` with
`arr ≤ t ≤ arr + timeout_duration`. -/
theorem decided_within_timeout (cfg : Cfg) (ops : List Op) (hp : Prompt cfg (init cfg) ops) (c t : Nat)
    (h : (c, t) ∈ decStamps (run cfg ops).tlog) :
    ∃ arr, (c, arr, t) ∈ (run cfg ops).decided ∧ arr ≤ t ∧ t ≤ arr + cfg.timeout := by
  rw [← (tinv_reachable cfg ops).dec] at h
  obtain ⟨d, hd, he⟩ := List.mem_map.mp h
  obtain ⟨c', arr, t'⟩ := d
  simp only [Prod.mk.injEq] at he
  obtain ⟨rfl, rfl⟩ := he
  exact ⟨arr, hd, (tinv_reachable cfg ops).decArr _ hd, (dinv_reachable cfg ops hp).dec _ hd⟩

/-- … and nobody is left undecided beyond it: under the same discipline a caller that is still asleep is within
`arrival + timeout_duration` (a caller that has never been polled has not arrived). -/
theorem undecided_still_within_timeout (cfg : Cfg) (ops : List Op) (hp : Prompt cfg (init cfg) ops)
    (c arr lo hi : Nat) (hph : phaseOf (run cfg ops) c = some (.sleeping arr lo hi)) :
    (run cfg ops).now ≤ hi ∧ hi ≤ arr + cfg.timeout :=
  ⟨(dinv_reachable cfg ops hp).awake c arr lo hi hph, ((inv_reachable cfg ops).sleep c arr lo hi hph).2.2.1⟩

/-- Without the discipline a decision can be late only by the lateness of the poll: whatever the schedule, a
decision line of a caller that was told to wait is stamped with the instant of the poll that took it, and a first
poll decides at the arrival instant itself or files nothing. (One step of `decided`.) -/
theorem decision_is_stamped_with_its_poll (cfg : Cfg) (s : State) (op : Op) (hop : ∀ ms, op ≠ .adv ms) :
    ∃ evs dec, (stepS cfg s op).decided = s.decided ++ dec ∧ (stepS cfg s op).tlog = s.tlog ++ stamp s.now evs ∧
      dec.map (fun d => (d.1, d.2.2)) = (stamp s.now evs).filterMap decStamp ∧
      ∀ d ∈ dec, d.2.2 = s.now ∧ (d.2.1 = s.now ∨ ∃ lo hi, phaseOf s d.1 = some (.sleeping d.2.1 lo hi)) := by
  obtain ⟨evs, dec, hd, hok⟩ := stepS_delta cfg s op hop
  exact ⟨evs, dec, hd.dec, hd.tlog, hd.decS, fun d hdm => ⟨hd.decT d hdm, hok d hdm⟩⟩

/-- Decided within the timeout, step by step, part 1: the first poll of a call either decides it (admitted or
rejected) in that very step, or puts it to sleep with a timer due no later than
`arrival + timeout_duration` — or the observed choice fed to the model was outside what the code
guarantees (then nothing happens except the `choice-not-allowed` mark). -/
theorem decided_within_timeout_first_poll (cfg : Cfg) (ops : List Op) (c : Nat) (rej woke : Bool) (fx : Fx)
    (hph : phaseOf (run cfg ops) c = some .fresh) :
    let s := run cfg ops
    let s' := stepS cfg s (.poll c rej woke fx)
    Decided (phaseOf s' c) ∨
    (∃ lo hi, phaseOf s' c = some (.sleeping s.now lo hi) ∧ hi ≤ s.now + cfg.timeout) ∨
    s' = badChoice { s with lim := (room cfg s.lim s.now fx).1 } := by
  simp only [stepS, hph]
  exact pollFresh_outcome cfg (run cfg ops) c rej fx

/-- Part 2: in every reachable state of every configuration a sleeping caller's timer fires
at an instant in `[lo, hi]` with `arrival < lo ≤ hi ≤ arrival + timeout_duration` (a wait is only
ever issued with `0 < d ≤ timeout`). -/
theorem decided_within_timeout_deadline (cfg : Cfg)
    (ops : List Op) (c arr lo hi : Nat)
    (hph : phaseOf (run cfg ops) c = some (.sleeping arr lo hi)) :
    arr < lo ∧ lo ≤ hi ∧ hi ≤ arr + cfg.timeout := by
  obtain ⟨h1, h2, h3, _, _⟩ := (inv_reachable cfg ops).sleep c arr lo hi hph
  exact ⟨h1, h2, h3⟩

/-- Part 3: once the instant `hi` has been reached the timer must
have fired (`woke = false` is not an allowed observation), and the poll that sees it decides the
caller in that step: the second `try_acquire` admits or rejects, it never waits again. -/
theorem decided_within_timeout_due_poll (cfg : Cfg) (ops : List Op) (c arr lo hi : Nat) (rej : Bool) (fx : Fx)
    (hph : phaseOf (run cfg ops) c = some (.sleeping arr lo hi))
    (hdue : hi ≤ (run cfg ops).now) (hlo : lo ≤ hi) :
    Decided (phaseOf (stepS cfg (run cfg ops) (.poll c rej true fx)) c) ∧
    stepS cfg (run cfg ops) (.poll c rej false fx) = badChoice (run cfg ops) := by
  obtain ⟨h1, h2⟩ := pollSleeping_due cfg (run cfg ops) c arr lo hi fx hdue hlo
  constructor
  · simp only [stepS, hph]; rw [h1]; exact secondTry_decides cfg _ c arr fx
  · simp only [stepS, hph]; exact h2

/-- Non-vacuity of the discipline and of the bound, on the log (fixed window, limit 1, period 100, timeout 100):
caller 1 admitted at 0; callers 2 and 3 arrive at 30 and sleep until 100, where both are polled — 2 takes the new
window's permit, 3 is rejected: decision lines `(1,0) (2,100) (3,100)`, arrivals `0, 30, 30`, all within 100. The
same history with the poll of caller 3 delayed by one tick violates the discipline (and its rejection is late). -/
example :
    let cfg : Cfg := { kind := .fixed, limit := 1, period := 100, timeout := 70 }
    let ops := [Op.arrive 1 ⟨0, .ok⟩, .arrive 2 ⟨0, .ok⟩, .arrive 3 ⟨0, .ok⟩, .poll 1 false false,
      .adv 30, .poll 2 false false, .poll 3 false false, .adv 70, .poll 2 false true, .poll 3 false true]
    let late := [Op.arrive 1 ⟨0, .ok⟩, .arrive 2 ⟨0, .ok⟩, .arrive 3 ⟨0, .ok⟩, .poll 1 false false,
      .adv 30, .poll 2 false false, .poll 3 false false, .adv 70, .poll 2 false true, .adv 1, .poll 3 false true]
    Prompt cfg (init cfg) ops ∧ decStamps (run cfg ops).tlog = [(1, 0), (2, 100), (3, 100)] ∧
    (run cfg ops).decided = [(1, 0, 0), (2, 30, 100), (3, 30, 100)] ∧
    ¬ Prompt cfg (init cfg) late ∧ (run cfg late).decided = [(1, 0, 0), (2, 30, 100), (3, 30, 101)] := by decide

/-! ### admitted at once with capacity; later only with a later permit; otherwise rejected -/

/-- Admitted at once when the current window has spare capacity: if the `try_acquire` of a first
poll finds room, the first new event of that step is the caller's `inner_call`. -/
theorem admitted_at_once_if_capacity (cfg : Cfg) (ops : List Op) (c : Nat) (rej woke : Bool) (fx : Fx)
    (hph : phaseOf (run cfg ops) c = some .fresh)
    (hroom : (room cfg (run cfg ops).lim (run cfg ops).now fx).2 = true) :
    ∃ rest, (stepS cfg (run cfg ops) (.poll c rej woke fx)).log
      = (run cfg ops).log ++ Ev.innerCall c (run cfg ops).serial :: rest := by
  simp only [stepS, hph]
  exact pollFresh_admits cfg _ c rej fx hroom

/-- "Spare capacity" for the fixed window: the window is over, or fewer than `limit` grants have
been filed under the current window (`available_permits = limit − grants in this window`). -/
theorem capacity_fixed (cfg : Cfg) (hk : cfg.kind = .fixed) (hL : 1 ≤ cfg.limit) (hP : 1 ≤ cfg.period)
    (ops : List Op) (fx : Fx) :
    let s := run cfg ops
    ((room cfg s.lim s.now fx).2 = true ↔ (s.now - s.lim.start ≥ cfg.period ∨ curLen s.lim < cfg.limit)) := by
  have h := ((inv_reachable cfg ops).lim hP).fixed hk
  simp only
  rw [room_fixed_iff cfg _ _ fx hk hL]
  constructor
  · intro h'; rcases h' with h' | h'
    · exact Or.inl h'
    · exact Or.inr (by omega)
  · intro h'; rcases h' with h' | h'
    · exact Or.inl h'
    · exact Or.inr (by omega)

/-- "Spare capacity" for the sliding log: fewer than `limit` grants younger than one period. -/
theorem capacity_log (cfg : Cfg) (hk : cfg.kind = .slog) (ops : List Op) (fx : Fx) :
    let s := run cfg ops
    ((room cfg s.lim s.now fx).2 = true ↔ (expire cfg.period s.now s.lim.ts).length < cfg.limit) :=
  room_log_iff cfg _ _ fx hk

/-- "Spare capacity" for the sliding counter: after the bucket rotation the weighted count
`previous·(1 − elapsed/bucket) + current` is below the limit — or exactly the limit part-way into a bucket, off the
dyadic grid on which the `f64` evaluation is exact (`f64Exact`), while the code's `f64` comparison said "below" (observed). -/
theorem capacity_counter (cfg : Cfg) (hk : cfg.kind = .counter) (ops : List Op) (fx : Fx) :
    let s := run cfg ops
    let l := counterRoll cfg s.lim s.now fx.b1
    ((room cfg s.lim s.now fx).2 = true ↔
      (l.prev * (cfg.period - (s.now - l.start)) + l.cur * cfg.period < cfg.limit * cfg.period ∨
        (onBoundary cfg l (s.now - l.start) = true ∧ fx.adm = true))) :=
  room_counter_iff cfg _ _ fx hk

/-- Admitted later only by taking a permit of a later window: when a poll admits a caller that
had been told to wait, its second `try_acquire` took a permit at this instant, which is later
than its arrival; the admission is recorded at this instant; and for the fixed window the permit
belongs to a window that began after the caller arrived. -/
theorem later_admission_takes_later_permit (cfg : Cfg) (hG : Good cfg)
    (ops : List Op) (c arr lo hi : Nat) (rej woke : Bool) (fx : Fx)
    (hph : phaseOf (run cfg ops) c = some (.sleeping arr lo hi))
    (hadm : Admitted (phaseOf (stepS cfg (run cfg ops) (.poll c rej woke fx)) c)) :
    let s := run cfg ops
    let s' := stepS cfg s (.poll c rej woke fx)
    (room cfg s.lim s.now fx).2 = true ∧ arr < s.now ∧
    s'.lim.grants = s.lim.grants ++ [s.now] ∧ s'.admits = s.admits ++ [(c, s.now)] ∧
    (cfg.kind = .fixed → arr < s'.lim.start) :=
  sleeper_admission cfg (run cfg ops) c arr lo hi rej woke fx hG (inv_reachable cfg ops) hph hadm

/-- "Otherwise rejected": a caller is only ever rejected by a `try_acquire` that found no permit — at its first
poll, or by the second `try_acquire` after its sleep. (Which of "rejected at once" / "told to wait" a first poll
without room chooses is `noRoomAns`: the needed wait exceeds the timeout, exactly for the fixed window and the log.) -/
theorem rejected_only_without_room (cfg : Cfg) (s : State) (c : Nat) (rej woke : Bool) (fx : Fx)
    (hph : phaseOf s c = some .fresh ∨ ∃ arr lo hi, phaseOf s c = some (.sleeping arr lo hi))
    (hrej : phaseOf (stepS cfg s (.poll c rej woke fx)) c = some (.done false)) :
    (room cfg s.lim s.now fx).2 = false := by
  cases hr : (room cfg s.lim s.now fx).2 with
  | false => rfl
  | true =>
    exfalso
    have hadm : ∀ arr, phaseOf (admitCall { s with lim := (room cfg s.lim s.now fx).1 } c arr) c ≠ some (.done false) := by
      intro arr h
      have := (admitCall_frame { s with lim := (room cfg s.lim s.now fx).1 } c arr).2.2.2
      rw [h] at this; exact this
    rcases hph with hph | ⟨arr, lo, hi, hph⟩
    · simp only [stepS, hph, pollFresh, hr, if_true] at hrej
      exact hadm _ hrej
    · simp only [stepS, hph] at hrej
      unfold pollSleeping at hrej
      split at hrej
      · change phaseOf s c = _ at hrej; rw [hph] at hrej; cases hrej
      · split at hrej
        · simp only [secondTry, hr, if_true] at hrej
          exact hadm _ hrej
        · rw [hph] at hrej; cases hrej

/-! ### rejected calls go nowhere, admitted calls reach the wrapped service exactly once (every configuration) -/

/-- A rejected call never reaches the wrapped service: if the trace contains the rate-limited
error for `c`, it contains no `inner_call` for `c`. -/
theorem rejected_never_inner (cfg : Cfg) (ops : List Op)
    (c : Nat) (h : Ev.result c .rateLimited ∈ (run cfg ops).log) :
    callsOf c (run cfg ops).log = 0 := by
  have hi := inv_reachable cfg ops
  rw [callsOf_eq cfg _ hi, hi.rl c h]; rfl

/-- A caller turned away because the wrapped service was not ready (`poll_ready` pending at its
arrival: no call future was made) never reaches the wrapped service. -/
theorem not_ready_never_inner (cfg : Cfg) (ops : List Op)
    (c : Nat) (h : Ev.result c .notReady ∈ (run cfg ops).log) :
    callsOf c (run cfg ops).log = 0 := by
  have hi := inv_reachable cfg ops
  rw [callsOf_eq cfg _ hi, hi.nr c h]; rfl

/-- An admitted call reaches the wrapped service exactly once: any other result delivered to `c`
(success, inner error, panic) comes with exactly one `inner_call` for `c`; and no caller ever has
more than one. -/
theorem admitted_exactly_once (cfg : Cfg) (ops : List Op)
    (c : Nat) :
    (∀ r, r ≠ Res.rateLimited → r ≠ Res.notReady → Ev.result c r ∈ (run cfg ops).log →
        callsOf c (run cfg ops).log = 1) ∧
    callsOf c (run cfg ops).log ≤ 1 := by
  have hi := inv_reachable cfg ops
  constructor
  · intro r hr hr2 hm
    rw [callsOf_eq cfg _ hi, hi.res c r hr hr2 hm]; rfl
  · rw [callsOf_eq cfg _ hi]
    unfold admittedPh
    split <;> omega

/-- Non-vacuity with a not-ready arrival: caller 2 arrives while the wrapped service is busy and is turned away;
it never reaches the wrapped service, caller 1 exactly once. -/
example :
    let cfg : Cfg := { kind := .slog, limit := 1, period := 100, timeout := 0 }
    let s := run cfg [.arrive 1 ⟨0, .ok⟩, .poll 1 false false, .busy 50, .arrive 2 ⟨0, .ok⟩]
    Ev.result 2 .notReady ∈ s.log ∧ callsOf 2 s.log = 0 ∧ callsOf 1 s.log = 1 := by decide

/-! ### after two idle periods -/

/-- After the limiter has been idle for two full periods (no `try_acquire` since
`now − 2·period`), the next `limit_for_period` `try_acquire`s all take a permit, at whatever
non-decreasing instants they come — so (by `admitted_at_once_if_capacity`) the next
`limit_for_period` calls are admitted without waiting. All three window types. Hypothesis `hb`: the `f64` bucket
count of the sliding counter does not slip at exactly two buckets (`b1 = false`; it is only ever looked at when the
idle stretch, measured from the bucket start, is exactly two periods). It is needed: see `idle_exactly_two_periods_f64_slip`. -/
theorem idle_two_periods_refills (cfg : Cfg) (hP : 1 ≤ cfg.period)
    (ops : List Op) (hidle : (run cfg ops).lim.lastTry + 2 * cfg.period ≤ (run cfg ops).now)
    (ts : List (Nat × Fx)) (hm : Mono (run cfg ops).now (ts.map Prod.fst)) (hlen : ts.length ≤ cfg.limit)
    (hb : ∀ p ∈ ts, p.2.b1 = false) :
    AllGranted cfg (run cfg ops).lim ts :=
  spare_all false cfg hP ts (fun _ => hb) _ _ _ (idle_spare cfg _ _ ((inv_reachable cfg ops).lim hP) hidle) hm hlen

/-- After MORE than two periods of idleness the refill holds whatever the observed choices are. -/
theorem idle_longer_refills (cfg : Cfg) (hP : 1 ≤ cfg.period)
    (ops : List Op) (hidle : (run cfg ops).lim.lastTry + 2 * cfg.period < (run cfg ops).now)
    (ts : List (Nat × Fx)) (hm : Mono (run cfg ops).now (ts.map Prod.fst)) (hlen : ts.length ≤ cfg.limit) :
    AllGranted cfg (run cfg ops).lim ts :=
  spare_all true cfg hP ts (fun h => by cases h) _ _ _
    (idle_spare_strict cfg _ _ ((inv_reachable cfg ops).lim hP) hidle) hm hlen

/-- The same at caller level, on the log: after two idle periods, up to `limit_for_period` distinct callers that
are polled for the first time one after the other (at this instant) are ALL admitted by that first poll — each has
exactly one `inner_call` line, nobody sleeps, nobody is rejected. -/
theorem idle_refill_callers (cfg : Cfg) (hP : 1 ≤ cfg.period) (ops : List Op)
    (hidle : (run cfg ops).lim.lastTry + 2 * cfg.period ≤ (run cfg ops).now)
    (cs : List (Nat × Bool × Bool × Fx)) (hfresh : ∀ p ∈ cs, phaseOf (run cfg ops) p.1 = some .fresh)
    (hnd : (cs.map Prod.fst).Nodup) (hlen : cs.length ≤ cfg.limit) (hb : ∀ p ∈ cs, p.2.2.2.b1 = false) :
    ∀ p ∈ cs, Admitted (phaseOf (run cfg (ops ++ pollsOf cs)) p.1) ∧
      callsOf p.1 (run cfg (ops ++ pollsOf cs)).log = 1 := by
  intro p hp
  have hrun : run cfg (ops ++ pollsOf cs) = (pollsOf cs).foldl (stepS cfg) (run cfg ops) := by
    unfold run; rw [List.foldl_append]
  have hadm := refill_polls cfg hP cs (run cfg ops) cfg.limit
    (idle_spare cfg _ _ ((inv_reachable cfg ops).lim hP) hidle) hlen hfresh hnd hb p hp
  rw [← hrun] at hadm
  refine ⟨hadm, ?_⟩
  rw [callsOf_eq cfg _ (inv_reachable cfg _)]
  revert hadm
  generalize phaseOf (run cfg (ops ++ pollsOf cs)) p.1 = ph
  intro hadm
  match ph, hadm with
  | some (.running _), _ => rfl
  | some (.done true), _ => rfl

/-- Non-vacuity: sliding log, limit 2, full at t = 0; idle until t = 200 = two periods; callers 3 and 4 are both
admitted at their first poll. -/
example :
    let cfg : Cfg := { kind := .slog, limit := 2, period := 100, timeout := 0 }
    let ops := [Op.arrive 1 ⟨0, .ok⟩, .arrive 2 ⟨0, .ok⟩, .poll 1 false false, .poll 2 false false, .adv 200,
      .arrive 3 ⟨0, .ok⟩, .arrive 4 ⟨0, .ok⟩]
    (run cfg ops).lim.lastTry + 2 * cfg.period ≤ (run cfg ops).now ∧
    phaseOf (run cfg ops) 3 = some .fresh ∧ phaseOf (run cfg ops) 4 = some .fresh ∧
    decStamps (run cfg (ops ++ pollsOf [(3, false, false, {}), (4, false, false, {})])).tlog
      = [(1, 0), (2, 0), (3, 200), (4, 200)] := by decide

/-- **The hypothesis `hb` is needed, and the code does slip.** Sliding counter, limit 1, bucket 559 ms, timeout 0:
one call at t = 0, idle for exactly two periods, next call at t = 1118. `elapsed.as_secs_f64()` is
`1.0 + 0.118 = 1.1179999999999999`, divided by `0.559` that is `1.9999999999999996`, `as u32` gives 1, so
`maybe_rotate_bucket` keeps the old count as `previous_count` instead of clearing it: the
weighted count is 1 = limit and the call is REJECTED although the limiter has been idle for two full periods. The
model reproduces it when fed the observation `b1`; with `b1 = false` it admits. Real-code witness:
`corpus/ratelimiter/c15-idle-two-periods-f64.ops`. -/
theorem idle_exactly_two_periods_f64_slip :
    let cfg : Cfg := { kind := .counter, limit := 1, period := 559, timeout := 0 }
    let ops := [Op.arrive 1 ⟨0, .ok⟩, .poll 1 false false, .adv 1118, .arrive 2 ⟨0, .ok⟩]
    (run cfg ops).lim.lastTry + 2 * cfg.period ≤ (run cfg ops).now ∧
    Ev.result 2 .rateLimited ∈ (run cfg (ops ++ [.poll 2 true false { b1 := true }])).log ∧
    Ev.innerCall 2 1 ∈ (run cfg (ops ++ [.poll 2 true false])).log := by decide

/-- The same for every service built from one layer value, separately: each has a limiter of its own (its own
time starts when it is built), so the idle period, the refill and the routing of rejected / admitted calls are
per service — `C02.each_service_is_one_limiter` carries every theorem of this file over; here the idle refill and
"rejected calls go nowhere, admitted calls reach the wrapped service exactly once" are spelt out. -/
theorem each_service_idle_refills (cfg : Cfg) (hP : 1 ≤ cfg.period) (ops : List FOp)
    (k : Nat) (s : State) (h : lookup (frun cfg ops).insts k = some s)
    (hidle : s.lim.lastTry + 2 * cfg.period ≤ s.now)
    (ts : List (Nat × Fx)) (hm : Mono s.now (ts.map Prod.fst)) (hlen : ts.length ≤ cfg.limit)
    (hb : ∀ p ∈ ts, p.2.b1 = false) :
    AllGranted cfg s.lim ts := by
  obtain ⟨ops', rfl⟩ := frun_reach cfg ops k s h
  exact idle_two_periods_refills cfg hP ops' hidle ts hm hlen hb

theorem each_service_routes (cfg : Cfg) (ops : List FOp)
    (k : Nat) (s : State) (h : lookup (frun cfg ops).insts k = some s) (c : Nat) :
    (Ev.result c .rateLimited ∈ s.log → callsOf c s.log = 0) ∧
    (Ev.result c .notReady ∈ s.log → callsOf c s.log = 0) ∧
    (∀ r, r ≠ Res.rateLimited → r ≠ Res.notReady → Ev.result c r ∈ s.log → callsOf c s.log = 1) ∧
    callsOf c s.log ≤ 1 := by
  obtain ⟨ops', rfl⟩ := frun_reach cfg ops k s h
  exact ⟨rejected_never_inner cfg ops' c, not_ready_never_inner cfg ops' c,
    (admitted_exactly_once cfg ops' c).1, (admitted_exactly_once cfg ops' c).2⟩

/-- A caller cancelled while waiting (or before its first poll) consumes nothing: the limiter
state, the admissions and the trace are exactly what they were. (A `wait` answer never took a
permit in the first place: `TR.RateLimiter.room_grants`.) -/
theorem cancelled_waiter_consumes_nothing (cfg : Cfg) (ops : List Op) (c : Nat)
    (hph : phaseOf (run cfg ops) c = some .fresh ∨
           ∃ arr lo hi, phaseOf (run cfg ops) c = some (.sleeping arr lo hi)) :
    let s' := stepS cfg (run cfg ops) (.drop c)
    s'.lim = (run cfg ops).lim ∧ s'.log = (run cfg ops).log ∧ s'.admits = (run cfg ops).admits :=
  let h := drop_waiter_frame (run cfg ops) c hph
  ⟨h.1, h.2.1, h.2.2.1⟩

/-- Non-vacuity: limit 1, period 100, timeout 100. Caller 1 is admitted at t = 0, caller 2
(arrived t = 30) sleeps until exactly t = 100 = the end of the window ≤ 30 + 100, caller 3
(arrived t = 30, would need 70 ≤ 100) sleeps too; at t = 100 caller 2 takes the new window's only
permit, caller 3 is rejected and never reaches the inner service. -/
example :
    let cfg : Cfg := { kind := .fixed, limit := 1, period := 100, timeout := 100 }
    let ops := [Op.arrive 1 ⟨0, .ok⟩, .arrive 2 ⟨0, .ok⟩, .arrive 3 ⟨0, .ok⟩, .poll 1 false false,
      .adv 30, .poll 2 false false, .poll 3 false false]
    phaseOf (run cfg ops) 2 = some (.sleeping 30 100 100) ∧
    (run cfg (ops ++ [.adv 70, .poll 2 false true, .poll 3 false true])).admits = [(1, 0), (2, 100)] ∧
    Ev.result 3 .rateLimited ∈ (run cfg (ops ++ [.adv 70, .poll 2 false true, .poll 3 false true])).log ∧
    (run cfg (ops ++ [.adv 70, .poll 2 false true, .poll 3 false true])).lim.start = 100 := by decide

/-- Non-vacuity of the idle refill (sliding counter, limit 2, bucket 1000): full at t = 0, last
`try_acquire` at t = 0, idle until t = 2000: the hypothesis holds and two calls are granted. -/
example :
    let cfg : Cfg := { kind := .counter, limit := 2, period := 1000, timeout := 0 }
    let s := run cfg [.arrive 1 ⟨0, .ok⟩, .arrive 2 ⟨0, .ok⟩, .poll 1 false false, .poll 2 false false, .adv 2000]
    s.lim.lastTry + 2 * cfg.period ≤ s.now ∧ s.lim.cur = 2 ∧
    (room cfg s.lim 2000).2 = true ∧ (room cfg (room cfg s.lim 2000).1 2000).2 = true := by decide

/-- The idle refill has no upper bound on the length of the idle stretch (instants are unbounded naturals; the
number of elapsed buckets is a quotient, never truncated): sliding counter, limit 2, bucket of 1 tick, full at
t = 0, idle for exactly 2³² buckets (49.7 days at 1 ms) and for 2³² + 1: the next two calls are granted. -/
example :
    let cfg : Cfg := { kind := .counter, limit := 2, period := 1, timeout := 1 }
    let ops := [Op.arrive 1 ⟨0, .ok⟩, .arrive 2 ⟨0, .ok⟩, .poll 1 false false, .poll 2 false false]
    let s := run cfg (ops ++ [.adv 4294967296])
    let s1 := run cfg (ops ++ [.adv 4294967297])
    s.lim.lastTry + 2 * cfg.period ≤ s.now ∧ s.lim.cur = 2 ∧
    (room cfg s.lim s.now).2 = true ∧ (room cfg (room cfg s.lim s.now).1 s.now).2 = true ∧
    (room cfg s1.lim s1.now).2 = true ∧ (room cfg (room cfg s1.lim s1.now).1 s1.now).2 = true := by decide

/-- Non-vacuity of cancellation: a sleeping caller is dropped; the limiter is untouched and the
next window's permit goes to somebody else. -/
example :
    let cfg : Cfg := { kind := .slog, limit := 1, period := 100, timeout := 100 }
    let ops := [Op.arrive 1 ⟨0, .ok⟩, .arrive 2 ⟨0, .ok⟩, .arrive 3 ⟨0, .ok⟩, .poll 1 false false, .poll 2 false false]
    (∃ arr lo hi, phaseOf (run cfg ops) 2 = some (.sleeping arr lo hi)) ∧
    (run cfg (ops ++ [.drop 2, .adv 100, .poll 3 false false])).admits = [(1, 0), (3, 100)] := by
  refine ⟨⟨0, 100, 100, by decide⟩, by decide⟩

end TR.Props.C15
