import TR.Lemmas.RateLimiter
/-!
# C15 — the rate limiter decides every call within its timeout; rejected calls go nowhere

Quantification as for C02 (all window types, `limit ≥ 1`, `period ≥ 1`, all timeouts, all
operation lists: any number of callers, all arrival / poll / cancellation orders and instants,
all allowed observed choices). "Arrival" is the first poll of the call future: `acquire()` runs
inside the boxed `async` block of `RateLimiter::call`, so nothing happens before that poll and
the sleep (if any) starts in it.
-/
namespace TR.Props.C15
open TR TR.RateLimiter

/-- Decided within the timeout, part 1: the first poll of a call either decides it (admitted or
rejected) in that very step, or puts it to sleep with a timer due no later than
`arrival + timeout_duration` — or the observed choice fed to the model was outside what the code
guarantees (then nothing happens except the `choice-not-allowed` mark). -/
theorem decided_within_timeout_first_poll (cfg : Cfg) (ops : List Op) (c : Nat) (rej woke : Bool)
    (hph : phaseOf (run cfg ops) c = some .fresh) :
    let s := run cfg ops
    let s' := stepS cfg s (.poll c rej woke)
    Decided (phaseOf s' c) ∨
    (∃ lo hi, phaseOf s' c = some (.sleeping s.now lo hi) ∧ hi ≤ s.now + cfg.timeout) ∨
    s' = badChoice { s with lim := (room cfg s.lim s.now).1 } := by
  simp only [stepS, hph]
  exact pollFresh_outcome cfg (run cfg ops) c rej

/-- Decided within the timeout, part 2: in every reachable state a sleeping caller's timer fires
at an instant in `[lo, hi]` with `arrival < lo ≤ hi ≤ arrival + timeout_duration` (a wait is only
ever issued with `0 < d ≤ timeout`). -/
theorem decided_within_timeout_deadline (cfg : Cfg) (hL : 1 ≤ cfg.limit) (hP : 1 ≤ cfg.period)
    (ops : List Op) (c arr lo hi : Nat)
    (hph : phaseOf (run cfg ops) c = some (.sleeping arr lo hi)) :
    arr < lo ∧ lo ≤ hi ∧ hi ≤ arr + cfg.timeout := by
  obtain ⟨h1, h2, h3, _, _⟩ := (inv_reachable cfg hL hP ops).sleep c arr lo hi hph
  exact ⟨h1, h2, h3⟩

/-- Decided within the timeout, part 3: once the instant `hi` has been reached the timer must
have fired (`woke = false` is not an allowed observation), and the poll that sees it decides the
caller in that step: the second `try_acquire` admits or rejects, it never waits again. -/
theorem decided_within_timeout_due_poll (cfg : Cfg) (ops : List Op) (c arr lo hi : Nat) (rej : Bool)
    (hph : phaseOf (run cfg ops) c = some (.sleeping arr lo hi))
    (hdue : hi ≤ (run cfg ops).now) (hlo : lo ≤ hi) :
    Decided (phaseOf (stepS cfg (run cfg ops) (.poll c rej true)) c) ∧
    stepS cfg (run cfg ops) (.poll c rej false) = badChoice (run cfg ops) := by
  obtain ⟨h1, h2⟩ := pollSleeping_due cfg (run cfg ops) c arr lo hi hdue hlo
  constructor
  · simp only [stepS, hph]; rw [h1]; exact secondTry_decides cfg _ c arr
  · simp only [stepS, hph]; exact h2

/-- Admitted at once when the current window has spare capacity: if the `try_acquire` of a first
poll finds room, the first new event of that step is the caller's `inner_call`. -/
theorem admitted_at_once_if_capacity (cfg : Cfg) (ops : List Op) (c : Nat) (rej woke : Bool)
    (hph : phaseOf (run cfg ops) c = some .fresh)
    (hroom : (room cfg (run cfg ops).lim (run cfg ops).now).2 = true) :
    ∃ rest, (stepS cfg (run cfg ops) (.poll c rej woke)).log
      = (run cfg ops).log ++ Ev.innerCall c (run cfg ops).serial :: rest := by
  simp only [stepS, hph]
  exact pollFresh_admits cfg _ c rej hroom

/-- "Spare capacity" for the fixed window: the window is over, or fewer than `limit` grants have
been filed under the current window (`available_permits = limit − grants in this window`). -/
theorem capacity_fixed (cfg : Cfg) (hk : cfg.kind = .fixed) (hL : 1 ≤ cfg.limit) (hP : 1 ≤ cfg.period)
    (ops : List Op) :
    let s := run cfg ops
    ((room cfg s.lim s.now).2 = true ↔ (s.now - s.lim.start ≥ cfg.period ∨ curLen s.lim < cfg.limit)) := by
  have h := (inv_reachable cfg hL hP ops).lim.fixed hk
  simp only
  rw [room_fixed_iff cfg _ _ hk hL]
  constructor
  · intro h'; rcases h' with h' | h'
    · exact Or.inl h'
    · exact Or.inr (by omega)
  · intro h'; rcases h' with h' | h'
    · exact Or.inl h'
    · exact Or.inr (by omega)

/-- "Spare capacity" for the sliding log: fewer than `limit` grants younger than one period. -/
theorem capacity_log (cfg : Cfg) (hk : cfg.kind = .slog) (ops : List Op) :
    let s := run cfg ops
    ((room cfg s.lim s.now).2 = true ↔ (expire cfg.period s.now s.lim.ts).length < cfg.limit) :=
  room_log_iff cfg _ _ hk

/-- Admitted later only by taking a permit of a later window: when a poll admits a caller that
had been told to wait, its second `try_acquire` took a permit at this instant, which is later
than its arrival; the admission is recorded at this instant; and for the fixed window the permit
belongs to a window that began after the caller arrived. -/
theorem later_admission_takes_later_permit (cfg : Cfg) (hL : 1 ≤ cfg.limit) (hP : 1 ≤ cfg.period)
    (ops : List Op) (c arr lo hi : Nat) (rej woke : Bool)
    (hph : phaseOf (run cfg ops) c = some (.sleeping arr lo hi))
    (hadm : Admitted (phaseOf (stepS cfg (run cfg ops) (.poll c rej woke)) c)) :
    let s := run cfg ops
    let s' := stepS cfg s (.poll c rej woke)
    (room cfg s.lim s.now).2 = true ∧ arr < s.now ∧
    s'.lim.grants = s.lim.grants ++ [s.now] ∧ s'.admits = s.admits ++ [(c, s.now)] ∧
    (cfg.kind = .fixed → arr < s'.lim.start) :=
  sleeper_admission cfg (run cfg ops) c arr lo hi rej woke hL (inv_reachable cfg hL hP ops) hph hadm

/-- A rejected call never reaches the wrapped service: if the trace contains the rate-limited
error for `c`, it contains no `inner_call` for `c`. -/
theorem rejected_never_inner (cfg : Cfg) (hL : 1 ≤ cfg.limit) (hP : 1 ≤ cfg.period) (ops : List Op)
    (c : Nat) (h : Ev.result c .rateLimited ∈ (run cfg ops).log) :
    callsOf c (run cfg ops).log = 0 := by
  have hi := inv_reachable cfg hL hP ops
  rw [callsOf_eq cfg _ hi, hi.rl c h]; rfl

/-- A caller turned away because the wrapped service was not ready (`poll_ready` pending at its
arrival: no call future was made) never reaches the wrapped service. -/
theorem not_ready_never_inner (cfg : Cfg) (hL : 1 ≤ cfg.limit) (hP : 1 ≤ cfg.period) (ops : List Op)
    (c : Nat) (h : Ev.result c .notReady ∈ (run cfg ops).log) :
    callsOf c (run cfg ops).log = 0 := by
  have hi := inv_reachable cfg hL hP ops
  rw [callsOf_eq cfg _ hi, hi.nr c h]; rfl

/-- An admitted call reaches the wrapped service exactly once: any other result delivered to `c`
(success, inner error, panic) comes with exactly one `inner_call` for `c`; and no caller ever has
more than one. -/
theorem admitted_exactly_once (cfg : Cfg) (hL : 1 ≤ cfg.limit) (hP : 1 ≤ cfg.period) (ops : List Op)
    (c : Nat) :
    (∀ r, r ≠ Res.rateLimited → r ≠ Res.notReady → Ev.result c r ∈ (run cfg ops).log →
        callsOf c (run cfg ops).log = 1) ∧
    callsOf c (run cfg ops).log ≤ 1 := by
  have hi := inv_reachable cfg hL hP ops
  constructor
  · intro r hr hr2 hm
    rw [callsOf_eq cfg _ hi, hi.res c r hr hr2 hm]; rfl
  · rw [callsOf_eq cfg _ hi]
    unfold admittedPh
    split <;> omega

/-- After the limiter has been idle for two full periods (no `try_acquire` since
`now − 2·period`), the next `limit_for_period` `try_acquire`s all take a permit, at whatever
non-decreasing instants they come — so (by `admitted_at_once_if_capacity`) the next
`limit_for_period` calls are admitted without waiting. All three window types. -/
theorem idle_two_periods_refills (cfg : Cfg) (hL : 1 ≤ cfg.limit) (hP : 1 ≤ cfg.period)
    (ops : List Op) (hidle : (run cfg ops).lim.lastTry + 2 * cfg.period ≤ (run cfg ops).now)
    (ts : List Nat) (hm : Mono (run cfg ops).now ts) (hlen : ts.length ≤ cfg.limit) :
    AllGranted cfg (run cfg ops).lim ts :=
  spare_all cfg hP ts _ _ _ (idle_spare cfg _ _ (inv_reachable cfg hL hP ops).lim hidle) hm hlen

/-- The same for every service built from one layer value, separately: each has a limiter of its own (its own
time starts when it is built), so the idle period, the refill and the routing of rejected / admitted calls are
per service — `C02.each_service_is_one_limiter` carries every theorem of this file over; here the idle refill and
"rejected calls go nowhere, admitted calls reach the wrapped service exactly once" are spelt out. -/
theorem each_service_idle_refills (cfg : Cfg) (hL : 1 ≤ cfg.limit) (hP : 1 ≤ cfg.period) (ops : List FOp)
    (k : Nat) (s : State) (h : lookup (frun cfg ops).insts k = some s)
    (hidle : s.lim.lastTry + 2 * cfg.period ≤ s.now)
    (ts : List Nat) (hm : Mono s.now ts) (hlen : ts.length ≤ cfg.limit) :
    AllGranted cfg s.lim ts := by
  obtain ⟨ops', rfl⟩ := frun_reach cfg ops k s h
  exact idle_two_periods_refills cfg hL hP ops' hidle ts hm hlen

theorem each_service_routes (cfg : Cfg) (hL : 1 ≤ cfg.limit) (hP : 1 ≤ cfg.period) (ops : List FOp)
    (k : Nat) (s : State) (h : lookup (frun cfg ops).insts k = some s) (c : Nat) :
    (Ev.result c .rateLimited ∈ s.log → callsOf c s.log = 0) ∧
    (Ev.result c .notReady ∈ s.log → callsOf c s.log = 0) ∧
    (∀ r, r ≠ Res.rateLimited → r ≠ Res.notReady → Ev.result c r ∈ s.log → callsOf c s.log = 1) ∧
    callsOf c s.log ≤ 1 := by
  obtain ⟨ops', rfl⟩ := frun_reach cfg ops k s h
  exact ⟨rejected_never_inner cfg hL hP ops' c, not_ready_never_inner cfg hL hP ops' c,
    (admitted_exactly_once cfg hL hP ops' c).1, (admitted_exactly_once cfg hL hP ops' c).2⟩

/-- A caller cancelled while waiting (or before its first poll) consumes nothing: the limiter
state, the admissions and the trace are exactly what they were. (A `wait` answer never took a
permit in the first place: `TR.RateLimiter.room_grants`.) -/
theorem cancelled_waiter_consumes_nothing (cfg : Cfg) (ops : List Op) (c : Nat)
    (hph : phaseOf (run cfg ops) c = some .fresh ∨
           ∃ arr lo hi, phaseOf (run cfg ops) c = some (.sleeping arr lo hi)) :
    let s' := stepS cfg (run cfg ops) (.drop c)
    s'.lim = (run cfg ops).lim ∧ s'.log = (run cfg ops).log ∧ s'.admits = (run cfg ops).admits :=
  let h := drop_waiter_frame (run cfg ops) c hph
  ⟨h.1, h.2.1, h.2.2.1⟩

/-- Non-vacuity: limit 1, period 100, timeout 100. Caller 1 is admitted at t = 0, caller 2
(arrived t = 30) sleeps until exactly t = 100 = the end of the window ≤ 30 + 100, caller 3
(arrived t = 30, would need 70 ≤ 100) sleeps too; at t = 100 caller 2 takes the new window's only
permit, caller 3 is rejected and never reaches the inner service. -/
example :
    let cfg : Cfg := { kind := .fixed, limit := 1, period := 100, timeout := 100 }
    let ops := [Op.arrive 1 ⟨0, .ok⟩, .arrive 2 ⟨0, .ok⟩, .arrive 3 ⟨0, .ok⟩, .poll 1 false false,
      .adv 30, .poll 2 false false, .poll 3 false false]
    phaseOf (run cfg ops) 2 = some (.sleeping 30 100 100) ∧
    (run cfg (ops ++ [.adv 70, .poll 2 false true, .poll 3 false true])).admits = [(1, 0), (2, 100)] ∧
    Ev.result 3 .rateLimited ∈ (run cfg (ops ++ [.adv 70, .poll 2 false true, .poll 3 false true])).log ∧
    (run cfg (ops ++ [.adv 70, .poll 2 false true, .poll 3 false true])).lim.start = 100 := by decide

/-- Non-vacuity of the idle refill (sliding counter, limit 2, bucket 1000): full at t = 0, last
`try_acquire` at t = 0, idle until t = 2000: the hypothesis holds and two calls are granted. -/
example :
    let cfg : Cfg := { kind := .counter, limit := 2, period := 1000, timeout := 0 }
    let s := run cfg [.arrive 1 ⟨0, .ok⟩, .arrive 2 ⟨0, .ok⟩, .poll 1 false false, .poll 2 false false, .adv 2000]
    s.lim.lastTry + 2 * cfg.period ≤ s.now ∧ s.lim.cur = 2 ∧
    (room cfg s.lim 2000).2 = true ∧ (room cfg (room cfg s.lim 2000).1 2000).2 = true := by decide

/-- The idle refill has no upper bound on the length of the idle stretch (instants are unbounded naturals; the
number of elapsed buckets is a quotient, never truncated): sliding counter, limit 2, bucket of 1 tick, full at
t = 0, idle for exactly 2³² buckets (49.7 days at 1 ms) and for 2³² + 1: the next two calls are granted. -/
example :
    let cfg : Cfg := { kind := .counter, limit := 2, period := 1, timeout := 1 }
    let ops := [Op.arrive 1 ⟨0, .ok⟩, .arrive 2 ⟨0, .ok⟩, .poll 1 false false, .poll 2 false false]
    let s := run cfg (ops ++ [.adv 4294967296])
    let s1 := run cfg (ops ++ [.adv 4294967297])
    s.lim.lastTry + 2 * cfg.period ≤ s.now ∧ s.lim.cur = 2 ∧
    (room cfg s.lim s.now).2 = true ∧ (room cfg (room cfg s.lim s.now).1 s.now).2 = true ∧
    (room cfg s1.lim s1.now).2 = true ∧ (room cfg (room cfg s1.lim s1.now).1 s1.now).2 = true := by decide

/-- Non-vacuity of cancellation: a sleeping caller is dropped; the limiter is untouched and the
next window's permit goes to somebody else. -/
example :
    let cfg : Cfg := { kind := .slog, limit := 1, period := 100, timeout := 100 }
    let ops := [Op.arrive 1 ⟨0, .ok⟩, .arrive 2 ⟨0, .ok⟩, .arrive 3 ⟨0, .ok⟩, .poll 1 false false, .poll 2 false false]
    (∃ arr lo hi, phaseOf (run cfg ops) 2 = some (.sleeping arr lo hi)) ∧
    (run cfg (ops ++ [.drop 2, .adv 100, .poll 3 false false])).admits = [(1, 0), (3, 100)] := by
  refine ⟨⟨0, 100, 100, by decide⟩, by decide⟩

end TR.Props.C15
