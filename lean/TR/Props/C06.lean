import TR.Lemmas.TimeLimiterKnob
/-!
# C06 — the time limiter resolves every call by its deadline

Quantification of every theorem: every configuration `cfg` (any fixed timeout, or a
per-request timeout source with any default; both cancellation modes), every list of
operations `ops` (any number of callers, each with its own timeout — any number of
milliseconds, or `Duration::MAX` = `Tmo.max`, for which no deadline exists — and its own scripted inner
call — any latency: below, at, above the timeout — and any outcome: ok / error / panic /
never; any order of arrivals, first polls, further polls, drops of the call future and
advances of the clock).  The model is deterministic: since the repair of the non-cancel
`select!` (`biased;`, oneshot first) there is no implementation choice left.

Vocabulary (of `TR.Model.TimeLimiter` / `TR.Lemmas.TimeLimiter`): for the record `x` of a caller,
`x.start` is the instant of its first poll, `x.doneAt = x.start + latency`,
`x.deadline = x.start + x.tmo`, `x.unl`: the timeout is `Duration::MAX` (no deadline);
`x.due t` = the deadline has been reached at `t` (`x.unl = false ∧ x.deadline ≤ t`: never, without a
deadline); `x.awake t` = the inner call has finished by `t` or the deadline has been reached — for a
call with a deadline that is `x.wakeAt ≤ t`, `x.wakeAt = min(done, deadline)` (`= deadline` for a
never-completing inner call), see `awake_characterisation`; `newEvents cfg s op` are the events
`op` appends to the log in state `s`; `serialOf s c` is the serial number of `c`'s inner call.

The observable log: `trace cfg ops` is the event log with its instants — every event an operation appends, stamped
with the instant of the state the operation leads to, exactly what the driver prints and the correspondence check
compares with the implementation's log (`trace_is_the_log`: without the instants it is `State.log`).  The
theorems named `log_…` and `resolves_no_later_than_timeout`, `one_result_per_caller`, `result_lines_are_history`
speak about lines `(t, Ev.result c r)` / `(t, Ev.innerCall c k)` / `(t, Ev.innerDrop c k)` of that log; the older
trace theorems over the ghost histories `x.hist` are kept as the lemmas they are proved from.
`x.wakeup` (Model) is the instant the runtime has been told to poll the caller again: the earliest armed one of
{inner call's completion, deadline}; `s.woken c`: it has been reached; `PolledWhenWoken cfg c ops`: the schedule `ops`
never moves the clock past the wake-up of `c` while `c`'s call is pending (the timer fires AT the armed instant and
the woken caller is polled before time goes on).
-/
namespace TR.Props.C06
open TR TR.TimeLimiter

/-! ## where the timeout and the deadline come from -/

/-- The timeout of a call is captured when the call is made: the fixed value, or — with a
per-request source — the request's own value (the configured default if it has none); a number
of milliseconds (`tmo := n`, `unl := false`) or `Duration::MAX` (`unl := true`: no deadline). -/
theorem timeout_source (cfg : Cfg) (ops : List Op) (c : Nat) (tmo : Option Tmo) (sc : Step)
    (hnew : lookup (run cfg ops).callers c = none) :
    recordAfter cfg (run cfg ops) (.arrive c tmo sc) c
      = some (newCaller (if cfg.dyn then tmo.getD cfg.timeout else cfg.timeout) sc) ∧
    (∀ n, newCaller (.ms n) sc = { tmo := n, unl := false, sc := sc }) ∧
    (newCaller .max sc).unl = true := by
  exact ⟨recordAfter_arrive_new cfg _ c tmo sc hnew, fun _ => rfl, rfl⟩

/-- **The timeout of a call is fixed by `call()`.**  The timeout source may be any closure: here it reads, besides the
request, a knob that is turned at run time (`KOp.knob`, harness `manual knob v=…`; `runK`: operations of the service
interleaved with turns of the knob).  (1) A call made while the knob is `k` captures what the source answers THEN — the
request's own timeout, else `k`, else the default (`withKnob`; the fixed value for a fixed source).  (2) Whatever is
requested afterwards — turns of the knob, other calls, first polls in any order, however late — the record of the call
keeps that timeout (and its inner call): its deadline is `first poll + the timeout captured by call()`.  (3) Turning the
knob is no operation of the service: it changes no record and no log line. -/
theorem deadline_fixed_at_call (cfg : Cfg) (ops more : List KOp) (c : Nat) :
    (∀ (own : Option Tmo) (sc : Step), lookup (runK cfg ops).2.callers c = none →
       lookup (runK cfg (ops ++ [.op (.arrive c own sc)])).2.callers c
         = some (newCaller (effTimeout cfg (withKnob (runK cfg ops).1 own)) sc)) ∧
    (∀ x, lookup (runK cfg ops).2.callers c = some x →
       ∃ y, lookup (runK cfg (ops ++ more)).2.callers c = some y ∧ y.tmo = x.tmo ∧ y.unl = x.unl ∧ y.sc = x.sc ∧
         y.deadline = y.start + x.tmo) ∧
    (∀ v, (runK cfg (ops ++ [.knob v])).2 = (runK cfg ops).2) := by
  refine ⟨?_, ?_, ?_⟩
  · intro own sc hnew
    have h := recordAfter_arrive_new cfg (runK cfg ops).2 c (withKnob (runK cfg ops).1 own) sc hnew
    simpa [runK, List.foldl_append, stepK, knobOp, recordAfter, effTimeout] using h
  · intro x hx
    have h := foldK_kept cfg more (runK cfg ops) c x hx
    obtain ⟨y, hy, e1, e2, e3⟩ := h
    refine ⟨y, ?_, e1, e2, e3, ?_⟩
    · simpa [runK, List.foldl_append] using hy
    · simp [Caller.deadline, e1]
  · intro v
    simp [runK, List.foldl_append, stepK]

/-- The same at the level of the line protocol (`machineK`, what the driver runs): a `manual knob …` line leaves the
service's state untouched and prints nothing; while the knob is unset every line is the step of `machine`. -/
theorem knob_line_is_no_operation (m : machine.σ) (k : Option Tmo) (rest ws : List String) :
    (machineK.step (m, k) ("manual" :: "knob" :: rest)).1.1 = m ∧
    (machineK.step (m, k) ("manual" :: "knob" :: rest)).2 = [] ∧
    knobWords none ws = ws :=
  ⟨rfl, rfl, rfl⟩

/-- The deadline counts from the **first poll** of the call future (not from `call()`): the
first poll calls the inner service (`inner_call` is among its events) and arms
`deadline = now + timeout`, whenever the call was created. -/
theorem deadline_from_first_poll (cfg : Cfg) (ops : List Op) (c : Nat) (x : Caller)
    (hx : lookup (run cfg ops).callers c = some x) (hf : x.outer = .fresh) :
    ∃ x', recordAfter cfg (run cfg ops) (.poll c) c = some x' ∧
      x'.start = (run cfg ops).now ∧ x'.deadline = (run cfg ops).now + x.tmo ∧
      x'.doneAt = (run cfg ops).now + x.sc.lat ∧
      Ev.innerCall c (run cfg ops).serial ∈ newEvents cfg (run cfg ops) (.poll c) ∧
      (∀ t, x'.due t ↔ (x.unl = false ∧ (run cfg ops).now + x.tmo ≤ t)) := by
  have h := firstPoll_fields cfg (run cfg ops).now x hf
  refine ⟨(pollC cfg (run cfg ops).now x).1, by simp [recordAfter_poll, hx], h.1, ?_, ?_, ?_, ?_⟩
  · simp [Caller.deadline, h.1, h.2.1]
  · simp [Caller.doneAt, h.1, h.2.2.1]
  · exact newEvents_called cfg _ c x hx h.2.2.2.1
  · intro t; simp [Caller.due, Caller.deadline, h.1, h.2.1, h.2.2.2.2]

/-! ## resolves by the deadline -/

/-- `awake`, spelled out: for a call with a deadline it is "`now ≥ min(done, deadline)`"; for a
call whose timeout is `Duration::MAX` it is "the inner call has finished", and such a call is
never due. -/
theorem awake_characterisation (x : Caller) (now : Nat) :
    (x.unl = false → (x.awake now ↔ x.wakeAt ≤ now) ∧ (x.due now ↔ x.deadline ≤ now)) ∧
    (x.unl = true → (x.awake now ↔ (x.sc.out ≠ .never ∧ x.doneAt ≤ now)) ∧ ¬ x.due now) := by
  constructor
  · intro hu; exact ⟨awake_iff_wakeAt x now hu, by simp [Caller.due, hu]⟩
  · intro hu; exact ⟨awake_iff_done x now hu, not_due_of_unl hu now⟩

/-- A caller whose call is unresolved and that is polled at any instant `≥ min(done, deadline)`
(without a deadline: `≥ done`) resolves in that very poll: afterwards its call future
is gone and the last event of the step is its `result`. -/
theorem resolves_from_wake (cfg : Cfg) (ops : List Op) (c : Nat) (x : Caller)
    (hx : lookup (run cfg ops).callers c = some x) (hw : x.outer = .waiting)
    (ht : x.awake (run cfg ops).now) :
    (∃ x', recordAfter cfg (run cfg ops) (.poll c) c = some x' ∧ x'.outer = .gone) ∧
    ∃ pre r, newEvents cfg (run cfg ops) (.poll c) = pre ++ [Ev.result c r] := by
  have hinv := inv_reachable cfg ops c x hx
  obtain ⟨hg, hnc, pre, r, hev⟩ := poll_resolves cfg _ x hinv hw ht
  refine ⟨⟨(pollC cfg (run cfg ops).now x).1, by simp [recordAfter_poll, hx], hg⟩, ?_⟩
  rw [newEvents_poll cfg _ c x hx hnc, hev]
  exact ⟨pre.map (toEv c (serialOf (run cfg ops) c)), r.toRes (serialOf (run cfg ops) c), by simp [toEv]⟩

/-- **No call outlives its deadline**: a poll at or after the deadline resolves the call. -/
theorem resolves_by_deadline (cfg : Cfg) (ops : List Op) (c : Nat) (x : Caller)
    (hx : lookup (run cfg ops).callers c = some x) (hw : x.outer = .waiting)
    (ht : x.due (run cfg ops).now) :
    (∃ x', recordAfter cfg (run cfg ops) (.poll c) c = some x' ∧ x'.outer = .gone) ∧
    ∃ pre r, newEvents cfg (run cfg ops) (.poll c) = pre ++ [Ev.result c r] :=
  resolves_from_wake cfg ops c x hx hw (Or.inr ht)

/-- The wake set: a poll strictly before `min(done, deadline)` changes nothing and is silent,
so `min(done, deadline)` is exactly the instant from which the caller has to be polled (the
instant its waker must fire), and no call resolves early. -/
theorem pending_before_wake (cfg : Cfg) (ops : List Op) (c : Nat) (x : Caller)
    (hx : lookup (run cfg ops).callers c = some x) (hw : x.outer = .waiting)
    (ht : ¬ x.awake (run cfg ops).now) :
    recordAfter cfg (run cfg ops) (.poll c) c = some x ∧
    newEvents cfg (run cfg ops) (.poll c) = [] := by
  have hinv := inv_reachable cfg ops c x hx
  have hp := poll_pending cfg _ x hinv hw ht
  constructor
  · simp [recordAfter_poll, hx, hp]
  · rw [newEvents_poll cfg _ c x hx (by simp [hp]), hp]; rfl

/-- In a settled state (a pass of polls over all callers is silent) no caller is pending at or
after its deadline — nor at or after the instant its inner call finished. -/
theorem settled_none_overdue (cfg : Cfg) (ops : List Op) (c : Nat) (x : Caller)
    (hs : Settled cfg (run cfg ops))
    (hx : lookup (run cfg ops).callers c = some x) (hw : x.outer = .waiting) :
    ¬ x.awake (run cfg ops).now ∧ ¬ x.due (run cfg ops).now ∧
    (x.unl = false → (run cfg ops).now < x.wakeAt ∧ (run cfg ops).now < x.deadline) := by
  have h1 : ¬ x.awake (run cfg ops).now := by
    intro hle
    obtain ⟨_, pre, r, hev⟩ := resolves_from_wake cfg ops c x hx hw hle
    rw [hs c] at hev
    simp at hev
  have h2 : ¬ x.due (run cfg ops).now := fun hd => h1 (Or.inr hd)
  refine ⟨h1, h2, fun hu => ⟨?_, ?_⟩⟩
  · apply Nat.lt_of_not_le
    intro hle
    exact h1 ((awake_iff_wakeAt x _ hu).mpr hle)
  · apply Nat.lt_of_not_le
    intro hle
    exact h2 ⟨hu, hle⟩

/-- Trace form: whenever a caller's history contains a result, its instant is `≥ min(done,
deadline)`, and the result is an event of the log. -/
theorem never_resolves_early (cfg : Cfg) (ops : List Op) (c : Nat) (x : Caller) (t : Nat) (r : CRes)
    (hx : lookup (run cfg ops).callers c = some x) (hr : (t, CEv.result r) ∈ x.hist) :
    x.awake t ∧ ∃ k, Ev.result c (r.toRes k) ∈ (run cfg ops).log := by
  have hinv := inv_reachable cfg ops c x hx
  refine ⟨hinv.resLate t r hr, ?_⟩
  obtain ⟨k, hk⟩ := hist_in_log cfg ops c x t _ hx hr
  exact ⟨k, hk⟩

/-! ## which result -/

/-- **A finished inner call wins whenever it is observed, in both modes** — before, at, or
after the deadline (also when the caller is polled late, after both `done` and `deadline`):
cancel mode because `tokio::time::timeout` polls the inner future first, non-cancel mode
because the `select!` is biased towards the oneshot.  In particular an inner call that
finished before (or at) the deadline is never reported as a timeout. -/
theorem inner_wins_whenever_observed (cfg : Cfg) (ops : List Op) (c : Nat) (x : Caller)
    (hx : lookup (run cfg ops).callers c = some x) (hw : x.outer = .waiting)
    (hout : x.sc.out = .ok ∨ ∃ kd, x.sc.out = .err kd)
    (hdone : x.doneAt ≤ (run cfg ops).now) :
    newEvents cfg (run cfg ops) (.poll c) =
      (if cfg.cancel then [Ev.innerDone c (serialOf (run cfg ops) c) x.sc.out] else []) ++
        [Ev.result c ((resOf x.sc.out).toRes (serialOf (run cfg ops) c))] := by
  have hinv := inv_reachable cfg ops c x hx
  have hne : x.sc.out ≠ .never := by rcases hout with h | ⟨kd, h⟩ <;> simp [h]
  have hrx : resRx x.sc.out = resOf x.sc.out := resRx_eq_resOf _ hout
  cases hc : cfg.cancel
  · have hp : pollC cfg (run cfg ops).now x = _ :=
      (pollC_waiting_detached cfg _ x hw hc).trans (pollDetached_inner cfg _ x hinv hc hw hne hdone)
    rw [newEvents_poll cfg _ c x hx (by simp [hp]), hp]
    simp [toEv, hrx]
  · have hp : pollC cfg (run cfg ops).now x = _ :=
      (pollC_waiting_cancel cfg _ x hw hc).trans (pollCancel_done _ x hne hdone)
    rw [newEvents_poll cfg _ c x hx (by simp [hp]), hp]
    simp [toEv]

/-- **Inner result if it is there first**: the inner call has finished (ok or error) and the
deadline has not been reached: the poll delivers the inner outcome with the inner call's own
serial — in cancel mode together with `inner_done` (the caller polls the inner future itself),
in non-cancel mode through the oneshot. No timeout error. -/
theorem result_if_earlier (cfg : Cfg) (ops : List Op) (c : Nat) (x : Caller)
    (hx : lookup (run cfg ops).callers c = some x) (hw : x.outer = .waiting)
    (hout : x.sc.out = .ok ∨ ∃ kd, x.sc.out = .err kd)
    (hdone : x.doneAt ≤ (run cfg ops).now) (_hdl : ¬ x.due (run cfg ops).now) :
    newEvents cfg (run cfg ops) (.poll c) =
      (if cfg.cancel then [Ev.innerDone c (serialOf (run cfg ops) c) x.sc.out] else []) ++
        [Ev.result c ((resOf x.sc.out).toRes (serialOf (run cfg ops) c))] :=
  inner_wins_whenever_observed cfg ops c x hx hw hout hdone

/-- Trace form of the same, the strict reading of the property: in **every** reachable state,
if a caller's history contains a timeout although its inner call completes (ok or error), then
that inner call did **not** finish before the deadline (`deadline ≤ done`).  Equivalently:
an inner call with `done < deadline` is never reported as timed out, whenever and however
late the caller is polled, in both modes.  A call without a deadline (`Duration::MAX`) is
never reported as timed out at all. -/
theorem intime_result_never_lost (cfg : Cfg) (ops : List Op) (c : Nat) (x : Caller) (t : Nat)
    (hx : lookup (run cfg ops).callers c = some x)
    (hout : x.sc.out = .ok ∨ ∃ kd, x.sc.out = .err kd)
    (hr : (t, CEv.result .timeout) ∈ x.hist) : x.unl = false ∧ x.deadline ≤ x.doneAt := by
  have hinv := inv_reachable cfg ops c x hx
  have hnp : x.sc.out ≠ .panic := by rcases hout with h | ⟨kd, h⟩ <;> simp [h]
  have hnn : x.sc.out ≠ .never := by rcases hout with h | ⟨kd, h⟩ <;> simp [h]
  refine ⟨hinv.toUnl t hr hnp, ?_⟩
  rcases hinv.toLate t hr hnp with h | h
  · exact absurd h hnn
  · exact h

/-- **`Duration::MAX` = no limit**: a call whose timeout is `Duration::MAX` (fixed, or its own
per-request value) is never due, in both modes: whatever is in its history as a result was
delivered when the inner call had finished (`≥ done`), and unless the inner call panics it is not a
timeout; while the inner call is unfinished every poll is silent (however far the clock has
advanced), and the first poll at or after `done` delivers the inner outcome (ok or error) with the
inner call's serial.  Cancel mode never drops its inner call by itself. -/
theorem unlimited_resolves_with_inner_result (cfg : Cfg) (ops : List Op) (c : Nat) (x : Caller)
    (hx : lookup (run cfg ops).callers c = some x) (hu : x.unl = true) :
    (∀ t, ¬ x.due t) ∧
    (∀ t r, (t, CEv.result r) ∈ x.hist →
        (x.sc.out ≠ .never ∧ x.doneAt ≤ t) ∧ (x.sc.out ≠ .panic → r ≠ .timeout)) ∧
    (x.outer = .waiting → (x.sc.out = .never ∨ (run cfg ops).now < x.doneAt) →
        recordAfter cfg (run cfg ops) (.poll c) c = some x ∧
        newEvents cfg (run cfg ops) (.poll c) = []) ∧
    (x.outer = .waiting → (x.sc.out = .ok ∨ ∃ kd, x.sc.out = .err kd) →
        x.doneAt ≤ (run cfg ops).now →
        newEvents cfg (run cfg ops) (.poll c) =
          (if cfg.cancel then [Ev.innerDone c (serialOf (run cfg ops) c) x.sc.out] else []) ++
            [Ev.result c ((resOf x.sc.out).toRes (serialOf (run cfg ops) c))]) := by
  have hinv := inv_reachable cfg ops c x hx
  refine ⟨not_due_of_unl hu, ?_, ?_, ?_⟩
  · intro t r hr
    constructor
    · rcases hinv.resLate t r hr with h | h
      · exact h
      · exact absurd h (not_due_of_unl hu t)
    · intro hnp hrt
      subst hrt
      have := hinv.toUnl t hr hnp
      rw [this] at hu; cases hu
  · intro hw hnot
    apply pending_before_wake cfg ops c x hx hw
    rw [awake_iff_done x _ hu]
    intro h
    rcases hnot with h' | h'
    · exact h.1 h'
    · omega
  · intro hw hout hdone
    exact inner_wins_whenever_observed cfg ops c x hx hw hout hdone

/-- **Timeout error if the deadline is there first**: the deadline has been reached and the
inner call has not finished (or never will): the poll reports `err:timeout` — in cancel mode
preceded, in the same step, by the drop of the inner future; in non-cancel mode nothing is
dropped. -/
theorem timeout_if_later (cfg : Cfg) (ops : List Op) (c : Nat) (x : Caller)
    (hx : lookup (run cfg ops).callers c = some x) (hw : x.outer = .waiting)
    (hdl : x.due (run cfg ops).now)
    (hnot : x.sc.out = .never ∨ (run cfg ops).now < x.doneAt) :
    newEvents cfg (run cfg ops) (.poll c) =
      (if cfg.cancel then [Ev.innerDrop c (serialOf (run cfg ops) c)] else []) ++
        [Ev.result c .timeout] := by
  have hinv := inv_reachable cfg ops c x hx
  cases hc : cfg.cancel
  · have hp : pollC cfg (run cfg ops).now x = _ :=
      (pollC_waiting_detached cfg _ x hw hc).trans (pollDetached_timeout cfg _ x hinv hc hw hnot hdl)
    rw [newEvents_poll cfg _ c x hx (by simp [hp]), hp]
    simp [toEv]
  · have hp : pollC cfg (run cfg ops).now x = _ :=
      (pollC_waiting_cancel cfg _ x hw hc).trans (pollCancel_timeout _ x hnot hdl)
    rw [newEvents_poll cfg _ c x hx (by simp [hp]), hp]
    simp [toEv]

/-! ## the fate of the inner call -/

/-- **Cancel mode drops the inner call at the deadline**: the poll that reports the timeout
emits `inner_drop` immediately before it and leaves the inner call dropped; and (trace form)
every timeout in a caller's history is accompanied, at the same instant, by the drop, at an
instant `≥` its deadline, and both are events of the log. (Not before: `pending_before_wake`.) -/
theorem cancel_drops_at_deadline (cfg : Cfg) (hc : cfg.cancel = true) (ops : List Op) (c : Nat) (x : Caller)
    (hx : lookup (run cfg ops).callers c = some x) :
    (x.outer = .waiting → x.due (run cfg ops).now →
        (x.sc.out = .never ∨ (run cfg ops).now < x.doneAt) →
        newEvents cfg (run cfg ops) (.poll c)
          = [Ev.innerDrop c (serialOf (run cfg ops) c), Ev.result c .timeout] ∧
        ∃ x', recordAfter cfg (run cfg ops) (.poll c) c = some x' ∧ x'.inner = .dropped) ∧
    (∀ t, (t, CEv.result .timeout) ∈ x.hist →
        (t, CEv.dropped) ∈ x.hist ∧ x.due t ∧ ∃ k, Ev.innerDrop c k ∈ (run cfg ops).log) := by
  constructor
  · intro hw hdl hnot
    have h := timeout_if_later cfg ops c x hx hw hdl hnot
    simp only [hc, if_true] at h
    refine ⟨by simpa using h, ?_⟩
    have hp : pollC cfg (run cfg ops).now x = _ :=
      (pollC_waiting_cancel cfg _ x hw hc).trans (pollCancel_timeout _ x hnot hdl)
    exact ⟨(pollC cfg (run cfg ops).now x).1, by simp [recordAfter_poll, hx], by rw [hp]; simp⟩
  · intro t ht
    have hinv := inv_reachable cfg ops c x hx
    have h := hinv.cTimeout hc t ht
    obtain ⟨k, hk⟩ := hist_in_log cfg ops c x t _ hx h.1
    exact ⟨h.1, h.2, k, hk⟩

/-- **Non-cancel mode runs the inner call to completion**, whatever happens to the caller
(timeout, drop of the call future, result delivered): the log never contains an `inner_drop`;
once an inner call has been started and its latency is over, it has finished, its `inner_done`
is in the caller's history at an instant `≥ done` and in the log; and the advance of the clock
that reaches `done` is the step that emits it. -/
theorem nocancel_runs_to_completion (cfg : Cfg) (hc : cfg.cancel = false) (ops : List Op) :
    (∀ c k, Ev.innerDrop c k ∉ (run cfg ops).log) ∧
    (∀ c x, lookup (run cfg ops).callers c = some x → x.inner ≠ .idle → x.sc.out ≠ .never →
        x.doneAt ≤ (run cfg ops).now →
        x.inner = .finished ∧
        ∃ t k, x.doneAt ≤ t ∧ (t, CEv.done x.sc.out) ∈ x.hist ∧
          Ev.innerDone c k x.sc.out ∈ (run cfg ops).log) ∧
    (∀ c x ms, lookup (run cfg ops).callers c = some x → x.inner = .running → x.sc.out ≠ .never →
        x.doneAt ≤ (run cfg ops).now + ms →
        Ev.innerDone c (serialOf (run cfg ops) c) x.sc.out ∈ newEvents cfg (run cfg ops) (.adv ms)) := by
  refine ⟨nodrop_reachable cfg hc ops, ?_, ?_⟩
  · intro c x hx hni hne hdone
    have hinv := inv_reachable cfg ops c x hx
    have hfin := (hinv.ncSync hc hni).mpr ⟨hne, hdone⟩
    obtain ⟨t, h1, h2, _⟩ := hinv.ncDone hc hfin
    obtain ⟨k, hk⟩ := hist_in_log cfg ops c x t _ hx h1
    exact ⟨hfin, t, k, h2, h1, hk⟩
  · intro c x ms hx hrun hne hdone
    have : CEv.done x.sc.out ∈ (advC cfg ((run cfg ops).now + ms) x).2 := by
      simp [advC, hc, runTask, hrun, hne, hdone]
    exact newEvents_adv_mem cfg _ ms c x _ hx this

/-- Non-cancel mode: the poll that reports the timeout does not touch the inner call (it is
still running afterwards), and neither does a drop of the call future. -/
theorem nocancel_timeout_leaves_task (cfg : Cfg) (hc : cfg.cancel = false) (ops : List Op) (c : Nat)
    (x : Caller)
    (hx : lookup (run cfg ops).callers c = some x) (hw : x.outer = .waiting)
    (hdl : x.due (run cfg ops).now)
    (hnot : x.sc.out = .never ∨ (run cfg ops).now < x.doneAt) :
    (∃ x', recordAfter cfg (run cfg ops) (.poll c) c = some x' ∧ x'.inner = .running) ∧
    (∃ x', recordAfter cfg (run cfg ops) (.drop c) c = some x' ∧ x'.inner = .running) := by
  have hinv := inv_reachable cfg ops c x hx
  have hni := hinv.started hw
  have hrun : x.inner = .running := by
    rcases run_or_fin hni (hinv.ncInner hc) with h | h
    · exact h
    · have := (hinv.ncSync hc hni).mp h
      rcases hnot with h' | h'
      · exact absurd h' this.1
      · omega
  constructor
  · have hp : pollC cfg (run cfg ops).now x = _ :=
      (pollC_waiting_detached cfg _ x hw hc).trans (pollDetached_timeout cfg _ x hinv hc hw hnot hdl)
    exact ⟨(pollC cfg (run cfg ops).now x).1, by simp [recordAfter_poll, hx], by rw [hp]; simpa using hrun⟩
  · exact ⟨(dropC cfg (run cfg ops).now x).1, by simp [recordAfter_drop, hx], by rw [dropC_waiting_detached cfg _ x hw hc]; exact hrun⟩

/-! ## readiness of the wrapped service: settled before `call()`, never part of the call -/

/-- **Readiness is propagated, not absorbed** (`poll_ready` = the wrapped service's `poll_ready`, its error wrapped in
`Inner`): a caller that finds the wrapped service `Pending` or failed is told so (`notready` / the readiness error) and
that is all — no call is made: no record, no inner call (the serial counter stands still), nothing for a later
poll to act on, the clock and every other caller untouched. -/
theorem readiness_propagates (cfg : Cfg) (ops : List Op) (c : Nat) (e : Bool)
    (hnew : lookup (run cfg ops).callers c = none) :
    newEvents cfg (run cfg ops) (.refused c e) = [Ev.result c (if e then .inner 9 0 else .notReady)] ∧
    recordAfter cfg (run cfg ops) (.refused c e) c = none ∧
    (stepS cfg (run cfg ops) (.refused c e)).callers = (run cfg ops).callers ∧
    (stepS cfg (run cfg ops) (.refused c e)).serial = (run cfg ops).serial ∧
    (stepS cfg (run cfg ops) (.refused c e)).now = (run cfg ops).now ∧
    newEvents cfg (stepS cfg (run cfg ops) (.refused c e)) (.poll c) = [] := by
  obtain ⟨h1, h2, h3, h4⟩ := stepS_refused cfg (run cfg ops) c e
  refine ⟨?_, ?_, h1, h3, h4, ?_⟩
  · rw [newEvents_refused cfg _ c e hnew]; cases e <;> rfl
  · simp [recordAfter, h1, hnew]
  · simp [newEvents, stepS, applyC, hnew]

/-- **Refused arrivals change no call**: the clock, the serial numbers and every caller's record — phase, first
poll, deadline, fate of the inner call, time-stamped history — after any operation sequence are those of the same
sequence with the refused arrivals left out.  (So every theorem of this file about a caller's record holds
whatever refusals are interleaved, and a retry under a fresh id is an ordinary call.) -/
theorem refusals_change_no_call (cfg : Cfg) (ops : List Op) :
    (run cfg ops).now = (run cfg (ops.filter Op.isCall)).now ∧
    (run cfg ops).serial = (run cfg (ops.filter Op.isCall)).serial ∧
    (run cfg ops).callers = (run cfg (ops.filter Op.isCall)).callers ∧
    (run cfg ops).kOf = (run cfg (ops.filter Op.isCall)).kOf := by
  have h := foldl_core_filter cfg ops init init rfl
  simp only [core, Prod.mk.injEq] at h
  exact h

/-- What an arrival meets, for **any** readiness behaviour `rd` of the wrapped service (any script of
`Ready` / `Pending` / `Err` answers, any recovery time after a call) and any requested operations: the service
sees the arrival as a call exactly when the wrapped service answers `Ready(Ok)` at that instant, and as a refusal
(`Pending`: while it recovers from an earlier call, or by its script; `Err`) otherwise; every other operation
reaches the service as it is. -/
theorem arrival_meets_readiness (cfg : Cfg) (rd : Rd) (ops : List Op) (c : Nat) (tmo : Option Tmo) (sc : Step)
    (hnew : lookup (runR cfg rd ops).2.callers c = none) :
    (effOp (runR cfg rd ops).1 (runR cfg rd ops).2 (.arrive c tmo sc)).2 =
      (match ((runR cfg rd ops).1.answer (runR cfg rd ops).2.now).1 with
       | .ready => .arrive c tmo sc
       | .pending => .refused c false
       | .err => .refused c true) ∧
    ((runR cfg rd ops).1.isBusy (runR cfg rd ops).2.now = true →
      ((runR cfg rd ops).1.answer (runR cfg rd ops).2.now).1 = .pending) ∧
    ((runR cfg rd ops).1.isBusy (runR cfg rd ops).2.now = false →
      ((runR cfg rd ops).1.answer (runR cfg rd ops).2.now).1 = (runR cfg rd ops).1.script.headD .ready) ∧
    (∀ c', (stepR cfg (runR cfg rd ops) (.poll c')).2 = stepS cfg (runR cfg rd ops).2 (.poll c')) := by
  refine ⟨effOp_arrive _ _ c tmo sc hnew, ?_, ?_, fun _ => rfl⟩
  · intro hb; simp [Rd.answer, hb]
  · intro hb
    simp only [Rd.answer, hb]
    cases (runR cfg rd ops).1.script <;> simp

/-- **A call resolves no later than its timeout after it starts — whatever the readiness history.**  For every
configuration, every readiness behaviour `rd` of the wrapped service (not ready for a stretch, never ready, failing)
and every requested operation sequence (arrivals that were refused and retried included): the state is that of an
ordinary run (of the operations the service saw), so for a caller `c` that was given a call future
* its first poll — and nothing earlier: not `call()`, not an earlier refused attempt — calls the wrapped service
  and arms `deadline = now + timeout`;
* polled at or after that deadline it resolves in that very poll;
* polled at or after `min(done, deadline)` it resolves in that very poll (the inner result at the instant it is
  available); before, the poll is silent;
* and every result it ever got came at an instant `≥ min(done, deadline)` counted from that first poll.
Readiness cannot add to any of this because it is settled before `call()` (`readiness_propagates`). -/
theorem resolves_by_deadline_whatever_readiness (cfg : Cfg) (rd : Rd) (ops : List Op) (c : Nat) (x : Caller)
    (hx : lookup (runR cfg rd ops).2.callers c = some x) :
    (runR cfg rd ops).2 = run cfg (effOps cfg rd ops) ∧
    (x.outer = .fresh →
      ∃ x', recordAfter cfg (runR cfg rd ops).2 (.poll c) c = some x' ∧
        x'.start = (runR cfg rd ops).2.now ∧ x'.deadline = (runR cfg rd ops).2.now + x.tmo ∧
        Ev.innerCall c (runR cfg rd ops).2.serial ∈ newEvents cfg (runR cfg rd ops).2 (.poll c)) ∧
    (x.outer = .waiting → x.due (runR cfg rd ops).2.now →
      (∃ x', recordAfter cfg (runR cfg rd ops).2 (.poll c) c = some x' ∧ x'.outer = .gone) ∧
      ∃ pre r, newEvents cfg (runR cfg rd ops).2 (.poll c) = pre ++ [Ev.result c r]) ∧
    (x.outer = .waiting → x.awake (runR cfg rd ops).2.now →
      (∃ x', recordAfter cfg (runR cfg rd ops).2 (.poll c) c = some x' ∧ x'.outer = .gone) ∧
      ∃ pre r, newEvents cfg (runR cfg rd ops).2 (.poll c) = pre ++ [Ev.result c r]) ∧
    (x.outer = .waiting → ¬ x.awake (runR cfg rd ops).2.now →
      newEvents cfg (runR cfg rd ops).2 (.poll c) = []) ∧
    (∀ t r, (t, CEv.result r) ∈ x.hist → x.awake t) := by
  have he := runR_eq_run cfg rd ops
  rw [he] at hx ⊢
  refine ⟨rfl, ?_, ?_, ?_, ?_, ?_⟩
  · intro hf
    obtain ⟨x', h1, h2, h3, _, h5, _⟩ := deadline_from_first_poll cfg _ c x hx hf
    exact ⟨x', h1, h2, h3, h5⟩
  · intro hw hd; exact resolves_by_deadline cfg _ c x hx hw hd
  · intro hw ha; exact resolves_from_wake cfg _ c x hx hw ha
  · intro hw hn; exact (pending_before_wake cfg _ c x hx hw hn).2
  · intro t r hr; exact (never_resolves_early cfg _ c x t r hx hr).1

/-! ## independence -/

/-- **No shared state**: what the service does to caller `c` — its record (phase, timeout,
deadline, fate of its inner call) and its whole time-stamped history — after any operation
sequence involving any number of other callers is exactly what it does in the run that contains
only `c`'s own operations and the advances of the clock. -/
theorem independent (cfg : Cfg) (ops : List Op) (c : Nat) :
    lookup (run cfg ops).callers c = lookup (run cfg (ops.filter (relevant c))).callers c ∧
    (run cfg ops).now = (run cfg (ops.filter (relevant c))).now := by
  have h1 := proj_run cfg ops c
  have h2 := proj_run cfg (ops.filter (relevant c)) c
  rw [track_filter] at h2
  have : proj (run cfg ops) c = proj (run cfg (ops.filter (relevant c))) c := by rw [h1, h2]
  simp only [proj, Prod.mk.injEq] at this
  exact ⟨this.2, this.1⟩

/-! ## the configuration the builder produces -/

/-- **The mode is the one asked for last, wherever the timeout setters stand in the chain**:
after `builder()…cancel_running_future(b)…build()` with no later `cancel_running_future`, the
layer runs in mode `b` — also when a (type-changing) `timeout_duration` / `timeout_fn` comes
*after* the flag, e.g. `.cancel_running_future(false).timeout_fn(f)`.  With no
`cancel_running_future` at all the layer cancels (the default). -/
theorem builder_mode_last_wins (pre post : List Setter) (b : Bool)
    (hpost : ∀ s ∈ post, s.isCancel = false) :
    (build (pre ++ .cancel b :: post)).cancel = b ∧
    (∀ chain : List Setter, (∀ s ∈ chain, s.isCancel = false) → (build chain).cancel = true) := by
  constructor
  · rw [build_append_cons, foldl_cancel_keep _ _ hpost]; rfl
  · intro chain h
    exact foldl_cancel_keep chain defaultCfg h

/-- **The timeout source is the one given last, wherever the flag stands**: a fixed timeout
`ms` (milliseconds or `Duration::MAX`) after `timeout_duration(ms)`, the per-request source (default `d`) after `timeout_fn`, if
only `cancel_running_future` calls follow; so by `timeout_source` every call made through
`build chain` captures exactly that timeout. -/
theorem builder_source_last_wins (pre post : List Setter) (ms : Tmo)
    (hpost : ∀ s ∈ post, s.isSource = false) :
    ((build (pre ++ .dur ms :: post)).timeout = ms ∧ (build (pre ++ .dur ms :: post)).dyn = false) ∧
    ((build (pre ++ .fn ms :: post)).timeout = ms ∧ (build (pre ++ .fn ms :: post)).dyn = true) := by
  constructor
  · rw [build_append_cons]
    have h := foldl_source_keep post (applySetter (build pre) (.dur ms)) hpost
    exact ⟨h.1.trans rfl, h.2.trans rfl⟩
  · rw [build_append_cons]
    have h := foldl_source_keep post (applySetter (build pre) (.fn ms)) hpost
    exact ⟨h.1.trans rfl, h.2.trans rfl⟩

/-- The clause "with cancellation disabled it keeps running to completion in the background"
for a layer described by its builder chain: whenever the last `cancel_running_future` of the
chain says `false` — before or after the timeout setters — no inner call is ever dropped. -/
theorem nocancel_chain_never_drops (pre post : List Setter) (hpost : ∀ s ∈ post, s.isCancel = false)
    (ops : List Op) (c k : Nat) :
    Ev.innerDrop c k ∉ (run (build (pre ++ .cancel false :: post)) ops).log :=
  (nocancel_runs_to_completion _ (builder_mode_last_wins pre post false hpost).1 ops).1 c k

/-! ## entry points: construction paths, copies of the timeout source, the error accessors, services and handles -/

/-- **However the builder is obtained, and whatever is said about names and listeners, the configuration is the same**:
`TimeLimiterLayer::builder()`, `TimeLimiterConfigBuilder::new()` and `TimeLimiterConfigBuilder::default()` start from the
same defaults (fixed 5 s, cancelling); `.name(..)`, `.on_success(..)`, `.on_error(..)`, `.on_timeout(..)` anywhere in the
chain change neither the timeout source nor the mode: the layer behaves as the one built from the chain with these
setters left out (so `builder_mode_last_wins` / `builder_source_last_wins` hold with them in between). -/
theorem builder_entry_points (st : Start) (chain : List Setter) :
    buildFrom st chain = build chain ∧
    build chain = build (chain.filter Setter.isCfg) ∧
    (∀ (cfg : Cfg) (n : String) (k : Nat), applySetter cfg (.name n) = cfg ∧ applySetter cfg (.listen k) = cfg) := by
  refine ⟨buildFrom_eq_build st chain, ?_, fun _ _ _ => ⟨rfl, rfl⟩⟩
  unfold build
  rw [foldl_filter_isCfg]

/-- **The timeout source is the same value wherever it is obtained**: the source a configuration asks for, constructed
on its own (`FixedTimeout::new(d)` / `DynamicTimeout::new(f)`) and copied any number of times through `Clone` and
`clone_box`, answers `get_timeout` for a request exactly what the layer captures for a call with that request
(`timeout_source`): the fixed value, or the request's own timeout (the default if it has none). -/
theorem source_copies_agree (cfg : Cfg) (ops : List Op) (path : List Copy) (c : Nat) (own : Option Tmo) (sc : Step)
    (hnew : lookup (run cfg ops).callers c = none) :
    probeSource cfg path own = (if cfg.dyn then own.getD cfg.timeout else cfg.timeout) ∧
    recordAfter cfg (run cfg ops) (.arrive c own sc) c = some (newCaller (probeSource cfg path own) sc) := by
  have h : probeSource cfg path own = (if cfg.dyn then own.getD cfg.timeout else cfg.timeout) := probeSource_eq cfg path own
  exact ⟨h, by rw [h]; exact recordAfter_arrive_new cfg _ c own sc hnew⟩

/-- **What the accessors of the error say, for every result the limiter delivers.**  `is_timeout()` is true exactly for
the timeout error, `into_inner()` gives exactly the inner call's own error (its kind, with the serial of that caller's
inner call) and nothing for the timeout error, the conversion into `ResilienceError` gives `Timeout { layer:
"time_limiter" }` / `Application(e)`; a success is none of these.  Tied to the property: the poll that finds only the
deadline reached delivers an error with `is_timeout()` and no inner error; the poll that finds a failed inner call delivers
an error that is not a timeout and whose `into_inner()` is that failure; and (trace form) whenever a caller of a
non-panicking inner call was given an error with `is_timeout()`, its deadline had been reached at that instant. -/
theorem error_accessors (cfg : Cfg) (ops : List Op) (c : Nat) (x : Caller)
    (hx : lookup (run cfg ops).callers c = some x) :
    (∀ (r : CRes) (k : Nat),
        (isTimeout (r.toRes k) = true ↔ r = .timeout) ∧
        (∀ kd v, intoInner (r.toRes k) = some (kd, v) ↔ (r = .err kd ∧ v = k)) ∧
        (r = .timeout → intoInner (r.toRes k) = none ∧ asResilience (r.toRes k) = some (.timeout "time_limiter")) ∧
        (∀ kd, r = .err kd → asResilience (r.toRes k) = some (.application kd k)) ∧
        (r = .ok → isTimeout (r.toRes k) = false ∧ intoInner (r.toRes k) = none ∧ asResilience (r.toRes k) = none)) ∧
    (x.outer = .waiting → x.due (run cfg ops).now → (x.sc.out = .never ∨ (run cfg ops).now < x.doneAt) →
        ∃ pre r, newEvents cfg (run cfg ops) (.poll c) = pre ++ [Ev.result c r] ∧
          isTimeout r = true ∧ intoInner r = none) ∧
    (x.outer = .waiting → ∀ kd, x.sc.out = .err kd → x.doneAt ≤ (run cfg ops).now →
        ∃ pre r, newEvents cfg (run cfg ops) (.poll c) = pre ++ [Ev.result c r] ∧
          isTimeout r = false ∧ intoInner r = some (kd, serialOf (run cfg ops) c)) ∧
    (∀ t r k, (t, CEv.result r) ∈ x.hist → isTimeout (r.toRes k) = true → x.sc.out ≠ .panic → x.due t) := by
  refine ⟨?_, ?_, ?_, ?_⟩
  · intro r k
    exact accessors_spec r k
  · intro hw hdl hnot
    have h := timeout_if_later cfg ops c x hx hw hdl hnot
    exact ⟨_, _, h, accessors_timeout⟩
  · intro hw kd hout hdone
    have h := inner_wins_whenever_observed cfg ops c x hx hw (Or.inr ⟨kd, hout⟩) hdone
    rw [hout] at h
    exact ⟨_, _, h, accessors_inner kd _⟩
  · intro t r k hr hto hnp
    have hrt : r = .timeout := isTimeout_toRes hto
    subst hrt
    have hinv := inv_reachable cfg ops c x hx
    rcases hinv.resLate t _ hr with h | h
    · have hu := hinv.toUnl t hr hnp
      rcases hinv.toLate t hr hnp with h' | h'
      · exact absurd h' h.1
      · exact ⟨hu, Nat.le_trans h' h.2⟩
    · exact h

/-- **Services built from one layer value, and the handles of a service, share nothing.**  Divide the callers into
groups in any way — by the service their call went through (any number of services built from the same layer, or from
clones of it), by the handle of it the call was made on (a fresh clone per call, a kept handle used again while an
earlier call is still in flight, a clone taken after a call) — `member` says who belongs to one group: after any
operation sequence, the record of every member (phase, timeout, first poll, deadline, fate of its inner call,
time-stamped history) is what it is in the run that contains only that group's operations and the advances of the clock.
A step on behalf of one service or handle leaves every other one's calls untouched; the model has no operation for
dropping a handle, a service or the layer because no record could depend on it (`nocancel_runs_to_completion` holds for
every operation sequence: a detached inner call completes whoever is still holding the service). -/
theorem services_independent (cfg : Cfg) (ops : List Op) (member : Nat → Bool) (c : Nat) (hc : member c = true) :
    lookup (run cfg ops).callers c = lookup (run cfg (ops.filter (Op.ofGroup member))).callers c ∧
    (run cfg ops).now = (run cfg (ops.filter (Op.ofGroup member))).now := by
  have h1 := independent cfg ops c
  have h2 := independent cfg (ops.filter (Op.ofGroup member)) c
  rw [filter_relevant_ofGroup member c hc] at h2
  exact ⟨h1.1.trans h2.1.symm, h1.2.trans h2.2.symm⟩

/-- **A timeout of exactly zero without cancellation**: the first poll reports the timeout at once (the deadline is
that very instant) and — only then, in the same step — the inner service is called on a detached task: the inner call
is started, not dropped, and from there on `nocancel_runs_to_completion` applies: it finishes at its latency (at once,
for latency 0). The mode is not changed by the value of the timeout. -/
theorem zero_timeout_nocancel_detaches (cfg : Cfg) (hc : cfg.cancel = false) (ops : List Op) (c : Nat) (x : Caller)
    (hx : lookup (run cfg ops).callers c = some x) (hf : x.outer = .fresh) (hu : x.unl = false) (hz : x.tmo = 0) :
    newEvents cfg (run cfg ops) (.poll c) =
      [Ev.result c .timeout, Ev.innerCall c (run cfg ops).serial] ++
        (if x.sc.out ≠ .never ∧ x.sc.lat = 0 then [Ev.innerDone c (run cfg ops).serial x.sc.out] else []) ∧
    (∃ x', recordAfter cfg (run cfg ops) (.poll c) c = some x' ∧ x'.outer = .gone ∧
      x'.inner = (if x.sc.out ≠ .never ∧ x.sc.lat = 0 then .finished else .running)) ∧
    (∀ k, Ev.innerDrop c k ∉ newEvents cfg (run cfg ops) (.poll c)) := by
  obtain ⟨hev, hg, hin⟩ := firstPoll_zero_detached cfg hc (run cfg ops).now x hf hu hz
  have hcalled : CEv.called ∈ (pollC cfg (run cfg ops).now x).2 := by rw [hev]; simp
  have hne := newEvents_first_poll cfg (run cfg ops) c x hx hcalled
  rw [hev] at hne
  have hlist : newEvents cfg (run cfg ops) (.poll c) =
      [Ev.result c .timeout, Ev.innerCall c (run cfg ops).serial] ++
        (if x.sc.out ≠ .never ∧ x.sc.lat = 0 then [Ev.innerDone c (run cfg ops).serial x.sc.out] else []) := by
    rw [hne]
    split <;> rfl
  refine ⟨hlist, ⟨(pollC cfg (run cfg ops).now x).1, by simp [recordAfter_poll, hx], hg, hin⟩, ?_⟩
  intro k hk
  rw [hlist] at hk
  split at hk <;> simp at hk

/-! ## construction context -/

/-- **The model has no construction context.**  `Cfg`, `Rd`, `State`, `Op` carry nothing about the runtime that was current
while the service was assembled, so every theorem of this file — all of them quantify over `cfg`, `ops` only — holds for a
service built `here`, `other-idle` or `other-dropped` alike (a `TimeLimiter` is a value: timers and the detached task of the
non-cancelling mode belong to the runtime the call is made on).  What remains to be said is that the *line protocol* cannot
smuggle it in: a `built=<v>` word (any `v`; `Built.word b` in particular, see the `#guard` below), anywhere in the case header
or on an `arrive` line, changes neither the machine's initial state (configuration, readiness, state) nor the operation an
`arrive` line stands for, nor the step the machine takes on it — state and events are those of the line without the word. -/
theorem construction_context_irrelevant :
    (∀ (kv₁ kv₂ : Kv) (v : String), machine.init (kv₁ ++ ("built", v) :: kv₂) = machine.init (kv₁ ++ kv₂)) ∧
    (∀ (c w v : String) (w₁ w₂ : List String), parseKv [w] = [("built", v)] →
       parseOp ("arrive" :: c :: (w₁ ++ w :: w₂)) = parseOp ("arrive" :: c :: (w₁ ++ w₂))) ∧
    (∀ (s : machine.σ) (c w v : String) (w₁ w₂ : List String), parseKv [w] = [("built", v)] →
       machine.step s ("arrive" :: c :: (w₁ ++ w :: w₂)) = machine.step s ("arrive" :: c :: (w₁ ++ w₂))) :=
  built_word_irrelevant

-- the three words of the dimension parse as a `built` pair (evaluated at build time: `String.splitOn` does not reduce in the kernel)
#guard [Built.here, .otherIdle, .otherDropped].all fun b => parseKv ["built=" ++ b.word] == [("built", b.word)]

/-! ## the observable log, and one result per caller -/

/-- `trace` is the event log (`State.log`) with the instant of every line. -/
theorem trace_is_the_log (cfg : Cfg) (ops : List Op) : (trace cfg ops).map Prod.snd = (run cfg ops).log :=
  trace_map_snd cfg ops

/-- **The `result` lines of the log are exactly the results of the ghost histories** (log ⊆ hist and hist ⊆ log,
with the instants and the serial): for a caller that was never refused, `result c r` is a line of the log at
instant `t` iff `c`'s history holds a result at `t` and `r` is that result rendered with the serial of `c`'s inner
call.  (The only other `result` lines are the answers to refused arrivals, `Bridge.toHist`; likewise every
`inner_call` / `inner_done` / `inner_drop` line is the history entry at that instant and vice versa.) -/
theorem result_lines_are_history (cfg : Cfg) (ops : List Op) (c : Nat) (hnr : ∀ e, Op.refused c e ∉ ops)
    (t : Nat) (r : Res) :
    (t, Ev.result c r) ∈ trace cfg ops ↔
      ∃ x cr, lookup (run cfg ops).callers c = some x ∧ (t, CEv.result cr) ∈ x.hist ∧
        r = cr.toRes (serialOf (run cfg ops) c) := by
  constructor
  · exact result_line_in_hist cfg ops c t r hnr
  · rintro ⟨x, cr, hx, hm, rfl⟩
    exact (bridge cfg ops).fromHist c x t _ hx hm

/-- **The lines of a caller in the log, in order, are its history**: for a caller that was never refused, the
sub-list of the log made of the lines about it (`inner_call`, `inner_done`, `inner_drop`, `result`) is its ghost
history, entry by entry, in the same order, at the same instants, rendered with the serial of its inner call —
however the operations and the completions of other callers are interleaved with it (`independent` says what the
history is: that of the single-caller run). -/
theorem caller_lines_are_its_history (cfg : Cfg) (ops : List Op) (c : Nat) (hnr : ∀ e, Op.refused c e ∉ ops) :
    (trace cfg ops).filter (lineOf c) =
      match lookup (run cfg ops).callers c with
      | some x => x.hist.map (lineAs c (serialOf (run cfg ops) c))
      | none => [] :=
  (lines cfg ops).lines c hnr

/-- **The detached calls that complete in one advance of the clock complete in timer order**: the `inner_done`
lines an `adv` appends are the completions of the tasks whose latency is over, one per task, sorted by completion
instant and, within one instant, by the serial of the inner call (the order in which the timers were registered). -/
theorem advance_completes_in_timer_order (cfg : Cfg) (ops : List Op) (ms : Nat) :
    let s := run cfg ops
    newEvents cfg s (.adv ms) = (dueKeyed cfg (s.now + ms) s.kOf s.callers).map (fun d => d.2.2) ∧
    (dueKeyed cfg (s.now + ms) s.kOf s.callers).Pairwise keyLe ∧
    (∀ d, d ∈ dueKeyed cfg (s.now + ms) s.kOf s.callers ↔
      ∃ p ∈ s.callers, ∃ e ∈ (advC cfg (s.now + ms) p.2).2,
        d = (p.2.doneAt, serialOf s p.1, toEv p.1 (serialOf s p.1) e)) := by
  intro s
  exact ⟨newEvents_adv cfg s ms, dueKeyed_sorted cfg _ _ _, mem_dueKeyed cfg _ _ _⟩

/-- **One result per caller**: the log holds at most one `result` line of a caller (that was given a call future:
never refused) — whatever is done to it afterwards (polled again, dropped, the clock advanced). -/
theorem one_result_per_caller (cfg : Cfg) (ops : List Op) (c : Nat) (hnr : ∀ e, Op.refused c e ∉ ops) :
    (trace cfg ops).countP (isResultOf c) ≤ 1 :=
  one_result_line cfg ops c hnr

/-! ## the wake-up, the poll discipline, and the resolution instant -/

/-- **The wake-up is the poll decision.**  In every reachable state, caller `c` is in the wake set iff its call is
pending and a poll now resolves it (`awake`: the inner call has finished or the deadline has been reached); a poll
of a woken caller resolves it (its `result` is the last event of the step), a poll of a pending caller that is
not woken is silent.  The armed instant lies at or after the first poll, never after the deadline (if there is
one) and never after the completion of the inner call (if it completes). -/
theorem woken_iff_poll_resolves (cfg : Cfg) (ops : List Op) (c : Nat) (x : Caller)
    (hx : lookup (run cfg ops).callers c = some x) :
    ((run cfg ops).woken c = true ↔ x.outer = .waiting ∧ x.awake (run cfg ops).now) ∧
    ((run cfg ops).woken c = true → ∃ pre r, newEvents cfg (run cfg ops) (.poll c) = pre ++ [Ev.result c r]) ∧
    (x.outer = .waiting → (run cfg ops).woken c = false → newEvents cfg (run cfg ops) (.poll c) = []) ∧
    (∀ w, x.wakeup = some w →
      x.start ≤ w ∧ (x.unl = false → w ≤ x.start + x.tmo) ∧ (x.sc.out ≠ .never → w ≤ x.start + x.sc.lat)) ∧
    (x.outer = .waiting → (x.unl = false ∨ x.sc.out ≠ .never) → ∃ w, x.wakeup = some w) := by
  have hiff := woken_iff_awake (run cfg ops) c x hx
  refine ⟨hiff, ?_, ?_, ?_, wakeup_some x⟩
  · intro hwk
    obtain ⟨hw, ha⟩ := hiff.mp hwk
    exact (resolves_from_wake cfg ops c x hx hw ha).2
  · intro hw hnw
    have hna : ¬ x.awake (run cfg ops).now := by
      intro ha
      rw [hiff.mpr ⟨hw, ha⟩] at hnw; cases hnw
    exact (pending_before_wake cfg ops c x hx hw hna).2
  · intro w hw
    exact ⟨wakeup_ge_start x w hw, (wakeup_bounds x w hw).1, (wakeup_bounds x w hw).2⟩

/-- **A call resolves no later than its timeout** — over the log, for a caller that is polled whenever it is
woken.  Hypothesis `PolledWhenWoken cfg c ops` (the poll discipline, a condition on the operation list alone):
whenever `ops` advances the clock by `ms`, the wake-up `w` of `c`'s pending call is not passed (`now + ms ≤ w`, or
`ms = 0`): the runtime's timer fires at the armed instant and the woken caller is polled before time goes on.
Then every `result c r` line of the log has an instant `t` with
`first poll ≤ t ≤ first poll + timeout` (the first poll being the instant of `c`'s `inner_call` line), `t` no
later than the completion of the inner call either, and, for a call with a deadline, `t = min(done, deadline)`
exactly (`= deadline` for an inner call that never completes): the inner result "at the instant it is available",
the timeout error "at the deadline". -/
theorem resolves_no_later_than_timeout (cfg : Cfg) (ops : List Op) (c : Nat)
    (hd : PolledWhenWoken cfg c ops) (hnr : ∀ e, Op.refused c e ∉ ops)
    (t : Nat) (r : Res) (hr : (t, Ev.result c r) ∈ trace cfg ops) :
    ∃ x, lookup (run cfg ops).callers c = some x ∧
      (∀ t0 k, (t0, Ev.innerCall c k) ∈ trace cfg ops → t0 = x.start) ∧
      x.start ≤ t ∧
      (x.unl = false → t ≤ x.start + x.tmo) ∧
      (x.sc.out ≠ .never → t ≤ x.start + x.sc.lat) ∧
      x.awake t ∧
      (x.unl = false → t = x.wakeAt) := by
  obtain ⟨x, cr, hx, hm, _⟩ := result_line_in_hist cfg ops c t r hnr hr
  have h1 := inv_reachable cfg ops c x hx
  have h2 := inv2_reachable cfg ops c x hx
  have hw := winv_reachable cfg ops c hd x hx
  have hb := hw.resBefore t cr hm
  have ha := h1.resLate t cr hm
  refine ⟨x, hx, ?_, h2.afterStart t _ hm, hb.1, hb.2, ha, ?_⟩
  · intro t0 k h0
    obtain ⟨x', hx', hm', _⟩ := call_line_in_hist cfg ops c t0 k h0
    rw [hx] at hx'; injection hx' with hx'; subst hx'
    exact h2.calledAt t0 hm'
  · intro hu
    have hge := (awake_iff_wakeAt x t hu).mp ha
    have h3 := hb.1 hu
    unfold Caller.wakeAt at hge ⊢
    split
    · rename_i hn; simp only [hn, if_true] at hge; omega
    · rename_i hn
      simp only [hn, if_false] at hge
      have h4 := hb.2 hn
      omega

/-- Under the same discipline **a pending call is never overdue**: in every state the schedule reaches, the
clock has not passed the wake-up of `c`'s pending call — so not its deadline (if it has one) and not the
completion of its inner call; when the clock stands AT the wake-up the caller is woken, the poll the discipline
asks for resolves it (`woken_iff_poll_resolves`), and the discipline does not let the clock go on before. -/
theorem pending_call_never_overdue (cfg : Cfg) (ops : List Op) (c : Nat) (hd : PolledWhenWoken cfg c ops)
    (x : Caller) (hx : lookup (run cfg ops).callers c = some x) (hw : x.outer = .waiting) :
    (∀ w, x.wakeup = some w → (run cfg ops).now ≤ w) ∧
    (x.unl = false → (run cfg ops).now ≤ x.start + x.tmo) ∧
    (x.sc.out ≠ .never → (run cfg ops).now ≤ x.start + x.sc.lat) ∧
    ((run cfg ops).woken c = true → ∀ ms, 0 < ms → ¬ PolledWhenWoken cfg c (ops ++ [.adv ms])) := by
  have hwi := winv_reachable cfg ops c hd x hx
  refine ⟨hwi.notPast, ?_, ?_, ?_⟩
  · intro hu
    obtain ⟨w, hw'⟩ := wakeup_some x hw (Or.inl hu)
    have := hwi.notPast w hw'
    have := (wakeup_bounds x w hw').1 hu
    simp only [Caller.deadline] at this
    omega
  · intro hn
    obtain ⟨w, hw'⟩ := wakeup_some x hw (Or.inr hn)
    have := hwi.notPast w hw'
    have := (wakeup_bounds x w hw').2 hn
    simp only [Caller.doneAt] at this
    omega
  · intro hwk ms hms hd'
    obtain ⟨w, hw', hle⟩ := (woken_iff (run cfg ops) c x hx).mp hwk
    rcases hd' ops ms [] rfl x w hx hw' with h | h
    · omega
    · omega

/-- The same **whatever the readiness history** of the wrapped service: for every readiness behaviour `rd` and every
requested operation sequence, the state is that of the run of the operations the service saw (`effOps`: arrivals that
met a `Pending` / failed wrapped service became refusals), so for a caller whose arrival was accepted and who is polled
whenever woken, every `result` line of the log stands no later than its first poll + timeout. -/
theorem resolves_no_later_than_timeout_whatever_readiness (cfg : Cfg) (rd : Rd) (ops : List Op) (c : Nat)
    (hd : PolledWhenWoken cfg c (effOps cfg rd ops)) (hnr : ∀ e, Op.refused c e ∉ effOps cfg rd ops)
    (t : Nat) (r : Res) (hr : (t, Ev.result c r) ∈ trace cfg (effOps cfg rd ops)) :
    (runR cfg rd ops).2 = run cfg (effOps cfg rd ops) ∧
    ∃ x, lookup (runR cfg rd ops).2.callers c = some x ∧ x.start ≤ t ∧
      (x.unl = false → t ≤ x.start + x.tmo) ∧ (x.unl = false → t = x.wakeAt) := by
  refine ⟨runR_eq_run cfg rd ops, ?_⟩
  rw [runR_eq_run]
  obtain ⟨x, hx, _, h1, h2, _, _, h3⟩ := resolves_no_later_than_timeout cfg _ c hd hnr t r hr
  exact ⟨x, hx, h1, h2, h3⟩

/-! ## the trace theorems, over the lines of the log -/

/-- **Never early** (log form of `never_resolves_early`): a `result c r` line at instant `t` — whatever the
schedule — comes at or after the first poll, at an instant at which the inner call had finished or the deadline had
been reached (`≥ min(done, deadline)`), and the call future is gone afterwards. -/
theorem log_never_resolves_early (cfg : Cfg) (ops : List Op) (c : Nat) (hnr : ∀ e, Op.refused c e ∉ ops)
    (t : Nat) (r : Res) (hr : (t, Ev.result c r) ∈ trace cfg ops) :
    ∃ x, lookup (run cfg ops).callers c = some x ∧ x.outer = .gone ∧ x.start ≤ t ∧ x.awake t ∧
      (x.unl = false → x.wakeAt ≤ t) := by
  obtain ⟨x, cr, hx, hm, _⟩ := result_line_in_hist cfg ops c t r hnr hr
  have h1 := inv_reachable cfg ops c x hx
  have h2 := inv2_reachable cfg ops c x hx
  exact ⟨x, hx, h1.resGone t cr hm, h2.afterStart t _ hm, h1.resLate t cr hm,
    fun hu => (awake_iff_wakeAt x t hu).mp (h1.resLate t cr hm)⟩

/-- **With the inner result** (log form): a `result` line that is not the timeout error is the inner call's own
outcome, rendered with the serial of that caller's inner call, and its instant is at or after the instant the
inner call finished. -/
theorem log_inner_result_is_the_inner_outcome (cfg : Cfg) (ops : List Op) (c : Nat) (hnr : ∀ e, Op.refused c e ∉ ops)
    (t : Nat) (r : Res) (hr : (t, Ev.result c r) ∈ trace cfg ops) (hnt : r ≠ .timeout) :
    ∃ x, lookup (run cfg ops).callers c = some x ∧ x.sc.out ≠ .never ∧ x.doneAt ≤ t ∧
      r = (resOf x.sc.out).toRes (serialOf (run cfg ops) c) := by
  obtain ⟨x, cr, hx, hm, hrr⟩ := result_line_in_hist cfg ops c t r hnr hr
  have h2 := inv2_reachable cfg ops c x hx
  rcases h2.resVal t cr hm with h | h
  · subst h; exact absurd hrr hnt
  · exact ⟨x, hx, h.1, h.2.1, by rw [hrr, h.2.2]⟩

/-- **Timeout only if the deadline came first** (log form of `intime_result_never_lost`, with the strict form of
`timeout_if_later`): a line `result c err:timeout` at instant `t`, for an inner call that completes (ok or error),
means the call had a deadline, `deadline ≤ t` (it had been reached), `deadline ≤ done`, and the inner call had
**not finished at `t`** (`t < done`) — the one exception being the first poll of a non-cancelling call with a zero
timeout over a zero-latency inner call (`done = deadline = t =` the first poll: the tie that goes to the timeout,
because the timeout is reported before the inner call is even started; `zero_timeout_nocancel_detaches`).  So an
inner call that finished before its deadline is never answered `err:timeout` in the log, however late the caller is
polled, in both modes. -/
theorem log_timeout_only_if_unfinished (cfg : Cfg) (ops : List Op) (c : Nat) (hnr : ∀ e, Op.refused c e ∉ ops)
    (t : Nat) (hr : (t, Ev.result c .timeout) ∈ trace cfg ops) :
    ∃ x, lookup (run cfg ops).callers c = some x ∧
      ((x.sc.out = .ok ∨ ∃ kd, x.sc.out = .err kd) →
        x.unl = false ∧ x.deadline ≤ t ∧ x.deadline ≤ x.doneAt ∧
        (t < x.doneAt ∨ (cfg.cancel = false ∧ x.tmo = 0 ∧ x.sc.lat = 0 ∧ t = x.start))) := by
  obtain ⟨x, cr, hx, hm, hrr⟩ := result_line_in_hist cfg ops c t _ hnr hr
  have hcr : cr = .timeout := isTimeout_toRes (k := serialOf (run cfg ops) c) (by rw [← hrr]; rfl)
  subst hcr
  refine ⟨x, hx, ?_⟩
  intro hout
  have h1 := inv_reachable cfg ops c x hx
  have h2 := inv2_reachable cfg ops c x hx
  have hnp : x.sc.out ≠ .panic := by rcases hout with h | ⟨kd, h⟩ <;> simp [h]
  have hnn : x.sc.out ≠ .never := by rcases hout with h | ⟨kd, h⟩ <;> simp [h]
  have hu := h1.toUnl t hm hnp
  have hlate : x.deadline ≤ x.doneAt := by
    rcases h1.toLate t hm hnp with h | h
    · exact absurd h hnn
    · exact h
  have hdue : x.deadline ≤ t := by
    rcases h1.resLate t _ hm with h | h
    · exact Nat.le_trans hlate h.2
    · exact h.2
  refine ⟨hu, hdue, hlate, ?_⟩
  rcases h2.strictTo t hm hnp with h | h | h
  · exact absurd h hnn
  · exact Or.inl h
  · by_cases hl : x.sc.lat = 0
    · exact Or.inr ⟨h.1, h.2.2.1, hl, h.2.2.2⟩
    · left
      rw [h.2.2.2]
      simp only [Caller.doneAt]
      omega

/-- **Cancel mode drops the inner call at the deadline** (log form of `cancel_drops_at_deadline`): every line
`result c err:timeout` at `t` is accompanied by the line `inner_drop c k` at the same instant `t` (`k` the serial
of `c`'s inner call), and `t` is at or after the deadline — exactly the deadline under the poll discipline
(`resolves_no_later_than_timeout`); the order within the step is given by `cancel_drops_at_deadline`. -/
theorem log_cancel_drops_at_deadline (cfg : Cfg) (hc : cfg.cancel = true) (ops : List Op) (c : Nat)
    (hnr : ∀ e, Op.refused c e ∉ ops) (t : Nat) (hr : (t, Ev.result c .timeout) ∈ trace cfg ops) :
    (t, Ev.innerDrop c (serialOf (run cfg ops) c)) ∈ trace cfg ops ∧
    ∃ x, lookup (run cfg ops).callers c = some x ∧ x.due t := by
  obtain ⟨x, cr, hx, hm, hrr⟩ := result_line_in_hist cfg ops c t _ hnr hr
  have hcr : cr = .timeout := isTimeout_toRes (k := serialOf (run cfg ops) c) (by rw [← hrr]; rfl)
  subst hcr
  have h := (inv_reachable cfg ops c x hx).cTimeout hc t hm
  exact ⟨(bridge cfg ops).fromHist c x t _ hx h.1, x, hx, h.2⟩

/-- **Non-cancel mode runs the inner call to completion** (log form): no `inner_drop` line ever, and once an inner
call has been started and its latency is over, the log holds its `inner_done` line, at an instant `≥ done`, with
the caller's serial. -/
theorem log_nocancel_runs_to_completion (cfg : Cfg) (hc : cfg.cancel = false) (ops : List Op) (c : Nat) (x : Caller)
    (hx : lookup (run cfg ops).callers c = some x) :
    (∀ t k, (t, Ev.innerDrop c k) ∉ trace cfg ops) ∧
    (x.inner ≠ .idle → x.sc.out ≠ .never → x.doneAt ≤ (run cfg ops).now →
      ∃ t, x.doneAt ≤ t ∧ (t, Ev.innerDone c (serialOf (run cfg ops) c) x.sc.out) ∈ trace cfg ops) := by
  have hinv := inv_reachable cfg ops c x hx
  constructor
  · intro t k h
    obtain ⟨x', hx', hm, _⟩ := drop_line_in_hist cfg ops c t k h
    rw [hx] at hx'; injection hx' with hx'; subst hx'
    exact hinv.ncNoDrop hc t hm
  · intro hni hne hdone
    have hfin := (hinv.ncSync hc hni).mpr ⟨hne, hdone⟩
    obtain ⟨t, h1, h2, _⟩ := hinv.ncDone hc hfin
    exact ⟨t, h2, (bridge cfg ops).fromHist c x t _ hx h1⟩

/-! ## the first poll, spelled out; panicking inner calls -/

/-- **First poll without cancellation, timeout not zero** (any number of milliseconds `> 0`, or `Duration::MAX`):
the call is spawned and nothing else — the events are `inner_call` (and `inner_done` at once for a zero latency:
the task runs right after the poll), never a result: the call future is pending, whatever the latency, and its
wake-up is armed.  (Zero timeout: `zero_timeout_nocancel_detaches`.) -/
theorem first_poll_nocancel_spawns_only (cfg : Cfg) (hc : cfg.cancel = false) (ops : List Op) (c : Nat) (x : Caller)
    (hx : lookup (run cfg ops).callers c = some x) (hf : x.outer = .fresh) (h0 : ¬ (x.unl = false ∧ x.tmo = 0)) :
    newEvents cfg (run cfg ops) (.poll c) =
      [Ev.innerCall c (run cfg ops).serial] ++
        (if x.sc.out ≠ .never ∧ x.sc.lat = 0 then [Ev.innerDone c (run cfg ops).serial x.sc.out] else []) ∧
    ∃ x', recordAfter cfg (run cfg ops) (.poll c) c = some x' ∧ x'.outer = .waiting ∧
      x'.inner = (if x.sc.out ≠ .never ∧ x.sc.lat = 0 then .finished else .running) := by
  obtain ⟨hev, hg, hin⟩ := firstPoll_pos_detached cfg hc (run cfg ops).now x hf h0
  have hcalled : CEv.called ∈ (pollC cfg (run cfg ops).now x).2 := by rw [hev]; simp
  have hne := newEvents_first_poll cfg (run cfg ops) c x hx hcalled
  rw [hev] at hne
  refine ⟨?_, (pollC cfg (run cfg ops).now x).1, by simp [recordAfter_poll, hx], hg, hin⟩
  rw [hne]
  split <;> rfl

/-- **First poll with cancellation**: the inner service is called; a zero-latency inner call delivers its outcome
in that very poll (also against a zero timeout: the inner future is polled first), else a zero timeout reports the
timeout and drops the inner call in that very poll, else the call is pending. -/
theorem first_poll_cancel (cfg : Cfg) (hc : cfg.cancel = true) (ops : List Op) (c : Nat) (x : Caller)
    (hx : lookup (run cfg ops).callers c = some x) (hf : x.outer = .fresh) :
    newEvents cfg (run cfg ops) (.poll c) =
      Ev.innerCall c (run cfg ops).serial ::
        (if x.sc.out ≠ .never ∧ x.sc.lat = 0 then
          [Ev.innerDone c (run cfg ops).serial x.sc.out, Ev.result c ((resOf x.sc.out).toRes (run cfg ops).serial)]
         else if x.unl = false ∧ x.tmo = 0 then [Ev.innerDrop c (run cfg ops).serial, Ev.result c .timeout]
         else []) := by
  obtain ⟨hev, _⟩ := firstPoll_cancel cfg hc (run cfg ops).now x hf
  have hcalled : CEv.called ∈ (pollC cfg (run cfg ops).now x).2 := by rw [hev]; simp
  have hne := newEvents_first_poll cfg (run cfg ops) c x hx hcalled
  rw [hev] at hne
  rw [hne]
  split
  · rfl
  · split <;> rfl

/-- **A panicking inner call** (outside the property's quantifier; stated so that what the code does is on
record).  Without cancellation the panic stays in the spawned task: the task drops the oneshot's sender, the
caller — woken at that instant — is told `err:timeout` by its next poll, **also when the deadline has not been
reached** (`Timeout` stands for "no result will come", lib.rs:202 `result.ok()`); the inner call counts as
finished (`inner_done … panic`, emitted by the runtime).  With cancellation the panic unwinds through the caller's
own poll: `inner_done … panic`, then `result panic`. -/
theorem panicking_inner_call (cfg : Cfg) (ops : List Op) (c : Nat) (x : Caller)
    (hx : lookup (run cfg ops).callers c = some x) (hw : x.outer = .waiting)
    (hp : x.sc.out = .panic) (hdone : x.doneAt ≤ (run cfg ops).now) :
    (run cfg ops).woken c = true ∧
    (cfg.cancel = false → newEvents cfg (run cfg ops) (.poll c) = [Ev.result c .timeout]) ∧
    (cfg.cancel = true → newEvents cfg (run cfg ops) (.poll c) =
      [Ev.innerDone c (serialOf (run cfg ops) c) .panic, Ev.result c .panic]) := by
  have hinv := inv_reachable cfg ops c x hx
  have hne : x.sc.out ≠ .never := by simp [hp]
  refine ⟨(woken_iff_awake _ c x hx).mpr ⟨hw, Or.inl ⟨hne, hdone⟩⟩, ?_, ?_⟩
  · intro hc
    have hpp : pollC cfg (run cfg ops).now x = _ :=
      (pollC_waiting_detached cfg _ x hw hc).trans (pollDetached_inner cfg _ x hinv hc hw hne hdone)
    rw [newEvents_poll cfg _ c x hx (by simp [hpp]), hpp]
    simp [toEv, hp, resRx]
  · intro hc
    have hpp : pollC cfg (run cfg ops).now x = _ :=
      (pollC_waiting_cancel cfg _ x hw hc).trans (pollCancel_done _ x hne hdone)
    rw [newEvents_poll cfg _ c x hx (by simp [hpp]), hpp]
    simp [toEv, hp, resOf]

/-! ## non-vacuity: concrete histories -/

/-- cancel mode, fixed timeout 10, created at 0 but first polled at 7: deadline 17, not 10;
latency 9 / 10 / 11 / never; polls at 16 (before everything), at 17 (`done 9+7 = 16` is there:
result; `done = 17 = deadline`: the inner result wins; later ones: timeout + drop). -/
example :
    let cfg : Cfg := { timeout := 10, cancel := true, dyn := false }
    let ops := [Op.arrive 1 none ⟨9, .ok⟩, .arrive 2 none ⟨10, .err 1⟩, .arrive 3 none ⟨11, .ok⟩,
                .arrive 4 none ⟨0, .never⟩, .adv 7, .poll 1, .poll 2, .poll 3, .poll 4,
                .adv 8, .poll 3, .adv 2]
    (run cfg ops).now = 17 ∧
    (run cfg ops).log = [.innerCall 1 0, .innerCall 2 1, .innerCall 3 2, .innerCall 4 3] ∧
    newEvents cfg (run cfg ops) (.poll 1) = [.innerDone 1 0 .ok, .result 1 (.ok 0)] ∧
    newEvents cfg (run cfg ops) (.poll 2) = [.innerDone 2 1 (.err 1), .result 2 (.inner 1 1)] ∧
    newEvents cfg (run cfg ops) (.poll 3) = [.innerDrop 3 2, .result 3 .timeout] ∧
    newEvents cfg (run cfg ops) (.poll 4) = [.innerDrop 4 3, .result 4 .timeout] := by
  decide

/-- non-cancel mode, per-request timeouts: caller 1 (timeout 5, latency 7) times out at 5 and
its inner call still completes at 7; caller 2 (timeout 9) gets its result; at a tie (caller 3,
timeout 7 = latency) and at a late poll (caller 4: done 3, deadline 4, polled at 7) the inner
result wins; nothing is ever dropped. -/
example :
    let cfg : Cfg := { timeout := 50, cancel := false, dyn := true }
    let ops := [Op.arrive 1 (some 5) ⟨7, .ok⟩, .arrive 2 (some 9) ⟨7, .ok⟩, .arrive 3 (some 7) ⟨7, .ok⟩,
                .arrive 4 (some 4) ⟨3, .err 2⟩,
                .poll 1, .poll 2, .poll 3, .poll 4, .adv 5, .poll 1, .poll 2, .adv 2]
    (run cfg ops).log = [.innerCall 1 0, .innerCall 2 1, .innerCall 3 2, .innerCall 4 3,
                         .innerDone 4 3 (.err 2), .result 1 .timeout,
                         .innerDone 1 0 .ok, .innerDone 2 1 .ok, .innerDone 3 2 .ok] ∧
    newEvents cfg (run cfg ops) (.poll 2) = [.result 2 (.ok 1)] ∧
    newEvents cfg (run cfg ops) (.poll 3) = [.result 3 (.ok 2)] ∧
    newEvents cfg (run cfg ops) (.poll 4) = [.result 4 (.inner 2 3)] := by
  decide

/-- the hypotheses of the one-step theorems are met by a reachable state: caller 1 is waiting,
`wakeAt = min(3+4, 3+10) = 7`, and the state at `t = 6` is settled while the one at `t = 7` is not. -/
example :
    let cfg : Cfg := { timeout := 10, cancel := true, dyn := false }
    let ops := [Op.arrive 1 none ⟨4, .ok⟩, .adv 3, .poll 1, .adv 3]
    (lookup (run cfg ops).callers 1).map (fun x => (x.outer, x.start, x.wakeAt, x.deadline))
      = some (.waiting, 3, 7, 13) ∧
    newEvents cfg (run cfg ops) (.poll 1) = [] ∧
    newEvents cfg (run cfg (ops ++ [.adv 1])) (.poll 1) = [.innerDone 1 0 .ok, .result 1 (.ok 0)] := by
  decide

/-- builder chains: the flag before the per-request source (`c0,f20`), after it (`f20,c0`), a
source overridden by a later one, the empty chain; and a non-cancelling per-request layer built
flag-first times out at its deadline without dropping the inner call, which completes at 7. -/
example :
    build [.cancel false, .fn 20] = { timeout := 20, cancel := false, dyn := true } ∧
    build [.fn 20, .cancel false] = { timeout := 20, cancel := false, dyn := true } ∧
    build [.cancel false, .fn 20, .cancel true, .dur 3] = { timeout := 3, cancel := true, dyn := false } ∧
    build [] = { timeout := 5000, cancel := true, dyn := false } ∧
    (run (build [.cancel false, .fn 20]) [.arrive 1 (some 5) ⟨7, .ok⟩, .poll 1, .adv 5, .poll 1, .adv 2]).log
      = [.innerCall 1 0, .result 1 .timeout, .innerDone 1 0 .ok] := by
  decide

/-- `Duration::MAX` as "no limit" (the per-request `budget.unwrap_or(Duration::MAX)` idiom): three
concurrent calls with budgets 20 ms / none / 200 ms, inner latency 50 ms each: timeout at 20, the
inner results at 50 — in both modes; and a fixed timeout of `Duration::MAX` over an inner call that
never completes is still pending after 10^24 ms, whatever the mode; builder chains carry `max`
like any other timeout. -/
example :
    let ops := [Op.arrive 1 (some 20) ⟨50, .ok⟩, .arrive 2 (some .max) ⟨50, .ok⟩, .arrive 3 (some 200) ⟨50, .err 1⟩,
                .poll 1, .poll 2, .poll 3, .adv 20, .poll 1, .poll 2, .poll 3, .adv 30, .poll 2, .poll 3]
    let ops2 := [Op.arrive 1 none ⟨0, .never⟩, .arrive 2 none ⟨7, .ok⟩, .poll 1, .poll 2,
                 .adv 1000000000000000000000000, .poll 1, .poll 2]
    (run { timeout := 5, cancel := true, dyn := true } ops).log =
      [.innerCall 1 0, .innerCall 2 1, .innerCall 3 2, .innerDrop 1 0, .result 1 .timeout,
       .innerDone 2 1 .ok, .result 2 (.ok 1), .innerDone 3 2 (.err 1), .result 3 (.inner 1 2)] ∧
    (run { timeout := 5, cancel := false, dyn := true } ops).log =
      [.innerCall 1 0, .innerCall 2 1, .innerCall 3 2, .result 1 .timeout,
       .innerDone 1 0 .ok, .innerDone 2 1 .ok, .innerDone 3 2 (.err 1), .result 2 (.ok 1), .result 3 (.inner 1 2)] ∧
    (run { timeout := .max, cancel := true, dyn := false } ops2).log =
      [.innerCall 1 0, .innerCall 2 1, .innerDone 2 1 .ok, .result 2 (.ok 1)] ∧
    (run { timeout := .max, cancel := false, dyn := false } ops2).log =
      [.innerCall 1 0, .innerCall 2 1, .innerDone 2 1 .ok, .result 2 (.ok 1)] ∧
    build [.cancel false, .dur .max] = { timeout := .max, cancel := false, dyn := false } ∧
    build [.fn .max, .cancel false, .dur 7] = { timeout := 7, cancel := false, dyn := false } := by
  decide

/-- back-pressure of the wrapped service (timeout 100 ms, cancelling): (1) the wrapped service recovers for 80 ms
after every call: caller 2, arriving at t=10 while it recovers from caller 1's call, is told `notready` and nothing
else happens for it; the retry (caller 3) is accepted at t=80, first polled at t=85 over an inner call that never
completes, and times out at 185 = 85 + 100 — not later, and not counted from t=10 or t=80; (2) a script
`Pending, Err, Ready`: `notready`, the readiness error, then an ordinary call — the same in non-cancelling mode. -/
example :
    let rd : Rd := { recMs := 80, recAll := true }
    let ops := [Op.arrive 1 none ⟨50, .ok⟩, .poll 1, .adv 10, .arrive 2 none ⟨50, .ok⟩, .poll 2, .adv 40, .poll 1,
                .adv 30, .arrive 3 none ⟨0, .never⟩, .adv 5, .poll 3, .adv 99, .poll 3, .adv 1, .poll 3]
    let rd2 : Rd := { script := [.pending, .err, .ready] }
    let ops2 := [Op.arrive 1 none ⟨5, .ok⟩, .arrive 2 none ⟨5, .ok⟩, .arrive 3 none ⟨5, .err 1⟩, .poll 3, .adv 5, .poll 3]
    (runR { timeout := 100, cancel := true, dyn := false } rd ops).2.log =
      [.innerCall 1 0, .result 2 .notReady, .innerDone 1 0 .ok, .result 1 (.ok 0),
       .innerCall 3 1, .innerDrop 3 1, .result 3 .timeout] ∧
    (runR { timeout := 100, cancel := true, dyn := false } rd ops).2.now = 185 ∧
    (runR { timeout := 100, cancel := true, dyn := false } rd ops).1.busy = some 165 ∧
    effOps { timeout := 100, cancel := true, dyn := false } rd2 ops2 =
      [.refused 1 false, .refused 2 true, .arrive 3 none ⟨5, .err 1⟩, .poll 3, .adv 5, .poll 3] ∧
    (runR { timeout := 100, cancel := false, dyn := false } rd2 ops2).2.log =
      [.result 1 .notReady, .result 2 (.inner 9 0), .innerCall 3 0, .innerDone 3 0 (.err 1), .result 3 (.inner 1 0)] := by
  decide

/-- entry points: the three ways to a builder and a chain with a name and listeners in it give the configuration of the
bare chain; the stand-alone source of a per-request configuration, cloned and boxed, answers the request's own timeout
(7) or the default (20), that of a fixed one the fixed value; the accessors on the three kinds of result; two services
(callers 1, 2 / callers 3, 4) built from one non-cancelling layer with per-request timeouts, caller 2 re-using caller 1's
handle while that call is in flight: service 1 alone does to its callers what it does next to service 2; a zero timeout
without cancellation: timeout first, then the inner call, which completes. -/
example :
    let chain := [Setter.name "a", .cancel false, .listen 2, .fn 20, .name "b", .listen 0]
    let cfg : Cfg := { timeout := 20, cancel := false, dyn := true }
    let ops := [Op.arrive 1 (some 5) ⟨7, .ok⟩, .arrive 3 (some 0) ⟨2, .ok⟩, .poll 1, .arrive 2 (some 9) ⟨3, .err 2⟩, .poll 3,
                .poll 2, .arrive 4 none ⟨0, .never⟩, .poll 4, .adv 5, .poll 1, .poll 2, .adv 20, .poll 4]
    buildFrom .dflt chain = cfg ∧ buildFrom .new chain = cfg ∧ build chain = cfg ∧
    chain.filter Setter.isCfg = [.cancel false, .fn 20] ∧
    probeSource cfg [.clone, .box, .box] (some 7) = 7 ∧ probeSource cfg [.box] none = 20 ∧
    probeSource { cfg with dyn := false } [.box, .clone] (some 7) = 20 ∧
    (isTimeout .timeout, intoInner .timeout, asResilience .timeout) = (true, none, some (.timeout "time_limiter")) ∧
    (isTimeout (.inner 2 1), intoInner (.inner 2 1), asResilience (.inner 2 1)) = (false, some (2, 1), some (.application 2 1)) ∧
    (run cfg ops).log =
      [.innerCall 1 0, .result 3 .timeout, .innerCall 3 1, .innerCall 2 2, .innerCall 4 3,
       .innerDone 3 1 .ok, .innerDone 2 2 (.err 2), .result 1 .timeout, .result 2 (.inner 2 2), .innerDone 1 0 .ok,
       .result 4 .timeout] ∧
    (run cfg (ops.filter (Op.ofGroup (fun c => c = 1 || c = 2)))).log =
      [.innerCall 1 0, .innerCall 2 1, .innerDone 2 1 (.err 2), .result 1 .timeout, .result 2 (.inner 2 1), .innerDone 1 0 .ok] ∧
    (lookup (run cfg ops).callers 2).map (fun x => (x.start, x.tmo, x.hist)) =
      (lookup (run cfg (ops.filter (Op.ofGroup (fun c => c = 1 || c = 2)))).callers 2).map (fun x => (x.start, x.tmo, x.hist)) := by
  decide

/-- the poll discipline and the log: cancel mode, timeout 10, callers 1 (latency 4) and 2 (latency 30) first polled at 3;
the clock stops at 7 = done of caller 1 (woken, polled: its result at 7 = 3 + 4) and at 13 = deadline of caller 2
(woken, polled: timeout + drop at 13 = 3 + 10): `PolledWhenWoken` holds for both, the hypotheses of
`resolves_no_later_than_timeout` / `one_result_per_caller` / `log_cancel_drops_at_deadline` are met, the wake set is
what the theorem says.  A schedule that jumps from 7 to 20 violates the discipline for caller 2, and its timeout
line then stands at 20 > 13: the hypothesis is needed. -/
example :
    let cfg : Cfg := { timeout := 10, cancel := true, dyn := false }
    let ops := [Op.arrive 1 none ⟨4, .ok⟩, .arrive 2 none ⟨30, .ok⟩, .adv 3, .poll 1, .poll 2, .adv 4, .poll 1,
                .adv 6, .poll 2, .poll 2, .adv 50]
    let late := [Op.arrive 1 none ⟨4, .ok⟩, .arrive 2 none ⟨30, .ok⟩, .adv 3, .poll 1, .poll 2, .adv 4, .poll 1,
                 .adv 13, .poll 2]
    PolledWhenWoken cfg 1 ops ∧ PolledWhenWoken cfg 2 ops ∧
    trace cfg ops = [(3, .innerCall 1 0), (3, .innerCall 2 1), (7, .innerDone 1 0 .ok), (7, .result 1 (.ok 0)),
                     (13, .innerDrop 2 1), (13, .result 2 .timeout)] ∧
    (trace cfg ops).countP (isResultOf 2) = 1 ∧
    (trace cfg ops).filter (lineOf 2) = [(3, .innerCall 2 1), (13, .innerDrop 2 1), (13, .result 2 .timeout)] ∧
    (lookup (run cfg ops).callers 2).map (fun x => x.hist) = some [(3, .called), (13, .dropped), (13, .result .timeout)] ∧
    (run cfg (ops.take 6)).wakeSet = [1] ∧ (run cfg (ops.take 8)).wakeSet = [2] ∧ (run cfg ops).wakeSet = [] ∧
    (lookup (run cfg (ops.take 6)).callers 2).map (fun x => (x.wakeup, x.wakeAt, x.deadline)) = some (some 13, 13, 13) ∧
    ¬ PolledWhenWoken cfg 2 late ∧ PolledWhenWoken cfg 1 late ∧
    trace cfg late = [(3, .innerCall 1 0), (3, .innerCall 2 1), (7, .innerDone 1 0 .ok), (7, .result 1 (.ok 0)),
                      (20, .innerDrop 2 1), (20, .result 2 .timeout)] := by
  decide

/-- the same without cancellation (per-request timeouts): caller 1 (timeout 5, latency 7) is woken by its timer at 5 and told
`err:timeout` at 5 = 0 + 5, the detached call completes at 7; caller 2 (timeout 9, latency 0) is woken right after its first
poll (the task has completed at once) and gets the inner result at 0; caller 3 (timeout 0, latency 0): the tie that goes to
the timeout, reported by the first poll before the inner call is started — the exception in `log_timeout_only_if_unfinished`;
caller 4 (`Duration::MAX` over a never-completing call): nothing armed, pending for ever. -/
example :
    let cfg : Cfg := { timeout := 50, cancel := false, dyn := true }
    let ops := [Op.arrive 1 (some 5) ⟨7, .ok⟩, .arrive 2 (some 9) ⟨0, .err 1⟩, .arrive 3 (some 0) ⟨0, .ok⟩,
                .arrive 4 (some .max) ⟨0, .never⟩, .poll 1, .poll 2, .poll 2, .poll 3, .poll 4, .adv 5, .poll 1, .adv 2,
                .adv 1000, .poll 4]
    PolledWhenWoken cfg 1 ops ∧ PolledWhenWoken cfg 2 ops ∧ PolledWhenWoken cfg 3 ops ∧ PolledWhenWoken cfg 4 ops ∧
    trace cfg ops = [(0, .innerCall 1 0), (0, .innerCall 2 1), (0, .innerDone 2 1 (.err 1)), (0, .result 2 (.inner 1 1)),
                     (0, .result 3 .timeout), (0, .innerCall 3 2), (0, .innerDone 3 2 .ok), (0, .innerCall 4 3),
                     (5, .result 1 .timeout), (7, .innerDone 1 0 .ok)] ∧
    (run cfg (ops.take 6)).wakeSet = [2] ∧ (run cfg (ops.take 10)).wakeSet = [1] ∧
    (lookup (run cfg ops).callers 4).map (fun x => (x.outer, x.wakeup)) = some (.waiting, none) ∧
    (lookup (run cfg ops).callers 1).map (fun x => x.hist) =
      some [(0, .called), (5, .result .timeout), (7, .done .ok)] := by
  decide

/-- hypotheses of the older trace theorems, met by reachable records: a settled state (`settled_none_overdue`), a history
holding a timeout with its drop (`intime_result_never_lost`, `cancel_drops_at_deadline`), a running detached call before the
advance that completes it (`nocancel_runs_to_completion`) -/
example :
    let cfg : Cfg := { timeout := 10, cancel := true, dyn := false }
    let ops := [Op.arrive 1 none ⟨4, .ok⟩, .arrive 2 none ⟨11, .err 2⟩, .adv 3, .poll 1, .poll 2, .adv 3]
    let nc : Cfg := { timeout := 10, cancel := false, dyn := false }
    Settled cfg (run cfg ops) ∧ ¬ Settled cfg (run cfg (ops ++ [.adv 1])) ∧
    (lookup (run cfg (ops ++ [.adv 7, .poll 2])).callers 2).map (fun x => (x.hist, x.deadline, x.doneAt)) =
      some ([(3, .called), (13, .dropped), (13, .result .timeout)], 13, 14) ∧
    (lookup (run nc [.arrive 1 none ⟨7, .ok⟩, .poll 1]).callers 1).map (fun x => x.inner) = some .running ∧
    newEvents nc (run nc [.arrive 1 none ⟨7, .ok⟩, .poll 1]) (.adv 7) = [.innerDone 1 0 .ok] := by
  decide

/-- a panicking inner call (`panicking_inner_call`): without cancellation the caller, woken at 3 by the dropped sender, is told
`err:timeout` at 3 although its deadline is 10; with cancellation the panic reaches the caller -/
example :
    let ops := [Op.arrive 1 none ⟨3, .panic⟩, .poll 1, .adv 3, .poll 1]
    trace { timeout := 10, cancel := false, dyn := false } ops =
      [(0, .innerCall 1 0), (3, .innerDone 1 0 .panic), (3, .result 1 .timeout)] ∧
    (run { timeout := 10, cancel := false, dyn := false } (ops.take 3)).woken 1 = true ∧
    (lookup (run { timeout := 10, cancel := false, dyn := false } ops).callers 1).map (fun x => x.deadline) = some 10 ∧
    trace { timeout := 10, cancel := true, dyn := false } ops =
      [(0, .innerCall 1 0), (3, .innerDone 1 0 .panic), (3, .result 1 .panic)] := by
  decide

end TR.Props.C06
